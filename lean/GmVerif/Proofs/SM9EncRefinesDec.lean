/-
C10b, decryption half: `Sm9EncKey::decrypt` of the model (fixed code: C1 coordinates ≥ p are `InvalidPoint`) against
GM/T 0044.4 §7.3 (`Spec.SM9.decrypt`), given `PairingRefines`.  `decrypt_model` says what the model does on EVERY
ciphertext inside its length window, `spec_decrypt_iff` is the standard's side; the refinement follows.
-/
import GmVerif.Proofs.SM9EncRefinesBase
import GmVerif.Proofs.Modes
set_option autoImplicit false
namespace GmVerif.Proofs.SM9EncRefinesDec
open GmVerif GmVerif.Impl.SM9
open GmVerif.Proofs.SM9Bridge (dense TowerDense PairingRefines InG2)
open GmVerif.Proofs.SM9G1 (Valid toSpec Fp)
open GmVerif.Proofs.SM9G2Impl (toSpec2)
open GmVerif.Proofs.SM9EncRefinesBase
open GmVerif.Spec.SM9 (curve N p)

/-- the two coordinates of the C1 field of a ciphertext, as big-endian numbers (bytes 1..32 and 33..64) -/
def c1X (ct : List UInt8) : Nat := beNat ((ct.drop 1).take 32)
def c1Y (ct : List UInt8) : Nat := beNat ((ct.drop 33).take 32)

/-- both coordinates are field elements in canonical form -/
def CanonC1 (ct : List UInt8) : Prop := c1X ct < p ∧ c1Y ct < p
instance (ct : List UInt8) : Decidable (CanonC1 ct) := by unfold CanonC1; infer_instance

theorem beNat_take32_lt (l : List UInt8) : beNat (l.take 32) < 2 ^ 256 := by
  have h := SM9Field.beNat_lt (l.take 32)
  have hl : (l.take 32).length ≤ 32 := by rw [List.length_take]; omega
  calc beNat (l.take 32) < 256 ^ (l.take 32).length := h
    _ ≤ 256 ^ 32 := Nat.pow_le_pow_right (by decide) hl
    _ = 2 ^ 256 := by decide

theorem take65_X (ct : List UInt8) : (List.drop 1 (ct.take 65)).take 32 = (ct.drop 1).take 32 := by
  rw [List.drop_take, List.take_take]; rfl
theorem take65_Y (ct : List UInt8) : (List.drop 33 (ct.take 65)).take 32 = (ct.drop 33).take 32 := by
  rw [List.drop_take, List.take_take]; rfl

/-- the point `Point::from_bytes` builds from the C1 field: (X mod p, Y mod p, 1) in the Montgomery domain -/
theorem fromBytes_mk (ct : List UInt8) :
    SM9Logic.fromBytesPt (ct.take 65) = SM9G1.mk ((c1X ct : Nat) : Fp) ((c1Y ct : Nat) : Fp) 1 := by
  unfold SM9Logic.fromBytesPt SM9G1.mk c1X c1Y
  rw [take65_X, take65_Y, SM9G1.fp_to_mont_eq _ (beNat_take32_lt _), SM9G1.fp_to_mont_eq _ (beNat_take32_lt _),
    SM9G1.mont_one_eq]

theorem onCurve_red (X Y : Nat) :
    Spec.EC.onCurve curve (some (X % p, Y % p)) = true ↔ ((Y : Fp)) ^ 2 = (X : Fp) ^ 3 + SM9G1.cb * 1 ^ 6 := by
  have h := SM9G1.onCurve_val (X : Fp) (Y : Fp)
  rw [ZMod.val_natCast, ZMod.val_natCast, SM9G1.ca_eq] at h
  rw [h]
  constructor <;> (intro e; linear_combination e)

/-- the parsed C1: on the curve (the model's test) iff the REDUCED point is a point of the specification's curve; then it is
a valid representation of that point -/
theorem fromBytes_facts (ct : List UInt8) :
    ((SM9Logic.fromBytesPt (ct.take 65)).is_on_curve = true ↔
        Spec.EC.onCurve curve (some (c1X ct % p, c1Y ct % p)) = true)
    ∧ ((SM9Logic.fromBytesPt (ct.take 65)).is_on_curve = true →
        Valid (SM9Logic.fromBytesPt (ct.take 65))
        ∧ toSpec (SM9Logic.fromBytesPt (ct.take 65)) = some (c1X ct % p, c1Y ct % p)) := by
  rw [fromBytes_mk, SM9G1.is_on_curve_mk, onCurve_red]
  refine ⟨Iff.rfl, fun h => ⟨(SM9G1.valid_mk_iff _ _ _).2 (fun _ => h), ?_⟩⟩
  rw [SM9G1.toSpec_mk_of_ne one_ne_zero]
  simp only [one_pow, div_one, ZMod.val_natCast]

/-! ### the model on every ciphertext inside the window -/

/-- the standard's B2–B6 for a given C1 (a point of the curve), keyed with the octets `c1oct` of C1 -/
def decTail (de : Spec.SM9.Pt2) (idb ct : List UInt8) (C1 : Nat × Nat) (c1oct : List UInt8) (msg : List UInt8) : Prop :=
  let C2 := ct.drop 97
  let C3 := (ct.drop 65).take 32
  let K := Spec.SM9.kdf (c1oct ++ Spec.SM9.Fp12.toBytes (Spec.SM9.pairing (some C1) de) ++ idb) (C2.length + 32)
  (K.take C2.length).all (· == 0) = false ∧ Spec.SM9.mac (K.drop C2.length) C2 = C3
    ∧ msg = Spec.SM9.xorBytes C2 (K.take C2.length)

/-- `Sm9EncKey::decrypt` on a ciphertext of 98..352 bytes, for a private key in G2: success means prefix 04, both
coordinates field elements, the point on the curve, and B2–B6 of the standard -/
theorem decrypt_model (PR : PairingRefines) (key : Sm9EncKey) (hde : InG2 key.de) (idb ct msg : List UInt8)
    (h1 : 98 ≤ ct.length) (h2 : ct.length ≤ 352) :
    key.decrypt idb ct = .ok msg ↔
      ct.head? = some 0x04 ∧ CanonC1 ct ∧ Spec.EC.onCurve curve (some (c1X ct, c1Y ct)) = true
      ∧ decTail (toSpec2 key.de) idb ct (c1X ct, c1Y ct) ((ct.take 65).drop 1) msg := by
  rw [SM9Logic.decrypt_ok_iff]
  have hfb := SM9Logic.from_bytes_ok (ct.take 65) (by rw [List.length_take]; omega)
  obtain ⟨hon, hval⟩ := fromBytes_facts ct
  have hC2 : (ct.drop 97).length = ct.length - 97 := List.length_drop
  have hm : ct.length - 97 ≤ 255 := by omega
  -- the tail, once C1 is known to be canonical and on the curve
  have tail : CanonC1 ct → (SM9Logic.fromBytesPt (ct.take 65)).is_on_curve = true →
      ((let k := kdf ((ct.take 65).drop 1 ++ (sm9_u256_pairing key.de (SM9Logic.fromBytesPt (ct.take 65))).to_bytes_be
            ++ idb) 287
        let mlen := ct.length - 97
        all_zero (k.take mlen) = false ∧ sm3 (ct.drop 97 ++ ((k.drop mlen).take 32)) = (ct.drop 65).take 32 ∧
        msg = List.zipWith (· ^^^ ·) (ct.drop 97) (k.take mlen))
      ↔ decTail (toSpec2 key.de) idb ct (c1X ct, c1Y ct) ((ct.take 65).drop 1) msg) := by
    intro hcan hoc
    obtain ⟨hv, hs⟩ := hval hoc
    rw [Nat.mod_eq_of_lt hcan.1, Nat.mod_eq_of_lt hcan.2] at hs
    rw [pairing_de PR key.de hde _ hv, hs]
    unfold decTail
    simp only [hC2]
    obtain ⟨e1, e2⟩ := SM9Logic.kdf_287_split ((ct.take 65).drop 1
      ++ Spec.SM9.Fp12.toBytes (Spec.SM9.pairing (some (c1X ct, c1Y ct)) (toSpec2 key.de)) ++ idb)
      (ct.length - 97) hm
    rw [e1, e2]
    simp only [all_zero, Spec.SM9.mac, Spec.SM9.hash, SM9Logic.sm3_eq, Spec.SM9.xorBytes]
  have honc : CanonC1 ct → ((SM9Logic.fromBytesPt (ct.take 65)).is_on_curve = true ↔
      Spec.EC.onCurve curve (some (c1X ct, c1Y ct)) = true) := by
    intro hcan
    rw [hon, Nat.mod_eq_of_lt hcan.1, Nat.mod_eq_of_lt hcan.2]
  constructor
  · rintro ⟨_, _, hh, hx, hy, c1, hc1, hoc, ht⟩
    rw [hfb] at hc1; cases hc1
    have hcan : CanonC1 ct := ⟨hx, hy⟩
    exact ⟨hh, hcan, (honc hcan).1 hoc, (tail hcan hoc).1 ht⟩
  · rintro ⟨hh, hcan, hoc, ht⟩
    exact ⟨h1, h2, hh, hcan.1, hcan.2, _, hfb, (honc hcan).2 hoc, (tail hcan ((honc hcan).2 hoc)).2 ht⟩

/-! ### the specification on every ciphertext -/

theorem decodePoint_eq (b : List UInt8) (hl : b.length = 65) :
    Spec.SM9.decodePoint b =
      if b.head? = some 0x04 ∧ Spec.EC.onCurve curve (some (beNat ((b.drop 1).take 32), beNat ((b.drop 33).take 32))) = true
      then some (beNat ((b.drop 1).take 32), beNat ((b.drop 33).take 32)) else none := by
  cases b with
  | nil => simp at hl
  | cons pc rest =>
    have hr : rest.length = 64 := by simpa using hl
    have e1 : (rest.drop 32).take 32 = rest.drop 32 :=
      List.take_of_length_le (by rw [List.length_drop]; omega)
    simp only [Spec.SM9.decodePoint, List.drop_succ_cons, List.drop_zero, List.head?_cons, Option.some.injEq]
    by_cases hpc : pc = 4
    · subst hpc
      simp [hr, e1]
    · simp [hpc]

theorem natBE32_beNat (l : List UInt8) (h : l.length = 32) : natBE 32 (beNat l) = l := by
  have := Proofs.Modes.natBE_beNat l; rwa [h] at this

theorem c1_octets (ct : List UInt8) (h : 65 ≤ ct.length) :
    Spec.SM9.bytes32 (c1X ct) ++ Spec.SM9.bytes32 (c1Y ct) = (ct.take 65).drop 1 := by
  unfold Spec.SM9.bytes32 c1X c1Y
  rw [natBE32_beNat _ (by rw [List.length_take, List.length_drop]; omega),
    natBE32_beNat _ (by rw [List.length_take, List.length_drop]; omega)]
  have e : (ct.take 65).drop 1 = (ct.drop 1).take 64 := by rw [List.drop_take]
  rw [e]
  have e2 : ct.drop 33 = (ct.drop 1).drop 32 := by rw [List.drop_drop]
  rw [e2, show (64 : Nat) = 32 + 32 from rfl, List.take_add]

/-- GM/T 0044.4 §7.3 on every byte string -/
theorem spec_decrypt_iff (de : Spec.SM9.Pt2) (idb ct msg : List UInt8) :
    Spec.SM9.decrypt de idb ct = some msg ↔
      98 ≤ ct.length ∧ ct.head? = some 0x04 ∧ CanonC1 ct
      ∧ Spec.EC.onCurve curve (some (c1X ct, c1Y ct)) = true
      ∧ decTail de idb ct (c1X ct, c1Y ct) ((ct.take 65).drop 1) msg := by
  unfold Spec.SM9.decrypt
  by_cases hlen : ct.length < 65 + 32
  · rw [if_pos hlen]
    constructor
    · intro h; cases h
    · rintro ⟨h, _⟩; omega
  · rw [if_neg hlen]
    have h65 : (ct.take 65).length = 65 := by rw [List.length_take]; omega
    have hhead : (ct.take 65).head? = ct.head? := by
      cases ct with
      | nil => simp at hlen
      | cons a t => rfl
    simp only []
    rw [decodePoint_eq _ h65, take65_X, take65_Y, hhead]
    show (match (if ct.head? = some 0x04 ∧ Spec.EC.onCurve curve (some (c1X ct, c1Y ct)) = true
        then some (c1X ct, c1Y ct) else none) with
      | none => none
      | some C1 => _) = some msg ↔ _
    by_cases hc : ct.head? = some 0x04 ∧ Spec.EC.onCurve curve (some (c1X ct, c1Y ct)) = true
    · rw [if_pos hc]
      have hcan : CanonC1 ct := by
        have := hc.2
        simp only [Spec.EC.onCurve, Bool.and_eq_true, decide_eq_true_eq] at this
        exact ⟨this.1.1, this.1.2⟩
      simp only [Spec.SM9.pointBytes, Spec.SM9.k2Len, c1_octets ct (by omega)]
      unfold decTail
      simp only []
      by_cases hz : (List.take (List.drop 97 ct).length (Spec.SM9.kdf (List.drop 1 (List.take 65 ct)
          ++ Spec.SM9.Fp12.toBytes (Spec.SM9.pairing (some (c1X ct, c1Y ct)) de) ++ idb)
          ((List.drop 97 ct).length + 32))).all (· == 0) = true
      · rw [if_pos hz]
        constructor
        · intro h; cases h
        · rintro ⟨_, _, _, _, h, _⟩; rw [hz] at h; cases h
      · rw [if_neg hz]
        have hz' := (Bool.not_eq_true _).mp hz
        by_cases hmac : Spec.SM9.mac (List.drop (List.drop 97 ct).length (Spec.SM9.kdf (List.drop 1 (List.take 65 ct)
            ++ Spec.SM9.Fp12.toBytes (Spec.SM9.pairing (some (c1X ct, c1Y ct)) de) ++ idb)
            ((List.drop 97 ct).length + 32))) (List.drop 97 ct) ≠ List.take 32 (List.drop 65 ct)
        · rw [if_pos hmac]
          constructor
          · intro h; cases h
          · rintro ⟨_, _, _, _, _, h, _⟩; exact absurd h hmac
        · rw [if_neg hmac]
          have hmac' := Decidable.of_not_not hmac
          constructor
          · intro h
            simp only [Option.some.injEq] at h
            refine ⟨?_, hc.1, hcan, hc.2, hz', hmac', h.symm⟩
            -- length 97 is impossible: K1 would be empty, hence all zero
            rcases Nat.lt_or_ge ct.length 98 with h97 | h98
            · have : (List.drop 97 ct).length = 0 := by rw [List.length_drop]; omega
              rw [this] at hz'
              simp at hz'
            · exact h98
          · rintro ⟨_, _, _, _, _, _, h⟩
            rw [h]
    · rw [if_neg hc]
      constructor
      · intro h; cases h
      · rintro ⟨_, hh, _, ho, _⟩; exact absurd ⟨hh, ho⟩ hc

/-! ### the refinement -/

/-- inside the model's length window (at most 255 message octets) the model decrypts exactly what the standard decrypts:
every private key in G2, every identity, every byte string -/
theorem decrypt_refines (PR : PairingRefines) (key : Sm9EncKey) (hde : InG2 key.de) (idb ct msg : List UInt8)
    (hlen : ct.length ≤ 352) :
    key.decrypt idb ct = .ok msg ↔ Spec.SM9.decrypt (toSpec2 key.de) idb ct = some msg := by
  rw [spec_decrypt_iff]
  by_cases h1 : 98 ≤ ct.length
  · rw [decrypt_model PR key hde idb ct msg h1 hlen]
    constructor
    · rintro ⟨a, b, c, d⟩; exact ⟨h1, a, b, c, d⟩
    · rintro ⟨_, a, b, c, d⟩; exact ⟨a, b, c, d⟩
  · constructor
    · intro h
      rw [SM9Logic.decrypt_bad_length key idb ct (by omega)] at h; cases h
    · rintro ⟨h, _⟩; omega

/-- every byte string: the exact relation between the two -/
theorem decrypt_exact (PR : PairingRefines) (key : Sm9EncKey) (hde : InG2 key.de) (idb ct msg : List UInt8) :
    key.decrypt idb ct = .ok msg ↔
      (Spec.SM9.decrypt (toSpec2 key.de) idb ct = some msg ∧ ct.length ≤ 352) := by
  constructor
  · intro h
    have hl : ct.length ≤ 352 := ((SM9Logic.decrypt_ok_iff key idb ct msg).1 h).2.1
    exact ⟨(decrypt_refines PR key hde idb ct msg hl).1 h, hl⟩
  · rintro ⟨h, hl⟩
    exact (decrypt_refines PR key hde idb ct msg hl).2 h

/-- a C1 coordinate that is not reduced modulo p: the standard rejects (the octet string is not a point) … -/
theorem spec_rejects_noncanonical (de : Spec.SM9.Pt2) (idb ct : List UInt8) (h : ¬ CanonC1 ct) :
    Spec.SM9.decrypt de idb ct = none := by
  cases hd : Spec.SM9.decrypt de idb ct with
  | none => rfl
  | some msg => exact absurd ((spec_decrypt_iff de idb ct msg).1 hd).2.2.1 h

/-- … and so does the model (the fixed code), with `InvalidPoint` when the length and the prefix are right -/
theorem model_rejects_noncanonical (key : Sm9EncKey) (idb ct : List UInt8) (h : ¬ CanonC1 ct) :
    (∃ e, key.decrypt idb ct = .err e)
    ∧ (98 ≤ ct.length → ct.length ≤ 352 → ct.head? = some 0x04 → key.decrypt idb ct = .err "InvalidPoint") := by
  have hnc : p ≤ beNat ((ct.drop 1).take 32) ∨ p ≤ beNat ((ct.drop 33).take 32) := by
    unfold CanonC1 c1X c1Y at h; omega
  refine ⟨?_, fun h1 h2 hh => SM9Logic.decrypt_noncanonical key idb ct h1 h2 hh hnc⟩
  cases hd : key.decrypt idb ct with
  | ok m => exact absurd ⟨((SM9Logic.decrypt_ok_iff key idb ct m).1 hd).2.2.2.1,
      ((SM9Logic.decrypt_ok_iff key idb ct m).1 hd).2.2.2.2.1⟩ h
  | err e => exact ⟨e, rfl⟩
  | panic => exact absurd hd (SM9Logic.decrypt_total key idb ct)

/-- more than 255 message bytes: the model refuses (`InvalidFieldLen`) whatever the standard says -/
theorem model_rejects_long (key : Sm9EncKey) (idb ct : List UInt8) (h : 352 < ct.length) :
    key.decrypt idb ct = .err "InvalidFieldLen" := SM9Logic.decrypt_bad_length key idb ct (Or.inr h)

end GmVerif.Proofs.SM9EncRefinesDec
