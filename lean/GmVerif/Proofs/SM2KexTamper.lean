/-
Helper lemmas for C15b: control flow of the SM2 key-agreement model `Impl.SM2.kex` under tampering.
Point operations stay opaque.  Core Lean only.
-/
import GmVerif.Proofs.SM2Logic

namespace GmVerif.Proofs.SM2KexTamper
open GmVerif GmVerif.Impl.SM2

/-- everything both parties have computed when A is about to compare S_1 with the received S_B -/
structure KexMid where
  ra : List UInt8
  rb : List UInt8
  /-- S_B as B computed it -/
  sb : List UInt8
  /-- S_1 as A computed it -/
  s1 : List UInt8
  /-- S_A as A computed it -/
  sa : List UInt8
  /-- S_2 as B computed it -/
  s2 : List UInt8
  ka : List UInt8
  kb : List UInt8

/-- `kex` up to (excluding) the comparison of the confirmation hashes; `fra` / `frb`: R_A / R_B altered in transit -/
def kexPre (dA : Nat) (pA : Point) (dB : Nat) (pB : Point) (idA idB : List UInt8) (klen : Nat)
    (cands : List (List UInt8)) (fra frb : Bool) : Outcome KexMid :=
  match compute_za idA pA, compute_za idB pB with
  | .ok za, .ok zb =>
    match random_u256 cands with
    | none => .err "rng-exhausted"
    | some (rA, cands) =>
      let raPoint := g_mul rA
      let raB := if fra then flipPoint raPoint else raPoint
      if ¬ raB.is_valid then .err "step2:CheckPointErr"
      else match random_u256 cands with
      | none => .err "rng-exhausted"
      | some (rB, _) =>
        let rbPoint := g_mul rB
        let r2a := rbPoint.to_affine_point
        let x2 := fp_from_mont r2a.x
        let y2 := fp_from_mont r2a.y
        let t2 := fn_add dB (fn_mul rB (xbar x2))
        let ra_aff := raB.to_affine_point
        let x1 := fp_from_mont ra_aff.x
        let y1 := fp_from_mont ra_aff.y
        let v := (pA.point_add (raB.scalar_mul (xbar x1))).scalar_mul t2
        if v.is_zero then .err "step2:ZeroPoint"
        else
          let va := v.to_affine_point
          let xv := bytes32 (fp_from_mont va.x)
          let yv := bytes32 (fp_from_mont va.y)
          let kb := kdf (xv ++ yv ++ za ++ zb) klen
          let innerB := sm3 (xv ++ za ++ zb ++ bytes32 x1 ++ bytes32 y1 ++ bytes32 x2 ++ bytes32 y2)
          let sb := sm3 ([0x02] ++ yv ++ innerB)
          let rbA := if frb then flipPoint rbPoint else rbPoint
          if ¬ rbA.is_valid then .err "step3:CheckPointErr"
          else
            let ra_aff' := raPoint.to_affine_point
            let x1a := fp_from_mont ra_aff'.x
            let y1a := fp_from_mont ra_aff'.y
            let tA := fn_add dA (fn_mul rA (xbar x1a))
            let rb_aff := rbA.to_affine_point
            let x2a := fp_from_mont rb_aff.x
            let y2a := fp_from_mont rb_aff.y
            let u := (pB.point_add (rbA.scalar_mul (xbar x2a))).scalar_mul tA
            if u.is_zero then .err "step3:ZeroPoint"
            else
              let ua := u.to_affine_point
              let xu := bytes32 (fp_from_mont ua.x)
              let yu := bytes32 (fp_from_mont ua.y)
              let ka := kdf (xu ++ yu ++ za ++ zb) klen
              let innerA := sm3 (xu ++ za ++ zb ++ bytes32 x1a ++ bytes32 y1a ++ bytes32 x2a ++ bytes32 y2a)
              let s1 := sm3 ([0x02] ++ yu ++ innerA)
              let sa := sm3 ([0x03] ++ yu ++ innerA)
              let s2 := sm3 ([0x03] ++ yv ++ innerB)
              .ok ⟨raPoint.to_byte_be false, rbPoint.to_byte_be false, sb, s1, sa, s2, ka, kb⟩
  | .err e, _ => .err e
  | _, .err e => .err e
  | _, _ => .panic

/-- the two comparisons (`exchange_3`: S_1 = S_B, `exchange_4`: S_2 = S_A) on what arrives -/
def kexFinish (fsb fsa : Bool) (m : KexMid) : Outcome KexOut :=
  if m.s1 ≠ (if fsb then flipFirst m.sb else m.sb) then .err "step3:HashNotEqual"
  else if m.s2 ≠ (if fsa then flipLast m.sa else m.sa) then .err "step4:false"
  else .ok ⟨m.ra, m.rb, m.sb, m.sa, m.ka, m.kb⟩

theorem kex_eq (dA : Nat) (pA : Point) (dB : Nat) (pB : Point) (idA idB : List UInt8) (klen : Nat)
    (cands : List (List UInt8)) (tamper : List String) :
    kex dA pA dB pB idA idB klen cands tamper
      = (kexPre dA pA dB pB idA idB klen cands (tamper.contains "ra") (tamper.contains "rb")).bind
          (kexFinish (tamper.contains "sb") (tamper.contains "sa")) := by
  unfold kex kexPre
  generalize tamper.contains "ra" = fra
  generalize tamper.contains "rb" = frb
  generalize tamper.contains "sb" = fsb
  generalize tamper.contains "sa" = fsa
  cases compute_za idA pA <;> cases compute_za idB pB <;> try rfl
  dsimp only
  cases random_u256 cands with
  | none => rfl
  | some p =>
    obtain ⟨rA, c2⟩ := p
    dsimp only
    generalize (if fra = true then flipPoint (g_mul rA) else g_mul rA) = raB
    split
    · rfl
    · cases random_u256 c2 with
      | none => rfl
      | some q =>
        obtain ⟨rB, c3⟩ := q
        dsimp only
        generalize (if frb = true then flipPoint (g_mul rB) else g_mul rB) = rbA
        split
        · rfl
        · split
          · rfl
          · split
            · rfl
            · rfl

/-! ### the adversary's alterations really alter -/

theorem xor_one_ne (b : UInt8) : b ^^^ 1 ≠ b := by
  intro h
  have h2 : b ^^^ (b ^^^ 1) = b ^^^ b := by rw [h]
  rw [← UInt8.xor_assoc, UInt8.xor_self, UInt8.zero_xor] at h2
  exact absurd h2 (by decide)

theorem xor_80_ne (b : UInt8) : b ^^^ 0x80 ≠ b := by
  intro h
  have h2 : b ^^^ (b ^^^ 0x80) = b ^^^ b := by rw [h]
  rw [← UInt8.xor_assoc, UInt8.xor_self, UInt8.zero_xor] at h2
  exact absurd h2 (by decide)

/-- flipping the lowest bit of the first byte changes every non-empty string (in particular a 32-byte hash) -/
theorem flipFirst_ne' (h : List UInt8) (hl : h ≠ []) : flipFirst h ≠ h := by
  cases h with
  | nil => exact absurd rfl hl
  | cons b r =>
    intro e
    simp only [flipFirst, List.cons.injEq, and_true] at e
    exact xor_one_ne b e

theorem flipFirst_ne (h : List UInt8) (hl : h.length = 32) : flipFirst h ≠ h :=
  flipFirst_ne' h (by intro e; rw [e] at hl; cases hl)

theorem flipFirst_length (h : List UInt8) : (flipFirst h).length = h.length := by
  cases h <;> rfl

/-- flipping the highest bit of the last byte changes every 32-byte string -/
theorem flipLast_ne (h : List UInt8) (hl : h.length = 32) : flipLast h ≠ h := by
  intro e
  have e2 := congrArg (List.drop 31) e
  have ht : (h.take 31).length = 31 := by rw [List.length_take]; omega
  rw [flipLast, List.drop_left' ht] at e2
  obtain ⟨x, hx⟩ : ∃ x, h.drop 31 = [x] := by
    have : (h.drop 31).length = 1 := by rw [List.length_drop]; omega
    match h.drop 31, this with
    | [x], _ => exact ⟨x, rfl⟩
  rw [hx] at e2
  simp only [List.map_cons, List.map_nil, List.cons.injEq, and_true] at e2
  exact xor_80_ne x e2

theorem flipLast_length (h : List UInt8) : (flipLast h).length = h.length := by
  simp only [flipLast, List.length_append, List.length_take, List.length_map, List.length_drop]
  omega

/-! ### facts about the common part -/

theorem compute_za_err (id : List UInt8) (pk : Point) (e : String) (h : compute_za id pk = .err e) :
    e = "InvalidPublic" ∨ e = "IdTooLong" := by
  unfold compute_za at h
  split at h
  · cases h; exact Or.inl rfl
  · split at h
    · cases h; exact Or.inr rfl
    · cases h

/-- the error kinds of the common part: none of them is one of the two confirmation failures -/
theorem kexPre_err (dA : Nat) (pA : Point) (dB : Nat) (pB : Point) (idA idB : List UInt8) (klen : Nat)
    (cands : List (List UInt8)) (fra frb : Bool) (e : String)
    (h : kexPre dA pA dB pB idA idB klen cands fra frb = .err e) :
    e ∈ ["InvalidPublic", "IdTooLong", "rng-exhausted", "step2:CheckPointErr", "step2:ZeroPoint",
         "step3:CheckPointErr", "step3:ZeroPoint"] := by
  unfold kexPre at h
  cases h1 : compute_za idA pA with
  | panic =>
    rw [h1] at h
    cases h2 : compute_za idB pB with
    | ok zb => rw [h2] at h; cases h
    | panic => rw [h2] at h; cases h
    | err e2 =>
      rw [h2] at h
      cases h
      rcases compute_za_err _ _ _ h2 with rfl | rfl <;> simp
  | err e1 =>
    rw [h1] at h
    cases h
    rcases compute_za_err _ _ _ h1 with rfl | rfl <;> simp
  | ok za =>
    rw [h1] at h
    cases h2 : compute_za idB pB with
    | panic => rw [h2] at h; cases h
    | err e2 =>
      rw [h2] at h
      cases h
      rcases compute_za_err _ _ _ h2 with rfl | rfl <;> simp
    | ok zb =>
      rw [h2] at h
      dsimp only at h
      cases h3 : random_u256 cands with
      | none => rw [h3] at h; cases h; simp
      | some p =>
        obtain ⟨rA, c2⟩ := p
        rw [h3] at h
        dsimp only at h
        generalize (if fra = true then flipPoint (g_mul rA) else g_mul rA) = raB at h
        split at h
        · cases h; simp
        · cases h4 : random_u256 c2 with
          | none => rw [h4] at h; cases h; simp
          | some q =>
            obtain ⟨rB, c3⟩ := q
            rw [h4] at h
            dsimp only at h
            generalize (if frb = true then flipPoint (g_mul rB) else g_mul rB) = rbA at h
            split at h
            · cases h; simp
            · split at h
              · cases h; simp
              · split at h
                · cases h; simp
                · cases h

/-- a common part that succeeds: the four confirmation values are 32-byte hashes, the keys have the requested
length, and both ephemeral points as received passed `is_valid` -/
theorem kexPre_ok (dA : Nat) (pA : Point) (dB : Nat) (pB : Point) (idA idB : List UInt8) (klen : Nat)
    (cands : List (List UInt8)) (fra frb : Bool) (m : KexMid)
    (h : kexPre dA pA dB pB idA idB klen cands fra frb = .ok m) :
    m.sb.length = 32 ∧ m.s1.length = 32 ∧ m.sa.length = 32 ∧ m.s2.length = 32
      ∧ (1 ≤ klen → m.ka.length = klen ∧ m.kb.length = klen)
      ∧ ∃ rA c2 rB c3, random_u256 cands = some (rA, c2) ∧ random_u256 c2 = some (rB, c3)
          ∧ (if fra then flipPoint (g_mul rA) else g_mul rA).is_valid = true
          ∧ (if frb then flipPoint (g_mul rB) else g_mul rB).is_valid = true
          ∧ m.ra = (g_mul rA).to_byte_be false ∧ m.rb = (g_mul rB).to_byte_be false := by
  unfold kexPre at h
  cases h1 : compute_za idA pA <;> cases h2 : compute_za idB pB <;> rw [h1, h2] at h <;> try cases h
  dsimp only at h
  cases h3 : random_u256 cands with
  | none => rw [h3] at h; cases h
  | some p =>
    obtain ⟨rA, c2⟩ := p
    rw [h3] at h
    dsimp only at h
    generalize hraB : (if fra = true then flipPoint (g_mul rA) else g_mul rA) = raB at h
    split at h
    · cases h
    · next hva =>
      cases h4 : random_u256 c2 with
      | none => rw [h4] at h; cases h
      | some q =>
        obtain ⟨rB, c3⟩ := q
        rw [h4] at h
        dsimp only at h
        generalize hrbA : (if frb = true then flipPoint (g_mul rB) else g_mul rB) = rbA at h
        split at h
        · cases h
        · split at h
          · cases h
          · next hvb =>
            split at h
            · cases h
            · cases h
              refine ⟨SM2Logic.sm3_length _, SM2Logic.sm3_length _, SM2Logic.sm3_length _, SM2Logic.sm3_length _,
                fun hk => ⟨SM2Logic.kdf_length _ _ hk, SM2Logic.kdf_length _ _ hk⟩,
                rA, c2, rB, c3, by first | rfl | exact h3, by first | rfl | exact h4, ?_, ?_, rfl, rfl⟩
              · rw [hraB]; exact Decidable.not_not.mp hva
              · rw [hrbA]; exact Decidable.not_not.mp hvb

theorem kexPre_ne_panic (dA : Nat) (pA : Point) (dB : Nat) (pB : Point) (idA idB : List UInt8) (klen : Nat)
    (cands : List (List UInt8)) (fra frb : Bool) :
    kexPre dA pA dB pB idA idB klen cands fra frb ≠ .panic := by
  unfold kexPre
  have t1 := SM2Logic.compute_za_total idA pA
  have t2 := SM2Logic.compute_za_total idB pB
  cases h1 : compute_za idA pA <;> cases h2 : compute_za idB pB <;>
    first
      | exact absurd h1 t1
      | exact absurd h2 t2
      | skip
  · dsimp only
    repeat' split
    all_goals (intro h; cases h)
  · (intro h; cases h)
  · (intro h; cases h)
  · (intro h; cases h)

theorem kexFinish_ne_panic (fsb fsa : Bool) (m : KexMid) : kexFinish fsb fsa m ≠ .panic := by
  unfold kexFinish
  repeat' split
  all_goals (intro h; cases h)

/-! ### the run as a whole -/

theorem kex_total (dA : Nat) (pA : Point) (dB : Nat) (pB : Point) (idA idB : List UInt8) (klen : Nat)
    (cands : List (List UInt8)) (tamper : List String) :
    kex dA pA dB pB idA idB klen cands tamper ≠ .panic := by
  rw [kex_eq]
  have hp := kexPre_ne_panic dA pA dB pB idA idB klen cands (tamper.contains "ra") (tamper.contains "rb")
  cases h : kexPre dA pA dB pB idA idB klen cands (tamper.contains "ra") (tamper.contains "rb") with
  | ok m => exact kexFinish_ne_panic _ _ m
  | err e => (intro h; cases h)
  | panic => exact absurd h hp

/-- a successful run -/
theorem kex_ok (dA : Nat) (pA : Point) (dB : Nat) (pB : Point) (idA idB : List UInt8) (klen : Nat)
    (cands : List (List UInt8)) (tamper : List String) (out : KexOut)
    (h : kex dA pA dB pB idA idB klen cands tamper = .ok out) :
    ∃ m, kexPre dA pA dB pB idA idB klen cands (tamper.contains "ra") (tamper.contains "rb") = .ok m
      ∧ m.s1 = (if tamper.contains "sb" then flipFirst m.sb else m.sb)
      ∧ m.s2 = (if tamper.contains "sa" then flipLast m.sa else m.sa)
      ∧ out = ⟨m.ra, m.rb, m.sb, m.sa, m.ka, m.kb⟩ := by
  rw [kex_eq] at h
  cases hp : kexPre dA pA dB pB idA idB klen cands (tamper.contains "ra") (tamper.contains "rb") with
  | err e => rw [hp] at h; cases h
  | panic => rw [hp] at h; cases h
  | ok m =>
    rw [hp] at h
    simp only [Outcome.bind, kexFinish] at h
    by_cases h1 : m.s1 = (if tamper.contains "sb" = true then flipFirst m.sb else m.sb)
    · by_cases h2 : m.s2 = (if tamper.contains "sa" = true then flipLast m.sa else m.sa)
      · rw [if_neg (not_not_intro h1), if_neg (not_not_intro h2)] at h
        cases h
        exact ⟨m, rfl, h1, h2, rfl⟩
      · rw [if_neg (not_not_intro h1), if_pos h2] at h
        cases h
    · rw [if_pos h1] at h
      cases h

theorem kex_ok_shape (dA : Nat) (pA : Point) (dB : Nat) (pB : Point) (idA idB : List UInt8) (klen : Nat)
    (hklen : 1 ≤ klen) (cands : List (List UInt8)) (tamper : List String) (out : KexOut)
    (h : kex dA pA dB pB idA idB klen cands tamper = .ok out) :
    out.ka.length = klen ∧ out.kb.length = klen ∧ out.sb.length = 32 ∧ out.sa.length = 32 := by
  obtain ⟨m, hm, _, _, rfl⟩ := kex_ok _ _ _ _ _ _ _ _ _ _ h
  obtain ⟨h1, _, h3, _, h5, _⟩ := kexPre_ok _ _ _ _ _ _ _ _ _ _ _ hm
  exact ⟨(h5 hklen).1, (h5 hklen).2, h1, h3⟩

/-- a successful run: both ephemeral points, as received, passed the receiver's validity check -/
theorem kex_ok_points_valid (dA : Nat) (pA : Point) (dB : Nat) (pB : Point) (idA idB : List UInt8) (klen : Nat)
    (cands : List (List UInt8)) (tamper : List String) (out : KexOut)
    (h : kex dA pA dB pB idA idB klen cands tamper = .ok out) :
    ∃ rA c2 rB c3, random_u256 cands = some (rA, c2) ∧ random_u256 c2 = some (rB, c3)
      ∧ (if tamper.contains "ra" then flipPoint (g_mul rA) else g_mul rA).is_valid = true
      ∧ (if tamper.contains "rb" then flipPoint (g_mul rB) else g_mul rB).is_valid = true
      ∧ out.ra = (g_mul rA).to_byte_be false ∧ out.rb = (g_mul rB).to_byte_be false := by
  obtain ⟨m, hm, _, _, rfl⟩ := kex_ok _ _ _ _ _ _ _ _ _ _ h
  exact (kexPre_ok _ _ _ _ _ _ _ _ _ _ _ hm).2.2.2.2.2

/-- A got past its comparison S_1 = S_B: the run succeeded or failed only at B's final comparison -/
def PassedStep3 (r : Outcome KexOut) : Prop := (∃ out, r = .ok out) ∨ r = .err "step4:false"

/-- S_B altered: whatever else happens to S_A, if the run with the unaltered S_B gets past A's comparison,
the run with the altered S_B stops there -/
theorem kex_sb_tampered_gen (dA : Nat) (pA : Point) (dB : Nat) (pB : Point) (idA idB : List UInt8) (klen : Nat)
    (cands : List (List UInt8)) (t t' : List String)
    (hra : t.contains "ra" = t'.contains "ra") (hrb : t.contains "rb" = t'.contains "rb")
    (hsb : t.contains "sb" = true) (hsb' : t'.contains "sb" = false)
    (h : PassedStep3 (kex dA pA dB pB idA idB klen cands t')) :
    kex dA pA dB pB idA idB klen cands t = .err "step3:HashNotEqual" := by
  rw [kex_eq, hra, hrb, hsb]
  rw [PassedStep3, kex_eq, hsb'] at h
  cases hp : kexPre dA pA dB pB idA idB klen cands (t'.contains "ra") (t'.contains "rb") with
  | panic => rw [hp] at h; rcases h with ⟨_, h⟩ | h <;> cases h
  | err e =>
    rw [hp] at h
    rcases h with ⟨_, h⟩ | h
    · cases h
    · have he := kexPre_err _ _ _ _ _ _ _ _ _ _ _ hp
      simp only [Outcome.bind, Outcome.err.injEq] at h
      rw [h] at he
      exact absurd he (by decide)
  | ok m =>
    rw [hp] at h
    have hlen := (kexPre_ok _ _ _ _ _ _ _ _ _ _ _ hp).1
    simp only [Outcome.bind, kexFinish, Bool.false_eq_true, if_false] at h
    have hs1 : m.s1 = m.sb := by
      by_cases hs : m.s1 = m.sb
      · exact hs
      · rw [if_pos hs] at h
        rcases h with ⟨_, h⟩ | h
        · cases h
        · simp at h
    simp only [Outcome.bind, kexFinish, if_true]
    rw [if_pos]
    rw [hs1]
    exact fun e => flipFirst_ne m.sb hlen e.symm

/-- S_A altered (and everything else as in a run that succeeds): B's final comparison fails -/
theorem kex_sa_tampered_gen (dA : Nat) (pA : Point) (dB : Nat) (pB : Point) (idA idB : List UInt8) (klen : Nat)
    (cands : List (List UInt8)) (t t' : List String)
    (hra : t.contains "ra" = t'.contains "ra") (hrb : t.contains "rb" = t'.contains "rb")
    (hsb : t.contains "sb" = t'.contains "sb")
    (hsa : t.contains "sa" = true) (hsa' : t'.contains "sa" = false) (out : KexOut)
    (h : kex dA pA dB pB idA idB klen cands t' = .ok out) :
    kex dA pA dB pB idA idB klen cands t = .err "step4:false" := by
  obtain ⟨m, hm, h1, h2, _⟩ := kex_ok _ _ _ _ _ _ _ _ _ _ h
  have hlen := (kexPre_ok _ _ _ _ _ _ _ _ _ _ _ hm).2.2.1
  rw [hsa'] at h2
  simp only [Bool.false_eq_true, if_false] at h2
  rw [kex_eq, hra, hrb, hsb, hsa, hm]
  simp only [Outcome.bind, kexFinish, if_true]
  rw [if_neg (by rw [← h1]; exact fun hn => hn rfl), if_pos]
  rw [h2]
  exact fun e => flipLast_ne m.sa hlen e.symm

/-! ### removing one label from the tamper list -/

theorem contains_filter_ne (l : List String) (a b : String) (hab : b ≠ a) :
    (l.filter (fun s => s != a)).contains b = l.contains b := by
  induction l with
  | nil => rfl
  | cons x l ih =>
    by_cases hx : x = a
    · have hxb : (x == b) = false := by
        rw [hx]; exact beq_false_of_ne (fun e => hab e.symm)
      have : (b == x) = false := by rw [hx]; exact beq_false_of_ne hab
      simp only [List.filter_cons, hx, bne_self_eq_false, Bool.false_eq_true, if_false, List.contains_cons, ih]
      rw [hx] at this
      rw [this, Bool.false_or]
    · have : (x != a) = true := bne_iff_ne.mpr hx
      simp only [List.filter_cons, this, if_true, List.contains_cons, ih]

theorem contains_filter_self (l : List String) (a : String) :
    (l.filter (fun s => s != a)).contains a = false := by
  induction l with
  | nil => rfl
  | cons x l ih =>
    by_cases hx : x = a
    · simp only [List.filter_cons, hx, bne_self_eq_false, Bool.false_eq_true, if_false, ih]
    · have h1 : (x != a) = true := bne_iff_ne.mpr hx
      have h2 : (a == x) = false := beq_false_of_ne (fun e => hx e.symm)
      simp only [List.filter_cons, h1, if_true, List.contains_cons, ih, h2, Bool.or_self]

/-! ### invalid ephemeral point -/

theorem kex_offcurve_ra (dA : Nat) (pA : Point) (dB : Nat) (pB : Point) (idA idB : List UInt8) (klen : Nat)
    (cands : List (List UInt8)) (tamper : List String) (za zb : List UInt8) (rA : Nat) (rest : List (List UInt8))
    (hza : compute_za idA pA = .ok za) (hzb : compute_za idB pB = .ok zb)
    (hr : random_u256 cands = some (rA, rest))
    (hbad : (if tamper.contains "ra" then flipPoint (g_mul rA) else g_mul rA).is_valid = false) :
    kex dA pA dB pB idA idB klen cands tamper = .err "step2:CheckPointErr" := by
  unfold kex
  rw [hza, hzb]
  dsimp only
  rw [hr]
  dsimp only
  rw [if_pos (by rw [hbad]; decide)]

end GmVerif.Proofs.SM2KexTamper
