/-
Primality of the four 256-bit moduli used by SM2 / SM9 (machine-checked Pratt certificates) and
the derived number-theoretic facts (Fermat inverse, `Spec.EC.powMod` / `invMod` correctness, the
p ≡ 3 (mod 4) square root).

Method.  `pratt p g fs` is Lucas' primality criterion (`lucas_primality` from Mathlib) with the side
conditions turned into one Boolean `check p g fs` that the kernel evaluates (`decide +kernel`, GMP
arithmetic on literals, only the three standard axioms, no compiler trust):
  * `fs` lists `(q, e)` with `∏ q^e = p - 1`                (the factorisation is *checked*),
  * `g^(p-1) ≡ 1` and `g^((p-1)/q) ≢ 1 (mod p)` for every `q`  (evaluated through `Spec.EC.powMod`,
    which is proved equal to `a ^ e % m` in `powMod_eq`),
  * every `q` is itself prime — recursively by `pratt`, leaves `< 2^16` by `norm_num`.
The certificate section is produced by `tools/pratt.py` (sympy factorisation + least primitive
root); nothing the script computes is trusted.
-/
import Mathlib.NumberTheory.LucasPrimality
import Mathlib.Tactic.NormNum.Prime
import Mathlib.FieldTheory.Finite.Basic
import GmVerif.Spec.EC
namespace GmVerif.Proofs.Primes
open GmVerif.Spec.EC

/-! ### `Spec.EC.powMod` is modular exponentiation -/

/-- `Spec.EC.powMod a e m = a ^ e % m` for EVERY modulus: for `m = 0` both sides are `a ^ e`
(`x % 0 = x` in Lean), for `m = 1` both are `0`. -/
theorem powMod_eq (a e m : Nat) : powMod a e m = a ^ e % m := by
  induction e using Nat.strong_induction_on with
  | _ e ih =>
    rw [powMod]
    split
    · next h => subst h; simp
    · next h =>
      have ih' := ih (e / 2) (by omega)
      simp only [ih']
      have hsq : a ^ (e / 2) % m * (a ^ (e / 2) % m) % m = a ^ (2 * (e / 2)) % m := by
        rw [← Nat.mul_mod, ← Nat.pow_add]; congr 2; omega
      rw [hsq]
      split
      · next h1 =>
        rw [Nat.mod_mul_mod, ← Nat.pow_succ]; congr 2; omega
      · next h1 =>
        congr 2; omega

/-! ### Pratt certificates -/

/-- bridge `ZMod p` ↔ `powMod` on `Nat` -/
theorem zmod_pow_eq_one_iff (p a k : Nat) (hp : 1 < p) :
    ((a : ZMod p) ^ k = 1) ↔ powMod a k p = 1 := by
  rw [powMod_eq, ← Nat.cast_pow, ← Nat.cast_one (R := ZMod p), ZMod.natCast_eq_natCast_iff',
    Nat.mod_eq_of_lt hp]

/-- Boolean Pratt-certificate checker: witness `a`, `fs` = list of `(prime, exponent)` with
`∏ q^e = p - 1`. -/
def check (p a : Nat) (fs : List (Nat × Nat)) : Bool :=
  decide (1 < p) && ((fs.map fun qe => qe.1 ^ qe.2).prod == p - 1) && (powMod a (p - 1) p == 1) &&
    fs.all fun qe => powMod a ((p - 1) / qe.1) p != 1

/-- a prime dividing `∏ qᵢ^eᵢ` (all `qᵢ` prime) is one of the `qᵢ` -/
theorem prime_dvd_prod_pow (fs : List (Nat × Nat)) (hfs : ∀ qe ∈ fs, qe.1.Prime) (q : Nat)
    (hq : q.Prime) (hd : q ∣ (fs.map fun qe => qe.1 ^ qe.2).prod) : ∃ qe ∈ fs, qe.1 = q := by
  induction fs with
  | nil => simp at hd; exact absurd hd hq.ne_one
  | cons x t ih =>
    rw [List.map_cons, List.prod_cons] at hd
    rcases (Nat.Prime.dvd_mul hq).mp hd with h | h
    · have := (Nat.prime_dvd_prime_iff_eq hq (hfs x (by simp))).mp (hq.dvd_of_dvd_pow h)
      exact ⟨x, by simp, this.symm⟩
    · obtain ⟨qe, hm, he⟩ := ih (fun qe h => hfs qe (by simp [h])) h
      exact ⟨qe, by simp [hm], he⟩

/-- Lucas/Pratt: a checked certificate whose prime list consists of primes proves `p` prime. -/
theorem pratt (p a : Nat) (fs : List (Nat × Nat)) (hfs : ∀ qe ∈ fs, qe.1.Prime)
    (hc : check p a fs = true) : p.Prime := by
  simp only [check, Bool.and_eq_true, decide_eq_true_eq, beq_iff_eq, List.all_eq_true, bne_iff_ne,
    ne_eq] at hc
  obtain ⟨⟨⟨hp, hprod⟩, h1⟩, hall⟩ := hc
  refine lucas_primality p (a : ZMod p) ((zmod_pow_eq_one_iff p a _ hp).mpr h1) ?_
  intro q hq hd
  rw [← hprod] at hd
  obtain ⟨qe, hm, rfl⟩ := prime_dvd_prod_pow fs hfs q hq hd
  rw [ne_eq, zmod_pow_eq_one_iff p a _ hp]
  exact hall qe hm

theorem fa_nil {P : Nat × Nat → Prop} : ∀ x ∈ ([] : List (Nat × Nat)), P x := by simp
theorem fa_cons {P : Nat × Nat → Prop} {a : Nat × Nat} {l : List (Nat × Nat)} (h : P a)
    (t : ∀ x ∈ l, P x) : ∀ x ∈ a :: l, P x := by
  intro x hx
  rcases List.mem_cons.mp hx with rfl | h'
  · exact h
  · exact t x h'

-- BEGIN GENERATED (tools/pratt.py)
-- 64 leaf primes < 2^16 (norm_num), 55 Pratt nodes (decide +kernel)
theorem pr_2 : Nat.Prime 2 := by norm_num
theorem pr_3 : Nat.Prime 3 := by norm_num
theorem pr_5 : Nat.Prime 5 := by norm_num
theorem pr_7 : Nat.Prime 7 := by norm_num
theorem pr_11 : Nat.Prime 11 := by norm_num
theorem pr_13 : Nat.Prime 13 := by norm_num
theorem pr_17 : Nat.Prime 17 := by norm_num
theorem pr_19 : Nat.Prime 19 := by norm_num
theorem pr_23 : Nat.Prime 23 := by norm_num
theorem pr_29 : Nat.Prime 29 := by norm_num
theorem pr_31 : Nat.Prime 31 := by norm_num
theorem pr_37 : Nat.Prime 37 := by norm_num
theorem pr_41 : Nat.Prime 41 := by norm_num
theorem pr_43 : Nat.Prime 43 := by norm_num
theorem pr_47 : Nat.Prime 47 := by norm_num
theorem pr_53 : Nat.Prime 53 := by norm_num
theorem pr_59 : Nat.Prime 59 := by norm_num
theorem pr_61 : Nat.Prime 61 := by norm_num
theorem pr_67 : Nat.Prime 67 := by norm_num
theorem pr_71 : Nat.Prime 71 := by norm_num
theorem pr_79 : Nat.Prime 79 := by norm_num
theorem pr_83 : Nat.Prime 83 := by norm_num
theorem pr_97 : Nat.Prime 97 := by norm_num
theorem pr_101 : Nat.Prime 101 := by norm_num
theorem pr_103 : Nat.Prime 103 := by norm_num
theorem pr_113 : Nat.Prime 113 := by norm_num
theorem pr_127 : Nat.Prime 127 := by norm_num
theorem pr_149 : Nat.Prime 149 := by norm_num
theorem pr_181 : Nat.Prime 181 := by norm_num
theorem pr_193 : Nat.Prime 193 := by norm_num
theorem pr_233 : Nat.Prime 233 := by norm_num
theorem pr_337 : Nat.Prime 337 := by norm_num
theorem pr_367 : Nat.Prime 367 := by norm_num
theorem pr_409 : Nat.Prime 409 := by norm_num
theorem pr_461 : Nat.Prime 461 := by norm_num
theorem pr_719 : Nat.Prime 719 := by norm_num
theorem pr_769 : Nat.Prime 769 := by norm_num
theorem pr_773 : Nat.Prime 773 := by norm_num
theorem pr_823 : Nat.Prime 823 := by norm_num
theorem pr_1013 : Nat.Prime 1013 := by norm_num
theorem pr_1033 : Nat.Prime 1033 := by norm_num
theorem pr_1109 : Nat.Prime 1109 := by norm_num
theorem pr_1213 : Nat.Prime 1213 := by norm_num
theorem pr_1447 : Nat.Prime 1447 := by norm_num
theorem pr_2473 : Nat.Prime 2473 := by norm_num
theorem pr_2689 : Nat.Prime 2689 := by norm_num
theorem pr_3049 : Nat.Prime 3049 := by norm_num
theorem pr_3187 : Nat.Prime 3187 := by norm_num
theorem pr_4547 : Nat.Prime 4547 := by norm_num
theorem pr_4957 : Nat.Prime 4957 := by norm_num
theorem pr_5303 : Nat.Prime 5303 := by norm_num
theorem pr_5479 : Nat.Prime 5479 := by norm_num
theorem pr_5711 : Nat.Prime 5711 := by norm_num
theorem pr_5801 : Nat.Prime 5801 := by norm_num
theorem pr_7759 : Nat.Prime 7759 := by norm_num
theorem pr_8179 : Nat.Prime 8179 := by norm_num
theorem pr_9433 : Nat.Prime 9433 := by norm_num
theorem pr_12149 : Nat.Prime 12149 := by norm_num
theorem pr_14057 : Nat.Prime 14057 := by norm_num
theorem pr_17539 : Nat.Prime 17539 := by norm_num
theorem pr_30223 : Nat.Prime 30223 := by norm_num
theorem pr_34511 : Nat.Prime 34511 := by norm_num
theorem pr_47111 : Nat.Prime 47111 := by norm_num
theorem pr_54983 : Nat.Prime 54983 := by norm_num
theorem pr_71209 : Nat.Prime 71209 :=
  pratt 71209 7 [(2, 3), (3, 2), (23, 1), (43, 1)]
    (fa_cons pr_2 (fa_cons pr_3 (fa_cons pr_23 (fa_cons pr_43 fa_nil)))) (by decide +kernel)
theorem pr_82067 : Nat.Prime 82067 :=
  pratt 82067 2 [(2, 1), (37, 1), (1109, 1)]
    (fa_cons pr_2 (fa_cons pr_37 (fa_cons pr_1109 fa_nil))) (by decide +kernel)
theorem pr_84163 : Nat.Prime 84163 :=
  pratt 84163 2 [(2, 1), (3, 1), (13, 2), (83, 1)]
    (fa_cons pr_2 (fa_cons pr_3 (fa_cons pr_13 (fa_cons pr_83 fa_nil)))) (by decide +kernel)
theorem pr_110899 : Nat.Prime 110899 :=
  pratt 110899 3 [(2, 1), (3, 2), (61, 1), (101, 1)]
    (fa_cons pr_2 (fa_cons pr_3 (fa_cons pr_61 (fa_cons pr_101 fa_nil)))) (by decide +kernel)
theorem pr_179429 : Nat.Prime 179429 :=
  pratt 179429 2 [(2, 2), (31, 1), (1447, 1)]
    (fa_cons pr_2 (fa_cons pr_31 (fa_cons pr_1447 fa_nil))) (by decide +kernel)
theorem pr_231901 : Nat.Prime 231901 :=
  pratt 231901 7 [(2, 2), (3, 1), (5, 2), (773, 1)]
    (fa_cons pr_2 (fa_cons pr_3 (fa_cons pr_5 (fa_cons pr_773 fa_nil)))) (by decide +kernel)
theorem pr_363761 : Nat.Prime 363761 :=
  pratt 363761 3 [(2, 4), (5, 1), (4547, 1)]
    (fa_cons pr_2 (fa_cons pr_5 (fa_cons pr_4547 fa_nil))) (by decide +kernel)
theorem pr_376889 : Nat.Prime 376889 :=
  pratt 376889 3 [(2, 3), (47111, 1)]
    (fa_cons pr_2 (fa_cons pr_47111 fa_nil)) (by decide +kernel)
theorem pr_1271129 : Nat.Prime 1271129 :=
  pratt 1271129 3 [(2, 3), (29, 1), (5479, 1)]
    (fa_cons pr_2 (fa_cons pr_29 (fa_cons pr_5479 fa_nil))) (by decide +kernel)
theorem pr_3079049 : Nat.Prime 3079049 :=
  pratt 3079049 3 [(2, 3), (7, 1), (54983, 1)]
    (fa_cons pr_2 (fa_cons pr_7 (fa_cons pr_54983 fa_nil))) (by decide +kernel)
theorem pr_6158099 : Nat.Prime 6158099 :=
  pratt 6158099 2 [(2, 1), (3079049, 1)]
    (fa_cons pr_2 (fa_cons pr_3079049 fa_nil)) (by decide +kernel)
theorem pr_8214737 : Nat.Prime 8214737 :=
  pratt 8214737 3 [(2, 4), (67, 1), (79, 1), (97, 1)]
    (fa_cons pr_2 (fa_cons pr_67 (fa_cons pr_79 (fa_cons pr_97 fa_nil)))) (by decide +kernel)
theorem pr_9061163 : Nat.Prime 9061163 :=
  pratt 9061163 2 [(2, 1), (11, 1), (71, 1), (5801, 1)]
    (fa_cons pr_2 (fa_cons pr_11 (fa_cons pr_71 (fa_cons pr_5801 fa_nil)))) (by decide +kernel)
theorem pr_10042883 : Nat.Prime 10042883 :=
  pratt 10042883 2 [(2, 1), (1013, 1), (4957, 1)]
    (fa_cons pr_2 (fa_cons pr_1013 (fa_cons pr_4957 fa_nil))) (by decide +kernel)
theorem pr_17965699 : Nat.Prime 17965699 :=
  pratt 17965699 2 [(2, 1), (3, 1), (71, 1), (181, 1), (233, 1)]
    (fa_cons pr_2 (fa_cons pr_3 (fa_cons pr_71 (fa_cons pr_181 (fa_cons pr_233 fa_nil))))) (by decide +kernel)
theorem pr_107615843 : Nat.Prime 107615843 :=
  pratt 107615843 2 [(2, 1), (43, 1), (103, 1), (12149, 1)]
    (fa_cons pr_2 (fa_cons pr_43 (fa_cons pr_103 (fa_cons pr_12149 fa_nil)))) (by decide +kernel)
theorem pr_117774739 : Nat.Prime 117774739 :=
  pratt 117774739 2 [(2, 1), (3, 2), (59, 1), (110899, 1)]
    (fa_cons pr_2 (fa_cons pr_3 (fa_cons pr_59 (fa_cons pr_110899 fa_nil)))) (by decide +kernel)
theorem pr_163569827 : Nat.Prime 163569827 :=
  pratt 163569827 2 [(2, 1), (7, 1), (31, 1), (376889, 1)]
    (fa_cons pr_2 (fa_cons pr_7 (fa_cons pr_31 (fa_cons pr_376889 fa_nil)))) (by decide +kernel)
theorem pr_287008459 : Nat.Prime 287008459 :=
  pratt 287008459 3 [(2, 1), (3, 1), (11, 1), (461, 1), (9433, 1)]
    (fa_cons pr_2 (fa_cons pr_3 (fa_cons pr_11 (fa_cons pr_461 (fa_cons pr_9433 fa_nil))))) (by decide +kernel)
theorem pr_1148033837 : Nat.Prime 1148033837 :=
  pratt 1148033837 2 [(2, 2), (287008459, 1)]
    (fa_cons pr_2 (fa_cons pr_287008459 fa_nil)) (by decide +kernel)
theorem pr_1182915037 : Nat.Prime 1182915037 :=
  pratt 1182915037 2 [(2, 2), (3, 3), (43, 1), (103, 1), (2473, 1)]
    (fa_cons pr_2 (fa_cons pr_3 (fa_cons pr_43 (fa_cons pr_103 (fa_cons pr_2473 fa_nil))))) (by decide +kernel)
theorem pr_1413296869 : Nat.Prime 1413296869 :=
  pratt 1413296869 6 [(2, 2), (3, 1), (117774739, 1)]
    (fa_cons pr_2 (fa_cons pr_3 (fa_cons pr_117774739 fa_nil))) (by decide +kernel)
theorem pr_1434514811 : Nat.Prime 1434514811 :=
  pratt 1434514811 2 [(2, 1), (5, 1), (8179, 1), (17539, 1)]
    (fa_cons pr_2 (fa_cons pr_5 (fa_cons pr_8179 (fa_cons pr_17539 fa_nil)))) (by decide +kernel)
theorem pr_2289977579 : Nat.Prime 2289977579 :=
  pratt 2289977579 2 [(2, 1), (7, 1), (163569827, 1)]
    (fa_cons pr_2 (fa_cons pr_7 (fa_cons pr_163569827 fa_nil))) (by decide +kernel)
theorem pr_2566129871 : Nat.Prime 2566129871 :=
  pratt 2566129871 7 [(2, 1), (5, 1), (3049, 1), (84163, 1)]
    (fa_cons pr_2 (fa_cons pr_5 (fa_cons pr_3049 (fa_cons pr_84163 fa_nil)))) (by decide +kernel)
theorem pr_3017783777 : Nat.Prime 3017783777 :=
  pratt 3017783777 3 [(2, 5), (7, 2), (337, 1), (5711, 1)]
    (fa_cons pr_2 (fa_cons pr_7 (fa_cons pr_337 (fa_cons pr_5711 fa_nil)))) (by decide +kernel)
theorem pr_4731660149 : Nat.Prime 4731660149 :=
  pratt 4731660149 2 [(2, 2), (1182915037, 1)]
    (fa_cons pr_2 (fa_cons pr_1182915037 fa_nil)) (by decide +kernel)
theorem pr_17214177733 : Nat.Prime 17214177733 :=
  pratt 17214177733 2 [(2, 2), (3, 1), (1434514811, 1)]
    (fa_cons pr_2 (fa_cons pr_3 (fa_cons pr_1434514811 fa_nil))) (by decide +kernel)
theorem pr_27725865749 : Nat.Prime 27725865749 :=
  pratt 27725865749 2 [(2, 2), (7, 1), (19, 1), (41, 1), (1271129, 1)]
    (fa_cons pr_2 (fa_cons pr_7 (fa_cons pr_19 (fa_cons pr_41 (fa_cons pr_1271129 fa_nil))))) (by decide +kernel)
theorem pr_348253387243 : Nat.Prime 348253387243 :=
  pratt 348253387243 3 [(2, 1), (3, 1), (61, 1), (5303, 1), (179429, 1)]
    (fa_cons pr_2 (fa_cons pr_3 (fa_cons pr_61 (fa_cons pr_5303 (fa_cons pr_179429 fa_nil))))) (by decide +kernel)
theorem pr_2368433183657 : Nat.Prime 2368433183657 :=
  pratt 2368433183657 3 [(2, 3), (41, 1), (719, 1), (10042883, 1)]
    (fa_cons pr_2 (fa_cons pr_41 (fa_cons pr_719 (fa_cons pr_10042883 fa_nil)))) (by decide +kernel)
theorem pr_4641351449027 : Nat.Prime 4641351449027 :=
  pratt 4641351449027 2 [(2, 1), (769, 1), (3017783777, 1)]
    (fa_cons pr_2 (fa_cons pr_769 (fa_cons pr_3017783777 fa_nil))) (by decide +kernel)
theorem pr_5636460199499 : Nat.Prime 5636460199499 :=
  pratt 5636460199499 2 [(2, 1), (31, 1), (79, 1), (127, 1), (9061163, 1)]
    (fa_cons pr_2 (fa_cons pr_31 (fa_cons pr_79 (fa_cons pr_127 (fa_cons pr_9061163 fa_nil))))) (by decide +kernel)
theorem pr_11101811302993 : Nat.Prime 11101811302993 :=
  pratt 11101811302993 5 [(2, 4), (3, 1), (101, 1), (2289977579, 1)]
    (fa_cons pr_2 (fa_cons pr_3 (fa_cons pr_101 (fa_cons pr_2289977579 fa_nil)))) (by decide +kernel)
theorem pr_26643987113801 : Nat.Prime 26643987113801 :=
  pratt 26643987113801 3 [(2, 3), (5, 2), (7, 1), (82067, 1), (231901, 1)]
    (fa_cons pr_2 (fa_cons pr_5 (fa_cons pr_7 (fa_cons pr_82067 (fa_cons pr_231901 fa_nil))))) (by decide +kernel)
theorem pr_53287974227603 : Nat.Prime 53287974227603 :=
  pratt 53287974227603 2 [(2, 1), (26643987113801, 1)]
    (fa_cons pr_2 (fa_cons pr_26643987113801 fa_nil)) (by decide +kernel)
theorem pr_101456283590983 : Nat.Prime 101456283590983 :=
  pratt 101456283590983 3 [(2, 1), (3, 2), (5636460199499, 1)]
    (fa_cons pr_2 (fa_cons pr_3 (fa_cons pr_5636460199499 fa_nil))) (by decide +kernel)
theorem pr_267554604477851 : Nat.Prime 267554604477851 :=
  pratt 267554604477851 2 [(2, 1), (5, 2), (193, 1), (27725865749, 1)]
    (fa_cons pr_2 (fa_cons pr_5 (fa_cons pr_193 (fa_cons pr_27725865749 fa_nil)))) (by decide +kernel)
theorem pr_417514796639753 : Nat.Prime 417514796639753 :=
  pratt 417514796639753 3 [(2, 3), (7, 1), (367, 1), (2473, 1), (8214737, 1)]
    (fa_cons pr_2 (fa_cons pr_7 (fa_cons pr_367 (fa_cons pr_2473 (fa_cons pr_8214737 fa_nil))))) (by decide +kernel)
theorem pr_639455690731237 : Nat.Prime 639455690731237 :=
  pratt 639455690731237 2 [(2, 2), (3, 1), (53287974227603, 1)]
    (fa_cons pr_2 (fa_cons pr_3 (fa_cons pr_53287974227603 fa_nil))) (by decide +kernel)
theorem pr_1548931712415341 : Nat.Prime 1548931712415341 :=
  pratt 1548931712415341 3 [(2, 2), (5, 1), (11, 1), (409, 1), (17214177733, 1)]
    (fa_cons pr_2 (fa_cons pr_5 (fa_cons pr_11 (fa_cons pr_409 (fa_cons pr_17214177733 fa_nil))))) (by decide +kernel)
theorem pr_3258964060712033 : Nat.Prime 3258964060712033 :=
  pratt 3258964060712033 3 [(2, 5), (43, 1), (2368433183657, 1)]
    (fa_cons pr_2 (fa_cons pr_43 (fa_cons pr_2368433183657 fa_nil))) (by decide +kernel)
theorem pr_4773264379806847 : Nat.Prime 4773264379806847 :=
  pratt 4773264379806847 3 [(2, 1), (3, 1), (7, 1), (11, 1), (823, 1), (34511, 1), (363761, 1)]
    (fa_cons pr_2 (fa_cons pr_3 (fa_cons pr_7 (fa_cons pr_11 (fa_cons pr_823 (fa_cons pr_34511 (fa_cons pr_363761 fa_nil))))))) (by decide +kernel)
theorem pr_63945569073123701 : Nat.Prime 63945569073123701 :=
  pratt 63945569073123701 2 [(2, 2), (5, 2), (639455690731237, 1)]
    (fa_cons pr_2 (fa_cons pr_5 (fa_cons pr_639455690731237 fa_nil))) (by decide +kernel)
theorem pr_389917816583720147 : Nat.Prime 389917816583720147 :=
  pratt 389917816583720147 2 [(2, 1), (17, 1), (1033, 1), (11101811302993, 1)]
    (fa_cons pr_2 (fa_cons pr_17 (fa_cons pr_1033 (fa_cons pr_11101811302993 fa_nil)))) (by decide +kernel)
theorem pr_3080243406351642671208773 : Nat.Prime 3080243406351642671208773 :=
  pratt 3080243406351642671208773 3 [(2, 2), (11, 1), (19, 1), (29, 1), (149, 1), (3187, 1), (267554604477851, 1)]
    (fa_cons pr_2 (fa_cons pr_11 (fa_cons pr_19 (fa_cons pr_29 (fa_cons pr_149 (fa_cons pr_3187 (fa_cons pr_267554604477851 fa_nil))))))) (by decide +kernel)
theorem pr_94401434677189000286356532089 : Nat.Prime 94401434677189000286356532089 :=
  pratt 94401434677189000286356532089 11 [(2, 3), (3, 1), (13, 1), (4731660149, 1), (63945569073123701, 1)]
    (fa_cons pr_2 (fa_cons pr_3 (fa_cons pr_13 (fa_cons pr_4731660149 (fa_cons pr_63945569073123701 fa_nil))))) (by decide +kernel)
theorem pr_66013261729388519804782124120027 : Nat.Prime 66013261729388519804782124120027 :=
  pratt 66013261729388519804782124120027 2 [(2, 1), (13, 1), (1213, 1), (71209, 1), (6158099, 1), (4773264379806847, 1)]
    (fa_cons pr_2 (fa_cons pr_13 (fa_cons pr_1213 (fa_cons pr_71209 (fa_cons pr_6158099 (fa_cons pr_4773264379806847 fa_nil)))))) (by decide +kernel)
theorem pr_18120927127286907576013935251791662753637 : Nat.Prime 18120927127286907576013935251791662753637 :=
  pratt 18120927127286907576013935251791662753637 6 [(2, 2), (3, 2), (17965699, 1), (107615843, 1), (2566129871, 1), (101456283590983, 1)]
    (fa_cons pr_2 (fa_cons pr_3 (fa_cons pr_17965699 (fa_cons pr_107615843 (fa_cons pr_2566129871 (fa_cons pr_101456283590983 fa_nil)))))) (by decide +kernel)
theorem pr_1986114220967214475817859646585100848354345103812102768231 : Nat.Prime 1986114220967214475817859646585100848354345103812102768231 :=
  pratt 1986114220967214475817859646585100848354345103812102768231 3 [(2, 1), (3, 1), (5, 1), (7, 1), (11, 1), (13, 1), (17, 1), (29, 1), (37, 1), (41, 1), (61, 1), (113, 1), (2689, 1), (1548931712415341, 1), (3080243406351642671208773, 1)]
    (fa_cons pr_2 (fa_cons pr_3 (fa_cons pr_5 (fa_cons pr_7 (fa_cons pr_11 (fa_cons pr_13 (fa_cons pr_17 (fa_cons pr_29 (fa_cons pr_37 (fa_cons pr_41 (fa_cons pr_61 (fa_cons pr_113 (fa_cons pr_2689 (fa_cons pr_1548931712415341 (fa_cons pr_3080243406351642671208773 fa_nil))))))))))))))) (by decide +kernel)
theorem pr_125197554539772723432468576818475380947471091418362477724521 : Nat.Prime 125197554539772723432468576818475380947471091418362477724521 :=
  pratt 125197554539772723432468576818475380947471091418362477724521 3 [(2, 3), (5, 1), (53, 1), (3258964060712033, 1), (18120927127286907576013935251791662753637, 1)]
    (fa_cons pr_2 (fa_cons pr_5 (fa_cons pr_53 (fa_cons pr_3258964060712033 (fa_cons pr_18120927127286907576013935251791662753637 fa_nil))))) (by decide +kernel)
theorem pr_82434016654578246444830763105245969129316048019845143771873730126023764135717 : Nat.Prime 82434016654578246444830763105245969129316048019845143771873730126023764135717 :=
  pratt 82434016654578246444830763105245969129316048019845143771873730126023764135717 2 [(2, 2), (3, 1), (7, 1), (11, 1), (29, 1), (1548931712415341, 1), (1986114220967214475817859646585100848354345103812102768231, 1)]
    (fa_cons pr_2 (fa_cons pr_3 (fa_cons pr_7 (fa_cons pr_11 (fa_cons pr_29 (fa_cons pr_1548931712415341 (fa_cons pr_1986114220967214475817859646585100848354345103812102768231 fa_nil))))))) (by decide +kernel)
theorem pr_82434016654578246444830763105245969129603161266935169637912592173415460324733 : Nat.Prime 82434016654578246444830763105245969129603161266935169637912592173415460324733 :=
  pratt 82434016654578246444830763105245969129603161266935169637912592173415460324733 2 [(2, 2), (3, 1), (7, 1), (11, 1), (29, 1), (47, 1), (1148033837, 1), (1548931712415341, 1), (389917816583720147, 1), (94401434677189000286356532089, 1)]
    (fa_cons pr_2 (fa_cons pr_3 (fa_cons pr_7 (fa_cons pr_11 (fa_cons pr_29 (fa_cons pr_47 (fa_cons pr_1148033837 (fa_cons pr_1548931712415341 (fa_cons pr_389917816583720147 (fa_cons pr_94401434677189000286356532089 fa_nil)))))))))) (by decide +kernel)
theorem pr_115792089210356248756420345214020892766061623724957744567843809356293439045923 : Nat.Prime 115792089210356248756420345214020892766061623724957744567843809356293439045923 :=
  pratt 115792089210356248756420345214020892766061623724957744567843809356293439045923 3 [(2, 1), (3, 1), (7759, 1), (14057, 1), (1413296869, 1), (125197554539772723432468576818475380947471091418362477724521, 1)]
    (fa_cons pr_2 (fa_cons pr_3 (fa_cons pr_7759 (fa_cons pr_14057 (fa_cons pr_1413296869 (fa_cons pr_125197554539772723432468576818475380947471091418362477724521 fa_nil)))))) (by decide +kernel)
theorem pr_115792089210356248756420345214020892766250353991924191454421193933289684991999 : Nat.Prime 115792089210356248756420345214020892766250353991924191454421193933289684991999 :=
  pratt 115792089210356248756420345214020892766250353991924191454421193933289684991999 13 [(2, 1), (43, 1), (30223, 1), (348253387243, 1), (4641351449027, 1), (417514796639753, 1), (66013261729388519804782124120027, 1)]
    (fa_cons pr_2 (fa_cons pr_43 (fa_cons pr_30223 (fa_cons pr_348253387243 (fa_cons pr_4641351449027 (fa_cons pr_417514796639753 (fa_cons pr_66013261729388519804782124120027 fa_nil))))))) (by decide +kernel)
-- END GENERATED

/-- SM2 field prime (GB/T 32918.5) -/
theorem sm2_p_prime :
    Nat.Prime 0xFFFFFFFEFFFFFFFFFFFFFFFFFFFFFFFFFFFFFFFF00000000FFFFFFFFFFFFFFFF :=
  pr_115792089210356248756420345214020892766250353991924191454421193933289684991999
/-- SM2 group order -/
theorem sm2_n_prime :
    Nat.Prime 0xFFFFFFFEFFFFFFFFFFFFFFFFFFFFFFFF7203DF6B21C6052B53BBF40939D54123 :=
  pr_115792089210356248756420345214020892766061623724957744567843809356293439045923
/-- SM9 field prime (GB/T 38635.1) -/
theorem sm9_p_prime :
    Nat.Prime 0xB640000002A3A6F1D603AB4FF58EC74521F2934B1A7AEEDBE56F9B27E351457D :=
  pr_82434016654578246444830763105245969129603161266935169637912592173415460324733
/-- SM9 group order -/
theorem sm9_N_prime :
    Nat.Prime 0xB640000002A3A6F1D603AB4FF58EC74449F2934B18EA8BEEE56EE19CD69ECF25 :=
  pr_82434016654578246444830763105245969129316048019845143771873730126023764135717

/-! ### Derived facts -/

/-- Fermat inverse in `ZMod`-free form, for any `a` not divisible by `p` -/
theorem fermat_inv' (p a : Nat) (hp : Nat.Prime p) (ha : a % p ≠ 0) :
    a * (a ^ (p - 2) % p) % p = 1 := by
  have : Fact p.Prime := ⟨hp⟩
  have h2 : 2 ≤ p := hp.two_le
  have hz : (a : ZMod p) ≠ 0 := by
    rw [Ne, ZMod.natCast_eq_zero_iff]
    exact fun h => ha (Nat.mod_eq_zero_of_dvd h)
  have h1 : (a : ZMod p) ^ (p - 1) = 1 := ZMod.pow_card_sub_one_eq_one hz
  have h3 : ((a * a ^ (p - 2) : Nat) : ZMod p) = ((1 : Nat) : ZMod p) := by
    rw [← pow_succ', show p - 2 + 1 = p - 1 by omega]
    push_cast
    exact h1
  rw [ZMod.natCast_eq_natCast_iff'] at h3
  rw [Nat.mul_mod_mod, h3]
  exact Nat.mod_eq_of_lt (by omega)

theorem fermat_inv (p a : Nat) (hp : Nat.Prime p) (ha : 0 < a ∧ a < p) :
    a * (a ^ (p - 2) % p) % p = 1 :=
  fermat_inv' p a hp (by rw [Nat.mod_eq_of_lt ha.2]; omega)

theorem invMod_correct (p a : Nat) (hp : Nat.Prime p) (ha : a % p ≠ 0) :
    a * invMod a p % p = 1 := by
  rw [invMod, powMod_eq]; exact fermat_inv' p a hp ha

/-- square root for `p ≡ 3 (mod 4)`: `v^((p+1)/4)` squares to `v` whenever `v` is a square -/
theorem sqrt_3mod4 (p v : Nat) (hp : Nat.Prime p) (h4 : p % 4 = 3) (hsq : ∃ y, y * y % p = v % p) :
    (v ^ ((p + 1) / 4) % p) * (v ^ ((p + 1) / 4) % p) % p = v % p := by
  have : Fact p.Prime := ⟨hp⟩
  obtain ⟨y, hy⟩ := hsq
  have hv : ((y * y : Nat) : ZMod p) = (v : ZMod p) := (ZMod.natCast_eq_natCast_iff' _ _ _).mpr hy
  rw [← Nat.mul_mod, ← ZMod.natCast_eq_natCast_iff', ← hv]
  push_cast
  rw [← hv]
  push_cast
  have hk : 4 * ((p + 1) / 4) = p + 1 := by omega
  have : ((y : ZMod p) * y) ^ ((p + 1) / 4) * ((y : ZMod p) * y) ^ ((p + 1) / 4)
      = (y : ZMod p) ^ (4 * ((p + 1) / 4)) := by ring
  rw [this, hk, pow_succ, ZMod.pow_card]

end GmVerif.Proofs.Primes
