/-
Helper lemmas for property C07 (SM4 modes of operation): chunking, XOR algebra, a generic
"feedback stream" schema covering the six mode recursions of `Spec.Modes`, generic round trips,
big-endian counter increment, PKCS#7, and refinement of the index-based loops of `Impl.SM4`.
Core Lean only.
-/
import GmVerif.Spec.Modes
import GmVerif.Proofs.SM4
namespace GmVerif.Proofs.Modes
open GmVerif GmVerif.Spec GmVerif.Spec.Modes

/-! ### chunks -/

theorem chunks_nil : chunks [] = [] := by
  rw [chunks]; simp

theorem chunks_of_ne (d : List UInt8) (h : d ≠ []) : chunks d = d.take 16 :: chunks (d.drop 16) := by
  rw [chunks]; simp [h]

theorem chunks_short (d : List UInt8) (h : d ≠ []) (hl : d.length ≤ 16) : chunks d = [d] := by
  rw [chunks_of_ne d h, List.take_of_length_le hl, List.drop_eq_nil_of_le hl, chunks_nil]

/-- the `n` leading full blocks, by index as in the Rust loops -/
def fullChunks (d : List UInt8) (n : Nat) : List (List UInt8) := (List.range n).map (Impl.SM4.blk d)

theorem blk_length (d : List UInt8) (i : Nat) (h : (i + 1) * 16 ≤ d.length) :
    (Impl.SM4.blk d i).length = 16 := by
  simp [Impl.SM4.blk]; omega

theorem fullChunks_length16 (d : List UInt8) (n : Nat) (h : n * 16 ≤ d.length) :
    ∀ c ∈ fullChunks d n, c.length = 16 := by
  intro c hc
  simp only [fullChunks, List.mem_map, List.mem_range] at hc
  obtain ⟨i, hi, rfl⟩ := hc
  apply blk_length
  have : (i + 1) * 16 ≤ n * 16 := Nat.mul_le_mul_right 16 hi
  omega

theorem chunks_split (d : List UInt8) (n : Nat) (h : n * 16 ≤ d.length) :
    chunks d = fullChunks d n ++ chunks (d.drop (n * 16)) := by
  induction n with
  | zero => simp [fullChunks]
  | succ n ih =>
    have hne : d.drop (n * 16) ≠ [] := by
      intro h0
      have := congrArg List.length h0
      simp at this; omega
    rw [ih (by omega), chunks_of_ne _ hne, List.drop_drop]
    simp only [fullChunks, List.range_succ, List.map_append, List.map_cons, List.map_nil,
      List.append_assoc, List.cons_append, List.nil_append]
    rw [show n * 16 + 16 = (n + 1) * 16 by omega]
    rfl

/-- the (possibly empty) partial block after the full ones -/
def tail (d : List UInt8) : List UInt8 := d.drop (d.length / 16 * 16)

theorem tail_length (d : List UInt8) : (tail d).length = d.length % 16 := by
  simp [tail]; omega

theorem chunks_eq (d : List UInt8) :
    chunks d = fullChunks d (d.length / 16) ++ (if tail d = [] then [] else [tail d]) := by
  rw [chunks_split d (d.length / 16) (by omega)]
  congr 1
  split
  · next h => rw [show d.drop (d.length / 16 * 16) = [] from h, chunks_nil]
  · next h =>
    exact chunks_short _ h (by have := tail_length d; simp only [tail] at this; omega)

/-! ### XOR on byte strings -/

theorem xorBytes_length (a b : List UInt8) : (xorBytes a b).length = min a.length b.length := by
  simp [xorBytes]

theorem xorBytes_comm (a b : List UInt8) : xorBytes a b = xorBytes b a := by
  unfold xorBytes
  exact List.zipWith_comm_of_comm (fun x y => UInt8.xor_comm x y)

theorem xorBytes_cancel_right (c k : List UInt8) (h : c.length ≤ k.length) :
    xorBytes (xorBytes c k) k = c := by
  induction c generalizing k with
  | nil => simp [xorBytes]
  | cons x xs ih =>
    cases k with
    | nil => simp at h
    | cons y ys =>
      simp only [xorBytes, List.zipWith_cons_cons, List.cons.injEq]
      refine ⟨by rw [UInt8.xor_assoc, UInt8.xor_self, UInt8.xor_zero], ?_⟩
      exact ih ys (by simpa using h)

theorem xorBytes_cancel_left (c k : List UInt8) (h : c.length ≤ k.length) :
    xorBytes k (xorBytes k c) = c := by
  rw [xorBytes_comm k c, xorBytes_comm k, xorBytes_cancel_right c k h]

theorem blockXor_eq (a b : List UInt8) (ha : a.length = 16) (hb : b.length = 16) :
    Impl.SM4.blockXor a b = xorBytes a b := by
  unfold Impl.SM4.blockXor xorBytes
  rw [List.take_of_length_le (by omega), List.take_of_length_le (by omega)]

/-! ### generic feedback stream -/

/-- output `ou fb c` for each chunk, feedback updated by `nx fb c` -/
def genStream (nx : Block → Block → Block) (ou : Block → Block → List UInt8) (fb : Block) :
    List Block → List UInt8
  | [] => []
  | c :: cs => ou fb c ++ genStream nx ou (nx fb c) cs

theorem genStream_append (nx : Block → Block → Block) (ou : Block → Block → List UInt8) (fb : Block)
    (as bs : List Block) :
    genStream nx ou fb (as ++ bs) = genStream nx ou fb as ++ genStream nx ou (as.foldl nx fb) bs := by
  induction as generalizing fb with
  | nil => rfl
  | cons a as ih => simp [genStream, ih]

/-- the accumulate-into-`out` loop of the Rust code computes `genStream` -/
theorem foldl_genStream (nx : Block → Block → Block) (ou : Block → Block → List UInt8)
    (cs : List Block) (fb : Block) (out : List UInt8) :
    cs.foldl (fun (st : List UInt8 × List UInt8) c => (nx st.1 c, st.2 ++ ou st.1 c)) (fb, out) =
      (cs.foldl nx fb, out ++ genStream nx ou fb cs) := by
  induction cs generalizing fb out with
  | nil => simp [genStream]
  | cons c cs ih => simp [genStream, ih]

/-- index-based version -/
theorem foldl_range_genStream (nx : Block → Block → Block) (ou : Block → Block → List UInt8)
    (d : List UInt8) (n : Nat) (fb : Block) (out : List UInt8) :
    (List.range n).foldl (fun (st : List UInt8 × List UInt8) i =>
        (nx st.1 (Impl.SM4.blk d i), st.2 ++ ou st.1 (Impl.SM4.blk d i))) (fb, out) =
      ((fullChunks d n).foldl nx fb, out ++ genStream nx ou fb (fullChunks d n)) := by
  rw [← foldl_genStream, fullChunks, List.foldl_map]

/-- two schemas that agree on 16-byte feedback and 16-byte chunks give the same stream -/
theorem genStream_congr (nx nx' : Block → Block → Block) (ou ou' : Block → Block → List UInt8)
    (H : ∀ fb c, fb.length = 16 → c.length = 16 →
      nx fb c = nx' fb c ∧ ou fb c = ou' fb c ∧ (nx' fb c).length = 16)
    (cs : List Block) (hcs : ∀ c ∈ cs, c.length = 16) (fb : Block) (hfb : fb.length = 16) :
    genStream nx ou fb cs = genStream nx' ou' fb cs ∧ cs.foldl nx fb = cs.foldl nx' fb ∧
      (cs.foldl nx' fb).length = 16 := by
  induction cs generalizing fb with
  | nil => exact ⟨rfl, rfl, hfb⟩
  | cons c cs ih =>
    obtain ⟨h1, h2, h3⟩ := H fb c hfb (hcs c (by simp))
    obtain ⟨i1, i2, i3⟩ := ih (fun c hc => hcs c (by simp [hc])) (nx' fb c) h3
    simp only [genStream, List.foldl_cons, h1, h2, i1, i2, i3, and_self]

/-! ### the six recursions of `Spec.Modes` as instances -/

theorem ctrStream_eq (E : Block → Block) (fb : Block) (cs : List Block) :
    ctrStream E fb cs = genStream (fun fb _ => incr fb) (fun fb c => xorBytes c (E fb)) fb cs := by
  induction cs generalizing fb with
  | nil => rfl
  | cons c cs ih => simp [ctrStream, genStream, ih]

theorem ofbStream_eq (E : Block → Block) (fb : Block) (cs : List Block) :
    ofbStream E fb cs = genStream (fun fb _ => E fb) (fun fb c => xorBytes c (E fb)) fb cs := by
  induction cs generalizing fb with
  | nil => rfl
  | cons c cs ih => simp [ofbStream, genStream, ih]

theorem cfbEncStream_eq (E : Block → Block) (fb : Block) (cs : List Block) :
    cfbEncStream E fb cs =
      genStream (fun fb c => xorBytes c (E fb)) (fun fb c => xorBytes c (E fb)) fb cs := by
  induction cs generalizing fb with
  | nil => rfl
  | cons c cs ih => simp [cfbEncStream, genStream, ih]

theorem cfbDecStream_eq (E : Block → Block) (fb : Block) (cs : List Block) :
    cfbDecStream E fb cs = genStream (fun _ c => c) (fun fb c => xorBytes c (E fb)) fb cs := by
  induction cs generalizing fb with
  | nil => rfl
  | cons c cs ih => simp [cfbDecStream, genStream, ih]

theorem cbcEncBlocks_eq (E : Block → Block) (fb : Block) (cs : List Block) :
    cbcEncBlocks E fb cs =
      genStream (fun fb c => E (xorBytes fb c)) (fun fb c => E (xorBytes fb c)) fb cs := by
  induction cs generalizing fb with
  | nil => rfl
  | cons c cs ih => simp [cbcEncBlocks, genStream, ih]

theorem cbcDecBlocks_eq (D : Block → Block) (fb : Block) (cs : List Block) :
    cbcDecBlocks D fb cs = genStream (fun _ c => c) (fun fb c => xorBytes fb (D c)) fb cs := by
  induction cs generalizing fb with
  | nil => rfl
  | cons c cs ih => simp [cbcDecBlocks, genStream, ih]

/-! ### generic length and round trip over `chunks` -/

theorem genStream_chunks_unfold (nx : Block → Block → Block) (ou : Block → Block → List UInt8)
    (fb : Block) (d : List UInt8) (h : d ≠ []) :
    genStream nx ou fb (chunks d) =
      ou fb (d.take 16) ++ genStream nx ou (nx fb (d.take 16)) (chunks (d.drop 16)) := by
  rw [chunks_of_ne d h]; rfl

/-- `P` is an invariant of the feedback value, `Q` a property of the data length that survives
removing a leading block (`True` for the stream modes, `· % 16 = 0` for CBC). -/
theorem genStream_length (nx : Block → Block → Block) (ou : Block → Block → List UInt8)
    (P : Block → Prop) (Q : Nat → Prop) (hQ : ∀ n, Q n → 16 ≤ n → Q (n - 16))
    (H : ∀ fb c, P fb → 0 < c.length → c.length ≤ 16 → (c.length < 16 → Q c.length) →
      (ou fb c).length = c.length ∧ (c.length = 16 → P (nx fb c)))
    (n : Nat) (d : List UInt8) (hn : d.length ≤ n) (fb : Block) (hP : P fb) (hd : Q d.length) :
    (genStream nx ou fb (chunks d)).length = d.length := by
  induction n generalizing d fb with
  | zero =>
    have : d = [] := List.length_eq_zero_iff.1 (by omega)
    subst this; rw [chunks_nil]; rfl
  | succ n ih =>
    by_cases hne : d = []
    · subst hne; rw [chunks_nil]; rfl
    · have hpos : 0 < d.length := List.length_pos_iff.2 hne
      rw [genStream_chunks_unfold nx ou fb d hne, List.length_append]
      by_cases h16 : 16 ≤ d.length
      · have htl : (d.take 16).length = 16 := by simp; omega
        obtain ⟨h1, h2⟩ := H fb (d.take 16) hP (by omega) (by omega) (by omega)
        rw [h1, ih (d.drop 16) (by simp; omega) _ (h2 htl) (by simpa using hQ _ hd h16)]
        simp; omega
      · have htk : d.take 16 = d := List.take_of_length_le (by omega)
        have hdr : d.drop 16 = [] := List.drop_eq_nil_of_le (by omega)
        obtain ⟨h1, _⟩ := H fb d hP hpos (by omega) (fun _ => hd)
        rw [htk, hdr, chunks_nil, h1]; rfl

theorem genStream_roundtrip (nx1 nx2 : Block → Block → Block) (ou1 ou2 : Block → Block → List UInt8)
    (P : Block → Prop) (Q : Nat → Prop) (hQ : ∀ n, Q n → 16 ≤ n → Q (n - 16))
    (H : ∀ fb c, P fb → 0 < c.length → c.length ≤ 16 → (c.length < 16 → Q c.length) →
      (ou1 fb c).length = c.length ∧ ou2 fb (ou1 fb c) = c ∧
      (c.length = 16 → nx2 fb (ou1 fb c) = nx1 fb c ∧ P (nx1 fb c)))
    (n : Nat) (d : List UInt8) (hn : d.length ≤ n) (fb : Block) (hP : P fb) (hd : Q d.length) :
    genStream nx2 ou2 fb (chunks (genStream nx1 ou1 fb (chunks d))) = d := by
  have HL := genStream_length nx1 ou1 P Q hQ
    (fun fb c h1 h2 h3 h4 => ⟨(H fb c h1 h2 h3 h4).1, fun h => ((H fb c h1 h2 h3 h4).2.2 h).2⟩)
  induction n generalizing d fb with
  | zero =>
    have : d = [] := List.length_eq_zero_iff.1 (by omega)
    subst this; simp [chunks_nil, genStream]
  | succ n ih =>
    by_cases hne : d = []
    · subst hne; simp [chunks_nil, genStream]
    · have hpos : 0 < d.length := List.length_pos_iff.2 hne
      rw [genStream_chunks_unfold nx1 ou1 fb d hne]
      by_cases h16 : 16 ≤ d.length
      · have htl : (d.take 16).length = 16 := by simp; omega
        obtain ⟨h1, h2, h3⟩ := H fb (d.take 16) hP (by omega) (by omega) (by omega)
        obtain ⟨h3, h4⟩ := h3 htl
        have hX : ou1 fb (d.take 16) ++ genStream nx1 ou1 (nx1 fb (d.take 16)) (chunks (d.drop 16)) ≠ [] := by
          intro h0
          have := congrArg List.length h0
          rw [List.length_append, h1, htl, List.length_nil] at this; omega
        rw [genStream_chunks_unfold nx2 ou2 fb _ hX,
          List.take_left' (by rw [h1, htl]), List.drop_left' (by rw [h1, htl]), h2, h3,
          ih (d.drop 16) (by simp; omega) _ h4 (by simpa using hQ _ hd h16)]
        exact List.take_append_drop 16 d
      · have htk : d.take 16 = d := List.take_of_length_le (by omega)
        have hdr : d.drop 16 = [] := List.drop_eq_nil_of_le (by omega)
        obtain ⟨h1, h2, _⟩ := H fb d hP hpos (by omega) (fun _ => hd)
        rw [htk, hdr, chunks_nil]
        simp only [genStream, List.append_nil]
        have hne' : ou1 fb d ≠ [] := by
          intro h0
          have := congrArg List.length h0
          rw [h1, List.length_nil] at this; omega
        rw [chunks_short _ hne' (by omega)]
        simp [genStream, h2]

/-! ### big-endian counter increment -/

/-- little-endian value -/
def leNat : List UInt8 → Nat
  | [] => 0
  | b :: bs => b.toNat + 256 * leNat bs

theorem beNat_append_singleton (a : List UInt8) (b : UInt8) : beNat (a ++ [b]) = beNat a * 256 + b.toNat := by
  simp [beNat]

theorem beNat_reverse (l : List UInt8) : beNat l.reverse = leNat l := by
  induction l with
  | nil => rfl
  | cons b bs ih => rw [List.reverse_cons, beNat_append_singleton, ih, leNat]; omega

theorem leNat_lt (l : List UInt8) : leNat l < 256 ^ l.length := by
  induction l with
  | nil => simp [leNat]
  | cons b bs ih =>
    have := b.toNat_lt
    simp only [leNat, List.length_cons, Nat.pow_succ]
    omega

theorem addOneRev_length (l : List UInt8) : (Impl.SM4.addOneRev l).length = l.length := by
  induction l with
  | nil => rfl
  | cons b bs ih => simp only [Impl.SM4.addOneRev]; split <;> simp [ih]

theorem leNat_addOneRev (l : List UInt8) :
    leNat (Impl.SM4.addOneRev l) = (leNat l + 1) % 256 ^ l.length := by
  induction l with
  | nil => simp [Impl.SM4.addOneRev, leNat]
  | cons b bs ih =>
    have hlt := leNat_lt bs
    have hb := b.toNat_lt
    simp only [Impl.SM4.addOneRev]
    split
    · next h =>
      subst h
      simp only [leNat, ih, List.length_cons, Nat.pow_succ]
      have h0 : (0 : UInt8).toNat = 0 := rfl
      have h255 : (255 : UInt8).toNat = 255 := rfl
      rw [h0, h255]
      by_cases hx : leNat bs + 1 < 256 ^ bs.length
      · rw [Nat.mod_eq_of_lt hx, Nat.mod_eq_of_lt (by omega)]; omega
      · have hx' : leNat bs + 1 = 256 ^ bs.length := by omega
        rw [hx', Nat.mod_self, show 255 + 256 * leNat bs + 1 = 256 ^ bs.length * 256 by omega,
          Nat.mod_self]
    · next h =>
      have hb' : b.toNat ≠ 255 := fun h' => h (UInt8.toNat_inj.1 h')
      have : (b + 1).toNat = b.toNat + 1 := by
        rw [UInt8.toNat_add]; simp; omega
      simp only [leNat, this, List.length_cons, Nat.pow_succ]
      rw [Nat.mod_eq_of_lt (by omega)]
      omega


theorem blockAddOne_length (a : List UInt8) : (Impl.SM4.blockAddOne a).length = a.length := by
  simp [Impl.SM4.blockAddOne, addOneRev_length]

theorem beNat_blockAddOne (a : List UInt8) :
    beNat (Impl.SM4.blockAddOne a) = (beNat a + 1) % 256 ^ a.length := by
  have := leNat_addOneRev a.reverse
  rw [← beNat_reverse, ← beNat_reverse, List.reverse_reverse, List.length_reverse] at this
  exact this

theorem natBE_succ (len n : Nat) :
    natBE (len + 1) n = natBE len (n / 256) ++ [(n % 256).toUInt8] := by
  simp only [natBE, List.range_succ, List.map_append, List.map_cons, List.map_nil]
  congr 1
  · apply List.map_congr_left
    intro i hi
    have hi : i < len := List.mem_range.1 hi
    rw [show len + 1 - 1 - i = (len - 1 - i) + 1 by omega, Nat.pow_succ, Nat.mul_comm,
      Nat.div_div_eq_div_mul]
  · simp

theorem natBE_leNat (r : List UInt8) : natBE r.length (leNat r) = r.reverse := by
  induction r with
  | nil => rfl
  | cons b bs ih =>
    have hb := b.toNat_lt
    rw [List.length_cons, natBE_succ, leNat,
      show (b.toNat + 256 * leNat bs) / 256 = leNat bs by omega,
      show (b.toNat + 256 * leNat bs) % 256 = b.toNat by omega, ih, List.reverse_cons]
    simp

theorem natBE_beNat (a : List UInt8) : natBE a.length (beNat a) = a := by
  have := natBE_leNat a.reverse
  rwa [← beNat_reverse, List.length_reverse, List.reverse_reverse] at this

theorem natBE_mod (len n : Nat) : natBE len (n % 256 ^ len) = natBE len n := by
  induction len generalizing n with
  | zero => rfl
  | succ len ih =>
    rw [natBE_succ, natBE_succ, Nat.pow_succ, Nat.mul_comm, Nat.mod_mul_right_div_self, ih,
      Nat.mod_mul_right_mod]

theorem natBE_length (len n : Nat) : (natBE len n).length = len := by simp [natBE]

theorem incr_length (a : Block) : (incr a).length = 16 := natBE_length _ _

theorem blockAddOne_eq_incr (a : List UInt8) (h : a.length = 16) : Impl.SM4.blockAddOne a = incr a := by
  have h1 := natBE_beNat (Impl.SM4.blockAddOne a)
  rw [blockAddOne_length, beNat_blockAddOne, natBE_mod, h] at h1
  exact h1.symm

theorem beNat_blockAddOne16 (a : List UInt8) (h : a.length = 16) :
    beNat (Impl.SM4.blockAddOne a) = (beNat a + 1) % 2 ^ 128 := by
  rw [beNat_blockAddOne, h]

/-! ### the Rust loops of the three stream modes -/

theorem tailXor_eq (data enc : List UInt8) :
    Impl.SM4.tailXor data enc (data.length / 16) (data.length - data.length / 16 * 16) =
      xorBytes (tail data) enc := by
  unfold Impl.SM4.tailXor xorBytes tail
  rw [List.take_of_length_le (by simp)]

theorem stream_impl_eq (F E : Block → Block) (nxI nxS : Block → Block → Block)
    (hF : ∀ b, b.length = 16 → F b = E b) (hE : ∀ b, (E b).length = 16)
    (hnx : ∀ fb c, fb.length = 16 → c.length = 16 → nxI fb c = nxS fb c ∧ (nxS fb c).length = 16)
    (data iv : List UInt8) (hiv : iv.length = 16) :
    ((List.range (data.length / 16)).foldl (fun (st : List UInt8 × List UInt8) i =>
        (nxI st.1 (Impl.SM4.blk data i),
          st.2 ++ Impl.SM4.blockXor (F st.1) (Impl.SM4.blk data i))) (iv, [])).2 ++
      Impl.SM4.tailXor data
        (F ((List.range (data.length / 16)).foldl (fun (st : List UInt8 × List UInt8) i =>
          (nxI st.1 (Impl.SM4.blk data i),
            st.2 ++ Impl.SM4.blockXor (F st.1) (Impl.SM4.blk data i))) (iv, [])).1)
        (data.length / 16) (data.length - data.length / 16 * 16) =
    genStream nxS (fun fb c => xorBytes c (E fb)) iv (chunks data) := by
  have hfold := foldl_range_genStream nxI (fun fb c => Impl.SM4.blockXor (F fb) c) data
    (data.length / 16) iv []
  rw [hfold]
  simp only [List.nil_append]
  obtain ⟨c1, c2, c3⟩ := genStream_congr nxI nxS (fun fb c => Impl.SM4.blockXor (F fb) c)
    (fun fb c => xorBytes c (E fb))
    (fun fb c hfb hc => by
      obtain ⟨h1, h2⟩ := hnx fb c hfb hc
      refine ⟨h1, ?_, h2⟩
      show Impl.SM4.blockXor (F fb) c = xorBytes c (E fb)
      rw [hF fb hfb, blockXor_eq _ _ (hE fb) hc, xorBytes_comm])
    (fullChunks data (data.length / 16)) (fullChunks_length16 data _ (by omega)) iv hiv
  rw [c1, c2, hF _ c3, tailXor_eq, chunks_eq, genStream_append]
  congr 1
  split
  · next h => rw [h]; rfl
  · simp [genStream]


section impl
variable (rk : Array UInt32) (E : Block → Block)
  (hF : ∀ b, b.length = 16 → Impl.SM4.encB rk b = E b) (hE : ∀ b, (E b).length = 16)
include hF hE

theorem ctr_encrypt_eq (data iv : List UInt8) (hiv : iv.length = 16) :
    Impl.SM4.ctr_encrypt rk data iv = ctr E iv data := by
  rw [ctr, ctrStream_eq]
  exact stream_impl_eq (Impl.SM4.encB rk) E (fun fb _ => Impl.SM4.blockAddOne fb)
    (fun fb _ => incr fb) hF hE
    (fun fb c hfb _ => ⟨blockAddOne_eq_incr fb hfb, incr_length fb⟩) data iv hiv

theorem ofb_encrypt_eq (data iv : List UInt8) (hiv : iv.length = 16) :
    Impl.SM4.ofb_encrypt rk data iv = ofb E iv data := by
  rw [ofb, ofbStream_eq]
  exact stream_impl_eq (Impl.SM4.encB rk) E (fun fb _ => Impl.SM4.encB rk fb)
    (fun fb _ => E fb) hF hE
    (fun fb c hfb _ => ⟨hF fb hfb, hE fb⟩) data iv hiv

theorem cfb_encrypt_eq (data iv : List UInt8) (hiv : iv.length = 16) :
    Impl.SM4.cfb_encrypt rk data iv = cfbEnc E iv data := by
  rw [cfbEnc, cfbEncStream_eq]
  exact stream_impl_eq (Impl.SM4.encB rk) E
    (fun fb c => Impl.SM4.blockXor (Impl.SM4.encB rk fb) c)
    (fun fb c => xorBytes c (E fb)) hF hE
    (fun fb c hfb hc => by
      constructor
      · show Impl.SM4.blockXor (Impl.SM4.encB rk fb) c = xorBytes c (E fb)
        rw [hF fb hfb, blockXor_eq _ _ (hE fb) hc, xorBytes_comm]
      · show (xorBytes c (E fb)).length = 16
        rw [xorBytes_length, hE, hc]; rfl) data iv hiv

theorem cfb_decrypt_eq (data iv : List UInt8) (hiv : iv.length = 16) :
    Impl.SM4.cfb_decrypt rk data iv = cfbDec E iv data := by
  rw [cfbDec, cfbDecStream_eq]
  exact stream_impl_eq (Impl.SM4.encB rk) E (fun _ c => c) (fun _ c => c) hF hE
    (fun fb c _ hc => ⟨rfl, hc⟩) data iv hiv

end impl

/-! ### PKCS#7 and CBC -/

theorem pad_length (x : List UInt8) : (pkcs7Pad x).length = 16 * (x.length / 16 + 1) := by
  simp [pkcs7Pad]; omega

theorem blk_append (d e : List UInt8) (i : Nat) (h : (i + 1) * 16 ≤ d.length) :
    Impl.SM4.blk (d ++ e) i = Impl.SM4.blk d i := by
  unfold Impl.SM4.blk
  rw [List.drop_append_of_le_length (by omega), List.take_append_of_le_length (by simp; omega)]

theorem fullChunks_append (d e : List UInt8) (n : Nat) (h : n * 16 ≤ d.length) :
    fullChunks (d ++ e) n = fullChunks d n := by
  unfold fullChunks
  apply List.map_congr_left
  intro i hi
  have hi : i < n := List.mem_range.1 hi
  have : (i + 1) * 16 ≤ n * 16 := Nat.mul_le_mul_right 16 hi
  exact blk_append d e i (by omega)

theorem pad_chunks (x : List UInt8) :
    chunks (pkcs7Pad x) = fullChunks x (x.length / 16) ++
      [tail x ++ List.replicate (16 - x.length % 16) (16 - x.length % 16).toUInt8] := by
  rw [chunks_split (pkcs7Pad x) (x.length / 16) (by rw [pad_length]; omega)]
  unfold pkcs7Pad
  simp only []
  rw [fullChunks_append _ _ _ (by omega), List.drop_append_of_le_length (by omega)]
  congr 1
  apply chunks_short
  · intro h
    have := congrArg List.length h
    simp at this; omega
  · simp; omega


theorem cbc_encrypt_eq (rk : Array UInt32) (E : Block → Block)
    (hF : ∀ b, b.length = 16 → Impl.SM4.encB rk b = E b) (hE : ∀ b, (E b).length = 16)
    (data iv : List UInt8) (hiv : iv.length = 16) :
    Impl.SM4.cbc_encrypt rk data iv = cbcEnc E iv data := by
  have hfold := foldl_range_genStream
    (fun fb c => Impl.SM4.encB rk (Impl.SM4.blockXor fb c))
    (fun fb c => Impl.SM4.encB rk (Impl.SM4.blockXor fb c)) data (data.length / 16) iv []
  obtain ⟨c1, c2, c3⟩ := genStream_congr
    (fun fb c => Impl.SM4.encB rk (Impl.SM4.blockXor fb c))
    (fun fb c => E (xorBytes fb c))
    (fun fb c => Impl.SM4.encB rk (Impl.SM4.blockXor fb c))
    (fun fb c => E (xorBytes fb c))
    (fun fb c hfb hc => by
      have : Impl.SM4.encB rk (Impl.SM4.blockXor fb c) = E (xorBytes fb c) := by
        rw [blockXor_eq _ _ hfb hc, hF _ (by rw [xorBytes_length, hfb, hc]; rfl)]
      exact ⟨this, this, hE _⟩)
    (fullChunks data (data.length / 16)) (fullChunks_length16 data _ (by omega)) iv hiv
  have hlast : ∀ last : List UInt8, last.length = 16 →
      Impl.SM4.encB rk (Impl.SM4.blockXor
        (List.foldl (fun fb c => Impl.SM4.encB rk (Impl.SM4.blockXor fb c)) iv
          (fullChunks data (data.length / 16))) last) =
      E (xorBytes (List.foldl (fun fb c => E (xorBytes fb c)) iv
          (fullChunks data (data.length / 16))) last) := by
    intro last hl
    rw [c2, blockXor_eq _ _ c3 hl, hF _ (by rw [xorBytes_length, c3, hl]; rfl)]
  rw [cbcEnc, cbcEncBlocks_eq, pad_chunks, genStream_append]
  unfold Impl.SM4.cbc_encrypt
  simp only []
  rw [hfold]
  simp only [List.nil_append, c1, genStream, List.append_nil]
  split
  · next h =>
    rw [hlast _ (by have := tail_length data; simp only [tail] at this; simp; omega)]
    rfl
  · next h =>
    have h0 : data.length % 16 = 0 := by omega
    have ht : tail data = [] := List.length_eq_zero_iff.1 (by rw [tail_length, h0])
    rw [hlast _ (by simp), ht, h0]
    rfl


theorem chunks_aligned (d : List UInt8) (h : d.length % 16 = 0) :
    chunks d = fullChunks d (d.length / 16) := by
  have ht : tail d = [] := List.length_eq_zero_iff.1 (by rw [tail_length, h])
  rw [chunks_eq, ht]; simp

theorem cbcDecBlocks_length (D : Block → Block) (hD : ∀ b, (D b).length = 16)
    (cs : List Block) (hcs : ∀ c ∈ cs, c.length = 16) (fb : Block) (hfb : fb.length = 16) :
    (cbcDecBlocks D fb cs).length = 16 * cs.length := by
  induction cs generalizing fb with
  | nil => rfl
  | cons c cs ih =>
    simp only [cbcDecBlocks, List.length_append, List.length_cons, xorBytes_length, hfb, hD]
    rw [ih (fun c hc => hcs c (by simp [hc])) c (hcs c (by simp))]
    omega

theorem cbcDec_blocks_length (D : Block → Block) (hD : ∀ b, (D b).length = 16)
    (data iv : List UInt8) (hiv : iv.length = 16) (h : data.length % 16 = 0) :
    (cbcDecBlocks D iv (chunks data)).length = data.length := by
  rw [chunks_aligned data h, cbcDecBlocks_length D hD _ (fullChunks_length16 data _ (by omega)) iv hiv]
  simp [fullChunks]; omega

theorem cbc_decrypt_eq (rk : Array UInt32) (D : Block → Block)
    (hF : ∀ b, b.length = 16 → Impl.SM4.decB rk b = D b) (hD : ∀ b, (D b).length = 16)
    (data iv : List UInt8) (hiv : iv.length = 16) :
    Impl.SM4.cbc_decrypt rk data iv =
      match cbcDec D iv data with
      | some p => .ok p
      | none => .err (if data.length = 0 ∨ data.length % 16 ≠ 0 then "ErrorDataLen"
                      else "InvalidLastU8") := by
  unfold Impl.SM4.cbc_decrypt cbcDec
  by_cases hc : data.length = 0 ∨ data.length % 16 ≠ 0
  · simp only [hc, if_true]
  · simp only [hc, if_false]
    have h16 : data.length % 16 = 0 := by omega
    have hpos : 0 < data.length := by omega
    have hfold := foldl_range_genStream (fun _ c => c)
      (fun fb c => Impl.SM4.blockXor fb (Impl.SM4.decB rk c)) data (data.length / 16) iv []
    obtain ⟨c1, -, -⟩ := genStream_congr (fun _ c => c) (fun _ c => c)
      (fun fb c => Impl.SM4.blockXor fb (Impl.SM4.decB rk c))
      (fun fb c => xorBytes fb (D c))
      (fun fb c hfb hc => by
        refine ⟨rfl, ?_, hc⟩
        show Impl.SM4.blockXor fb (Impl.SM4.decB rk c) = xorBytes fb (D c)
        rw [hF c hc, blockXor_eq _ _ hfb (hD c)])
      (fullChunks data (data.length / 16)) (fullChunks_length16 data _ (by omega)) iv hiv
    rw [hfold]
    simp only [List.nil_append, c1]
    rw [← cbcDecBlocks_eq, ← chunks_aligned data h16]
    have hlen := cbcDec_blocks_length D hD data iv hiv h16
    generalize cbcDecBlocks D iv (chunks data) = p at hlen ⊢
    rw [List.getLast?_eq_getElem?, hlen]
    have hlt : data.length - 1 < p.length := by omega
    rw [List.getElem?_eq_getElem hlt]
    simp only []
    by_cases hk : p[data.length - 1] = 0 ∨ p[data.length - 1] > 16
    · have hk' : p[data.length - 1] > 0x10 ∨ p[data.length - 1] = 0 := hk.symm
      simp only [hk, hk', if_true]
    · have hk' : ¬ (p[data.length - 1] > 0x10 ∨ p[data.length - 1] = 0) := fun h => hk h.symm
      simp only [hk, hk', if_false]

/-! ### round trips and lengths on `Spec.Modes`, generic in the block function -/

theorem padByte_toNat (n : Nat) : ((16 - n % 16).toUInt8).toNat = 16 - n % 16 := by
  simp; omega

theorem pad_getLast (x : List UInt8) :
    (pkcs7Pad x).getLast? = some (16 - x.length % 16).toUInt8 := by
  unfold pkcs7Pad
  simp only []
  have : 16 - x.length % 16 = (16 - x.length % 16 - 1) + 1 := by omega
  rw [this, List.replicate_succ', ← List.append_assoc, List.getLast?_concat]

theorem pad_take (x : List UInt8) :
    (pkcs7Pad x).take ((pkcs7Pad x).length - (16 - x.length % 16)) = x := by
  unfold pkcs7Pad
  simp only []
  rw [List.length_append, List.length_replicate, Nat.add_sub_cancel, List.take_left']
  rfl

section spec
variable (E : Block → Block) (hE : ∀ b, (E b).length = 16)
include hE

theorem xorE_length (fb c : Block) (hc : c.length ≤ 16) : (xorBytes c (E fb)).length = c.length := by
  rw [xorBytes_length, hE]; omega

theorem ctr_length (iv data : List UInt8) : (ctr E iv data).length = data.length := by
  rw [ctr, ctrStream_eq]
  exact genStream_length _ _ (fun _ => True) (fun _ => True) (fun _ _ _ => trivial)
    (fun fb c _ _ hc _ => ⟨xorE_length E hE fb c hc, fun _ => trivial⟩)
    data.length data (Nat.le_refl _) iv trivial trivial

theorem ofb_length (iv data : List UInt8) : (ofb E iv data).length = data.length := by
  rw [ofb, ofbStream_eq]
  exact genStream_length _ _ (fun _ => True) (fun _ => True) (fun _ _ _ => trivial)
    (fun fb c _ _ hc _ => ⟨xorE_length E hE fb c hc, fun _ => trivial⟩)
    data.length data (Nat.le_refl _) iv trivial trivial

theorem cfbEnc_length (iv data : List UInt8) : (cfbEnc E iv data).length = data.length := by
  rw [cfbEnc, cfbEncStream_eq]
  exact genStream_length _ _ (fun _ => True) (fun _ => True) (fun _ _ _ => trivial)
    (fun fb c _ _ hc _ => ⟨xorE_length E hE fb c hc, fun _ => trivial⟩)
    data.length data (Nat.le_refl _) iv trivial trivial

theorem cfbDec_length (iv data : List UInt8) : (cfbDec E iv data).length = data.length := by
  rw [cfbDec, cfbDecStream_eq]
  exact genStream_length _ _ (fun _ => True) (fun _ => True) (fun _ _ _ => trivial)
    (fun fb c _ _ hc _ => ⟨xorE_length E hE fb c hc, fun _ => trivial⟩)
    data.length data (Nat.le_refl _) iv trivial trivial

theorem ctr_ctr (iv data : List UInt8) : ctr E iv (ctr E iv data) = data := by
  simp only [ctr, ctrStream_eq]
  exact genStream_roundtrip _ _ _ _ (fun _ => True) (fun _ => True) (fun _ _ _ => trivial)
    (fun fb c _ _ hc _ => ⟨xorE_length E hE fb c hc,
      xorBytes_cancel_right c (E fb) (by rw [hE]; exact hc), fun _ => ⟨rfl, trivial⟩⟩)
    data.length data (Nat.le_refl _) iv trivial trivial

theorem ofb_ofb (iv data : List UInt8) : ofb E iv (ofb E iv data) = data := by
  simp only [ofb, ofbStream_eq]
  exact genStream_roundtrip _ _ _ _ (fun _ => True) (fun _ => True) (fun _ _ _ => trivial)
    (fun fb c _ _ hc _ => ⟨xorE_length E hE fb c hc,
      xorBytes_cancel_right c (E fb) (by rw [hE]; exact hc), fun _ => ⟨rfl, trivial⟩⟩)
    data.length data (Nat.le_refl _) iv trivial trivial

theorem cfbDec_cfbEnc (iv data : List UInt8) : cfbDec E iv (cfbEnc E iv data) = data := by
  simp only [cfbDec, cfbEnc, cfbDecStream_eq, cfbEncStream_eq]
  exact genStream_roundtrip _ _ _ _ (fun _ => True) (fun _ => True) (fun _ _ _ => trivial)
    (fun fb c _ _ hc _ => ⟨xorE_length E hE fb c hc,
      xorBytes_cancel_right c (E fb) (by rw [hE]; exact hc), fun _ => ⟨rfl, trivial⟩⟩)
    data.length data (Nat.le_refl _) iv trivial trivial

theorem cbcEnc_length (iv data : List UInt8) (hiv : iv.length = 16) :
    (cbcEnc E iv data).length = 16 * (data.length / 16 + 1) := by
  rw [cbcEnc, cbcEncBlocks_eq, ← pad_length]
  exact genStream_length _ _ (fun fb => fb.length = 16) (fun n => n % 16 = 0)
    (fun n h1 h2 => by omega)
    (fun fb c _ h0 hc hq => by
      have : c.length = 16 := by
        by_cases h : c.length < 16
        · have := hq h; omega
        · omega
      exact ⟨by rw [hE, this], fun _ => hE _⟩)
    _ (pkcs7Pad data) (Nat.le_refl _) iv hiv (by rw [pad_length]; omega)


theorem cbcDec_cbcEnc (D : Block → Block) (hDE : ∀ b, b.length = 16 → D (E b) = b)
    (iv data : List UInt8) (hiv : iv.length = 16) :
    cbcDec D iv (cbcEnc E iv data) = some data := by
  have hlen := cbcEnc_length E hE iv data hiv
  have hblocks : cbcDecBlocks D iv (chunks (cbcEnc E iv data)) = pkcs7Pad data := by
    simp only [cbcEnc, cbcDecBlocks_eq, cbcEncBlocks_eq]
    exact genStream_roundtrip _ _ _ _ (fun fb => fb.length = 16) (fun n => n % 16 = 0)
      (fun n h1 h2 => by omega)
      (fun fb c hfb h0 hc hq => by
        have h16 : c.length = 16 := by
          by_cases h : c.length < 16
          · have := hq h; omega
          · omega
        have hx : (xorBytes fb c).length = 16 := by rw [xorBytes_length, hfb, h16]; rfl
        refine ⟨by rw [hE, h16], ?_, fun _ => ⟨rfl, hE _⟩⟩
        show xorBytes fb (D (E (xorBytes fb c))) = c
        rw [hDE _ hx, xorBytes_cancel_left c fb (by omega)])
      _ (pkcs7Pad data) (Nat.le_refl _) iv hiv (by rw [pad_length]; omega)
  unfold cbcDec
  rw [if_neg (by rw [hlen]; omega), hblocks]
  simp only []
  rw [pad_getLast]
  simp only []
  have hk := padByte_toNat data.length
  rw [if_neg, hk, pad_take]
  intro h
  rcases h with h | h
  · have := congrArg UInt8.toNat h
    rw [hk] at this
    have h0 : (0 : UInt8).toNat = 0 := rfl
    omega
  · have := UInt8.lt_iff_toNat_lt.1 h
    rw [hk] at this
    have h16 : (16 : UInt8).toNat = 16 := rfl
    omega

end spec

/-! ### `Sm4CipherMode::{encrypt,decrypt}` -/

theorem mode_encrypt_ok (mode : Impl.SM4.Mode) (key data iv : List UInt8)
    (hk : key.length = 16) (hiv : iv.length = 16) :
    Impl.SM4.mode_encrypt mode key data iv = .ok
      (match mode with
        | .cfb => cfbEnc (SM4.encBytes key) iv data
        | .ofb => ofb (SM4.encBytes key) iv data
        | .ctr => ctr (SM4.encBytes key) iv data
        | .cbc => cbcEnc (SM4.encBytes key) iv data) := by
  have hF := fun b hb => Proofs.SM4.encB_roundKeys key b hb
  have hE := Proofs.SM4.encBytes_length key
  unfold Impl.SM4.mode_encrypt
  rw [Proofs.SM4.new_refines key hk]
  simp only []
  rw [if_neg (by simp [hiv])]
  cases mode
  · simp only []; rw [cfb_encrypt_eq _ _ hF hE data iv hiv]
  · simp only []; rw [ofb_encrypt_eq _ _ hF hE data iv hiv]
  · simp only []; rw [ctr_encrypt_eq _ _ hF hE data iv hiv]
  · simp only []; rw [cbc_encrypt_eq _ _ hF hE data iv hiv]

theorem mode_decrypt_ok (mode : Impl.SM4.Mode) (key data iv : List UInt8)
    (hk : key.length = 16) (hiv : iv.length = 16) :
    Impl.SM4.mode_decrypt mode key data iv =
      (match mode with
        | .cfb => .ok (cfbDec (SM4.encBytes key) iv data)
        | .ofb => .ok (ofb (SM4.encBytes key) iv data)
        | .ctr => .ok (ctr (SM4.encBytes key) iv data)
        | .cbc =>
          match cbcDec (SM4.decBytes key) iv data with
          | some p => .ok p
          | none => .err (if data.length = 0 ∨ data.length % 16 ≠ 0 then "ErrorDataLen"
                          else "InvalidLastU8")) := by
  have hF := fun b hb => Proofs.SM4.encB_roundKeys key b hb
  have hE := Proofs.SM4.encBytes_length key
  have hG := fun b hb => Proofs.SM4.decB_roundKeys key b hb
  have hD := Proofs.SM4.decBytes_length key
  unfold Impl.SM4.mode_decrypt
  rw [Proofs.SM4.new_refines key hk]
  simp only []
  rw [if_neg (by simp [hiv])]
  cases mode
  · simp only []; rw [cfb_decrypt_eq _ _ hF hE data iv hiv]
  · simp only []; rw [ofb_encrypt_eq _ _ hF hE data iv hiv]
  · simp only []; rw [ctr_encrypt_eq _ _ hF hE data iv hiv]
  · exact cbc_decrypt_eq _ _ hG hD data iv hiv

theorem mode_key_err (mode : Impl.SM4.Mode) (key data iv : List UInt8) (hk : key.length ≠ 16) :
    Impl.SM4.mode_encrypt mode key data iv = .err "ErrorDataLen" ∧
    Impl.SM4.mode_decrypt mode key data iv = .err "ErrorDataLen" := by
  unfold Impl.SM4.mode_encrypt Impl.SM4.mode_decrypt Impl.SM4.new
  simp [hk]

theorem mode_iv_err (mode : Impl.SM4.Mode) (key data iv : List UInt8) (hk : key.length = 16)
    (hiv : iv.length ≠ 16) :
    Impl.SM4.mode_encrypt mode key data iv = .err "ErrorBlockSize" ∧
    Impl.SM4.mode_decrypt mode key data iv = .err "ErrorBlockSize" := by
  unfold Impl.SM4.mode_encrypt Impl.SM4.mode_decrypt
  rw [Proofs.SM4.new_refines key hk]
  simp [hiv]

theorem mode_total (mode : Impl.SM4.Mode) (key data iv : List UInt8) :
    Impl.SM4.mode_encrypt mode key data iv ≠ .panic ∧
    Impl.SM4.mode_decrypt mode key data iv ≠ .panic := by
  by_cases hk : key.length = 16
  · by_cases hiv : iv.length = 16
    · rw [mode_encrypt_ok mode key data iv hk hiv, mode_decrypt_ok mode key data iv hk hiv]
      refine ⟨by simp, ?_⟩
      cases mode <;> simp only [] <;> try simp
      split <;> simp
    · obtain ⟨h1, h2⟩ := mode_iv_err mode key data iv hk hiv
      rw [h1, h2]; simp
  · obtain ⟨h1, h2⟩ := mode_key_err mode key data iv hk
    rw [h1, h2]; simp


theorem cbcDec_some_aligned (D : Block → Block) (iv data p : List UInt8)
    (h : cbcDec D iv data = some p) : ¬ (data.length = 0 ∨ data.length % 16 ≠ 0) := by
  intro hc
  unfold cbcDec at h
  rw [if_pos hc] at h
  cases h

theorem cbc_dec_err (key data iv : List UInt8) (hk : key.length = 16) (hiv : iv.length = 16) :
    (∃ e, Impl.SM4.mode_decrypt .cbc key data iv = .err e) ↔
      (data.length = 0 ∨ data.length % 16 ≠ 0 ∨ cbcDec (SM4.decBytes key) iv data = none) := by
  rw [mode_decrypt_ok .cbc key data iv hk hiv]
  simp only []
  cases h : cbcDec (SM4.decBytes key) iv data with
  | none => simp
  | some p =>
    have := cbcDec_some_aligned _ _ _ _ h
    simp only [reduceCtorEq, exists_false, or_false, false_iff]
    intro hc
    rcases hc with hc | hc
    · exact this (Or.inl hc)
    · exact this (Or.inr hc)

end GmVerif.Proofs.Modes
