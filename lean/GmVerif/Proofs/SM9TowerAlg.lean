/-
Abstract algebra for the SM9 tower (C13b): the textbook quotient rings
`Quad K β = K[x]/(x² − β)` and `Cubic K ξ = K[x]/(x³ − ξ)` over a commutative ring, as plain coefficient structures
with the textbook operations, proved once to be commutative rings; embeddings of the base ring; and the
"non-zero elements are invertible" transfer lemmas (β a non-square, ξ a non-cube) used by the inversion proofs.
No model code here.
-/
import Mathlib.Tactic.Ring
import Mathlib.Tactic.LinearCombination
namespace GmVerif.Proofs.SM9Tower

/-- every non-zero element has a multiplicative inverse (the part of "is a field" that the inversion proofs need) -/
def HasInv (L : Type) [CommRing L] : Prop := ∀ x : L, x ≠ 0 → ∃ y, x * y = 1

namespace HasInv
variable {L : Type} [CommRing L]

theorem mul_ne_zero (h : HasInv L) {x y : L} (hx : x ≠ 0) (hy : y ≠ 0) : x * y ≠ 0 := by
  intro hxy
  obtain ⟨x', hx'⟩ := h x hx
  apply hy
  have : y = (x * x') * y := by rw [hx', one_mul]
  rw [this]
  linear_combination x' * hxy

theorem sq_eq_zero (h : HasInv L) {x : L} (hx : x ^ 2 = 0) : x = 0 := by
  by_contra hne
  exact h.mul_ne_zero hne hne (by rw [← hx]; ring)

theorem of_field {L : Type} [Field L] : HasInv L := fun x hx => ⟨x⁻¹, mul_inv_cancel₀ hx⟩
end HasInv

/-! ### K[x]/(x² − β) -/

/-- `c0 + c1·x` with `x² = β` -/
@[ext] structure Quad (K : Type) [CommRing K] (β : K) where
  c0 : K
  c1 : K

namespace Quad
variable {K : Type} [CommRing K] {β : K}

instance : Zero (Quad K β) := ⟨⟨0, 0⟩⟩
instance : One (Quad K β) := ⟨⟨1, 0⟩⟩
instance : Add (Quad K β) := ⟨fun a b => ⟨a.c0 + b.c0, a.c1 + b.c1⟩⟩
instance : Neg (Quad K β) := ⟨fun a => ⟨-a.c0, -a.c1⟩⟩
instance : Sub (Quad K β) := ⟨fun a b => ⟨a.c0 - b.c0, a.c1 - b.c1⟩⟩
/-- (a0 + a1 x)(b0 + b1 x) = (a0 b0 + β a1 b1) + (a0 b1 + a1 b0) x -/
instance : Mul (Quad K β) := ⟨fun a b => ⟨a.c0 * b.c0 + β * (a.c1 * b.c1), a.c0 * b.c1 + a.c1 * b.c0⟩⟩

@[simp] theorem zero_c0 : (0 : Quad K β).c0 = 0 := rfl
@[simp] theorem zero_c1 : (0 : Quad K β).c1 = 0 := rfl
@[simp] theorem one_c0 : (1 : Quad K β).c0 = 1 := rfl
@[simp] theorem one_c1 : (1 : Quad K β).c1 = 0 := rfl
@[simp] theorem add_c0 (a b : Quad K β) : (a + b).c0 = a.c0 + b.c0 := rfl
@[simp] theorem add_c1 (a b : Quad K β) : (a + b).c1 = a.c1 + b.c1 := rfl
@[simp] theorem neg_c0 (a : Quad K β) : (-a).c0 = -a.c0 := rfl
@[simp] theorem neg_c1 (a : Quad K β) : (-a).c1 = -a.c1 := rfl
@[simp] theorem sub_c0 (a b : Quad K β) : (a - b).c0 = a.c0 - b.c0 := rfl
@[simp] theorem sub_c1 (a b : Quad K β) : (a - b).c1 = a.c1 - b.c1 := rfl
@[simp] theorem mul_c0 (a b : Quad K β) : (a * b).c0 = a.c0 * b.c0 + β * (a.c1 * b.c1) := rfl
@[simp] theorem mul_c1 (a b : Quad K β) : (a * b).c1 = a.c0 * b.c1 + a.c1 * b.c0 := rfl

instance : CommRing (Quad K β) where
  add_assoc a b c := by ext <;> simp <;> ring
  zero_add a := by ext <;> simp
  add_zero a := by ext <;> simp
  add_comm a b := by ext <;> simp <;> ring
  nsmul := nsmulRec
  zsmul := zsmulRec
  neg_add_cancel a := by ext <;> simp
  sub_eq_add_neg a b := by ext <;> simp <;> ring
  mul_assoc a b c := by ext <;> simp <;> ring
  one_mul a := by ext <;> simp
  mul_one a := by ext <;> simp
  left_distrib a b c := by ext <;> simp <;> ring
  right_distrib a b c := by ext <;> simp <;> ring
  mul_comm a b := by ext <;> simp <;> ring
  zero_mul a := by ext <;> simp
  mul_zero a := by ext <;> simp

/-- the embedding of the base ring -/
def of (k : K) : Quad K β := ⟨k, 0⟩
/-- the adjoined root x -/
def root : Quad K β := ⟨0, 1⟩
/-- the conjugate c0 − c1·x -/
def conj (a : Quad K β) : Quad K β := ⟨a.c0, -a.c1⟩
/-- the norm c0² − β c1² -/
def norm (a : Quad K β) : K := a.c0 ^ 2 - β * a.c1 ^ 2

@[simp] theorem of_c0 (k : K) : (of k : Quad K β).c0 = k := rfl
@[simp] theorem of_c1 (k : K) : (of k : Quad K β).c1 = 0 := rfl
@[simp] theorem root_c0 : (root : Quad K β).c0 = 0 := rfl
@[simp] theorem root_c1 : (root : Quad K β).c1 = 1 := rfl
@[simp] theorem conj_c0 (a : Quad K β) : a.conj.c0 = a.c0 := rfl
@[simp] theorem conj_c1 (a : Quad K β) : a.conj.c1 = -a.c1 := rfl

theorem root_sq : (root : Quad K β) * root = of β := by ext <;> simp
theorem of_mul (a b : K) : (of (a * b) : Quad K β) = of a * of b := by ext <;> simp
theorem of_add (a b : K) : (of (a + b) : Quad K β) = of a + of b := by ext <;> simp
theorem of_one : (of 1 : Quad K β) = 1 := rfl
theorem of_zero : (of 0 : Quad K β) = 0 := rfl
theorem eq_of_add_root (a : Quad K β) : a = of a.c0 + of a.c1 * root := by ext <;> simp
theorem mul_conj (a : Quad K β) : a * a.conj = of a.norm := by ext <;> simp [norm] <;> ring
theorem norm_mul (a b : Quad K β) : (a * b).norm = a.norm * b.norm := by
  simp only [norm, mul_c0, mul_c1]; ring
theorem two_eq : (2 : Quad K β) = of 2 := by
  rw [← one_add_one_eq_two, ← one_add_one_eq_two]; ext <;> simp
theorem ne_zero_iff (a : Quad K β) : a ≠ 0 ↔ a.c0 ≠ 0 ∨ a.c1 ≠ 0 := by
  rw [Ne, Quad.ext_iff]; simp only [zero_c0, zero_c1]; tauto

/-- β a non-square and the base ring a field: the norm of a non-zero element is non-zero -/
theorem norm_ne_zero (hL : HasInv K) (hβ : ∀ x : K, x ^ 2 ≠ β) {a : Quad K β} (ha : a ≠ 0) : a.norm ≠ 0 := by
  intro hn
  unfold norm at hn
  by_cases h1 : a.c1 = 0
  · rw [h1] at hn
    have h0 : a.c0 = 0 := hL.sq_eq_zero (by linear_combination hn)
    exact ha (by ext <;> simp [h0, h1])
  · obtain ⟨y, hy⟩ := hL _ h1
    apply hβ (a.c0 * y)
    linear_combination y ^ 2 * hn + β * (a.c1 * y + 1) * hy

theorem hasInv (hL : HasInv K) (hβ : ∀ x : K, x ^ 2 ≠ β) : HasInv (Quad K β) := by
  intro a ha
  obtain ⟨n', hn'⟩ := hL _ (norm_ne_zero hL hβ ha)
  refine ⟨a.conj * of n', ?_⟩
  rw [← mul_assoc, mul_conj, ← of_mul, hn', of_one]

end Quad

/-! ### K[x]/(x³ − ξ) -/

/-- `c0 + c1·x + c2·x²` with `x³ = ξ` -/
@[ext] structure Cubic (K : Type) [CommRing K] (ξ : K) where
  c0 : K
  c1 : K
  c2 : K

namespace Cubic
variable {K : Type} [CommRing K] {ξ : K}

instance : Zero (Cubic K ξ) := ⟨⟨0, 0, 0⟩⟩
instance : One (Cubic K ξ) := ⟨⟨1, 0, 0⟩⟩
instance : Add (Cubic K ξ) := ⟨fun a b => ⟨a.c0 + b.c0, a.c1 + b.c1, a.c2 + b.c2⟩⟩
instance : Neg (Cubic K ξ) := ⟨fun a => ⟨-a.c0, -a.c1, -a.c2⟩⟩
instance : Sub (Cubic K ξ) := ⟨fun a b => ⟨a.c0 - b.c0, a.c1 - b.c1, a.c2 - b.c2⟩⟩
instance : Mul (Cubic K ξ) := ⟨fun a b =>
  ⟨a.c0 * b.c0 + ξ * (a.c1 * b.c2 + a.c2 * b.c1),
   a.c0 * b.c1 + a.c1 * b.c0 + ξ * (a.c2 * b.c2),
   a.c0 * b.c2 + a.c1 * b.c1 + a.c2 * b.c0⟩⟩

@[simp] theorem zero_c0 : (0 : Cubic K ξ).c0 = 0 := rfl
@[simp] theorem zero_c1 : (0 : Cubic K ξ).c1 = 0 := rfl
@[simp] theorem zero_c2 : (0 : Cubic K ξ).c2 = 0 := rfl
@[simp] theorem one_c0 : (1 : Cubic K ξ).c0 = 1 := rfl
@[simp] theorem one_c1 : (1 : Cubic K ξ).c1 = 0 := rfl
@[simp] theorem one_c2 : (1 : Cubic K ξ).c2 = 0 := rfl
@[simp] theorem add_c0 (a b : Cubic K ξ) : (a + b).c0 = a.c0 + b.c0 := rfl
@[simp] theorem add_c1 (a b : Cubic K ξ) : (a + b).c1 = a.c1 + b.c1 := rfl
@[simp] theorem add_c2 (a b : Cubic K ξ) : (a + b).c2 = a.c2 + b.c2 := rfl
@[simp] theorem neg_c0 (a : Cubic K ξ) : (-a).c0 = -a.c0 := rfl
@[simp] theorem neg_c1 (a : Cubic K ξ) : (-a).c1 = -a.c1 := rfl
@[simp] theorem neg_c2 (a : Cubic K ξ) : (-a).c2 = -a.c2 := rfl
@[simp] theorem sub_c0 (a b : Cubic K ξ) : (a - b).c0 = a.c0 - b.c0 := rfl
@[simp] theorem sub_c1 (a b : Cubic K ξ) : (a - b).c1 = a.c1 - b.c1 := rfl
@[simp] theorem sub_c2 (a b : Cubic K ξ) : (a - b).c2 = a.c2 - b.c2 := rfl
@[simp] theorem mul_c0 (a b : Cubic K ξ) : (a * b).c0 = a.c0 * b.c0 + ξ * (a.c1 * b.c2 + a.c2 * b.c1) := rfl
@[simp] theorem mul_c1 (a b : Cubic K ξ) : (a * b).c1 = a.c0 * b.c1 + a.c1 * b.c0 + ξ * (a.c2 * b.c2) := rfl
@[simp] theorem mul_c2 (a b : Cubic K ξ) : (a * b).c2 = a.c0 * b.c2 + a.c1 * b.c1 + a.c2 * b.c0 := rfl

instance : CommRing (Cubic K ξ) where
  add_assoc a b c := by ext <;> simp <;> ring
  zero_add a := by ext <;> simp
  add_zero a := by ext <;> simp
  add_comm a b := by ext <;> simp <;> ring
  nsmul := nsmulRec
  zsmul := zsmulRec
  neg_add_cancel a := by ext <;> simp
  sub_eq_add_neg a b := by ext <;> simp <;> ring
  mul_assoc a b c := by ext <;> simp <;> ring
  one_mul a := by ext <;> simp
  mul_one a := by ext <;> simp
  left_distrib a b c := by ext <;> simp <;> ring
  right_distrib a b c := by ext <;> simp <;> ring
  mul_comm a b := by ext <;> simp <;> ring
  zero_mul a := by ext <;> simp
  mul_zero a := by ext <;> simp

def of (k : K) : Cubic K ξ := ⟨k, 0, 0⟩
def root : Cubic K ξ := ⟨0, 1, 0⟩
@[simp] theorem of_c0 (k : K) : (of k : Cubic K ξ).c0 = k := rfl
@[simp] theorem of_c1 (k : K) : (of k : Cubic K ξ).c1 = 0 := rfl
@[simp] theorem of_c2 (k : K) : (of k : Cubic K ξ).c2 = 0 := rfl
@[simp] theorem root_c0 : (root : Cubic K ξ).c0 = 0 := rfl
@[simp] theorem root_c1 : (root : Cubic K ξ).c1 = 1 := rfl
@[simp] theorem root_c2 : (root : Cubic K ξ).c2 = 0 := rfl

theorem root_cube : (root : Cubic K ξ) * root * root = of ξ := by ext <;> simp
theorem root_sq : (root : Cubic K ξ) * root = ⟨0, 0, 1⟩ := by ext <;> simp
theorem of_mul (a b : K) : (of (a * b) : Cubic K ξ) = of a * of b := by ext <;> simp
theorem of_one : (of 1 : Cubic K ξ) = 1 := rfl
theorem two_eq : (2 : Cubic K ξ) = of 2 := by
  rw [← one_add_one_eq_two, ← one_add_one_eq_two]; ext <;> simp
theorem eq_of_add_root (a : Cubic K ξ) : a = of a.c0 + of a.c1 * root + of a.c2 * (root * root) := by
  ext <;> simp
theorem ne_zero_iff (a : Cubic K ξ) : a ≠ 0 ↔ a.c0 ≠ 0 ∨ a.c1 ≠ 0 ∨ a.c2 ≠ 0 := by
  rw [Ne, Cubic.ext_iff]; simp only [zero_c0, zero_c1, zero_c2]; tauto

/-- the components of the adjugate: `a · (adjA + adjB·x + adjC·x²) = norm a` -/
def adjA (a : Cubic K ξ) : K := a.c0 ^ 2 - ξ * (a.c1 * a.c2)
def adjB (a : Cubic K ξ) : K := ξ * a.c2 ^ 2 - a.c0 * a.c1
def adjC (a : Cubic K ξ) : K := a.c1 ^ 2 - a.c0 * a.c2
def adj (a : Cubic K ξ) : Cubic K ξ := ⟨a.adjA, a.adjB, a.adjC⟩
/-- the norm a0³ + ξ a1³ + ξ² a2³ − 3 ξ a0 a1 a2 -/
def norm (a : Cubic K ξ) : K := a.c0 ^ 3 + ξ * a.c1 ^ 3 + ξ ^ 2 * a.c2 ^ 3 - 3 * ξ * (a.c0 * a.c1 * a.c2)

theorem mul_adj (a : Cubic K ξ) : a * a.adj = of a.norm := by
  ext <;> simp [adj, adjA, adjB, adjC, norm] <;> ring

/-- ξ a non-cube and the base ring a field: the norm of a non-zero element is non-zero -/
theorem norm_ne_zero (hL : HasInv K) (hξ : ∀ x : K, x ^ 3 ≠ ξ) {a : Cubic K ξ} (ha : a ≠ 0) : a.norm ≠ 0 := by
  intro hn
  -- adj (adj a) = norm a • a
  have e0 : a.adjA ^ 2 - ξ * (a.adjB * a.adjC) = a.norm * a.c0 := by simp only [adjA, adjB, adjC, norm]; ring
  have e1 : ξ * a.adjC ^ 2 - a.adjA * a.adjB = a.norm * a.c1 := by simp only [adjA, adjB, adjC, norm]; ring
  have e2 : a.adjB ^ 2 - a.adjA * a.adjC = a.norm * a.c2 := by simp only [adjA, adjB, adjC, norm]; ring
  rw [hn, zero_mul] at e0 e1 e2
  by_cases hC : a.adjC = 0
  · have hB : a.adjB = 0 := hL.sq_eq_zero (by rw [hC] at e2; linear_combination e2)
    have hA : a.adjA = 0 := hL.sq_eq_zero (by rw [hC] at e0; linear_combination e0)
    unfold adjA at hA; unfold adjB at hB; unfold adjC at hC
    by_cases h2 : a.c2 = 0
    · have h1 : a.c1 = 0 := hL.sq_eq_zero (by rw [h2] at hC; linear_combination hC)
      have h0 : a.c0 = 0 := hL.sq_eq_zero (by rw [h2] at hA; linear_combination hA)
      exact ha (by ext <;> simp [h0, h1, h2])
    · obtain ⟨y, hy⟩ := hL _ h2
      apply hξ (a.c1 * y)
      linear_combination (exp := 1) y ^ 3 * a.c1 * hC - y ^ 3 * a.c2 * hB
        + ξ * (a.c2 ^ 2 * y ^ 2 + a.c2 * y + 1) * hy
  · obtain ⟨y, hy⟩ := hL _ hC
    apply hξ (a.adjB * y)
    linear_combination (exp := 1) y ^ 3 * a.adjB * e2 - y ^ 3 * a.adjC * e1
      + ξ * (a.adjC ^ 2 * y ^ 2 + a.adjC * y + 1) * hy

theorem hasInv (hL : HasInv K) (hξ : ∀ x : K, x ^ 3 ≠ ξ) : HasInv (Cubic K ξ) := by
  intro a ha
  obtain ⟨n', hn'⟩ := hL _ (norm_ne_zero hL hξ ha)
  refine ⟨a.adj * of n', ?_⟩
  rw [← mul_assoc, mul_adj, ← of_mul, hn', of_one]

end Cubic

end GmVerif.Proofs.SM9Tower
