/-
C12g, part 2: `ChainIndependent` — the signed-digit Miller chain (`millerSD`, the digit string `abits` of the model) and the
binary Miller chain of the standard (`Spec.SM9.miller`, the bits of 6t + 2) give the same value up to a factor killed by the
final exponentiation.

Lockstep induction with a carry.  Both folds run over 65 digits from (1, ψQ).  After a common prefix let m be the binary
prefix value and m' the signed-digit prefix value, c = m' − m ∈ {0, 1}:

    c = 0 :  T_sd = T_bin = ψ([m]Q),                      f_sd ≈ f_bin
    c = 1 :  T_sd = ψ([m+1]Q), T_bin = ψ([m]Q), 2 ≤ m,    f_sd ≈ f_bin · g_{[m]Q,Q}(P)

(≈ : equal up to a killed factor).  Transitions (carry, bit, digit ↦ carry): (0,0,0 ↦ 0), (0,1,1 ↦ 0), (0,0,1 ↦ 1) are immediate;
(1,1,0 ↦ 1) is `carry_double`; (1,0,−1 ↦ 1), (1,1,−1 ↦ 0) are `carry_double` and `carry_minus` (C12f).  Every other combination
makes `trans` return `none`; the kernel evaluates the run over the two actual digit strings (`run_value`): it ends with
m = 6t + 2 and carry 0.  All points of the run are ψ([k]Q) with 0 < |k| < N, so every genericity side condition is a numeric fact.
-/
import GmVerif.Proofs.SM9ChainIndepPts
set_option autoImplicit false
namespace GmVerif.Proofs.SM9ChainIndep
open GmVerif GmVerif.Proofs.SM9Tower GmVerif.Proofs.SM9TowerDense GmVerif.Proofs.SM9PairingReduce
open GmVerif.Proofs.SM9SpecField GmVerif.Proofs.SM9SpecLines GmVerif.Proofs.SM9MillerSD
open GmVerif.Proofs.SM9MillerAssocSpec (Aff OnE OnTw OnBase Approx)
open GmVerif.Proofs.SM9ChainGenericPf
open GmVerif.Spec.SM9 (p N Pt2 Pt12 neg12 lineAdd millerStep miller bitsMSB ateLoop frobPt finalExp onTwist mul2 untwist)
open GmVerif.Proofs.SM9Fp12 (ev Canon)
open GmVerif.Proofs.SM9G2 (W2)
open _root_.GmVerif.Impl.SM9 (abits)
open WeierstrassCurve.Affine

/-! ### the two step functions and the finish, unfolded -/

theorem millerStep_eq (Q : Pt12) (P : SFp12 × SFp12) (fs : SFp12) (T : Pt12) (b : Bool) :
    millerStep Q P (fs, T) b =
      if b = true then
        (Spec.SM9.Fp12.mul (Spec.SM9.Fp12.mul (Spec.SM9.Fp12.mul fs fs) (lineAdd T T P).1)
            (lineAdd (lineAdd T T P).2 Q P).1, (lineAdd (lineAdd T T P).2 Q P).2)
      else (Spec.SM9.Fp12.mul (Spec.SM9.Fp12.mul fs fs) (lineAdd T T P).1, (lineAdd T T P).2) := by
  cases b <;> rfl

theorem sdFinish_eq (P : SFp12 × SFp12) (Q : Pt12) (fs : SFp12) (T : Pt12) :
    sdFinish P Q (fs, T) = Spec.SM9.Fp12.mul (Spec.SM9.Fp12.mul fs (lineAdd T (frobPt Q) P).1)
      (lineAdd (lineAdd T (frobPt Q) P).2 (neg12 (frobPt (frobPt Q))) P).1 := rfl

/-- the binary Miller value of the standard is the same finish applied to the binary fold -/
theorem miller_eq (P : SFp12 × SFp12) (Q : Pt12) :
    miller P Q = sdFinish P Q (((bitsMSB ateLoop).drop 1).foldl (millerStep Q P) (Spec.SM9.Fp12.one, Q)) := rfl

theorem sdFinish_approx (P : SFp12 × SFp12) (Q : Pt12) {s1 s2 : SFp12 × Pt12} (hp : s1.2 = s2.2)
    (hv : Approx (ev s1.1) (ev s2.1)) : Approx (ev (sdFinish P Q s1)) (ev (sdFinish P Q s2)) := by
  obtain ⟨f1, T1⟩ := s1
  obtain ⟨f2, T2⟩ := s2
  dsimp only at hp hv
  subst hp
  rw [sdFinish_eq, sdFinish_eq, SM9Fp12.ev_mul, SM9Fp12.ev_mul, SM9Fp12.ev_mul, SM9Fp12.ev_mul]
  exact (hv.mul (Approx.refl _)).mul (Approx.refl _)

/-! ### the carry automaton -/

def cI (c : Bool) : ℤ := if c then 1 else 0
theorem cI_false : cI false = 0 := rfl
theorem cI_true : cI true = 1 := rfl
theorem cI_le (b : Bool) : 0 ≤ cI b ∧ cI b ≤ 1 := by cases b <;> decide

/-- the value of a digit character of `abits` -/
def dig (ch : Char) : ℤ := if ch = '1' then 1 else if ch = '2' then -1 else 0

/-- new carry 2c + digit − bit, when it is 0 or 1 -/
def trans (c b : Bool) (ch : Char) : Option Bool :=
  if 2 * cI c + dig ch - cI b = 0 then some false else if 2 * cI c + dig ch - cI b = 1 then some true else none

/-- the lockstep run over the two digit lists: final binary prefix value and final carry -/
def run : List Bool → List Char → ℤ → Bool → Option (ℤ × Bool)
  | [], [], m, c => some (m, c)
  | b :: bs, ch :: cs, m, c =>
    match trans c b ch with
    | some c' => run bs cs (2 * m + cI b) c'
    | none => none
  | _, _, _, _ => none

/-- THE RUN over the bits of 6t + 2 (without the leading one) and the 65 digits of the model: ends at m = 6t + 2, carry 0 -/
theorem run_value : run ((bitsMSB ateLoop).drop 1) abits.toList 1 false = some ((ateLoop : ℤ), false) := by
  decide +kernel

theorem run_bound : ((1 : ℤ) + 2) * 2 ^ ((bitsMSB ateLoop).drop 1).length < N := by decide +kernel

/-! ### the two cocycle relations on multiples of Q' -/

section order
variable {Q' : W2.Point} (hord : addOrderOf Q' = N) {P : SFp12 × SFp12} (hP : PGood P)
include hord hP

/-- `carry_double` at T = ψ([m]Q'), Q = ψ(Q') -/
theorem cd {m : ℤ} (hm : 2 ≤ m) (hN : 2 * m + 2 < N) :
    Approx (ev (lineAdd (pt Q' m) (pt Q' 1) P).1 ^ 2 * ev (lineAdd (pt Q' (m + 1)) (pt Q' (m + 1)) P).1)
      (ev (lineAdd (pt Q' m) (pt Q' m) P).1 * ev (lineAdd (pt Q' (2 * m)) (pt Q' 1) P).1
        * ev (lineAdd (pt Q' (2 * m + 1)) (pt Q' 1) P).1) := by
  have nd : ∀ k : ℤ, 0 < k → k < N → ¬ (N : ℤ) ∣ k := fun k => not_dvd_of_pos_lt
  obtain ⟨x1, y1, aT, c1, t1, -⟩ := pt_data hord hP (k := m) (nd _ (by omega) (by omega))
  obtain ⟨x2, y2, aQ, c2, t2, -⟩ := pt_data hord hP (k := 1) (nd _ (by omega) (by omega))
  obtain ⟨g1, eD⟩ := pt_tangent hord (a := m) (nd _ (by omega) (by omega)) (nd _ (by omega) (by omega)) P
  obtain ⟨g2, eS⟩ := pt_chord hord (a := m) (b := 1) (nd _ (by omega) (by omega)) (nd _ (by omega) (by omega))
    (nd _ (by omega) (by omega)) (nd _ (by omega) (by omega)) P
  obtain ⟨g3, eU⟩ := pt_chord hord (a := 2 * m) (b := 1) (nd _ (by omega) (by omega)) (nd _ (by omega) (by omega))
    (nd _ (by omega) (by omega)) (nd _ (by omega) (by omega)) P
  obtain ⟨g4, -⟩ := pt_chord hord (a := m + 1) (b := m) (nd _ (by omega) (by omega)) (nd _ (by omega) (by omega))
    (nd _ (by omega) (by omega)) (nd _ (by omega) (by omega)) P
  obtain ⟨g5, -⟩ := pt_tangent hord (a := m + 1) (nd _ (by omega) (by omega)) (nd _ (by omega) (by omega)) P
  obtain ⟨g6, -⟩ := pt_chord hord (a := 2 * m + 1) (b := 1) (nd _ (by omega) (by omega)) (nd _ (by omega) (by omega))
    (nd _ (by omega) (by omega)) (nd _ (by omega) (by omega)) P
  obtain ⟨xD, yD, aD, -, -, vD⟩ := pt_data hord hP (k := 2 * m) (nd _ (by omega) (by omega))
  obtain ⟨xS, yS, aS, -, -, vS⟩ := pt_data hord hP (k := m + 1) (nd _ (by omega) (by omega))
  obtain ⟨xU, yU, aU, -, -, vU⟩ := pt_data hord hP (k := 2 * m + 1) (nd _ (by omega) (by omega))
  have h := (SM9MillerAssocSpec.carry_double (P := P) aT aQ c1 c2 hP.onE t1 t2 hP.base g1 g2 (by rw [eD]; exact g3)
    (by rw [eS]; exact g4) (by rw [eS]; exact g5) (by rw [eD, eU]; exact g6)
    (fun x y h => by rw [eD] at h; rw [← Aff.x_eq aD h]; exact vD)
    (fun x y h => by rw [eS] at h; rw [← Aff.x_eq aS h]; exact vS)
    (fun x y h => by rw [eD, eU] at h; rw [← Aff.x_eq aU h]; exact vU)).1
  rw [eS, eD, eU] at h
  exact h

/-- `carry_minus` at U = ψ([u]Q'), Q = ψ(Q') -/
theorem cm {u : ℤ} (hu : 2 ≤ u) (hN : u + 2 < N) :
    Approx (ev (lineAdd (pt Q' u) (pt Q' 1) P).1 * ev (lineAdd (pt Q' (u + 1)) (pt Q' (-1)) P).1) 1 := by
  have nd : ∀ k : ℤ, 0 < k → k < N → ¬ (N : ℤ) ∣ k := fun k => not_dvd_of_pos_lt
  obtain ⟨xU, yU, aU, cU, tU, vU⟩ := pt_data hord hP (k := u) (nd _ (by omega) (by omega))
  obtain ⟨x2, y2, aQ, c2, t2, vQ⟩ := pt_data hord hP (k := 1) (nd _ (by omega) (by omega))
  obtain ⟨g1, eW⟩ := pt_chord hord (a := u) (b := 1) (nd _ (by omega) (by omega)) (nd _ (by omega) (by omega))
    (nd _ (by omega) (by omega)) (nd _ (by omega) (by omega)) P
  obtain ⟨g2, -⟩ := pt_chord hord (a := u + 1) (b := -1) (nd _ (by omega) (by omega))
    (not_dvd_of_neg_gt (by omega) (by omega)) (nd _ (by omega) (by omega)) (nd _ (by omega) (by omega)) P
  obtain ⟨xW, yW, aW, -, -, vW⟩ := pt_data hord hP (k := u + 1) (nd _ (by omega) (by omega))
  have h := (SM9MillerAssocSpec.carry_minus (P := P) aU aQ cU c2 hP.onE tU t2 hP.base g1
    (by rw [eW, pt_neg]; exact g2) vU vQ
    (fun x y h => by rw [eW] at h; rw [← Aff.x_eq aW h]; exact vW)).1
  rw [eW, pt_neg] at h
  exact h

/-! ### the lockstep invariant -/

/-- the invariant after a common prefix: m = binary prefix value, c = carry -/
structure LInv (Q' : W2.Point) (P : SFp12 × SFp12) (sb ss : SFp12 × Pt12) (m : ℤ) (c : Bool) : Prop where
  ptb : sb.2 = pt Q' m
  pts : ss.2 = pt Q' (m + cI c)
  val : Approx (ev ss.1) (if c = true then ev sb.1 * ev (lineAdd (pt Q' m) (pt Q' 1) P).1 else ev sb.1)
  lo : 1 ≤ m
  lo2 : c = true → 2 ≤ m

omit hord hP in
theorem linv_init : LInv Q' P (Spec.SM9.Fp12.one, pt Q' 1) (Spec.SM9.Fp12.one, pt Q' 1) 1 false :=
  ⟨rfl, pt_congr (by rw [cI_false, add_zero]), Approx.refl _, le_refl _, fun h => by cases h⟩

/-- the value relation shared by the two transitions with digit −1 -/
theorem val_minus {m : ℤ} (hm : 2 ≤ m) (hN : 2 * m + 4 < N) {F F' : A}
    (hv : Approx F' (F * ev (lineAdd (pt Q' m) (pt Q' 1) P).1)) :
    Approx (F' * F' * ev (lineAdd (pt Q' (m + 1)) (pt Q' (m + 1)) P).1
        * ev (lineAdd (pt Q' (2 * m + 1 + 1)) (pt Q' (-1)) P).1)
      (F * F * ev (lineAdd (pt Q' m) (pt Q' m) P).1 * ev (lineAdd (pt Q' (2 * m)) (pt Q' 1) P).1) := by
  have hcd := cd hord hP hm (by omega)
  have hcm := cm hord hP (u := 2 * m + 1) (by omega) (by omega)
  have h1 := ((hv.mul hv).mul (Approx.refl (ev (lineAdd (pt Q' (m + 1)) (pt Q' (m + 1)) P).1))).mul
    (Approx.refl (ev (lineAdd (pt Q' (2 * m + 1 + 1)) (pt Q' (-1)) P).1))
  have h2 := ((Approx.refl (F * F)).mul hcd).mul (Approx.refl (ev (lineAdd (pt Q' (2 * m + 1 + 1)) (pt Q' (-1)) P).1))
  have h3 := (Approx.refl (F * F * ev (lineAdd (pt Q' m) (pt Q' m) P).1
    * ev (lineAdd (pt Q' (2 * m)) (pt Q' 1) P).1)).mul hcm
  exact h1.trans ((Approx.of_eq (by ring)).trans (h2.trans ((Approx.of_eq (by ring)).trans
    (h3.trans (Approx.of_eq (by ring))))))

/-- ONE STEP of the lockstep run -/
theorem step_inv {sb ss : SFp12 × Pt12} {m : ℤ} {c : Bool} (hI : LInv Q' P sb ss m c) (hN : 2 * m + 4 < N)
    (b : Bool) (ch : Char) (c' : Bool) (ht : trans c b ch = some c') (m₂ : ℤ) (hm₂ : m₂ = 2 * m + cI b) :
    LInv Q' P (millerStep (pt Q' 1) P sb b) (sdStep (pt Q' 1) P ss ch) m₂ c' := by
  obtain ⟨fb, Tb⟩ := sb
  obtain ⟨fs, Ts⟩ := ss
  obtain ⟨hb, hs, hv, lo, lo2⟩ := hI
  dsimp only at hb hs hv
  subst hb hs
  have nd : ∀ k : ℤ, 0 < k → k < N → ¬ (N : ℤ) ∣ k := fun k => not_dvd_of_pos_lt
  obtain ⟨-, eD⟩ := pt_tangent hord (a := m) (nd _ (by omega) (by omega)) (nd _ (by omega) (by omega)) P
  obtain ⟨-, eU⟩ := pt_chord hord (a := 2 * m) (b := 1) (nd _ (by omega) (by omega)) (nd _ (by omega) (by omega))
    (nd _ (by omega) (by omega)) (nd _ (by omega) (by omega)) P
  rw [millerStep_eq, SM9MillerAssemble.sdStep_eq]
  cases c
  · -- no carry
    have hv : Approx (ev fs) (ev fb) := hv
    have e0 : pt Q' (m + cI false) = pt Q' m := pt_congr (by rw [cI_false, add_zero])
    rw [e0]
    cases b
    · obtain rfl : m₂ = 2 * m := by rw [hm₂, cI_false, add_zero]
      rw [if_neg (by decide)]
      by_cases h1 : ch = '1'
      · -- (0, 0, 1 ↦ 1)
        subst h1
        obtain rfl : c' = true := by simpa [trans, cI, dig] using ht.symm
        rw [if_pos rfl]
        refine ⟨eD, ?_, ?_, by omega, fun _ => by omega⟩
        · show (lineAdd (lineAdd (pt Q' m) (pt Q' m) P).2 (pt Q' 1) P).2 = _
          rw [eD, eU, cI_true]
        · show Approx (ev (Spec.SM9.Fp12.mul _ _)) (if true = true then _ else _)
          rw [if_pos rfl, eD]
          simp only [SM9Fp12.ev_mul]
          exact ((hv.mul hv).mul (Approx.refl _)).mul (Approx.refl _)
      · by_cases h2 : ch = '2'
        · subst h2
          simp [trans, cI, dig] at ht
        · -- (0, 0, 0 ↦ 0)
          obtain rfl : c' = false := by simpa [trans, cI, dig, h1, h2] using ht.symm
          rw [if_neg h1, if_neg h2]
          refine ⟨eD, ?_, ?_, by omega, fun h => by cases h⟩
          · show (lineAdd (pt Q' m) (pt Q' m) P).2 = _
            rw [eD, cI_false, add_zero]
          · show Approx (ev (Spec.SM9.Fp12.mul _ _)) (ev (Spec.SM9.Fp12.mul _ _))
            simp only [SM9Fp12.ev_mul]
            exact (hv.mul hv).mul (Approx.refl _)
    · obtain rfl : m₂ = 2 * m + 1 := by rw [hm₂, cI_true]
      rw [if_pos rfl]
      by_cases h1 : ch = '1'
      · -- (0, 1, 1 ↦ 0)
        subst h1
        obtain rfl : c' = false := by simpa [trans, cI, dig] using ht.symm
        rw [if_pos rfl]
        refine ⟨?_, ?_, ?_, by omega, fun h => by cases h⟩
        · show (lineAdd (lineAdd (pt Q' m) (pt Q' m) P).2 (pt Q' 1) P).2 = _
          rw [eD, eU]
        · show (lineAdd (lineAdd (pt Q' m) (pt Q' m) P).2 (pt Q' 1) P).2 = _
          rw [eD, eU, cI_false, add_zero]
        · show Approx (ev (Spec.SM9.Fp12.mul _ _)) (ev (Spec.SM9.Fp12.mul _ _))
          simp only [SM9Fp12.ev_mul]
          exact ((hv.mul hv).mul (Approx.refl _)).mul (Approx.refl _)
      · by_cases h2 : ch = '2'
        · subst h2
          simp [trans, cI, dig] at ht
        · simp [trans, cI, dig, h1, h2] at ht
  · -- carry 1
    have hm : 2 ≤ m := lo2 rfl
    have hv : Approx (ev fs) (ev fb * ev (lineAdd (pt Q' m) (pt Q' 1) P).1) := hv
    have e0 : pt Q' (m + cI true) = pt Q' (m + 1) := pt_congr (by rw [cI_true])
    rw [e0]
    obtain ⟨-, eSS⟩ := pt_tangent hord (a := m + 1) (nd _ (by omega) (by omega)) (nd _ (by omega) (by omega)) P
    have eW : pt Q' (2 * (m + 1)) = pt Q' (2 * m + 1 + 1) := pt_congr (by ring)
    obtain ⟨-, eM⟩ := pt_chord hord (a := 2 * m + 1 + 1) (b := -1) (nd _ (by omega) (by omega))
      (not_dvd_of_neg_gt (by omega) (by omega)) (nd _ (by omega) (by omega)) (nd _ (by omega) (by omega)) P
    by_cases h1 : ch = '1'
    · subst h1
      cases b <;> simp [trans, cI, dig] at ht
    · rw [if_neg h1]
      by_cases h2 : ch = '2'
      · subst h2
        rw [if_pos rfl]
        have hval := val_minus hord hP hm hN hv
        cases b
        · -- (1, 0, −1 ↦ 1)
          obtain rfl : m₂ = 2 * m := by rw [hm₂, cI_false, add_zero]
          obtain rfl : c' = true := by simpa [trans, cI, dig] using ht.symm
          rw [if_neg (by decide)]
          refine ⟨eD, ?_, ?_, by omega, fun _ => by omega⟩
          · show (lineAdd (lineAdd (pt Q' (m + 1)) (pt Q' (m + 1)) P).2 (neg12 (pt Q' 1)) P).2 = _
            rw [eSS, eW, pt_neg, eM]
            exact pt_congr (by rw [cI_true]; ring)
          · show Approx (ev (Spec.SM9.Fp12.mul _ _)) (if true = true then _ else _)
            rw [if_pos rfl, eSS, eW, pt_neg]
            simp only [SM9Fp12.ev_mul]
            exact hval
        · -- (1, 1, −1 ↦ 0)
          obtain rfl : m₂ = 2 * m + 1 := by rw [hm₂, cI_true]
          obtain rfl : c' = false := by simpa [trans, cI, dig] using ht.symm
          rw [if_pos rfl]
          refine ⟨?_, ?_, ?_, by omega, fun h => by cases h⟩
          · show (lineAdd (lineAdd (pt Q' m) (pt Q' m) P).2 (pt Q' 1) P).2 = _
            rw [eD, eU]
          · show (lineAdd (lineAdd (pt Q' (m + 1)) (pt Q' (m + 1)) P).2 (neg12 (pt Q' 1)) P).2 = _
            rw [eSS, eW, pt_neg, eM]
            exact pt_congr (by rw [cI_false]; ring)
          · show Approx (ev (Spec.SM9.Fp12.mul _ _)) (ev (Spec.SM9.Fp12.mul _ _))
            rw [eSS, eW, pt_neg, eD]
            simp only [SM9Fp12.ev_mul]
            exact hval
      · rw [if_neg h2]
        cases b
        · simp [trans, cI, dig, h1, h2] at ht
        · -- (1, 1, 0 ↦ 1)
          obtain rfl : m₂ = 2 * m + 1 := by rw [hm₂, cI_true]
          obtain rfl : c' = true := by simpa [trans, cI, dig, h1, h2] using ht.symm
          rw [if_pos rfl]
          have hcd := cd hord hP hm (by omega)
          refine ⟨?_, ?_, ?_, by omega, fun _ => by omega⟩
          · show (lineAdd (lineAdd (pt Q' m) (pt Q' m) P).2 (pt Q' 1) P).2 = _
            rw [eD, eU]
          · show (lineAdd (pt Q' (m + 1)) (pt Q' (m + 1)) P).2 = _
            rw [eSS]
            exact pt_congr (by rw [cI_true]; ring)
          · show Approx (ev (Spec.SM9.Fp12.mul _ _)) (if true = true then _ else _)
            rw [if_pos rfl, eD]
            simp only [SM9Fp12.ev_mul]
            have h1' := (hv.mul hv).mul (Approx.refl (ev (lineAdd (pt Q' (m + 1)) (pt Q' (m + 1)) P).1))
            have h2' := (Approx.refl (ev fb * ev fb)).mul hcd
            exact h1'.trans ((Approx.of_eq (by ring)).trans (h2'.trans (Approx.of_eq (by ring))))

/-- THE LOCKSTEP RUN -/
theorem fold_inv (bs : List Bool) (cs : List Char) {sb ss : SFp12 × Pt12} {m : ℤ} {c : Bool} (hI : LInv Q' P sb ss m c)
    (hN : (m + 2) * 2 ^ bs.length < N) {m' : ℤ} {c' : Bool} (hr : run bs cs m c = some (m', c')) :
    LInv Q' P (bs.foldl (millerStep (pt Q' 1) P) sb) (cs.foldl (sdStep (pt Q' 1) P) ss) m' c' := by
  induction bs generalizing cs sb ss m c with
  | nil =>
    cases cs with
    | nil =>
      simp only [run, Option.some.injEq, Prod.mk.injEq] at hr
      obtain ⟨rfl, rfl⟩ := hr
      exact hI
    | cons ch cs => simp [run] at hr
  | cons b bs ih =>
    cases cs with
    | nil => simp [run] at hr
    | cons ch cs =>
      rw [List.foldl_cons, List.foldl_cons]
      have hlen : (m + 2) * 2 ^ (b :: bs).length = (2 * m + 4) * 2 ^ bs.length := by
        rw [List.length_cons, pow_succ]; ring
      rw [hlen] at hN
      have hpow : (1 : ℤ) ≤ 2 ^ bs.length := one_le_pow₀ (by norm_num)
      have hm1 := hI.lo
      have hN1 : 2 * m + 4 < N := by nlinarith
      cases ht : trans c b ch with
      | none => simp [run, ht] at hr
      | some c'' =>
        simp only [run, ht] at hr
        have hstep := step_inv hord hP hI hN1 b ch c'' ht _ rfl
        have hb := cI_le b
        refine ih cs hstep ?_ hr
        have : 2 * m + cI b + 2 ≤ 2 * m + 4 := by omega
        nlinarith

end order

/-! ### the result -/

/-- for Q' of order N in the group of the twist and P good: the two chains agree up to a killed factor -/
theorem millerSD_approx {Q' : W2.Point} (hord : addOrderOf Q' = N) {P : SFp12 × SFp12} (hP : PGood P) :
    Approx (ev (millerSD P (ψ Q'))) (ev (miller P (ψ Q'))) := by
  have h := fold_inv hord hP ((bitsMSB ateLoop).drop 1) abits.toList (linv_init (Q' := Q') (P := P)) run_bound run_value
  rw [miller_eq, millerSD, sdLoop, ← pt_one]
  exact sdFinish_approx P _ (h.pts.trans (pt_congr (by rw [cI_false, add_zero])) |>.trans h.ptb.symm) h.val

theorem canon_millerSD (P : SFp12 × SFp12) (Q : Pt12) : Canon (millerSD P Q) := SM9Fp12.canon_mul _ _

/-- `ChainIndependent` HOLDS -/
theorem chainIndependent : SM9MillerReduce.ChainIndependent := by
  refine ⟨fun P Q P' Q' hc hPe hQ hN hQ' => ?_⟩
  have hQ0 : Q ≠ none := by
    rintro rfl
    simp [untwist] at hQ'
  obtain ⟨R, rfl⟩ := SM9G2.exists_ofPoint2 hQ
  have hR0 : R ≠ 0 := fun h => hQ0 (by rw [h]; rfl)
  rw [SM9G2.mul2_ofPoint, SM9G2.ofPoint2_eq_none_iff] at hN
  have hord : addOrderOf R = N := SM9G2Cyclic.addOrderOf_eq_prime SM9Algebra.N_prime hR0 hN
  have hψ : some Q' = ψ R := hQ'.symm
  obtain ⟨c, ⟨hc0, hck⟩, e⟩ := millerSD_approx hord (pgood_of_onCurve hc hPe)
  rw [← hψ] at e
  obtain ⟨cc, hcc, hev⟩ := exists_canon c
  refine ⟨cc, ?_, ?_⟩
  · apply SM9Fp12.ev_injective (SM9Fp12.canon_pow _ _) SM9Fp12.canon_one
    rw [SM9Fp12.ev_pow, hev, hck, SM9Fp12.ev_one]
  · apply SM9Fp12.ev_injective (canon_millerSD _ _) (SM9Fp12.canon_mul _ _)
    rw [e, SM9Fp12.ev_mul, hev]

end GmVerif.Proofs.SM9ChainIndep
