/-
C17b: the key-exchange steps of the model (`exch_step_1a`, `exch_step_1b`, `exch_step_2a`) against GM/T 0044.3 §6.2
(`Spec.SM9.exchEphemeral`, `exchResponder`, `exchInitiator`), given `PairingRefines` and `TowerDense`.
-/
import GmVerif.Proofs.SM9EncRefinesBase
import GmVerif.Proofs.SM9EncRefines
set_option autoImplicit false
namespace GmVerif.Proofs.SM9ExchRefines
open GmVerif GmVerif.Impl.SM9
open GmVerif.Proofs.SM9Bridge (dense TowerDense PairingRefines InG2)
open GmVerif.Proofs.SM9G1 (Valid toSpec)
open GmVerif.Proofs.SM9G2Impl (toSpec2)
open GmVerif.Proofs.SM9Logic (bind_ok bind_err bind_panic map_ok)
open GmVerif.Proofs.SM9EncRefinesBase
open GmVerif.Spec.SM9 (curve N p)
open GmVerif.Gen.SM9 (N_MINUS_ONE HID_EXCH)

theorem exchEphemeral_eq (Ppube : Spec.EC.Pt) (id : List UInt8) (r : Nat) :
    Spec.SM9.exchEphemeral Ppube id r = Spec.EC.mul curve r (Qpt Ppube id Spec.SM9.hidExch) := rfl

/-! ### a received point: canonical coordinates, Z ≠ 0 -/

/-- canonical coordinates and a finite point (everything `Point::from_bytes` returns, and every Jacobian representation
with Z ≠ 0) -/
def Finite (P : Point) : Prop := P.x < p ∧ P.y < p ∧ P.z < p ∧ P.z ≠ 0
instance (P : Point) : Decidable (Finite P) := by unfold Finite; infer_instance

/-- for such a point the model's curve test is the standard's, on the decoded affine point -/
theorem onCurve_toSpec_iff (P : Point) (h : Finite P) :
    Spec.EC.onCurve curve (toSpec P) = true ↔ P.is_on_curve = true := by
  obtain ⟨hx, hy, hz, hz0⟩ := h
  have e := SM9G1.eq_mk P hx hy hz
  have hZ : SM9G1.dec P.z ≠ 0 := fun h0 => hz0 ((SM9G1.dec_eq_zero_iff _ hz).mp h0)
  rw [e, SM9G1.toSpec_mk_of_ne hZ, SM9G1.onCurve_val, SM9G1.is_on_curve_mk,
    ← SM2CurveAlg.jac_iff_aff SM9G1.ca SM9G1.cb _ _ _ hZ, ← SM9G1.jac_shape]

theorem valid_of_on_curve (P : Point) (h : Finite P) (hon : P.is_on_curve = true) : Valid P :=
  (SM9G1.is_on_curve_iff_valid P ⟨h.1, h.2.1, h.2.2.1⟩ h.2.2.2).1 hon

theorem toSpec_finite (P : Point) (h : Finite P) : ∃ xy, toSpec P = some xy := by
  unfold toSpec; rw [if_neg h.2.2.2]; exact ⟨_, rfl⟩

/-! ### step 1a -/

/-- `exch_step_1a`: the first accepted candidate r_A, R_A = [r_A]Q_B -/
theorem exch_1a_refines (m : Sm9EncMasterKey) (hv : Valid m.ppube) (idb : List UInt8) (cands : List (List UInt8)) :
    match firstAccepted cands with
    | none => exch_step_1a m idb cands = .err "rng-exhausted"
    | some (r, rest) => ∃ R, exch_step_1a m idb cands = .ok ⟨(R, r), [r], rest⟩ ∧ Valid R
        ∧ toSpec R = Spec.SM9.exchEphemeral (toSpec m.ppube) idb r
        ∧ (Spec.SM9.exchEphemeral (toSpec m.ppube) idb r ≠ none →
            R.z ≠ 0 ∧ R.to_bytes_be = Spec.SM9.encodePoint (Spec.SM9.exchEphemeral (toSpec m.ppube) idb r)) := by
  obtain ⟨q0, h1, h2, h3, h4⟩ := q_point m.ppube hv idb HID_EXCH
  rw [SM9G2Impl.hid_exch] at h4
  unfold exch_step_1a
  rw [h1, bind_ok, h2, bind_ok]
  simp only []
  rw [sampler_eq]
  cases hf : firstAccepted cands with
  | none => rfl
  | some pr =>
    obtain ⟨r, rest⟩ := pr
    have hacc : Accept r := by
      clear h1 h2
      induction cands with
      | nil => simp [firstAccepted] at hf
      | cons c cs ih =>
        by_cases hc : Accept (beNat c)
        · rw [firstAccepted_cons_accept hc] at hf
          simp only [Option.some.injEq, Prod.mk.injEq] at hf
          rw [← hf.1]; exact hc
        · rw [firstAccepted_cons_reject hc] at hf; exact ih hf
    obtain ⟨R, hR, hRv, hRs, hRb⟩ := q_mul _ h3 r (accept_lt hacc)
    rw [h4] at hRs hRb
    simp only []
    rw [hR, map_ok]
    refine ⟨R, rfl, hRv, hRs, fun hne => ⟨?_, (hRb hne).1⟩⟩
    intro h0
    apply hne
    rw [exchEphemeral_eq, ← hRs]
    simp only [toSpec, h0, if_true]

/-! ### step 1b: the loop of the model, one candidate at a time -/

theorem exch1bLoop_nil (m : Sm9EncMasterKey) (ida idb : List UInt8) (key : Sm9EncKey) (ra q : Point) (klen fuel : Nat)
    (used : List Nat) : exch1bLoop m ida idb key ra q klen fuel [] used = .err "rng-exhausted" := by
  cases fuel with
  | zero => rfl
  | succ fuel => simp only [exch1bLoop, sm9_random_u256]

theorem exch1bLoop_cons_reject (m : Sm9EncMasterKey) (ida idb : List UInt8) (key : Sm9EncKey) (ra q : Point)
    (klen fuel : Nat) (c : List UInt8) (cs : List (List UInt8)) (used : List Nat) (h : ¬ Accept (beNat c)) :
    exch1bLoop m ida idb key ra q klen (fuel + 1) (c :: cs) used
      = exch1bLoop m ida idb key ra q klen (fuel + 1) cs used := by
  simp only [exch1bLoop]
  rw [sampler_eq, sampler_eq, firstAccepted_cons_reject h]

/-- an accepted candidate, R_A on the curve, 1 ≤ klen ≤ 32·(2^32 − 1): accept unless the key is all zero, then the next
candidate -/
theorem exch1bLoop_cons_accept (m : Sm9EncMasterKey) (ida idb : List UInt8) (key : Sm9EncKey) (ra q : Point)
    (klen fuel : Nat) (hk1 : 1 ≤ klen) (hk2 : klen ≤ 32 * (2 ^ 32 - 1))
    (c : List UInt8) (cs : List (List UInt8)) (used : List Nat) (h : Accept (beNat c))
    (hon : ra.is_on_curve = true) (r : Point) (g2 g3 : Fp12)
    (hr : q.point_mul (beNat c) = .ok r)
    (hg2 : (sm9_u256_pairing TWIST_POINT_MONT_P2 m.ppube).pow (beNat c) = .ok g2)
    (hg3 : (sm9_u256_pairing key.de ra).pow (beNat c) = .ok g3) :
    exch1bLoop m ida idb key ra q klen (fuel + 1) (c :: cs) used =
      if all_zero (kdf (exch_kdf_input ida idb ra r (sm9_u256_pairing key.de ra) g2 g3) klen) = false
      then .ok ⟨(r, kdf (exch_kdf_input ida idb ra r (sm9_u256_pairing key.de ra) g2 g3) klen), used ++ [beNat c], cs⟩
      else exch1bLoop m ida idb key ra q klen fuel cs (used ++ [beNat c]) := by
  simp only [exch1bLoop]
  rw [sampler_eq, firstAccepted_cons_accept h]
  simp only []
  rw [hr, bind_ok, hon]
  simp only [Bool.not_true, Bool.false_eq_true, if_false]
  rw [hg2, bind_ok, hg3, bind_ok, SM9Logic.sk_tail]
  have hkl := SM9Logic.kdf_length (exch_kdf_input ida idb ra r (sm9_u256_pairing key.de ra) g2 g3) klen hk1 hk2
  generalize kdf (exch_kdf_input ida idb ra r (sm9_u256_pairing key.de ra) g2 g3) klen = sk at hkl
  rw [if_neg (by omega), List.take_of_length_le (by omega)]

/-! ### the specification's responder over a list of candidates -/

/-- GM/T 0044.3 §6.2 B1–B7 over a list of candidates for r_B, with the model's two additions stated as they are: candidates
outside the sampler's acceptance set are skipped, and an all-zero key SK_B makes the responder draw again -/
def specRespLoop (Ppube : Spec.EC.Pt) (deB : Spec.SM9.Pt2) (idA idB : List UInt8) (RA : Spec.EC.Pt) (klen : Nat) :
    List (List UInt8) → List Nat → Option (Rand (Spec.EC.Pt × List UInt8))
  | [], _ => none
  | c :: cs, used =>
    if Accept (beNat c) then
      match Spec.SM9.exchResponder Ppube deB idA idB RA (beNat c) klen with
      | none => none
      | some (RB, sk) =>
        if sk.all (· == 0) then specRespLoop Ppube deB idA idB RA klen cs (used ++ [beNat c])
        else some ⟨(RB, sk), used ++ [beNat c], cs⟩
    else specRespLoop Ppube deB idA idB RA klen cs used

/-- the responder's answer for a finite point of the curve -/
theorem exchResponder_some (Ppube : Spec.EC.Pt) (deB : Spec.SM9.Pt2) (idA idB : List UInt8) (xy : Nat × Nat)
    (hon : Spec.EC.onCurve curve (some xy) = true) (rB klen : Nat) :
    Spec.SM9.exchResponder Ppube deB idA idB (some xy) rB klen =
      some (Spec.SM9.exchEphemeral Ppube idA rB,
        Spec.SM9.exchKey idA idB (some xy) (Spec.SM9.exchEphemeral Ppube idA rB) (Spec.SM9.pairing (some xy) deB)
          (Spec.SM9.Fp12.pow (Spec.SM9.pairing Ppube Spec.SM9.P2) rB)
          (Spec.SM9.Fp12.pow (Spec.SM9.pairing (some xy) deB) rB) klen) := by
  simp only [Spec.SM9.exchResponder, hon, not_true_eq_false, if_false]

theorem exchResponder_none (Ppube : Spec.EC.Pt) (deB : Spec.SM9.Pt2) (idA idB : List UInt8) (RA : Spec.EC.Pt)
    (hoff : Spec.EC.onCurve curve RA ≠ true) (rB klen : Nat) :
    Spec.SM9.exchResponder Ppube deB idA idB RA rB klen = none := by
  cases RA with
  | none => rfl
  | some xy =>
    have h' : Spec.EC.onCurve curve (some xy) = false := by simpa using hoff
    simp [Spec.SM9.exchResponder, h']

/-- the KDF input of the model in the standard's terms -/
theorem kdf_input_eq (PR : PairingRefines) (ida idb : List UInt8) (de : TwistPoint) (hde : InG2 de)
    (ra : Point) (hra : Valid ra) (hraz : ra.z ≠ 0) (rb : Point) (RB : Spec.EC.Pt)
    (hrb : rb.to_bytes_be.drop 1 = Spec.SM9.pointBytes RB) (g2 g3 : Fp12) (G2 G3 : Spec.SM9.Fp12)
    (h2 : g2.to_bytes_be = Spec.SM9.Fp12.toBytes G2) (h3 : g3.to_bytes_be = Spec.SM9.Fp12.toBytes G3)
    (klen : Nat) (hk1 : 1 ≤ klen) (hk2 : klen ≤ 32 * (2 ^ 32 - 1)) :
    kdf (exch_kdf_input ida idb ra rb (sm9_u256_pairing de ra) g2 g3) klen =
      Spec.SM9.exchKey ida idb (toSpec ra) RB (Spec.SM9.pairing (toSpec ra) (toSpec2 de)) G2 G3 klen := by
  rw [SM9Logic.kdf_refines _ _ hk1 hk2]
  unfold exch_kdf_input Spec.SM9.exchKey
  rw [(bytes_of_finite ra hra hraz).2, hrb, pairing_de PR de hde ra hra, h2, h3]

/-- one accepted candidate -/
theorem exch1bLoop_round (PR : PairingRefines) (TD : TowerDense) (m : Sm9EncMasterKey) (hv : Valid m.ppube)
    (key : Sm9EncKey) (hde : InG2 key.de) (ida idb : List UInt8) (ra : Point) (hra : Valid ra) (hraz : ra.z ≠ 0)
    (q : Point) (hq : Valid q) (hqs : toSpec q = Qpt (toSpec m.ppube) ida Spec.SM9.hidExch)
    (klen : Nat) (hk1 : 1 ≤ klen) (hk2 : klen ≤ 32 * (2 ^ 32 - 1))
    (fuel : Nat) (c : List UInt8) (cs : List (List UInt8)) (used : List Nat) (h : Accept (beNat c))
    (hfin : Spec.SM9.exchEphemeral (toSpec m.ppube) ida (beNat c) ≠ none) :
    ∃ rbp sk, Spec.SM9.exchResponder (toSpec m.ppube) (toSpec2 key.de) ida idb (toSpec ra) (beNat c) klen
        = some (Spec.SM9.exchEphemeral (toSpec m.ppube) ida (beNat c), sk)
      ∧ Valid rbp ∧ rbp.z ≠ 0 ∧ toSpec rbp = Spec.SM9.exchEphemeral (toSpec m.ppube) ida (beNat c)
      ∧ rbp.to_bytes_be = Spec.SM9.encodePoint (Spec.SM9.exchEphemeral (toSpec m.ppube) ida (beNat c))
      ∧ exch1bLoop m ida idb key ra q klen (fuel + 1) (c :: cs) used =
          if all_zero sk = false then .ok ⟨(rbp, sk), used ++ [beNat c], cs⟩
          else exch1bLoop m ida idb key ra q klen fuel cs (used ++ [beNat c]) := by
  have hon : ra.is_on_curve = true :=
    (SM9G1.is_on_curve_iff_valid ra ⟨hra.1, hra.2.1, hra.2.2.1⟩ hraz).2 hra
  obtain ⟨xy, hxy⟩ : ∃ xy, toSpec ra = some xy := by unfold toSpec; rw [if_neg hraz]; exact ⟨_, rfl⟩
  have honS : Spec.EC.onCurve curve (some xy) = true := by rw [← hxy]; exact SM9G1.toSpec_onCurve ra hra
  obtain ⟨rbp, hr, hrv, hrs, hrb⟩ := q_mul q hq (beNat c) (accept_lt h)
  rw [hqs, ← exchEphemeral_eq] at hrs hrb
  obtain ⟨hrb1, hrb2⟩ := hrb hfin
  have hrz : rbp.z ≠ 0 := by
    intro h0; apply hfin; rw [← hrs]; simp only [toSpec, h0, if_true]
  obtain ⟨g2, hg2, hg2b⟩ := pairing_g_pow PR TD m.ppube hv (beNat c) (accept_le h)
  obtain ⟨g3, hg3, hg3b⟩ := pairing_de_pow PR TD key.de hde ra hra (beNat c) (accept_le h)
  refine ⟨rbp, kdf (exch_kdf_input ida idb ra rbp (sm9_u256_pairing key.de ra) g2 g3) klen, ?_, hrv, hrz, hrs,
    hrb1, exch1bLoop_cons_accept m ida idb key ra q klen fuel hk1 hk2 c cs used h hon rbp g2 g3 hr hg2 hg3⟩
  rw [kdf_input_eq PR ida idb key.de hde ra hra hraz rbp _ hrb2 g2 g3 _ _ hg2b hg3b klen hk1 hk2, hxy,
    exchResponder_some _ _ _ _ _ honS]

/-- the loop of step 1b for a received R_A that is a finite point of the curve: the model returns what the
specification's loop returns (the point as a valid representation) -/
theorem exch1bLoop_refines (PR : PairingRefines) (TD : TowerDense) (m : Sm9EncMasterKey) (hv : Valid m.ppube)
    (key : Sm9EncKey) (hde : InG2 key.de) (ida idb : List UInt8) (ra : Point) (hra : Valid ra) (hraz : ra.z ≠ 0)
    (q : Point) (hq : Valid q) (hqs : toSpec q = Qpt (toSpec m.ppube) ida Spec.SM9.hidExch)
    (klen : Nat) (hk1 : 1 ≤ klen) (hk2 : klen ≤ 32 * (2 ^ 32 - 1))
    (hfin : ∀ r, Accept r → Spec.SM9.exchEphemeral (toSpec m.ppube) ida r ≠ none)
    (cands : List (List UInt8)) :
    ∀ (fuel : Nat) (used : List Nat), cands.length < fuel →
      match specRespLoop (toSpec m.ppube) (toSpec2 key.de) ida idb (toSpec ra) klen cands used with
      | none => exch1bLoop m ida idb key ra q klen fuel cands used = .err "rng-exhausted"
      | some res => ∃ rbp, exch1bLoop m ida idb key ra q klen fuel cands used
            = .ok ⟨(rbp, res.val.2), res.used, res.rest⟩
          ∧ Valid rbp ∧ rbp.z ≠ 0 ∧ toSpec rbp = res.val.1
          ∧ rbp.to_bytes_be = Spec.SM9.encodePoint res.val.1 := by
  induction cands with
  | nil => intro fuel used _; exact exch1bLoop_nil ..
  | cons c cs ih =>
    intro fuel used hf
    cases fuel with
    | zero => omega
    | succ fuel =>
      simp only [List.length_cons] at hf
      simp only [specRespLoop]
      by_cases h : Accept (beNat c)
      · rw [if_pos h]
        obtain ⟨rbp, sk, hresp, hrv, hrz, hrs, hrb, hloop⟩ := exch1bLoop_round PR TD m hv key hde ida idb ra hra hraz
          q hq hqs klen hk1 hk2 fuel c cs used h (hfin _ h)
        rw [hresp]
        simp only []
        rw [hloop]
        cases hz : all_zero sk with
        | true =>
          have : sk.all (· == 0) = true := hz
          simp only [this, if_true, Bool.true_eq_false, if_false]
          exact ih fuel _ (by omega)
        | false =>
          have : sk.all (· == 0) = false := hz
          simp only [this, Bool.false_eq_true, if_false, if_true]
          exact ⟨rbp, rfl, hrv, hrz, hrs, hrb⟩
      · rw [if_neg h, exch1bLoop_cons_reject m ida idb key ra q klen fuel c cs used h]
        exact ih (fuel + 1) used (by omega)

/-- `exch_step_1b` for a received R_A that is a finite point of the curve -/
theorem exch_1b_refines (PR : PairingRefines) (TD : TowerDense) (m : Sm9EncMasterKey) (hv : Valid m.ppube)
    (key : Sm9EncKey) (hde : InG2 key.de) (ida idb : List UInt8) (ra : Point) (hra : Valid ra) (hraz : ra.z ≠ 0)
    (klen : Nat) (hk1 : 1 ≤ klen) (hk2 : klen ≤ 32 * (2 ^ 32 - 1))
    (hfin : ∀ r, Accept r → Spec.SM9.exchEphemeral (toSpec m.ppube) ida r ≠ none)
    (cands : List (List UInt8)) :
    match specRespLoop (toSpec m.ppube) (toSpec2 key.de) ida idb (toSpec ra) klen cands [] with
    | none => exch_step_1b m ida idb key ra klen cands = .err "rng-exhausted"
    | some res => ∃ rbp, exch_step_1b m ida idb key ra klen cands = .ok ⟨(rbp, res.val.2), res.used, res.rest⟩
        ∧ Valid rbp ∧ rbp.z ≠ 0 ∧ toSpec rbp = res.val.1
        ∧ rbp.to_bytes_be = Spec.SM9.encodePoint res.val.1 := by
  obtain ⟨q0, h1, h2, h3, h4⟩ := q_point m.ppube hv ida HID_EXCH
  rw [SM9G2Impl.hid_exch] at h4
  have e : exch_step_1b m ida idb key ra klen cands =
      exch1bLoop m ida idb key ra (q0.point_add m.ppube) klen (cands.length + 1) cands [] := by
    unfold exch_step_1b
    rw [h1, bind_ok, if_neg (by omega), h2, bind_ok]
  rw [e]
  exact exch1bLoop_refines PR TD m hv key hde ida idb ra hra hraz _ h3 h4 klen hk1 hk2 hfin cands _ _
    (Nat.lt_succ_self _)

/-- what a successful run of the specification's responder loop means -/
theorem specRespLoop_some (Ppube : Spec.EC.Pt) (deB : Spec.SM9.Pt2) (idA idB : List UInt8) (RA : Spec.EC.Pt)
    (klen : Nat) (cands : List (List UInt8)) :
    ∀ (used : List Nat) (res : Rand (Spec.EC.Pt × List UInt8)),
      specRespLoop Ppube deB idA idB RA klen cands used = some res →
      ∃ rB skipped, res.used = used ++ skipped ++ [rB] ∧ Accept rB
        ∧ Spec.SM9.exchResponder Ppube deB idA idB RA rB klen = some res.val
        ∧ res.val.2.all (· == 0) = false
        ∧ (∀ s ∈ skipped, Accept s ∧ ∃ RB sk, Spec.SM9.exchResponder Ppube deB idA idB RA s klen = some (RB, sk)
            ∧ sk.all (· == 0) = true)
        ∧ res.used.length - used.length + res.rest.length ≤ cands.length := by
  induction cands with
  | nil => intro used res h; simp [specRespLoop] at h
  | cons c cs ih =>
    intro used res h
    simp only [specRespLoop] at h
    by_cases ha : Accept (beNat c)
    · rw [if_pos ha] at h
      cases he : Spec.SM9.exchResponder Ppube deB idA idB RA (beNat c) klen with
      | none => rw [he] at h; cases h
      | some pr =>
        obtain ⟨RB, sk⟩ := pr
        rw [he] at h
        simp only [] at h
        by_cases hz : sk.all (· == 0) = true
        · rw [if_pos hz] at h
          obtain ⟨r, skp, h1, h2, h3, h4, h5, h6⟩ := ih _ _ h
          refine ⟨r, beNat c :: skp, by rw [h1]; simp, h2, h3, h4, ?_, ?_⟩
          · intro s hs
            rcases List.mem_cons.1 hs with rfl | hs
            · exact ⟨ha, RB, sk, he, hz⟩
            · exact h5 s hs
          · simp only [List.length_append, List.length_cons, List.length_nil] at h6 ⊢; omega
        · rw [if_neg hz] at h
          simp only [Option.some.injEq] at h
          subst h
          refine ⟨beNat c, [], by simp, ha, he, by simpa using hz, by simp, ?_⟩
          simp only [List.length_append, List.length_cons, List.length_nil]; omega
    · rw [if_neg ha] at h
      obtain ⟨r, skp, h1, h2, h3, h4, h5, h6⟩ := ih _ _ h
      exact ⟨r, skp, h1, h2, h3, h4, h5, by simp only [List.length_cons]; omega⟩

/-- a received R_A with canonical coordinates and Z ≠ 0 that is NOT on the curve: the standard's responder rejects it for
every r_B, and so does the model (`KdfHashError` first when klen = 0, `rng-exhausted` when no candidate is usable) -/
theorem exch_1b_off_curve (m : Sm9EncMasterKey) (ida idb : List UInt8) (key : Sm9EncKey) (ra : Point)
    (hra : Finite ra) (hoff : ra.is_on_curve = false) (klen : Nat) (cands : List (List UInt8)) :
    (∀ Ppube deB rB, Spec.SM9.exchResponder Ppube deB ida idb (toSpec ra) rB klen = none)
    ∧ exch_step_1b m ida idb key ra klen cands =
        if klen = 0 then .err "KdfHashError" else
        match firstAccepted cands with
        | none => .err "rng-exhausted"
        | some _ => .err "InvalidPoint" := by
  constructor
  · intro Ppube deB rB
    apply exchResponder_none
    intro h
    rw [onCurve_toSpec_iff ra hra, hoff] at h; cases h
  · have := SM9Logic.exch_1b_off_curve m ida idb key ra klen cands Thm.C13c.point_mul_total hoff
    rw [sampler_eq] at this
    exact this

/-! ### step 2a -/

theorem exchInitiator_some (Ppube : Spec.EC.Pt) (deA : Spec.SM9.Pt2) (idA idB : List UInt8) (rA : Nat)
    (RA : Spec.EC.Pt) (xy : Nat × Nat) (hon : Spec.EC.onCurve curve (some xy) = true) (klen : Nat) :
    Spec.SM9.exchInitiator Ppube deA idA idB rA RA (some xy) klen =
      some (Spec.SM9.exchKey idA idB RA (some xy) (Spec.SM9.Fp12.pow (Spec.SM9.pairing Ppube Spec.SM9.P2) rA)
        (Spec.SM9.pairing (some xy) deA) (Spec.SM9.Fp12.pow (Spec.SM9.pairing (some xy) deA) rA) klen) := by
  simp only [Spec.SM9.exchInitiator, hon, not_true_eq_false, if_false]

theorem exchInitiator_none (Ppube : Spec.EC.Pt) (deA : Spec.SM9.Pt2) (idA idB : List UInt8) (rA : Nat)
    (RA RB : Spec.EC.Pt) (hoff : Spec.EC.onCurve curve RB ≠ true) (klen : Nat) :
    Spec.SM9.exchInitiator Ppube deA idA idB rA RA RB klen = none := by
  cases RB with
  | none => rfl
  | some xy =>
    have h' : Spec.EC.onCurve curve (some xy) = false := by simpa using hoff
    simp [Spec.SM9.exchInitiator, h']

/-- `exch_step_2a` for r_A ≤ N − 1, the initiator's own R_A (valid, finite), a received R_B with canonical coordinates and
Z ≠ 0, and 1 ≤ klen ≤ 32·(2^32 − 1): `InvalidPoint` exactly when the standard rejects R_B; otherwise the standard's SK_A,
except that an all-zero SK_A is reported as `KdfHashError` (one pass, no redraw) -/
theorem exch_2a_refines (PR : PairingRefines) (TD : TowerDense) (m : Sm9EncMasterKey) (hv : Valid m.ppube)
    (key : Sm9EncKey) (hde : InG2 key.de) (ida idb : List UInt8) (ra_ : Nat) (hra_ : ra_ ≤ N - 1)
    (ra : Point) (hra : Valid ra) (hraz : ra.z ≠ 0) (rb : Point) (hrb : Finite rb)
    (klen : Nat) (hk1 : 1 ≤ klen) (hk2 : klen ≤ 32 * (2 ^ 32 - 1)) :
    exch_step_2a m ida idb key ra_ ra rb klen =
      match Spec.SM9.exchInitiator (toSpec m.ppube) (toSpec2 key.de) ida idb ra_ (toSpec ra) (toSpec rb) klen with
      | none => .err "InvalidPoint"
      | some sk => if sk.all (· == 0) then .err "KdfHashError" else .ok sk := by
  cases hon : rb.is_on_curve with
  | false =>
    rw [exchInitiator_none _ _ _ _ _ _ _ (by intro h; rw [onCurve_toSpec_iff rb hrb, hon] at h; cases h)]
    rw [SM9Logic.exch_2a_eq, if_pos hon]
  | true =>
    have hrbv := valid_of_on_curve rb hrb hon
    obtain ⟨xy, hxy⟩ := toSpec_finite rb hrb
    have honS : Spec.EC.onCurve curve (some xy) = true := by rw [← hxy]; exact SM9G1.toSpec_onCurve rb hrbv
    obtain ⟨g1, hg1, hg1b⟩ := pairing_g_pow PR TD m.ppube hv ra_ hra_
    obtain ⟨g3, hg3, hg3b⟩ := pairing_de_pow PR TD key.de hde rb hrbv ra_ hra_
    rw [hxy, exchInitiator_some _ _ _ _ _ _ _ honS, ← hxy]
    simp only []
    unfold exch_step_2a
    rw [hon]
    simp only [Bool.not_true, Bool.false_eq_true, if_false]
    rw [hg1, bind_ok, hg3, bind_ok, SM9Logic.sk_tail]
    have hkl := SM9Logic.kdf_length (exch_kdf_input ida idb ra rb g1 (sm9_u256_pairing key.de rb) g3) klen hk1 hk2
    have hkey : kdf (exch_kdf_input ida idb ra rb g1 (sm9_u256_pairing key.de rb) g3) klen =
        Spec.SM9.exchKey ida idb (toSpec ra) (toSpec rb)
          (Spec.SM9.Fp12.pow (Spec.SM9.pairing (toSpec m.ppube) Spec.SM9.P2) ra_)
          (Spec.SM9.pairing (toSpec rb) (toSpec2 key.de))
          (Spec.SM9.Fp12.pow (Spec.SM9.pairing (toSpec rb) (toSpec2 key.de)) ra_) klen := by
      rw [SM9Logic.kdf_refines _ _ hk1 hk2]
      unfold exch_kdf_input Spec.SM9.exchKey
      rw [(bytes_of_finite ra hra hraz).2, (bytes_of_finite rb hrbv hrb.2.2.2).2, pairing_de PR key.de hde rb hrbv,
        hg1b, hg3b]
    rw [hkey] at hkl ⊢
    generalize Spec.SM9.exchKey ida idb (toSpec ra) (toSpec rb)
          (Spec.SM9.Fp12.pow (Spec.SM9.pairing (toSpec m.ppube) Spec.SM9.P2) ra_)
          (Spec.SM9.pairing (toSpec rb) (toSpec2 key.de))
          (Spec.SM9.Fp12.pow (Spec.SM9.pairing (toSpec rb) (toSpec2 key.de)) ra_) klen = sk at hkl
    rw [if_neg (by omega), List.take_of_length_le (by omega)]
    cases hz : all_zero sk with
    | true =>
      have : sk.all (· == 0) = true := hz
      simp only [this, Bool.true_eq_false, if_false, if_true]
    | false =>
      have : sk.all (· == 0) = false := hz
      simp only [this, if_true, Bool.false_eq_true, if_false]

end GmVerif.Proofs.SM9ExchRefines
