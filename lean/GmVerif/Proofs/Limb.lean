/-
Helper lemmas for C11a: the limb model `Impl.Limb` (u256.rs) is exact (L0), the limb-level modular routines agree
with their Nat mirror `Impl.NatField` for ALL operands (L1a), and the Nat mirror computes the mathematics under the
stated side conditions (L1b).
-/
import GmVerif.Impl.Limb
import GmVerif.Impl.NatField
namespace GmVerif.Proofs.Limb
open GmVerif GmVerif.Impl GmVerif.Impl.Limb

/-! ### L0: representation -/

theorem toNat_lt (a : U256) : a.toNat < 2 ^ 256 := by
  have h0 := a.l0.toNat_lt; have h1 := a.l1.toNat_lt; have h2 := a.l2.toNat_lt; have h3 := a.l3.toNat_lt
  unfold U256.toNat; omega

theorem toNat_ofNat (n : Nat) : (U256.ofNat n).toNat = n % 2 ^ 256 := by
  simp only [U256.toNat, U256.ofNat, UInt64.toNat_ofNat']
  omega

theorem ofNat_toNat (a : U256) : U256.ofNat a.toNat = a := by
  have h0 := a.l0.toNat_lt; have h1 := a.l1.toNat_lt; have h2 := a.l2.toNat_lt; have h3 := a.l3.toNat_lt
  cases a with
  | mk l0 l1 l2 l3 =>
    simp only [U256.toNat, U256.ofNat, U256.mk.injEq] at *
    refine ⟨?_, ?_, ?_, ?_⟩ <;> apply UInt64.toNat_inj.mp <;> simp only [UInt64.toNat_ofNat'] <;> omega

theorem toNat_inj (a b : U256) (h : a.toNat = b.toNat) : a = b := by
  rw [← ofNat_toNat a, ← ofNat_toNat b, h]

/-! ### L0: carry / borrow chains, comparison -/

theorem ite_toNat (c : Bool) : (if c = true then 1 else 0 : Nat) = c.toNat := by cases c <;> rfl

theorem adc_correct (a b : UInt64) (c : Bool) :
    (adc a b c).1.toNat + 2 ^ 64 * (adc a b c).2.toNat = a.toNat + b.toNat + c.toNat := by
  have ha := a.toNat_lt; have hb := b.toNat_lt
  simp only [adc, UInt64.lt_iff_toNat_lt, ← ite_toNat, Bool.or_eq_true, decide_eq_true_eq]
  cases c <;> simp only [UInt64.toNat_add, if_true, if_false, Bool.false_eq_true, UInt64.toNat_zero, UInt64.toNat_one] <;>
    split <;> omega

theorem sbb_correct (a b : UInt64) (w : Bool) :
    (sbb a b w).1.toNat + b.toNat + w.toNat = a.toNat + 2 ^ 64 * (sbb a b w).2.toNat := by
  have ha := a.toNat_lt; have hb := b.toNat_lt
  simp only [sbb, UInt64.lt_iff_toNat_lt, ← ite_toNat, Bool.or_eq_true, decide_eq_true_eq]
  cases w <;> simp only [UInt64.toNat_sub, if_true, if_false, Bool.false_eq_true, UInt64.toNat_zero, UInt64.toNat_one] <;>
    split <;> omega

theorem u256_adc_correct (a b : U256) (c : Bool) :
    (u256_adc a b c).1.toNat + 2 ^ 256 * (u256_adc a b c).2.toNat = a.toNat + b.toNat + c.toNat := by
  have e0 := adc_correct a.l0 b.l0 c
  have e1 := adc_correct a.l1 b.l1 (adc a.l0 b.l0 c).2
  have e2 := adc_correct a.l2 b.l2 (adc a.l1 b.l1 (adc a.l0 b.l0 c).2).2
  have e3 := adc_correct a.l3 b.l3 (adc a.l2 b.l2 (adc a.l1 b.l1 (adc a.l0 b.l0 c).2).2).2
  simp only [u256_adc, U256.toNat]
  omega

theorem u256_add_correct' (a b : U256) :
    (u256_add a b).1.toNat + 2 ^ 256 * (u256_add a b).2.toNat = a.toNat + b.toNat := by
  have := u256_adc_correct a b false
  simpa [u256_add] using this

theorem u256_add_correct (a b : U256) :
    (u256_add a b).1.toNat + 2 ^ 256 * (if (u256_add a b).2 then 1 else 0) = a.toNat + b.toNat := by
  rw [ite_toNat]; exact u256_add_correct' a b

theorem u512_add_correct' (a b : U512) :
    (u512_add a b).1.toNat + 2 ^ 512 * (u512_add a b).2.toNat = a.toNat + b.toNat := by
  have e0 := u256_adc_correct a.lo b.lo false
  have e1 := u256_adc_correct a.hi b.hi (u256_adc a.lo b.lo false).2
  simp only [u512_add, U512.toNat]
  simp only [Bool.toNat_false] at e0
  omega

theorem u512_add_correct (a b : U512) :
    (u512_add a b).1.toNat + 2 ^ 512 * (if (u512_add a b).2 then 1 else 0) = a.toNat + b.toNat := by
  rw [ite_toNat]; exact u512_add_correct' a b

theorem u256_sub_correct' (a b : U256) :
    (u256_sub a b).1.toNat + b.toNat = a.toNat + 2 ^ 256 * (u256_sub a b).2.toNat := by
  have e0 := sbb_correct a.l0 b.l0 false
  have e1 := sbb_correct a.l1 b.l1 (sbb a.l0 b.l0 false).2
  have e2 := sbb_correct a.l2 b.l2 (sbb a.l1 b.l1 (sbb a.l0 b.l0 false).2).2
  have e3 := sbb_correct a.l3 b.l3 (sbb a.l2 b.l2 (sbb a.l1 b.l1 (sbb a.l0 b.l0 false).2).2).2
  simp only [Bool.toNat_false] at e0
  simp only [u256_sub, U256.toNat]
  omega

theorem u256_sub_correct (a b : U256) :
    (u256_sub a b).1.toNat + b.toNat = a.toNat + 2 ^ 256 * (if (u256_sub a b).2 then 1 else 0) := by
  rw [ite_toNat]; exact u256_sub_correct' a b

theorem u256_cmp_correct (a b : U256) :
    u256_cmp a b = (if a.toNat > b.toNat then 1 else if a.toNat < b.toNat then -1 else 0) := by
  have h0 := a.l0.toNat_lt; have h1 := a.l1.toNat_lt; have h2 := a.l2.toNat_lt; have h3 := a.l3.toNat_lt
  have g0 := b.l0.toNat_lt; have g1 := b.l1.toNat_lt; have g2 := b.l2.toNat_lt; have g3 := b.l3.toNat_lt
  simp only [u256_cmp, U256.toNat, GT.gt, UInt64.lt_iff_toNat_lt]
  repeat' split
  all_goals omega

/-! ### L0: schoolbook multiplication — digit arrays -/

/-- value of the first `n` base-2^32 digits of an array -/
def aval (s : Array UInt64) : Nat → Nat
  | 0 => 0
  | n + 1 => aval s n + s[n]!.toNat * 2 ^ (32 * n)

theorem getElem!_set! (s : Array UInt64) (k j : Nat) (v : UInt64) :
    (s.set! k v)[j]! = if k = j ∧ k < s.size then v else s[j]! := by
  grind

theorem aval_set!_ge (s : Array UInt64) (k : Nat) (v : UInt64) (n : Nat) (h : n ≤ k) :
    aval (s.set! k v) n = aval s n := by
  induction n with
  | zero => rfl
  | succ n ih =>
    have : ¬ (k = n ∧ k < s.size) := by omega
    simp only [aval, getElem!_set!, this, if_false, ih (by omega)]

theorem aval_set!_lt (s : Array UInt64) (k : Nat) (v : UInt64) (n : Nat) (h : k < n) (hs : k < s.size) :
    aval (s.set! k v) n + s[k]!.toNat * 2 ^ (32 * k) = aval s n + v.toNat * 2 ^ (32 * k) := by
  induction n with
  | zero => omega
  | succ n ih =>
    by_cases hk : k = n
    · subst hk
      simp only [aval, getElem!_set!, hs, and_self, if_true, aval_set!_ge s k v k (Nat.le_refl _)]
      omega
    · have hne : ¬ (k = n ∧ k < s.size) := by omega
      have := ih (by omega)
      simp only [aval, getElem!_set!, if_neg hne]
      omega

theorem M32_toNat : M32.toNat = 2 ^ 32 - 1 := by decide

theorem and_M32 (x : UInt64) : (x &&& M32).toNat = x.toNat % 2 ^ 32 := by
  rw [UInt64.toNat_and, M32_toNat, Nat.and_two_pow_sub_one_eq_mod]

theorem shr32 (x : UInt64) : (x >>> 32).toNat = x.toNat / 2 ^ 32 := by
  rw [UInt64.toNat_shiftRight, Nat.shiftRight_eq_div_pow]; rfl

/-- the plain `s + a*b + u` of u256.rs: with all four inputs below 2^32 neither the product nor the two additions
overflow a u64 ((2^32−1)^2 + 2(2^32−1) = 2^64−1) -/
theorem mac_bound (s a b u : Nat) (hs : s < 2 ^ 32) (ha : a < 2 ^ 32) (hb : b < 2 ^ 32) (hu : u < 2 ^ 32) :
    a * b < 2 ^ 64 ∧ s + a * b < 2 ^ 64 ∧ s + a * b + u < 2 ^ 64 := by
  have : a * b ≤ (2 ^ 32 - 1) * (2 ^ 32 - 1) := Nat.mul_le_mul (by omega) (by omega)
  omega

theorem mac_toNat (s a b u : UInt64) (hs : s.toNat < 2 ^ 32) (ha : a.toNat < 2 ^ 32) (hb : b.toNat < 2 ^ 32)
    (hu : u.toNat < 2 ^ 32) : (s + a * b + u).toNat = s.toNat + a.toNat * b.toNat + u.toNat := by
  have := mac_bound _ _ _ _ hs ha hb hu
  simp only [UInt64.toNat_add, UInt64.toNat_mul]
  omega

theorem val_step (A A' A0 sij xm xd u ahi Bj bhj Ei Ej : Nat)
    (h1 : A' + sij * (Ei * Ej) = A + xm * (Ei * Ej))
    (h3 : xm + 2 ^ 32 * xd = sij + ahi * bhj + u)
    (h4 : A + u * (Ei * Ej) = A0 + ahi * Bj * Ei) :
    A' + xd * (Ei * (Ej * 2 ^ 32)) = A0 + ahi * (Bj + bhj * Ej) * Ei := by
  grind

/-! ### L0: schoolbook multiplication — loop invariants -/

theorem aval_zero (s : Array UInt64) : aval s 0 = 0 := rfl
theorem aval_succ (s : Array UInt64) (n : Nat) : aval s (n + 1) = aval s n + s[n]!.toNat * 2 ^ (32 * n) := rfl

/-- body of the inner `for j in 0..8` loop of `u256_mul` -/
def rowStep (ah bh : Array UInt64) (i : Nat) (st : Array UInt64 × UInt64) (j : Nat) : Array UInt64 × UInt64 :=
  let u := st.1[i + j]! + ah[i]! * bh[j]! + st.2
  (st.1.set! (i + j) (u &&& M32), u >>> 32)

theorem mulRow_eq (ah bh s : Array UInt64) (i : Nat) :
    mulRow ah bh s i =
      ((List.range 8).foldl (rowStep ah bh i) (s, 0)).1.set! (i + 8) ((List.range 8).foldl (rowStep ah bh i) (s, 0)).2 := by
  unfold mulRow
  change (match (List.range 8).foldl (rowStep ah bh i) (s, 0) with | (s, u) => s.set! (i + 8) u) = _
  generalize (List.range 8).foldl (rowStep ah bh i) (s, 0) = p
  cases p; rfl

/-- all 32-bit digits -/
def Dig (s : Array UInt64) : Prop := ∀ k : Nat, s[k]!.toNat < 2 ^ 32

/-- loop invariant of the inner loop of row `i` after `j` iterations (state `(s, u)`, `s0` = accumulator at row start) -/
structure RowInv (ah bh s0 : Array UInt64) (i j : Nat) (st : Array UInt64 × UInt64) : Prop where
  size : st.1.size = 16
  lt : Dig st.1
  ult : st.2.toNat < 2 ^ 32
  hi : ∀ k, i + 8 ≤ k → st.1[k]! = s0[k]!
  val : aval st.1 16 + st.2.toNat * (2 ^ (32 * i) * 2 ^ (32 * j))
          = aval s0 16 + ah[i]!.toNat * aval bh j * 2 ^ (32 * i)

theorem rowInv_init (ah bh s0 : Array UInt64) (i : Nat) (hs : s0.size = 16) (hd : Dig s0) :
    RowInv ah bh s0 i 0 (s0, 0) := by
  refine ⟨hs, hd, ?_, fun _ _ => rfl, ?_⟩
  · show (0 : UInt64).toNat < _; decide
  · show aval s0 16 + 0 * _ = aval s0 16 + _ * 0 * _
    rw [Nat.zero_mul, Nat.mul_zero, Nat.zero_mul]

theorem rowInv_step (ah bh s0 : Array UInt64) (i j : Nat) (st : Array UInt64 × UInt64)
    (hah : Dig ah) (hbh : Dig bh) (hi : i < 8) (hj : j < 8) (h : RowInv ah bh s0 i j st) :
    RowInv ah bh s0 i (j + 1) (rowStep ah bh i st j) := by
  have hx := mac_toNat st.1[i + j]! ah[i]! bh[j]! st.2 (h.lt _) (hah _) (hbh _) h.ult
  have hxlt := (st.1[i + j]! + ah[i]! * bh[j]! + st.2).toNat_lt
  refine ⟨?_, ?_, ?_, ?_, ?_⟩
  · simp [rowStep, h.size]
  · intro k
    simp only [rowStep, getElem!_set!]
    split
    · rw [and_M32]; omega
    · exact h.lt k
  · simp only [rowStep, shr32]; omega
  · intro k hk
    have : ¬ (i + j = k ∧ i + j < st.1.size) := by omega
    simp only [rowStep, getElem!_set!, if_neg this]
    exact h.hi k hk
  · have hset := aval_set!_lt st.1 (i + j) ((st.1[i + j]! + ah[i]! * bh[j]! + st.2) &&& M32) 16 (by omega)
      (by rw [h.size]; omega)
    have hv := h.val
    simp only [rowStep, shr32]
    rw [and_M32, Nat.mul_add, Nat.pow_add] at hset
    rw [aval_succ bh j, Nat.mul_add 32 j 1, Nat.pow_add]
    refine val_step _ _ _ _ _ _ _ _ _ _ _ _ hset ?_ hv
    rw [← hx]; omega

theorem rowInv_fold (ah bh s0 : Array UInt64) (i : Nat) (hah : Dig ah) (hbh : Dig bh) (hi : i < 8)
    (hs : s0.size = 16) (hd : Dig s0) (n : Nat) (hn : n ≤ 8) :
    RowInv ah bh s0 i n ((List.range n).foldl (rowStep ah bh i) (s0, 0)) := by
  induction n with
  | zero => exact rowInv_init ah bh s0 i hs hd
  | succ n ih =>
    rw [List.range_succ, List.foldl_append]
    exact rowInv_step ah bh s0 i n _ hah hbh hi (by omega) (ih (by omega))

/-- invariant of the outer loop of `u256_mul` before row `i` -/
structure MulInv (ah bh : Array UInt64) (i : Nat) (s : Array UInt64) : Prop where
  size : s.size = 16
  lt : Dig s
  hi : ∀ k, i + 8 ≤ k → s[k]! = 0
  val : aval s 16 = aval ah i * aval bh 8

theorem aval_of_zero (s : Array UInt64) (h : ∀ k : Nat, s[k]! = 0) (n : Nat) : aval s n = 0 := by
  induction n with
  | zero => rfl
  | succ n ih => rw [aval_succ, ih, h n, UInt64.toNat_zero, Nat.zero_mul]

theorem rep0 (k : Nat) : (Array.replicate 16 (0 : UInt64))[k]! = 0 := by
  rw [Array.getElem!_eq_getD, Array.getD_eq_getD_getElem?, Array.getElem?_replicate]
  split <;> rfl

theorem mulInv_init (ah bh : Array UInt64) : MulInv ah bh 0 (Array.replicate 16 0) := by
  refine ⟨Array.size_replicate, ?_, fun k _ => rep0 k, ?_⟩
  · intro k; rw [rep0]; decide
  · rw [aval_zero, Nat.zero_mul]
    exact aval_of_zero _ rep0 16

theorem mulInv_step (ah bh s : Array UInt64) (i : Nat) (hah : Dig ah) (hbh : Dig bh) (hi : i < 8)
    (h : MulInv ah bh i s) : MulInv ah bh (i + 1) (mulRow ah bh s i) := by
  have r := rowInv_fold ah bh s i hah hbh hi h.size h.lt 8 (Nat.le_refl _)
  rw [mulRow_eq]
  generalize (List.range 8).foldl (rowStep ah bh i) (s, 0) = st at r
  refine ⟨?_, ?_, ?_, ?_⟩
  · simp [r.size]
  · intro k
    rw [getElem!_set!]
    split
    · exact r.ult
    · exact r.lt k
  · intro k hk
    have : ¬ (i + 8 = k ∧ i + 8 < st.1.size) := by omega
    rw [getElem!_set!, if_neg this, r.hi k (by omega)]
    exact h.hi k (by omega)
  · have hset := aval_set!_lt st.1 (i + 8) st.2 16 (by omega) (by rw [r.size]; omega)
    have hv := r.val
    rw [r.hi (i + 8) (Nat.le_refl _), h.hi (i + 8) (Nat.le_refl _), UInt64.toNat_zero, Nat.zero_mul, Nat.add_zero,
      Nat.mul_add, Nat.pow_add] at hset
    rw [h.val] at hv
    rw [hset, hv, aval_succ ah i, Nat.add_mul, Nat.mul_right_comm _ (aval bh 8)]

theorem mulInv_fold (ah bh : Array UInt64) (hah : Dig ah) (hbh : Dig bh) (n : Nat) (hn : n ≤ 8) :
    MulInv ah bh n ((List.range n).foldl (mulRow ah bh) (Array.replicate 16 0)) := by
  induction n with
  | zero => exact mulInv_init ah bh
  | succ n ih =>
    rw [List.range_succ, List.foldl_append, List.foldl_cons, List.foldl_nil]
    exact mulInv_step ah bh _ n hah hbh (by omega) (ih (by omega))

theorem halves_get (a : U256) :
    (halves a)[0]! = a.l0 &&& M32 ∧ (halves a)[1]! = a.l0 >>> 32 ∧ (halves a)[2]! = a.l1 &&& M32 ∧
    (halves a)[3]! = a.l1 >>> 32 ∧ (halves a)[4]! = a.l2 &&& M32 ∧ (halves a)[5]! = a.l2 >>> 32 ∧
    (halves a)[6]! = a.l3 &&& M32 ∧ (halves a)[7]! = a.l3 >>> 32 ∧ ∀ k : Nat, 8 ≤ k → (halves a)[k]! = 0 := by
  refine ⟨by simp [halves], by simp [halves], by simp [halves], by simp [halves], by simp [halves], by simp [halves],
    by simp [halves], by simp [halves], ?_⟩
  intro k hk
  rw [Array.getElem!_eq_getD, Array.getD_eq_getD_getElem?, Array.getElem?_eq_none (by simp [halves]; omega)]
  rfl

theorem halves_dig (a : U256) : Dig (halves a) := by
  obtain ⟨h0, h1, h2, h3, h4, h5, h6, h7, h8⟩ := halves_get a
  intro k
  have : k = 0 ∨ k = 1 ∨ k = 2 ∨ k = 3 ∨ k = 4 ∨ k = 5 ∨ k = 6 ∨ k = 7 ∨ 8 ≤ k := by omega
  have hl := fun x : UInt64 => x.toNat_lt
  rcases this with rfl | rfl | rfl | rfl | rfl | rfl | rfl | rfl | h
  · rw [h0, and_M32]; omega
  · rw [h1, shr32]; have := hl a.l0; omega
  · rw [h2, and_M32]; omega
  · rw [h3, shr32]; have := hl a.l1; omega
  · rw [h4, and_M32]; omega
  · rw [h5, shr32]; have := hl a.l2; omega
  · rw [h6, and_M32]; omega
  · rw [h7, shr32]; have := hl a.l3; omega
  · rw [h8 k h]; decide

theorem halves_val (a : U256) : aval (halves a) 8 = a.toNat := by
  obtain ⟨h0, h1, h2, h3, h4, h5, h6, h7, -⟩ := halves_get a
  show aval (halves a) (0+1+1+1+1+1+1+1+1) = _
  simp only [aval_succ, aval_zero, Nat.zero_add, Nat.reduceAdd, h0, h1, h2, h3, h4, h5, h6, h7, and_M32, shr32,
    U256.toNat]
  omega

theorem join32 (hi lo : UInt64) (h1 : hi.toNat < 2 ^ 32) (h2 : lo.toNat < 2 ^ 32) :
    ((hi <<< 32) ||| lo).toNat = lo.toNat + 2 ^ 32 * hi.toNat := by
  rw [UInt64.toNat_or, UInt64.toNat_shiftLeft, show (32 : UInt64).toNat % 64 = 32 from rfl, Nat.shiftLeft_eq,
    Nat.mod_eq_of_lt (by omega), Nat.mul_comm, ← Nat.two_pow_add_eq_or_of_lt h2]
  omega

/-- value of `m` digits starting at offset `o` -/
def avalFrom (s : Array UInt64) (o : Nat) : Nat → Nat
  | 0 => 0
  | m + 1 => avalFrom s o m + s[o + m]!.toNat * 2 ^ (32 * m)

theorem avalFrom_zero (s : Array UInt64) (o : Nat) : avalFrom s o 0 = 0 := rfl
theorem avalFrom_succ (s : Array UInt64) (o m : Nat) :
    avalFrom s o (m + 1) = avalFrom s o m + s[o + m]!.toNat * 2 ^ (32 * m) := rfl

theorem aval_add (s : Array UInt64) (n m : Nat) : aval s (n + m) = aval s n + 2 ^ (32 * n) * avalFrom s n m := by
  induction m with
  | zero => rw [avalFrom_zero, Nat.mul_zero]; rfl
  | succ m ih =>
    rw [← Nat.add_assoc, aval_succ, ih, avalFrom_succ, Nat.mul_add 32 n m, Nat.pow_add, Nat.mul_add, Nat.add_assoc]
    congr 2
    ac_rfl

theorem aval_eq_from (s : Array UInt64) (n : Nat) : aval s n = avalFrom s 0 n := by
  induction n with
  | zero => rfl
  | succ n ih => rw [aval_succ, avalFrom_succ, ih, Nat.zero_add]

theorem avalFrom_8 (s : Array UInt64) (o : Nat) :
    avalFrom s o 8 = s[o]!.toNat + 2 ^ 32 * s[o + 1]!.toNat + 2 ^ 64 * s[o + 2]!.toNat + 2 ^ 96 * s[o + 3]!.toNat
      + 2 ^ 128 * s[o + 4]!.toNat + 2 ^ 160 * s[o + 5]!.toNat + 2 ^ 192 * s[o + 6]!.toNat
      + 2 ^ 224 * s[o + 7]!.toNat := by
  show avalFrom s o (0+1+1+1+1+1+1+1+1) = _
  simp only [avalFrom_succ, avalFrom_zero, Nat.zero_add, Nat.reduceAdd, Nat.reduceMul, Nat.add_zero]
  omega

theorem u256_mul_correct (a b : U256) : (u256_mul a b).toNat = a.toNat * b.toNat := by
  have h := mulInv_fold (halves a) (halves b) (halves_dig a) (halves_dig b) 8 (Nat.le_refl _)
  simp only [u256_mul]
  generalize (List.range 8).foldl (mulRow (halves a) (halves b)) (Array.replicate 16 0) = s at h
  have hv := h.val
  rw [halves_val, halves_val, show (16 : Nat) = 8 + 8 from rfl, aval_add s 8 8, aval_eq_from, avalFrom_8, avalFrom_8] at hv
  rw [← hv]
  have d := h.lt
  simp only [U512.toNat, U256.toNat, Nat.reduceMul, Nat.reduceAdd, Nat.zero_add]
  rw [join32 _ _ (d 1) (d 0), join32 _ _ (d 3) (d 2), join32 _ _ (d 5) (d 4), join32 _ _ (d 7) (d 6),
    join32 _ _ (d 9) (d 8), join32 _ _ (d 11) (d 10), join32 _ _ (d 13) (d 12), join32 _ _ (d 15) (d 14)]
  omega

/-! ### `u256_mul` cannot panic (C20 obligation): a version with Rust's checked `+`, `*` and checked indexing
(`none` = panic) always returns `some (u256_mul a b)` -/

/-- `a + b` with overflow check -/
def cadd (a b : UInt64) : Option UInt64 := if a.toNat + b.toNat < 2 ^ 64 then some (a + b) else none
/-- `a * b` with overflow check -/
def cmul (a b : UInt64) : Option UInt64 := if a.toNat * b.toNat < 2 ^ 64 then some (a * b) else none

/-- `u = s[i + j] + a_[i] * b_[j] + u; s[i + j] = u & M32; u >>= 32` with index and overflow checks -/
def rowStepC (ah bh : Array UInt64) (i : Nat) (st : Array UInt64 × UInt64) (j : Nat) :
    Option (Array UInt64 × UInt64) :=
  if i + j < st.1.size ∧ i < ah.size ∧ j < bh.size then
    (cmul ah[i]! bh[j]!).bind fun p => (cadd st.1[i + j]! p).bind fun q => (cadd q st.2).bind fun u =>
      some (st.1.set! (i + j) (u &&& M32), u >>> 32)
  else none

def mulRowC (ah bh : Array UInt64) (s : Array UInt64) (i : Nat) : Option (Array UInt64) :=
  ((List.range 8).foldlM (rowStepC ah bh i) (s, 0)).bind fun st =>
    if i + 8 < st.1.size then some (st.1.set! (i + 8) st.2) else none

def u256_mulC (a b : U256) : Option U512 :=
  ((List.range 8).foldlM (mulRowC (halves a) (halves b)) (Array.replicate 16 0)).bind fun s =>
    if 15 < s.size then
      let w (i : Nat) : UInt64 := (s[2 * i + 1]! <<< 32) ||| s[2 * i]!
      some ⟨⟨w 0, w 1, w 2, w 3⟩, ⟨w 4, w 5, w 6, w 7⟩⟩
    else none

theorem rowStepC_eq (ah bh s0 : Array UInt64) (i j : Nat) (st : Array UInt64 × UInt64)
    (hah : Dig ah) (hbh : Dig bh) (has : ah.size = 8) (hbs : bh.size = 8) (hi : i < 8) (hj : j < 8)
    (h : RowInv ah bh s0 i j st) : rowStepC ah bh i st j = some (rowStep ah bh i st j) := by
  have hb := mac_bound _ _ _ _ (h.lt (i + j)) (hah i) (hbh j) h.ult
  have hc : i + j < st.1.size ∧ i < ah.size ∧ j < bh.size := by rw [h.size, has, hbs]; omega
  have hm : (ah[i]! * bh[j]!).toNat = ah[i]!.toNat * bh[j]!.toNat := by
    rw [UInt64.toNat_mul]; omega
  have ha : (st.1[i + j]! + ah[i]! * bh[j]!).toNat = st.1[i + j]!.toNat + ah[i]!.toNat * bh[j]!.toNat := by
    rw [UInt64.toNat_add, hm]; omega
  simp only [rowStepC, if_pos hc, cmul, cadd, if_pos hb.1, Option.bind_some, hm, ha, if_pos hb.2.1, if_pos hb.2.2]
  rfl

theorem rowC_fold (ah bh s0 : Array UInt64) (i : Nat) (hah : Dig ah) (hbh : Dig bh) (has : ah.size = 8)
    (hbs : bh.size = 8) (hi : i < 8) (hs : s0.size = 16) (hd : Dig s0) (n : Nat) (hn : n ≤ 8) :
    (List.range n).foldlM (rowStepC ah bh i) (s0, 0) = some ((List.range n).foldl (rowStep ah bh i) (s0, 0)) := by
  induction n with
  | zero => rfl
  | succ n ih =>
    rw [List.range_succ, List.foldlM_append, List.foldl_append, ih (by omega)]
    simp only [Option.bind_eq_bind, Option.bind_some, List.foldlM_cons, List.foldlM_nil, List.foldl_cons, List.foldl_nil]
    rw [rowStepC_eq ah bh s0 i n _ hah hbh has hbs hi (by omega) (rowInv_fold ah bh s0 i hah hbh hi hs hd n (by omega))]
    rfl

theorem mulRowC_eq (ah bh s : Array UInt64) (i : Nat) (hah : Dig ah) (hbh : Dig bh) (has : ah.size = 8)
    (hbs : bh.size = 8) (hi : i < 8) (h : MulInv ah bh i s) : mulRowC ah bh s i = some (mulRow ah bh s i) := by
  have r := rowInv_fold ah bh s i hah hbh hi h.size h.lt 8 (Nat.le_refl _)
  rw [mulRowC, rowC_fold ah bh s i hah hbh has hbs hi h.size h.lt 8 (Nat.le_refl _), mulRow_eq, Option.bind_some,
    if_pos (by rw [r.size]; omega)]

theorem mulC_fold (ah bh : Array UInt64) (hah : Dig ah) (hbh : Dig bh) (has : ah.size = 8) (hbs : bh.size = 8)
    (n : Nat) (hn : n ≤ 8) :
    (List.range n).foldlM (mulRowC ah bh) (Array.replicate 16 0)
      = some ((List.range n).foldl (mulRow ah bh) (Array.replicate 16 0)) := by
  induction n with
  | zero => rfl
  | succ n ih =>
    rw [List.range_succ, List.foldlM_append, List.foldl_append, ih (by omega)]
    simp only [Option.bind_eq_bind, Option.bind_some, List.foldlM_cons, List.foldlM_nil, List.foldl_cons, List.foldl_nil]
    rw [mulRowC_eq ah bh _ n hah hbh has hbs (by omega) (mulInv_fold ah bh hah hbh n (by omega))]
    rfl

/-- the checked model never returns `none`: no `+`/`*` overflows and no index is out of range in `u256_mul` -/
theorem u256_mul_checked (a b : U256) : u256_mulC a b = some (u256_mul a b) := by
  have h := mulInv_fold (halves a) (halves b) (halves_dig a) (halves_dig b) 8 (Nat.le_refl _)
  rw [u256_mulC, mulC_fold _ _ (halves_dig a) (halves_dig b) rfl rfl 8 (Nat.le_refl _), Option.bind_some,
    if_pos (by rw [h.size]; omega)]
  rfl

/-- The invariant in closed form: before step `j` of row `i` of `u256_mul a b` (state `(s, u)`), the accumulator has
16 entries, every entry, the carry `u` and both half-limbs are < 2^32, hence the Nat value of the plain u64 expression
`s[i+j] + a_[i]*b_[j] + u` is < 2^64 (≤ (2^32−1)^2 + 2(2^32−1) = 2^64−1) and the u64 expression equals it. -/
theorem mulRow_no_overflow (a b : U256) (i j : Nat) (hi : i < 8) (hj : j < 8) :
    let ah := halves a
    let bh := halves b
    let s0 := (List.range i).foldl (mulRow ah bh) (Array.replicate 16 0)
    let st := (List.range j).foldl (rowStep ah bh i) (s0, 0)
    st.1.size = 16 ∧ (∀ k : Nat, st.1[k]!.toNat < 2 ^ 32) ∧ st.2.toNat < 2 ^ 32 ∧
    ah[i]!.toNat < 2 ^ 32 ∧ bh[j]!.toNat < 2 ^ 32 ∧
    ah[i]!.toNat * bh[j]!.toNat < 2 ^ 64 ∧
    st.1[i + j]!.toNat + ah[i]!.toNat * bh[j]!.toNat < 2 ^ 64 ∧
    st.1[i + j]!.toNat + ah[i]!.toNat * bh[j]!.toNat + st.2.toNat < 2 ^ 64 ∧
    (st.1[i + j]! + ah[i]! * bh[j]! + st.2).toNat = st.1[i + j]!.toNat + ah[i]!.toNat * bh[j]!.toNat + st.2.toNat := by
  intro ah bh s0 st
  have hm := mulInv_fold ah bh (halves_dig a) (halves_dig b) i (by omega)
  have r := rowInv_fold ah bh s0 i (halves_dig a) (halves_dig b) hi hm.size hm.lt j (by omega)
  have hb := mac_bound _ _ _ _ (r.lt (i + j)) (halves_dig a i) (halves_dig b j) r.ult
  exact ⟨r.size, r.lt, r.ult, halves_dig a i, halves_dig b j, hb.1, hb.2.1, hb.2.2,
    mac_toNat _ _ _ _ (r.lt (i + j)) (halves_dig a i) (halves_dig b j) r.ult⟩

/-! ### L0: (de)serialisation -/

theorem natBE_add (l1 l2 n : Nat) : natBE (l1 + l2) n = natBE l1 (n / 256 ^ l2) ++ natBE l2 n := by
  unfold natBE
  rw [List.range_add, List.map_append, List.map_map]
  congr 1
  · apply List.map_congr_left
    intro i hi
    have hi := List.mem_range.mp hi
    rw [Nat.div_div_eq_div_mul, ← Nat.pow_add, show l2 + (l1 - 1 - i) = l1 + l2 - 1 - i by omega]
  · apply List.map_congr_left
    intro i hi
    have hi := List.mem_range.mp hi
    simp only [Function.comp]
    rw [show l1 + l2 - 1 - (l1 + i) = l2 - 1 - i by omega]

theorem shr_byte (x : UInt64) (k : Nat) (hk : k < 64) :
    (x >>> k.toUInt64).toUInt8 = (x.toNat / 2 ^ k % 256).toUInt8 := by
  apply UInt8.toNat_inj.mp
  rw [UInt64.toNat_toUInt8, UInt64.toNat_shiftRight, Nat.shiftRight_eq_div_pow]
  have : k.toUInt64.toNat % 64 = k := by
    show (UInt64.ofNat k).toNat % 64 = k
    rw [UInt64.toNat_ofNat']; omega
  rw [this]
  show _ = (UInt8.ofNat _).toNat
  rw [UInt8.toNat_ofNat']
  omega

theorem be64_natBE (x : UInt64) (n : Nat) (h : n % 2 ^ 64 = x.toNat) : be64 x = natBE 8 n := by
  have e : natBE 8 n = [(n / 256 ^ 7 % 256).toUInt8, (n / 256 ^ 6 % 256).toUInt8, (n / 256 ^ 5 % 256).toUInt8,
    (n / 256 ^ 4 % 256).toUInt8, (n / 256 ^ 3 % 256).toUInt8, (n / 256 ^ 2 % 256).toUInt8,
    (n / 256 ^ 1 % 256).toUInt8, (n / 256 ^ 0 % 256).toUInt8] := rfl
  have s0 : x.toUInt8 = (x >>> (0 : Nat).toUInt64).toUInt8 := by
    show _ = (x >>> (0 : UInt64)).toUInt8
    rw [UInt64.shiftRight_zero]
  rw [e, be64, s0]
  change [(x >>> (56 : Nat).toUInt64).toUInt8, (x >>> (48 : Nat).toUInt64).toUInt8, (x >>> (40 : Nat).toUInt64).toUInt8,
    (x >>> (32 : Nat).toUInt64).toUInt8, (x >>> (24 : Nat).toUInt64).toUInt8, (x >>> (16 : Nat).toUInt64).toUInt8,
    (x >>> (8 : Nat).toUInt64).toUInt8, (x >>> (0 : Nat).toUInt64).toUInt8] = _
  simp only [shr_byte, Nat.reduceLT]
  have hx := x.toNat_lt
  refine List.cons_eq_cons.mpr ⟨congrArg _ (by omega), List.cons_eq_cons.mpr ⟨congrArg _ (by omega),
    List.cons_eq_cons.mpr ⟨congrArg _ (by omega), List.cons_eq_cons.mpr ⟨congrArg _ (by omega),
    List.cons_eq_cons.mpr ⟨congrArg _ (by omega), List.cons_eq_cons.mpr ⟨congrArg _ (by omega),
    List.cons_eq_cons.mpr ⟨congrArg _ (by omega), List.cons_eq_cons.mpr ⟨congrArg _ (by omega), rfl⟩⟩⟩⟩⟩⟩⟩⟩

theorem to_be_bytes_correct (a : U256) : u256_to_be_bytes a = natBE 32 a.toNat := by
  have h0 := a.l0.toNat_lt; have h1 := a.l1.toNat_lt; have h2 := a.l2.toNat_lt; have h3 := a.l3.toNat_lt
  rw [show (32 : Nat) = 8 + (8 + (8 + 8)) from rfl, natBE_add, natBE_add, natBE_add, u256_to_be_bytes]
  rw [be64_natBE a.l3 (a.toNat / 256 ^ (8 + (8 + 8))) (by unfold U256.toNat; omega),
    be64_natBE a.l2 (a.toNat / 256 ^ (8 + 8)) (by unfold U256.toNat; omega),
    be64_natBE a.l1 (a.toNat / 256 ^ 8) (by unfold U256.toNat; omega),
    be64_natBE a.l0 a.toNat (by unfold U256.toNat; omega)]
  simp only [List.append_assoc]

theorem beNat_foldl (bs : List UInt8) (a : Nat) :
    bs.foldl (fun acc b => acc * 256 + b.toNat) a
      = a * 256 ^ bs.length + bs.foldl (fun acc b => acc * 256 + b.toNat) 0 := by
  induction bs generalizing a with
  | nil => simp
  | cons b bs ih =>
    rw [List.foldl_cons, List.foldl_cons, ih, ih (0 * 256 + b.toNat), List.length_cons, Nat.pow_succ]
    simp only [Nat.zero_mul, Nat.zero_add, Nat.add_mul, Nat.add_assoc]
    congr 1
    ac_rfl

theorem beNat_append (xs ys : List UInt8) : beNat (xs ++ ys) = beNat xs * 256 ^ ys.length + beNat ys := by
  rw [beNat, List.foldl_append, beNat_foldl]; rfl

theorem u64be_step (acc : UInt64) (b : UInt8) (h : acc.toNat < 2 ^ 56) :
    ((acc <<< 8) ||| b.toUInt64).toNat = acc.toNat * 256 + b.toNat := by
  have hb := b.toNat_lt
  rw [UInt64.toNat_or, UInt64.toNat_shiftLeft, show (8 : UInt64).toNat % 64 = 8 from rfl, Nat.shiftLeft_eq,
    Nat.mod_eq_of_lt (by omega), UInt8.toNat_toUInt64, Nat.mul_comm,
    ← Nat.two_pow_add_eq_or_of_lt (by omega : b.toNat < 2 ^ 8)]

theorem u64be_foldl (bs : List UInt8) (acc : UInt64) (k : Nat) (hk : bs.length + k ≤ 8) (ha : acc.toNat < 256 ^ k) :
    (bs.foldl (fun (acc : UInt64) (b : UInt8) => (acc <<< 8) ||| b.toUInt64) acc).toNat
      = bs.foldl (fun acc b => acc * 256 + b.toNat) acc.toNat := by
  induction bs generalizing acc k with
  | nil => rfl
  | cons b bs ih =>
    rw [List.length_cons] at hk
    have hk7 : 256 ^ k ≤ 256 ^ 7 := Nat.pow_le_pow_right (by decide) (by omega)
    have hs := u64be_step acc b (by omega)
    rw [List.foldl_cons, List.foldl_cons, ih _ (k + 1) (by omega) (by rw [hs, Nat.pow_succ]; have := b.toNat_lt; omega), hs]

theorem u64be_correct (bs : List UInt8) (h : bs.length ≤ 8) : (u64be bs).toNat = beNat bs := by
  rw [u64be, u64be_foldl bs 0 0 (by omega) (by decide)]; rfl

/-- all inputs of at least 32 bytes: the first 32 bytes are read, the rest ignored -/
theorem from_be_bytes_ge (bs : List UInt8) (h : 32 ≤ bs.length) :
    ∃ v, u256_from_be_bytes bs = .ok v ∧ v.toNat = beNat (bs.take 32) := by
  refine ⟨_, by rw [u256_from_be_bytes, if_neg (by omega)], ?_⟩
  have l0 : (bs.take 8).length = 8 := by rw [List.length_take]; omega
  have l1 : ((bs.drop 8).take 8).length = 8 := by rw [List.length_take, List.length_drop]; omega
  have l2 : ((bs.drop 16).take 8).length = 8 := by rw [List.length_take, List.length_drop]; omega
  have l3 : ((bs.drop 24).take 8).length = 8 := by rw [List.length_take, List.length_drop]; omega
  have e : bs.take 32 = bs.take 8 ++ ((bs.drop 8).take 8 ++ ((bs.drop 16).take 8 ++ (bs.drop 24).take 8)) := by
    rw [show (32 : Nat) = 8 + (8 + (8 + 8)) from rfl, List.take_add, List.take_add, List.take_add, List.drop_drop,
      List.drop_drop]
  rw [e, beNat_append, beNat_append, beNat_append]
  simp only [U256.toNat, List.length_append, l1, l2, l3]
  rw [u64be_correct _ (by omega), u64be_correct _ (by omega), u64be_correct _ (by omega), u64be_correct _ (by omega)]
  omega

theorem from_be_bytes_correct (bs : List UInt8) (h : bs.length = 32) :
    ∃ v, u256_from_be_bytes bs = .ok v ∧ v.toNat = beNat bs := by
  have := from_be_bytes_ge bs (by omega)
  rwa [List.take_of_length_le (by omega)] at this

theorem from_be_bytes_short (bs : List UInt8) (h : bs.length < 32) : u256_from_be_bytes bs = .panic := by
  rw [u256_from_be_bytes, if_pos h]

/-! ### L1a: limb-level modular routines = Nat mirror, for ALL operands -/

theorem lo_toNat (z : U512) : z.lo.toNat = z.toNat % 2 ^ 256 := by
  have := toNat_lt z.lo; unfold U512.toNat; omega
theorem hi_toNat (z : U512) : z.hi.toNat = z.toNat / 2 ^ 256 := by
  have := toNat_lt z.lo; unfold U512.toNat; omega
theorem toNat512_lt (z : U512) : z.toNat < 2 ^ 512 := by
  have := toNat_lt z.lo; have := toNat_lt z.hi; unfold U512.toNat; omega

theorem add_fst_toNat (a b : U256) : (u256_add a b).1.toNat = (a.toNat + b.toNat) % 2 ^ 256 := by
  have h := u256_add_correct' a b; have := toNat_lt (u256_add a b).1
  cases hc : (u256_add a b).2 <;> simp only [hc, Bool.toNat_false, Bool.toNat_true] at h <;> omega
theorem add_snd (a b : U256) : (u256_add a b).2 = decide (2 ^ 256 ≤ a.toNat + b.toNat) := by
  have h := u256_add_correct' a b; have := toNat_lt (u256_add a b).1
  have := toNat_lt a; have := toNat_lt b
  cases hc : (u256_add a b).2 <;> simp only [hc, Bool.toNat_false, Bool.toNat_true] at h <;>
    simp only [Bool.false_eq, Bool.true_eq, decide_eq_false_iff_not, decide_eq_true_eq] <;> omega
theorem sub_fst_toNat (a b : U256) (h : b.toNat ≤ a.toNat) : (u256_sub a b).1.toNat = a.toNat - b.toNat := by
  have h := u256_sub_correct' a b; have := toNat_lt (u256_sub a b).1; have := toNat_lt a
  cases hc : (u256_sub a b).2 <;> simp only [hc, Bool.toNat_false, Bool.toNat_true] at h <;> omega
theorem sub_fst_toNat' (a b : U256) : (u256_sub a b).1.toNat = (a.toNat + 2 ^ 256 - b.toNat) % 2 ^ 256 := by
  have h := u256_sub_correct' a b; have := toNat_lt (u256_sub a b).1; have := toNat_lt a; have := toNat_lt b
  cases hc : (u256_sub a b).2 <;> simp only [hc, Bool.toNat_false, Bool.toNat_true] at h <;> omega
theorem sub_snd (a b : U256) : (u256_sub a b).2 = decide (a.toNat < b.toNat) := by
  have h := u256_sub_correct' a b; have := toNat_lt (u256_sub a b).1
  have := toNat_lt a; have := toNat_lt b
  cases hc : (u256_sub a b).2 <;> simp only [hc, Bool.toNat_false, Bool.toNat_true] at h <;>
    simp only [Bool.false_eq, Bool.true_eq, decide_eq_false_iff_not, decide_eq_true_eq] <;> omega
theorem cmp_ge (a b : U256) : u256_cmp a b ≥ 0 ↔ b.toNat ≤ a.toNat := by
  rw [u256_cmp_correct]; repeat' split
  all_goals omega
theorem add512_fst_toNat (a b : U512) : (u512_add a b).1.toNat = (a.toNat + b.toNat) % 2 ^ 512 := by
  have h := u512_add_correct' a b; have := toNat512_lt (u512_add a b).1
  cases hc : (u512_add a b).2 <;> simp only [hc, Bool.toNat_false, Bool.toNat_true] at h <;> omega
theorem add512_snd (a b : U512) : (u512_add a b).2 = decide (2 ^ 512 ≤ a.toNat + b.toNat) := by
  have h := u512_add_correct' a b; have := toNat512_lt (u512_add a b).1
  have := toNat512_lt a; have := toNat512_lt b
  cases hc : (u512_add a b).2 <;> simp only [hc, Bool.toNat_false, Bool.toNat_true] at h <;>
    simp only [Bool.false_eq, Bool.true_eq, decide_eq_false_iff_not, decide_eq_true_eq] <;> omega

theorem mod_add_eq (m neg a b : U256) :
    (mod_add m neg a b).toNat = NatField.modAdd m.toNat neg.toNat a.toNat b.toNat := by
  have ha := toNat_lt a; have hb := toNat_lt b; have hm := toNat_lt m; have hn := toNat_lt neg
  simp only [mod_add, NatField.modAdd, NatField.R, add_snd, decide_eq_true_eq, cmp_ge, ge_iff_le]
  split
  · simp only [add_fst_toNat]; omega
  · simp only [add_fst_toNat]
    split
    · rw [if_pos (by omega), sub_fst_toNat', add_fst_toNat]; omega
    · rw [if_neg (by omega), add_fst_toNat]; omega

theorem mod_sub_eq (neg a b : U256) :
    (mod_sub neg a b).toNat = NatField.modSub neg.toNat a.toNat b.toNat := by
  have ha := toNat_lt a; have hb := toNat_lt b; have hn := toNat_lt neg
  simp only [mod_sub, NatField.modSub, NatField.R, sub_snd, decide_eq_true_eq]
  split
  · rw [sub_fst_toNat', sub_fst_toNat']; omega
  · rw [sub_fst_toNat']; omega

theorem isZero_iff (a : U256) : a.isZero = true ↔ a.toNat = 0 := by
  rw [U256.isZero, beq_iff_eq]
  constructor
  · intro h; rw [h]; rfl
  · intro h; exact toNat_inj _ _ (by rw [h]; rfl)

theorem mod_neg_eq (m a : U256) : (mod_neg m a).toNat = NatField.modNeg m.toNat a.toNat := by
  have ha := toNat_lt a; have hm := toNat_lt m
  simp only [mod_neg, NatField.modNeg, NatField.R, isZero_iff]
  split
  · assumption
  · rw [sub_fst_toNat']

set_option exponentiation.threshold 600 in
theorem mont_mul_eq (m mp neg a b : U256) :
    (mont_mul m mp neg a b).toNat = NatField.montMul m.toNat mp.toNat neg.toNat a.toNat b.toNat := by
  have hm := toNat_lt m; have hn := toNat_lt neg
  have hr : (u512_add (u256_mul a b) (u256_mul (u256_mul (u256_mul a b).lo mp).lo m)).1.hi.toNat
      = (a.toNat * b.toNat + a.toNat * b.toNat % 2 ^ 256 * mp.toNat % 2 ^ 256 * m.toNat) / 2 ^ 256 % 2 ^ 256 := by
    rw [hi_toNat, add512_fst_toNat, u256_mul_correct, u256_mul_correct, lo_toNat, u256_mul_correct, lo_toNat,
      u256_mul_correct]
    omega
  simp only [mont_mul, NatField.montMul, NatField.R, add512_snd, decide_eq_true_eq, cmp_ge, ge_iff_le,
    u256_mul_correct, lo_toNat]
  generalize (u512_add (u256_mul a b) (u256_mul (u256_mul (u256_mul a b).lo mp).lo m)).1.hi = r at hr ⊢
  generalize a.toNat * b.toNat + a.toNat * b.toNat % 2 ^ 256 * mp.toNat % 2 ^ 256 * m.toNat = s at hr ⊢
  have hp : (2 : Nat) ^ 256 * 2 ^ 256 = 2 ^ (256 + 256) := (Nat.pow_add 2 256 256).symm
  rw [hp, ← hr]
  split
  · rw [add_fst_toNat]
  · split
    · rw [sub_fst_toNat']; have := toNat_lt r; omega
    · rfl

theorem and1_toNat (x : UInt64) : (x &&& 1).toNat = x.toNat % 2 := by
  rw [UInt64.toNat_and, UInt64.toNat_one, Nat.and_one_is_mod]

theorem and1_eq1 (x : UInt64) : x &&& 1 = 1 ↔ x.toNat % 2 = 1 := by
  rw [← UInt64.toNat_inj, and1_toNat, UInt64.toNat_one]

theorem shr1_or (x y : UInt64) :
    ((x >>> 1) ||| ((y &&& 1) <<< 63)).toNat = x.toNat / 2 + 2 ^ 63 * (y.toNat % 2) := by
  have hx := x.toNat_lt
  rw [UInt64.toNat_or, UInt64.toNat_shiftRight, UInt64.toNat_shiftLeft, and1_toNat,
    show (1 : UInt64).toNat % 64 = 1 from rfl, show (63 : UInt64).toNat % 64 = 63 from rfl, Nat.shiftLeft_eq,
    Nat.shiftRight_eq_div_pow, Nat.mod_eq_of_lt (by omega), Nat.or_comm, Nat.mul_comm,
    ← Nat.two_pow_add_eq_or_of_lt (by omega)]
  omega

theorem mod_div2_eq_all (m a : U256) : (mod_div2 m a).toNat = NatField.modDiv2 m.toNat a.toNat := by
  have key : ∀ (r : U256) (c : Bool), (U256.mk ((r.l0 >>> 1) ||| ((r.l1 &&& 1) <<< 63))
      ((r.l1 >>> 1) ||| ((r.l2 &&& 1) <<< 63)) ((r.l2 >>> 1) ||| ((r.l3 &&& 1) <<< 63))
      ((r.l3 >>> 1) ||| (((if c then 1 else 0 : UInt64) &&& 1) <<< 63))).toNat = (r.toNat + 2 ^ 256 * c.toNat) / 2 := by
    intro r c
    have h0 := r.l0.toNat_lt; have h1 := r.l1.toNat_lt; have h2 := r.l2.toNat_lt; have h3 := r.l3.toNat_lt
    have hc : (if c then 1 else 0 : UInt64).toNat = c.toNat := by cases c <;> rfl
    simp only [U256.toNat, shr1_or, hc]
    have := Bool.toNat_lt c
    omega
  have hodd : a.toNat % 2 = a.l0.toNat % 2 := by unfold U256.toNat; omega
  simp only [mod_div2, NatField.modDiv2, and1_eq1, ← hodd]
  split
  · rw [key, u256_add_correct']
  · rw [key, Bool.toNat_false]; rfl

theorem mod_div2_eq (m a : U256) (_hm : m.toNat % 2 = 1) (_ha : a.toNat < m.toNat) :
    (mod_div2 m a).toNat = NatField.modDiv2 m.toNat a.toNat := mod_div2_eq_all m a

theorem bit_eq (w : UInt64) (j : Nat) (hj : j < 64) :
    ((w >>> (63 - j).toUInt64) &&& 1 = 1) = (w.toNat / 2 ^ (63 - j) % 2 = 1) := by
  rw [and1_eq1, UInt64.toNat_shiftRight, Nat.shiftRight_eq_div_pow]
  have : (63 - j).toUInt64.toNat % 64 = 63 - j := by
    show (UInt64.ofNat (63 - j)).toNat % 64 = _
    rw [UInt64.toNat_ofNat']; omega
  rw [this]

theorem limb_bits (w : UInt64) (e o : Nat) (h : e / 2 ^ o % 2 ^ 64 = w.toNat) :
    ((List.range 64).map fun j => decide ((w >>> (63 - j).toUInt64) &&& 1 = 1))
      = (List.range 64).map fun j => decide (e / 2 ^ (o + 63 - j) % 2 = 1) := by
  apply List.map_congr_left
  intro j hj
  have hj := List.mem_range.mp hj
  have e1 : o + 63 - j = o + (63 - j) := by omega
  rw [decide_eq_decide, bit_eq w j hj, ← h, e1, Nat.pow_add, ← Nat.div_div_eq_div_mul]
  have : (2 : Nat) ^ 64 = 2 ^ (63 - j) * 2 ^ (j + 1) := by rw [← Nat.pow_add]; congr 1; omega
  rw [this, Nat.mod_mul_right_div_self, Nat.pow_succ, Nat.mod_mul_left_mod]

theorem bitsMSB_eq (e : U256) : Limb.bitsMSB e = NatField.bitsMSB e.toNat := by
  have h0 := e.l0.toNat_lt; have h1 := e.l1.toNat_lt; have h2 := e.l2.toNat_lt; have h3 := e.l3.toNat_lt
  unfold Limb.bitsMSB NatField.bitsMSB
  rw [show (256 : Nat) = 64 + (64 + (64 + 64)) from rfl, List.range_add, List.range_add, List.range_add]
  simp only [List.flatMap_cons, List.flatMap_nil, List.append_nil, List.map_append, List.map_map]
  rw [limb_bits e.l3 e.toNat 192 (by unfold U256.toNat; omega), limb_bits e.l2 e.toNat 128 (by unfold U256.toNat; omega),
    limb_bits e.l1 e.toNat 64 (by unfold U256.toNat; omega), limb_bits e.l0 e.toNat 0 (by unfold U256.toNat; omega)]
  congr 1

theorem pow_loop_eq (mulL : U256 → U256 → U256) (mulN : Nat → Nat → Nat)
    (h : ∀ x y, (mulL x y).toNat = mulN x.toNat y.toNat) (one a e : U256) :
    (Limb.pow_loop mulL one a e).toNat = NatField.powLoop mulN one.toNat a.toNat e.toNat := by
  unfold Limb.pow_loop NatField.powLoop
  rw [bitsMSB_eq]
  generalize NatField.bitsMSB e.toNat = bits
  induction bits generalizing one with
  | nil => rfl
  | cons bit bits ih =>
    rw [List.foldl_cons, List.foldl_cons, ih]
    congr 1
    cases bit
    · exact h one one
    · simp only [if_true]; rw [h, h]

/-! ### L1b: the Nat mirror computes the mathematics -/

theorem modeq_of_add_mul (x y k l m : Nat) (h : x + k * m = y + l * m) : x % m = y % m := by
  have := congrArg (· % m) h
  simpa [Nat.add_mul_mod_self_right] using this

/-- Montgomery's observation: with m·mp ≡ −1 (mod R), R divides z + ((z mod R)·mp mod R)·m -/
theorem mont_key (R m mp z : Nat) (hmp : (m * mp + 1) % R = 0) :
    ∃ u, z + (z % R * mp % R) * m = R * u := by
  obtain ⟨k, hk⟩ := Nat.dvd_of_mod_eq_zero hmp
  have h1 := Nat.div_add_mod z R
  have h2 := Nat.div_add_mod (z % R * mp) R
  generalize z % R = z0 at *
  generalize z / R = q at *
  generalize z0 * mp % R = t1 at *
  generalize z0 * mp / R = q2 at *
  have h3 : z0 + t1 * m + R * (q2 * m) = R * (z0 * k) := by grind
  have h4 : R ∣ z0 + t1 * m := (Nat.dvd_add_left (Nat.dvd_mul_right R (q2 * m))).mp ⟨z0 * k, h3⟩
  obtain ⟨v, hv⟩ := h4
  exact ⟨q + v, by rw [← h1, Nat.mul_add, ← hv]; omega⟩

theorem montMul_aux (m z t1 u : Nat) (hm0 : 0 < m) (hmR : m < 2 ^ 256) (hz : z < m * 2 ^ 256) (ht1 : t1 < 2 ^ 256)
    (hu : z + t1 * m = 2 ^ 256 * u) (res : Nat)
    (hres : res = if z + t1 * m ≥ 2 ^ 256 * 2 ^ 256 then ((z + t1 * m) / 2 ^ 256 % 2 ^ 256 + (2 ^ 256 - m)) % 2 ^ 256
      else if (z + t1 * m) / 2 ^ 256 % 2 ^ 256 ≥ m then (z + t1 * m) / 2 ^ 256 % 2 ^ 256 - m
      else (z + t1 * m) / 2 ^ 256 % 2 ^ 256) :
    res < m ∧ res * 2 ^ 256 % m = z % m := by
  have hb : t1 * m + m ≤ 2 ^ 256 * m := by rw [← Nat.succ_mul]; exact Nat.mul_le_mul_right m ht1
  split at hres
  · have hr : res = u - m := by omega
    exact ⟨by omega, modeq_of_add_mul _ _ (2 ^ 256) t1 m (by omega)⟩
  · split at hres
    · have hr : res = u - m := by omega
      exact ⟨by omega, modeq_of_add_mul _ _ (2 ^ 256) t1 m (by omega)⟩
    · have hr : res = u := by omega
      exact ⟨by omega, modeq_of_add_mul _ _ 0 t1 m (by omega)⟩

theorem montMul_correct (m mp neg a b : Nat) (hm : 0 < m ∧ m < 2 ^ 256) (hmp : (m * mp + 1) % 2 ^ 256 = 0)
    (hneg : neg = 2 ^ 256 - m) (hab : a * b < m * 2 ^ 256) :
    NatField.montMul m mp neg a b < m ∧ (NatField.montMul m mp neg a b * 2 ^ 256) % m = (a * b) % m := by
  obtain ⟨u, hu⟩ := mont_key (2 ^ 256) m mp (a * b) hmp
  subst hneg
  exact montMul_aux m (a * b) (a * b % 2 ^ 256 * mp % 2 ^ 256) u hm.1 hm.2 hab (Nat.mod_lt _ (by decide)) hu _ rfl

theorem mod_small (x m : Nat) (h : x < m) : x % m = x := Nat.mod_eq_of_lt h
theorem mod_once (x m : Nat) (h1 : m ≤ x) (h2 : x < 2 * m) : x % m = x - m := by
  rw [Nat.mod_eq_sub_mod h1, Nat.mod_eq_of_lt (by omega)]

theorem modAdd_correct (m neg a b : Nat) (hm : 0 < m ∧ m < 2 ^ 256) (hneg : neg = 2 ^ 256 - m) (ha : a < m)
    (hb : b < m) : NatField.modAdd m neg a b = (a + b) % m := by
  subst hneg
  show (if a + b ≥ 2 ^ 256 then (a + b - 2 ^ 256 + (2 ^ 256 - m)) % 2 ^ 256 else if a + b ≥ m then a + b - m else a + b) = _
  by_cases h1 : a + b ≥ 2 ^ 256
  · rw [if_pos h1, mod_once _ m (by omega) (by omega)]; omega
  · rw [if_neg h1]
    by_cases h2 : a + b ≥ m
    · rw [if_pos h2, mod_once _ m (by omega) (by omega)]
    · rw [if_neg h2, mod_small _ m (by omega)]

theorem modSub_correct (m neg a b : Nat) (hm : 0 < m ∧ m < 2 ^ 256) (hneg : neg = 2 ^ 256 - m) (ha : a < m)
    (hb : b < m) : NatField.modSub neg a b = (a + m - b) % m := by
  subst hneg
  show (if a < b then (a + 2 ^ 256 - b + 2 ^ 256 - (2 ^ 256 - m)) % 2 ^ 256 else a - b) = _
  by_cases h1 : a < b
  · rw [if_pos h1, mod_small _ m (by omega)]; omega
  · rw [if_neg h1, mod_once _ m (by omega) (by omega)]; omega

theorem modNeg_correct (m a : Nat) (hm : 0 < m ∧ m < 2 ^ 256) (ha : a < m) : NatField.modNeg m a = (m - a) % m := by
  show (if a = 0 then 0 else (m + 2 ^ 256 - a) % 2 ^ 256) = _
  by_cases h1 : a = 0
  · rw [if_pos h1]; subst a; rw [Nat.sub_zero, Nat.mod_self]
  · rw [if_neg h1, mod_small _ m (by omega)]; omega

theorem modDiv2_correct (m a : Nat) (hodd : m % 2 = 1) (ha : a < m) :
    NatField.modDiv2 m a < m ∧ (2 * NatField.modDiv2 m a) % m = a := by
  simp only [NatField.modDiv2]
  split
  · refine ⟨by omega, ?_⟩
    rw [show 2 * ((a + m) / 2) = a + m by omega, Nat.add_mod_right, mod_small _ m ha]
  · refine ⟨by omega, ?_⟩
    rw [show 2 * (a / 2) = a by omega, mod_small _ m ha]

theorem modAdd_noncanonical (m neg a b : Nat) (hm : 2 ^ 255 < m ∧ m < 2 ^ 256) (hneg : neg = 2 ^ 256 - m)
    (ha : a < 2 ^ 256) (hb : b < 2 ^ 256) :
    NatField.modAdd m neg a b
      = (if a + b ≥ 2 ^ 256 then (a + b - m) % 2 ^ 256 else if a + b ≥ m then a + b - m else a + b) := by
  subst hneg
  show (if a + b ≥ 2 ^ 256 then (a + b - 2 ^ 256 + (2 ^ 256 - m)) % 2 ^ 256 else if a + b ≥ m then a + b - m else a + b) = _
  by_cases h1 : a + b ≥ 2 ^ 256
  · rw [if_pos h1, if_pos h1]; congr 1; omega
  · rw [if_neg h1, if_neg h1]

/-- the three regimes for arbitrary 256-bit operands -/
theorem modAdd_noncanonical_cases (m neg a b : Nat) (hm : 2 ^ 255 < m ∧ m < 2 ^ 256) (hneg : neg = 2 ^ 256 - m)
    (ha : a < 2 ^ 256) (hb : b < 2 ^ 256) :
    (a + b < 2 * m → NatField.modAdd m neg a b = (a + b) % m)
    ∧ (2 * m ≤ a + b → a + b < 2 ^ 256 + m → NatField.modAdd m neg a b = a + b - m ∧ m ≤ NatField.modAdd m neg a b)
    ∧ (2 ^ 256 + m ≤ a + b → NatField.modAdd m neg a b = a + b - m - 2 ^ 256) := by
  rw [modAdd_noncanonical m neg a b hm hneg ha hb]
  refine ⟨fun h => ?_, fun h1 h2 => ?_, fun h => ?_⟩
  · by_cases h1 : a + b ≥ 2 ^ 256
    · rw [if_pos h1, mod_once _ m (by omega) h]; omega
    · rw [if_neg h1]
      by_cases h2 : a + b ≥ m
      · rw [if_pos h2, mod_once _ m h2 h]
      · rw [if_neg h2, mod_small _ m (by omega)]
  · rw [if_pos (by omega)]; omega
  · rw [if_pos (by omega)]; omega

/-! ### square-and-multiply -/

/-- value of a most-significant-first bit list -/
def bitsVal (bits : List Bool) (k : Nat) : Nat := bits.foldl (fun k b => 2 * k + b.toNat) k

theorem bitsVal_append (xs ys : List Bool) (k : Nat) : bitsVal (xs ++ ys) k = bitsVal ys (bitsVal xs k) :=
  List.foldl_append ..

theorem bitsN_succ (e n : Nat) :
    ((List.range (n + 1)).map fun i => decide (e / 2 ^ (n + 1 - 1 - i) % 2 = 1))
      = ((List.range n).map fun i => decide (e / 2 / 2 ^ (n - 1 - i) % 2 = 1)) ++ [decide (e % 2 = 1)] := by
  rw [List.range_succ, List.map_append]
  congr 1
  · apply List.map_congr_left
    intro i hi
    have hi := List.mem_range.mp hi
    rw [show n + 1 - 1 - i = (n - 1 - i) + 1 by omega, Nat.pow_succ', Nat.div_div_eq_div_mul]
  · simp

theorem bitsN_val (n e : Nat) :
    bitsVal ((List.range n).map fun i => decide (e / 2 ^ (n - 1 - i) % 2 = 1)) 0 = e % 2 ^ n := by
  induction n generalizing e with
  | zero => simp [bitsVal, Nat.mod_one]
  | succ n ih =>
    rw [bitsN_succ, bitsVal_append, ih (e / 2)]
    simp only [bitsVal, List.foldl_cons, List.foldl_nil]
    rw [Nat.pow_succ', Nat.mod_mul]
    by_cases h : e % 2 = 1
    · simp [h]; omega
    · simp [h]; omega

theorem bitsMSB_val (e : Nat) : bitsVal (NatField.bitsMSB e) 0 = e % 2 ^ 256 := bitsN_val 256 e

theorem mm {m a a' b b' : Nat} (h1 : a % m = a' % m) (h2 : b % m = b' % m) : a * b % m = a' * b' % m := by
  rw [Nat.mul_mod, h1, h2, ← Nat.mul_mod]

/-- loop invariant of `powLoop` for an abstract multiplication: `I` is preserved by `mul` and `φ` is multiplicative
(mod m) along `mul` on `I`; then `φ` of the accumulator is `φ a ^ k` where `k` is the value of the bits consumed -/
theorem powLoop_inv (mul : Nat → Nat → Nat) (I : Nat → Prop) (φ : Nat → Nat) (m a : Nat)
    (hI : ∀ x y, I x → I y → I (mul x y))
    (hφ : ∀ x y, I x → I y → φ (mul x y) = φ x * φ y % m) (ha : I a)
    (bits : List Bool) (r k : Nat) (hr : I r) (hk : φ r = φ a ^ k % m) :
    I (bits.foldl (fun r bit => let r := mul r r; if bit then mul r a else r) r) ∧
    φ (bits.foldl (fun r bit => let r := mul r r; if bit then mul r a else r) r) = φ a ^ bitsVal bits k % m := by
  induction bits generalizing r k with
  | nil => exact ⟨hr, hk⟩
  | cons bit bits ih =>
    rw [List.foldl_cons, bitsVal, List.foldl_cons, ← bitsVal]
    have hsq : φ (mul r r) = φ a ^ (2 * k) % m := by
      rw [hφ r r hr hr, hk, ← Nat.mul_mod, ← Nat.pow_add, Nat.two_mul]
    cases bit
    · exact ih (mul r r) (2 * k + 0) (hI r r hr hr) hsq
    · refine ih (mul (mul r r) a) (2 * k + 1) (hI _ _ (hI r r hr hr) ha) ?_
      rw [hφ _ _ (hI r r hr hr) ha, hsq, Nat.mod_mul_mod, Nat.pow_succ]

/-- abstract form (monoid-hom style): if `φ one = 1 % m` then `φ (powLoop mul one a e) = φ a ^ (e mod 2^256) % m` -/
theorem powLoop_hom (mul : Nat → Nat → Nat) (I : Nat → Prop) (φ : Nat → Nat) (m one a e : Nat)
    (hI : ∀ x y, I x → I y → I (mul x y))
    (hφ : ∀ x y, I x → I y → φ (mul x y) = φ x * φ y % m) (h1 : I one) (ha : I a) (hone : φ one = 1 % m) :
    I (NatField.powLoop mul one a e) ∧ φ (NatField.powLoop mul one a e) = φ a ^ (e % 2 ^ 256) % m := by
  have := powLoop_inv mul I φ m a hI hφ ha (NatField.bitsMSB e) one 0 h1 (by rw [hone, Nat.pow_zero])
  rwa [bitsMSB_val] at this

theorem powLoop_correct_aux (mul : Nat → Nat → Nat) (R m Rinv A e : Nat) (hm : 0 < m)
    (hR : R * Rinv % m = 1 % m)
    (hmul : ∀ x y, x < m → y < m → mul x y < m ∧ mul x y * R % m = x * y % m) :
    NatField.powLoop mul (R % m) (A * R % m) e = A ^ (e % 2 ^ 256) * R % m := by
  have hφ : ∀ x y, x < m → y < m → mul x y * Rinv % m = (x * Rinv % m) * (y * Rinv % m) % m := by
    intro x y hx hy
    have hM := (hmul x y hx hy).2
    have h0 : mul x y % m = mul x y * (R * Rinv) % m := by
      have := mm (rfl : mul x y % m = mul x y % m) hR
      rw [Nat.mul_one] at this; exact this.symm
    have e1 : mul x y * Rinv % m = mul x y * (R * Rinv) * Rinv % m := mm h0 rfl
    have e2 : mul x y * (R * Rinv) * Rinv = (mul x y * R) * (Rinv * Rinv) := by ac_rfl
    have e3 : (mul x y * R) * (Rinv * Rinv) % m = (x * y) * (Rinv * Rinv) % m := mm hM rfl
    have e4 : x * y * (Rinv * Rinv) = (x * Rinv) * (y * Rinv) := by ac_rfl
    rw [e1, e2, e3, e4, Nat.mul_mod]
  have hone : R % m * Rinv % m = 1 % m := by rw [Nat.mod_mul_mod]; exact hR
  have h := powLoop_hom mul (· < m) (fun x => x * Rinv % m) m (R % m) (A * R % m) e
    (fun x y hx hy => (hmul x y hx hy).1) hφ (Nat.mod_lt _ hm) (Nat.mod_lt _ hm) hone
  obtain ⟨hlt, hval⟩ := h
  generalize NatField.powLoop mul (R % m) (A * R % m) e = r at *
  have ha : A * R % m * Rinv % m = A % m := by
    rw [Nat.mod_mul_mod, Nat.mul_assoc]
    have := mm (rfl : A % m = A % m) hR
    rwa [Nat.mul_one] at this
  rw [ha, ← Nat.pow_mod] at hval
  have h1 : r % m = r * (Rinv * R) % m := by
    have := mm (rfl : r % m = r % m) (by rw [Nat.mul_comm]; exact hR : Rinv * R % m = 1 % m)
    rw [Nat.mul_one] at this; exact this.symm
  rw [← Nat.mod_eq_of_lt hlt, h1, ← Nat.mul_assoc]
  exact mm hval rfl

/-- Montgomery-domain square-and-multiply: for any `mul` that is a Montgomery product on operands < m
(`mul x y < m`, `mul x y · R ≡ x·y (mod m)`), with R = 2^256 invertible mod m (witness `Rinv`):
`powLoop mul (R mod m) (A·R mod m) e = A^(e mod 2^256) · R mod m`. -/
theorem powLoop_correct (mul : Nat → Nat → Nat) (m Rinv A e : Nat) (hm : 0 < m)
    (hR : 2 ^ 256 * Rinv % m = 1 % m)
    (hmul : ∀ x y, x < m → y < m → mul x y < m ∧ mul x y * 2 ^ 256 % m = x * y % m) :
    NatField.powLoop mul (2 ^ 256 % m) (A * 2 ^ 256 % m) e = A ^ (e % 2 ^ 256) * 2 ^ 256 % m :=
  powLoop_correct_aux mul (2 ^ 256) m Rinv A e hm hR hmul

/-! ### Montgomery domain: consequences of `montMul_correct` when R = 2^256 is invertible mod m (witness `Rinv`) -/

theorem R_cancel {m Rinv : Nat} (hR : 2 ^ 256 * Rinv % m = 1 % m) (x : Nat) : x * 2 ^ 256 * Rinv % m = x % m := by
  rw [Nat.mul_assoc]
  have := mm (rfl : x % m = x % m) hR
  rwa [Nat.mul_one] at this

/-- `montMul` is Montgomery reduction of the product: a·b·R⁻¹ mod m -/
theorem montMul_redc (m mp neg Rinv a b : Nat) (hm : 0 < m ∧ m < 2 ^ 256) (hmp : (m * mp + 1) % 2 ^ 256 = 0)
    (hneg : neg = 2 ^ 256 - m) (hR : 2 ^ 256 * Rinv % m = 1 % m) (hab : a * b < m * 2 ^ 256) :
    NatField.montMul m mp neg a b = a * b * Rinv % m := by
  obtain ⟨h1, h2⟩ := montMul_correct m mp neg a b hm hmp hneg hab
  generalize NatField.montMul m mp neg a b = r at *
  calc r = r % m := (Nat.mod_eq_of_lt h1).symm
    _ = r * 2 ^ 256 * Rinv % m := (R_cancel hR r).symm
    _ = a * b * Rinv % m := mm h2 rfl

/-- conversion into the Montgomery domain is exact for EVERY x < 2^256 (canonical or not) -/
theorem mont_to (m mp neg Rinv c2 x : Nat) (hm : 0 < m ∧ m < 2 ^ 256) (hmp : (m * mp + 1) % 2 ^ 256 = 0)
    (hneg : neg = 2 ^ 256 - m) (hR : 2 ^ 256 * Rinv % m = 1 % m) (hc2 : c2 = 2 ^ 256 * 2 ^ 256 % m)
    (hx : x < 2 ^ 256) : NatField.montMul m mp neg x c2 = x * 2 ^ 256 % m := by
  have hc : c2 < m := by rw [hc2]; exact Nat.mod_lt _ hm.1
  rw [montMul_redc m mp neg Rinv x c2 hm hmp hneg hR (by rw [Nat.mul_comm m]; exact Nat.mul_lt_mul'' hx hc), hc2]
  have e1 : x * (2 ^ 256 * 2 ^ 256 % m) * Rinv % m = x * (2 ^ 256 * 2 ^ 256) * Rinv % m :=
    mm (Nat.mul_mod_mod ..) rfl
  have e2 : x * ((2 : Nat) ^ 256 * 2 ^ 256) * Rinv = x * 2 ^ 256 * 2 ^ 256 * Rinv := by ac_rfl
  rw [e1, e2, R_cancel hR]

/-- conversion out of the Montgomery domain, for every x < 2^256 -/
theorem mont_from (m mp neg Rinv x : Nat) (hm : 0 < m ∧ m < 2 ^ 256) (hmp : (m * mp + 1) % 2 ^ 256 = 0)
    (hneg : neg = 2 ^ 256 - m) (hR : 2 ^ 256 * Rinv % m = 1 % m) (hx : x < 2 ^ 256) :
    NatField.montMul m mp neg x 1 = x * Rinv % m := by
  rw [montMul_redc m mp neg Rinv x 1 hm hmp hneg hR (by omega), Nat.mul_one]

/-- product of Montgomery representatives -/
theorem mont_mul_dom (m mp neg Rinv A B : Nat) (hm : 0 < m ∧ m < 2 ^ 256) (hmp : (m * mp + 1) % 2 ^ 256 = 0)
    (hneg : neg = 2 ^ 256 - m) (hR : 2 ^ 256 * Rinv % m = 1 % m) :
    NatField.montMul m mp neg (A * 2 ^ 256 % m) (B * 2 ^ 256 % m) = A * B * 2 ^ 256 % m := by
  have ha : A * 2 ^ 256 % m < m := Nat.mod_lt _ hm.1
  have hb : B * 2 ^ 256 % m < m := Nat.mod_lt _ hm.1
  rw [montMul_redc m mp neg Rinv _ _ hm hmp hneg hR
    (Nat.lt_trans (Nat.mul_lt_mul'' ha hb) (Nat.mul_lt_mul_of_pos_left hm.2 hm.1))]
  have e1 : A * 2 ^ 256 % m * (B * 2 ^ 256 % m) * Rinv % m = A * 2 ^ 256 * (B * 2 ^ 256) * Rinv % m :=
    mm (by rw [← Nat.mul_mod]) rfl
  have e2 : A * (2 : Nat) ^ 256 * (B * 2 ^ 256) * Rinv = A * B * 2 ^ 256 * 2 ^ 256 * Rinv := by ac_rfl
  rw [e1, e2, R_cancel hR]

theorem mont_from_dom (m mp neg Rinv A : Nat) (hm : 0 < m ∧ m < 2 ^ 256) (hmp : (m * mp + 1) % 2 ^ 256 = 0)
    (hneg : neg = 2 ^ 256 - m) (hR : 2 ^ 256 * Rinv % m = 1 % m) :
    NatField.montMul m mp neg (A * 2 ^ 256 % m) 1 = A % m := by
  have ha : A * 2 ^ 256 % m < m := Nat.mod_lt _ hm.1
  rw [mont_from m mp neg Rinv _ hm hmp hneg hR (by omega), Nat.mod_mul_mod, R_cancel hR]

/-- `fn_mul`-style plain modular multiplication through the Montgomery domain (to_mont both, multiply, from_mont) is
exact for ALL a b < 2^256 -/
theorem mont_plain_mul (m mp neg Rinv c2 a b : Nat) (hm : 0 < m ∧ m < 2 ^ 256) (hmp : (m * mp + 1) % 2 ^ 256 = 0)
    (hneg : neg = 2 ^ 256 - m) (hR : 2 ^ 256 * Rinv % m = 1 % m) (hc2 : c2 = 2 ^ 256 * 2 ^ 256 % m)
    (ha : a < 2 ^ 256) (hb : b < 2 ^ 256) :
    NatField.montMul m mp neg
      (NatField.montMul m mp neg (NatField.montMul m mp neg a c2) (NatField.montMul m mp neg b c2)) 1
      = a * b % m := by
  rw [mont_to m mp neg Rinv c2 a hm hmp hneg hR hc2 ha, mont_to m mp neg Rinv c2 b hm hmp hneg hR hc2 hb,
    mont_mul_dom m mp neg Rinv a b hm hmp hneg hR, mont_from_dom m mp neg Rinv (a * b) hm hmp hneg hR]

end GmVerif.Proofs.Limb
