/-
Generic (arbitrary field) identities behind the Jacobian point formulas of gm-sm2 (`Impl.SM2.Curve`):
the a = −3 doubling and the chord addition, written on coordinates (X, Y, Z) with x = X/Z², y = Y/Z³.
No GmVerif import: pure algebra, used by `Proofs.SM2Curve`.
-/
import Mathlib.Tactic.FieldSimp
import Mathlib.Tactic.Ring
import Mathlib.Tactic.LinearCombination

namespace GmVerif.Proofs.SM2CurveAlg

variable {K : Type*} [Field K]

/-! ### the formulas of the code (simplified form) -/

/-- `alpha_m3 = 3·(X − Z²)(X + Z²)` -/
def dblA (X Z : K) : K := 3 * ((X - Z ^ 2) * (X + Z ^ 2))
def dblX (X Y Z : K) : K := dblA X Z ^ 2 - 8 * (X * Y ^ 2)
def dblY (X Y Z : K) : K := dblA X Z * (4 * (X * Y ^ 2) - dblX X Y Z) - 8 * Y ^ 4
def dblZ (Y Z : K) : K := 2 * Y * Z

def addH (X1 Z1 X2 Z2 : K) : K := X2 * Z1 ^ 2 - X1 * Z2 ^ 2
def addR (Y1 Z1 Y2 Z2 : K) : K := Y2 * Z1 ^ 3 - Y1 * Z2 ^ 3
def addX (X1 Y1 Z1 X2 Y2 Z2 : K) : K :=
  addR Y1 Z1 Y2 Z2 ^ 2 - addH X1 Z1 X2 Z2 ^ 3 - 2 * (X1 * Z2 ^ 2 * addH X1 Z1 X2 Z2 ^ 2)
def addY (X1 Y1 Z1 X2 Y2 Z2 : K) : K :=
  addR Y1 Z1 Y2 Z2 * (X1 * Z2 ^ 2 * addH X1 Z1 X2 Z2 ^ 2 - addX X1 Y1 Z1 X2 Y2 Z2)
    - Y1 * Z2 ^ 3 * addH X1 Z1 X2 Z2 ^ 3
def addZ (X1 Z1 X2 Z2 : K) : K := Z1 * Z2 * addH X1 Z1 X2 Z2

/-! ### Jacobian ↔ affine curve equation -/

theorem jac_iff_aff (a b X Y Z : K) (hZ : Z ≠ 0) :
    Y ^ 2 = X ^ 3 + a * X * Z ^ 4 + b * Z ^ 6
      ↔ (Y / Z ^ 3) ^ 2 = (X / Z ^ 2) ^ 3 + a * (X / Z ^ 2) + b := by
  constructor
  · intro h
    field_simp
    linear_combination h
  · intro h
    field_simp at h
    linear_combination h

/-! ### doubling -/

/-- the doubled point satisfies the Jacobian curve equation (a = −3), no side condition -/
theorem dbl_onCurve (a b X Y Z : K) (ha : a = -3)
    (E : Y ^ 2 = X ^ 3 + a * X * Z ^ 4 + b * Z ^ 6) :
    dblY X Y Z ^ 2 = dblX X Y Z ^ 3 + a * dblX X Y Z * dblZ Y Z ^ 4 + b * dblZ Y Z ^ 6 := by
  subst ha
  simp only [dblY, dblX, dblZ, dblA]
  linear_combination (64 * Y ^ 6) * E

theorem dbl_x (a X Y Z : K) (ha : a = -3) (h2 : (2 : K) ≠ 0) (hZ : Z ≠ 0) (hY : Y ≠ 0) :
    dblX X Y Z / dblZ Y Z ^ 2
      = ((3 * (X / Z ^ 2) ^ 2 + a) / (2 * (Y / Z ^ 3))) ^ 2 - 2 * (X / Z ^ 2) := by
  subst ha
  simp only [dblX, dblZ, dblA]
  field_simp
  ring

theorem dbl_y (a X Y Z x3 : K) (ha : a = -3) (h2 : (2 : K) ≠ 0) (hZ : Z ≠ 0) (hY : Y ≠ 0)
    (hx3 : x3 = dblX X Y Z / dblZ Y Z ^ 2) :
    dblY X Y Z / dblZ Y Z ^ 3
      = ((3 * (X / Z ^ 2) ^ 2 + a) / (2 * (Y / Z ^ 3))) * (X / Z ^ 2 - x3) - Y / Z ^ 3 := by
  subst ha hx3
  simp only [dblY, dblX, dblZ, dblA]
  field_simp
  ring

/-! ### addition -/

/-- the chord sum satisfies the Jacobian curve equation, no side condition -/
theorem add_onCurve (a b X1 Y1 Z1 X2 Y2 Z2 : K)
    (E1 : Y1 ^ 2 = X1 ^ 3 + a * X1 * Z1 ^ 4 + b * Z1 ^ 6)
    (E2 : Y2 ^ 2 = X2 ^ 3 + a * X2 * Z2 ^ 4 + b * Z2 ^ 6) :
    addY X1 Y1 Z1 X2 Y2 Z2 ^ 2
      = addX X1 Y1 Z1 X2 Y2 Z2 ^ 3 + a * addX X1 Y1 Z1 X2 Y2 Z2 * addZ X1 Z1 X2 Z2 ^ 4
        + b * addZ X1 Z1 X2 Z2 ^ 6 := by
  simp only [addY, addX, addZ, addH, addR]
  linear_combination
    (-(Z2 ^ 6 * (X2 * Z1 ^ 2 - X1 * Z2 ^ 2) ^ 3
        * ((Y2 * Z1 ^ 3 - Y1 * Z2 ^ 3) ^ 2 - (X2 * Z1 ^ 2 - X1 * Z2 ^ 2) ^ 3
            - 2 * (X1 * Z2 ^ 2 * (X2 * Z1 ^ 2 - X1 * Z2 ^ 2) ^ 2)
            - X2 * Z1 ^ 2 * (X2 * Z1 ^ 2 - X1 * Z2 ^ 2) ^ 2))) * E1
    + (Z1 ^ 6 * (X2 * Z1 ^ 2 - X1 * Z2 ^ 2) ^ 3
        * ((Y2 * Z1 ^ 3 - Y1 * Z2 ^ 3) ^ 2 - (X2 * Z1 ^ 2 - X1 * Z2 ^ 2) ^ 3
            - 2 * (X1 * Z2 ^ 2 * (X2 * Z1 ^ 2 - X1 * Z2 ^ 2) ^ 2)
            - X1 * Z2 ^ 2 * (X2 * Z1 ^ 2 - X1 * Z2 ^ 2) ^ 2)) * E2

theorem add_x (X1 Y1 Z1 X2 Y2 Z2 : K) (hZ1 : Z1 ≠ 0) (hZ2 : Z2 ≠ 0)
    (hH : addH X1 Z1 X2 Z2 ≠ 0) :
    addX X1 Y1 Z1 X2 Y2 Z2 / addZ X1 Z1 X2 Z2 ^ 2
      = ((Y2 / Z2 ^ 3 - Y1 / Z1 ^ 3) / (X2 / Z2 ^ 2 - X1 / Z1 ^ 2)) ^ 2
          - X1 / Z1 ^ 2 - X2 / Z2 ^ 2 := by
  have hd : X2 / Z2 ^ 2 - X1 / Z1 ^ 2 = addH X1 Z1 X2 Z2 / (Z1 ^ 2 * Z2 ^ 2) := by
    simp only [addH]; field_simp
  rw [hd]
  simp only [addX, addZ, addR]
  have hX : X2 * Z1 ^ 2 - X1 * Z2 ^ 2 = addH X1 Z1 X2 Z2 := rfl
  generalize addH X1 Z1 X2 Z2 = H at *
  field_simp
  linear_combination (H ^ 2) * hX

theorem add_y (X1 Y1 Z1 X2 Y2 Z2 x3 : K) (hZ1 : Z1 ≠ 0) (hZ2 : Z2 ≠ 0)
    (hH : addH X1 Z1 X2 Z2 ≠ 0) (hx3 : x3 = addX X1 Y1 Z1 X2 Y2 Z2 / addZ X1 Z1 X2 Z2 ^ 2) :
    addY X1 Y1 Z1 X2 Y2 Z2 / addZ X1 Z1 X2 Z2 ^ 3
      = ((Y2 / Z2 ^ 3 - Y1 / Z1 ^ 3) / (X2 / Z2 ^ 2 - X1 / Z1 ^ 2)) * (X1 / Z1 ^ 2 - x3)
          - Y1 / Z1 ^ 3 := by
  have hd : X2 / Z2 ^ 2 - X1 / Z1 ^ 2 = addH X1 Z1 X2 Z2 / (Z1 ^ 2 * Z2 ^ 2) := by
    simp only [addH]; field_simp
  rw [hd, hx3]
  simp only [addY, addZ, addR]
  generalize addX X1 Y1 Z1 X2 Y2 Z2 = X3
  generalize addH X1 Z1 X2 Z2 = H at *
  field_simp

/-- `h = 0` ⇔ same affine x -/
theorem addH_eq_zero_iff (X1 Z1 X2 Z2 : K) (hZ1 : Z1 ≠ 0) (hZ2 : Z2 ≠ 0) :
    addH X1 Z1 X2 Z2 = 0 ↔ X1 / Z1 ^ 2 = X2 / Z2 ^ 2 := by
  simp only [addH]
  rw [div_eq_div_iff (pow_ne_zero 2 hZ1) (pow_ne_zero 2 hZ2), sub_eq_zero]
  exact eq_comm

/-- `r = 0` ⇔ same affine y -/
theorem addR_eq_zero_iff (Y1 Z1 Y2 Z2 : K) (hZ1 : Z1 ≠ 0) (hZ2 : Z2 ≠ 0) :
    addR Y1 Z1 Y2 Z2 = 0 ↔ Y1 / Z1 ^ 3 = Y2 / Z2 ^ 3 := by
  simp only [addR]
  rw [div_eq_div_iff (pow_ne_zero 3 hZ1) (pow_ne_zero 3 hZ2), sub_eq_zero]
  exact eq_comm

/-- two affine points of the curve with the same x have equal or opposite y -/
theorem aff_same_x (a b x y1 y2 : K) (E1 : y1 ^ 2 = x ^ 3 + a * x + b)
    (E2 : y2 ^ 2 = x ^ 3 + a * x + b) : y1 = y2 ∨ y1 + y2 = 0 := by
  have h : (y1 - y2) * (y1 + y2) = 0 := by linear_combination E1 - E2
  rcases mul_eq_zero.mp h with h | h
  · exact Or.inl (sub_eq_zero.mp h)
  · exact Or.inr h

theorem dblZ_eq_zero_iff (Y Z : K) (h2 : (2 : K) ≠ 0) (hZ : Z ≠ 0) : dblZ Y Z = 0 ↔ Y = 0 := by
  simp [dblZ, h2, hZ]

/-! ### the affine group law (the shape of `Spec.EC.add`) -/

def affAdd [DecidableEq K] (a x1 y1 x2 y2 : K) : Option (K × K) :=
  if x1 = x2 then
    if y1 + y2 = 0 then none
    else
      some (((3 * x1 ^ 2 + a) / (2 * y1)) ^ 2 - 2 * x1,
        ((3 * x1 ^ 2 + a) / (2 * y1)) * (x1 - (((3 * x1 ^ 2 + a) / (2 * y1)) ^ 2 - 2 * x1)) - y1)
  else
    some (((y2 - y1) / (x2 - x1)) ^ 2 - x1 - x2,
      ((y2 - y1) / (x2 - x1)) * (x1 - (((y2 - y1) / (x2 - x1)) ^ 2 - x1 - x2)) - y1)

end GmVerif.Proofs.SM2CurveAlg
