/-
The three "tower of fields" side conditions of the SM9 inversions, proved from the primality of p alone:
  * −2 is a non-square in Fp            (p ≡ 5 mod 8, second supplement to quadratic reciprocity),
  * u is a non-square in Fp2            (a square root of u would make 2 a square in Fp),
  * v is a non-cube in Fp4              (taking norms down the tower, a cube root of v would make 2 a cube in Fp, but
                                         2^((p−1)/3) ≠ 1 mod p — evaluated by the kernel through `Spec.EC.powMod`).
-/
import Mathlib.NumberTheory.LegendreSymbol.QuadraticReciprocity
import GmVerif.Proofs.Primes
import GmVerif.Proofs.SM9Tower
namespace GmVerif.Proofs.SM9Tower
open GmVerif
open GmVerif.Spec.SM9 (p)

theorem p_mod_eight : p % 8 = 5 := by decide
theorem p_ne_two : p ≠ 2 := by unfold Spec.SM9.p; omega

theorem neg_two_nonsquare (hp : Nat.Prime p) : ∀ x : K, x ^ 2 ≠ -2 := by
  have : Fact (Nat.Prime p) := ⟨hp⟩
  intro x hx
  have h := (ZMod.exists_sq_eq_neg_two_iff (p := p) p_ne_two).1 ⟨x, by rw [← hx]; ring⟩
  have := p_mod_eight
  omega

theorem two_nonsquare (hp : Nat.Prime p) : ∀ x : K, x * x ≠ 2 := by
  have : Fact (Nat.Prime p) := ⟨hp⟩
  intro x hx
  have h := (ZMod.exists_sq_eq_two_iff (p := p) p_ne_two).1 ⟨x, hx.symm⟩
  have := p_mod_eight
  omega

theorem u_nonsquare (hp : Nat.Prime p) : ∀ x : F2, x ^ 2 ≠ u := by
  intro x hx
  rw [pow_two] at hx
  have e0 := congrArg Quad.c0 hx
  have e1 := congrArg Quad.c1 hx
  simp only [Quad.mul_c0, Quad.mul_c1, Quad.root_c0, Quad.root_c1] at e0 e1
  apply two_nonsquare hp (2 * x.c0 ^ 2)
  linear_combination (2 * (2 * x.c0 * x.c1 + 1)) * e1 + 4 * x.c0 ^ 2 * e0

theorem two_pow_ne_one : Spec.EC.powMod 2 ((p - 1) / 3) p ≠ 1 := by decide +kernel
theorem p_sub_one : p - 1 = 3 * ((p - 1) / 3) := by decide

theorem two_noncube (hp : Nat.Prime p) : ∀ x : K, x ^ 3 ≠ 2 := by
  have : Fact (Nat.Prime p) := ⟨hp⟩
  intro x hx
  have hx0 : x ≠ 0 := by
    rintro rfl
    exact two_ne_zero' (by rw [← hx]; ring)
  have h1 : x ^ (p - 1) = 1 := ZMod.pow_card_sub_one_eq_one hx0
  rw [p_sub_one, pow_mul, hx] at h1
  have h2 := (Primes.zmod_pow_eq_one_iff p 2 ((p - 1) / 3) one_lt_p).1 (by exact_mod_cast h1)
  exact two_pow_ne_one h2

theorem v_noncube (hp : Nat.Prime p) : ∀ x : F4, x ^ 3 ≠ v := by
  intro x hx
  rw [pow_three'] at hx
  -- norm Fp4 → Fp2
  have h4 := congrArg Quad.norm hx
  rw [Quad.norm_mul, Quad.norm_mul] at h4
  have hv : (v : F4).norm = -u := by simp [Quad.norm]
  rw [hv] at h4
  -- norm Fp2 → Fp
  have h2 := congrArg Quad.norm h4
  rw [Quad.norm_mul, Quad.norm_mul] at h2
  have hu : (-u : F2).norm = 2 := by simp [Quad.norm]
  rw [hu] at h2
  exact two_noncube hp x.norm.norm (by rw [pow_three']; exact h2)

/-- p is prime (the Pratt certificate of `Proofs.Primes`) -/
theorem p_prime : Nat.Prime p := Primes.sm9_p_prime

/-- Fp12 (hence Fp2, Fp4) is a field -/
theorem hasInvF12 : HasInv F12 :=
  Cubic.hasInv (hasInvF4 p_prime (neg_two_nonsquare p_prime) (u_nonsquare p_prime)) (v_noncube p_prime)

end GmVerif.Proofs.SM9Tower
