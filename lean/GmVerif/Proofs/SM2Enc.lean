/-
C05 (link Impl → Spec): the KDF, encryption loop and decryption of the gm-sm2 model compute what GB/T 32918.4
(`Spec.SM2`) says, on top of the L3 results for `g_mul` / `scalar_mul`.
-/
import GmVerif.Proofs.SM2Protocol
import GmVerif.Proofs.SM2CurveTors

namespace GmVerif.Proofs.SM2Enc
open GmVerif
open GmVerif.Proofs.SM2Curve GmVerif.Proofs.SM2Scalar GmVerif.Proofs.SM2Protocol
open GmVerif.Impl.SM2 (Point fp_from_mont)
open GmVerif.Spec.SM2 (n p G curve)

/-! ### KDF -/

theorem kdfLoop_eq (z : List UInt8) : ∀ (m ct : ℕ) (acc : List UInt8),
    Impl.SM2.kdfLoop z ct m acc = (ct + m, acc ++ Spec.SM2.kdfBlocks z ct m)
  | 0, ct, acc => by simp [Impl.SM2.kdfLoop, Spec.SM2.kdfBlocks]
  | m + 1, ct, acc => by
    rw [Impl.SM2.kdfLoop, kdfLoop_eq z m (ct + 1)]
    refine Prod.ext (by dsimp only; omega) ?_
    dsimp only
    rw [sm3_eq, List.append_assoc]; rfl

theorem kdfBlocks_succ_last (z : List UInt8) : ∀ (m ct : ℕ),
    Spec.SM2.kdfBlocks z ct (m + 1) = Spec.SM2.kdfBlocks z ct m ++ Spec.SM2.hash (z ++ natBE 4 (ct + m))
  | 0, ct => by simp [Spec.SM2.kdfBlocks]
  | m + 1, ct => by
    rw [Spec.SM2.kdfBlocks, kdfBlocks_succ_last z m (ct + 1), Spec.SM2.kdfBlocks, List.append_assoc, Nat.add_assoc,
      Nat.add_comm 1 m]

theorem kdf_eq (z : List UInt8) (klen : ℕ) (h : 1 ≤ klen) : Impl.SM2.kdf z klen = Spec.SM2.kdf z klen := by
  unfold Impl.SM2.kdf Spec.SM2.kdf
  obtain ⟨m, hm⟩ : ∃ m, (klen + 31) / 32 = m + 1 := ⟨(klen + 31) / 32 - 1, by omega⟩
  dsimp only
  rw [hm, Nat.add_sub_cancel, kdfLoop_eq]
  dsimp only
  rw [List.nil_append, kdfBlocks_succ_last, sm3_eq, List.take_append, SM2Algebra.kdfBlocks_length]
  have hA : (Spec.SM2.kdfBlocks z 1 m).length ≤ klen := by rw [SM2Algebra.kdfBlocks_length]; omega
  rw [List.take_of_length_le hA]
  by_cases h0 : klen % 32 = 0
  · rw [if_pos h0, List.take_of_length_le (by rw [SM2Algebra.hash_length]; omega)]
  · rw [if_neg h0]
    have : klen - 32 * m = klen % 32 := by omega
    rw [this]
theorem length_pos_of_ne_nil {α : Type} {l : List α} (h : l ≠ []) : 1 ≤ l.length := by
  cases l with
  | nil => exact absurd rfl h
  | cons _ _ => simp

/-! ### common pieces -/

def toModel : Spec.SM2.Order → Impl.SM2.Model
  | .c1c2c3 => .c1c2c3
  | .c1c3c2 => .c1c3c2

theorem mont_one_ne_zero : Gen.SM2.MODP_MONT_ONE ≠ 0 := by decide

theorem z_ne_zero_of_toSpec {T : Point} {q : ℕ × ℕ} (h : toSpec T = some q) : T.z ≠ 0 := by
  intro h0
  rw [toSpec, if_pos h0] at h
  cases h

theorem is_zero_false_of_toSpec {T : Point} {q : ℕ × ℕ} (h : toSpec T = some q) : T.is_zero = false := by
  have := z_ne_zero_of_toSpec h
  simp [Impl.SM2.Point.is_zero, this]

theorem is_zero_true_of_toSpec {T : Point} (h : toSpec T = none) : T.is_zero = true := by
  by_cases h0 : T.z = 0
  · simp [Impl.SM2.Point.is_zero, h0]
  · rw [toSpec, if_neg h0] at h; cases h

theorem xor_bytes_eq (a b : List UInt8) (h : a.length = b.length) :
    Impl.SM2.xor_bytes a b = .ok (Spec.SM2.xorBytes a b) := by
  unfold Impl.SM2.xor_bytes Spec.SM2.xorBytes
  rw [if_neg (not_not.mpr h)]

/-- the affine conversion of a finite valid point, encoded -/
theorem affine_to_byte (T : Point) (hT : Valid T) (q : ℕ × ℕ) (h : toSpec T = some q) (c : Bool) :
    T.to_affine_point.to_byte_be c = Spec.SM2.encodePoint c (some q) := by
  obtain ⟨a1, a2, a3, _⟩ := to_affine_correct field_facts T hT (z_ne_zero_of_toSpec h)
  rw [to_byte_correct field_facts _ a1 (by rw [a2]; exact mont_one_ne_zero), a3, h]

/-! ### encryption -/

/-- one iteration of the encryption loop on an admissible candidate k for which the standard produces a ciphertext -/
theorem encLoop_step (pk : Point) (hP : Valid pk) (msg : List UInt8) (hm : msg ≠ []) (compressed : Bool)
    (order : Spec.SM2.Order) (fuel : ℕ) (kbytes : List UInt8) (rest : List (List UInt8)) (used : List ℕ)
    (hk : 1 ≤ beNat kbytes ∧ beNat kbytes < n) (ct : List UInt8)
    (h : Spec.SM2.encryptWith (toSpec pk) msg (beNat kbytes) compressed order = some ct) :
    Impl.SM2.encLoop pk msg compressed (toModel order) (fuel + 1) (kbytes :: rest) used
      = .ok ⟨ct, used ++ [beNat kbytes], rest⟩ := by
  have hn := n_lt
  rw [Impl.SM2.encLoop, random_u256_cons kbytes rest hk]
  dsimp only
  generalize beNat kbytes = k at hk h
  have hg := SM2Table.g_mul_good k (by omega)
  have hs1 := scalar_mul_good pk hP 1 (by decide)
  have hsk := scalar_mul_good pk hP k (by omega)
  have hs1' : toSpec (pk.scalar_mul 1) = toSpec pk := hs1.2.trans (SpecEC.mul_one _)
  unfold Spec.SM2.encryptWith at h
  cases hkG : Spec.EC.mul curve k G with
  | none => rw [hkG] at h; cases h
  | some c1 =>
    cases hkP : Spec.EC.mul curve k (toSpec pk) with
    | none => rw [hkG, hkP] at h; cases h
    | some q =>
      obtain ⟨x2, y2⟩ := q
      rw [hkG, hkP] at h
      dsimp only at h
      -- the public key is a finite point
      have hpk : ∃ q, toSpec pk = some q := by
        cases hq : toSpec pk with
        | none => rw [hq, SpecEC.mul_none hc] at hkP; cases hkP
        | some q => exact ⟨q, rfl⟩
      obtain ⟨qpk, hqpk⟩ := hpk
      rw [is_zero_false_of_toSpec (hs1'.trans hqpk)]
      rw [if_neg (by simp)]
      have hxy := affine_xy _ hsk.1
      rw [hsk.2, hkP] at hxy
      have hx2 : fp_from_mont (pk.scalar_mul k).to_affine_point.x = x2 := hxy.1
      have hy2 : fp_from_mont (pk.scalar_mul k).to_affine_point.y = y2 := hxy.2
      rw [hx2, hy2]
      rw [kdf_eq _ _ (length_pos_of_ne_nil hm)]
      have hc1 := affine_to_byte _ hg.1 c1 (hg.2.trans hkG) compressed
      rw [hc1, sm3_eq]
      change (if (Spec.SM2.kdf (Spec.SM2.bytes32 x2 ++ Spec.SM2.bytes32 y2) msg.length).all (· == 0) = true then _
        else _) = _
      by_cases ht : (Spec.SM2.kdf (Spec.SM2.bytes32 x2 ++ Spec.SM2.bytes32 y2) msg.length).all (· == 0) = true
      · rw [if_pos ht] at h; cases h
      · rw [if_neg ht] at h ⊢
        rw [xor_bytes_eq _ _ (SM2Algebra.kdf_length _ _).symm]
        dsimp only
        cases order <;> simp only [Option.some.injEq] at h <;> subst h <;> rfl

/-- when the standard restarts because t is all zero, the model takes the next candidate -/
theorem encLoop_retry (pk : Point) (hP : Valid pk) (msg : List UInt8) (hm : msg ≠ []) (compressed : Bool)
    (model : Impl.SM2.Model) (fuel : ℕ) (kbytes : List UInt8) (rest : List (List UInt8)) (used : List ℕ)
    (hk : 1 ≤ beNat kbytes ∧ beNat kbytes < n) (x2 y2 : ℕ)
    (hkP : Spec.EC.mul curve (beNat kbytes) (toSpec pk) = some (x2, y2))
    (ht : (Spec.SM2.kdf (Spec.SM2.bytes32 x2 ++ Spec.SM2.bytes32 y2) msg.length).all (· == 0) = true) :
    Impl.SM2.encLoop pk msg compressed model (fuel + 1) (kbytes :: rest) used
      = Impl.SM2.encLoop pk msg compressed model fuel rest (used ++ [beNat kbytes]) := by
  have hn := n_lt
  rw [Impl.SM2.encLoop, random_u256_cons kbytes rest hk]
  dsimp only
  generalize beNat kbytes = k at hk hkP
  have hs1 := scalar_mul_good pk hP 1 (by decide)
  have hsk := scalar_mul_good pk hP k (by omega)
  have hs1' : toSpec (pk.scalar_mul 1) = toSpec pk := hs1.2.trans (SpecEC.mul_one _)
  have hpk : ∃ q, toSpec pk = some q := by
    cases hq : toSpec pk with
    | none => rw [hq, SpecEC.mul_none hc] at hkP; cases hkP
    | some q => exact ⟨q, rfl⟩
  obtain ⟨qpk, hqpk⟩ := hpk
  rw [is_zero_false_of_toSpec (hs1'.trans hqpk)]
  rw [if_neg (by simp)]
  have hxy := affine_xy _ hsk.1
  rw [hsk.2, hkP] at hxy
  have hx2 : fp_from_mont (pk.scalar_mul k).to_affine_point.x = x2 := hxy.1
  have hy2 : fp_from_mont (pk.scalar_mul k).to_affine_point.y = y2 := hxy.2
  rw [hx2, hy2]
  rw [kdf_eq _ _ (length_pos_of_ne_nil hm)]
  change (if (Spec.SM2.kdf (Spec.SM2.bytes32 x2 ++ Spec.SM2.bytes32 y2) msg.length).all (· == 0) = true then _
    else _) = _
  rw [if_pos ht]

/-- `Sm2PublicKey::encrypt` with a first admissible candidate for which the standard produces a ciphertext -/
theorem encrypt_refines (pk : Point) (hP : Valid pk) (msg : List UInt8) (hm : msg ≠ []) (compressed : Bool)
    (order : Spec.SM2.Order) (kbytes : List UInt8) (rest : List (List UInt8))
    (hk : 1 ≤ beNat kbytes ∧ beNat kbytes < n) (ct : List UInt8)
    (h : Spec.SM2.encryptWith (toSpec pk) msg (beNat kbytes) compressed order = some ct) :
    Impl.SM2.encrypt pk msg compressed (toModel order) (kbytes :: rest) = .ok ⟨ct, [beNat kbytes], rest⟩ := by
  unfold Impl.SM2.encrypt
  rw [if_neg (by simpa using hm), List.length_cons,
    encLoop_step pk hP msg hm compressed order _ kbytes rest [] hk ct h]
  rfl


/-! ### decryption -/

/-- the part of `Spec.SM2.decrypt` after the slicing -/
def specCore (d : ℕ) (c1b c2 c3 : List UInt8) : Option (List UInt8) :=
  match Spec.SM2.decodePoint c1b with
  | none => none
  | some c1 =>
    match Spec.EC.mul curve d (some c1) with
    | none => none
    | some (x2, y2) =>
      let t := Spec.SM2.kdf (Spec.SM2.bytes32 x2 ++ Spec.SM2.bytes32 y2) c2.length
      if t.all (· == 0) then none
      else
        let m := Spec.SM2.xorBytes c2 t
        if Spec.SM2.hash (Spec.SM2.bytes32 x2 ++ m ++ Spec.SM2.bytes32 y2) = c3 then some m else none

/-- the part of `Impl.SM2.decrypt` after the slicing -/
def implCore (d : ℕ) (c1b c2 c3 : List UInt8) : Outcome (List UInt8) :=
  match Point.from_byte c1b with
  | .err e => .err e
  | .panic => .panic
  | .ok c1 =>
    if ¬ c1.to_affine_point.is_valid_affine_point then .err "CheckPointErr"
    else if (c1.scalar_mul 1).is_zero then .err "ZeroPoint"
    else
      let c2_point := (c1.scalar_mul d).to_affine_point
      let x2 := Impl.SM2.bytes32 (fp_from_mont c2_point.x)
      let y2 := Impl.SM2.bytes32 (fp_from_mont c2_point.y)
      let t := Impl.SM2.kdf (x2 ++ y2) c2.length
      if t.all (· == 0) then .err "ZeroData"
      else
        match Impl.SM2.xor_bytes c2 t with
        | .ok mb =>
          if Impl.SM2.sm3 (x2 ++ mb ++ y2) ≠ c3 then .err "HashNotEqual" else .ok mb
        | .err e => .err e
        | .panic => .panic

theorem spec_decrypt_eq (d : ℕ) (ct : List UInt8) (compressed : Bool) (order : Spec.SM2.Order) :
    Spec.SM2.decrypt d ct compressed order =
      if ct.length < (if compressed then 33 else 65) + 32 + 1 then none
      else specCore d (ct.take (if compressed then 33 else 65))
        (match order with
          | .c1c2c3 => (ct.drop (if compressed then 33 else 65)).take
              ((ct.drop (if compressed then 33 else 65)).length - 32)
          | .c1c3c2 => (ct.drop (if compressed then 33 else 65)).drop 32)
        (match order with
          | .c1c2c3 => (ct.drop (if compressed then 33 else 65)).drop
              ((ct.drop (if compressed then 33 else 65)).length - 32)
          | .c1c3c2 => (ct.drop (if compressed then 33 else 65)).take 32) := by
  unfold Spec.SM2.decrypt specCore
  cases order <;> rfl

theorem impl_decrypt_eq (d : ℕ) (ct : List UInt8) (compressed : Bool) (model : Impl.SM2.Model) :
    Impl.SM2.decrypt d ct compressed model =
      if ct.length < (if compressed then 33 else 65) + 32 + 1 then .err "InvalidFieldLen"
      else implCore d (ct.take (if compressed then 33 else 65))
        (match model with
          | .c1c2c3 => (ct.drop (if compressed then 33 else 65)).take (ct.length - 32 - (if compressed then 33 else 65))
          | .c1c3c2 => ct.drop ((if compressed then 33 else 65) + 32))
        (match model with
          | .c1c2c3 => ct.drop (ct.length - 32)
          | .c1c3c2 => (ct.drop (if compressed then 33 else 65)).take 32) := by
  unfold Impl.SM2.decrypt implCore
  rfl

/-- the two slicings agree -/
theorem slices_eq (ct : List UInt8) (l1 : ℕ) (h : ¬ ct.length < l1 + 32 + 1) :
    (ct.drop l1).take (ct.length - 32 - l1) = (ct.drop l1).take ((ct.drop l1).length - 32)
    ∧ ct.drop (ct.length - 32) = (ct.drop l1).drop ((ct.drop l1).length - 32)
    ∧ ct.drop (l1 + 32) = (ct.drop l1).drop 32
    ∧ 1 ≤ ((ct.drop l1).take ((ct.drop l1).length - 32)).length
    ∧ 1 ≤ ((ct.drop l1).drop 32).length := by
  refine ⟨?_, ?_, ?_, ?_, ?_⟩
  · rw [List.length_drop]; congr 1; omega
  · rw [List.drop_drop, List.length_drop]; congr 1; omega
  · rw [List.drop_drop]
  · rw [List.length_take, List.length_drop]; omega
  · rw [List.length_drop, List.length_drop]; omega

/-- a decoded C1: the model's point passes the two extra checks -/
theorem c1_checks (c1 : Point) (hv : Valid c1) (q : ℕ × ℕ) (hq : toSpec c1 = some q) :
    c1.to_affine_point.is_valid_affine_point = true ∧ (c1.scalar_mul 1).is_zero = false := by
  obtain ⟨a1, a2, _, _⟩ := to_affine_correct field_facts c1 hv (z_ne_zero_of_toSpec hq)
  refine ⟨(is_valid_affine_iff field_facts _ ⟨a1.1, a1.2.1, a1.2.2.1⟩ a2).mpr a1, ?_⟩
  have hs1 := scalar_mul_good c1 hv 1 (by decide)
  exact is_zero_false_of_toSpec ((hs1.2.trans (SpecEC.mul_one _)).trans hq)

/-- the model's core on a decodable C1 whose multiple [d]C1 is finite: exactly the standard's core -/
theorem core_some (d : ℕ) (hd : d < 2 ^ 256) (c1b c2 c3 : List UInt8) (hc2 : 1 ≤ c2.length) (c1 : ℕ × ℕ)
    (hdec : Spec.SM2.decodePoint c1b = some c1) (x2 y2 : ℕ) (hmul : Spec.EC.mul curve d (some c1) = some (x2, y2)) :
    implCore d c1b c2 c3 =
      if (Spec.SM2.kdf (Spec.SM2.bytes32 x2 ++ Spec.SM2.bytes32 y2) c2.length).all (· == 0) = true then .err "ZeroData"
      else if Spec.SM2.hash (Spec.SM2.bytes32 x2
          ++ Spec.SM2.xorBytes c2 (Spec.SM2.kdf (Spec.SM2.bytes32 x2 ++ Spec.SM2.bytes32 y2) c2.length)
          ++ Spec.SM2.bytes32 y2) ≠ c3 then .err "HashNotEqual"
      else .ok (Spec.SM2.xorBytes c2 (Spec.SM2.kdf (Spec.SM2.bytes32 x2 ++ Spec.SM2.bytes32 y2) c2.length)) := by
  obtain ⟨P, hfb, hv, hsp⟩ := (from_byte_correct_of field_facts SM2CurveTors.no_two_torsion c1b).1 c1.1 c1.2 hdec
  obtain ⟨k1, k2⟩ := c1_checks P hv _ hsp
  have hsd := scalar_mul_good P hv d hd
  have hxy := affine_xy _ hsd.1
  rw [hsd.2, hsp, hmul] at hxy
  have hx2 : fp_from_mont (P.scalar_mul d).to_affine_point.x = x2 := hxy.1
  have hy2 : fp_from_mont (P.scalar_mul d).to_affine_point.y = y2 := hxy.2
  unfold implCore
  rw [hfb]
  dsimp only
  rw [k1, k2, if_neg (by simp), if_neg (by simp), hx2, hy2, kdf_eq _ _ hc2]
  change (if (Spec.SM2.kdf (Spec.SM2.bytes32 x2 ++ Spec.SM2.bytes32 y2) c2.length).all (· == 0) = true then _
    else _) = _
  by_cases ht : (Spec.SM2.kdf (Spec.SM2.bytes32 x2 ++ Spec.SM2.bytes32 y2) c2.length).all (· == 0) = true
  · rw [if_pos ht, if_pos ht]
  · rw [if_neg ht, if_neg ht, xor_bytes_eq _ _ (SM2Algebra.kdf_length _ _).symm]
    dsimp only
    rw [sm3_eq]
    rfl

theorem core_refines (d : ℕ) (hd : d < 2 ^ 256) (c1b c2 c3 : List UInt8) (hc2 : 1 ≤ c2.length) (m : List UInt8)
    (h : specCore d c1b c2 c3 = some m) : implCore d c1b c2 c3 = .ok m := by
  unfold specCore at h
  cases hdec : Spec.SM2.decodePoint c1b with
  | none => rw [hdec] at h; cases h
  | some c1 =>
    rw [hdec] at h
    dsimp only at h
    cases hmul : Spec.EC.mul curve d (some c1) with
    | none => rw [hmul] at h; cases h
    | some q =>
      obtain ⟨x2, y2⟩ := q
      rw [hmul] at h
      dsimp only at h
      rw [core_some d hd c1b c2 c3 hc2 c1 hdec x2 y2 hmul]
      by_cases ht : (Spec.SM2.kdf (Spec.SM2.bytes32 x2 ++ Spec.SM2.bytes32 y2) c2.length).all (· == 0) = true
      · rw [if_pos ht] at h; cases h
      · rw [if_neg ht] at h ⊢
        by_cases hh : Spec.SM2.hash (Spec.SM2.bytes32 x2
            ++ Spec.SM2.xorBytes c2 (Spec.SM2.kdf (Spec.SM2.bytes32 x2 ++ Spec.SM2.bytes32 y2) c2.length)
            ++ Spec.SM2.bytes32 y2) = c3
        · rw [if_pos hh] at h
          rw [if_neg (not_not.mpr hh)]
          cases h; rfl
        · rw [if_neg hh] at h; cases h

/-- when the standard reports an error, so does the model — provided [d]C1 is not the point at infinity (the model then
reads (0, 0) off it and goes on; impossible for d in [1, n−1] on a curve of prime order n, which is not proved here) -/
theorem core_refines_none (d : ℕ) (hd : d < 2 ^ 256) (c1b c2 c3 : List UInt8) (hc2 : 1 ≤ c2.length)
    (h : specCore d c1b c2 c3 = none)
    (hfin : ∀ c1, Spec.SM2.decodePoint c1b = some c1 → Spec.EC.mul curve d (some c1) ≠ none) :
    ∃ e, implCore d c1b c2 c3 = .err e := by
  unfold specCore at h
  cases hdec : Spec.SM2.decodePoint c1b with
  | none =>
    obtain ⟨e, he⟩ := (from_byte_correct_of field_facts SM2CurveTors.no_two_torsion c1b).2 hdec
    exact ⟨e, by unfold implCore; rw [he]⟩
  | some c1 =>
    rw [hdec] at h
    dsimp only at h
    cases hmul : Spec.EC.mul curve d (some c1) with
    | none => exact absurd hmul (hfin c1 hdec)
    | some q =>
      obtain ⟨x2, y2⟩ := q
      rw [hmul] at h
      dsimp only at h
      rw [core_some d hd c1b c2 c3 hc2 c1 hdec x2 y2 hmul]
      by_cases ht : (Spec.SM2.kdf (Spec.SM2.bytes32 x2 ++ Spec.SM2.bytes32 y2) c2.length).all (· == 0) = true
      · rw [if_pos ht]; exact ⟨_, rfl⟩
      · rw [if_neg ht] at h ⊢
        by_cases hh : Spec.SM2.hash (Spec.SM2.bytes32 x2
            ++ Spec.SM2.xorBytes c2 (Spec.SM2.kdf (Spec.SM2.bytes32 x2 ++ Spec.SM2.bytes32 y2) c2.length)
            ++ Spec.SM2.bytes32 y2) = c3
        · rw [if_pos hh] at h; cases h
        · rw [if_pos hh]; exact ⟨_, rfl⟩

/-- decryption: whatever the standard's decryption returns, the model returns -/
theorem decrypt_refines (d : ℕ) (hd : d < 2 ^ 256) (ct : List UInt8) (compressed : Bool) (order : Spec.SM2.Order)
    (m : List UInt8) (h : Spec.SM2.decrypt d ct compressed order = some m) :
    Impl.SM2.decrypt d ct compressed (toModel order) = .ok m := by
  rw [spec_decrypt_eq] at h
  rw [impl_decrypt_eq]
  by_cases hl : ct.length < (if compressed then 33 else 65) + 32 + 1
  · rw [if_pos hl] at h; cases h
  · rw [if_neg hl] at h ⊢
    obtain ⟨s1, s2, s3, s4, s5⟩ := slices_eq ct _ hl
    cases order with
    | c1c2c3 =>
      dsimp only [toModel] at h ⊢
      rw [s1, s2]
      exact core_refines d hd _ _ _ s4 m h
    | c1c3c2 =>
      dsimp only [toModel] at h ⊢
      rw [s3]
      exact core_refines d hd _ _ _ s5 m h

/-- and errors are errors, away from the [d]C1 = O corner -/
theorem decrypt_refines_none (d : ℕ) (hd : d < 2 ^ 256) (ct : List UInt8) (compressed : Bool)
    (order : Spec.SM2.Order) (h : Spec.SM2.decrypt d ct compressed order = none)
    (hfin : ∀ c1, Spec.SM2.decodePoint (ct.take (if compressed then 33 else 65)) = some c1 →
      Spec.EC.mul curve d (some c1) ≠ none) :
    ∃ e, Impl.SM2.decrypt d ct compressed (toModel order) = .err e := by
  rw [spec_decrypt_eq] at h
  rw [impl_decrypt_eq]
  by_cases hl : ct.length < (if compressed then 33 else 65) + 32 + 1
  · rw [if_pos hl]; exact ⟨_, rfl⟩
  · rw [if_neg hl] at h ⊢
    obtain ⟨s1, s2, s3, s4, s5⟩ := slices_eq ct _ hl
    cases order with
    | c1c2c3 =>
      dsimp only [toModel] at h ⊢
      rw [s1, s2]
      exact core_refines_none d hd _ _ _ s4 h hfin
    | c1c3c2 =>
      dsimp only [toModel] at h ⊢
      rw [s3]
      exact core_refines_none d hd _ _ _ s5 h hfin

end GmVerif.Proofs.SM2Enc
