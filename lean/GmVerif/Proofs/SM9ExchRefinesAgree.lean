/-
C17b: an honest run of the key exchange on the model — both parties end with the same key, which is the standard's —
given `PairingRefines`, `TowerDense` and the bilinearity hypothesis `PairingFacts` of `Thm.SpecSM9.exch_agree`.
-/
import GmVerif.Proofs.SM9ExchRefines
import GmVerif.Proofs.SM9EncRefinesRound
set_option autoImplicit false
namespace GmVerif.Proofs.SM9ExchRefinesAgree
open GmVerif GmVerif.Impl.SM9
open GmVerif.Proofs.SM9Bridge (dense TowerDense PairingRefines InG2)
open GmVerif.Proofs.SM9G1 (Valid toSpec)
open GmVerif.Proofs.SM9G2Impl (toSpec2)
open GmVerif.Proofs.SM9EncRefinesBase GmVerif.Proofs.SM9ExchRefines
open GmVerif.Proofs.SM9EncRefinesRound (extracted_key_facts hfin_of_key)
open GmVerif.Proofs.SM9Algebra (PairingFacts)
open GmVerif.Spec.SM9 (curve N)

/-- the KDF of the model never returns more than 32·(2^32 − 1) bytes -/
theorem kdf_length_le_max (z : List UInt8) (klen : Nat) : (kdf z klen).length ≤ 32 * (2 ^ 32 - 1) := by
  rw [SM9Logic.kdf_length_gen]; split <;> omega

/-- a successful step 1b bounds klen -/
theorem klen_bound_of_1b (m : Sm9EncMasterKey) (ida idb : List UInt8) (key : Sm9EncKey) (ra : Point) (klen : Nat)
    (cands : List (List UInt8)) (rbp : Point) (sk : List UInt8) (used : List Nat) (rest : List (List UInt8))
    (hs : exch_step_1b m ida idb key ra klen cands = .ok ⟨(rbp, sk), used, rest⟩) : klen ≤ 32 * (2 ^ 32 - 1) := by
  obtain ⟨_, _, _, _, _, ⟨_, _, g2, g3, _, _, _, _, _, _, _, hsk, hl, _⟩, _⟩ :=
    SM9Logic.exch_1b_shape m ida idb key ra klen cands rbp sk used rest hs
  have := kdf_length_le_max (exch_kdf_input ida idb ra rbp (sm9_u256_pairing key.de ra) g2 g3) klen
  rw [← hsk] at this
  omega

theorem z_ne_zero_of_toSpec {P : Point} {xy : Nat × Nat} (h : toSpec P = some xy) : P.z ≠ 0 := by
  intro h0; simp only [toSpec, h0, if_true] at h; cases h

theorem ne_none_iff_some {α : Type} (o : Option α) : o ≠ none ↔ ∃ a, o = some a := by
  cases o <;> simp

/-- honest run.  B may receive ANY valid representation `raB` of R_A (e.g. the one parsed from R_A's octets) and A any
valid representation `rbA` of R_B: the keys depend on the represented points only. -/
theorem exch_agree (PR : PairingRefines) (TD : TowerDense) (F : PairingFacts) (ke : Nat) (hke : 1 ≤ ke ∧ ke < N)
    (ppube : Point) (hv : Valid ppube) (hpp : toSpec ppube = Spec.SM9.encMasterPub ke) (ida idb : List UInt8)
    (keyA keyB : Sm9EncKey)
    (hA : (⟨ke, ppube⟩ : Sm9EncMasterKey).extract_exch_key ida = .ok (some keyA))
    (hB : (⟨ke, ppube⟩ : Sm9EncMasterKey).extract_exch_key idb = .ok (some keyB))
    (klen : Nat) (hk : 1 ≤ klen)
    (candsA : List (List UInt8)) (RA : Point) (rA : Nat) (usedA : List Nat) (restA : List (List UInt8))
    (h1a : exch_step_1a ⟨ke, ppube⟩ idb candsA = .ok ⟨(RA, rA), usedA, restA⟩)
    (raB : Point) (hraB : Valid raB) (hraBs : toSpec raB = toSpec RA)
    (candsB : List (List UInt8)) (RB : Point) (SKB : List UInt8) (usedB : List Nat) (restB : List (List UInt8))
    (h1b : exch_step_1b ⟨ke, ppube⟩ ida idb keyB raB klen candsB = .ok ⟨(RB, SKB), usedB, restB⟩)
    (rbA : Point) (hrbA : Valid rbA) (hrbAs : toSpec rbA = toSpec RB) :
    exch_step_2a ⟨ke, ppube⟩ ida idb keyA rA RA rbA klen = .ok SKB
    ∧ toSpec RA = Spec.SM9.exchEphemeral (Spec.SM9.encMasterPub ke) idb rA
    ∧ ∃ rB, usedB.getLast? = some rB
      ∧ Spec.SM9.exchResponder (Spec.SM9.encMasterPub ke) (toSpec2 keyB.de) ida idb
          (Spec.SM9.exchEphemeral (Spec.SM9.encMasterPub ke) idb rA) rB klen = some (toSpec RB, SKB)
      ∧ Spec.SM9.exchInitiator (Spec.SM9.encMasterPub ke) (toSpec2 keyA.de) ida idb rA
          (Spec.SM9.exchEphemeral (Spec.SM9.encMasterPub ke) idb rA) (toSpec RB) klen = some SKB := by
  have hk2 := klen_bound_of_1b _ _ _ _ _ _ _ _ _ _ _ h1b
  rw [SM9G2Impl.extract_exch_key_eq, SM9G2Impl.hid_exch] at hA hB
  obtain ⟨hG2A, hdeA, hextA, _⟩ := extracted_key_facts ke hke.2 ppube ida _ keyA hA
  obtain ⟨hG2B, hdeB, hextB, _⟩ := extracted_key_facts ke hke.2 ppube idb _ keyB hB
  have hfinA := hfin_of_key ke ppube hpp ida _ hextA
  have hfinB := hfin_of_key ke ppube hpp idb _ hextB
  -- step 1a
  obtain ⟨hrA1, hrA2, _, _, _⟩ := SM9Logic.exch_1a_shape _ idb candsA RA rA usedA restA h1a
  have hrAN : rA < N := by rw [SM9Tower.n_minus_one_eq] at hrA2; omega
  have h1a' := exch_1a_refines ⟨ke, ppube⟩ hv idb candsA
  cases hfa : firstAccepted candsA with
  | none => rw [hfa] at h1a'; rw [h1a'] at h1a; cases h1a
  | some pr =>
    obtain ⟨r, rest⟩ := pr
    rw [hfa] at h1a'
    obtain ⟨R, hR, hRv, hRs, _⟩ := h1a'
    rw [hR] at h1a
    simp only [Outcome.ok.injEq, Rand.mk.injEq, Prod.mk.injEq] at h1a
    obtain ⟨⟨rfl, rfl⟩, _, _⟩ := h1a
    have hRs' : toSpec R = Spec.SM9.exchEphemeral (Spec.SM9.encMasterPub ke) idb r := by rw [hRs]; exact congrArg (fun P => Spec.SM9.exchEphemeral P idb r) hpp
    have hRfin : Spec.SM9.exchEphemeral (Spec.SM9.encMasterPub ke) idb r ≠ none := by
      rw [exchEphemeral_eq]
      exact SM9EncRefines.qb_finite ke idb _ hextB r ⟨hrA1, hrAN⟩
    obtain ⟨xyA, hxyA⟩ := (ne_none_iff_some _).1 hRfin
    have hRz : R.z ≠ 0 := z_ne_zero_of_toSpec (hRs'.trans hxyA)
    have hraBz : raB.z ≠ 0 := z_ne_zero_of_toSpec (hraBs.trans (hRs'.trans hxyA))
    -- step 1b
    have h1b' := exch_1b_refines PR TD ⟨ke, ppube⟩ hv keyB hG2B ida idb raB hraB hraBz klen hk hk2
      (fun r hr => by rw [exchEphemeral_eq]; exact hfinA r hr) candsB
    cases hsl : specRespLoop (toSpec ppube) (toSpec2 keyB.de) ida idb (toSpec raB) klen candsB [] with
    | none =>
      rw [hsl] at h1b'
      simp only [] at h1b'
      rw [h1b'] at h1b; cases h1b
    | some res =>
      rw [hsl] at h1b'
      obtain ⟨rbp, hrbp, hrbv, hrbz, hrbs, _⟩ := h1b'
      rw [hrbp] at h1b
      simp only [Outcome.ok.injEq, Rand.mk.injEq, Prod.mk.injEq] at h1b
      obtain ⟨⟨rfl, rfl⟩, rfl, _⟩ := h1b
      obtain ⟨rB, skp, hused, haccB, hresp, hnz, _, _⟩ := specRespLoop_some _ _ _ _ _ _ _ _ _ hsl
      have hrB := accept_range haccB
      rw [hraBs, hRs', hpp] at hresp
      have hval : res.val = (toSpec rbp, res.val.2) := by rw [hrbs]
      rw [hval] at hresp
      -- the specification's agreement
      have hagree := Thm.SpecSM9.exch_agree F ke hke ida idb (toSpec2 keyA.de) (toSpec2 keyB.de) hdeA hdeB r rB
        ⟨hrA1, hrAN⟩ ⟨hrB.1, by omega⟩ klen (toSpec rbp) res.val.2 hresp
      -- step 2a
      have hrbfin : ∃ xy, toSpec rbp = some xy := by unfold toSpec; rw [if_neg hrbz]; exact ⟨_, rfl⟩
      obtain ⟨xyB, hxyB⟩ := hrbfin
      have hrbAz : rbA.z ≠ 0 := z_ne_zero_of_toSpec (hrbAs.trans hxyB)
      have h2a := exch_2a_refines PR TD ⟨ke, ppube⟩ hv keyA hG2A ida idb r (by omega) R hRv hRz rbA
        ⟨hrbA.1, hrbA.2.1, hrbA.2.2.1, hrbAz⟩ klen hk hk2
      rw [hrbAs, hRs'] at h2a
      rw [hpp, hagree] at h2a
      simp only [hnz, Bool.false_eq_true, if_false] at h2a
      refine ⟨h2a, hRs', rB, ?_, hresp, hagree⟩
      rw [hused]; simp

/-! ### the points of a successful step are valid and finite (honest master key, identities with keys) -/

/-- a successful multiplication of Q = [H1(ID ‖ 02)]P1 + Ppub-e by a scalar in [1, N − 1] -/
theorem step_point_facts (ke : Nat) (ppube : Point) (hv : Valid ppube) (hpp : toSpec ppube = Spec.SM9.encMasterPub ke)
    (id : List UInt8) (hext : (Spec.SM9.H1 (id ++ [Spec.SM9.hidExch]) + ke) % N ≠ 0)
    (h : Nat) (q0 : Point) (r : Nat) (R : Point) (hh : sm9_u256_hash1 id Gen.SM9.HID_EXCH = .ok h)
    (hq : POINT_MONT_P1.point_mul h = .ok q0) (hr : 1 ≤ r ∧ r < N)
    (hR : (q0.point_add ppube).point_mul r = .ok R) :
    Valid R ∧ R.z ≠ 0 ∧ toSpec R = Spec.SM9.exchEphemeral (Spec.SM9.encMasterPub ke) id r := by
  obtain ⟨q0', h1, h2, h3, h4⟩ := q_point ppube hv id Gen.SM9.HID_EXCH
  rw [hh] at h1; cases h1
  rw [hq] at h2; cases h2
  rw [SM9G2Impl.hid_exch, hpp] at h4
  have hN : N < 2 ^ 256 := by decide
  obtain ⟨c1, e1, v1, s1, _⟩ := q_mul _ h3 r (by omega)
  rw [hR] at e1; cases e1
  rw [h4] at s1
  have hfin := SM9EncRefines.qb_finite ke id _ hext r hr
  obtain ⟨xy, hxy⟩ := (ne_none_iff_some _).1 hfin
  exact ⟨v1, z_ne_zero_of_toSpec (s1.trans hxy), s1⟩

theorem ra_facts (ke : Nat) (ppube : Point) (hv : Valid ppube) (hpp : toSpec ppube = Spec.SM9.encMasterPub ke)
    (idb : List UInt8) (hext : (Spec.SM9.H1 (idb ++ [Spec.SM9.hidExch]) + ke) % N ≠ 0)
    (cands : List (List UInt8)) (RA : Point) (rA : Nat) (used : List Nat) (rest : List (List UInt8))
    (h1a : exch_step_1a ⟨ke, ppube⟩ idb cands = .ok ⟨(RA, rA), used, rest⟩) :
    Valid RA ∧ RA.z ≠ 0 ∧ toSpec RA = Spec.SM9.exchEphemeral (Spec.SM9.encMasterPub ke) idb rA := by
  obtain ⟨h1, h2, _, _, h, q0, hh, hq, hR⟩ := SM9Logic.exch_1a_shape _ idb cands RA rA used rest h1a
  rw [SM9Tower.n_minus_one_eq] at h2
  exact step_point_facts ke ppube hv hpp idb hext h q0 rA RA hh hq ⟨h1, by omega⟩ hR

theorem rb_facts (ke : Nat) (ppube : Point) (hv : Valid ppube) (hpp : toSpec ppube = Spec.SM9.encMasterPub ke)
    (ida idb : List UInt8) (hext : (Spec.SM9.H1 (ida ++ [Spec.SM9.hidExch]) + ke) % N ≠ 0) (key : Sm9EncKey)
    (ra : Point) (klen : Nat) (cands : List (List UInt8)) (RB : Point) (sk : List UInt8) (used : List Nat)
    (rest : List (List UInt8))
    (h1b : exch_step_1b ⟨ke, ppube⟩ ida idb key ra klen cands = .ok ⟨(RB, sk), used, rest⟩) :
    Valid RB ∧ RB.z ≠ 0 := by
  obtain ⟨_, h, q0, hh, hq, ⟨_, rb, _, _, _, h1, h2, _, hR, _⟩, _⟩ :=
    SM9Logic.exch_1b_shape _ ida idb key ra klen cands RB sk used rest h1b
  rw [SM9Tower.n_minus_one_eq] at h2
  obtain ⟨a, b, _⟩ := step_point_facts ke ppube hv hpp ida hext h q0 rb RB hh hq ⟨h1, by omega⟩ hR
  exact ⟨a, b⟩

/-- an identity with an extracted exchange key has H1(ID ‖ 02) + ke ≢ 0 -/
theorem hext_of_exch_key (ke : Nat) (hke : ke < N) (ppube : Point) (id : List UInt8) (key : Sm9EncKey)
    (h : (⟨ke, ppube⟩ : Sm9EncMasterKey).extract_exch_key id = .ok (some key)) :
    (Spec.SM9.H1 (id ++ [Spec.SM9.hidExch]) + ke) % N ≠ 0 := by
  rw [SM9G2Impl.extract_exch_key_eq, SM9G2Impl.hid_exch] at h
  exact (extracted_key_facts ke hke ppube id _ key h).2.2.1

/-! ### over the wire: `to_bytes_be` then `from_bytes` -/

/-- parsing the octets of a valid finite point gives a valid representation of the same point -/
theorem from_bytes_to_bytes (R : Point) (hR : Valid R) (hz : R.z ≠ 0) :
    ∃ R', Point.from_bytes R.to_bytes_be = .ok R' ∧ Valid R' ∧ toSpec R' = toSpec R := by
  obtain ⟨xy, hxy⟩ : ∃ xy, toSpec R = some xy := by unfold toSpec; rw [if_neg hz]; exact ⟨_, rfl⟩
  obtain ⟨x, y⟩ := xy
  have hon := SM9G1.toSpec_onCurve R hR
  rw [hxy] at hon
  have hlt : x < Spec.SM9.p ∧ y < Spec.SM9.p := by
    simp only [Spec.EC.onCurve, Bool.and_eq_true, decide_eq_true_eq] at hon
    exact ⟨hon.1.1, hon.1.2⟩
  have hb : R.to_bytes_be = 4 :: (natBE 32 x ++ natBE 32 y) := by
    rw [(bytes_of_finite R hR hz).1, hxy]; rfl
  have hlen : R.to_bytes_be.length = 65 := SM9Logic.point_bytes_length R
  have htake : R.to_bytes_be.take 65 = R.to_bytes_be := List.take_of_length_le (by omega)
  have p256 : Spec.SM9.p < 256 ^ 32 := by decide
  have hX : SM9EncRefinesDec.c1X R.to_bytes_be = x := by
    unfold SM9EncRefinesDec.c1X
    rw [hb, List.drop_succ_cons, List.drop_zero, List.take_left' (SM9Logic.natBE_length 32 x),
      SM2Algebra.beNat_natBE, Nat.mod_eq_of_lt (by omega)]
  have hY : SM9EncRefinesDec.c1Y R.to_bytes_be = y := by
    unfold SM9EncRefinesDec.c1Y
    rw [hb, List.drop_succ_cons, List.drop_left' (SM9Logic.natBE_length 32 x),
      List.take_of_length_le (by rw [SM9Logic.natBE_length]), SM2Algebra.beNat_natBE,
      Nat.mod_eq_of_lt (by omega)]
  obtain ⟨h1, h2⟩ := SM9EncRefinesDec.fromBytes_facts R.to_bytes_be
  rw [htake, hX, hY, Nat.mod_eq_of_lt hlt.1, Nat.mod_eq_of_lt hlt.2] at h1 h2
  obtain ⟨hv, hs⟩ := h2 (h1.2 hon)
  exact ⟨_, SM9Logic.from_bytes_ok _ (by omega), hv, hs.trans hxy.symm⟩

end GmVerif.Proofs.SM9ExchRefinesAgree
