/-
The final exponentiation (C12b, part 2): on EVERY canonical tower element `final_exponent` raises to exactly
(p¹² − 1)/N = `Spec.SM9.finalExp`, in the abstract tower `F12` and in the specification's dense Fp12.

Route: `final_exponent` is the straight-line program `finalProg` (`Proofs.SM9Pairing.final_exponent_is_prog`).  A program
run on two operation tables related operation-by-operation gives related results (`finalProg_sim`).  Table 1: the model.
Table 2, for a non-zero element: the group interpretation `groupOps F12ˣ p` on the unit group of `F12` (every non-zero
element is a unit: `hasInvF12`), where the program is g ↦ g^finalExp (`finalProg_group`); the relation is
"`a` represents the unit g", preserved by `fp_mul`, `fp_sqr`, `pow_loop` (C13b), `fp_inv` (C13b, the three non-residue
conditions), and the four Frobenius maps (part 1).  For the zero element every operation returns zero (table 2 trivial).
-/
import GmVerif.Proofs.SM9FrobAll
set_option autoImplicit false
namespace GmVerif.Proofs.SM9FinalExp
open GmVerif GmVerif.Proofs.SM9Tower GmVerif.Proofs.SM9Bridge GmVerif.Proofs.SM9TowerDense GmVerif.Proofs.SM9FrobAll
open GmVerif.Proofs.SM9Pairing (Ops finalProg hardProg fp12Ops groupOps)
open GmVerif.Spec.SM9 (p finalExp)
open GmVerif.Proofs.SM9FpFacts (fp_facts)
open _root_.GmVerif.Impl.SM9 (Fp2 Fp4 Fp12)
open _root_.GmVerif.Impl.SM9.Fp12 (hard_a3 hard_nine hard_a2)

/-! ### a straight-line program on two related operation tables -/

theorem hardProg_sim {α β : Type} (R : α → β → Prop) (o1 : Ops α) (o2 : Ops β) (a3 nine a2 : Nat)
    (hmul : ∀ {a b g h}, R a g → R b h → R (o1.mul a b) (o2.mul g h))
    (hsqr : ∀ {a g}, R a g → R (o1.sqr a) (o2.sqr g))
    (hpow3 : ∀ {a g}, R a g → R (o1.pow a a3) (o2.pow g a3))
    (hpow9 : ∀ {a g}, R a g → R (o1.pow a nine) (o2.pow g nine))
    (hpow2 : ∀ {a g}, R a g → R (o1.pow a a2) (o2.pow g a2))
    (hinv : ∀ {a g}, R a g → R (o1.inv a) (o2.inv g))
    (hf1 : ∀ {a g}, R a g → R (o1.frob a) (o2.frob g))
    (hf2 : ∀ {a g}, R a g → R (o1.frob2 a) (o2.frob2 g))
    (hf3 : ∀ {a g}, R a g → R (o1.frob3 a) (o2.frob3 g))
    {a : α} {g : β} (X : R a g) : R (hardProg o1 a3 nine a2 a) (hardProg o2 a3 nine a2 g) := by
  have I0 := hinv (hpow3 X)
  have M1 := hmul I0 (hf1 I0)
  have M0 := hmul I0 M1
  have F2 := hf1 X
  have P3 := hpow9 (hmul F2 X)
  have M0' := hmul (hmul M0 P3) (hsqr (hsqr X))
  have M2 := hmul (hsqr F2) M1
  have P2 := hpow2 (hmul (hf2 X) M2)
  exact hmul (hf3 X) (hmul P2 M0')

theorem finalProg_sim {α β : Type} (R : α → β → Prop) (o1 : Ops α) (o2 : Ops β) (a3 nine a2 : Nat)
    (hmul : ∀ {a b g h}, R a g → R b h → R (o1.mul a b) (o2.mul g h))
    (hsqr : ∀ {a g}, R a g → R (o1.sqr a) (o2.sqr g))
    (hpow3 : ∀ {a g}, R a g → R (o1.pow a a3) (o2.pow g a3))
    (hpow9 : ∀ {a g}, R a g → R (o1.pow a nine) (o2.pow g nine))
    (hpow2 : ∀ {a g}, R a g → R (o1.pow a a2) (o2.pow g a2))
    (hinv : ∀ {a g}, R a g → R (o1.inv a) (o2.inv g))
    (hf1 : ∀ {a g}, R a g → R (o1.frob a) (o2.frob g))
    (hf2 : ∀ {a g}, R a g → R (o1.frob2 a) (o2.frob2 g))
    (hf3 : ∀ {a g}, R a g → R (o1.frob3 a) (o2.frob3 g))
    (hf6 : ∀ {a g}, R a g → R (o1.frob6 a) (o2.frob6 g))
    {a : α} {g : β} (X : R a g) : R (finalProg o1 a3 nine a2 a) (finalProg o2 a3 nine a2 g) := by
  have T0 := hmul (hf6 X) (hinv X)
  have T0' := hmul T0 (hf2 T0)
  exact hardProg_sim R o1 o2 a3 nine a2 hmul hsqr hpow3 hpow9 hpow2 hinv hf1 hf2 hf3 T0'

/-! ### the three chain constants fit the 256-bit loop -/

theorem consts_small : hard_a3 % 2 ^ 256 = hard_a3 ∧ hard_nine % 2 ^ 256 = hard_nine ∧ hard_a2 % 2 ^ 256 = hard_a2
    ∧ hard_a3 ≠ 0 ∧ hard_nine ≠ 0 ∧ hard_a2 ≠ 0 := by decide

/-! ### non-zero elements: the unit group of F12 -/

instance nontrivialF12 : Nontrivial F12 :=
  ⟨⟨0, 1, fun h => by
    have h1 : (0 : K) = 1 := congrArg (fun x : F12 => x.c0.c0.c0) h
    have : Fact (1 < p) := ⟨one_lt_p⟩
    exact zero_ne_one h1⟩⟩

/-- a non-zero element of F12 as a unit -/
noncomputable def unitOf (x : F12) (hx : x ≠ 0) : F12ˣ :=
  ⟨x, Classical.choose (hasInvF12 x hx), Classical.choose_spec (hasInvF12 x hx),
    by rw [mul_comm]; exact Classical.choose_spec (hasInvF12 x hx)⟩

theorem unitOf_val (x : F12) (hx : x ≠ 0) : (unitOf x hx : F12) = x := rfl

/-- "`a` represents the unit `g`" -/
def RepU (a : Fp12) (g : F12ˣ) : Prop := Ok12 a (g : F12)

theorem repU_final {a : Fp12} {g : F12ˣ} (h : RepU a g) :
    RepU (finalProg fp12Ops hard_a3 hard_nine hard_a2 a) (finalProg (groupOps F12ˣ p) hard_a3 hard_nine hard_a2 g) := by
  have F := fp_facts
  obtain ⟨e3, e9, e2, -, -, -⟩ := consts_small
  have hpow : ∀ (k : Nat), k % 2 ^ 256 = k → ∀ {a : Fp12} {g : F12ˣ}, RepU a g →
      RepU (fp12Ops.pow a k) ((groupOps F12ˣ p).pow g k) := by
    intro k hk a g h
    simp only [fp12Ops, groupOps]
    have := F.o12_pow_loop h k
    rw [hk] at this
    exact this.cast (Units.val_pow_eq_pow_val g k).symm
  refine finalProg_sim RepU fp12Ops (groupOps F12ˣ p) hard_a3 hard_nine hard_a2 ?_ ?_ (hpow hard_a3 e3) (hpow hard_nine e9)
    (hpow hard_a2 e2) ?_ ?_ ?_ ?_ ?_ h
  · intro a b g h ha hb
    exact (F.o12_mul ha hb).cast (Units.val_mul g h).symm
  · intro a g ha
    exact (F.o12_sqr ha).cast (Units.val_mul g g).symm
  · intro a g ha
    obtain ⟨y, hy, e⟩ := F.o12_inv (neg_two_nonsquare p_prime) (u_nonsquare p_prime) (v_noncube p_prime) ha g.ne_zero
    exact hy.cast (Units.inv_eq_of_mul_eq_one_right e).symm
  · intro a g ha
    exact (frob_pow ha).cast (Units.val_pow_eq_pow_val g p).symm
  · intro a g ha
    exact (frob2_pow ha).cast (Units.val_pow_eq_pow_val g (p ^ 2)).symm
  · intro a g ha
    exact (frob3_pow ha).cast (Units.val_pow_eq_pow_val g (p ^ 3)).symm
  · intro a g ha
    exact (frob6_pow ha).cast (Units.val_pow_eq_pow_val g (p ^ 6)).symm

theorem final_exponent_ok_ne {a : Fp12} {x : F12} (h : Ok12 a x) (hx : x ≠ 0) :
    Ok12 a.final_exponent (x ^ finalExp) := by
  have hr : RepU a (unitOf x hx) := h
  have := repU_final hr
  rw [← SM9Pairing.final_exponent_is_prog, SM9Pairing.finalProg_group] at this
  exact this.cast (Units.val_pow_eq_pow_val _ _)

/-! ### the zero element -/

theorem eq_zero_of_ok12 {a : Fp12} (h : Ok12 a 0) : a = Fp12.zero := by
  obtain ⟨⟨⟨h0, h1⟩, ⟨h2, h3⟩⟩, ⟨⟨h4, h5⟩, ⟨h6, h7⟩⟩, ⟨⟨h8, h9⟩, ⟨h10, h11⟩⟩⟩ := h
  obtain ⟨⟨⟨a0, a1⟩, ⟨a2, a3⟩⟩, ⟨⟨a4, a5⟩, ⟨a6, a7⟩⟩, ⟨⟨a8, a9⟩, ⟨a10, a11⟩⟩⟩ := a
  simp only at *
  rw [h0.eq_zero_iff.2 rfl, h1.eq_zero_iff.2 rfl, h2.eq_zero_iff.2 rfl, h3.eq_zero_iff.2 rfl, h4.eq_zero_iff.2 rfl,
    h5.eq_zero_iff.2 rfl, h6.eq_zero_iff.2 rfl, h7.eq_zero_iff.2 rfl, h8.eq_zero_iff.2 rfl, h9.eq_zero_iff.2 rfl,
    h10.eq_zero_iff.2 rfl, h11.eq_zero_iff.2 rfl]
  rfl

theorem inv_zero : Fp12.zero.fp_inv = Fp12.zero := by decide +kernel

/-- "`a` represents 0" (second table: the one-point structure) -/
def RepZ (a : Fp12) (_ : Unit) : Prop := Ok12 a 0

def unitOps : Ops Unit := ⟨fun _ _ => (), fun _ => (), fun _ _ => (), fun _ => (), fun _ => (), fun _ => (),
  fun _ => (), fun _ => ()⟩

theorem f12_pow_zero (e : K) : frobA e (0 : F12) = 0 := by
  ext <;> simp [frobA]

theorem repZ_final {a : Fp12} (h : Ok12 a 0) : Ok12 (finalProg fp12Ops hard_a3 hard_nine hard_a2 a) 0 := by
  have F := fp_facts
  obtain ⟨e3, e9, e2, n3, n9, n2⟩ := consts_small
  have hpow : ∀ (k : Nat), k % 2 ^ 256 = k → k ≠ 0 → ∀ {a : Fp12} {g : Unit}, RepZ a g →
      RepZ (fp12Ops.pow a k) (unitOps.pow g k) := by
    intro k hk hk0 a g h
    simp only [fp12Ops, unitOps]
    have := F.o12_pow_loop h k
    rw [hk] at this
    exact this.cast (zero_pow hk0)
  have key : RepZ (finalProg fp12Ops hard_a3 hard_nine hard_a2 a) (finalProg unitOps hard_a3 hard_nine hard_a2 ()) := by
    refine finalProg_sim RepZ fp12Ops unitOps hard_a3 hard_nine hard_a2 ?_ ?_ (hpow hard_a3 e3 n3) (hpow hard_nine e9 n9)
      (hpow hard_a2 e2 n2) ?_ ?_ ?_ ?_ ?_ h
    · intro a b g h ha hb
      exact (F.o12_mul ha hb).cast (mul_zero 0)
    · intro a g ha
      exact (F.o12_sqr ha).cast (mul_zero 0)
    · intro a g ha
      show Ok12 a.fp_inv 0
      rw [eq_zero_of_ok12 ha, inv_zero]; exact ok12_zero
    · intro a g ha
      exact (frob_ok ha).cast (f12_pow_zero _)
    · intro a g ha
      exact (frob2_ok ha).cast (f12_pow_zero _)
    · intro a g ha
      exact (frob3_ok ha).cast (f12_pow_zero _)
    · intro a g ha
      exact (frob6_ok ha).cast (f12_pow_zero _)
  exact key

theorem finalExp_ne_zero : finalExp ≠ 0 := by decide +kernel

/-! ### the theorem -/

/-- in the abstract tower, for EVERY element (zero included: 0 ↦ 0 = 0^finalExp) -/
theorem final_exponent_ok {a : Fp12} {x : F12} (h : Ok12 a x) : Ok12 a.final_exponent (x ^ finalExp) := by
  by_cases hx : x = 0
  · subst hx
    rw [zero_pow finalExp_ne_zero, SM9Pairing.final_exponent_is_prog]
    exact repZ_final h
  · exact final_exponent_ok_ne h hx

/-- in the specification's dense Fp12 -/
theorem final_exponent_correct (a : Fp12) (ha : Canon12 a) :
    Canon12 a.final_exponent ∧ dense a.final_exponent = Spec.SM9.Fp12.pow (dense a) finalExp :=
  dense_of_ok_pow ha (final_exponent_ok (ok12_dec ha))

/-- what happens at zero: `final_exponent` returns zero (there is no error path; `fp_inv 0 = 0`) -/
theorem final_exponent_zero : Fp12.zero.final_exponent = Fp12.zero := by
  have h := final_exponent_ok ok12_zero
  rw [zero_pow finalExp_ne_zero] at h
  exact eq_zero_of_ok12 h

/-- `dense a ≠ 0` is `dec12 a ≠ 0` -/
theorem dense_zero : dense Fp12.zero = Spec.SM9.Fp12.zero := by decide +kernel

theorem dense_ne_zero_iff (a : Fp12) (ha : Canon12 a) : dense a ≠ Spec.SM9.Fp12.zero ↔ dec12 a ≠ 0 := by
  rw [← dense_zero, not_iff_not]
  constructor
  · intro h
    rw [dense_inj _ _ ha ok12_zero.out.1 h]; exact ok12_zero.out.2
  · intro h
    rw [eq_zero_of_ok12 ((ok12_dec ha).cast h)]

end GmVerif.Proofs.SM9FinalExp
