/-
Reduction of the pairing hypothesis (C12b, part 3): `PairingRefines` ("the model's pairing routine computes the
specification's pairing") follows from `MillerRefines`, a statement about the value BEFORE the final exponentiation only:
the model's Miller value is canonical and equals the specification's Miller value up to a factor that the final
exponentiation kills.  `MillerRefines` is NOT proved (Miller functions / divisors: the model runs a signed-digit chain in
Jacobian coordinates with Fp2-scaled sparse lines, the specification the binary chain with affine lines).

Also: every non-zero element of the subfield Fp6 = {x | x^(p⁶) = x} is killed by the final exponentiation
(`subfield_killed`): (p¹²−1)/N = (p⁶−1)·(p²+1)·((p⁴−p²+1)/N).  For this the specification's Fp12 is shown to be a field
in the weak form "every non-zero element has an inverse", by transporting `hasInvF12` along the surjection `φ12`.
-/
import GmVerif.Proofs.SM9FinalExp
import GmVerif.Proofs.SM9SignRefines
set_option autoImplicit false
namespace GmVerif.Proofs.SM9PairingReduce
open GmVerif GmVerif.Proofs.SM9Tower GmVerif.Proofs.SM9Bridge GmVerif.Proofs.SM9TowerDense GmVerif.Proofs.SM9FrobAll
open GmVerif.Proofs.SM9FinalExp
open GmVerif.Spec.SM9 (p finalExp)
open GmVerif.Proofs.SM9Fp12 (ev f Canon)
open _root_.GmVerif.Impl.SM9 (Fp2 Fp4 Fp12 TwistPoint Point Pre abits sm9_u256_pairing sm9_u256_eval_g_tangent
  sm9_u256_eval_g_line sm9_u256_eval_g_line_no_pre)

/-! ### the value before the final exponentiation -/

/-- the value of `sm9_u256_pairing` before its last line `r.final_exponent()`: the body of the function after the
infinity guard (precomputation, signed-digit Miller loop over `abits`, the two Frobenius line steps), verbatim -/
def millerPart (q : TwistPoint) (p : Point) : Fp12 :=
  let t : TwistPoint := ⟨q.x, q.y, q.z⟩
  let p_affine := p.to_affine_point
  let q1 := q.point_neg
  let pre0 := q.y.fp_sqr
  let pre4 := q.x.fp_mul q.z
  let pre4 := pre4.fp_double
  let pre1 := q.z.fp_sqr
  let pre1 := q.z.fp_mul pre1
  let pre2 := pre1.fp_mul_fp p_affine.y
  let pre2 := pre2.fp_double
  let pre3 := pre1.fp_mul_fp p_affine.x
  let pre3 := pre3.fp_double
  let pre3 := pre3.fp_neg
  let pre : Pre := ⟨pre0, pre1, pre2, pre3, pre4⟩
  let (r, t) := abits.toList.foldl (fun (st : Fp12 × TwistPoint) ch =>
    let (r, t) := st
    let r := r.fp_sqr
    let (t, lw) := sm9_u256_eval_g_tangent t p_affine
    let r := r.fp_line_mul lw
    if ch = '1' then
      let (t, lw) := sm9_u256_eval_g_line pre t q p_affine
      (r.fp_line_mul lw, t)
    else if ch = '2' then
      let (t, lw) := sm9_u256_eval_g_line pre t q1 p_affine
      (r.fp_line_mul lw, t)
    else (r, t)) (Fp12.one, t)
  let q1 := q.point_pi1
  let q2 := q.point_neg_pi2
  let (t, lw) := sm9_u256_eval_g_line_no_pre t q1 p_affine
  let r := r.fp_line_mul lw
  let (_, lw) := sm9_u256_eval_g_line_no_pre t q2 p_affine
  let r := r.fp_line_mul lw
  r

/-- the pairing routine is: infinity guard, else `final_exponent` of `millerPart` (definitional) -/
theorem pairing_eq (q : TwistPoint) (p : Point) :
    sm9_u256_pairing q p = if q.z.is_zero || p.is_zero then Fp12.one else (millerPart q p).final_exponent := by
  unfold sm9_u256_pairing millerPart
  split
  · rfl
  · rfl

theorem pairing_off_infinity (q : TwistPoint) (p : Point) (hq : q.z.is_zero = false) (hp : p.z ≠ 0) :
    sm9_u256_pairing q p = (millerPart q p).final_exponent := by
  rw [pairing_eq, if_neg]
  simp [hq, Point.is_zero, Impl.SM9.fp_is_zero, hp]

/-! ### the specification's Fp12: distributivity of `pow`, unit law -/

theorem spec_mul_pow (a c : Spec.SM9.Fp12) (e : Nat) :
    Spec.SM9.Fp12.pow (Spec.SM9.Fp12.mul a c) e = Spec.SM9.Fp12.mul (Spec.SM9.Fp12.pow a e) (Spec.SM9.Fp12.pow c e) := by
  apply SM9Fp12.ev_injective (SM9Fp12.canon_pow _ _) (SM9Fp12.canon_mul _ _)
  rw [SM9Fp12.ev_pow, SM9Fp12.ev_mul, SM9Fp12.ev_mul, SM9Fp12.ev_pow, SM9Fp12.ev_pow, mul_pow]

theorem spec_one_mul (a : Spec.SM9.Fp12) (ha : Canon a) : Spec.SM9.Fp12.mul Spec.SM9.Fp12.one a = a := by
  rw [SM9Fp12.mul_comm]; exact SM9Fp12.mul_one a ha

theorem ev_zero : ev Spec.SM9.Fp12.zero = 0 := by
  rw [Spec.SM9.Fp12.zero, Spec.SM9.Fp12.ofNat, SM9Fp12.ev_reduce]; simp [ev]

theorem canon_zero : Canon Spec.SM9.Fp12.zero := SM9Fp12.canon_reduce _

/-! ### the specification's Fp12 is a field (weak form), via φ12 -/

theorem φ12_κ12 (c : K) : φ12 (κ12 c) = ι c := by
  simp [φ12, cubicLift_apply, φ4, quadLift_apply, φ2, κ12_apply]

theorem φ12_w : φ12 w = ω := by
  simp [φ12, cubicLift_apply, φ4, quadLift_apply, φ2]

theorem φ12_surjective : Function.Surjective φ12 := by
  intro x
  induction x using AdjoinRoot.induction_on with
  | ih g =>
    induction g using Polynomial.induction_on' with
    | add a b ha hb =>
      obtain ⟨ya, hya⟩ := ha
      obtain ⟨yb, hyb⟩ := hb
      exact ⟨ya + yb, by rw [map_add, map_add, hya, hyb]⟩
    | monomial n c =>
      refine ⟨κ12 c * w ^ n, ?_⟩
      rw [map_mul, map_pow, φ12_κ12, φ12_w, ← Polynomial.C_mul_X_pow_eq_monomial, map_mul, map_pow, AdjoinRoot.mk_C,
        AdjoinRoot.mk_X]
      rfl

/-- every non-zero element of Fp[w]/(w¹² + 2) has an inverse (so w¹² + 2 is irreducible over Fp) -/
theorem hasInv_adjoin : HasInv (AdjoinRoot f) := by
  intro x hx
  obtain ⟨y, rfl⟩ := φ12_surjective x
  have hy : y ≠ 0 := fun h => hx (by rw [h, map_zero])
  obtain ⟨y', hy'⟩ := hasInvF12 y hy
  exact ⟨φ12 y', by rw [← map_mul, hy', map_one]⟩

/-! ### the subfield Fp6 is killed -/

theorem finalExp_factor : finalExp = (p ^ 6 - 1) * ((p ^ 2 + 1) * ((p ^ 4 - p ^ 2 + 1) / Spec.SM9.N)) := by
  rw [← Nat.mul_assoc]; exact SM9Pairing.finalExp_facts.2.2

theorem p6_split : p ^ 6 = (p ^ 6 - 1) + 1 := by decide +kernel

/-- in a ring where non-zero elements are invertible: x^(q) = x, x ≠ 0 ⟹ x^(q−1) = 1 -/
theorem pow_pred_eq_one {R : Type} [CommRing R] (hR : HasInv R) (x : R) (q : Nat) (hfix : x ^ (q + 1) = x) (hx : x ≠ 0) :
    x ^ q = 1 := by
  obtain ⟨y, hy⟩ := hR x hx
  have h1 : x ^ q * x = x := by rw [← pow_succ]; exact hfix
  calc x ^ q = x ^ q * (x * y) := by rw [hy, mul_one]
    _ = (x ^ q * x) * y := by ring
    _ = 1 := by rw [h1, hy]

/-- every non-zero c of the subfield Fp6 = {x | x^(p⁶) = x} of the specification's Fp12 satisfies c^((p¹²−1)/N) = 1:
(p⁶ − 1) divides the exponent -/
theorem subfield_killed (c : Spec.SM9.Fp12) (hfix : Spec.SM9.Fp12.pow c (p ^ 6) = c) (hne : c ≠ Spec.SM9.Fp12.zero) :
    Spec.SM9.Fp12.pow c finalExp = Spec.SM9.Fp12.one := by
  have hc : Canon c := by rw [← hfix]; exact SM9Fp12.canon_pow _ _
  have hx : ev c ≠ 0 := fun h => hne (SM9Fp12.ev_injective hc canon_zero (by rw [h, ev_zero]))
  have hf : ev c ^ ((p ^ 6 - 1) + 1) = ev c := by
    rw [← p6_split, ← SM9Fp12.ev_pow, hfix]
  have h1 := pow_pred_eq_one hasInv_adjoin (ev c) _ hf hx
  apply SM9Fp12.ev_injective (SM9Fp12.canon_pow _ _) SM9Fp12.canon_one
  rw [SM9Fp12.ev_pow, SM9Fp12.ev_one, finalExp_factor, pow_mul, h1, one_pow]

/-- the same for a canonical tower element of the model fixed by its π⁶ (odd coefficients zero: an element of
Fp6 = Fp2[w²], in particular every Fp2 scalar): the specification's final power of what it denotes is 1, and the model's
`final_exponent` returns `one` -/
theorem fp6_killed (a : Fp12) (ha : Canon12 a) (hfix : a.fp12_frobenius6 = a) (hne : a ≠ Fp12.zero) :
    Spec.SM9.Fp12.pow (dense a) finalExp = Spec.SM9.Fp12.one ∧ a.final_exponent = Fp12.one := by
  have h6 := (frobenius6_correct a ha).2
  rw [hfix] at h6
  have hd : dense a ≠ Spec.SM9.Fp12.zero := by
    rw [← dense_zero]
    exact fun h => hne (dense_inj _ _ ha ok12_zero.out.1 h)
  have hk := subfield_killed (dense a) h6.symm hd
  refine ⟨hk, ?_⟩
  obtain ⟨hc, hv⟩ := final_exponent_correct a ha
  apply dense_inj _ _ hc ok12_one.out.1
  rw [hv, hk, dense_one]

/-! ### the reduction -/

/-- THE REMAINING HYPOTHESIS about the pairing: off the infinity guard, on G2 × (valid points), the value of the model
before the final exponentiation is a canonical tower element that denotes the specification's Miller value
`Spec.SM9.miller` (binary chain on 6t+2, affine lines, the two Frobenius steps) at the embedded / untwisted arguments, up
to a factor `c` that the final exponentiation kills. -/
structure MillerRefines : Prop where
  canon : ∀ Q P, InG2 Q → SM9G1.Valid P → Q.z.is_zero = false → P.z ≠ 0 → Canon12 (millerPart Q P)
  value : ∀ Q P, InG2 Q → SM9G1.Valid P → Q.z.is_zero = false → P.z ≠ 0 →
    ∀ P' Q', Spec.SM9.embed1 (SM9G1.toSpec P) = some P' → Spec.SM9.untwist (SM9G2Impl.toSpec2 Q) = some Q' →
      ∃ c, Spec.SM9.Fp12.pow c finalExp = Spec.SM9.Fp12.one ∧
        dense (millerPart Q P) = Spec.SM9.Fp12.mul c (Spec.SM9.miller P' (some Q'))

theorem spec_pairing_none_right (P : Spec.EC.Pt) : Spec.SM9.pairing P none = Spec.SM9.Fp12.one := by
  unfold Spec.SM9.pairing
  cases Spec.SM9.embed1 P <;> rfl

theorem toSpec_none_of_embed {P : Spec.EC.Pt} (h : Spec.SM9.embed1 P = none) : P = none := by
  cases P with
  | none => rfl
  | some xy => cases h

theorem toSpec2_none_of_untwist {Q : Spec.SM9.Pt2} (h : Spec.SM9.untwist Q = none) : Q = none := by
  cases Q with
  | none => rfl
  | some xy => cases h

/-- side conditions of `MillerRefines` are exactly "both arguments finite" -/
theorem finite_of_guard {Q : TwistPoint} {P : Point} (hQ : SM9G2Impl.Valid2 Q) (hq : Q.z.is_zero = false)
    (hp : P.z ≠ 0) : SM9G1.toSpec P ≠ none ∧ SM9G2Impl.toSpec2 Q ≠ none := by
  constructor
  · simp [SM9G1.toSpec, hp]
  · have hz : dec2 Q.z ≠ 0 := fun h => by
      have := (ok2_dec hQ.2.2.1).is_zero_iff.2 h
      rw [hq] at this; cases this
    have hL : SM9G2ImplField.decL Q.z ≠ 0 := by
      unfold SM9G2ImplField.decL
      exact fun h => hz ((map_eq_zero_iff _ SM9G2ImplField.φ.injective).1 h)
    simp [SM9G2Impl.toSpec2, hL]

/-- THE REDUCTION: the pairing hypothesis of C09/C10/C17 follows from the Miller-part hypothesis alone -/
theorem pairingRefines_of_miller (MR : MillerRefines) : PairingRefines := by
  have key : ∀ Q P, InG2 Q → SM9G1.Valid P →
      Canon12 (sm9_u256_pairing Q P) ∧
        dense (sm9_u256_pairing Q P) = Spec.SM9.pairing (SM9G1.toSpec P) (SM9G2Impl.toSpec2 Q) := by
    intro Q P hQ hP
    by_cases hp : P.z = 0
    · rw [SM9SignRefines.pairing_inf_left Q P hp]
      refine ⟨ok12_one.out.1, ?_⟩
      have : SM9G1.toSpec P = none := by simp [SM9G1.toSpec, hp]
      rw [this, SM9Algebra.pairing_none_left, dense_one]
    · cases hq : Q.z.is_zero with
      | true =>
        rw [SM9SignRefines.pairing_inf_right Q P hq]
        refine ⟨ok12_one.out.1, ?_⟩
        have hz : dec2 Q.z = 0 := (ok2_dec hQ.1.2.2.1).is_zero_iff.1 hq
        have : SM9G2Impl.toSpec2 Q = none := by
          simp [SM9G2Impl.toSpec2, SM9G2ImplField.decL, hz]
        rw [this, spec_pairing_none_right, dense_one]
      | false =>
        rw [pairing_off_infinity Q P hq hp]
        have hc := MR.canon Q P hQ hP hq hp
        obtain ⟨hfc, hfv⟩ := final_exponent_correct _ hc
        refine ⟨hfc, ?_⟩
        obtain ⟨hP', hQ'⟩ := finite_of_guard hQ.1 hq hp
        unfold Spec.SM9.pairing
        cases hPe : Spec.SM9.embed1 (SM9G1.toSpec P) with
        | none => exact absurd (toSpec_none_of_embed hPe) hP'
        | some P' =>
          cases hQe : Spec.SM9.untwist (SM9G2Impl.toSpec2 Q) with
          | none => exact absurd (toSpec2_none_of_untwist hQe) hQ'
          | some Q' =>
            obtain ⟨c, hck, hcv⟩ := MR.value Q P hQ hP hq hp P' Q' hPe hQe
            show dense (millerPart Q P).final_exponent = Spec.SM9.Fp12.pow (Spec.SM9.miller P' (some Q')) finalExp
            rw [hfv, hcv, spec_mul_pow, hck, spec_one_mul _ (SM9Fp12.canon_pow _ _)]
  exact ⟨fun Q P hQ hP => (key Q P hQ hP).1, fun Q P hQ hP => (key Q P hQ hP).2⟩

/-- under the side conditions of `MillerRefines` both arguments of the specification's `miller` exist -/
theorem miller_arguments_exist (Q : TwistPoint) (P : Point) (hQ : InG2 Q) (hq : Q.z.is_zero = false) (hp : P.z ≠ 0) :
    ∃ P' Q', Spec.SM9.embed1 (SM9G1.toSpec P) = some P' ∧ Spec.SM9.untwist (SM9G2Impl.toSpec2 Q) = some Q' := by
  obtain ⟨h1, h2⟩ := finite_of_guard hQ.1 hq hp
  cases hP : Spec.SM9.embed1 (SM9G1.toSpec P) with
  | none => exact absurd (toSpec_none_of_embed hP) h1
  | some P' =>
    cases hQe : Spec.SM9.untwist (SM9G2Impl.toSpec2 Q) with
    | none => exact absurd (toSpec2_none_of_untwist hQe) h2
    | some Q' => exact ⟨P', Q', rfl, rfl⟩

/-- w ≠ 0 in Fp[w]/(w¹² + 2) -/
theorem ω_ne_zero : ω ≠ 0 := by
  intro h
  have h12 := ω_pow_12
  rw [h, zero_pow (by decide)] at h12
  have h2 : ι (2 : K) = 0 := by rw [map_ofNat]; linear_combination h12
  exact two_ne_zero' ((map_eq_zero_iff _ (AdjoinRoot.of.injective_of_degree_ne_zero
    (by rw [SM9Fp12.f_degree]; decide))).1 h2)

/-! ### nothing is lost: `MillerRefines` is `PairingRefines` plus canonicity of the intermediate value -/

/-- canonical Montgomery representative of a field element -/
noncomputable def encK (t : K) : Nat := (t * (2 : K) ^ 256).val

theorem ok_encK (t : K) : Ok (encK t) t := by
  refine ⟨ZMod.val_lt _, ?_⟩
  rw [dec, encK, ZMod.natCast_zmod_val, mul_assoc, R_Rinv, mul_one]

attribute [irreducible] encK

/-- every element of the abstract tower is represented by a canonical tower element of the model -/
theorem exists_rep2 (t : F2) : ∃ a : Fp2, Ok2 a t := ⟨⟨encK t.c0, encK t.c1⟩, ok_encK t.c0, ok_encK t.c1⟩
theorem exists_rep4 (t : F4) : ∃ a : Fp4, Ok4 a t := by
  obtain ⟨a0, h0⟩ := exists_rep2 t.c0
  obtain ⟨a1, h1⟩ := exists_rep2 t.c1
  exact ⟨⟨a0, a1⟩, h0, h1⟩
theorem exists_rep12 (t : F12) : ∃ a : Fp12, Ok12 a t := by
  obtain ⟨a0, h0⟩ := exists_rep4 t.c0
  obtain ⟨a1, h1⟩ := exists_rep4 t.c1
  obtain ⟨a2, h2⟩ := exists_rep4 t.c2
  exact ⟨⟨a0, a1, a2⟩, h0, h1, h2⟩

/-- every class of Fp[w]/(w¹² + 2) has a canonical representative (a `dense` value) -/
theorem exists_canon (z : AdjoinRoot f) : ∃ c, Canon c ∧ ev c = z := by
  obtain ⟨t, rfl⟩ := φ12_surjective z
  obtain ⟨a, ha⟩ := exists_rep12 t
  exact ⟨dense a, dense_canon a, by rw [ev_dense a ha.out.1, ha.out.2]⟩

instance nontrivialAdjoin : Nontrivial (AdjoinRoot f) := ⟨⟨ω, 0, ω_ne_zero⟩⟩

/-- equal e-th powers differ by an e-th root of unity -/
theorem exists_factor (a M : Spec.SM9.Fp12) (ha : Canon a) (e : Nat) (he : e ≠ 0)
    (h : Spec.SM9.Fp12.pow a e = Spec.SM9.Fp12.pow M e) :
    ∃ c, Spec.SM9.Fp12.pow c e = Spec.SM9.Fp12.one ∧ a = Spec.SM9.Fp12.mul c M := by
  have hxy : ev a ^ e = ev M ^ e := by rw [← SM9Fp12.ev_pow, ← SM9Fp12.ev_pow, h]
  by_cases hy : ev M = 0
  · have hx : ev a = 0 := by
      by_contra hx
      obtain ⟨x', hx'⟩ := hasInv_adjoin _ hx
      have h1 : (ev a) ^ e * x' ^ e = 1 := by rw [← mul_pow, hx', one_pow]
      rw [hxy, hy, zero_pow he, zero_mul] at h1
      exact zero_ne_one h1
    refine ⟨Spec.SM9.Fp12.one, ?_, ?_⟩
    · apply SM9Fp12.ev_injective (SM9Fp12.canon_pow _ _) SM9Fp12.canon_one
      rw [SM9Fp12.ev_pow, SM9Fp12.ev_one, one_pow]
    · apply SM9Fp12.ev_injective ha (SM9Fp12.canon_mul _ _)
      rw [SM9Fp12.ev_mul, hx, hy, mul_zero]
  · obtain ⟨y', hy'⟩ := hasInv_adjoin _ hy
    obtain ⟨c, _, hcv⟩ := exists_canon (ev a * y')
    refine ⟨c, ?_, ?_⟩
    · apply SM9Fp12.ev_injective (SM9Fp12.canon_pow _ _) SM9Fp12.canon_one
      rw [SM9Fp12.ev_pow, SM9Fp12.ev_one, hcv, mul_pow, hxy, ← mul_pow, hy', one_pow]
    · apply SM9Fp12.ev_injective ha (SM9Fp12.canon_mul _ _)
      rw [SM9Fp12.ev_mul, hcv, mul_assoc, mul_comm y', hy', mul_one]

/-- the converse of `pairingRefines_of_miller`: given that the intermediate value is canonical, `PairingRefines` gives
back `MillerRefines` — the reduction loses nothing -/
theorem miller_of_pairingRefines (PR : PairingRefines)
    (hc : ∀ Q P, InG2 Q → SM9G1.Valid P → Q.z.is_zero = false → P.z ≠ 0 → Canon12 (millerPart Q P)) :
    MillerRefines := by
  refine ⟨hc, ?_⟩
  intro Q P hQ hP hq hp P' Q' hPe hQe
  have hm := hc Q P hQ hP hq hp
  have hv := PR.value Q P hQ hP
  rw [pairing_off_infinity Q P hq hp, (final_exponent_correct _ hm).2] at hv
  have hs : Spec.SM9.pairing (SM9G1.toSpec P) (SM9G2Impl.toSpec2 Q)
      = Spec.SM9.Fp12.pow (Spec.SM9.miller P' (some Q')) finalExp := by
    unfold Spec.SM9.pairing
    rw [hPe, hQe]
  rw [hs] at hv
  exact exists_factor _ _ (dense_canon _) _ finalExp_ne_zero hv

theorem millerRefines_iff :
    MillerRefines ↔ PairingRefines ∧
      ∀ Q P, InG2 Q → SM9G1.Valid P → Q.z.is_zero = false → P.z ≠ 0 → Canon12 (millerPart Q P) :=
  ⟨fun MR => ⟨pairingRefines_of_miller MR, MR.canon⟩, fun h => miller_of_pairingRefines h.1 h.2⟩

end GmVerif.Proofs.SM9PairingReduce
