/-
Shared material for the Rust-translation equivalence proofs (`Proofs.SrcSM3`, `Proofs.SrcSM3Chk`):
monad laws and the `MonadTail` instance of `Outcome` (which give Lean's `while` its one-step unfolding law),
loop-to-fold lemmas, and the pure array/list facts about the loops of gm-sm3.
Nothing here mentions a generated definition.
-/
import GmVerif.Common
import GmVerif.Impl.SM3
import GmVerif.Proofs.SM3

namespace GmVerif.Proofs.SrcCommon
open GmVerif Lean.Order
open GmVerif.Proofs.SM3 (stepA stepB stepC stepR fin hA)

instance : LawfulMonad Outcome := LawfulMonad.mk' Outcome
  (id_map := by intro _ x; cases x <;> rfl)
  (pure_bind := by intros; rfl)
  (bind_assoc := by intro _ _ _ x f g; cases x <;> rfl)

/-- flat order with `panic` as the (arbitrary) bottom element; only used to obtain the one-step
unfolding law of `while` loops (`Lean.Loop.forIn_eq_of_monadTail`). -/
instance : MonadTail Outcome where
  instCCPO β := inferInstanceAs (CCPO (FlatOrder (b := (Outcome.panic : Outcome β))))
  bind_mono_right {_ _ a f₁ f₂} _ h := by
    cases a with
    | ok a => exact h a
    | err k => exact FlatOrder.rel.refl
    | panic => exact FlatOrder.rel.refl

theorem ok_bind {α β} (a : α) (f : α → Outcome β) : (Outcome.ok a >>= f) = f a := rfl
theorem pure_eq {α} (a : α) : (pure a : Outcome α) = .ok a := rfl

theorem id_run_ite {α} (c : Prop) [Decidable c] (a b : Id α) :
    Id.run (if c then a else b) = if c then Id.run a else Id.run b := by
  split <;> rfl

/-- one-step unfolding of Lean's `while` / `repeat` in the `Outcome` monad -/
theorem while_unfold {β} (f : Unit → β → Outcome (ForInStep β)) (s : β) :
    forIn Lean.Loop.mk s f = (f () s >>= fun r => match r with
      | .done v => pure v | .yield v => forIn Lean.Loop.mk v f) :=
  Lean.Loop.forIn_eq_of_monadTail

/-- a `while` loop that runs through the states `S 0, S 1, …, S n` and then stops -/
theorem while_seq {β} (f : Unit → β → Outcome (ForInStep β)) (s0 : β) (S : Nat → β) (n : Nat)
    (h0 : s0 = S 0)
    (hstep : ∀ k, k < n → f () (S k) = .ok (.yield (S (k + 1))))
    (hdone : f () (S n) = .ok (.done (S n))) :
    forIn Lean.Loop.mk s0 f = .ok (S n) := by
  subst h0
  suffices h : ∀ d k, k + d = n → forIn Lean.Loop.mk (S k) f = .ok (S n) from h n 0 (by omega)
  intro d
  induction d with
  | zero =>
    intro k hk
    have : k = n := by omega
    subst this; rw [while_unfold, hdone]; rfl
  | succ d ih =>
    intro k hk
    rw [while_unfold, hstep k (by omega)]; exact ih (k + 1) (by omega)

theorem forIn_list_ok {β} (l : List Nat) (f : Nat → β → Outcome (ForInStep β)) (g : β → Nat → β)
    (inv : β → Prop) (s : β) (h0 : inv s)
    (hstep : ∀ i s, i ∈ l → inv s → f i s = .ok (.yield (g s i)) ∧ inv (g s i)) :
    forIn l s f = .ok (l.foldl g s) ∧ inv (l.foldl g s) := by
  induction l generalizing s with
  | nil => exact ⟨rfl, h0⟩
  | cons x l ih =>
    obtain ⟨h1, h2⟩ := hstep x s (by simp) h0
    rw [List.forIn_cons, h1, List.foldl_cons]
    exact ih (g s x) h2 (fun i s hi hs => hstep i s (by simp [hi]) hs)

/-- a `for i in a..b` loop whose body never panics (under the invariant) is a fold -/
theorem forIn_range_ok {β} (a b : Nat) (f : Nat → β → Outcome (ForInStep β)) (g : β → Nat → β)
    (inv : β → Prop) (s : β) (h0 : inv s)
    (hstep : ∀ i s, a ≤ i → i < b → inv s → f i s = .ok (.yield (g s i)) ∧ inv (g s i)) :
    forIn [a:b] s f = .ok ((List.range' a (b - a)).foldl g s) := by
  rw [Std.Legacy.Range.forIn_eq_forIn_range']
  have e : (List.range' (([a:b] : Std.Legacy.Range)).start (([a:b] : Std.Legacy.Range)).size (([a:b] : Std.Legacy.Range)).step)
      = List.range' a (b - a) := by
    simp [Std.Legacy.Range.size]
  rw [e]
  exact (forIn_list_ok _ f g inv s h0 (fun i s hi hs => by
    rw [List.mem_range'_1] at hi
    exact hstep i s hi.1 (by omega) hs)).1

theorem foldl_size {α} (step : Array α → Nat → Array α) (hstep : ∀ w j, (step w j).size = w.size)
    (l : List Nat) (w : Array α) : (l.foldl step w).size = w.size := by
  induction l generalizing w with
  | nil => rfl
  | cons x l ih => rw [List.foldl_cons, ih, hstep]

theorem stepA_size (b : Array UInt8) (w : Array UInt32) (j : Nat) : (stepA b w j).size = w.size := by
  simp [stepA]
theorem stepB_size (w : Array UInt32) (j : Nat) : (stepB w j).size = w.size := by
  simp [stepB]
theorem stepC_size (w w1 : Array UInt32) (j : Nat) : (stepC w w1 j).size = w1.size := by
  simp [stepC]

theorem range_succ_foldl {β} (g : β → Nat → β) (s : β) (k : Nat) :
    (List.range (k + 1)).foldl g s = g ((List.range k).foldl g s) k := by
  rw [List.range_succ, List.foldl_append]; rfl

theorem range'_succ_foldl {β} (g : β → Nat → β) (s : β) (a k : Nat) :
    (List.range' a (k + 1)).foldl g s = g ((List.range' a k).foldl g s) (a + k) := by
  rw [List.range'_concat, List.foldl_append]; simp

theorem ofNat_toNat_small (i : Nat) (h : i < 64) : (UInt32.ofNat i).toNat = i := by
  rw [UInt32.toNat_ofNat']; omega

/-- filling `b[i - a] = g i` for `i` in `a .. a+n` overwrites the next `n` cells -/
theorem fill_loop {α} (g : Nat → α) (a : Nat) : ∀ n (L R : List α), R.length = n →
    (List.range' (a + L.length) n).foldl (fun s i => s.set! (i - a) (g i)) (L ++ R).toArray
      = (L ++ (List.range' (a + L.length) n).map g).toArray := by
  intro n
  induction n with
  | zero =>
    intro L R hR
    have : R = [] := List.length_eq_zero_iff.mp hR
    simp [this]
  | succ n ih =>
    intro L R hR
    obtain ⟨x, R', rfl⟩ := List.exists_cons_of_length_eq_add_one hR
    rw [List.range'_succ, List.foldl_cons, Nat.add_sub_cancel_left, Proofs.SM3.set_fill]
    have := ih (L ++ [g (a + L.length)]) R' (by simpa using hR)
    simp only [List.length_append, List.length_cons, List.length_nil, List.append_assoc,
      List.cons_append, List.nil_append, Nat.zero_add, ← Nat.add_assoc] at this
    rw [this]
    simp

theorem copy_block (p : List UInt8) (a n : Nat) (bi : Array UInt8) (hbi : bi.size = n)
    (ha : a + n ≤ p.length) :
    (List.range' a n).foldl (fun s i => s.set! (i - a) p.toArray[i]!) bi
      = ((p.drop a).take n).toArray := by
  obtain ⟨R⟩ := bi
  have h := fill_loop (fun i => p.toArray[i]!) a n [] R (by simpa using hbi)
  simp only [List.length_nil, Nat.add_zero, List.nil_append] at h
  rw [h]
  congr 1
  apply List.ext_getElem
  · simp; omega
  · intro i h1 h2
    simp only [List.length_map, List.length_range'] at h1
    simp [List.getElem_take, List.getElem_drop]
    rw [List.getElem?_eq_getElem (by omega)]; rfl

theorem fin_size (v : Array UInt32) (s : Proofs.SM3.St) : (Proofs.SM3.fin v s).size = 8 := by
  obtain ⟨a, b, c, d, e, f, g, h⟩ := s
  rfl

theorem impl_cf_size (v : Array UInt32) (b : Array UInt8) : (Impl.SM3.cf v b).size = 8 := by
  rw [Proofs.SM3.cf_eq]; exact fin_size _ _

/-- the `while count_group * 64 != len` loop, for any loop body `F` that behaves like the translated one -/
theorem blockLoop_src (p : List UInt8)
    (F : Unit → (Array UInt8 × Nat × Array UInt32) → Outcome (ForInStep (Array UInt8 × Nat × Array UInt32)))
    (hp : p.length % 64 = 0)
    (hstep : ∀ bi cg v, bi.size = 64 → v.size = 8 → cg * 64 + 64 ≤ p.length →
      F () (bi, cg, v) = .ok (.yield (((p.drop (cg * 64)).take 64).toArray, cg + 1,
        Impl.SM3.cf v ((p.drop (cg * 64)).take 64).toArray)))
    (hdone : ∀ bi cg v, cg * 64 = p.length → F () (bi, cg, v) = .ok (.done (bi, cg, v))) :
    ∀ cg bi v, bi.size = 64 → v.size = 8 → cg * 64 ≤ p.length →
      ∃ bi' cg' v', forIn Lean.Loop.mk (bi, cg, v) F = .ok (bi', cg', v') ∧
        Impl.SM3.blockLoop p cg v = .ok v' ∧ v'.size = 8 := by
  intro cg
  generalize hn : p.length - cg * 64 = n
  induction n using Nat.strongRecOn generalizing cg with
  | _ n ih =>
    intro bi v hbi hv hcg
    rw [while_unfold, Impl.SM3.blockLoop]
    by_cases h : cg * 64 = p.length
    · rw [hdone bi cg v h, if_pos h]
      exact ⟨bi, cg, v, rfl, rfl, hv⟩
    · have h64 : cg * 64 + 64 ≤ p.length := by omega
      rw [hstep bi cg v hbi hv h64, if_neg h, dif_pos h64]
      exact ih (p.length - (cg + 1) * 64) (by omega) (cg + 1) rfl _ _ (by simp; omega)
        (impl_cf_size _ _) (by omega)

theorem outcome_map_ok {α β} (f : α → β) (a : α) : Outcome.map f (.ok a) = .ok (f a) := rfl

end GmVerif.Proofs.SrcCommon
