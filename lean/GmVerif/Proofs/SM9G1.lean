/-
C13 (point layer, G1): the Jacobian / Montgomery-domain point formulas of the gm-sm9 model (`Impl.SM9.Point`) compute the
group law of the specification (`Spec.EC`, `Spec.SM9.curve` : y² = x³ + 5), for ALL representations.
The facts about the Nat-level field functions (and primality of p) are the bundle `FieldFacts`, PROVED here
(`fp_facts`) from `Proofs.SM9Field` / `Proofs.Primes`.  Pure algebra (arbitrary field) is in `Proofs.SM9G1Alg`
(and `Proofs.SM2CurveAlg`).  Mirror of `Proofs.SM2Curve`.
-/
import GmVerif.Proofs.SM9G1Alg
import GmVerif.Proofs.SM9Field
import GmVerif.Impl.SM9.Points
import GmVerif.Spec.SM9

namespace GmVerif.Proofs.SM9G1
open GmVerif
open GmVerif.Impl.SM9 (Point fp_mul fp_sqr fp_add fp_sub fp_double fp_triple fp_neg fp_div2 fp_inv fp_to_mont
  fp_from_mont fp_is_zero u256_cmp)
open GmVerif.Proofs.SM2CurveAlg GmVerif.Proofs.SM9G1Alg

/-- the facts about the Nat-level field functions of `Impl.SM9` used by the point proofs
(canonical Montgomery representative of a field element: value v is stored as v·R mod p, R = 2^256) -/
structure FieldFacts : Prop where
  prime : Nat.Prime Spec.SM9.p
  mul : ∀ a b, a < Spec.SM9.p → b < Spec.SM9.p →
    Impl.SM9.fp_mul a b < Spec.SM9.p ∧ (Impl.SM9.fp_mul a b * 2^256) % Spec.SM9.p = (a * b) % Spec.SM9.p
  add : ∀ a b, a < Spec.SM9.p → b < Spec.SM9.p → Impl.SM9.fp_add a b = (a + b) % Spec.SM9.p
  sub : ∀ a b, a < Spec.SM9.p → b < Spec.SM9.p → Impl.SM9.fp_sub a b = (a + Spec.SM9.p - b) % Spec.SM9.p
  neg : ∀ a, a < Spec.SM9.p → Impl.SM9.fp_neg a = (Spec.SM9.p - a) % Spec.SM9.p
  div2 : ∀ a, a < Spec.SM9.p → Impl.SM9.fp_div2 a < Spec.SM9.p ∧ (2 * Impl.SM9.fp_div2 a) % Spec.SM9.p = a
  inv : ∀ A, A % Spec.SM9.p ≠ 0 → ∃ I, I < Spec.SM9.p ∧ A * I % Spec.SM9.p = 1
    ∧ Impl.SM9.fp_inv (A * 2 ^ 256 % Spec.SM9.p) = I * 2 ^ 256 % Spec.SM9.p
  inv0 : Impl.SM9.fp_inv 0 = 0
  toMont : ∀ a, a < 2^256 → Impl.SM9.fp_to_mont a = (a * 2^256) % Spec.SM9.p
  fromMont : ∀ a, a < Spec.SM9.p →
    Impl.SM9.fp_from_mont a < Spec.SM9.p ∧ (Impl.SM9.fp_from_mont a * 2^256) % Spec.SM9.p = a
  consts : Gen.SM9.P = Spec.SM9.p ∧ Gen.SM9.MODP_MONT_ONE = 2^256 % Spec.SM9.p
    ∧ Gen.SM9.MODP_MONT_FIVE = (Spec.SM9.b * 2^256) % Spec.SM9.p

theorem p_prime : Nat.Prime Spec.SM9.p := Proofs.Primes.sm9_p_prime

/-- the bundle holds (no hypothesis left) -/
theorem fp_facts : FieldFacts where
  prime := p_prime
  mul := fun a b ha hb => by rw [← SM9Field.P_eq] at *; exact SM9Field.fp_mul_correct a b ha hb
  add := fun a b ha hb => by rw [← SM9Field.P_eq] at *; exact SM9Field.fp_add_correct a b ha hb
  sub := fun a b ha hb => by rw [← SM9Field.P_eq] at *; exact SM9Field.fp_sub_correct a b ha hb
  neg := fun a ha => by rw [← SM9Field.P_eq] at *; exact SM9Field.fp_neg_correct a ha
  div2 := fun a ha => by rw [← SM9Field.P_eq] at *; exact SM9Field.fp_div2_correct a ha
  inv := fun A hA => by rw [← SM9Field.P_eq] at *; exact SM9Field.fp_inv_correct A hA
  inv0 := SM9Field.fp_inv_zero
  toMont := fun a ha => by rw [← SM9Field.P_eq]; exact SM9Field.fp_to_mont_correct a ha
  fromMont := fun a ha => by
    rw [← SM9Field.P_eq] at *
    have h := SM9Field.fp_from_mont_correct a (by have := SM9Field.P_range; omega)
    rw [Nat.mod_eq_of_lt ha] at h
    exact h
  consts := ⟨SM9Field.P_eq, by rw [← SM9Field.P_eq]; exact SM9Field.mont_one,
    by rw [← SM9Field.P_eq]; exact SM9Field.mont_five⟩

/-- the base field -/
abbrev Fp : Type := ZMod Spec.SM9.p

instance factP : Fact (Nat.Prime Spec.SM9.p) := ⟨p_prime⟩
instance factCurveP : Fact (Nat.Prime Spec.SM9.curve.p) := ⟨p_prime⟩

/-- decoding of a Montgomery representative -/
def dec (x : Nat) : Fp := (x : Fp) * ((2 : Fp) ^ 256)⁻¹

/-- canonical Montgomery representative of a field element -/
def enc (v : Fp) : Nat := (v * (2 : Fp) ^ 256).val

/-- the curve coefficients in the field -/
def ca : Fp := (Spec.SM9.curve.a : Fp)
def cb : Fp := (Spec.SM9.b : Fp)

/-- canonical coordinates and, when z ≠ 0, the Jacobian curve equation Y² = X³ + 5·Z⁶ on the decoded values -/
def Valid (P : Point) : Prop :=
  P.x < Spec.SM9.p ∧ P.y < Spec.SM9.p ∧ P.z < Spec.SM9.p ∧
    (P.z ≠ 0 → dec P.y ^ 2 = dec P.x ^ 3 + cb * dec P.z ^ 6)

def toSpec (P : Point) : Spec.EC.Pt :=
  if P.z = 0 then none
  else some (ZMod.val (dec P.x * (dec P.z ^ 2)⁻¹), ZMod.val (dec P.y * (dec P.z ^ 3)⁻¹))

theorem p_gt_two : 2 < Spec.SM9.p := by decide
theorem p_lt : Spec.SM9.p < 2 ^ 256 := by decide
theorem p_pos : 0 < Spec.SM9.p := by decide
theorem mod_p_lt (n : ℕ) : n % Spec.SM9.p < Spec.SM9.p := Nat.mod_lt _ p_pos

theorem cast_mul_R (x : ℕ) : ((x * 2 ^ 256 : ℕ) : Fp) = (x : Fp) * (2 : Fp) ^ 256 := by
  rw [Nat.cast_mul, Nat.cast_pow, Nat.cast_ofNat]

theorem cast_R : ((2 ^ 256 : ℕ) : Fp) = (2 : Fp) ^ 256 := by
  rw [Nat.cast_pow, Nat.cast_ofNat]

theorem two_ne_zero' : (2 : Fp) ≠ 0 := by
  intro h
  have h2 : ((2 : ℕ) : Fp) = 0 := by exact_mod_cast h
  rw [ZMod.natCast_eq_zero_iff] at h2
  have := Nat.le_of_dvd (by decide) h2
  have := p_gt_two
  omega

theorem R_ne_zero : ((2 : Fp) ^ 256) ≠ 0 := pow_ne_zero _ two_ne_zero'

theorem ca_eq : ca = 0 := by simp [ca, Spec.SM9.curve]

theorem cb_eq : cb = 5 := by simp [cb, Spec.SM9.b]

theorem dec_enc (v : Fp) : dec (enc v) = v := by
  unfold dec enc
  rw [ZMod.natCast_zmod_val, mul_inv_cancel_right₀ R_ne_zero]

theorem enc_lt (v : Fp) : enc v < Spec.SM9.p := ZMod.val_lt _

theorem natCast_enc (v : Fp) : ((enc v : ℕ) : Fp) = v * (2 : Fp) ^ 256 := ZMod.natCast_zmod_val _

theorem enc_dec (a : ℕ) (h : a < Spec.SM9.p) : enc (dec a) = a := by
  unfold dec enc
  rw [inv_mul_cancel_right₀ R_ne_zero, ZMod.val_cast_of_lt h]

theorem enc_injective : Function.Injective enc := fun u v h => by
  rw [← dec_enc u, ← dec_enc v, h]

theorem enc_zero : enc 0 = 0 := by simp [enc]

theorem enc_eq_zero_iff (v : Fp) : enc v = 0 ↔ v = 0 :=
  ⟨fun h => enc_injective (h.trans enc_zero.symm), fun h => h ▸ enc_zero⟩

/-- a canonical natural number is `enc v` as soon as its cast is `v·R` -/
theorem eq_enc_of_cast {m : ℕ} {v : Fp} (hm : m < Spec.SM9.p) (h : (m : Fp) = v * (2 : Fp) ^ 256) :
    m = enc v := by
  unfold enc; rw [← h, ZMod.val_cast_of_lt hm]

theorem dec_zero : dec 0 = 0 := by simp [dec]

theorem dec_eq_zero_iff (a : ℕ) (h : a < Spec.SM9.p) : dec a = 0 ↔ a = 0 := by
  constructor
  · intro h0
    have := enc_dec a h
    rw [h0, enc_zero] at this
    exact this.symm
  · intro h0; rw [h0, dec_zero]

/-- `enc` of the cast of a natural number -/
theorem enc_natCast (A : ℕ) : enc (A : Fp) = A * 2 ^ 256 % Spec.SM9.p := by
  symm
  apply eq_enc_of_cast (mod_p_lt _)
  rw [ZMod.natCast_mod, cast_mul_R]

/-! ### the field functions on `enc` -/

theorem fp_mul_enc (u v : Fp) : fp_mul (enc u) (enc v) = enc (u * v) := by
  obtain ⟨hlt, hm⟩ := fp_facts.mul _ _ (enc_lt u) (enc_lt v)
  apply eq_enc_of_cast hlt
  have h := congrArg (Nat.cast : ℕ → Fp) hm
  rw [ZMod.natCast_mod, ZMod.natCast_mod, cast_mul_R, Nat.cast_mul, natCast_enc, natCast_enc] at h
  have h2 : (fp_mul (enc u) (enc v) : Fp) * (2 : Fp) ^ 256 = (u * v * (2 : Fp) ^ 256) * (2 : Fp) ^ 256 := by
    rw [h]; ring
  exact mul_right_cancel₀ R_ne_zero h2

theorem fp_add_enc (u v : Fp) : fp_add (enc u) (enc v) = enc (u + v) := by
  have hlt : fp_add (enc u) (enc v) < Spec.SM9.p := by
    rw [fp_facts.add _ _ (enc_lt u) (enc_lt v)]; exact mod_p_lt _
  apply eq_enc_of_cast hlt
  rw [fp_facts.add _ _ (enc_lt u) (enc_lt v), ZMod.natCast_mod]
  push_cast
  rw [natCast_enc, natCast_enc]; ring

theorem fp_sub_enc (u v : Fp) : fp_sub (enc u) (enc v) = enc (u - v) := by
  have hlt : fp_sub (enc u) (enc v) < Spec.SM9.p := by
    rw [fp_facts.sub _ _ (enc_lt u) (enc_lt v)]; exact mod_p_lt _
  apply eq_enc_of_cast hlt
  rw [fp_facts.sub _ _ (enc_lt u) (enc_lt v), ZMod.natCast_mod]
  have hle : enc v ≤ enc u + Spec.SM9.p := by have := enc_lt v; omega
  rw [Nat.cast_sub hle]
  push_cast
  rw [natCast_enc, natCast_enc, ZMod.natCast_self]; ring

theorem fp_neg_enc (v : Fp) : fp_neg (enc v) = enc (-v) := by
  rw [fp_facts.neg _ (enc_lt v)]
  apply eq_enc_of_cast (mod_p_lt _)
  rw [ZMod.natCast_mod, Nat.cast_sub (enc_lt v).le, natCast_enc, ZMod.natCast_self]; ring

theorem fp_div2_enc (v : Fp) : fp_div2 (enc v) = enc (v / 2) := by
  obtain ⟨hlt, hm⟩ := fp_facts.div2 _ (enc_lt v)
  apply eq_enc_of_cast hlt
  have h := congrArg (Nat.cast : ℕ → Fp) hm
  rw [ZMod.natCast_mod, Nat.cast_mul, natCast_enc, Nat.cast_ofNat] at h
  apply mul_left_cancel₀ two_ne_zero'
  rw [h]
  field_simp [two_ne_zero']

theorem mont_one_eq : Gen.SM9.MODP_MONT_ONE = enc 1 := by
  rw [fp_facts.consts.2.1]
  apply eq_enc_of_cast (mod_p_lt _)
  rw [ZMod.natCast_mod, cast_R, one_mul]

theorem mont_five_eq : Gen.SM9.MODP_MONT_FIVE = enc cb := by
  rw [fp_facts.consts.2.2]
  apply eq_enc_of_cast (mod_p_lt _)
  rw [ZMod.natCast_mod, cast_mul_R]; rfl

theorem fp_inv_enc (u : Fp) : fp_inv (enc u) = enc u⁻¹ := by
  by_cases hu : u = 0
  · subst hu
    rw [inv_zero, enc_zero]; exact fp_facts.inv0
  · have hA : u.val % Spec.SM9.p ≠ 0 := by
      rw [Nat.mod_eq_of_lt (ZMod.val_lt u)]
      exact fun h => hu ((ZMod.val_eq_zero u).mp h)
    obtain ⟨I, _, hI, hinv⟩ := fp_facts.inv u.val hA
    rw [← enc_natCast, ← enc_natCast, ZMod.natCast_zmod_val] at hinv
    rw [hinv]
    refine congrArg enc ?_
    apply eq_inv_of_mul_eq_one_right
    have h := congrArg (Nat.cast : ℕ → Fp) hI
    rwa [ZMod.natCast_mod, Nat.cast_mul, ZMod.natCast_zmod_val, Nat.cast_one] at h

theorem fp_to_mont_eq (a : ℕ) (h : a < 2 ^ 256) : fp_to_mont a = enc (a : Fp) := by
  rw [fp_facts.toMont a h, enc_natCast]

theorem fp_from_mont_enc (v : Fp) : fp_from_mont (enc v) = v.val := by
  obtain ⟨hlt, hm⟩ := fp_facts.fromMont _ (enc_lt v)
  have h := congrArg (Nat.cast : ℕ → Fp) hm
  rw [ZMod.natCast_mod, natCast_enc, cast_mul_R] at h
  have h' := mul_right_cancel₀ R_ne_zero h
  exact (ZMod.val_cast_of_lt hlt).symm.trans (congrArg ZMod.val h')

theorem cmp_eq_zero_iff (a b : ℕ) : u256_cmp a b = 0 ↔ a = b := by
  unfold u256_cmp
  rcases Nat.lt_trichotomy a b with h | h | h
  · rw [if_neg (by omega), if_pos h]; constructor <;> intro h' <;> omega
  · rw [if_neg (by omega), if_neg (by omega)]; exact ⟨fun _ => h, fun _ => rfl⟩
  · rw [if_pos h]; constructor <;> intro h' <;> omega

theorem cmp_enc (u v : Fp) : u256_cmp (enc u) (enc v) = 0 ↔ u = v := by
  rw [cmp_eq_zero_iff, enc_injective.eq_iff]

/-! ### the specification side: `Spec.EC` on `ZMod.val`s -/

theorem cast_powMod (a : ℕ) (e : ℕ) :
    ((Spec.EC.powMod a e Spec.SM9.p : ℕ) : Fp) = (a : Fp) ^ e := by
  rw [Proofs.Primes.powMod_eq, ZMod.natCast_mod, Nat.cast_pow]

theorem cast_p_sub_mod (n : ℕ) : ((Spec.SM9.p - n % Spec.SM9.p : ℕ) : Fp) = -(n : Fp) := by
  rw [Nat.cast_sub (mod_p_lt n).le, ZMod.natCast_self, ZMod.natCast_mod, zero_sub]

theorem mod_eq_val {n : ℕ} {v : Fp} (h : (n : Fp) = v) : n % Spec.SM9.p = v.val := by
  rw [← h, ZMod.val_natCast]

theorem pow_p_sub_two (v : Fp) : v ^ (Spec.SM9.p - 2) = v⁻¹ := by
  by_cases hv : v = 0
  · subst hv
    rw [inv_zero, zero_pow]
    have := p_gt_two; omega
  · apply eq_inv_of_mul_eq_one_left
    rw [← pow_succ]
    have h : Spec.SM9.p - 2 + 1 = Spec.SM9.p - 1 := by have := p_gt_two; omega
    rw [h]
    exact ZMod.pow_card_sub_one_eq_one hv

theorem cast_invMod (a : ℕ) : ((Spec.EC.invMod a Spec.SM9.p : ℕ) : Fp) = (a : Fp)⁻¹ := by
  unfold Spec.EC.invMod
  rw [cast_powMod, pow_p_sub_two]

theorem cast_p_sub_val (x : Fp) : ((Spec.SM9.p - x.val : ℕ) : Fp) = -x := by
  rw [Nat.cast_sub (ZMod.val_lt x).le, ZMod.natCast_self, ZMod.natCast_zmod_val, zero_sub]

theorem mod_eq_zero_iff_cast (n : ℕ) : n % Spec.SM9.p = 0 ↔ (n : Fp) = 0 := by
  rw [ZMod.natCast_eq_zero_iff, Nat.dvd_iff_mod_eq_zero]

/-- a pair of field elements as a specification point -/
def specPt (q : Option (Fp × Fp)) : Spec.EC.Pt := q.map fun q => (q.1.val, q.2.val)

theorem spec_add_val (x1 y1 x2 y2 : Fp) :
    Spec.EC.add Spec.SM9.curve (some (x1.val, y1.val)) (some (x2.val, y2.val))
      = specPt (affAdd ca x1 y1 x2 y2) := by
  simp only [Spec.EC.add, Spec.SM9.curve, affAdd]
  by_cases hx : x1 = x2
  · have hxv : x1.val = x2.val := congrArg _ hx
    rw [if_pos hxv, if_pos hx]
    have hy : (y1.val + y2.val) % Spec.SM9.p = 0 ↔ y1 + y2 = 0 := by
      rw [mod_eq_zero_iff_cast, Nat.cast_add, ZMod.natCast_zmod_val, ZMod.natCast_zmod_val]
    by_cases hy0 : y1 + y2 = 0
    · simp only [hy, hy0, ↓reduceIte]; rfl
    · simp only [hy, hy0, ↓reduceIte]
      simp only [specPt, Option.map_some]
      congr 1
      refine Prod.ext ?_ ?_
      · apply mod_eq_val
        simp only [Nat.cast_add, Nat.cast_mul, ZMod.natCast_mod, cast_invMod, cast_p_sub_val,
          ZMod.natCast_zmod_val, Nat.cast_ofNat]
        unfold ca; simp only [Spec.SM9.curve]; ring
      · apply mod_eq_val
        simp only [Nat.cast_add, Nat.cast_mul, ZMod.natCast_mod, cast_invMod, cast_p_sub_val, cast_p_sub_mod,
          ZMod.natCast_zmod_val, Nat.cast_ofNat]
        unfold ca; simp only [Spec.SM9.curve]; ring
  · have hxv : ¬ x1.val = x2.val := fun h => hx (ZMod.val_injective _ h)
    rw [if_neg hxv, if_neg hx]
    simp only [specPt, Option.map_some]
    congr 1
    refine Prod.ext ?_ ?_
    · apply mod_eq_val
      simp only [Nat.cast_add, Nat.cast_mul, ZMod.natCast_mod, cast_invMod, cast_p_sub_val,
        ZMod.natCast_zmod_val]
      ring
    · apply mod_eq_val
      simp only [Nat.cast_add, Nat.cast_mul, ZMod.natCast_mod, cast_invMod, cast_p_sub_val, cast_p_sub_mod,
        ZMod.natCast_zmod_val]
      ring

/-! ### points with canonical coordinates are `mk X Y Z` -/

/-- the point with decoded Jacobian coordinates (X, Y, Z) -/
def mk (X Y Z : Fp) : Point := ⟨enc X, enc Y, enc Z⟩

theorem eq_mk (P : Point) (hx : P.x < Spec.SM9.p) (hy : P.y < Spec.SM9.p) (hz : P.z < Spec.SM9.p) :
    P = mk (dec P.x) (dec P.y) (dec P.z) := by
  cases P with
  | mk x y z => simp only [mk] at *; rw [enc_dec x hx, enc_dec y hy, enc_dec z hz]

theorem valid_mk_iff (X Y Z : Fp) :
    Valid (mk X Y Z) ↔ (Z ≠ 0 → Y ^ 2 = X ^ 3 + cb * Z ^ 6) := by
  simp only [Valid, mk, enc_lt, true_and, dec_enc, ne_eq, enc_eq_zero_iff]

theorem toSpec_mk (X Y Z : Fp) :
    toSpec (mk X Y Z) = if Z = 0 then none else some ((X / Z ^ 2).val, (Y / Z ^ 3).val) := by
  simp only [toSpec, mk, dec_enc, enc_eq_zero_iff, div_eq_mul_inv]

theorem toSpec_mk_of_ne {X Y Z : Fp} (hZ : Z ≠ 0) :
    toSpec (mk X Y Z) = some ((X / Z ^ 2).val, (Y / Z ^ 3).val) := by
  rw [toSpec_mk, if_neg hZ]

theorem toSpec_mk_zero (X Y : Fp) : toSpec (mk X Y 0) = none := by
  rw [toSpec_mk, if_pos rfl]

/-- the Jacobian equation in the shape of `SM2CurveAlg` (a·X·Z⁴ term with a = 0) -/
theorem jac_shape {X Y Z : Fp} : Y ^ 2 = X ^ 3 + cb * Z ^ 6 ↔ Y ^ 2 = X ^ 3 + ca * X * Z ^ 4 + cb * Z ^ 6 := by
  rw [ca_eq]; constructor <;> (intro h; linear_combination h)

/-! ### doubling -/

theorem point_double_mk (X Y Z : Fp) :
    (mk X Y Z).point_double
      = if Z = 0 then mk X Y Z else mk (SM9G1Alg.dblX X Y) (SM9G1Alg.dblY X Y) (SM9G1Alg.dblZ Y Z) := by
  simp only [Point.point_double, Point.is_zero, fp_is_zero, mk, beq_iff_eq, enc_eq_zero_iff, fp_sqr, fp_double,
    fp_triple, fp_mul_enc, fp_add_enc, fp_sub_enc, fp_div2_enc]
  split_ifs
  · rfl
  · congr 2 <;> (simp only [SM9G1Alg.dblX, SM9G1Alg.dblY, SM9G1Alg.dblZ, dblM]; field_simp [two_ne_zero']; ring)

theorem point_double_mk_correct (X Y Z : Fp) (h : Valid (mk X Y Z)) :
    Valid (mk X Y Z).point_double
      ∧ toSpec (mk X Y Z).point_double = Spec.EC.add Spec.SM9.curve (toSpec (mk X Y Z)) (toSpec (mk X Y Z)) := by
  rw [point_double_mk]
  by_cases hZ : Z = 0
  · subst hZ
    rw [if_pos rfl, toSpec_mk_zero]
    exact ⟨h, rfl⟩
  · rw [if_neg hZ]
    rw [valid_mk_iff] at h
    have E := h hZ
    refine ⟨(valid_mk_iff _ _ _).mpr (fun _ => dbl_onCurve cb X Y Z E), ?_⟩
    rw [toSpec_mk_of_ne hZ, spec_add_val, affAdd, if_pos rfl]
    by_cases hY : Y = 0
    · subst hY
      have hz3 : SM9G1Alg.dblZ (0 : Fp) Z = 0 := by simp [SM9G1Alg.dblZ]
      rw [hz3, toSpec_mk_zero, if_pos (by simp)]; rfl
    · have hz3 : SM9G1Alg.dblZ Y Z ≠ 0 := fun h => hY ((SM9G1Alg.dblZ_eq_zero_iff Y Z two_ne_zero' hZ).mp h)
      have hyy : ¬ (Y / Z ^ 3 + Y / Z ^ 3 = 0) := by
        intro h
        have h' : 2 * (Y / Z ^ 3) = 0 := by linear_combination h
        rcases mul_eq_zero.mp h' with h2 | h2
        · exact two_ne_zero' h2
        · rcases div_eq_zero_iff.mp h2 with h3 | h3
          · exact hY h3
          · exact hZ (pow_eq_zero_iff (by decide) |>.mp h3)
      rw [toSpec_mk_of_ne hz3, if_neg hyy]
      simp only [specPt, Option.map_some]
      rw [SM9G1Alg.dbl_y ca X Y Z _ ca_eq two_ne_zero' hZ hY rfl, SM9G1Alg.dbl_x ca X Y Z ca_eq two_ne_zero' hZ hY]

/-! ### point addition, branch by branch -/

theorem spec_add_none_left (q : Spec.EC.Pt) : Spec.EC.add Spec.SM9.curve none q = q := by
  simp [Spec.EC.add]

theorem spec_add_none_right (q : Spec.EC.Pt) : Spec.EC.add Spec.SM9.curve q none = q := by
  cases q <;> simp [Spec.EC.add]

theorem point_zero_eq : Point.zero = mk 1 1 0 := by
  simp only [Point.zero, mk, mont_one_eq, enc_zero]

theorem point_add_mk (X1 Y1 Z1 X2 Y2 Z2 : Fp) :
    (mk X1 Y1 Z1).point_add (mk X2 Y2 Z2) =
      if Z2 = 0 then mk X1 Y1 Z1
      else if Z1 = 0 then mk X2 Y2 Z2
      else if addH X1 Z1 X2 Z2 = 0 then
        (if addR Y1 Z1 Y2 Z2 = 0 then (mk X2 Y2 Z2).point_double else Point.zero)
      else mk (add2X X1 Y1 Z1 X2 Y2 Z2) (add2Y X1 Y1 Z1 X2 Y2 Z2) (add2Z X1 Z1 X2 Z2) := by
  have eH : X2 * (Z1 * Z1) - X1 * (Z2 * Z2) = addH X1 Z1 X2 Z2 := by simp only [addH]; ring
  have eR : Y2 * (Z1 * Z1 * Z1) - Y1 * (Z2 * Z2 * Z2) = addR Y1 Z1 Y2 Z2 := by simp only [addR]; ring
  simp only [Point.point_add, Point.is_zero, fp_is_zero, mk, beq_iff_eq, enc_eq_zero_iff,
    fp_sqr, fp_double, fp_triple, fp_mul_enc, fp_add_enc, fp_sub_enc, eH, eR]
  split_ifs <;> first
    | with_reducible rfl
    | (congr 2 <;> (simp only [add2X, add2Y, add2Z, addX, addY, addZ, addH, addR]; ring))

/-- either operand at infinity -/
theorem add_inf_right (X1 Y1 Z1 X2 Y2 : Fp) (hP : Valid (mk X1 Y1 Z1)) :
    Valid ((mk X1 Y1 Z1).point_add (mk X2 Y2 0))
      ∧ toSpec ((mk X1 Y1 Z1).point_add (mk X2 Y2 0))
          = Spec.EC.add Spec.SM9.curve (toSpec (mk X1 Y1 Z1)) (toSpec (mk X2 Y2 0)) := by
  rw [point_add_mk, if_pos rfl, toSpec_mk_zero, spec_add_none_right]
  exact ⟨hP, rfl⟩

theorem add_inf_left (X1 Y1 X2 Y2 Z2 : Fp) (hQ : Valid (mk X2 Y2 Z2)) :
    Valid ((mk X1 Y1 0).point_add (mk X2 Y2 Z2))
      ∧ toSpec ((mk X1 Y1 0).point_add (mk X2 Y2 Z2))
          = Spec.EC.add Spec.SM9.curve (toSpec (mk X1 Y1 0)) (toSpec (mk X2 Y2 Z2)) := by
  rw [point_add_mk]
  by_cases hZ2 : Z2 = 0
  · subst hZ2
    rw [if_pos rfl, toSpec_mk_zero, toSpec_mk_zero]
    exact ⟨(valid_mk_iff _ _ _).mpr (fun h => absurd rfl h), rfl⟩
  · rw [if_neg hZ2, if_pos rfl, toSpec_mk_zero, spec_add_none_left]
    exact ⟨hQ, rfl⟩

/-- P = Q, any two representations (the h = 0, r = 0 branch): the code doubles the right operand -/
theorem add_same_point (X1 Y1 Z1 X2 Y2 Z2 : Fp) (hZ1 : Z1 ≠ 0) (hZ2 : Z2 ≠ 0)
    (hH : addH X1 Z1 X2 Z2 = 0) (hR : addR Y1 Z1 Y2 Z2 = 0) (hQ : Valid (mk X2 Y2 Z2)) :
    Valid ((mk X1 Y1 Z1).point_add (mk X2 Y2 Z2))
      ∧ toSpec ((mk X1 Y1 Z1).point_add (mk X2 Y2 Z2))
          = Spec.EC.add Spec.SM9.curve (toSpec (mk X1 Y1 Z1)) (toSpec (mk X2 Y2 Z2)) := by
  rw [point_add_mk, if_neg hZ2, if_neg hZ1, if_pos hH, if_pos hR]
  have hx := (addH_eq_zero_iff X1 Z1 X2 Z2 hZ1 hZ2).mp hH
  have hy := (addR_eq_zero_iff Y1 Z1 Y2 Z2 hZ1 hZ2).mp hR
  have hPQ : toSpec (mk X1 Y1 Z1) = toSpec (mk X2 Y2 Z2) := by
    rw [toSpec_mk_of_ne hZ1, toSpec_mk_of_ne hZ2, hx, hy]
  rw [hPQ]
  exact point_double_mk_correct X2 Y2 Z2 hQ

/-- P = −Q (h = 0, r ≠ 0) -/
theorem add_opposite (X1 Y1 Z1 X2 Y2 Z2 : Fp) (hZ1 : Z1 ≠ 0) (hZ2 : Z2 ≠ 0)
    (hH : addH X1 Z1 X2 Z2 = 0) (hR : addR Y1 Z1 Y2 Z2 ≠ 0)
    (hP : Valid (mk X1 Y1 Z1)) (hQ : Valid (mk X2 Y2 Z2)) :
    Valid ((mk X1 Y1 Z1).point_add (mk X2 Y2 Z2))
      ∧ toSpec ((mk X1 Y1 Z1).point_add (mk X2 Y2 Z2))
          = Spec.EC.add Spec.SM9.curve (toSpec (mk X1 Y1 Z1)) (toSpec (mk X2 Y2 Z2)) := by
  rw [point_add_mk, if_neg hZ2, if_neg hZ1, if_pos hH, if_neg hR, point_zero_eq]
  refine ⟨(valid_mk_iff _ _ _).mpr (fun h => absurd rfl h), ?_⟩
  have hx := (addH_eq_zero_iff X1 Z1 X2 Z2 hZ1 hZ2).mp hH
  have hy : ¬ (Y1 / Z1 ^ 3 = Y2 / Z2 ^ 3) := fun h => hR ((addR_eq_zero_iff Y1 Z1 Y2 Z2 hZ1 hZ2).mpr h)
  have E1 := (jac_iff_aff ca cb X1 Y1 Z1 hZ1).mp (jac_shape.mp ((valid_mk_iff _ _ _).mp hP hZ1))
  have E2 := (jac_iff_aff ca cb X2 Y2 Z2 hZ2).mp (jac_shape.mp ((valid_mk_iff _ _ _).mp hQ hZ2))
  rw [← hx] at E2
  have hsum : Y1 / Z1 ^ 3 + Y2 / Z2 ^ 3 = 0 := (aff_same_x ca cb _ _ _ E1 E2).resolve_left hy
  rw [toSpec_mk_zero, toSpec_mk_of_ne hZ1, toSpec_mk_of_ne hZ2, spec_add_val, affAdd, if_pos hx, if_pos hsum]
  rfl

/-- the generic case (h ≠ 0) -/
theorem add_generic (X1 Y1 Z1 X2 Y2 Z2 : Fp) (hZ1 : Z1 ≠ 0) (hZ2 : Z2 ≠ 0)
    (hH : addH X1 Z1 X2 Z2 ≠ 0)
    (hP : Valid (mk X1 Y1 Z1)) (hQ : Valid (mk X2 Y2 Z2)) :
    Valid ((mk X1 Y1 Z1).point_add (mk X2 Y2 Z2))
      ∧ toSpec ((mk X1 Y1 Z1).point_add (mk X2 Y2 Z2))
          = Spec.EC.add Spec.SM9.curve (toSpec (mk X1 Y1 Z1)) (toSpec (mk X2 Y2 Z2)) := by
  rw [point_add_mk, if_neg hZ2, if_neg hZ1, if_neg hH]
  have E1 := jac_shape.mp ((valid_mk_iff _ _ _).mp hP hZ1)
  have E2 := jac_shape.mp ((valid_mk_iff _ _ _).mp hQ hZ2)
  refine ⟨(valid_mk_iff _ _ _).mpr (fun _ => jac_shape.mpr (add2_onCurve ca cb X1 Y1 Z1 X2 Y2 Z2 E1 E2)), ?_⟩
  have hx : ¬ (X1 / Z1 ^ 2 = X2 / Z2 ^ 2) := fun h => hH ((addH_eq_zero_iff X1 Z1 X2 Z2 hZ1 hZ2).mpr h)
  have hZ3 : add2Z X1 Z1 X2 Z2 ≠ 0 := mul_ne_zero two_ne_zero' (mul_ne_zero (mul_ne_zero hZ1 hZ2) hH)
  rw [toSpec_mk_of_ne hZ3, toSpec_mk_of_ne hZ1, toSpec_mk_of_ne hZ2, spec_add_val, affAdd, if_neg hx]
  simp only [specPt, Option.map_some]
  rw [add2_y X1 Y1 Z1 X2 Y2 Z2 _ two_ne_zero' hZ1 hZ2 hH rfl, add2_x X1 Y1 Z1 X2 Y2 Z2 two_ne_zero' hZ1 hZ2 hH]

theorem point_add_mk_correct (X1 Y1 Z1 X2 Y2 Z2 : Fp) (hP : Valid (mk X1 Y1 Z1)) (hQ : Valid (mk X2 Y2 Z2)) :
    Valid ((mk X1 Y1 Z1).point_add (mk X2 Y2 Z2))
      ∧ toSpec ((mk X1 Y1 Z1).point_add (mk X2 Y2 Z2))
          = Spec.EC.add Spec.SM9.curve (toSpec (mk X1 Y1 Z1)) (toSpec (mk X2 Y2 Z2)) := by
  by_cases hZ2 : Z2 = 0
  · subst hZ2; exact add_inf_right X1 Y1 Z1 X2 Y2 hP
  by_cases hZ1 : Z1 = 0
  · subst hZ1; exact add_inf_left X1 Y1 X2 Y2 Z2 hQ
  by_cases hH : addH X1 Z1 X2 Z2 = 0
  · by_cases hR : addR Y1 Z1 Y2 Z2 = 0
    · exact add_same_point X1 Y1 Z1 X2 Y2 Z2 hZ1 hZ2 hH hR hQ
    · exact add_opposite X1 Y1 Z1 X2 Y2 Z2 hZ1 hZ2 hH hR hP hQ
  · exact add_generic X1 Y1 Z1 X2 Y2 Z2 hZ1 hZ2 hH hP hQ

/-! ### validity check, negation, subtraction, affine conversion, equality, encoding (on `mk`) -/

theorem onCurve_val (x y : Fp) :
    Spec.EC.onCurve Spec.SM9.curve (some (x.val, y.val)) = true ↔ y ^ 2 = x ^ 3 + ca * x + cb := by
  simp only [Spec.EC.onCurve, Spec.SM9.curve, ZMod.val_lt, decide_true, Bool.true_and, beq_iff_eq]
  rw [← ZMod.natCast_eq_natCast_iff']
  simp only [Nat.cast_add, Nat.cast_mul, ZMod.natCast_mod, ZMod.natCast_zmod_val]
  unfold ca cb
  simp only [Spec.SM9.curve]
  constructor <;> (intro h; linear_combination h)

theorem toSpec_mk_onCurve (X Y Z : Fp) (h : Valid (mk X Y Z)) :
    Spec.EC.onCurve Spec.SM9.curve (toSpec (mk X Y Z)) = true := by
  by_cases hZ : Z = 0
  · subst hZ; rw [toSpec_mk_zero]; rfl
  · rw [toSpec_mk_of_ne hZ, onCurve_val]
    exact (jac_iff_aff ca cb X Y Z hZ).mp (jac_shape.mp ((valid_mk_iff _ _ _).mp h hZ))

/-- `Spec.EC.neg` on `ZMod.val`s -/
theorem spec_neg_val (x y : Fp) :
    Spec.EC.neg Spec.SM9.curve (some (x.val, y.val)) = some (x.val, (-y).val) := by
  simp only [Spec.EC.neg, Spec.SM9.curve]
  rw [mod_eq_val (cast_p_sub_val y)]

/-- `is_on_curve` (both branches) is the Jacobian equation — WITHOUT a `Z ≠ 0` guard: for Z = 0 it tests Y² = X³ -/
theorem is_on_curve_mk (X Y Z : Fp) : (mk X Y Z).is_on_curve = true ↔ Y ^ 2 = X ^ 3 + cb * Z ^ 6 := by
  simp only [Point.is_on_curve, mk, fp_sqr, mont_one_eq, mont_five_eq, fp_mul_enc, fp_add_enc, cmp_enc]
  by_cases hZ : Z = 1
  · subst hZ
    simp only [if_true, decide_eq_true_eq]
    constructor <;> (intro h; linear_combination h)
  · simp only [hZ, if_false, decide_eq_true_eq]
    constructor <;> (intro h; linear_combination h)

theorem point_neg_mk (X Y Z : Fp) : (mk X Y Z).point_neg = mk X (-Y) Z := by
  simp only [Point.point_neg, mk, fp_neg_enc]

theorem point_neg_mk_correct (X Y Z : Fp) (h : Valid (mk X Y Z)) :
    Valid (mk X Y Z).point_neg
      ∧ toSpec (mk X Y Z).point_neg = Spec.EC.neg Spec.SM9.curve (toSpec (mk X Y Z)) := by
  rw [point_neg_mk]
  constructor
  · rw [valid_mk_iff] at h ⊢
    intro hZ
    linear_combination h hZ
  · by_cases hZ : Z = 0
    · subst hZ; rw [toSpec_mk_zero, toSpec_mk_zero]; rfl
    · rw [toSpec_mk_of_ne hZ, toSpec_mk_of_ne hZ, spec_neg_val, neg_div]

theorem to_affine_mk (X Y Z : Fp) :
    (mk X Y Z).to_affine_point = mk (X / Z ^ 2) (Y / Z ^ 3) 1 := by
  simp only [Point.to_affine_point, mk, fp_sqr, fp_inv_enc, mont_one_eq, fp_mul_enc, cmp_enc]
  by_cases hZ : Z = 1
  · subst hZ; simp
  · rw [if_neg hZ]
    congr 2 <;> (rw [div_eq_mul_inv, ← inv_pow]; ring)

theorem to_affine_mk_correct (X Y Z : Fp) (h : Valid (mk X Y Z)) (hZ : Z ≠ 0) :
    Valid (mk X Y Z).to_affine_point ∧ (mk X Y Z).to_affine_point.z = Gen.SM9.MODP_MONT_ONE
      ∧ toSpec (mk X Y Z).to_affine_point = toSpec (mk X Y Z)
      ∧ toSpec (mk X Y Z) = some (fp_from_mont (mk X Y Z).to_affine_point.x,
          fp_from_mont (mk X Y Z).to_affine_point.y) := by
  rw [to_affine_mk]
  have E := (jac_iff_aff ca cb X Y Z hZ).mp (jac_shape.mp ((valid_mk_iff _ _ _).mp h hZ))
  refine ⟨?_, ?_, ?_, ?_⟩
  · rw [valid_mk_iff]; intro _; rw [E, ca_eq]; ring
  · simp only [mk, mont_one_eq]
  · rw [toSpec_mk_of_ne one_ne_zero, toSpec_mk_of_ne hZ]; simp
  · rw [toSpec_mk_of_ne hZ]; simp only [mk, fp_from_mont_enc]

/-- the affine conversion of a point with Z = 0: (0, 0, 1) (the inverse of 0 is computed as 0) — not a curve point -/
theorem to_affine_mk_zero (X Y : Fp) : (mk X Y 0).to_affine_point = mk 0 0 1 := by
  rw [to_affine_mk]; simp

/-- `point_equals`: the two cross-multiplied equalities, whatever the Z's -/
theorem point_equals_mk (X1 Y1 Z1 X2 Y2 Z2 : Fp) :
    (mk X1 Y1 Z1).point_equals (mk X2 Y2 Z2) = true
      ↔ X1 * Z2 ^ 2 = X2 * Z1 ^ 2 ∧ Y1 * Z2 ^ 3 = Y2 * Z1 ^ 3 := by
  simp only [Point.point_equals, mk, fp_sqr, fp_mul_enc, ne_eq, cmp_enc]
  by_cases hx : X1 * (Z2 * Z2) = X2 * (Z1 * Z1)
  · have hx' : X1 * Z2 ^ 2 = X2 * Z1 ^ 2 := by linear_combination hx
    simp only [hx, not_true_eq_false, if_false, decide_eq_true_eq, hx', true_and]
    constructor <;> (intro h; linear_combination h)
  · have hx' : ¬ (X1 * Z2 ^ 2 = X2 * Z1 ^ 2) := fun h => hx (by linear_combination h)
    simp [hx, hx']

theorem point_equals_mk_iff (X1 Y1 Z1 X2 Y2 Z2 : Fp) (hZ1 : Z1 ≠ 0) (hZ2 : Z2 ≠ 0) :
    (mk X1 Y1 Z1).point_equals (mk X2 Y2 Z2) = true ↔ toSpec (mk X1 Y1 Z1) = toSpec (mk X2 Y2 Z2) := by
  rw [point_equals_mk, toSpec_mk_of_ne hZ1, toSpec_mk_of_ne hZ2]
  simp only [Option.some.injEq, Prod.mk.injEq]
  rw [(ZMod.val_injective _).eq_iff, (ZMod.val_injective _).eq_iff,
    div_eq_div_iff (pow_ne_zero 2 hZ1) (pow_ne_zero 2 hZ2), div_eq_div_iff (pow_ne_zero 3 hZ1) (pow_ne_zero 3 hZ2)]

/-! ### the property theorems for arbitrary (valid) points -/

theorem zero_valid : Valid Point.zero := by
  rw [point_zero_eq, valid_mk_iff]; exact fun h => absurd rfl h

theorem zero_toSpec : toSpec Point.zero = none := by
  rw [point_zero_eq, toSpec_mk_zero]

theorem is_on_curve_iff (P : Point) (hc : P.x < Spec.SM9.p ∧ P.y < Spec.SM9.p ∧ P.z < Spec.SM9.p) :
    P.is_on_curve = true ↔ dec P.y ^ 2 = dec P.x ^ 3 + cb * dec P.z ^ 6 := by
  have h := is_on_curve_mk (dec P.x) (dec P.y) (dec P.z)
  rwa [← eq_mk P hc.1 hc.2.1 hc.2.2] at h

/-- for Z ≠ 0 (canonical coordinates) `is_on_curve` is exactly `Valid` -/
theorem is_on_curve_iff_valid (P : Point) (hc : P.x < Spec.SM9.p ∧ P.y < Spec.SM9.p ∧ P.z < Spec.SM9.p)
    (hz : P.z ≠ 0) : P.is_on_curve = true ↔ Valid P := by
  rw [is_on_curve_iff P hc]
  exact ⟨fun h => ⟨hc.1, hc.2.1, hc.2.2, fun _ => h⟩, fun h => h.2.2.2 hz⟩

/-- for Z = 0 `is_on_curve` tests Y² = X³ (so `Point.zero` = (1, 1, 0) passes, (0, 1, 0) does not) although every
canonical triple with Z = 0 is a `Valid` representation of the point at infinity -/
theorem is_on_curve_iff_inf (P : Point) (hc : P.x < Spec.SM9.p ∧ P.y < Spec.SM9.p ∧ P.z < Spec.SM9.p)
    (hz : P.z = 0) : Valid P ∧ (P.is_on_curve = true ↔ dec P.y ^ 2 = dec P.x ^ 3) := by
  refine ⟨⟨hc.1, hc.2.1, hc.2.2, fun h => absurd hz h⟩, ?_⟩
  rw [is_on_curve_iff P hc, hz, dec_zero]
  constructor <;> (intro h; linear_combination h)

theorem toSpec_onCurve (P : Point) (h : Valid P) : Spec.EC.onCurve Spec.SM9.curve (toSpec P) = true := by
  have e := eq_mk P h.1 h.2.1 h.2.2.1
  rw [e] at h ⊢
  exact toSpec_mk_onCurve _ _ _ h

theorem point_double_correct (P : Point) (h : Valid P) :
    Valid P.point_double ∧ toSpec P.point_double = Spec.EC.add Spec.SM9.curve (toSpec P) (toSpec P) := by
  have e := eq_mk P h.1 h.2.1 h.2.2.1
  rw [e] at h ⊢
  exact point_double_mk_correct _ _ _ h

theorem point_add_correct (P Q : Point) (hP : Valid P) (hQ : Valid Q) :
    Valid (P.point_add Q) ∧ toSpec (P.point_add Q) = Spec.EC.add Spec.SM9.curve (toSpec P) (toSpec Q) := by
  have eP := eq_mk P hP.1 hP.2.1 hP.2.2.1
  have eQ := eq_mk Q hQ.1 hQ.2.1 hQ.2.2.1
  rw [eP] at hP ⊢
  rw [eQ] at hQ ⊢
  exact point_add_mk_correct _ _ _ _ _ _ hP hQ

theorem point_neg_correct (P : Point) (h : Valid P) :
    Valid P.point_neg ∧ toSpec P.point_neg = Spec.EC.neg Spec.SM9.curve (toSpec P) := by
  have e := eq_mk P h.1 h.2.1 h.2.2.1
  rw [e] at h ⊢
  exact point_neg_mk_correct _ _ _ h

theorem point_sub_correct (P Q : Point) (hP : Valid P) (hQ : Valid Q) :
    Valid (P.point_sub Q)
      ∧ toSpec (P.point_sub Q) = Spec.EC.add Spec.SM9.curve (toSpec P) (Spec.EC.neg Spec.SM9.curve (toSpec Q)) := by
  obtain ⟨h1, h2⟩ := point_neg_correct Q hQ
  obtain ⟨h3, h4⟩ := point_add_correct P Q.point_neg hP h1
  exact ⟨h3, by rw [← h2]; exact h4⟩

theorem to_affine_correct (P : Point) (h : Valid P) (hz : P.z ≠ 0) :
    Valid P.to_affine_point ∧ P.to_affine_point.z = Gen.SM9.MODP_MONT_ONE
      ∧ toSpec P.to_affine_point = toSpec P
      ∧ toSpec P = some (fp_from_mont P.to_affine_point.x, fp_from_mont P.to_affine_point.y) := by
  have e := eq_mk P h.1 h.2.1 h.2.2.1
  have hZ : dec P.z ≠ 0 := fun h0 => hz ((dec_eq_zero_iff _ h.2.2.1).mp h0)
  rw [e] at h ⊢
  exact to_affine_mk_correct _ _ _ h hZ

/-- Z = 0: the affine conversion is (0, 0, 1) in the Montgomery domain, and `to_bytes_be` is 04 ‖ 0…0 -/
theorem to_affine_inf (P : Point) (hc : P.x < Spec.SM9.p ∧ P.y < Spec.SM9.p) (hz : P.z = 0) :
    P.to_affine_point = ⟨0, 0, Gen.SM9.MODP_MONT_ONE⟩ := by
  have e := eq_mk P hc.1 hc.2 (by rw [hz]; exact p_pos)
  rw [e, hz, dec_zero, to_affine_mk_zero]
  simp only [mk, enc_zero, mont_one_eq]

theorem to_bytes_correct (P : Point) (h : Valid P) (hz : P.z ≠ 0) :
    P.to_bytes_be = Spec.SM9.encodePoint (toSpec P) := by
  obtain ⟨_, _, _, h4⟩ := to_affine_correct P h hz
  rw [h4]
  simp only [Point.to_bytes_be, Spec.SM9.encodePoint, Spec.SM9.pointBytes, Impl.SM9.fp_to_bytes_be,
    Spec.SM9.bytes32]

/-- `point_equals` in general (canonical coordinates): the two cross-multiplied equalities -/
theorem point_equals_gen (P Q : Point) (hP : P.x < Spec.SM9.p ∧ P.y < Spec.SM9.p ∧ P.z < Spec.SM9.p)
    (hQ : Q.x < Spec.SM9.p ∧ Q.y < Spec.SM9.p ∧ Q.z < Spec.SM9.p) :
    P.point_equals Q = true
      ↔ dec P.x * dec Q.z ^ 2 = dec Q.x * dec P.z ^ 2 ∧ dec P.y * dec Q.z ^ 3 = dec Q.y * dec P.z ^ 3 := by
  have h := point_equals_mk (dec P.x) (dec P.y) (dec P.z) (dec Q.x) (dec Q.y) (dec Q.z)
  rwa [← eq_mk P hP.1 hP.2.1 hP.2.2, ← eq_mk Q hQ.1 hQ.2.1 hQ.2.2] at h

theorem point_equals_iff (P Q : Point) (hP : Valid P) (hQ : Valid Q) (hz : P.z ≠ 0 ∧ Q.z ≠ 0) :
    P.point_equals Q = true ↔ toSpec P = toSpec Q := by
  have eP := eq_mk P hP.1 hP.2.1 hP.2.2.1
  have eQ := eq_mk Q hQ.1 hQ.2.1 hQ.2.2.1
  have hZ1 : dec P.z ≠ 0 := fun h0 => hz.1 ((dec_eq_zero_iff _ hP.2.2.1).mp h0)
  have hZ2 : dec Q.z ≠ 0 := fun h0 => hz.2 ((dec_eq_zero_iff _ hQ.2.2.1).mp h0)
  rw [eP, eQ]
  exact point_equals_mk_iff _ _ _ _ _ _ hZ1 hZ2

/-- with the point at infinity: two infinities compare equal whatever their X, Y; an infinity (Z = 0) equals a finite
point iff its X and Y are both 0 — so `Point.zero` = (1, 1, 0) is different from every finite point, but the
representation (0, 0, 0) of infinity "equals" every point -/
theorem point_equals_inf (P Q : Point) (hP : P.x < Spec.SM9.p ∧ P.y < Spec.SM9.p ∧ P.z < Spec.SM9.p)
    (hQ : Q.x < Spec.SM9.p ∧ Q.y < Spec.SM9.p ∧ Q.z < Spec.SM9.p) (hz : P.z = 0) :
    (Q.z = 0 → P.point_equals Q = true ∧ Q.point_equals P = true)
    ∧ (Q.z ≠ 0 → ((P.point_equals Q = true ↔ P.x = 0 ∧ P.y = 0) ∧ (Q.point_equals P = true ↔ P.x = 0 ∧ P.y = 0))) := by
  have hZ2 : Q.z ≠ 0 → dec Q.z ≠ 0 := fun h h0 => h ((dec_eq_zero_iff _ hQ.2.2).mp h0)
  rw [point_equals_gen P Q hP hQ, point_equals_gen Q P hQ hP, hz, dec_zero]
  constructor
  · intro hq
    rw [hq, dec_zero]
    simp
  · intro hq
    have h2 := pow_ne_zero 2 (hZ2 hq)
    have h3 := pow_ne_zero 3 (hZ2 hq)
    rw [← dec_eq_zero_iff P.x hP.1, ← dec_eq_zero_iff P.y hP.2.1]
    constructor
    · simp [h2, h3]
    · simp [h2, h3, eq_comm]

end GmVerif.Proofs.SM9G1
