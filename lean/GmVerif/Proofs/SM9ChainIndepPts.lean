/-
C12g, part 1: the points of the lockstep run.

* the untwisted points ψ(x, y) = (x·w⁻², y·w⁻³) are on E : y² = x³ + 5 (`onE_ψ`), of twist type (`onTw_ψ`: σ x = x, σ y = −y for
  σ = the p⁶-power map) and their x-coordinate is never a non-zero element of Fp (`vertical_ne`);
* a point P of E(Fp) embedded in E(Fp12) is on E, of base type, and its x-coordinate is a NON-ZERO element of Fp: 5 is not a
  square modulo p (`five_not_square`, Euler's criterion evaluated by the kernel) — `pgood_of_onCurve`;
* `pt Q' k = ψ([k]Q')` for Q' of order N in Mathlib's group of the twist: tangent / chord between multiples are generic and land
  on the expected multiple (`pt_tangent`, `pt_chord`), the coordinates have all the properties above (`pt_data`).
-/
import GmVerif.Proofs.SM9ChainGenericPf
import GmVerif.Proofs.SM9MillerAssocCocycle
set_option autoImplicit false
set_option linter.unnecessarySeqFocus false
namespace GmVerif.Proofs.SM9ChainIndep
open GmVerif GmVerif.Proofs.SM9Tower GmVerif.Proofs.SM9TowerDense GmVerif.Proofs.SM9PairingReduce
open GmVerif.Proofs.SM9SpecField GmVerif.Proofs.SM9SpecLines GmVerif.Proofs.SM9MillerSD
open GmVerif.Proofs.SM9TwistFrob (L)
open GmVerif.Proofs.SM9TwistFrobUntwist (Φ Φ_apply Φ_injective ux uy ev_ux ev_uy canon_ux canon_uy untwist_ofL)
open GmVerif.Proofs.SM9MillerAssocSpec (Aff OnE OnTw OnBase Approx)
open GmVerif.Proofs.SM9ChainGenericPf
open GmVerif.Spec.SM9 (p N Pt12 neg12 lineAdd)
open GmVerif.Proofs.SM9Fp12 (ev Canon)
open GmVerif.Proofs.SM9G2 (W2)
open GmVerif.Proofs.SM9G2ImplField (φ)
open WeierstrassCurve.Affine

local notation "σA" => GmVerif.Proofs.SM9MillerAssocSpec.σ

/-! ### the p⁶-power map on Fp, Fp2, ω², ω³ -/

theorem φ2_fixed (s : F2) : φ2 s ^ p ^ 6 = φ2 s := by
  rw [φ2_eq_φ12, φ12_pow_p6, SM9FrobAll.α_pow_6]
  congr 1
  ext <;> simp [frobA] <;> ring

theorem ω2_fixed : (ω ^ 2) ^ p ^ 6 = ω ^ 2 := by
  rw [← φ12_w', ← map_pow, φ12_pow_p6, SM9FrobAll.α_pow_6]
  congr 1

theorem ω3_anti : (ω ^ 3) ^ p ^ 6 = -ω ^ 3 := by
  rw [← φ12_w', ← map_pow, φ12_pow_p6, SM9FrobAll.α_pow_6, ← map_neg]
  congr 1

theorem σ_Φ (x : L) : σA (Φ x) = Φ x := by
  rw [SM9MillerAssocSpec.σ_apply, Φ_apply, φ2_fixed]

theorem σ_ι (a : K) : σA (ι a) = ι a := by
  rw [SM9MillerAssocSpec.σ_apply, ← φ2_of, φ2_fixed]

theorem σ_ωi2 : σA (ω⁻¹ * ω⁻¹) = ω⁻¹ * ω⁻¹ := by
  have e : ω⁻¹ * ω⁻¹ = (ω ^ 2)⁻¹ := by rw [pow_two, mul_inv]
  rw [e, map_inv₀, SM9MillerAssocSpec.σ_apply, ω2_fixed]

theorem σ_ωi3 : σA (ω⁻¹ * ω⁻¹ * ω⁻¹) = -(ω⁻¹ * ω⁻¹ * ω⁻¹) := by
  have e : ω⁻¹ * ω⁻¹ * ω⁻¹ = (ω ^ 3)⁻¹ := by rw [pow_three, mul_inv, mul_inv, mul_assoc]
  rw [e, map_inv₀, SM9MillerAssocSpec.σ_apply, ω3_anti, inv_neg]

/-! ### the untwisted points -/

theorem onTw_ψ (x y : L) : OnTw (ev (ux x)) (ev (uy y)) := by
  constructor
  · rw [ev_ux, map_mul, σ_Φ, σ_ωi2]
  · rw [ev_uy, map_mul, σ_Φ, σ_ωi3, mul_neg]

theorem Φ_b : Φ (⟨0, 5⟩ : L) = 5 * ω ^ 6 := by
  rw [Φ_apply, φ2_apply, SM9G2ImplField.φ_symm_c0, SM9G2ImplField.φ_symm_c1]
  show ι 0 + ι 5 * ω ^ 6 = 5 * ω ^ 6
  rw [map_zero, zero_add, map_ofNat]

theorem onE_ψ {x y : L} (h : W2.Equation x y) : OnE (ev (ux x)) (ev (uy y)) := by
  rw [SM9G2.W2_equation_iff] at h
  have h' := congrArg Φ h
  rw [map_mul, map_add, map_mul, map_mul, Φ_b] at h'
  have hω := ω_ne_zero
  show ev (uy y) ^ 2 = ev (ux x) ^ 3 + 5
  rw [ev_ux, ev_uy]
  field_simp
  linear_combination h'

theorem aff_ψ (x y : L) : Aff (some (ux x, uy y)) (ev (ux x)) (ev (uy y)) :=
  ⟨ux x, uy y, rfl, canon_ux x, canon_uy y, rfl, rfl⟩

/-- the x-coordinate of an untwisted point is not a non-zero element of Fp -/
theorem vertical_ne {a : K} (ha : a ≠ 0) (x : L) : ι a ≠ ev (ux x) := by
  intro h
  rw [ev_ux] at h
  have hω := ω_ne_zero
  have h2 : φ2 (φ.symm x) = ι a * ω ^ 2 := by
    rw [← Φ_apply, h]; field_simp
  have h3 : φ12 (lineElt (φ.symm x) 0 0) = φ12 (lineElt 0 (Quad.of a) 0) := by
    rw [φ12_lineElt, φ12_lineElt, φ2_of, h2]; simp
  have h4 := φ12_injective h3
  have h5 : (Quad.of a : F2) = 0 := by
    have := congrArg (fun z : F12 => z.c2.c0) h4
    simpa [lineElt] using this.symm
  apply ha
  have := congrArg Quad.c0 h5
  simpa using this

/-! ### the evaluation point P ∈ E(Fp) -/

/-- what the lockstep run needs to know about the evaluation point -/
structure PGood (P : SFp12 × SFp12) : Prop where
  onE : OnE (ev P.1) (ev P.2)
  base : OnBase (ev P.1) (ev P.2)
  x : ∃ a : K, a ≠ 0 ∧ ev P.1 = ι a

theorem five_pow : (5 : K) ^ ((p - 1) / 2) = -1 := by
  have h : Spec.EC.powMod 5 ((p - 1) / 2) p = p - 1 := by decide +kernel
  have hc := congrArg (Nat.cast : Nat → K) h
  rwa [SpecEC.cast_powMod, SM9FrobAll.cast_p_sub_one, Nat.cast_ofNat] at hc

/-- 5 is not a square modulo p (Euler's criterion) -/
theorem five_not_square (b : K) : b ^ 2 ≠ 5 := by
  intro h
  have e : p - 1 = 2 * ((p - 1) / 2) := by decide
  have h1 : b ^ (p - 1) = -1 := by rw [e, pow_mul, h, five_pow]
  by_cases hb : b = 0
  · rw [hb, zero_pow (by decide)] at h1
    exact absurd h1.symm (neg_ne_zero.2 one_ne_zero)
  · have h2 : b ^ (p - 1) = 1 := ZMod.pow_card_sub_one_eq_one hb
    rw [h1] at h2
    have h3 : (2 : K) = 0 := by linear_combination -h2
    exact SpecEC.two_ne_zero' (by decide) h3

theorem pgood_of_onCurve {P : Spec.EC.Pt} {P' : SFp12 × SFp12} (hc : Spec.EC.onCurve Spec.SM9.curve P = true)
    (he : Spec.SM9.embed1 P = some P') : PGood P' := by
  rcases P with _ | ⟨x, y⟩
  · simp [Spec.SM9.embed1] at he
  have e : P' = (Spec.SM9.Fp12.ofNat x, Spec.SM9.Fp12.ofNat y) := by
    simpa [Spec.SM9.embed1] using he.symm
  subst e
  simp only [Spec.EC.onCurve, Spec.SM9.curve, Bool.and_eq_true, beq_iff_eq] at hc
  have hq := (ZMod.natCast_eq_natCast_iff' _ _ p).2 hc.2
  simp only [Nat.cast_add, Nat.cast_mul, ZMod.natCast_mod, Spec.SM9.b, Nat.cast_ofNat, zero_mul,
    add_zero] at hq
  have hq' : (y : K) ^ 2 = (x : K) ^ 3 + 5 := by linear_combination hq
  refine ⟨?_, ⟨?_, ?_⟩, (x : K), ?_, ev_ofNat x⟩
  · show ev (Spec.SM9.Fp12.ofNat y) ^ 2 = ev (Spec.SM9.Fp12.ofNat x) ^ 3 + 5
    rw [ev_ofNat, ev_ofNat, ← map_pow, ← map_pow, hq', map_add, map_ofNat]
  · show σA (ev (Spec.SM9.Fp12.ofNat x)) = _
    rw [ev_ofNat, σ_ι]
  · show σA (ev (Spec.SM9.Fp12.ofNat y)) = _
    rw [ev_ofNat, σ_ι]
  · intro h0
    rw [h0] at hq'
    exact five_not_square (y : K) (by rw [hq']; ring)

/-! ### the multiples of a point of order N -/

/-- ψ([k]Q') -/
noncomputable def pt (Q' : W2.Point) (k : ℤ) : Pt12 := ψ (k • Q')

theorem pt_congr {Q' : W2.Point} {a b : ℤ} (h : a = b) : pt Q' a = pt Q' b := by rw [h]

theorem pt_one (Q' : W2.Point) : pt Q' 1 = ψ Q' := by rw [pt, one_zsmul]

theorem pt_neg (Q' : W2.Point) (k : ℤ) : neg12 (pt Q' k) = pt Q' (-k) := by rw [pt, pt, ψ_neg, neg_zsmul]

theorem Aff.x_eq {T : Pt12} {x y x' y' : A} (h : Aff T x y) (h' : Aff T x' y') : x = x' := by
  obtain ⟨a, b, rfl, -, -, rfl, -⟩ := h
  obtain ⟨a', b', e, -, -, rfl, -⟩ := h'
  obtain ⟨rfl, -⟩ : a = a' ∧ b = b' := by simpa using e
  rfl

section order
variable {Q' : W2.Point} (hord : addOrderOf Q' = N)
include hord

theorem pt_tangent {a : ℤ} (ha : ¬ (N : ℤ) ∣ a) (h2a : ¬ (N : ℤ) ∣ a + a) (P : SFp12 × SFp12) :
    TangentOK (pt Q' a) ∧ (lineAdd (pt Q' a) (pt Q' a) P).2 = pt Q' (2 * a) := by
  obtain ⟨x, y, h, hk, hy⟩ := zsmul_y_ne hord ha h2a
  refine ⟨tangentOK_ψ' hk hy, ?_⟩
  rw [pt, ψ_add_tangent' hk hy P, ← add_zsmul, two_mul, pt]

theorem pt_chord {a b : ℤ} (ha : ¬ (N : ℤ) ∣ a) (hb : ¬ (N : ℤ) ∣ b) (hab : ¬ (N : ℤ) ∣ a - b)
    (hab' : ¬ (N : ℤ) ∣ a + b) (P : SFp12 × SFp12) :
    ChordOK (pt Q' a) (pt Q' b) ∧ (lineAdd (pt Q' a) (pt Q' b) P).2 = pt Q' (a + b) := by
  obtain ⟨x1, y1, h1, x2, y2, h2, e1, e2, hx⟩ := zsmul_x_ne hord ha hb hab hab'
  refine ⟨chordOK_ψ' e1 e2 hx, ?_⟩
  rw [pt, pt, ψ_add_chord' e1 e2 hx P, ← add_zsmul, pt]

/-- the coordinates of ψ([k]Q'), N ∤ k -/
theorem pt_data {P : SFp12 × SFp12} (hP : PGood P) {k : ℤ} (hk : ¬ (N : ℤ) ∣ k) :
    ∃ x y, Aff (pt Q' k) x y ∧ OnE x y ∧ OnTw x y ∧ ev P.1 ≠ x := by
  rcases hA : k • Q' with _ | ⟨x, y, h⟩
  · exact absurd hA (zsmul_ne_zero hord hk)
  obtain ⟨a, ha, ea⟩ := hP.x
  refine ⟨ev (ux x), ev (uy y), ?_, onE_ψ h.1, onTw_ψ x y, ?_⟩
  · rw [pt, hA]; exact aff_ψ x y
  · rw [ea]; exact vertical_ne ha x

end order

end GmVerif.Proofs.SM9ChainIndep
