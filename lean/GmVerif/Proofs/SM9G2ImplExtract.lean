/-
C16 (extraction of the encryption / key-exchange private keys): the scalar computed by `extract_scalar`
(hash-to-range, addition, Fermat inverse, Barrett product modulo N) is the standard's `t2 = k·(H1(ID‖hid) + k)⁻¹`, and
`de = [t2]P2` is computed by the double-and-add of `TwistPoint.g_mul`.
-/
import GmVerif.Proofs.SM9G2ImplMul
import GmVerif.Thm.C16
import GmVerif.Thm.C13a
import GmVerif.Impl.SM9.Key
set_option autoImplicit false
namespace GmVerif.Proofs.SM9G2Impl
open GmVerif
open GmVerif.Spec.SM9 (N)
open _root_.GmVerif.Impl.SM9 (TwistPoint extract_scalar Sm9EncMasterKey Sm9EncKey)

theorem N_lt : N < 2 ^ 256 := by decide
theorem n_minus_two : Gen.SM9.N_MINUS_TWO = N - 2 := by decide

theorem mod_n_inv_eq (a : Nat) (ha : a < N) : Impl.SM9.mod_n_inv a = .ok (Spec.EC.invMod a N) := by
  unfold Impl.SM9.mod_n_inv Spec.EC.invMod
  rw [Thm.C13a.mod_n_pow_correct a _ ha, n_minus_two, Proofs.Primes.powMod_eq,
    Nat.mod_eq_of_lt (Nat.lt_of_le_of_lt (Nat.sub_le _ _) N_lt)]

theorem invMod_lt (a : Nat) : Spec.EC.invMod a N < N := by
  unfold Spec.EC.invMod; rw [Proofs.Primes.powMod_eq]; exact Nat.mod_lt _ (by decide : 0 < N)

theorem N_pos : 0 < N := by decide
theorem H1_lt (z : List UInt8) : Spec.SM9.H1 z < N := (SM9Algebra.hashToRange_range 0x01 z).2

theorem bind_ok {α β} (a : α) (f : α → Outcome β) : (Outcome.ok a).bind f = f a := rfl

/-- the `do` block, desugared (no evaluation of its parts) -/
theorem extract_scalar_eq (k : Nat) (id : List UInt8) (hid : UInt8) : extract_scalar k id hid =
    (Impl.SM9.sm9_u256_hash1 id hid).bind fun t =>
      if Impl.SM9.fp_is_zero (Impl.SM9.mod_n_add t k) then .ok none
      else (Impl.SM9.mod_n_inv (Impl.SM9.mod_n_add t k)).bind fun t =>
        (Impl.SM9.mod_n_mul t k).bind fun t => .ok (some t) := by
  unfold extract_scalar; rfl

/-- the scalar of the `extract_*key` functions is the standard's, for every master key k < N, identity and hid;
no panic (the Barrett product sees canonical operands only) -/
theorem extract_scalar_refines (k : Nat) (hk : k < N) (id : List UInt8) (hid : UInt8) :
    extract_scalar k id hid = .ok (Spec.SM9.extractScalar k id hid) := by
  have hH := H1_lt (id ++ [hid])
  rw [extract_scalar_eq, Thm.C16.hash1_refines, bind_ok, Thm.C13a.mod_n_add_correct _ _ hH hk]
  unfold Spec.SM9.extractScalar Impl.SM9.fp_is_zero
  by_cases h0 : (Spec.SM9.H1 (id ++ [hid]) + k) % N = 0
  · rw [h0]; rfl
  · have hlt : (Spec.SM9.H1 (id ++ [hid]) + k) % N < N := Nat.mod_lt _ N_pos
    have hb : ((Spec.SM9.H1 (id ++ [hid]) + k) % N == 0) = false := by simpa using h0
    rw [hb, mod_n_inv_eq _ hlt, bind_ok, Thm.C13a.mod_n_mul_correct _ _ (invMod_lt _) hk, bind_ok]
    simp only [Bool.false_eq_true, if_false, h0, Nat.mul_comm]

theorem extractScalar_lt {k : Nat} {id : List UInt8} {hid : UInt8} {t : Nat}
    (h : Spec.SM9.extractScalar k id hid = some t) : t < N := by
  unfold Spec.SM9.extractScalar at h
  simp only at h
  split at h
  · exact absurd h (by simp)
  · simp only [Option.some.injEq] at h
    rw [← h]; exact Nat.mod_lt _ N_pos

/-- the common shape of `extract_key` (hid = 03) and `extract_exch_key` (hid = 02) -/
def extractWith (m : Sm9EncMasterKey) (id : List UInt8) (hid : UInt8) : Outcome (Option Sm9EncKey) :=
  (extract_scalar m.ke id hid).bind fun o =>
    match o with
    | none => .ok none
    | some t => .ok (some ⟨m.ppube, TwistPoint.g_mul t⟩)

theorem extract_key_eq (m : Sm9EncMasterKey) (id : List UInt8) :
    m.extract_key id = extractWith m id Gen.SM9.HID_ENC := by
  unfold Sm9EncMasterKey.extract_key extractWith; rfl

theorem extract_exch_key_eq (m : Sm9EncMasterKey) (id : List UInt8) :
    m.extract_exch_key id = extractWith m id Gen.SM9.HID_EXCH := by
  unfold Sm9EncMasterKey.extract_exch_key extractWith; rfl

theorem extractWith_refines (m : Sm9EncMasterKey) (hke : m.ke < N) (id : List UInt8) (hid : UInt8) :
    ∃ r, extractWith m id hid = .ok r
      ∧ r.map (fun key => toSpec2 key.de) = Spec.SM9.extractEnc m.ke id hid
      ∧ ∀ key, r = some key → key.ppube = m.ppube ∧ Valid2 key.de := by
  unfold extractWith Spec.SM9.extractEnc
  rw [extract_scalar_refines _ hke, bind_ok]
  cases h : Spec.SM9.extractScalar m.ke id hid with
  | none =>
    refine ⟨none, ?_, ?_, ?_⟩
    · simp only
    · simp only [Option.map_none]
    · intro _ hk; exact absurd hk (by simp)
  | some t =>
    have ht : t < 2 ^ 256 := Nat.lt_trans (extractScalar_lt h) N_lt
    have hg := g_mul_correct t ht
    refine ⟨some ⟨m.ppube, TwistPoint.g_mul t⟩, ?_, ?_, ?_⟩
    · simp only
    · simp only [Option.map_some, hg.2]
    · intro key hk
      simp only [Option.some.injEq] at hk
      subst hk
      refine ⟨?_, ?_⟩
      · dsimp only
      · dsimp only
        exact hg.1

theorem hid_enc : Gen.SM9.HID_ENC = Spec.SM9.hidEnc := by decide
theorem hid_exch : Gen.SM9.HID_EXCH = Spec.SM9.hidExch := by decide

end GmVerif.Proofs.SM9G2Impl
