/-
The algebra behind the correctness of the textbook SM9 signature, public-key encryption and key exchange
(properties C09, C10, C17 at the Spec level).

G1 = ⟨P1⟩ ⊂ E(Fp) is handled by `Proofs.SpecEC` (Spec.EC is Mathlib's group), with the primality of `p` and `N`
from `Proofs.Primes`; G2 = ⟨P2⟩ ⊂ E'(Fp2) by `Proofs.SM9G2` (Fp2 is Mathlib's quadratic field, the twist a Mathlib group).
GT ⊂ Fp12 by `Proofs.SM9Fp12` (the dense Fp12 computes in Mathlib's quotient ring, hence the power laws).
What is NOT proved is the theory of the pairing (Miller functions): bilinearity on ⟨P1⟩ × ⟨P2⟩ is stated once, as the
one-field hypothesis structure `PairingFacts`; everything else is derived.
Plain computations (`P1 ∈ E`, `P2 ∈ E'`, `[N]P1 = O`, `[N]P2 = O`) are evaluated by the kernel.
-/
import GmVerif.Proofs.SpecEC
import GmVerif.Proofs.Primes
import GmVerif.Proofs.SM2Algebra
import GmVerif.Proofs.SM3
import GmVerif.Proofs.SM9G2
import GmVerif.Proofs.SM9Fp12
import GmVerif.Spec.SM9

namespace GmVerif.Proofs.SM9Algebra
open GmVerif GmVerif.Spec.EC GmVerif.Spec.SM9 GmVerif.Proofs.SpecEC

/-- What the protocol proofs need from `e : G1 × G2 → GT`: bilinearity on ⟨P1⟩ × ⟨P2⟩, in the textbook form
`e([a]P1, [b]P2) = e(P1, P2)^(ab)` (all naturals `a`, `b`, including the degenerate cases `[a]P1 = O`, `[b]P2 = O`).
A closed statement about the Spec functions that can be tested by evaluation on concrete `a`, `b`.
Everything else (the group laws of G1 and G2, the order of P1, `g^N = 1`, the power laws in Fp12) is proved. -/
structure PairingFacts : Prop where
  bilinear : ∀ a b : Nat,
    pairing (Spec.EC.mul curve a P1) (mul2 b P2) = Fp12.pow (pairing P1 P2) (a * b)

/-! ### plain computations -/

theorem sm9_P1_onCurve : onCurve curve P1 = true := by decide +kernel
theorem sm9_P2_onTwist : onTwist P2 = true := by decide +kernel
theorem sm9_disc_ne_zero : (4 * curve.a ^ 3 + 27 * curve.b ^ 2) % curve.p ≠ 0 := by decide +kernel
/-- kernel evaluation of the 256-step double-and-add with Fermat inverses (about 10 s) -/
theorem sm9_g1_order : mul curve N P1 = none := by decide +kernel
/-- the same on the twist over Fp2 (about 10 s) -/
theorem sm9_g2_order : mul2 N P2 = none := by decide +kernel

theorem two_lt_p : 2 < p := by decide
theorem two_lt_N : 2 < N := by decide
theorem N_pos : 0 < N := by decide
theorem p_lt : p < 2 ^ 256 := by decide

theorem p_prime : Nat.Prime p := Proofs.Primes.sm9_p_prime
theorem N_prime : Nat.Prime N := Proofs.Primes.sm9_N_prime

theorem sm9_valid : Valid curve := ⟨two_lt_p, sm9_disc_ne_zero⟩

instance : Fact (Nat.Prime curve.p) := ⟨p_prime⟩
instance : Fact (Nat.Prime N) := ⟨N_prime⟩
instance : NeZero N := ⟨by decide⟩

theorem P1_ne_none : P1 ≠ none := by simp [P1]

/-! ### G1 = ⟨P1⟩ -/

theorem g1_onCurve_mul (k : Nat) : onCurve curve (mul curve k P1) = true :=
  onCurve_mul sm9_valid k sm9_P1_onCurve

theorem g1_mul_add (k₁ k₂ : Nat) :
    mul curve (k₁ + k₂) P1 = add curve (mul curve k₁ P1) (mul curve k₂ P1) :=
  SpecEC.mul_add sm9_valid k₁ k₂ sm9_P1_onCurve

theorem g1_mul_mul (k₁ k₂ : Nat) : mul curve k₁ (mul curve k₂ P1) = mul curve (k₁ * k₂) P1 :=
  SpecEC.mul_mul sm9_valid k₁ k₂ sm9_P1_onCurve

/-- the order of `P1` is the prime `N` -/
theorem g1_mul_eq_none_iff (k : Nat) : mul curve k P1 = none ↔ N ∣ k :=
  mul_eq_none_iff_of_prime_order sm9_valid N_prime sm9_P1_onCurve P1_ne_none sm9_g1_order k

/-- `[r]([h]P1 + [k]P1) = [r(h + k)]P1` -/
theorem g1_ephemeral (r h k : Nat) :
    mul curve r (add curve (mul curve h P1) (mul curve k P1)) = mul curve (r * (h + k)) P1 := by
  rw [← g1_mul_add, g1_mul_mul]

/-! ### G2 = ⟨P2⟩ (the twist is a Mathlib group: `Proofs.SM9G2`) -/

theorem P2_ne_none : P2 ≠ none := by simp [P2]

theorem g2_mul_add (k₁ k₂ : Nat) : mul2 (k₁ + k₂) P2 = add2 (mul2 k₁ P2) (mul2 k₂ P2) :=
  SM9G2.mul2_add k₁ k₂ sm9_P2_onTwist

/-- the order of `P2` is the prime `N` -/
theorem g2_mul_eq_none_iff (k : Nat) : mul2 k P2 = none ↔ N ∣ k :=
  SM9G2.mul2_eq_none_iff_of_prime_order N_prime sm9_P2_onTwist P2_ne_none sm9_g2_order k

theorem mul2_zero (P : Pt2) : mul2 0 P = none := by
  rw [mul2]; simp

theorem add2_none_right (P : Pt2) : add2 P none = P := by
  rcases P with _ | ⟨x, y⟩ <;> simp [add2]

theorem mul2_one (P : Pt2) : mul2 1 P = P := by
  rw [mul2]; simp [mul2_zero, add2_none_right]

/-! ### H1, H2 and key extraction -/

theorem hashToRange_range (pre : UInt8) (z : List UInt8) :
    1 ≤ hashToRange pre z ∧ hashToRange pre z < N := by
  have h1 : 0 < N - 1 := by decide
  have := Nat.mod_lt (beNat ((Spec.SM9.hash ([pre] ++ z ++ natBE 4 1) ++ Spec.SM9.hash ([pre] ++ z ++ natBE 4 2)).take 40)) h1
  simp only [hashToRange]
  omega

theorem H2_range (z : List UInt8) : 1 ≤ H2 z ∧ H2 z < N := hashToRange_range _ z

/-- `t2 = k·(h1 + k)⁻¹` satisfies `t2·(h1 + k) ≡ k (mod N)` -/
theorem extractScalar_some {k : Nat} {id : List UInt8} {hid : UInt8} {t2 : Nat}
    (h : extractScalar k id hid = some t2) :
    (H1 (id ++ [hid]) + k) % N ≠ 0 ∧ t2 * (H1 (id ++ [hid]) + k) % N = k % N := by
  unfold extractScalar at h
  simp only at h
  split at h
  · exact absurd h (by simp)
  · next ht =>
    simp only [Option.some.injEq] at h
    refine ⟨ht, ?_⟩
    subst h
    rw [← ZMod.natCast_eq_natCast_iff']
    have hne : ((H1 (id ++ [hid]) : ZMod N) + (k : ZMod N)) ≠ 0 := by
      have : ((H1 (id ++ [hid]) + k : ℕ) : ZMod N) ≠ 0 := by
        rw [Ne, ZMod.natCast_eq_zero_iff, Nat.dvd_iff_mod_eq_zero]
        exact ht
      simpa using this
    push_cast [ZMod.natCast_mod, cast_invMod two_lt_N]
    field_simp

theorem extractEnc_some {ke : Nat} {id : List UInt8} {hid : UInt8} {de : Pt2}
    (h : extractEnc ke id hid = some de) :
    ∃ t2, de = mul2 t2 P2 ∧ (H1 (id ++ [hid]) + ke) % N ≠ 0 ∧
      t2 * (H1 (id ++ [hid]) + ke) % N = ke % N := by
  unfold extractEnc at h
  cases hsc : extractScalar ke id hid with
  | none => rw [hsc] at h; exact absurd h (by simp)
  | some t2 =>
    rw [hsc] at h
    simp only [Option.map_some, Option.some.injEq] at h
    obtain ⟨h1, h2⟩ := extractScalar_some hsc
    exact ⟨t2, h.symm, h1, h2⟩

/-- the ephemeral point `[r]([h1]P1 + [ke]P1)` of encryption and key exchange is not the point at infinity -/
theorem ephemeral_ne_none (r h1 ke : Nat) (hr : 1 ≤ r ∧ r < N) (ht : (h1 + ke) % N ≠ 0) :
    mul curve r (add curve (mul curve h1 P1) (mul curve ke P1)) ≠ none := by
  rw [g1_ephemeral, Ne, g1_mul_eq_none_iff, N_prime.dvd_mul]
  rintro (h | h)
  · have := Nat.le_of_dvd (by omega) h; omega
  · exact ht (Nat.mod_eq_zero_of_dvd h)

/-! ### octet strings, KDF, MAC -/

theorem bytes32_length (x : Nat) : (bytes32 x).length = 32 := SM2Algebra.natBE_length 32 x

theorem beNat_bytes32 (x : Nat) (h : x < p) : beNat (bytes32 x) = x := by
  rw [bytes32, SM2Algebra.beNat_natBE]
  exact Nat.mod_eq_of_lt (Nat.lt_trans h (by simpa using p_lt))

theorem encodePoint_length (x y : Nat) : (encodePoint (some (x, y))).length = 65 := by
  simp [encodePoint, pointBytes, bytes32_length]

theorem decode_encode (x y : Nat) (h : onCurve curve (some (x, y)) = true) :
    decodePoint (encodePoint (some (x, y))) = some (x, y) := by
  have hxy : x < p ∧ y < p := by
    simp only [onCurve, Bool.and_eq_true, decide_eq_true_eq] at h
    exact ⟨h.1.1, h.1.2⟩
  simp only [encodePoint, pointBytes, decodePoint]
  have hlen : (bytes32 x ++ bytes32 y).length = 64 := by simp [bytes32_length]
  rw [if_neg (by simp [hlen])]
  simp only [List.take_left' (bytes32_length x), List.drop_left' (bytes32_length x),
    beNat_bytes32 x hxy.1, beNat_bytes32 y hxy.2]
  rw [if_pos h]

theorem hash_length (m : List UInt8) : (Spec.SM9.hash m).length = 32 := Proofs.SM3.spec_hash_length m
theorem mac_length (k z : List UInt8) : (mac k z).length = 32 := hash_length _
theorem kdf_length (z : List UInt8) (klen : Nat) : (kdf z klen).length = klen := SM2Algebra.kdf_length z klen
theorem xorBytes_length (x y : List UInt8) : (xorBytes x y).length = min x.length y.length :=
  SM2Algebra.xorBytes_length x y
theorem xorBytes_cancel (x t : List UInt8) (h : x.length ≤ t.length) : xorBytes (xorBytes x t) t = x :=
  SM2Algebra.xorBytes_cancel x t h

/-- what `decrypt` computes on a well-formed concatenation C1 ‖ C3 ‖ C2 -/
theorem decrypt_concat (de : Pt2) (idB E c3 c2 : List UInt8) (hE : E.length = 65) (hc3 : c3.length = 32) :
    decrypt de idB (E ++ c3 ++ c2) =
      match decodePoint E with
      | none => none
      | some C1 =>
        let K := kdf (pointBytes (some C1) ++ Fp12.toBytes (pairing (some C1) de) ++ idB) (c2.length + k2Len)
        if (K.take c2.length).all (· == 0) then none
        else if mac (K.drop c2.length) c2 ≠ c3 then none
        else some (xorBytes c2 (K.take c2.length)) := by
  unfold decrypt
  have hlen : ¬ (E ++ c3 ++ c2).length < 65 + 32 := by
    simp only [List.length_append, hE, hc3]; omega
  rw [if_neg hlen]
  have h1 : (E ++ c3 ++ c2).take 65 = E := by rw [List.append_assoc, List.take_left' hE]
  have h2 : (E ++ c3 ++ c2).drop 65 = c3 ++ c2 := by rw [List.append_assoc, List.drop_left' hE]
  have h3 : (E ++ c3 ++ c2).drop 97 = c2 := by
    rw [List.drop_left' (by simp [hE, hc3])]
  simp only [h1, h2, h3, List.take_left' hc3]
  cases decodePoint E <;> rfl

/-! ### C17: the responder does answer (no pairing fact needed) -/

theorem exch_responder_some (ke : Nat) (idA idB : List UInt8) (deB : Pt2)
    (hB : extractEnc ke idB hidExch = some deB) (rA rB : Nat) (hrA : 1 ≤ rA ∧ rA < N) (klen : Nat) :
    ∃ skb, exchResponder (encMasterPub ke) deB idA idB (exchEphemeral (encMasterPub ke) idB rA) rB klen =
      some (exchEphemeral (encMasterPub ke) idA rB, skb) := by
  obtain ⟨tB, -, hneB, -⟩ := extractEnc_some hB
  have hRA : exchEphemeral (encMasterPub ke) idB rA =
      mul curve rA (add curve (mul curve (H1 (idB ++ [hidExch])) P1) (mul curve ke P1)) := rfl
  have hRAne : exchEphemeral (encMasterPub ke) idB rA ≠ none := by
    rw [hRA]; exact ephemeral_ne_none rA _ ke hrA hneB
  have hRAon : onCurve curve (exchEphemeral (encMasterPub ke) idB rA) = true := by
    rw [hRA, g1_ephemeral]; exact g1_onCurve_mul _
  generalize exchEphemeral (encMasterPub ke) idB rA = RA at hRAne hRAon ⊢
  unfold exchResponder
  cases RA with
  | none => exact absurd rfl hRAne
  | some qa => simp only [hRAon, not_true_eq_false, if_false]; exact ⟨_, rfl⟩

/-- the order of `P1` is the prime `N` -/
theorem sm9_mul_ne_none (k : Nat) (h : k % N ≠ 0) : mul curve k P1 ≠ none := by
  rw [Ne, g1_mul_eq_none_iff, Nat.dvd_iff_mod_eq_zero]
  exact h

/-! ### the pairing on ⟨P1⟩ × ⟨P2⟩, from `PairingFacts` -/

theorem pairing_none_left (Q : Pt2) : pairing none Q = Fp12.one := by
  unfold pairing
  cases untwist Q <;> rfl

section
variable (F : PairingFacts)
include F

/-- `g^N = 1` for `g = e(P1, P2)`: bilinearity at `(N, 1)` and `[N]P1 = O` -/
theorem gt_order : Fp12.pow (pairing P1 P2) N = Fp12.one := by
  have := F.bilinear N 1
  rwa [sm9_g1_order, pairing_none_left, Nat.mul_one, eq_comm] at this

/-- bilinearity with the exponent reduced mod N -/
theorem bilinear_mod (a b : Nat) :
    pairing (mul curve a P1) (mul2 b P2) = Fp12.pow (pairing P1 P2) (a * b % N) := by
  rw [F.bilinear, SM9Fp12.pow_mod_of_order _ N (gt_order F)]

/-- `(g^a)^b = g^(ab mod N)` -/
theorem pow_pow_mod (a b : Nat) :
    Fp12.pow (Fp12.pow (pairing P1 P2) a) b = Fp12.pow (pairing P1 P2) (a * b % N) := by
  rw [SM9Fp12.pow_pow, SM9Fp12.pow_mod_of_order _ N (gt_order F)]

/-- `g^a · g^b = g^((a+b) mod N)` -/
theorem pow_mul_mod (a b : Nat) :
    Fp12.mul (Fp12.pow (pairing P1 P2) a) (Fp12.pow (pairing P1 P2) b) =
      Fp12.pow (pairing P1 P2) ((a + b) % N) := by
  rw [SM9Fp12.pow_mul, SM9Fp12.pow_mod_of_order _ N (gt_order F)]

theorem pair_P1 (b : Nat) : pairing P1 (mul2 b P2) = Fp12.pow (pairing P1 P2) (b % N) := by
  have := bilinear_mod F 1 b
  rwa [SpecEC.mul_one, Nat.one_mul] at this

theorem pair_P2 (a : Nat) : pairing (mul curve a P1) P2 = Fp12.pow (pairing P1 P2) (a % N) := by
  have := bilinear_mod F a 1
  rwa [mul2_one, Nat.mul_one] at this

/-! ### C09 -/

/-- `e([r−h][t2]P1, [h1]P2 + [ks]P2) · e(P1, [ks]P2)^h = e(P1, [ks]P2)^r` -/
theorem sign_w_eq (ks t2 h1 r h : Nat) (hh : h ≤ N) (ht : t2 * (h1 + ks) % N = ks % N) :
    Fp12.mul
        (pairing (mul curve ((r + (N - h)) % N) (mul curve t2 P1)) (add2 (mul2 h1 P2) (mul2 ks P2)))
        (Fp12.pow (pairing P1 (mul2 ks P2)) h) =
      Fp12.pow (pairing P1 (mul2 ks P2)) r := by
  rw [g1_mul_mul, ← g2_mul_add, bilinear_mod F, pair_P1 F, pow_pow_mod F, pow_pow_mod F, pow_mul_mod F]
  congr 1
  rw [← ZMod.natCast_eq_natCast_iff'] at ht ⊢
  push_cast [ZMod.natCast_mod] at ht ⊢
  have hl : (((N - h : ℕ)) : ZMod N) = -(h : ZMod N) := cast_sub_of_le hh
  rw [hl]
  linear_combination ((r : ZMod N) - (h : ZMod N)) * ht

theorem sign_then_verify (ks : Nat) (id msg : List UInt8) (ds : Pt)
    (hds : extractSign ks id = some ds) (r h : Nat) (S : Pt)
    (hs : signWith (signMasterPub ks) ds msg r = some (h, S)) :
    verify (signMasterPub ks) id msg h S = true ∧ 1 ≤ h ∧ h < N := by
  unfold extractSign at hds
  cases hsc : extractScalar ks id hidSign with
  | none => rw [hsc] at hds; exact absurd hds (by simp)
  | some t2 =>
    rw [hsc] at hds
    simp only [Option.map_some, Option.some.injEq] at hds
    obtain ⟨-, ht⟩ := extractScalar_some hsc
    have hQ : signMasterPub ks = mul2 ks P2 := rfl
    rw [hQ] at hs ⊢
    unfold signWith at hs
    simp only at hs
    by_cases hl : (r + (N - H2 (msg ++ Fp12.toBytes (Fp12.pow (pairing P1 (mul2 ks P2)) r)))) % N = 0
    · rw [if_pos hl] at hs; exact absurd hs (by simp)
    · rw [if_neg hl] at hs
      simp only [Option.some.injEq, Prod.mk.injEq] at hs
      obtain ⟨hh, hS⟩ := hs
      have hr := H2_range (msg ++ Fp12.toBytes (Fp12.pow (pairing P1 (mul2 ks P2)) r))
      rw [hh] at hr hS
      refine ⟨?_, hr⟩
      have hon : onCurve curve S = true := by
        rw [← hS, ← hds, g1_mul_mul]; exact g1_onCurve_mul _
      unfold verify
      rw [if_neg (by omega), if_neg (by simp [hon])]
      simp only [beq_iff_eq]
      rw [← hS, ← hds]
      rw [sign_w_eq F ks t2 _ r h (by omega) ht]
      exact hh

/-! ### C10 -/

/-- `e([r]([h1]P1 + [ke]P1), [t2]P2) = e([ke]P1, P2)^r` -/
theorem enc_w_eq (ke t2 h1 r : Nat) (ht : t2 * (h1 + ke) % N = ke % N) :
    pairing (mul curve r (add curve (mul curve h1 P1) (mul curve ke P1))) (mul2 t2 P2) =
      Fp12.pow (pairing (mul curve ke P1) P2) r := by
  rw [g1_ephemeral, bilinear_mod F, pair_P2 F, pow_pow_mod F]
  congr 1
  rw [← ZMod.natCast_eq_natCast_iff'] at ht ⊢
  push_cast [ZMod.natCast_mod] at ht ⊢
  linear_combination (r : ZMod N) * ht

theorem decrypt_encrypt (ke : Nat) (id msg : List UInt8) (de : Pt2)
    (hde : extractEnc ke id hidEnc = some de) (r : Nat) (hr : 1 ≤ r ∧ r < N) (ct : List UInt8)
    (h : encryptWith (encMasterPub ke) id msg r = some ct) : decrypt de id ct = some msg := by
  obtain ⟨t2, rfl, hne, ht⟩ := extractEnc_some hde
  have hP : encMasterPub ke = mul curve ke P1 := rfl
  rw [hP] at h
  unfold encryptWith at h
  simp only at h
  cases hC1 : mul curve r (add curve (mul curve (H1 (id ++ [hidEnc])) P1) (mul curve ke P1)) with
  | none => exact absurd hC1 (ephemeral_ne_none r _ ke hr hne)
  | some q =>
    obtain ⟨xc, yc⟩ := q
    have hon : onCurve curve (some (xc, yc)) = true := by
      rw [← hC1, g1_ephemeral]; exact g1_onCurve_mul _
    have hw := enc_w_eq F ke t2 (H1 (id ++ [hidEnc])) r ht
    rw [hC1] at h hw
    have hKlen := kdf_length (pointBytes (some (xc, yc)) ++
      Fp12.toBytes (Fp12.pow (pairing (mul curve ke P1) P2) r) ++ id) (msg.length + k2Len)
    generalize hK : kdf (pointBytes (some (xc, yc)) ++
      Fp12.toBytes (Fp12.pow (pairing (mul curve ke P1) P2) r) ++ id) (msg.length + k2Len) = K at h hKlen
    by_cases hz : ((K.take msg.length).all (· == 0)) = true
    · rw [if_pos hz] at h; exact absurd h (by simp)
    · rw [if_neg hz] at h
      simp only [Option.some.injEq] at h
      subst h
      have hK1len : (K.take msg.length).length = msg.length := by
        rw [List.length_take, hKlen]; omega
      have hC2len : (xorBytes msg (K.take msg.length)).length = msg.length := by
        rw [xorBytes_length, hK1len, Nat.min_self]
      rw [decrypt_concat _ _ _ _ _ (encodePoint_length _ _) (mac_length _ _), decode_encode xc yc hon]
      simp only [hw, hC2len, hK]
      rw [if_neg hz, if_neg (by simp), xorBytes_cancel msg _ (le_of_eq hK1len.symm)]

/-! ### C17 -/

/-- `(e([ke]P1, P2)^a)^b = (e([ke]P1, P2)^b)^a` -/
theorem pow_pow_comm (ke a b : Nat) :
    Fp12.pow (Fp12.pow (pairing (mul curve ke P1) P2) a) b =
      Fp12.pow (Fp12.pow (pairing (mul curve ke P1) P2) b) a := by
  rw [pair_P2 F, pow_pow_mod F, pow_pow_mod F, pow_pow_mod F, pow_pow_mod F]
  congr 1
  rw [← ZMod.natCast_eq_natCast_iff']
  push_cast [ZMod.natCast_mod]
  ring

theorem exch_agree (ke : Nat) (idA idB : List UInt8) (deA deB : Pt2)
    (hA : extractEnc ke idA hidExch = some deA) (hB : extractEnc ke idB hidExch = some deB)
    (rA rB : Nat) (hrA : 1 ≤ rA ∧ rA < N) (hrB : 1 ≤ rB ∧ rB < N) (klen : Nat) (RB : Pt)
    (skb : List UInt8)
    (h : exchResponder (encMasterPub ke) deB idA idB (exchEphemeral (encMasterPub ke) idB rA) rB klen =
      some (RB, skb)) :
    exchInitiator (encMasterPub ke) deA idA idB rA (exchEphemeral (encMasterPub ke) idB rA) RB klen =
      some skb := by
  obtain ⟨tA, rfl, hneA, htA⟩ := extractEnc_some hA
  obtain ⟨tB, rfl, hneB, htB⟩ := extractEnc_some hB
  have hP : encMasterPub ke = mul curve ke P1 := rfl
  rw [hP] at h ⊢
  have hwA := enc_w_eq F ke tB (H1 (idB ++ [hidExch])) rA htB
  have hwB := enc_w_eq F ke tA (H1 (idA ++ [hidExch])) rB htA
  have hRA : exchEphemeral (mul curve ke P1) idB rA =
      mul curve rA (add curve (mul curve (H1 (idB ++ [hidExch])) P1) (mul curve ke P1)) := rfl
  have hRB : exchEphemeral (mul curve ke P1) idA rB =
      mul curve rB (add curve (mul curve (H1 (idA ++ [hidExch])) P1) (mul curve ke P1)) := rfl
  rw [← hRA] at hwA
  rw [← hRB] at hwB
  have hRAne : exchEphemeral (mul curve ke P1) idB rA ≠ none := by
    rw [hRA]; exact ephemeral_ne_none rA _ ke hrA hneB
  have hRBne : exchEphemeral (mul curve ke P1) idA rB ≠ none := by
    rw [hRB]; exact ephemeral_ne_none rB _ ke hrB hneA
  have hRBon : onCurve curve (exchEphemeral (mul curve ke P1) idA rB) = true := by
    rw [hRB, g1_ephemeral]; exact g1_onCurve_mul _
  generalize exchEphemeral (mul curve ke P1) idB rA = RA at h hwA hRAne ⊢
  unfold exchResponder at h
  cases RA with
  | none => exact absurd rfl hRAne
  | some qa =>
    simp only at h
    split at h
    · exact absurd h (by simp)
    · simp only [Option.some.injEq, Prod.mk.injEq] at h
      obtain ⟨hRBeq, hsk⟩ := h
      subst hRBeq
      unfold exchInitiator
      generalize exchEphemeral (mul curve ke P1) idA rB = RB at hsk hwB hRBne hRBon ⊢
      cases RB with
      | none => exact absurd rfl hRBne
      | some qb =>
        simp only [hRBon, not_true_eq_false, if_false]
        rw [← hsk, hwA, hwB, pow_pow_comm F ke rB rA]

end

/-- the hypothesis in the "reduced" form: bilinearity with exponents mod N together with `g^N = 1` -/
theorem PairingFacts.of_mod
    (hb : ∀ a b : Nat, pairing (mul curve a P1) (mul2 b P2) = Fp12.pow (pairing P1 P2) (a * b % N))
    (ho : Fp12.pow (pairing P1 P2) N = Fp12.one) : PairingFacts :=
  ⟨fun a b => by rw [hb, ← SM9Fp12.pow_mod_of_order _ N ho]⟩

end GmVerif.Proofs.SM9Algebra
