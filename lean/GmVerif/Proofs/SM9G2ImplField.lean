/-
Transfer layer for the G2 point proofs: the coefficient ring `F2 = Quad (ZMod p) (−2)` of C13b is (ring-)isomorphic to
Mathlib's field `L = QuadraticAlgebra (ZMod p) (−2) 0` in which `Proofs.SM9G2` interprets `Spec.SM9.Fp2`;
`enc2 : L → Impl.SM9.Fp2` is the canonical Montgomery representative, and every `Fp2` method of the model is a
rewriting rule on `enc2` (from the `Ok2` rules of `Proofs.SM9Tower` with the bundle `fp_facts` discharged).
-/
import Mathlib.Algebra.Ring.Equiv
import GmVerif.Proofs.SM9FpFacts
import GmVerif.Proofs.SM9TowerNonRes
import GmVerif.Proofs.SM9G2
set_option autoImplicit false
namespace GmVerif.Proofs.SM9G2ImplField
open GmVerif
open GmVerif.Spec.SM9 (p)
open GmVerif.Proofs.SM9Tower
open GmVerif.Proofs.SM9FpFacts (fp_facts)
open _root_.GmVerif.Impl.SM9 (Fp2)

/-- Mathlib's Fp2 (the field of `Proofs.SM9G2`) -/
abbrev L : Type := Proofs.SM9G2.K

/-- the ring isomorphism F2 ≃ L (same coefficients) -/
def φ : F2 ≃+* L where
  toFun x := ⟨x.c0, x.c1⟩
  invFun X := ⟨X.re, X.im⟩
  left_inv x := rfl
  right_inv X := rfl
  map_mul' x y := by
    apply QuadraticAlgebra.ext
    · simp only [QuadraticAlgebra.re_mul, Quad.mul_c0]; ring
    · simp only [QuadraticAlgebra.im_mul, Quad.mul_c1]; ring
  map_add' x y := by
    apply QuadraticAlgebra.ext <;> simp

@[simp] theorem φ_re (x : F2) : (φ x).re = x.c0 := rfl
@[simp] theorem φ_im (x : F2) : (φ x).im = x.c1 := rfl
@[simp] theorem φ_symm_c0 (X : L) : (φ.symm X).c0 = X.re := rfl
@[simp] theorem φ_symm_c1 (X : L) : (φ.symm X).c1 = X.im := rfl

/-- 5u, the coefficient of the twist, in both rings -/
def b2 : F2 := ⟨0, 5⟩
def bL : L := ⟨0, 5⟩
theorem φ_b2 : φ b2 = bL := rfl
theorem b2_eq : b2 = Quad.of 5 * u := by ext <;> simp [b2]

theorem φ_half : φ (Quad.of half) = (2 : L)⁻¹ := by
  have h := congrArg φ two_half2
  rw [map_mul, map_one, map_ofNat, half2] at h
  exact eq_inv_of_mul_eq_one_right h

theorem two_ne_zero_L : (2 : L) ≠ 0 := by
  intro h
  have h' := congrArg φ.symm h
  rw [map_ofNat, map_zero] at h'
  have h0 := congrArg Quad.c0 h'
  rw [Quad.two_eq] at h0
  exact two_ne_zero' h0

/-! ### canonical Montgomery representatives -/

/-- irreducible: the unifier must never try to evaluate `2 ^ 256` in `ZMod p` -/
@[irreducible] def encN (v : ZMod p) : Nat := (v * (2 : ZMod p) ^ 256).val

theorem ok_encN (v : ZMod p) : Ok (encN v) v := by
  unfold encN
  refine ⟨ZMod.val_lt _, ?_⟩
  unfold dec
  rw [ZMod.natCast_zmod_val, mul_assoc, R_Rinv, mul_one]

def enc2 (X : L) : Fp2 := ⟨encN X.re, encN X.im⟩

theorem ok2_enc2 (X : L) : Ok2 (enc2 X) (φ.symm X) := by
  constructor
  · show Ok (encN X.re) (φ.symm X).c0
    rw [φ_symm_c0]; exact ok_encN _
  · show Ok (encN X.im) (φ.symm X).c1
    rw [φ_symm_c1]; exact ok_encN _

theorem eq_enc2_of_ok2 {a : Fp2} {x : F2} (h : Ok2 a x) : a = enc2 (φ x) := by
  cases a with
  | mk a0 a1 =>
    simp only [enc2, Fp2.mk.injEq]
    exact ⟨(h.1.eq_iff (ok_encN _)).2 rfl, (h.2.eq_iff (ok_encN _)).2 rfl⟩

/-- decoding into L -/
def decL (a : Fp2) : L := φ (dec2 a)

theorem decL_enc2 (X : L) : decL (enc2 X) = X := by
  unfold decL; rw [(ok2_enc2 X).out.2, RingEquiv.apply_symm_apply]

theorem enc2_decL {a : Fp2} (h : Canon2 a) : enc2 (decL a) = a := (eq_enc2_of_ok2 (ok2_dec h)).symm

theorem canon2_enc2 (X : L) : Canon2 (enc2 X) := (ok2_enc2 X).out.1

theorem dec2_enc2 (X : L) : dec2 (enc2 X) = φ.symm X := (ok2_enc2 X).out.2

theorem enc2_injective : Function.Injective enc2 := fun X Y h => by
  rw [← decL_enc2 X, ← decL_enc2 Y, h]

/-- a relational fact about a model value is an equation on `enc2` -/
theorem enc2_of_ok2 {a : Fp2} {X : L} (h : Ok2 a (φ.symm X)) : a = enc2 X := by
  rw [eq_enc2_of_ok2 h, RingEquiv.apply_symm_apply]

/-! ### the model's Fp2 methods on `enc2` -/

theorem zero_eq : Fp2.zero = enc2 0 := enc2_of_ok2 (ok2_zero.cast (map_zero _).symm)
theorem one_eq : Fp2.one = enc2 1 := enc2_of_ok2 (ok2_one.cast (map_one _).symm)

theorem fp_mul_enc2 (X Y : L) : (enc2 X).fp_mul (enc2 Y) = enc2 (X * Y) :=
  enc2_of_ok2 ((fp_facts.o2_mul (ok2_enc2 X) (ok2_enc2 Y)).cast (map_mul _ _ _).symm)
theorem fp_sqr_enc2 (X : L) : (enc2 X).fp_sqr = enc2 (X * X) :=
  enc2_of_ok2 ((fp_facts.o2_sqr (ok2_enc2 X)).cast (map_mul _ _ _).symm)
theorem fp_add_enc2 (X Y : L) : (enc2 X).fp_add (enc2 Y) = enc2 (X + Y) :=
  enc2_of_ok2 ((fp_facts.o2_add (ok2_enc2 X) (ok2_enc2 Y)).cast (map_add _ _ _).symm)
theorem fp_sub_enc2 (X Y : L) : (enc2 X).fp_sub (enc2 Y) = enc2 (X - Y) :=
  enc2_of_ok2 ((fp_facts.o2_sub (ok2_enc2 X) (ok2_enc2 Y)).cast (map_sub _ _ _).symm)
theorem fp_neg_enc2 (X : L) : (enc2 X).fp_neg = enc2 (-X) :=
  enc2_of_ok2 ((fp_facts.o2_neg (ok2_enc2 X)).cast (map_neg _ _).symm)
theorem fp_double_enc2 (X : L) : (enc2 X).fp_double = enc2 (X + X) :=
  enc2_of_ok2 ((fp_facts.o2_double (ok2_enc2 X)).cast (map_add _ _ _).symm)
theorem fp_triple_enc2 (X : L) : (enc2 X).fp_triple = enc2 (X + X + X) :=
  enc2_of_ok2 ((fp_facts.o2_triple (ok2_enc2 X)).cast (by rw [map_add, map_add]))
theorem fp_div2_enc2 (X : L) : (enc2 X).fp_div2 = enc2 (X * 2⁻¹) := by
  have h := fp_facts.o2_div2 (ok2_enc2 X)
  rw [eq_enc2_of_ok2 h, map_mul, RingEquiv.apply_symm_apply, φ_half]

theorem is_zero_enc2 (X : L) : (enc2 X).is_zero = true ↔ X = 0 := by
  rw [(ok2_enc2 X).is_zero_iff, map_eq_zero_iff _ φ.symm.injective]
theorem eq_enc2 (X Y : L) : (enc2 X).eq (enc2 Y) = true ↔ X = Y := by
  rw [(ok2_enc2 X).eq_iff (ok2_enc2 Y), φ.symm.injective.eq_iff]

/-- the Montgomery form of 5u: `⟨0, MODP_MONT_FIVE⟩` -/
theorem mont_five_lt : Gen.SM9.MODP_MONT_FIVE < p := by decide
theorem ok_mont_five : Ok Gen.SM9.MODP_MONT_FIVE 5 := by
  refine ⟨mont_five_lt, ?_⟩
  have h : Gen.SM9.MODP_MONT_FIVE = 5 * 2 ^ 256 % p := by decide
  rw [h, dec, ZMod.natCast_mod, Nat.cast_mul, Nat.cast_pow, Nat.cast_ofNat, Nat.cast_ofNat, mul_assoc, R_Rinv, mul_one]
theorem mont_b_eq : (⟨0, Gen.SM9.MODP_MONT_FIVE⟩ : Fp2) = enc2 bL :=
  enc2_of_ok2 (show Ok2 (⟨0, Gen.SM9.MODP_MONT_FIVE⟩ : Fp2) (φ.symm bL) from ⟨ok_zero, ok_mont_five⟩)

/-! ### −5u is not a cube in Fp2 (no point of order two on the twist) -/

theorem fifty_pow_ne_one : Spec.EC.powMod 50 ((p - 1) / 3) p ≠ 1 := by decide +kernel

theorem fifty_noncube : ∀ x : K, x ^ 3 ≠ 50 := by
  have hp : Fact (Nat.Prime p) := ⟨p_prime⟩
  intro x hx
  have h50 : (50 : K) ≠ 0 := by
    intro h
    have h' : ((50 : ℕ) : K) = 0 := by exact_mod_cast h
    rw [ZMod.natCast_eq_zero_iff] at h'
    exact absurd (Nat.le_of_dvd (by decide) h') (by decide)
  have hx0 : x ≠ 0 := by
    rintro rfl
    exact h50 (by rw [← hx]; ring)
  have h1 : x ^ (p - 1) = 1 := ZMod.pow_card_sub_one_eq_one hx0
  rw [p_sub_one, pow_mul, hx] at h1
  have h2 := (Primes.zmod_pow_eq_one_iff p 50 ((p - 1) / 3) one_lt_p).1 (by exact_mod_cast h1)
  exact fifty_pow_ne_one h2

theorem neg_b2_noncube : ∀ t : F2, t ^ 3 ≠ -b2 := by
  intro t ht
  rw [pow_three'] at ht
  have h := congrArg Quad.norm ht
  rw [Quad.norm_mul, Quad.norm_mul] at h
  have hb : (-b2 : F2).norm = 50 := by simp [Quad.norm, b2]; ring
  rw [hb] at h
  exact fifty_noncube t.norm (by rw [pow_three']; exact h)

theorem neg_bL_noncube : ∀ T : L, T ^ 3 ≠ -bL := by
  intro T hT
  apply neg_b2_noncube (φ.symm T)
  rw [← map_pow, hT, map_neg, ← φ_b2, RingEquiv.symm_apply_apply]

end GmVerif.Proofs.SM9G2ImplField
