/-
Inversion in the specification's dense Fp12 (`Spec.SM9.Fp12.inv`: extended Euclid in Fp[w] on coefficient lists)
computes the inverse in `AdjoinRoot (X¹² + 2)` over `ZMod p`:  `ev a * ev (Fp12.inv a) = 1` for canonical `a` with
`ev a ≠ 0`, and the result is always the canonical representative.
Route: `polyNorm` ↔ degree of `poly`; long division `polyDivModAux` (value invariant, remainder normalised, reduced and
shorter than the divisor); `egcdAux` (Bezout invariant in the quotient ring, coprimality of consecutive remainders,
which holds at the start because `ev a` is invertible, `hasInv_adjoin`); the last non-zero remainder is a unit constant.
-/
import GmVerif.Proofs.SM9PairingReduce
set_option autoImplicit false
namespace GmVerif.Proofs.SM9Fp12Inv
open GmVerif GmVerif.Spec.SM9 GmVerif.Proofs.SM9Fp12
open Polynomial

/-! ### normalised lists and degrees -/

/-- all coefficients reduced -/
def Red (l : List Nat) : Prop := ∀ x ∈ l, x < p
/-- no leading zero coefficient -/
def Nz (l : List Nat) : Prop := ∀ h : l ≠ [], l.getLast h ≠ 0

theorem polyNorm_snoc (l : List Nat) (x : Nat) :
    polyNorm (l ++ [x]) = if x = 0 then polyNorm l else l ++ [x] := by
  simp only [polyNorm, List.reverse_append, List.reverse_singleton, List.singleton_append, List.dropWhile_cons]
  split
  · next h => simp at h; simp [h]
  · next h => simp at h; simp [h]

theorem polyNorm_prefix (l : List Nat) : polyNorm l <+: l := by
  have := List.reverse_prefix.mpr (List.dropWhile_suffix (l := l.reverse) (· == 0))
  simpa [polyNorm] using this

theorem length_polyNorm_le (l : List Nat) : (polyNorm l).length ≤ l.length :=
  (polyNorm_prefix l).length_le

theorem red_polyNorm {l : List Nat} (h : Red l) : Red (polyNorm l) :=
  fun x hx => h x ((polyNorm_prefix l).subset hx)

theorem nz_polyNorm (l : List Nat) : Nz (polyNorm l) := by
  induction l using List.reverseRecOn with
  | nil => intro h; exact absurd rfl h
  | append_singleton l x ih =>
    rw [polyNorm_snoc]
    split
    · exact ih
    · next hx => intro h; simpa using hx

theorem polyNorm_of_nz {l : List Nat} (h : Nz l) : polyNorm l = l := by
  induction l using List.reverseRecOn with
  | nil => rfl
  | append_singleton l x ih =>
    have := h (by simp)
    rw [polyNorm_snoc, if_neg (by simpa using this)]

theorem poly_polyNorm (l : List Nat) : poly (polyNorm l) = poly l := by
  induction l using List.reverseRecOn with
  | nil => rfl
  | append_singleton l x ih =>
    rw [polyNorm_snoc]
    split
    · next hx => rw [ih, poly_append, hx]; simp
    · rfl

theorem coeff_poly (l : List Nat) (i : Nat) : (poly l).coeff i = ((l.getD i 0 : Nat) : ZMod p) := by
  induction l generalizing i with
  | nil => simp
  | cons x xs ih =>
    cases i with
    | zero => simp
    | succ k => simp [coeff_X_mul, ih]

theorem cast_ne_zero {x : Nat} (h0 : x ≠ 0) (hp : x < p) : (x : ZMod p) ≠ 0 := by
  intro h
  rw [ZMod.natCast_eq_zero_iff] at h
  exact h0 (Nat.eq_zero_of_dvd_of_lt h hp)

/-- top coefficient of a non-empty normalised reduced list -/
theorem coeff_top {l : List Nat} (hr : Red l) (hn : Nz l) (h0 : l ≠ []) :
    (poly l).coeff (l.length - 1) = ((l.getLastD 0 : Nat) : ZMod p) ∧ ((l.getLastD 0 : Nat) : ZMod p) ≠ 0 := by
  have hl : l.getLastD 0 = l.getLast h0 := by
    rw [List.getLastD_eq_getLast?, List.getLast?_eq_some_getLast h0]; rfl
  refine ⟨?_, ?_⟩
  · rw [coeff_poly, hl, List.getLast_eq_getElem]
    have : l.length - 1 < l.length := by
      have := List.length_pos_of_ne_nil h0; omega
    simp [List.getD_eq_getElem?_getD, this]
  · rw [hl]; exact cast_ne_zero (hn h0) (hr _ (List.getLast_mem h0))

theorem poly_eq_zero_iff {l : List Nat} (hr : Red l) (hn : Nz l) : poly l = 0 ↔ l = [] := by
  constructor
  · intro h
    by_contra h0
    obtain ⟨h1, h2⟩ := coeff_top hr hn h0
    rw [h, coeff_zero] at h1
    exact h2 h1.symm
  · rintro rfl; rfl

theorem natDegree_poly {l : List Nat} (hr : Red l) (hn : Nz l) (h0 : l ≠ []) :
    (poly l).natDegree = l.length - 1 := by
  obtain ⟨h1, h2⟩ := coeff_top hr hn h0
  apply natDegree_eq_of_le_of_coeff_ne_zero
  · rw [natDegree_le_iff_coeff_eq_zero]
    intro N hN
    exact coeff_poly_of_le l N (by omega)
  · rw [h1]; exact h2

theorem leadingCoeff_poly {l : List Nat} (hr : Red l) (hn : Nz l) (h0 : l ≠ []) :
    (poly l).leadingCoeff = ((l.getLastD 0 : Nat) : ZMod p) := by
  rw [leadingCoeff, natDegree_poly hr hn h0]; exact (coeff_top hr hn h0).1

theorem degree_lt_iff {l : List Nat} (hr : Red l) (hn : Nz l) (n : Nat) :
    (poly l).degree < n ↔ l.length ≤ n := by
  constructor
  · intro h
    by_contra hlt
    have h0 : l ≠ [] := by rintro rfl; simp at hlt
    obtain ⟨h1, h2⟩ := coeff_top hr hn h0
    have : (poly l).coeff (l.length - 1) = 0 :=
      coeff_eq_zero_of_degree_lt (lt_of_lt_of_le h (by exact_mod_cast (by omega : n ≤ l.length - 1)))
    exact h2 (h1 ▸ this)
  · intro h
    exact lt_of_lt_of_le (degree_poly_lt l) (by exact_mod_cast h)

/-! ### long division -/

theorem poly_polyMul (a c : List Nat) : poly (polyMul a c) = poly a * poly c := by
  rw [polyMul, poly_map_mod, poly_rawMul]

theorem poly_monomial (k c : Nat) : poly (List.replicate k 0 ++ [c]) = X ^ k * C (c : ZMod p) := by
  rw [poly_append, poly_replicate_zero]; simp

/-- one division step strictly shortens the normalised remainder -/
theorem step_length {r d : List Nat} (hr : Red r) (hrn : Nz r) (hd : Red d) (hdn : Nz d) (hd0 : d ≠ [])
    (hle : d.length ≤ r.length) (lcInv : Nat) (hlc : (lcInv : ZMod p) * ((d.getLastD 0 : Nat) : ZMod p) = 1) :
    (polyNorm (polySub r (polyMul (List.replicate (r.length - d.length) 0 ++ [r.getLastD 0 * lcInv % p]) d))).length
      < r.length := by
  have hdpos := List.length_pos_of_ne_nil hd0
  have hr0 : r ≠ [] := by
    rintro rfl
    have : d.length ≤ 0 := hle
    omega
  have hPr : poly r ≠ 0 := fun h => hr0 ((poly_eq_zero_iff hr hrn).mp h)
  have hPd : poly d ≠ 0 := fun h => hd0 ((poly_eq_zero_iff hd hdn).mp h)
  obtain ⟨_, hlr⟩ := coeff_top hr hrn hr0
  have hinv : (lcInv : ZMod p) ≠ 0 := by
    intro h; rw [h, zero_mul] at hlc; exact zero_ne_one hlc
  set k := r.length - d.length with hk
  set c : ZMod p := ((r.getLastD 0 : Nat) : ZMod p) * (lcInv : ZMod p) with hc
  have hc0 : c ≠ 0 := mul_ne_zero hlr hinv
  have hm : poly (List.replicate k 0 ++ [r.getLastD 0 * lcInv % p]) = X ^ k * C c := by
    rw [poly_monomial, ZMod.natCast_mod]; push_cast; rfl
  have hQ : poly (polySub r (polyMul (List.replicate k 0 ++ [r.getLastD 0 * lcInv % p]) d))
      = poly r - X ^ k * C c * poly d := by
    rw [poly_polySub, poly_polyMul, hm]
  have hCc : C c ≠ 0 := by rwa [Ne, C_eq_zero]
  have hdeg : (poly r).degree = (X ^ k * C c * poly d).degree := by
    rw [degree_mul, degree_mul, degree_X_pow, degree_C hc0, degree_eq_natDegree hPr, degree_eq_natDegree hPd,
      natDegree_poly hr hrn hr0, natDegree_poly hd hdn hd0]
    rw [add_zero, ← Nat.cast_add]
    congr 1; omega
  have hlead : (poly r).leadingCoeff = (X ^ k * C c * poly d).leadingCoeff := by
    rw [leadingCoeff_mul, leadingCoeff_mul, leadingCoeff_X_pow, leadingCoeff_C, leadingCoeff_poly hr hrn hr0,
      leadingCoeff_poly hd hdn hd0, hc, one_mul, _root_.mul_assoc, hlc, _root_.mul_one]
  have hlt := degree_sub_lt_left hdeg hPr hlead
  rw [degree_eq_natDegree hPr, natDegree_poly hr hrn hr0, ← hQ, ← poly_polyNorm] at hlt
  have := (degree_lt_iff (red_polyNorm (lt_of_mem_polySub _ _)) (nz_polyNorm _) _).mp hlt
  have hrpos := List.length_pos_of_ne_nil hr0
  omega

theorem polyDivModAux_succ (d : List Nat) (lcInv fuel : Nat) (q r : List Nat) :
    polyDivModAux d lcInv (fuel + 1) q r =
      if (polyNorm r).length < d.length then (q, polyNorm r)
      else polyDivModAux d lcInv fuel
        (polyAdd q (List.replicate ((polyNorm r).length - d.length) 0 ++ [(polyNorm r).getLastD 0 * lcInv % p]))
        (polySub (polyNorm r)
          (polyMul (List.replicate ((polyNorm r).length - d.length) 0 ++ [(polyNorm r).getLastD 0 * lcInv % p]) d)) :=
  rfl

/-- with enough fuel: `q'·d + r' = q·d + r`, the remainder is reduced, normalised and shorter than the divisor -/
theorem polyDivModAux_spec {d : List Nat} (hd : Red d) (hdn : Nz d) (hd0 : d ≠ []) (lcInv : Nat)
    (hlc : (lcInv : ZMod p) * ((d.getLastD 0 : Nat) : ZMod p) = 1) (fuel : Nat) (q r : List Nat) (hr : Red r)
    (hf1 : 1 ≤ fuel) (hf : (polyNorm r).length + 2 ≤ fuel + d.length) :
    poly (polyDivModAux d lcInv fuel q r).1 * poly d + poly (polyDivModAux d lcInv fuel q r).2
        = poly q * poly d + poly r
      ∧ Red (polyDivModAux d lcInv fuel q r).2 ∧ Nz (polyDivModAux d lcInv fuel q r).2
      ∧ (polyDivModAux d lcInv fuel q r).2.length < d.length := by
  induction fuel generalizing q r with
  | zero => omega
  | succ fuel ih =>
    rw [polyDivModAux_succ]
    split
    · next hlt => exact ⟨by rw [poly_polyNorm], red_polyNorm hr, nz_polyNorm r, hlt⟩
    · next hge =>
      have hle : d.length ≤ (polyNorm r).length := by omega
      have hstep := step_length (red_polyNorm hr) (nz_polyNorm r) hd hdn hd0 hle lcInv hlc
      set m := List.replicate ((polyNorm r).length - d.length) 0 ++ [(polyNorm r).getLastD 0 * lcInv % p] with hm
      obtain ⟨h1, h2, h3, h4⟩ := ih (polyAdd q m) (polySub (polyNorm r) (polyMul m d)) (lt_of_mem_polySub _ _)
        (by omega) (by omega)
      refine ⟨?_, h2, h3, h4⟩
      rw [h1, poly_polyAdd, poly_polySub, poly_polyMul, poly_polyNorm]; ring

theorem polyDivMod_spec {a d : List Nat} (ha : Red a) (hd : Red d) (hdn : Nz d) (hd0 : d ≠ []) :
    poly (polyDivMod a d).1 * poly d + poly (polyDivMod a d).2 = poly a
      ∧ Red (polyDivMod a d).2 ∧ Nz (polyDivMod a d).2 ∧ (polyDivMod a d).2.length < d.length := by
  have hdpos := List.length_pos_of_ne_nil hd0
  have hlc : ((Spec.EC.invMod (d.getLastD 0) p : Nat) : ZMod p) * ((d.getLastD 0 : Nat) : ZMod p) = 1 := by
    rw [SM9G1.cast_invMod]; exact inv_mul_cancel₀ (coeff_top hd hdn hd0).2
  have h := polyDivModAux_spec hd hdn hd0 _ hlc (a.length + 1) [] a ha (by omega)
    (by have := length_polyNorm_le a; omega)
  simp only [polyDivMod, polyNorm_of_nz hdn]
  simpa using h

/-! ### extended Euclid -/

theorem ev_polySub (a c : List Nat) : ev (polySub a c) = ev a - ev c := by
  simp only [ev, poly_polySub, map_sub]

theorem ev_polyMul (a c : List Nat) : ev (polyMul a c) = ev a * ev c := by
  simp only [ev, poly_polyMul, map_mul]

theorem ev_polyNorm (a : List Nat) : ev (polyNorm a) = ev a := by
  simp only [ev, poly_polyNorm]

theorem egcdAux_succ (fuel : Nat) (r0 s0 r1 s1 : List Nat) :
    Fp12.egcdAux (fuel + 1) r0 s0 r1 s1 =
      if (polyNorm r1).isEmpty then (r0, s0)
      else Fp12.egcdAux fuel (polyNorm r1) s1 (polyDivMod r0 (polyNorm r1)).2
        (polySub s0 (polyMul (polyDivMod r0 (polyNorm r1)).1 s1)) :=
  rfl

/-- with enough fuel the loop ends on a reduced normalised unit `g` with `g ≡ s·a` -/
theorem egcdAux_spec (a : List Nat) (fuel : Nat) (r0 s0 r1 s1 : List Nat) (hr0 : Red r0) (hn0 : Nz r0) (hr1 : Red r1)
    (he0 : ev r0 = ev s0 * ev a) (he1 : ev r1 = ev s1 * ev a) (hco : IsCoprime (poly r0) (poly r1))
    (hf : (polyNorm r1).length < fuel) :
    Red (Fp12.egcdAux fuel r0 s0 r1 s1).1 ∧ Nz (Fp12.egcdAux fuel r0 s0 r1 s1).1
      ∧ ev (Fp12.egcdAux fuel r0 s0 r1 s1).1 = ev (Fp12.egcdAux fuel r0 s0 r1 s1).2 * ev a
      ∧ IsUnit (poly (Fp12.egcdAux fuel r0 s0 r1 s1).1) := by
  induction fuel generalizing r0 s0 r1 s1 with
  | zero => omega
  | succ fuel ih =>
    rw [egcdAux_succ]
    split
    · next hemp =>
      refine ⟨hr0, hn0, he0, ?_⟩
      have h0 : poly r1 = 0 := by rw [← poly_polyNorm, List.isEmpty_iff.mp hemp]; rfl
      rw [h0] at hco
      exact isCoprime_zero_right.mp hco
    · next hemp =>
      have hd0 : polyNorm r1 ≠ [] := fun h => hemp (List.isEmpty_iff.mpr h)
      obtain ⟨h1, h2, h3, h4⟩ := polyDivMod_spec hr0 (red_polyNorm hr1) (nz_polyNorm r1) hd0
      apply ih
      · exact red_polyNorm hr1
      · exact nz_polyNorm r1
      · exact h2
      · rw [ev_polyNorm, he1]
      · have h1' := congrArg (AdjoinRoot.mk f) h1
        simp only [map_add, map_mul] at h1'
        change ev (polyDivMod r0 (polyNorm r1)).1 * ev (polyNorm r1) + ev (polyDivMod r0 (polyNorm r1)).2 = ev r0 at h1'
        rw [ev_polyNorm] at h1'
        rw [ev_polySub, ev_polyMul, sub_mul, ← he0, _root_.mul_assoc, ← he1, ← h1']; ring
      · rw [← poly_polyNorm r1, ← h1, add_comm, _root_.mul_comm] at hco
        exact (IsCoprime.of_add_mul_left_left hco).symm
      · have := length_polyNorm_le (polyDivMod r0 (polyNorm r1)).2
        omega

theorem poly_modulus : poly modulus = f := by
  simp only [modulus, poly_cons, poly_nil, f]
  simp; ring

theorem red_modulus : Red modulus := by
  intro x hx
  simp only [modulus, List.mem_cons, List.not_mem_nil, or_false] at hx
  have : (2 : Nat) < p ∧ 0 < p ∧ 1 < p := by decide
  rcases hx with rfl | rfl | rfl | rfl | rfl | rfl | rfl | rfl | rfl | rfl | rfl | rfl | rfl <;> omega

theorem nz_modulus : Nz modulus := by intro _; simp [modulus]

/-- `ev a` invertible ⟹ `a` is coprime to the modulus -/
theorem coprime_init (a : List Nat) (hne : ev a ≠ 0) : IsCoprime (poly modulus) (poly a) := by
  obtain ⟨y, hy⟩ := SM9PairingReduce.hasInv_adjoin (ev a) hne
  obtain ⟨g, rfl⟩ := AdjoinRoot.mk_surjective y
  rw [ev, ← map_mul, ← map_one (AdjoinRoot.mk f), AdjoinRoot.mk_eq_mk] at hy
  obtain ⟨k, hk⟩ := hy
  rw [poly_modulus]
  exact ⟨-k, g, by linear_combination hk⟩

theorem inv_eq (a : Fp12) :
    Fp12.inv a = if polyNorm a = [] then Fp12.zero
      else reduce (polyScale (Spec.EC.invMod ((Fp12.egcdAux 14 modulus [] a [1]).1.headD 0) p)
        (Fp12.egcdAux 14 modulus [] a [1]).2) :=
  rfl

theorem canon_inv (a : Fp12) : Canon (Fp12.inv a) := by
  rw [inv_eq]
  split
  · exact canon_reduce _
  · exact canon_reduce _

theorem ev_inv (a : Fp12) (ha : Canon a) (hne : ev a ≠ 0) : ev a * ev (Fp12.inv a) = 1 := by
  have hnorm : polyNorm a ≠ [] := by
    intro h
    apply hne
    rw [← ev_polyNorm, h]; simp [ev]
  have hmod : ev modulus = 0 := by rw [ev, poly_modulus]; exact AdjoinRoot.mk_self
  obtain ⟨hr, hn, he, hu⟩ := egcdAux_spec a 14 modulus [] a [1] red_modulus nz_modulus ha.2
    (by rw [hmod]; simp [ev]) (by simp [ev]) (coprime_init a hne)
    (by have := length_polyNorm_le a; have := ha.1; omega)
  rw [inv_eq, if_neg hnorm, ev_reduce]
  generalize (Fp12.egcdAux 14 modulus [] a [1]).1 = g at hr hn he hu ⊢
  generalize (Fp12.egcdAux 14 modulus [] a [1]).2 = s at he ⊢
  have hdeg : (poly g).degree < (1 : Nat) := by
    rw [degree_eq_zero_of_isUnit hu]; exact_mod_cast zero_lt_one
  have hlen := (degree_lt_iff hr hn 1).mp hdeg
  have hg0 : g ≠ [] := fun h => hu.ne_zero (by rw [h]; rfl)
  match g, hlen, hg0, hr, hn, he with
  | [g0], _, _, hr, hn, he =>
    have hg0 : ((g0 : Nat) : ZMod p) ≠ 0 := cast_ne_zero (by simpa using hn (by simp)) (hr g0 (by simp))
    have he' : AdjoinRoot.mk f (C ((g0 : Nat) : ZMod p)) = ev s * ev a := by rw [← he]; simp [ev]
    have hs : ev (polyScale (Spec.EC.invMod g0 p) s) = AdjoinRoot.mk f (C (((g0 : Nat) : ZMod p)⁻¹)) * ev s := by
      rw [ev, poly_polyScale, SM9G1.cast_invMod, map_mul]; rfl
    rw [List.headD_cons, hs, _root_.mul_comm (ev a), _root_.mul_assoc, ← he', ← map_mul, ← C_mul, inv_mul_cancel₀ hg0,
      C_1, map_one]

/-- the zero element is mapped to the zero element -/
theorem inv_zero (a : Fp12) (ha : Canon a) (h0 : ev a = 0) : Fp12.inv a = Fp12.zero := by
  have := SM9Fp12.ev_injective ha SM9PairingReduce.canon_zero (by rw [h0, SM9PairingReduce.ev_zero])
  subst this
  have h : polyNorm Fp12.zero = [] := by decide +kernel
  rw [inv_eq, if_pos h]

end GmVerif.Proofs.SM9Fp12Inv
