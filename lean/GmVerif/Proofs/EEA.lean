/-
Helper lemmas for C18: the model of gm-zuc's eea.rs / eia.rs (`Impl.EEA`) refines 128-EEA3 / 128-EIA3
(`Spec.EEA3`).  Core Lean only.  Everything that needs the ZUC keystream takes `(H : KeystreamFirst)`.
-/
import GmVerif.Spec.EEA3
import GmVerif.Impl.EEA

namespace GmVerif.Proofs.EEA
open GmVerif Spec.EEA3

/-- interface to C08 (proved in Thm/C08.lean as `keystream_first`) -/
def KeystreamFirst : Prop :=
  ∀ (k iv : List UInt8), k.length = 16 → iv.length = 16 → ∀ n : Nat,
    ∃ z, Impl.ZUC.new k iv = .ok z ∧ (Impl.ZUC.generate_keystream z n).1 = Spec.ZUC.stream k iv n

/-! ### lengths of the keystreams -/

theorem generate_keystream_length (z : Impl.ZUC.ZUC) (n : Nat) :
    (Impl.ZUC.generate_keystream z n).1.length = n := by
  induction n generalizing z with
  | zero => rfl
  | succ n ih => simp [Impl.ZUC.generate_keystream, ih]

theorem streamFrom_length (st : Spec.ZUC.State) (n : Nat) : (Spec.ZUC.streamFrom st n).length = n := by
  induction n generalizing st with
  | zero => rfl
  | succ n ih => simp [Spec.ZUC.streamFrom, ih]

theorem stream_length (k iv : List UInt8) (n : Nat) : (Spec.ZUC.stream k iv n).length = n :=
  streamFrom_length _ _

/-! ### bits of a 32-bit word, most significant first -/

/-- bit `i` of `w` counted from the most significant end -/
def msb (w : UInt32) (i : Nat) : Bool := w.toBitVec.getMsbD i

theorem msb_ge (w : UInt32) (i : Nat) (h : 32 ≤ i) : msb w i = false := by
  simp [msb, BitVec.getMsbD]; omega

theorem ext_msb {a b : UInt32} (h : ∀ i, i < 32 → msb a i = msb b i) : a = b := by
  rw [← UInt32.toBitVec_inj]
  exact BitVec.eq_of_getMsbD_eq (fun i hi => h i hi)

theorem bv_and_one (x : BitVec 32) (k : Nat) : (x >>> k &&& 1#32 = 1#32) ↔ x.getLsbD k = true := by
  constructor
  · intro h
    have := congrArg (fun v => v.getLsbD 0) h
    simpa using this
  · intro h
    apply BitVec.eq_of_getLsbD_eq
    intro j hj
    simp [BitVec.getLsbD_one]
    intro hj0
    subst hj0
    simpa using h

theorem shr_and_one (w : UInt32) (i : Nat) (h : i < 32) :
    ((w >>> (31 - i).toUInt32) &&& 1 = 1) ↔ msb w i = true := by
  unfold msb
  rw [← UInt32.toBitVec_inj]
  simp only [UInt32.toBitVec_and, UInt32.toBitVec_shiftRight]
  have : (31 - i).toUInt32.toBitVec = BitVec.ofNat 32 (31 - i) := rfl
  rw [this]
  have h2 : (31 - i) % 32 = 31 - i := by omega
  simp only [BitVec.ofNat_eq_ofNat, BitVec.ushiftRight_eq', BitVec.toNat_umod, BitVec.toNat_ofNat,
    Nat.reducePow, Nat.reduceMod, Nat.reduceDvd, Nat.mod_mod_of_dvd, UInt32.toBitVec_ofNat, BitVec.getMsbD, h,
    decide_true, Nat.add_one_sub_one, Bool.true_and]
  rw [h2, bv_and_one]

theorem bitsOfWord_eq (w : UInt32) : bitsOfWord w = (List.range 32).map (msb w) := by
  unfold bitsOfWord
  apply List.map_congr_left
  intro i hi
  have hi : i < 32 := List.mem_range.mp hi
  have := shr_and_one w i hi
  by_cases hm : msb w i = true
  · simp [hm, this.mpr hm]
  · have : ¬ ((w >>> (31 - i).toUInt32) &&& 1 = 1) := fun h => hm (this.mp h)
    simp [this, hm]

theorem bitsOfWord_length (w : UInt32) : (bitsOfWord w).length = 32 := by
  simp [bitsOfWord]

theorem bitsOfWord_getD (w : UInt32) (i : Nat) : (bitsOfWord w).getD i false = msb w i := by
  rw [bitsOfWord_eq]
  by_cases h : i < 32
  · simp [List.getD_eq_getElem?_getD, h]
  · simp [List.getD_eq_getElem?_getD, h, msb_ge w i (by omega)]

/-- the fold of `wordOfBits` after `n` steps: bit `j` (from the least significant end) is input bit `n-1-j` -/
theorem wordOfBits_fold (f : Nat → Bool) (n : Nat) (j : Nat) (hj : j < n) :
    ((List.range n).foldl (fun (acc : UInt32) i => (acc <<< 1) ||| (if f i then 1 else 0)) 0).toBitVec.getLsbD j
      = (decide (j < 32) && f (n - 1 - j)) := by
  induction n generalizing j with
  | zero => omega
  | succ n ih =>
    rw [List.range_succ, List.foldl_append]
    simp only [List.foldl_cons, List.foldl_nil, UInt32.toBitVec_or, UInt32.toBitVec_shiftLeft, BitVec.getLsbD_or]
    cases j with
    | zero =>
      cases hb : f n <;> simp [hb]
    | succ j =>
      have := ih j (by omega)
      rw [BitVec.shiftLeft_eq', show (UInt32.toBitVec 1 % 32).toNat = 1 from rfl]
      simp only [BitVec.getLsbD_shiftLeft, Nat.add_sub_cancel]
      rw [this]
      have h1 : n - 1 - j = n + 1 - 1 - (j + 1) := by omega
      have h2 : ((if f n = true then 1 else 0 : UInt32)).toBitVec.getLsbD (j + 1) = false := by
        cases f n <;> simp [BitVec.getLsbD_one]
      rw [h1, h2]
      by_cases h32 : j + 1 < 32
      · have : j < 32 := by omega
        simp [h32, this]
      · simp [h32]

theorem msb_eq_lsb (w : UInt32) (i : Nat) (h : i < 32) : msb w i = w.toBitVec.getLsbD (31 - i) := by
  simp [msb, BitVec.getMsbD, h]

theorem msb_wordOfBits (bs : List Bool) (i : Nat) (h : i < 32) : msb (wordOfBits bs) i = bs.getD i false := by
  rw [msb_eq_lsb _ _ h]
  unfold wordOfBits
  rw [wordOfBits_fold (fun i => bs.getD i false) 32 (31 - i) (by omega)]
  have : 32 - 1 - (31 - i) = i := by omega
  rw [this]
  have : 31 - i < 32 := by omega
  simp [this]

theorem wordOfBits_bitsOfWord (w : UInt32) : wordOfBits (bitsOfWord w) = w :=
  ext_msb fun i hi => by rw [msb_wordOfBits _ _ hi, bitsOfWord_getD]

theorem msb_xor (a b : UInt32) (i : Nat) : msb (a ^^^ b) i = (msb a i != msb b i) := by
  simp [msb]

theorem msb_and (a b : UInt32) (i : Nat) : msb (a &&& b) i = (msb a i && msb b i) := by
  simp [msb]

theorem msb_or (a b : UInt32) (i : Nat) : msb (a ||| b) i = (msb a i || msb b i) := by
  simp [msb]

theorem msb_zero (i : Nat) : msb 0 i = false := by
  simp [msb]

theorem msb_shl (a s : UInt32) (k : Nat) : msb (a <<< s) k = (decide (k < 32) && msb a (k + s.toNat % 32)) := by
  unfold msb
  rw [UInt32.toBitVec_shiftLeft, BitVec.shiftLeft_eq', BitVec.getMsbD_shiftLeft]
  simp
  intro h
  have := BitVec.lt_of_getMsbD h
  omega

theorem msb_shr (a s : UInt32) (k : Nat) :
    msb (a >>> s) k = (decide (k < 32) && (!decide (k < s.toNat % 32) && msb a (k - s.toNat % 32))) := by
  unfold msb
  rw [UInt32.toBitVec_shiftRight, BitVec.ushiftRight_eq', BitVec.getMsbD_ushiftRight]
  simp

theorem msb_allOnes (k : Nat) : msb (0xffffffff : UInt32) k = decide (k < 32) := by
  unfold msb
  rw [show (0xffffffff : UInt32).toBitVec = BitVec.allOnes 32 from rfl, BitVec.getMsbD_allOnes]

theorem msb_one (k : Nat) : msb (1 : UInt32) k = decide (k = 31) := by
  unfold msb
  rw [show (1 : UInt32).toBitVec = 1#32 from rfl]
  simp [BitVec.getMsbD, BitVec.getLsbD_one]
  by_cases h : k = 31
  · subst h; rfl
  · by_cases h2 : k < 32
    · have : ¬ (31 - k = 0) := by omega
      simp [h, this]
    · simp [h, h2]

/-- `0xffffffff << (32 - r)` keeps the top `r` bits -/
theorem msb_mask (r : UInt32) (hr0 : r ≠ 0) (hr : r.toNat < 32) (k : Nat) (hk : k < 32) :
    msb ((0xffffffff : UInt32) <<< (32 - r)) k = decide (k < r.toNat) := by
  have h0 : r.toNat ≠ 0 := fun h => hr0 (UInt32.toNat_inj.mp h)
  have hs : (32 - r).toNat = 32 - r.toNat := by
    rw [UInt32.toNat_sub_of_le _ _ (by rw [UInt32.le_iff_toNat_le]; simp; omega)]; rfl
  rw [msb_shl, hs, msb_allOnes]
  have : (32 - r.toNat) % 32 = 32 - r.toNat := by omega
  rw [this]
  simp [hk]; omega

theorem toUInt32_toNat (m : Nat) (h : m < 2 ^ 32) : m.toUInt32.toNat = m := by
  simp [Nat.toUInt32]; omega

/-- the two-word shift of `find_word` -/
theorem msb_shift2 (a b : UInt32) (m : Nat) (hm0 : m ≠ 0) (hm : m < 32) (k : Nat) (hk : k < 32) :
    msb ((a <<< m.toUInt32) ||| (b >>> (32 - m).toUInt32)) k
      = if k + m < 32 then msb a (k + m) else msb b (k + m - 32) := by
  rw [msb_or, msb_shl, msb_shr, toUInt32_toNat m (by omega), toUInt32_toNat (32 - m) (by omega)]
  have h1 : m % 32 = m := by omega
  have h2 : (32 - m) % 32 = 32 - m := by omega
  rw [h1, h2]
  by_cases h : k + m < 32
  · have : k < 32 - m := by omega
    simp [h, hk, this]
  · have : ¬ k < 32 - m := by omega
    have h3 : k - (32 - m) = k + m - 32 := by omega
    simp [h, hk, this, h3, msb_ge a (k + m) (by omega)]

/-- the bit test of `gen_mac` -/
theorem bit_test (w : UInt32) (i : Nat) (h : i < 32) :
    (w &&& ((1 : UInt32) <<< (31 - i).toUInt32) > 0) ↔ msb w i = true := by
  have hbit : ∀ k, k < 32 → msb (w &&& ((1 : UInt32) <<< (31 - i).toUInt32)) k = (msb w k && decide (k = i)) := by
    intro k hk
    rw [msb_and, msb_shl, toUInt32_toNat (31 - i) (by omega), msb_one]
    have : (31 - i) % 32 = 31 - i := by omega
    rw [this]
    have : (k + (31 - i) = 31) ↔ k = i := by omega
    simp [hk, this]
  have hpos : (w &&& ((1 : UInt32) <<< (31 - i).toUInt32) > 0) ↔ (w &&& ((1 : UInt32) <<< (31 - i).toUInt32)) ≠ 0 :=
    UInt32.pos_iff_ne_zero
  rw [hpos]
  constructor
  · intro hne
    cases hm : msb w i with
    | true => rfl
    | false =>
      exfalso; apply hne
      apply ext_msb
      intro k hk
      rw [hbit k hk, msb_zero]
      by_cases hki : k = i
      · subst hki; simp [hm]
      · simp [hki]
  · intro hm h0
    have := hbit i h
    rw [h0, msb_zero, hm] at this
    simp at this

/-! ### bit streams -/

theorem bitsOfWords_cons (w : UInt32) (ws : List UInt32) : bitsOfWords (w :: ws) = bitsOfWord w ++ bitsOfWords ws := by
  simp [bitsOfWords]

theorem bitsOfWords_length (ws : List UInt32) : (bitsOfWords ws).length = 32 * ws.length := by
  induction ws with
  | nil => rfl
  | cons w ws ih => rw [bitsOfWords_cons, List.length_append, bitsOfWord_length, ih, List.length_cons]; omega

/-- bit `i` of the stream is bit `i % 32` (from the top) of word `i / 32` -/
theorem bitsOfWords_getD (ws : List UInt32) (i : Nat) :
    (bitsOfWords ws).getD i false = msb (ws.getD (i / 32) 0) (i % 32) := by
  induction ws generalizing i with
  | nil => simp [bitsOfWords, msb_zero]
  | cons w ws ih =>
    rw [bitsOfWords_cons]
    by_cases h : i < 32
    · have h1 : i / 32 = 0 := by omega
      have h2 : i % 32 = i := by omega
      rw [h1, h2, ← bitsOfWord_getD]
      simp [List.getD_eq_getElem?_getD, List.getElem?_append_left, bitsOfWord_length, h]
    · have h1 : i / 32 = (i - 32) / 32 + 1 := by omega
      have h2 : i % 32 = (i - 32) % 32 := by omega
      rw [h1, h2, show (w :: ws).getD ((i - 32) / 32 + 1) 0 = ws.getD ((i - 32) / 32) 0 from rfl, ← ih]
      have : 32 ≤ i := by omega
      simp [List.getD_eq_getElem?_getD, List.getElem?_append_right, bitsOfWord_length, this]

theorem getD_take {α} (l : List α) (n i : Nat) (d : α) (h : i < n) : (l.take n).getD i d = l.getD i d := by
  simp [List.getD_eq_getElem?_getD, h]

theorem getD_drop {α} (l : List α) (n i : Nat) (d : α) : (l.drop n).getD i d = l.getD (n + i) d := by
  simp [List.getD_eq_getElem?_getD, List.getElem?_drop]

/-- the word read at bit offset `i` of a bit list -/
theorem msb_window (bs : List Bool) (i k : Nat) (hk : k < 32) :
    msb (wordOfBits ((bs.drop i).take 32)) k = bs.getD (i + k) false := by
  rw [msb_wordOfBits _ _ hk, getD_take _ _ _ _ hk, getD_drop]

/-! ### find_word -/

theorem find_word_bits (keys : List UInt32) (i : Nat)
    (h : i / 32 + 1 < keys.length ∨ (i % 32 = 0 ∧ i / 32 < keys.length)) :
    Impl.EEA.find_word keys i = .ok (wordOfBits (((bitsOfWords keys).drop i).take 32)) := by
  unfold Impl.EEA.find_word
  by_cases hm : i % 32 = 0
  · have hj : i / 32 < keys.length := by omega
    simp only [hm, if_true, List.getElem?_eq_getElem hj]
    congr 1
    apply ext_msb
    intro k hk
    rw [msb_window _ _ _ hk, bitsOfWords_getD]
    have h1 : (i + k) / 32 = i / 32 := by omega
    have h2 : (i + k) % 32 = k := by omega
    rw [h1, h2]
    simp [List.getD_eq_getElem?_getD, hj]
  · have hj : i / 32 + 1 < keys.length := by omega
    have hj0 : i / 32 < keys.length := by omega
    simp only [hm, if_false, List.getElem?_eq_getElem hj, List.getElem?_eq_getElem hj0]
    congr 1
    apply ext_msb
    intro k hk
    rw [msb_window _ _ _ hk, bitsOfWords_getD, msb_shift2 _ _ _ hm (Nat.mod_lt _ (by omega)) _ hk]
    by_cases hlt : k + i % 32 < 32
    · have h1 : (i + k) / 32 = i / 32 := by omega
      have h2 : (i + k) % 32 = k + i % 32 := by omega
      rw [h1, h2, if_pos hlt]
      simp [List.getD_eq_getElem?_getD, hj0]
    · have h1 : (i + k) / 32 = i / 32 + 1 := by omega
      have h2 : (i + k) % 32 = k + i % 32 - 32 := by omega
      rw [h1, h2, if_neg hlt]
      simp [List.getD_eq_getElem?_getD, hj]

/-! ### the IVs -/

theorem toUInt8_of_toNat (x : UInt32) (n : Nat) (h : x.toNat = n) : x.toUInt8 = n.toUInt8 := by
  subst h; rfl

theorem eea_iv (count bearer direction : UInt32) (hb : bearer.toNat < 32) (hd : direction.toNat < 2) :
    Impl.EEA.eeaIv count bearer direction = ivEEA count bearer.toNat direction.toNat := by
  have h4 : (((bearer <<< 1) ||| (direction &&& 1)) <<< 2).toUInt8 = (bearer.toNat * 8 + direction.toNat * 4).toUInt8 := by
    apply toUInt8_of_toNat
    simp only [UInt32.toNat_shiftLeft, UInt32.toNat_or, UInt32.toNat_and]
    rw [show (1 : UInt32).toNat = 1 from rfl, show (2 : UInt32).toNat = 2 from rfl, Nat.and_one_is_mod]
    simp only [Nat.shiftLeft_eq, Nat.reduceMod, Nat.reducePow]
    have h1 : bearer.toNat * 2 % 4294967296 = 2 ^ 1 * bearer.toNat := by omega
    have h2 : direction.toNat % 2 = direction.toNat := by omega
    rw [h1, h2, ← Nat.two_pow_add_eq_or_of_lt (by omega)]
    omega
  simp only [Impl.EEA.eeaIv, ivEEA, be32, h4, List.cons_append, List.nil_append]

theorem eia_iv (count bearer direction : UInt32) (hb : bearer.toNat < 32) (hd : direction.toNat < 2) :
    Impl.EEA.eiaIv count bearer direction = ivEIA count bearer.toNat direction.toNat := by
  have h4 : (bearer <<< 3).toUInt8 = (bearer.toNat * 8).toUInt8 := by
    apply toUInt8_of_toNat
    rw [UInt32.toNat_shiftLeft, Nat.shiftLeft_eq, show (3 : UInt32).toNat = 3 from rfl]
    simp only [Nat.reduceMod, Nat.reducePow]
    omega
  have h7 : (direction <<< 7).toUInt8 = (direction.toNat * 128).toUInt8 := by
    apply toUInt8_of_toNat
    rw [UInt32.toNat_shiftLeft, Nat.shiftLeft_eq, show (7 : UInt32).toNat = 7 from rfl]
    simp only [Nat.reduceMod, Nat.reducePow]
    omega
  simp only [Impl.EEA.eiaIv, ivEIA, be32, h4, h7, List.cons_append, List.nil_append, List.getD_cons_zero,
    List.getD_cons_succ, UInt8.zero_xor]

theorem iv_length (c b d : UInt32) :
    (Impl.EEA.eeaIv c b d).length = 16 ∧ (Impl.EEA.eiaIv c b d).length = 16 := ⟨rfl, rfl⟩

/-! ### EEA3 -/

theorem packWords_length (bs : List Bool) (n : Nat) : (packWords bs n).length = n := by
  induction n generalizing bs with
  | zero => rfl
  | succ n ih => simp [packWords, ih]

theorem packWords_getElem (bs : List Bool) (n j : Nat) (h : j < (packWords bs n).length) :
    (packWords bs n)[j] = wordOfBits ((bs.drop (32 * j)).take 32) := by
  induction n generalizing bs j with
  | zero => simp [packWords] at h
  | succ n ih =>
    cases j with
    | zero => simp [packWords]
    | succ j =>
      simp only [packWords, List.getElem_cons_succ]
      rw [ih, List.drop_drop]
      congr 3
      omega

theorem xorBits_getD (a b : List Bool) (i : Nat) :
    (xorBits a b).getD i false
      = if i < a.length ∧ i < b.length then (a.getD i false != b.getD i false) else false := by
  unfold xorBits
  simp only [List.getD_eq_getElem?_getD, List.getElem?_zipWith]
  by_cases ha : i < a.length <;> by_cases hb : i < b.length <;> simp [ha, hb]

/-- the word list produced by `EEA::encrypt` from the message and the keystream words -/
def eeaOut (msg keys : List UInt32) (ilen : UInt32) : List UInt32 :=
  let L := (ilen.toNat + 31) / 32
  let rs := List.zipWith (· ^^^ ·) (msg.take L) keys
  if ilen % 32 ≠ 0 then
    rs.take (L - 1) ++ (rs.drop (L - 1)).map (· &&& ((0xffffffff : UInt32) <<< (32 - ilen % 32)))
  else rs

theorem keylength_eq (ilen : UInt32) : (UInt32.ofNat ((ilen.toNat + 31) / 32)).toNat = (ilen.toNat + 31) / 32 := by
  have := ilen.toNat_lt
  simp only [UInt32.toNat_ofNat']
  omega

theorem eeaEncrypt_eq (z : Impl.ZUC.ZUC) (msg : List UInt32) (ilen : UInt32) :
    Impl.EEA.eeaEncrypt z msg ilen =
      if msg.length < (ilen.toNat + 31) / 32 then .panic
      else .ok (eeaOut msg (Impl.ZUC.generate_keystream z ((ilen.toNat + 31) / 32)).1 ilen,
                (Impl.ZUC.generate_keystream z ((ilen.toNat + 31) / 32)).2) := by
  unfold Impl.EEA.eeaEncrypt eeaOut
  simp only [keylength_eq]
  split
  · rfl
  · split <;> rfl


theorem zipXor_getD (a b : List UInt32) (j : Nat) (ha : j < a.length) (hb : j < b.length) :
    (List.zipWith (· ^^^ ·) a b).getD j 0 = a.getD j 0 ^^^ b.getD j 0 := by
  simp [List.getD_eq_getElem?_getD, List.getElem?_zipWith, ha, hb]

theorem mod32_ne (ilen : UInt32) : ilen % 32 ≠ 0 ↔ ilen.toNat % 32 ≠ 0 := by
  rw [Ne, ← UInt32.toNat_inj, UInt32.toNat_mod]
  rfl

theorem eeaOut_length (msg keys : List UInt32) (ilen : UInt32)
    (hk : keys.length = (ilen.toNat + 31) / 32) (hm : (ilen.toNat + 31) / 32 ≤ msg.length) :
    (eeaOut msg keys ilen).length = (ilen.toNat + 31) / 32 := by
  unfold eeaOut
  simp only []
  split
  · simp [List.length_zipWith, List.length_take]
    omega
  · simp [List.length_zipWith, List.length_take]
    omega


theorem eeaOut_msb (msg keys : List UInt32) (ilen : UInt32)
    (hk : keys.length = (ilen.toNat + 31) / 32) (hm : (ilen.toNat + 31) / 32 ≤ msg.length)
    (j k : Nat) (hj : j < (ilen.toNat + 31) / 32) (hk32 : k < 32) :
    msb ((eeaOut msg keys ilen).getD j 0) k
      = ((msb (msg.getD j 0) k != msb (keys.getD j 0) k) && decide (32 * j + k < ilen.toNat)) := by
  have hrs : ∀ i, i < (ilen.toNat + 31) / 32 →
      (List.zipWith (· ^^^ ·) (msg.take ((ilen.toNat + 31) / 32)) keys).getD i 0 = msg.getD i 0 ^^^ keys.getD i 0 := by
    intro i hi
    rw [zipXor_getD _ _ _ (by rw [List.length_take]; omega) (by omega), getD_take _ _ _ _ hi]
  have hrl : (List.zipWith (· ^^^ ·) (msg.take ((ilen.toNat + 31) / 32)) keys).length = (ilen.toNat + 31) / 32 := by
    simp [List.length_zipWith, List.length_take]; omega
  unfold eeaOut
  simp only []
  by_cases hr : ilen % 32 ≠ 0
  · rw [if_pos hr]
    have hr' := (mod32_ne ilen).mp hr
    by_cases hlast : j < (ilen.toNat + 31) / 32 - 1
    · have : (32 * j + k < ilen.toNat) := by omega
      rw [List.getD_eq_getElem?_getD, List.getElem?_append_left (by rw [List.length_take, hrl]; omega),
        ← List.getD_eq_getElem?_getD, getD_take _ _ _ _ hlast, hrs j hj, msb_xor]
      simp [this]
    · have hjl : j = (ilen.toNat + 31) / 32 - 1 := by omega
      rw [List.getD_eq_getElem?_getD, List.getElem?_append_right (by rw [List.length_take, hrl]; omega),
        List.length_take, hrl, List.getElem?_map, List.getElem?_drop]
      have h0 : (ilen.toNat + 31) / 32 - 1 + (j - min ((ilen.toNat + 31) / 32 - 1) ((ilen.toNat + 31) / 32)) = j := by
        omega
      rw [h0]
      have hsome : (List.zipWith (· ^^^ ·) (msg.take ((ilen.toNat + 31) / 32)) keys)[j]?
          = some (msg.getD j 0 ^^^ keys.getD j 0) := by
        rw [← hrs j hj, List.getD_eq_getElem?_getD, List.getElem?_eq_getElem (by rw [hrl]; exact hj)]
        rfl
      rw [hsome]
      simp only [Option.map_some, Option.getD_some]
      rw [msb_and, msb_xor, msb_mask (ilen % 32) hr (by rw [UInt32.toNat_mod]; exact Nat.mod_lt _ (by decide)) k hk32,
        UInt32.toNat_mod]
      rw [show (32 : UInt32).toNat = 32 from rfl]
      have : (k < ilen.toNat % 32) ↔ (32 * j + k < ilen.toNat) := by omega
      simp only [this]
  · rw [if_neg hr]
    have hr' : ilen.toNat % 32 = 0 := by
      have := mt (mod32_ne ilen).mpr hr
      omega
    have : (32 * j + k < ilen.toNat) := by omega
    rw [hrs j hj, msb_xor]
    simp [this]


theorem getD_eq_getElem' {α} (l : List α) (d : α) {j : Nat} (h : j < l.length) : l.getD j d = l[j] :=
  (List.getElem_eq_getD d).symm

/-- the spec output as a function of the keystream words -/
def eea3Words (keys msg : List UInt32) (length : Nat) : List UInt32 :=
  packWords (xorBits ((bitsOfWords msg).take length) ((bitsOfWords keys).take length)) ((length + 31) / 32)

theorem eea3Words_msb (keys msg : List UInt32) (length : Nat)
    (hk : keys.length = (length + 31) / 32) (hm : (length + 31) / 32 ≤ msg.length)
    (j k : Nat) (hj : j < (length + 31) / 32) (hk32 : k < 32) :
    msb ((eea3Words keys msg length).getD j 0) k
      = ((msb (msg.getD j 0) k != msb (keys.getD j 0) k) && decide (32 * j + k < length)) := by
  unfold eea3Words
  have hlen := packWords_length (xorBits ((bitsOfWords msg).take length) ((bitsOfWords keys).take length))
    ((length + 31) / 32)
  rw [getD_eq_getElem' _ _ (by rw [hlen]; exact hj), packWords_getElem, msb_window _ _ _ hk32, xorBits_getD,
    List.length_take, List.length_take, bitsOfWords_length, bitsOfWords_length]
  have h1 : (32 * j + k) / 32 = j := by omega
  have h2 : (32 * j + k) % 32 = k := by omega
  by_cases hlt : 32 * j + k < length
  · have hc : 32 * j + k < min length (32 * msg.length) ∧ 32 * j + k < min length (32 * keys.length) := by omega
    rw [if_pos hc, getD_take _ _ _ _ hlt, getD_take _ _ _ _ hlt, bitsOfWords_getD, bitsOfWords_getD, h1, h2]
    simp [hlt]
  · have hc : ¬ (32 * j + k < min length (32 * msg.length) ∧ 32 * j + k < min length (32 * keys.length)) := by omega
    rw [if_neg hc]
    simp [hlt]

theorem eeaOut_eq (msg keys : List UInt32) (ilen : UInt32)
    (hk : keys.length = (ilen.toNat + 31) / 32) (hm : (ilen.toNat + 31) / 32 ≤ msg.length) :
    eeaOut msg keys ilen = eea3Words keys msg ilen.toNat := by
  have hl1 := eeaOut_length msg keys ilen hk hm
  have hl2 : (eea3Words keys msg ilen.toNat).length = (ilen.toNat + 31) / 32 := packWords_length _ _
  apply List.ext_getElem (by rw [hl1, hl2])
  intro j h1 h2
  rw [← getD_eq_getElem' _ 0 h1, ← getD_eq_getElem' _ 0 h2]
  apply ext_msb
  intro k hk32
  rw [eeaOut_msb msg keys ilen hk hm j k (by omega) hk32, eea3Words_msb keys msg _ hk hm j k (by omega) hk32]

theorem eea3_eq (ck : List UInt8) (count : UInt32) (bearer direction length : Nat) (msg : List UInt32) :
    eea3 ck count bearer direction length msg
      = eea3Words (Spec.ZUC.stream ck (ivEEA count bearer direction) ((length + 31) / 32)) msg length := rfl

theorem eea_refines (H : KeystreamFirst) (ck : List UInt8) (hck : ck.length = 16)
    (count bearer direction length : UInt32) (hb : bearer.toNat < 32) (hd : direction.toNat < 2)
    (msg : List UInt32) (hm : (length.toNat + 31) / 32 ≤ msg.length) :
    ((Impl.EEA.eeaNew ck count bearer direction).bind (fun z => Impl.EEA.eeaEncrypt z msg length) |>.map (·.1))
      = .ok (eea3 ck count bearer.toNat direction.toNat length.toNat msg) := by
  obtain ⟨z, hz, hks⟩ := H ck (Impl.EEA.eeaIv count bearer direction) hck (iv_length count bearer direction).1
    ((length.toNat + 31) / 32)
  unfold Impl.EEA.eeaNew
  rw [hz]
  simp only [Outcome.bind, Outcome.map]
  rw [eeaEncrypt_eq, if_neg (by omega), hks, eea_iv count bearer direction hb hd,
    eeaOut_eq _ _ _ (stream_length _ _ _) hm, eea3_eq]

/-! ### EIA3 -/

/-- the 32-bit window `z_i` of the keystream -/
def zw (keys : List UInt32) (i : Nat) : UInt32 := wordOfBits (((bitsOfWords keys).drop i).take 32)

/-- the spec MAC as a function of the keystream words -/
def eia3Words (keys msg : List UInt32) (length : Nat) : UInt32 :=
  let t := (List.range length).foldl (fun t i => if (bitsOfWords msg).getD i false then t ^^^ zw keys i else t) 0
  t ^^^ zw keys length ^^^ zw keys (32 * ((length + 64 + 31) / 32 - 1))

theorem eia3_eq (ik : List UInt8) (count : UInt32) (bearer direction length : Nat) (msg : List UInt32) :
    eia3 ik count bearer direction length msg
      = eia3Words (Spec.ZUC.stream ik (ivEIA count bearer direction) ((length + 64 + 31) / 32)) msg length := rfl

theorem macLoop_eq (m keys : List UInt32) (n i : Nat) (t : UInt32)
    (hm : i + n ≤ 32 * m.length) (hk : (i + n) / 32 + 1 < keys.length) :
    Impl.EEA.macLoop m keys i n t
      = .ok ((List.range' i n).foldl (fun t i => if (bitsOfWords m).getD i false then t ^^^ zw keys i else t) t) := by
  induction n generalizing i t with
  | zero => rfl
  | succ n ih =>
    have hi : i / 32 < m.length := by omega
    have hfw : Impl.EEA.find_word keys i = .ok (zw keys i) := find_word_bits keys i (Or.inl (by omega))
    have hbit : (bitsOfWords m).getD i false = msb m[i / 32] (i % 32) := by
      rw [bitsOfWords_getD, getD_eq_getElem' _ _ hi]
    rw [List.range'_succ, List.foldl_cons, hbit]
    unfold Impl.EEA.macLoop
    simp only [List.getElem?_eq_getElem hi, hfw]
    by_cases hb : msb m[i / 32] (i % 32) = true
    · rw [if_pos ((bit_test _ _ (Nat.mod_lt _ (by decide))).mpr hb), if_pos hb]
      exact ih (i + 1) _ (by omega) (by omega)
    · rw [if_neg (fun h => hb ((bit_test _ _ (Nat.mod_lt _ (by decide))).mp h)), if_neg hb]
      exact ih (i + 1) _ (by omega) (by omega)


theorem eiaGenMac_eq (z : Impl.ZUC.ZUC) (m : List UInt32) (ilen : UInt32)
    (hm : (ilen.toNat + 31) / 32 ≤ m.length) :
    Impl.EEA.eiaGenMac z m ilen
      = .ok (eia3Words (Impl.ZUC.generate_keystream z ((ilen.toNat + 64 + 31) / 32)).1 m ilen.toNat,
             (Impl.ZUC.generate_keystream z ((ilen.toNat + 64 + 31) / 32)).2) := by
  have hlt := ilen.toNat_lt
  have hL : (ilen.toNat + 31) / 32 + 2 = (ilen.toNat + 64 + 31) / 32 := by omega
  unfold Impl.EEA.eiaGenMac
  simp only [keylength_eq, hL]
  rw [if_neg (by omega)]
  have hkl := generate_keystream_length z ((ilen.toNat + 64 + 31) / 32)
  generalize Impl.ZUC.generate_keystream z ((ilen.toNat + 64 + 31) / 32) = g at hkl ⊢
  obtain ⟨keys, z'⟩ := g
  simp only at hkl ⊢
  rw [macLoop_eq m keys ilen.toNat 0 0 (by omega) (by omega)]
  simp only
  rw [find_word_bits keys ilen.toNat (Or.inl (by omega)),
    find_word_bits keys (32 * ((ilen.toNat + 64 + 31) / 32 - 1)) (Or.inr ⟨by omega, by omega⟩)]
  simp only [eia3Words, zw, List.range_eq_range']

theorem eia_refines (H : KeystreamFirst) (ik : List UInt8) (hik : ik.length = 16)
    (count bearer direction length : UInt32) (hb : bearer.toNat < 32) (hd : direction.toNat < 2)
    (msg : List UInt32) (hm : (length.toNat + 31) / 32 ≤ msg.length) :
    ((Impl.EEA.eiaNew ik count bearer direction).bind (fun z => Impl.EEA.eiaGenMac z msg length) |>.map (·.1))
      = .ok (eia3 ik count bearer.toNat direction.toNat length.toNat msg) := by
  obtain ⟨z, hz, hks⟩ := H ik (Impl.EEA.eiaIv count bearer direction) hik (iv_length count bearer direction).2
    ((length.toNat + 64 + 31) / 32)
  unfold Impl.EEA.eiaNew
  rw [hz]
  simp only [Outcome.bind, Outcome.map]
  rw [eiaGenMac_eq _ _ _ hm, hks, eia_iv count bearer direction hb hd, eia3_eq]

/-! ### consequences on the specification side -/

theorem eea3_length (ck : List UInt8) (count : UInt32) (bearer direction length : Nat) (msg : List UInt32) :
    (eea3 ck count bearer direction length msg).length = (length + 31) / 32 := packWords_length _ _

theorem ext_getD {l l' : List Bool} (hl : l.length = l'.length)
    (h : ∀ i, i < l.length → l.getD i false = l'.getD i false) : l = l' := by
  apply List.ext_getElem hl
  intro i h1 h2
  rw [← getD_eq_getElem' _ false h1, ← getD_eq_getElem' _ false h2]
  exact h i h1

theorem getD_of_take_eq {l l' : List Bool} {n : Nat} (h : l.take n = l'.take n) (i : Nat) (hi : i < n) :
    l.getD i false = l'.getD i false := by
  rw [← getD_take l n i false hi, ← getD_take l' n i false hi, h]

/-- every bit of the EEA3 output: the message bit xor the keystream bit inside LENGTH, zero outside -/
theorem eea3Words_bit (keys msg : List UInt32) (length : Nat)
    (hk : keys.length = (length + 31) / 32) (hm : (length + 31) / 32 ≤ msg.length) (i : Nat) :
    (bitsOfWords (eea3Words keys msg length)).getD i false
      = (decide (i < length) && ((bitsOfWords msg).getD i false != (bitsOfWords keys).getD i false)) := by
  rw [bitsOfWords_getD]
  by_cases hi : i / 32 < (length + 31) / 32
  · rw [eea3Words_msb keys msg length hk hm _ _ hi (Nat.mod_lt _ (by decide)), bitsOfWords_getD, bitsOfWords_getD]
    have : 32 * (i / 32) + i % 32 = i := by omega
    rw [this, Bool.and_comm]
  · have hl : (eea3Words keys msg length).length = (length + 31) / 32 := packWords_length _ _
    have : ¬ i < length := by omega
    have h0 : (eea3Words keys msg length).getD (i / 32) 0 = 0 := by
      rw [List.getD_eq_getElem?_getD, List.getElem?_eq_none (by omega)]; rfl
    rw [h0, msb_zero]
    simp [this]

theorem eea3Words_involution (keys msg : List UInt32) (length : Nat)
    (hk : keys.length = (length + 31) / 32) (hm : (length + 31) / 32 ≤ msg.length) :
    (bitsOfWords (eea3Words keys (eea3Words keys msg length) length)).take length
      = (bitsOfWords msg).take length := by
  have hl : (eea3Words keys msg length).length = (length + 31) / 32 := packWords_length _ _
  have hl2 : (eea3Words keys (eea3Words keys msg length) length).length = (length + 31) / 32 := packWords_length _ _
  apply ext_getD
  · rw [List.length_take, List.length_take, bitsOfWords_length, bitsOfWords_length, hl2]; omega
  · intro i hi
    rw [List.length_take] at hi
    have hi' : i < length := by omega
    rw [getD_take _ _ _ _ hi', getD_take _ _ _ _ hi', eea3Words_bit _ _ _ hk (by omega), eea3Words_bit _ _ _ hk hm]
    simp [hi']

theorem eea3_depends_only (ck : List UInt8) (count : UInt32) (bearer direction length : Nat) (m m' : List UInt32)
    (h : (bitsOfWords m).take length = (bitsOfWords m').take length) :
    eea3 ck count bearer direction length m = eea3 ck count bearer direction length m' := by
  simp only [eea3, h]

theorem foldl_congr_mem {α β} (f g : α → β → α) (l : List β) (a : α) (h : ∀ a, ∀ b ∈ l, f a b = g a b) :
    l.foldl f a = l.foldl g a := by
  induction l generalizing a with
  | nil => rfl
  | cons x xs ih =>
    rw [List.foldl_cons, List.foldl_cons, h a x (by simp)]
    exact ih _ (fun a b hb => h a b (by simp [hb]))

theorem eia3_depends_only (ik : List UInt8) (count : UInt32) (bearer direction length : Nat) (m m' : List UInt32)
    (h : (bitsOfWords m).take length = (bitsOfWords m').take length) :
    eia3 ik count bearer direction length m = eia3 ik count bearer direction length m' := by
  rw [eia3_eq, eia3_eq]
  unfold eia3Words
  simp only
  congr 2
  apply foldl_congr_mem
  intro t i hi
  rw [getD_of_take_eq h i (List.mem_range.mp hi)]

/-! ### panic freedom inside the domain, recorded panics outside -/

theorem new_ok (k iv : List UInt8) (hk : k.length = 16) (hiv : iv.length = 16) :
    ∃ z, Impl.ZUC.new k iv = .ok z := by
  unfold Impl.ZUC.new
  rw [if_neg (by omega)]
  exact ⟨_, rfl⟩

theorem eea_no_panic (ck : List UInt8) (hck : ck.length = 16) (count bearer direction length : UInt32)
    (msg : List UInt32) (hm : (length.toNat + 31) / 32 ≤ msg.length) :
    ∃ r, (Impl.EEA.eeaNew ck count bearer direction).bind (fun z => Impl.EEA.eeaEncrypt z msg length) = .ok r := by
  obtain ⟨z, hz⟩ := new_ok ck (Impl.EEA.eeaIv count bearer direction) hck (iv_length count bearer direction).1
  unfold Impl.EEA.eeaNew
  rw [hz]
  simp only [Outcome.bind]
  rw [eeaEncrypt_eq, if_neg (by omega)]
  exact ⟨_, rfl⟩

theorem eea_short_panics (ck : List UInt8) (hck : ck.length = 16) (count bearer direction length : UInt32)
    (msg : List UInt32) (hm : msg.length < (length.toNat + 31) / 32) :
    (Impl.EEA.eeaNew ck count bearer direction).bind (fun z => Impl.EEA.eeaEncrypt z msg length) = .panic := by
  obtain ⟨z, hz⟩ := new_ok ck (Impl.EEA.eeaIv count bearer direction) hck (iv_length count bearer direction).1
  unfold Impl.EEA.eeaNew
  rw [hz]
  simp only [Outcome.bind]
  rw [eeaEncrypt_eq, if_pos hm]

theorem eia_no_panic (ik : List UInt8) (hik : ik.length = 16) (count bearer direction length : UInt32)
    (msg : List UInt32) (hm : (length.toNat + 31) / 32 ≤ msg.length) :
    ∃ r, (Impl.EEA.eiaNew ik count bearer direction).bind (fun z => Impl.EEA.eiaGenMac z msg length) = .ok r := by
  obtain ⟨z, hz⟩ := new_ok ik (Impl.EEA.eiaIv count bearer direction) hik (iv_length count bearer direction).2
  unfold Impl.EEA.eiaNew
  rw [hz]
  simp only [Outcome.bind]
  rw [eiaGenMac_eq _ _ _ hm]
  exact ⟨_, rfl⟩

theorem find_word_not_err (keys : List UInt32) (i : Nat) (e : String) : Impl.EEA.find_word keys i ≠ .err e := by
  unfold Impl.EEA.find_word
  simp only
  split
  · split <;> simp
  · split <;> simp

theorem macLoop_short (m keys : List UInt32) (n i : Nat) (t : UInt32)
    (h1 : i ≤ 32 * m.length) (h2 : 32 * m.length < i + n) :
    Impl.EEA.macLoop m keys i n t = .panic := by
  induction n generalizing i t with
  | zero => omega
  | succ n ih =>
    unfold Impl.EEA.macLoop
    by_cases hi : i / 32 < m.length
    · simp only [List.getElem?_eq_getElem hi]
      split
      · cases hfw : Impl.EEA.find_word keys i with
        | ok k => exact ih (i + 1) _ (by omega) (by omega)
        | err e => exact absurd hfw (find_word_not_err keys i e)
        | panic => rfl
      · exact ih (i + 1) _ (by omega) (by omega)
    · rw [List.getElem?_eq_none (by omega)]

theorem eia_short_panics (ik : List UInt8) (hik : ik.length = 16) (count bearer direction length : UInt32)
    (msg : List UInt32) (hm : msg.length < (length.toNat + 31) / 32) :
    (Impl.EEA.eiaNew ik count bearer direction).bind (fun z => Impl.EEA.eiaGenMac z msg length) = .panic := by
  obtain ⟨z, hz⟩ := new_ok ik (Impl.EEA.eiaIv count bearer direction) hik (iv_length count bearer direction).2
  have hlt := length.toNat_lt
  unfold Impl.EEA.eiaNew
  rw [hz]
  simp only [Outcome.bind]
  unfold Impl.EEA.eiaGenMac
  simp only [keylength_eq]
  rw [if_neg (by omega)]
  simp only [macLoop_short msg _ length.toNat 0 0 (by omega) (by omega)]

/-! ### EEA3: length, involution, cleared tail -/

theorem eea3_involution (ck : List UInt8) (count : UInt32) (bearer direction length : Nat) (msg : List UInt32)
    (hm : (length + 31) / 32 ≤ msg.length) :
    (bitsOfWords (eea3 ck count bearer direction length (eea3 ck count bearer direction length msg))).take length
      = (bitsOfWords msg).take length := by
  rw [eea3_eq, eea3_eq]
  exact eea3Words_involution _ _ _ (stream_length _ _ _) hm

theorem eea3_tail_zero (ck : List UInt8) (count : UInt32) (bearer direction length : Nat) (msg : List UInt32)
    (hm : (length + 31) / 32 ≤ msg.length) (i : Nat) (hi : length ≤ i) :
    (bitsOfWords (eea3 ck count bearer direction length msg)).getD i false = false := by
  rw [eea3_eq, eea3Words_bit _ _ _ (stream_length _ _ _) hm]
  have : ¬ i < length := by omega
  simp [this]

theorem eea_length (ck : List UInt8) (hck : ck.length = 16) (count bearer direction length : UInt32)
    (msg : List UInt32) (hm : (length.toNat + 31) / 32 ≤ msg.length) :
    ∃ r, (Impl.EEA.eeaNew ck count bearer direction).bind (fun z => Impl.EEA.eeaEncrypt z msg length) = .ok r
      ∧ r.1.length = (length.toNat + 31) / 32 := by
  obtain ⟨z, hz⟩ := new_ok ck (Impl.EEA.eeaIv count bearer direction) hck (iv_length count bearer direction).1
  unfold Impl.EEA.eeaNew
  rw [hz]
  simp only [Outcome.bind]
  rw [eeaEncrypt_eq, if_neg (by omega)]
  exact ⟨_, rfl, eeaOut_length _ _ _ (generate_keystream_length _ _) hm⟩

/-- the model applied to its own output restores the first LENGTH bits of the message -/
theorem eea_involution_impl (H : KeystreamFirst) (ck : List UInt8) (hck : ck.length = 16)
    (count bearer direction length : UInt32) (hb : bearer.toNat < 32) (hd : direction.toNat < 2)
    (msg : List UInt32) (hm : (length.toNat + 31) / 32 ≤ msg.length) :
    ∃ c p, ((Impl.EEA.eeaNew ck count bearer direction).bind (fun z => Impl.EEA.eeaEncrypt z msg length) |>.map (·.1)) = .ok c
      ∧ ((Impl.EEA.eeaNew ck count bearer direction).bind (fun z => Impl.EEA.eeaEncrypt z c length) |>.map (·.1)) = .ok p
      ∧ (bitsOfWords p).take length.toNat = (bitsOfWords msg).take length.toNat := by
  refine ⟨_, _, eea_refines H ck hck count bearer direction length hb hd msg hm,
    eea_refines H ck hck count bearer direction length hb hd _ (by rw [eea3_length]; omega),
    eea3_involution _ _ _ _ _ _ hm⟩

end GmVerif.Proofs.EEA
