/-
C09b helpers, group side: membership in G2 (`Proofs.SM9Bridge.InG2`) is preserved by the model's fixed-base multiplication
and full addition; the generator of G1 as the model has it; what the pairing hypothesis gives for g = e(Ppub-s, P1).
-/
import GmVerif.Proofs.SM9TowerDense
import GmVerif.Proofs.SM9G2ImplMul
import GmVerif.Proofs.SM9G1Mul
import GmVerif.Proofs.SM9Algebra
set_option autoImplicit false
namespace GmVerif.Proofs.SM9SignRefines
open GmVerif GmVerif.Impl.SM9 GmVerif.Proofs.SM9Bridge
open GmVerif.Proofs.SM9Tower (Canon12)
open GmVerif.Proofs.SM9G2Impl (Valid2 toSpec2)
open GmVerif.Spec.SM9 (N P2 mul2 add2 onTwist Pt2)

/-! ### G2 -/

/-- scalar multiplication distributes over the addition of the twist -/
theorem mul2_add2 (k : Nat) {A B : Pt2} (hA : onTwist A = true) (hB : onTwist B = true) :
    mul2 k (add2 A B) = add2 (mul2 k A) (mul2 k B) := by
  obtain ⟨A', rfl⟩ := SM9G2.exists_ofPoint2 hA
  obtain ⟨B', rfl⟩ := SM9G2.exists_ofPoint2 hB
  rw [SM9G2.add2_ofPoint, SM9G2.mul2_ofPoint, SM9G2.mul2_ofPoint, SM9G2.mul2_ofPoint, SM9G2.add2_ofPoint, nsmul_add]

theorem inG2_valid {Q : TwistPoint} (h : InG2 Q) : Valid2 Q := h.1
theorem inG2_onTwist {Q : TwistPoint} (h : InG2 Q) : onTwist (toSpec2 Q) = true := SM9G2Impl.toSpec2_onTwist Q h.1

/-- [k]P2 computed by the model is in G2 -/
theorem inG2_g_mul (k : Nat) (hk : k < 2 ^ 256) : InG2 (TwistPoint.g_mul k) := by
  obtain ⟨hv, hs⟩ := SM9G2Impl.g_mul_correct k hk
  refine ⟨hv, ?_⟩
  rw [hs, SM9G2.mul2_mul _ _ SM9Algebra.sm9_P2_onTwist, SM9Algebra.g2_mul_eq_none_iff]
  exact Nat.dvd_mul_right _ _

theorem inG2_add_full {P Q : TwistPoint} (hP : InG2 P) (hQ : InG2 Q) :
    InG2 (twist_point_add_full P Q)
      ∧ toSpec2 (twist_point_add_full P Q) = add2 (toSpec2 P) (toSpec2 Q) := by
  obtain ⟨hv, hs⟩ := SM9G2Impl.add_full_correct P Q hP.1 hQ.1
  refine ⟨⟨hv, ?_⟩, hs⟩
  rw [hs, mul2_add2 N (inG2_onTwist hP) (inG2_onTwist hQ), hP.2, hQ.2]
  rfl

/-- the generator, and the point at infinity -/
theorem inG2_generator : InG2 TWIST_POINT_MONT_P2 := by
  obtain ⟨hv, hs⟩ := SM9G2Impl.g2_correct
  exact ⟨hv, by rw [hs]; exact SM9Algebra.sm9_g2_order⟩

theorem inG2_zero : InG2 TwistPoint.zero :=
  ⟨SM9G2Impl.zero_valid, by rw [SM9G2Impl.toSpec2_zero]; exact SM9G2.mul2_none _⟩

/-! ### G1: the generator as the model has it -/

theorem P1_valid : SM9G1.Valid POINT_MONT_P1 :=
  (SM9G1.is_on_curve_iff_valid POINT_MONT_P1 (by decide +kernel) (by decide +kernel)).mp (by decide +kernel)

theorem P1_toSpec : SM9G1.toSpec POINT_MONT_P1 = Spec.SM9.P1 := by
  have h := (SM9G1.to_affine_correct POINT_MONT_P1 P1_valid (by decide +kernel)).2.2.2
  have e : some (fp_from_mont POINT_MONT_P1.to_affine_point.x, fp_from_mont POINT_MONT_P1.to_affine_point.y)
      = Spec.SM9.P1 := by decide +kernel
  rw [e] at h; exact h

/-! ### the pairing hypothesis at g = e(Ppub-s, P1) and at u = e(P, S) -/

theorem pairing_g (PR : PairingRefines) {Q : TwistPoint} (hQ : InG2 Q) :
    Canon12 (sm9_u256_pairing Q POINT_MONT_P1)
      ∧ dense (sm9_u256_pairing Q POINT_MONT_P1) = Spec.SM9.pairing Spec.SM9.P1 (toSpec2 Q) := by
  refine ⟨PR.canon Q _ hQ P1_valid, ?_⟩
  rw [PR.value Q _ hQ P1_valid, P1_toSpec]

end GmVerif.Proofs.SM9SignRefines
