/-
The tower → dense bridge (C09b, part 1): `dense` of the tower product of the model is the product of the specification's
dense Fp12 = Fp[w]/(w¹² + 2).  No hypothesis.

Route: `Proofs.SM9Fp12.ev` evaluates a dense coefficient list in Mathlib's quotient ring A = (ZMod p)[X]/(X¹² + 2);
the abstract tower `F12 = Cubic (Quad (Quad K (-2)) u) v` of `Proofs.SM9Tower` maps into A by the ring homomorphism
`φ12` (u ↦ ω⁶, v ↦ ω³, w ↦ ω, ω the class of X); `ev (dense a) = φ12 (dec12 a)` for canonical `a`; the tower theorems of
C13b give `dec12 (a·b) = dec12 a · dec12 b`; canonical dense representatives are unique (`ev_injective`).
-/
import GmVerif.Proofs.SM9Bridge
import GmVerif.Proofs.SM9Fp12
import GmVerif.Proofs.SM9FpFacts
set_option autoImplicit false
namespace GmVerif.Proofs.SM9TowerDense
open GmVerif GmVerif.Proofs.SM9Tower GmVerif.Proofs.SM9Bridge
open GmVerif.Spec.SM9 (p)
open GmVerif.Proofs.SM9Fp12 (ev f Canon)

/-! ### ring homomorphisms out of `Quad` / `Cubic` -/

section lifts
variable {L A : Type} [CommRing L] [CommRing A]

/-- `c0 + c1·x ↦ g c0 + g c1 · t` for `t² = g β` -/
def quadLift {β : L} (g : L →+* A) (t : A) (ht : t * t = g β) : Quad L β →+* A where
  toFun x := g x.c0 + g x.c1 * t
  map_one' := by simp
  map_mul' x y := by
    simp only [Quad.mul_c0, Quad.mul_c1, map_add, map_mul]
    linear_combination (-(g x.c1 * g y.c1)) * ht
  map_zero' := by simp
  map_add' x y := by simp only [Quad.add_c0, Quad.add_c1, map_add]; ring

/-- `c0 + c1·x + c2·x² ↦ g c0 + g c1 · t + g c2 · t²` for `t³ = g ξ` -/
def cubicLift {ξ : L} (g : L →+* A) (t : A) (ht : t * t * t = g ξ) : Cubic L ξ →+* A where
  toFun x := g x.c0 + g x.c1 * t + g x.c2 * (t * t)
  map_one' := by simp
  map_mul' x y := by
    simp only [Cubic.mul_c0, Cubic.mul_c1, Cubic.mul_c2, map_add, map_mul]
    linear_combination (-(g x.c1 * g y.c2 + g x.c2 * g y.c1) - g x.c2 * g y.c2 * t) * ht
  map_zero' := by simp
  map_add' x y := by simp only [Cubic.add_c0, Cubic.add_c1, Cubic.add_c2, map_add]; ring

theorem quadLift_apply {β : L} (g : L →+* A) (t : A) (ht : t * t = g β) (x : Quad L β) :
    quadLift g t ht x = g x.c0 + g x.c1 * t := rfl
theorem cubicLift_apply {ξ : L} (g : L →+* A) (t : A) (ht : t * t * t = g ξ) (x : Cubic L ξ) :
    cubicLift g t ht x = g x.c0 + g x.c1 * t + g x.c2 * (t * t) := rfl
end lifts

/-! ### the tower inside (ZMod p)[X]/(X¹² + 2) -/

/-- the class of X -/
noncomputable def ω : AdjoinRoot f := AdjoinRoot.root f
/-- the embedding of the base field -/
noncomputable def ι : K →+* AdjoinRoot f := AdjoinRoot.of f

theorem ω_pow_12 : ω ^ 12 = -2 := by
  have h := SM9Fp12.mk_X_pow_12
  rwa [map_pow, AdjoinRoot.mk_X] at h

theorem h2 : ω ^ 6 * ω ^ 6 = ι (-2) := by
  rw [map_neg, map_ofNat, ← ω_pow_12]; ring

noncomputable def φ2 : F2 →+* AdjoinRoot f := quadLift ι (ω ^ 6) h2

theorem h4 : ω ^ 3 * ω ^ 3 = φ2 (Quad.root) := by
  rw [φ2, quadLift_apply]; simp only [Quad.root_c0, Quad.root_c1, map_zero, map_one]; ring

noncomputable def φ4 : F4 →+* AdjoinRoot f := quadLift φ2 (ω ^ 3) h4

theorem h12 : ω * ω * ω = φ4 (Quad.root) := by
  rw [φ4, quadLift_apply]; simp only [Quad.root_c0, Quad.root_c1, map_zero, map_one]; ring

/-- F12 → A, a ring homomorphism -/
noncomputable def φ12 : F12 →+* AdjoinRoot f := cubicLift φ4 ω h12

/-! ### `ev` of an explicit list, `dense` of a tower element -/

theorem ev_explicit (n0 n1 n2 n3 n4 n5 n6 n7 n8 n9 n10 n11 : Nat) :
    ev [n0, n1, n2, n3, n4, n5, n6, n7, n8, n9, n10, n11] =
      ι (n0 : K) + ι (n1 : K) * ω + ι (n2 : K) * ω ^ 2 + ι (n3 : K) * ω ^ 3 + ι (n4 : K) * ω ^ 4
        + ι (n5 : K) * ω ^ 5 + ι (n6 : K) * ω ^ 6 + ι (n7 : K) * ω ^ 7 + ι (n8 : K) * ω ^ 8 + ι (n9 : K) * ω ^ 9
        + ι (n10 : K) * ω ^ 10 + ι (n11 : K) * ω ^ 11 := by
  simp only [ev, SM9Fp12.poly_cons, SM9Fp12.poly_nil, map_add, map_mul, AdjoinRoot.mk_C, AdjoinRoot.mk_X, map_zero,
    ι, ω]
  ring

/-- `ofTower` on an explicit 12-list: dense position k holds tower position 4(k mod 3) + 2(k mod 6 / 3) + k / 6 -/
theorem ofTower_explicit (n0 n1 n2 n3 n4 n5 n6 n7 n8 n9 n10 n11 : Nat) :
    Spec.SM9.Fp12.ofTower [n0, n1, n2, n3, n4, n5, n6, n7, n8, n9, n10, n11]
      = [n0 % p, n4 % p, n8 % p, n2 % p, n6 % p, n10 % p, n1 % p, n5 % p, n9 % p, n3 % p, n7 % p, n11 % p] := by
  rfl

theorem dense_explicit (a : Impl.SM9.Fp12) :
    dense a =
      [Impl.SM9.fp_from_mont a.c0.c0.c0 % p, Impl.SM9.fp_from_mont a.c1.c0.c0 % p, Impl.SM9.fp_from_mont a.c2.c0.c0 % p,
       Impl.SM9.fp_from_mont a.c0.c1.c0 % p, Impl.SM9.fp_from_mont a.c1.c1.c0 % p, Impl.SM9.fp_from_mont a.c2.c1.c0 % p,
       Impl.SM9.fp_from_mont a.c0.c0.c1 % p, Impl.SM9.fp_from_mont a.c1.c0.c1 % p, Impl.SM9.fp_from_mont a.c2.c0.c1 % p,
       Impl.SM9.fp_from_mont a.c0.c1.c1 % p, Impl.SM9.fp_from_mont a.c1.c1.c1 % p, Impl.SM9.fp_from_mont a.c2.c1.c1 % p] := by
  rw [dense, towerList_eq]
  simp only [List.map_cons, List.map_nil]
  rw [ofTower_explicit]

/-- every `dense` value is a canonical representative -/
theorem dense_canon (a : Impl.SM9.Fp12) : Canon (dense a) := by
  rw [dense_explicit]
  refine ⟨rfl, fun x hx => ?_⟩
  simp only [List.mem_cons, List.not_mem_nil, or_false] at hx
  rcases hx with rfl | rfl | rfl | rfl | rfl | rfl | rfl | rfl | rfl | rfl | rfl | rfl <;>
    exact Nat.mod_lt _ SM9Fp12.p_pos

theorem fm_cast {c : Nat} (hc : c < p) : ((Impl.SM9.fp_from_mont c : Nat) : K) = dec c :=
  (from_mont_correct SM9FpFacts.fp_facts hc).2

/-- THE LINK: on canonical tower elements `ev ∘ dense = φ12 ∘ dec12` -/
theorem ev_dense (a : Impl.SM9.Fp12) (ha : Canon12 a) : ev (dense a) = φ12 (dec12 a) := by
  obtain ⟨⟨⟨k0, k1⟩, ⟨k2, k3⟩⟩, ⟨⟨k4, k5⟩, ⟨k6, k7⟩⟩, ⟨⟨k8, k9⟩, ⟨k10, k11⟩⟩⟩ := ha
  rw [dense_explicit, ev_explicit]
  simp only [ZMod.natCast_mod, fm_cast, k0, k1, k2, k3, k4, k5, k6, k7, k8, k9, k10, k11]
  simp only [φ12, cubicLift_apply, φ4, quadLift_apply, φ2, dec12, dec4, dec2]
  ring

/-! ### the bridge -/

theorem dense_one : dense Impl.SM9.Fp12.one = Spec.SM9.Fp12.one := by
  apply SM9Fp12.ev_injective (dense_canon _) SM9Fp12.canon_one
  rw [ev_dense _ ok12_one.out.1, ok12_one.out.2, map_one, SM9Fp12.ev_one]

theorem dense_mul (a b : Impl.SM9.Fp12) (ha : Canon12 a) (hb : Canon12 b) :
    dense (a.fp_mul b) = Spec.SM9.Fp12.mul (dense a) (dense b) := by
  obtain ⟨hc, hm⟩ := (SM9FpFacts.fp_facts.o12_mul (ok12_dec ha) (ok12_dec hb)).out
  apply SM9Fp12.ev_injective (dense_canon _) (SM9Fp12.canon_mul _ _)
  rw [ev_dense _ hc, hm, map_mul, SM9Fp12.ev_mul, ev_dense _ ha, ev_dense _ hb]

/-- tower multiplication is dense multiplication -/
theorem tower_dense : TowerDense := ⟨dense_one, dense_mul⟩

theorem canon_mul (a b : Impl.SM9.Fp12) (ha : Canon12 a) (hb : Canon12 b) : Canon12 (a.fp_mul b) :=
  (SM9FpFacts.fp_facts.o12_mul (ok12_dec ha) (ok12_dec hb)).out.1

/-- `pow` (its `assert!` passes for e ≤ N − 1) is the specification's square-and-multiply on the dense value -/
theorem dense_pow (a : Impl.SM9.Fp12) (e : Nat) (ha : Canon12 a) (he : e ≤ Spec.SM9.N - 1) :
    ∃ r, a.pow e = .ok r ∧ Canon12 r ∧ dense r = Spec.SM9.Fp12.pow (dense a) e := by
  obtain ⟨r, h1, h2, h3⟩ := SM9FpFacts.fp_facts.pow_correct ha he
  refine ⟨r, h1, h2, ?_⟩
  apply SM9Fp12.ev_injective (dense_canon _) (SM9Fp12.canon_pow _ _)
  rw [ev_dense _ h2, h3, map_pow, SM9Fp12.ev_pow, ev_dense _ ha]

theorem dense_bytes (a : Impl.SM9.Fp12) (ha : Canon12 a) :
    a.to_bytes_be = Spec.SM9.Fp12.toBytes (dense a) := to_bytes_spec SM9FpFacts.fp_facts ha

/-- `dense` is injective on canonical tower elements -/
theorem dense_inj (a b : Impl.SM9.Fp12) (ha : Canon12 a) (hb : Canon12 b) (h : dense a = dense b) : a = b := by
  obtain ⟨⟨⟨k0, k1⟩, ⟨k2, k3⟩⟩, ⟨⟨k4, k5⟩, ⟨k6, k7⟩⟩, ⟨⟨k8, k9⟩, ⟨k10, k11⟩⟩⟩ := ha
  obtain ⟨⟨⟨j0, j1⟩, ⟨j2, j3⟩⟩, ⟨⟨j4, j5⟩, ⟨j6, j7⟩⟩, ⟨⟨j8, j9⟩, ⟨j10, j11⟩⟩⟩ := hb
  rw [dense_explicit, dense_explicit] at h
  simp only [List.cons.injEq, and_true] at h
  have key : ∀ c d : Nat, c < p → d < p →
      Impl.SM9.fp_from_mont c % p = Impl.SM9.fp_from_mont d % p → c = d := by
    intro c d hc hd he
    apply dec_inj hc hd
    rw [← fm_cast hc, ← fm_cast hd]
    exact (ZMod.natCast_eq_natCast_iff' _ _ _).2 he
  obtain ⟨e0, e4, e8, e2, e6, e10, e1, e5, e9, e3, e7, e11⟩ := h
  obtain ⟨⟨⟨a0, a1⟩, ⟨a2, a3⟩⟩, ⟨⟨a4, a5⟩, ⟨a6, a7⟩⟩, ⟨⟨a8, a9⟩, ⟨a10, a11⟩⟩⟩ := a
  obtain ⟨⟨⟨b0, b1⟩, ⟨b2, b3⟩⟩, ⟨⟨b4, b5⟩, ⟨b6, b7⟩⟩, ⟨⟨b8, b9⟩, ⟨b10, b11⟩⟩⟩ := b
  simp only at *
  rw [key _ _ k0 j0 e0, key _ _ k1 j1 e1, key _ _ k2 j2 e2, key _ _ k3 j3 e3, key _ _ k4 j4 e4, key _ _ k5 j5 e5,
    key _ _ k6 j6 e6, key _ _ k7 j7 e7, key _ _ k8 j8 e8, key _ _ k9 j9 e9, key _ _ k10 j10 e10, key _ _ k11 j11 e11]

end GmVerif.Proofs.SM9TowerDense
