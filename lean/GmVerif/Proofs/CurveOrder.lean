/-
Point count of a short-Weierstrass curve over a prime field from a prime-order generator.

If `G ≠ O` is on the curve, `[n]G = O` with `n` prime, `2p + 1 < 3n`, and the cubic `x³ + a x + b` has no root modulo `p`
(no point of order two), then the curve group has exactly `n` elements, so EVERY non-trivial point has order `n`.

* `card_le`      : `#E(F_p) ≤ 2p + 1`          (at most two `y` for each `x`, plus the point at infinity);
* Lagrange       : `n = ord G ∣ #E(F_p)`, so `#E(F_p) ∈ {n, 2n}`;
* Cauchy         : `#E(F_p) = 2n` would give a point of order two, i.e. `y = 0`, i.e. a root of the cubic;
* `mul_eq_none_iff_of_card` : hence `[k]P = O ↔ n ∣ k` for every on-curve `P ≠ O`.
Generic in the curve; the SM2 / SM9 instances are in `Proofs/SM2Order.lean`, `Proofs/SM9Order.lean`.
-/
import Mathlib.GroupTheory.Perm.Cycle.Type
import Mathlib.Algebra.Polynomial.Roots
import GmVerif.Proofs.SpecEC

namespace GmVerif.Proofs.CurveOrder
open GmVerif.Spec.EC GmVerif.Proofs.SpecEC
open WeierstrassCurve.Affine

variable {c : Curve} [Fact (Nat.Prime c.p)]

/-- the right-hand side of the curve equation -/
def cubic (c : Curve) (x : ZMod c.p) : ZMod c.p := x ^ 3 + (c.a : ZMod c.p) * x + (c.b : ZMod c.p)

/-- "no point of order two": the cubic has no root in the field -/
def NoRoot (c : Curve) : Prop := ∀ x : ZMod c.p, x ^ 3 + (c.a : ZMod c.p) * x + (c.b : ZMod c.p) ≠ 0

/-! ### (a) at most `2p + 1` points -/

/-- the affine solutions of `y² = x³ + a x + b` -/
noncomputable def sols (c : Curve) [Fact (Nat.Prime c.p)] : Finset (ZMod c.p × ZMod c.p) :=
  Finset.univ.filter fun q => q.2 ^ 2 = cubic c q.1

theorem mem_sols (q : ZMod c.p × ZMod c.p) : q ∈ sols c ↔ q.2 ^ 2 = cubic c q.1 := by
  simp [sols]

/-- a square has at most two square roots in a field -/
theorem card_sqrt_le_two {F : Type*} [Field F] [DecidableEq F] (s : Finset F) (a : F)
    (h : ∀ y ∈ s, y ^ 2 = a) : s.card ≤ 2 := by
  have hsub : s ⊆ (Polynomial.nthRoots 2 a).toFinset := by
    intro y hy
    rw [Multiset.mem_toFinset, Polynomial.mem_nthRoots (by norm_num)]
    exact h y hy
  calc s.card ≤ (Polynomial.nthRoots 2 a).toFinset.card := Finset.card_le_card hsub
    _ ≤ Multiset.card (Polynomial.nthRoots 2 a) := Multiset.toFinset_card_le _
    _ ≤ 2 := Polynomial.card_nthRoots 2 a

theorem card_sols_le : (sols c).card ≤ 2 * c.p := by
  classical
  have h1 := Finset.card_le_mul_card_image (f := Prod.fst) (sols c) 2 (by
    intro x _
    -- the fibre over `x` injects (by `Prod.snd`) into the square roots of `cubic c x`
    have hinj : Set.InjOn Prod.snd (↑((sols c).filter fun q => q.1 = x) : Set (ZMod c.p × ZMod c.p)) := by
      intro q hq q' hq' hqq'
      rw [Finset.mem_coe, Finset.mem_filter] at hq hq'
      exact Prod.ext (hq.2.trans hq'.2.symm) hqq'
    rw [← Finset.card_image_of_injOn hinj]
    apply card_sqrt_le_two _ (cubic c x)
    intro y hy
    rw [Finset.mem_image] at hy
    obtain ⟨q, hq, rfl⟩ := hy
    rw [Finset.mem_filter, mem_sols] at hq
    rw [hq.1, hq.2])
  have h2 : ((sols c).image Prod.fst).card ≤ c.p := by
    have := Finset.card_le_univ ((sols c).image Prod.fst)
    rwa [ZMod.card] at this
  calc (sols c).card ≤ 2 * ((sols c).image Prod.fst).card := h1
    _ ≤ 2 * c.p := Nat.mul_le_mul_left 2 h2

/-- Mathlib point → `Option` of a solution -/
noncomputable def toSol : (W c).Point → Option (sols c)
  | .zero => none
  | .some x y h => some ⟨(x, y), (mem_sols _).mpr ((W_equation_iff x y).mp h.1)⟩

theorem toSol_injective : Function.Injective (toSol (c := c)) := by
  intro P Q h
  rcases P with _ | ⟨x1, y1, h1⟩ <;> rcases Q with _ | ⟨x2, y2, h2⟩
  · rfl
  · simp [toSol] at h
  · simp [toSol] at h
  · simp only [toSol, Option.some.injEq, Subtype.mk.injEq, Prod.mk.injEq] at h
    obtain ⟨hx, hy⟩ := h
    subst hx hy
    rfl

instance finite_point : Finite (W c).Point := Finite.of_injective toSol toSol_injective

/-- `#E(F_p) ≤ 2p + 1` -/
theorem card_le : Nat.card (W c).Point ≤ 2 * c.p + 1 := by
  have h := Nat.card_le_card_of_injective toSol (toSol_injective (c := c))
  have h2 : Nat.card (Option (sols c)) = (sols c).card + 1 := by
    rw [Nat.card_eq_fintype_card, Fintype.card_option, Fintype.card_coe]
  have := card_sols_le (c := c)
  omega

/-! ### (c) no point of order two -/

theorem two_nsmul_ne_zero (hc : Valid c) (hroot : NoRoot c) (P : (W c).Point) (hP : P ≠ 0) :
    2 • P ≠ 0 := by
  intro h2
  rcases P with _ | ⟨x, y, h⟩
  · exact hP rfl
  · have hneg : Point.some x y h = -Point.some x y h := by
      rw [two_nsmul] at h2
      exact eq_neg_of_add_eq_zero_left h2
    rw [Point.neg_some] at hneg
    have hy : y = (W c).negY x y := by
      injection hneg
    simp only [negY, W_a₁, W_a₃, zero_mul, sub_zero] at hy
    have hy0 : y = 0 := by
      have h2y : (2 : ZMod c.p) * y = 0 := by linear_combination hy
      rcases mul_eq_zero.mp h2y with h | h
      · exact absurd h (SpecEC.two_ne_zero' hc.two_lt)
      · exact h
    have heq := (W_equation_iff x y).mp h.1
    rw [hy0] at heq
    exact hroot x (by rw [← heq]; ring)

theorem addOrderOf_ne_two (hc : Valid c) (hroot : NoRoot c) (P : (W c).Point) : addOrderOf P ≠ 2 := by
  intro h
  have hP : P ≠ 0 := by
    rintro rfl
    rw [addOrderOf_zero] at h
    omega
  exact two_nsmul_ne_zero hc hroot P hP (h ▸ addOrderOf_nsmul_eq_zero P)

/-! ### (b)+(c)+(d) the point count -/

/-- the order of a non-trivial element killed by a prime -/
theorem addOrderOf_eq_prime {A : Type*} [AddMonoid A] {n : ℕ} (hn : n.Prime) {g : A} (hg : g ≠ 0)
    (h : n • g = 0) : addOrderOf g = n := by
  rcases (Nat.dvd_prime hn).mp (addOrderOf_dvd_of_nsmul_eq_zero h) with h1 | h1
  · exact absurd (AddMonoid.addOrderOf_eq_one_iff.mp h1) hg
  · exact h1

/-- the group of the curve has exactly `n` elements -/
theorem card_eq (hc : Valid c) {n : ℕ} (hn : n.Prime) (hbound : 2 * c.p + 1 < 3 * n) (hroot : NoRoot c)
    {G : Pt} (hG : onCurve c G = true) (hG0 : G ≠ none) (hnG : mul c n G = none) :
    Nat.card (W c).Point = n := by
  obtain ⟨G', rfl⟩ := exists_ofPoint hc hG
  rw [mul_ofPoint hc.two_lt, ofPoint_eq_none_iff] at hnG
  have hG0' : G' ≠ 0 := fun h => hG0 (by rw [h]; rfl)
  have hord : addOrderOf G' = n := addOrderOf_eq_prime hn hG0' hnG
  have hdvd : n ∣ Nat.card (W c).Point := hord ▸ addOrderOf_dvd_natCard G'
  obtain ⟨k, hk⟩ := hdvd
  have hle := card_le (c := c)
  have hpos : 0 < Nat.card (W c).Point := Nat.card_pos
  have hk3 : k < 3 := by
    by_contra hk3
    have : n * 3 ≤ n * k := Nat.mul_le_mul_left n (by omega)
    omega
  have hk0 : k ≠ 0 := by
    rintro rfl
    omega
  have hk2 : k ≠ 2 := by
    rintro rfl
    have : Fact (Nat.Prime 2) := ⟨Nat.prime_two⟩
    obtain ⟨x, hx⟩ := exists_prime_addOrderOf_dvd_card' (G := (W c).Point) 2 (hk ▸ Dvd.intro_left n rfl)
    exact addOrderOf_ne_two hc hroot x hx
  have hk1 : k = 1 := by omega
  rw [hk, hk1, Nat.mul_one]

/-- every Mathlib point is killed by `n` -/
theorem nsmul_eq_zero_of_card {n : ℕ} (hcard : Nat.card (W c).Point = n) (P : (W c).Point) : n • P = 0 := by
  have h := addOrderOf_dvd_natCard P
  rw [hcard] at h
  exact addOrderOf_dvd_iff_nsmul_eq_zero.mp h

/-- `[n]P = O` for every on-curve point -/
theorem mul_card_eq_none (hc : Valid c) {n : ℕ} (hcard : Nat.card (W c).Point = n) {P : Pt}
    (hP : onCurve c P = true) : mul c n P = none := by
  obtain ⟨P', rfl⟩ := exists_ofPoint hc hP
  rw [mul_ofPoint hc.two_lt, ofPoint_eq_none_iff]
  exact nsmul_eq_zero_of_card hcard P'

/-- every non-trivial point has order exactly `n` -/
theorem mul_eq_none_iff_of_card (hc : Valid c) {n : ℕ} (hn : n.Prime) (hcard : Nat.card (W c).Point = n)
    {P : Pt} (hP : onCurve c P = true) (hP0 : P ≠ none) (k : ℕ) : mul c k P = none ↔ n ∣ k :=
  mul_eq_none_iff_of_prime_order hc hn hP hP0 (mul_card_eq_none hc hcard hP) k

/-- the statement of the task in one piece -/
theorem every_point_order (hc : Valid c) {n : ℕ} (hn : n.Prime) (hbound : 2 * c.p + 1 < 3 * n) (hroot : NoRoot c)
    {G : Pt} (hG : onCurve c G = true) (hG0 : G ≠ none) (hnG : mul c n G = none) :
    Nat.card (W c).Point = n ∧
      ∀ P, onCurve c P = true → P ≠ none → ∀ k, mul c k P = none ↔ n ∣ k :=
  have hcard := card_eq hc hn hbound hroot hG hG0 hnG
  ⟨hcard, fun _ hP hP0 k => mul_eq_none_iff_of_card hc hn hcard hP hP0 k⟩

/-- the curve group is cyclic, generated by any non-trivial point: every on-curve point is `[k]G` with `k < n` -/
theorem exists_mul_eq_of_card (hc : Valid c) {n : ℕ} (hn : n.Prime) (hcard : Nat.card (W c).Point = n)
    {G : Pt} (hG : onCurve c G = true) (hG0 : G ≠ none) {P : Pt} (hP : onCurve c P = true) :
    ∃ k, k < n ∧ mul c k G = P := by
  obtain ⟨G', rfl⟩ := exists_ofPoint hc hG
  obtain ⟨P', rfl⟩ := exists_ofPoint hc hP
  have hG0' : G' ≠ 0 := fun h => hG0 (by rw [h]; rfl)
  have hord : addOrderOf G' = n := addOrderOf_eq_prime hn hG0' (nsmul_eq_zero_of_card hcard G')
  let f : Fin n → (W c).Point := fun k => k.val • G'
  have hinj : Function.Injective f := by
    intro i j hij
    apply Fin.ext
    exact nsmul_injOn_Iio_addOrderOf (x := G') (by rw [hord]; exact i.isLt) (by rw [hord]; exact j.isLt) hij
  have hbij := hinj.bijective_of_nat_card_le (by rw [hcard, Nat.card_eq_fintype_card, Fintype.card_fin])
  obtain ⟨k, hk⟩ := hbij.2 P'
  exact ⟨k.val, k.isLt, by rw [mul_ofPoint hc.two_lt]; exact congrArg ofPoint hk⟩

end GmVerif.Proofs.CurveOrder
