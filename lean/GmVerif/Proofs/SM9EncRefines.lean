/-
C10b, encryption half: `Sm9EncMasterKey::encrypt` of the model against GM/T 0044.4 §7.2 (`Spec.SM9.encryptWith`), given
`PairingRefines` and `TowerDense`.  The specification's loop over the candidates (`specEncLoop`) is defined here; the
model is shown to return exactly its result (or `rng-exhausted` when it has none).
-/
import GmVerif.Proofs.SM9EncRefinesBase
set_option autoImplicit false
namespace GmVerif.Proofs.SM9EncRefines
open GmVerif GmVerif.Impl.SM9
open GmVerif.Proofs.SM9Bridge (dense TowerDense PairingRefines InG2)
open GmVerif.Proofs.SM9G1 (Valid toSpec)
open GmVerif.Proofs.SM9Logic (bind_ok bind_err bind_panic map_ok)
open GmVerif.Proofs.SM9EncRefinesBase
open GmVerif.Spec.SM9 (curve N)
open GmVerif.Gen.SM9 (N_MINUS_ONE HID_ENC)

/-! ### the loop of the model, one candidate at a time -/

theorem encLoop_nil (m : Sm9EncMasterKey) (q : Point) (idb data : List UInt8) (fuel : Nat) (used : List Nat) :
    encLoop m q idb data fuel [] used = .err "rng-exhausted" := by
  cases fuel with
  | zero => rfl
  | succ fuel => simp only [encLoop, sm9_random_u256]

theorem encLoop_cons_reject (m : Sm9EncMasterKey) (q : Point) (idb data : List UInt8) (fuel : Nat)
    (c : List UInt8) (cs : List (List UInt8)) (used : List Nat) (h : ¬ Accept (beNat c)) :
    encLoop m q idb data (fuel + 1) (c :: cs) used = encLoop m q idb data (fuel + 1) cs used := by
  simp only [encLoop]
  rw [sampler_eq, sampler_eq, firstAccepted_cons_reject h]

/-- an accepted candidate, non-empty message of at most 287 bytes: accept unless K1 is all zero, then the next candidate -/
theorem encLoop_cons_accept (m : Sm9EncMasterKey) (q : Point) (idb data : List UInt8) (fuel : Nat)
    (c : List UInt8) (cs : List (List UInt8)) (used : List Nat) (h : Accept (beNat c)) (c1 : Point) (w : Fp12)
    (hc1 : q.point_mul (beNat c) = .ok c1)
    (hw : (sm9_u256_pairing TWIST_POINT_MONT_P2 m.ppube).pow (beNat c) = .ok w)
    (hne : data ≠ []) (hlen : data.length ≤ 287) :
    encLoop m q idb data (fuel + 1) (c :: cs) used =
      if all_zero ((kdf (c1.to_bytes_be.drop 1 ++ w.to_bytes_be ++ idb) 287).take data.length) = false
      then .ok ⟨(c1, kdf (c1.to_bytes_be.drop 1 ++ w.to_bytes_be ++ idb) 287), used ++ [beNat c], cs⟩
      else encLoop m q idb data fuel cs (used ++ [beNat c]) := by
  simp only [encLoop]
  rw [sampler_eq, firstAccepted_cons_accept h]
  simp only []
  rw [hc1, bind_ok, hw, bind_ok]
  have e287 : 255 + 32 = 287 := rfl
  simp only [e287]
  have hkl := SM9Logic.kdf_length (c1.to_bytes_be.drop 1 ++ w.to_bytes_be ++ idb) 287 (by omega) (by omega)
  generalize kdf (c1.to_bytes_be.drop 1 ++ w.to_bytes_be ++ idb) 287 = k at hkl
  have he : ¬ data.isEmpty = true := by simpa [List.isEmpty_iff] using hne
  rw [if_neg he, if_neg (by omega)]
  cases all_zero (k.take data.length) <;> rfl

/-- the empty message: the first accepted candidate is final (no test of K1) -/
theorem encLoop_cons_accept_empty (m : Sm9EncMasterKey) (q : Point) (idb : List UInt8) (fuel : Nat)
    (c : List UInt8) (cs : List (List UInt8)) (used : List Nat) (h : Accept (beNat c)) (c1 : Point) (w : Fp12)
    (hc1 : q.point_mul (beNat c) = .ok c1)
    (hw : (sm9_u256_pairing TWIST_POINT_MONT_P2 m.ppube).pow (beNat c) = .ok w) :
    encLoop m q idb [] (fuel + 1) (c :: cs) used =
      .ok ⟨(c1, kdf (c1.to_bytes_be.drop 1 ++ w.to_bytes_be ++ idb) 287), used ++ [beNat c], cs⟩ := by
  simp only [encLoop]
  rw [sampler_eq, firstAccepted_cons_accept h]
  simp only []
  rw [hc1, bind_ok, hw, bind_ok]
  rfl

/-- what `encrypt` does with the result of its loop -/
def encPost (data : List UInt8) : Rand (Point × List UInt8) → Outcome (Rand (List UInt8)) :=
  fun ⟨(c1, k), used, rest⟩ =>
    let k1 := k.take data.length
    let k2 := k.drop data.length
    (Impl.SM9.xor k1 data data.length).bind fun c2 =>
    (sm9_mac k2 c2).map fun c3 =>
    ⟨c1.to_bytes_be ++ c3 ++ c2, used, rest⟩

theorem encrypt_eq (m : Sm9EncMasterKey) (idb data : List UInt8) (cands : List (List UInt8)) :
    m.encrypt idb data cands =
      (sm9_u256_hash1 idb HID_ENC).bind fun t =>
      (POINT_MONT_P1.point_mul t).bind fun q =>
      (encLoop m (q.point_add m.ppube) idb data (cands.length + 1) cands []).bind (encPost data) := by
  unfold Sm9EncMasterKey.encrypt encPost; rfl

theorem encPost_ok (data : List UInt8) (hlen : data.length ≤ 255) (c1 : Point) (z : List UInt8) (used : List Nat)
    (rest : List (List UInt8)) :
    encPost data ⟨(c1, kdf z 287), used, rest⟩ =
      .ok ⟨c1.to_bytes_be
        ++ Spec.SM9.mac ((Spec.SM9.kdf z (data.length + 32)).drop data.length)
            (Spec.SM9.xorBytes data ((Spec.SM9.kdf z (data.length + 32)).take data.length))
        ++ Spec.SM9.xorBytes data ((Spec.SM9.kdf z (data.length + 32)).take data.length), used, rest⟩ := by
  have hkl := SM9Logic.kdf_length z 287 (by omega) (by omega)
  obtain ⟨e1, e2⟩ := SM9Logic.enc_spec_form z data hlen
  show ((Impl.SM9.xor ((kdf z 287).take data.length) data data.length).bind fun c2 =>
      (sm9_mac ((kdf z 287).drop data.length) c2).map fun c3 =>
        (⟨c1.to_bytes_be ++ c3 ++ c2, used, rest⟩ : Rand (List UInt8))) = _
  rw [SM9Logic.enc_tail (kdf z 287) data hkl
    (fun c3 c2 => (⟨c1.to_bytes_be ++ c3 ++ c2, used, rest⟩ : Rand (List UInt8))), if_pos hlen, e2]
  simp only [Spec.SM9.xorBytes, e1]

/-! ### the specification's loop -/

/-- Q_B = [H1(ID_B ‖ 03)]P1 + Ppub-e -/
abbrev QB (Ppube : Spec.EC.Pt) (idb : List UInt8) : Spec.EC.Pt := Qpt Ppube idb Spec.SM9.hidEnc

/-- GM/T 0044.4 §7.2 over a list of candidates for the random number: candidates outside the sampler's acceptance set are
skipped; an accepted candidate r is used (and logged); when A6 says "return to A2" (K1 all zero) the next candidate is
taken.  `none`: the list is exhausted. -/
def specEncLoop (Ppube : Spec.EC.Pt) (idb msg : List UInt8) :
    List (List UInt8) → List Nat → Option (Rand (List UInt8))
  | [], _ => none
  | c :: cs, used =>
    if Accept (beNat c) then
      match Spec.SM9.encryptWith Ppube idb msg (beNat c) with
      | some ct => some ⟨ct, used ++ [beNat c], cs⟩
      | none => specEncLoop Ppube idb msg cs (used ++ [beNat c])
    else specEncLoop Ppube idb msg cs used

/-- `encryptWith` with the model's fixed-length KDF call -/
theorem encryptWith_eq (Ppube : Spec.EC.Pt) (idb msg : List UInt8) (r : Nat) (hlen : msg.length ≤ 255) :
    Spec.SM9.encryptWith Ppube idb msg r =
      let C1 := Spec.EC.mul curve r (QB Ppube idb)
      let z := Spec.SM9.pointBytes C1
        ++ Spec.SM9.Fp12.toBytes (Spec.SM9.Fp12.pow (Spec.SM9.pairing Ppube Spec.SM9.P2) r) ++ idb
      if all_zero ((kdf z 287).take msg.length) = true then none
      else some (Spec.SM9.encodePoint C1
        ++ Spec.SM9.mac ((Spec.SM9.kdf z (msg.length + 32)).drop msg.length)
            (Spec.SM9.xorBytes msg ((Spec.SM9.kdf z (msg.length + 32)).take msg.length))
        ++ Spec.SM9.xorBytes msg ((Spec.SM9.kdf z (msg.length + 32)).take msg.length)) := by
  have e := (SM9Logic.kdf_287_split (Spec.SM9.pointBytes (Spec.EC.mul curve r (QB Ppube idb))
    ++ Spec.SM9.Fp12.toBytes (Spec.SM9.Fp12.pow (Spec.SM9.pairing Ppube Spec.SM9.P2) r) ++ idb) msg.length hlen).1
  simp only []
  rw [e]
  rfl

/-- one accepted candidate: the model's round against `encryptWith` -/
theorem encLoop_round (PR : PairingRefines) (TD : TowerDense) (m : Sm9EncMasterKey) (hv : Valid m.ppube)
    (q : Point) (hq : Valid q) (idb data : List UInt8) (hqs : toSpec q = QB (toSpec m.ppube) idb)
    (hne : data ≠ []) (hlen : data.length ≤ 255)
    (fuel : Nat) (c : List UInt8) (cs : List (List UInt8)) (used : List Nat) (h : Accept (beNat c))
    (hfin : Spec.EC.mul curve (beNat c) (QB (toSpec m.ppube) idb) ≠ none) :
    (encLoop m q idb data (fuel + 1) (c :: cs) used).bind (encPost data) =
      match Spec.SM9.encryptWith (toSpec m.ppube) idb data (beNat c) with
      | some ct => .ok ⟨ct, used ++ [beNat c], cs⟩
      | none => (encLoop m q idb data fuel cs (used ++ [beNat c])).bind (encPost data) := by
  obtain ⟨c1, hc1, _, hc1s, hb⟩ := q_mul q hq (beNat c) (accept_lt h)
  rw [hqs] at hc1s hb
  obtain ⟨hb1, hb2⟩ := hb hfin
  obtain ⟨w, hw, hwb⟩ := pairing_g_pow PR TD m.ppube hv (beNat c) (accept_le h)
  rw [encLoop_cons_accept m q idb data fuel c cs used h c1 w hc1 hw hne (by omega), encryptWith_eq _ _ _ _ hlen]
  simp only []
  rw [hb2, hwb]
  generalize Spec.SM9.pointBytes (Spec.EC.mul curve (beNat c) (QB (toSpec m.ppube) idb))
    ++ Spec.SM9.Fp12.toBytes (Spec.SM9.Fp12.pow (Spec.SM9.pairing (toSpec m.ppube) Spec.SM9.P2) (beNat c)) ++ idb = z
  cases hz : all_zero ((kdf z 287).take data.length) with
  | true => simp only [Bool.true_eq_false, if_false, if_true]
  | false =>
    simp only [if_true, Bool.false_eq_true, if_false]
    rw [bind_ok, encPost_ok data hlen, hb1]

/-- the whole loop: the model returns what the specification's loop returns -/
theorem encLoop_refines (PR : PairingRefines) (TD : TowerDense) (m : Sm9EncMasterKey) (hv : Valid m.ppube)
    (q : Point) (hq : Valid q) (idb data : List UInt8) (hqs : toSpec q = QB (toSpec m.ppube) idb)
    (hne : data ≠ []) (hlen : data.length ≤ 255)
    (hfin : ∀ r, Accept r → Spec.EC.mul curve r (QB (toSpec m.ppube) idb) ≠ none)
    (cands : List (List UInt8)) :
    ∀ (fuel : Nat) (used : List Nat), cands.length < fuel →
      (encLoop m q idb data fuel cands used).bind (encPost data) =
        match specEncLoop (toSpec m.ppube) idb data cands used with
        | some res => .ok res
        | none => .err "rng-exhausted" := by
  induction cands with
  | nil => intro fuel used _; rw [encLoop_nil, bind_err]; rfl
  | cons c cs ih =>
    intro fuel used hf
    cases fuel with
    | zero => omega
    | succ fuel =>
      simp only [List.length_cons] at hf
      simp only [specEncLoop]
      by_cases h : Accept (beNat c)
      · rw [if_pos h, encLoop_round PR TD m hv q hq idb data hqs hne hlen fuel c cs used h (hfin _ h)]
        cases Spec.SM9.encryptWith (toSpec m.ppube) idb data (beNat c) with
        | some ct => rfl
        | none => exact ih fuel _ (by omega)
      · rw [if_neg h, encLoop_cons_reject m q idb data fuel c cs used h]
        exact ih (fuel + 1) used (by omega)

/-- `Sm9EncMasterKey::encrypt`, non-empty message of at most 255 bytes -/
theorem encrypt_refines (PR : PairingRefines) (TD : TowerDense) (m : Sm9EncMasterKey) (hv : Valid m.ppube)
    (idb data : List UInt8) (hne : data ≠ []) (hlen : data.length ≤ 255)
    (hfin : ∀ r, Accept r → Spec.EC.mul curve r (QB (toSpec m.ppube) idb) ≠ none)
    (cands : List (List UInt8)) :
    m.encrypt idb data cands =
      match specEncLoop (toSpec m.ppube) idb data cands [] with
      | some res => .ok res
      | none => .err "rng-exhausted" := by
  obtain ⟨q0, h1, h2, h3, h4⟩ := q_point m.ppube hv idb HID_ENC
  rw [encrypt_eq, h1, bind_ok, h2, bind_ok]
  rw [SM9G2Impl.hid_enc] at h4
  exact encLoop_refines PR TD m hv _ h3 idb data h4 hne hlen hfin cands _ _ (Nat.lt_succ_self _)

/-! ### the empty message -/

/-- the empty message is never re-drawn: the result is C1 ‖ MAC(K, ε) with K = KDF(C1 ‖ w ‖ ID, 32) for the FIRST
accepted candidate (the standard would return to A2 for ever: K1 is empty, hence "all zero") -/
theorem encrypt_empty (PR : PairingRefines) (TD : TowerDense) (m : Sm9EncMasterKey) (hv : Valid m.ppube)
    (idb : List UInt8) (hfin : ∀ r, Accept r → Spec.EC.mul curve r (QB (toSpec m.ppube) idb) ≠ none)
    (cands : List (List UInt8)) :
    m.encrypt idb [] cands =
      match firstAccepted cands with
      | none => .err "rng-exhausted"
      | some (r, rest) =>
        let C1 := Spec.EC.mul curve r (QB (toSpec m.ppube) idb)
        let z := Spec.SM9.pointBytes C1
          ++ Spec.SM9.Fp12.toBytes (Spec.SM9.Fp12.pow (Spec.SM9.pairing (toSpec m.ppube) Spec.SM9.P2) r) ++ idb
        .ok ⟨Spec.SM9.encodePoint C1 ++ Spec.SM9.mac (Spec.SM9.kdf z 32) [], [r], rest⟩ := by
  obtain ⟨q0, h1, h2, h3, h4⟩ := q_point m.ppube hv idb HID_ENC
  rw [encrypt_eq, h1, bind_ok, h2, bind_ok]
  rw [SM9G2Impl.hid_enc] at h4
  generalize hq : q0.point_add m.ppube = q at h3 h4
  suffices H : ∀ (cands : List (List UInt8)) (fuel : Nat), cands.length < fuel →
      (encLoop m q idb [] fuel cands []).bind (encPost []) =
      match firstAccepted cands with
      | none => .err "rng-exhausted"
      | some (r, rest) =>
        let C1 := Spec.EC.mul curve r (QB (toSpec m.ppube) idb)
        let z := Spec.SM9.pointBytes C1
          ++ Spec.SM9.Fp12.toBytes (Spec.SM9.Fp12.pow (Spec.SM9.pairing (toSpec m.ppube) Spec.SM9.P2) r) ++ idb
        .ok ⟨Spec.SM9.encodePoint C1 ++ Spec.SM9.mac (Spec.SM9.kdf z 32) [], [r], rest⟩ from
    H cands _ (Nat.lt_succ_self _)
  intro cands
  induction cands with
  | nil => intro fuel _; rw [encLoop_nil, bind_err]; rfl
  | cons c cs ih =>
    intro fuel hf
    cases fuel with
    | zero => omega
    | succ fuel =>
      simp only [List.length_cons] at hf
      by_cases h : Accept (beNat c)
      · obtain ⟨c1, hc1, _, hc1s, hb⟩ := q_mul q h3 (beNat c) (accept_lt h)
        rw [h4] at hc1s hb
        obtain ⟨hb1, hb2⟩ := hb (hfin _ h)
        obtain ⟨w, hw, hwb⟩ := pairing_g_pow PR TD m.ppube hv (beNat c) (accept_le h)
        rw [encLoop_cons_accept_empty m q idb fuel c cs [] h c1 w hc1 hw, firstAccepted_cons_accept h, bind_ok,
          encPost_ok [] (by decide), hb2, hb1, hwb]
        simp only [List.length_nil, Nat.zero_add, List.drop_zero, List.take_zero, Spec.SM9.xorBytes,
          List.zipWith_nil_left, List.append_nil, List.nil_append]
      · rw [encLoop_cons_reject m q idb [] fuel c cs [] h, firstAccepted_cons_reject h]
        exact ih (fuel + 1) (by omega)

/-! ### consequences in the "accepted r" form -/

/-- what a successful run of the specification's loop means -/
theorem specEncLoop_some (Ppube : Spec.EC.Pt) (idb msg : List UInt8) (cands : List (List UInt8)) :
    ∀ (used : List Nat) (res : Rand (List UInt8)), specEncLoop Ppube idb msg cands used = some res →
      ∃ r skipped, res.used = used ++ skipped ++ [r] ∧ Accept r
        ∧ Spec.SM9.encryptWith Ppube idb msg r = some res.val
        ∧ (∀ s ∈ skipped, Accept s ∧ Spec.SM9.encryptWith Ppube idb msg s = none)
        ∧ res.used.length - used.length + res.rest.length ≤ cands.length := by
  induction cands with
  | nil => intro used res h; simp [specEncLoop] at h
  | cons c cs ih =>
    intro used res h
    simp only [specEncLoop] at h
    by_cases ha : Accept (beNat c)
    · rw [if_pos ha] at h
      cases he : Spec.SM9.encryptWith Ppube idb msg (beNat c) with
      | some ct =>
        rw [he] at h
        simp only [Option.some.injEq] at h
        subst h
        refine ⟨beNat c, [], by simp, ha, he, by simp, ?_⟩
        simp only [List.length_append, List.length_cons, List.length_nil]; omega
      | none =>
        rw [he] at h
        obtain ⟨r, sk, h1, h2, h3, h4, h5⟩ := ih _ _ h
        refine ⟨r, beNat c :: sk, by rw [h1]; simp, h2, h3, ?_, ?_⟩
        · intro s hs
          rcases List.mem_cons.1 hs with rfl | hs
          · exact ⟨ha, he⟩
          · exact h4 s hs
        · simp only [List.length_append, List.length_cons, List.length_nil] at h5 ⊢; omega
    · rw [if_neg ha] at h
      obtain ⟨r, sk, h1, h2, h3, h4, h5⟩ := ih _ _ h
      exact ⟨r, sk, h1, h2, h3, h4, by simp only [List.length_cons]; omega⟩

/-- the hypothesis "C1 is finite" for an honest master public key and an identity with a private key -/
theorem qb_finite (ke : Nat) (idb : List UInt8) (hid : UInt8)
    (hext : (Spec.SM9.H1 (idb ++ [hid]) + ke) % N ≠ 0) (r : Nat) (hr : 1 ≤ r ∧ r < N) :
    Spec.EC.mul curve r (Qpt (Spec.SM9.encMasterPub ke) idb hid) ≠ none := by
  unfold Qpt Spec.SM9.encMasterPub
  rw [SM9Algebra.g1_ephemeral, Ne, SM9Algebra.g1_mul_eq_none_iff]
  intro hd
  rcases (Nat.Prime.dvd_mul SM9Algebra.N_prime).1 hd with h | h
  · have := Nat.le_of_dvd (by omega) h; omega
  · exact hext (Nat.mod_eq_zero_of_dvd h)

end GmVerif.Proofs.SM9EncRefines
