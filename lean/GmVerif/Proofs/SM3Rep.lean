/-
Helper lemmas for C01b: the streaming evaluations `Impl.SM3.sm3_hash_rep` (driver op `sm3rep`) and
`Drv.Sym.specSm3Rep` (its oracle) equal the hash of the materialised message `block^count ++ tail`.
-/
import GmVerif.Proofs.SM3
import GmVerif.Drv.Sym

namespace GmVerif.Proofs.SM3
open GmVerif

/-! ### the message `block^count ++ tail` -/

/-- the materialised message of the `sm3rep` op -/
def repMsg (block : List UInt8) (count : Nat) (tail : List UInt8) : List UInt8 :=
  (List.replicate count block).flatten ++ tail

theorem rep_flatten_length (block : List UInt8) (hb : block.length = 64) (count : Nat) :
    (List.replicate count block).flatten.length = 64 * count := by
  induction count with
  | zero => rfl
  | succ n ih => rw [List.replicate_succ, List.flatten_cons, List.length_append, ih, hb]; omega

theorem repMsg_length (block : List UInt8) (hb : block.length = 64) (count : Nat) (tail : List UInt8) :
    (repMsg block count tail).length = 64 * count + tail.length := by
  rw [repMsg, List.length_append, rep_flatten_length block hb]

theorem blocks_append_block (block rest : List UInt8) (hb : block.length = 64) :
    Spec.SM3.blocks (block ++ rest) = block :: Spec.SM3.blocks rest := by
  rw [blocks_cons _ (by rw [List.length_append]; omega), ← hb, List.take_left, List.drop_left]

theorem blocks_rep (block : List UInt8) (hb : block.length = 64) (count : Nat) (rest : List UInt8) :
    Spec.SM3.blocks ((List.replicate count block).flatten ++ rest)
      = List.replicate count block ++ Spec.SM3.blocks rest := by
  induction count with
  | zero => rfl
  | succ n ih =>
    rw [List.replicate_succ, List.flatten_cons, List.append_assoc, blocks_append_block _ _ hb, ih,
      List.cons_append]

/-- folding over `count` copies is iterating `count` times -/
theorem foldl_replicate_eq_range {α β} (f : α → β → α) (b : β) (count : Nat) (v : α) :
    (List.replicate count b).foldl f v = (List.range count).foldl (fun v _ => f v b) v := by
  induction count with
  | zero => rfl
  | succ n ih => rw [List.replicate_succ', List.range_succ, List.foldl_append, List.foldl_append, ih]; rfl

/-! ### the oracle helper -/

theorem specSm3Rep_eq (block tail : List UInt8) (hb : block.length = 64) (count : Nat) :
    Drv.Sym.specSm3Rep block count tail = Spec.SM3.hash (repMsg block count tail) := by
  have hl := repMsg_length block hb count tail
  unfold Drv.Sym.specSm3Rep Spec.SM3.hash Spec.SM3.pad
  rw [hl]
  simp only [repMsg, List.append_assoc]
  rw [blocks_rep block hb, List.foldl_append, foldl_replicate_eq_range]

/-! ### the model's streaming evaluation -/

theorem foldl_cf_refines (b : List UInt8) (hb : b.length = 64) {γ} (l : List γ) (v : List UInt32)
    (hv : v.length = 8) :
    l.foldl (fun v _ => Impl.SM3.cf v b.toArray) v.toArray
      = (l.foldl (fun v _ => Spec.SM3.CF v b) v).toArray
    ∧ (l.foldl (fun v _ => Spec.SM3.CF v b) v).length = 8 := by
  induction l generalizing v with
  | nil => exact ⟨rfl, hv⟩
  | cons x l ih =>
    have hcf : Impl.SM3.cf v.toArray b.toArray = (Spec.SM3.CF v b).toArray := by
      rw [← cf_refines v b hv hb]
    simp only [List.foldl_cons]
    rw [hcf]
    exact ih _ (CF_length v b hv)

theorem sm3_hash_rep_spec (block tail : List UInt8) (hb : block.length = 64) (count : Nat) :
    Impl.SM3.sm3_hash_rep block count tail = .ok (Drv.Sym.specSm3Rep block count tail) := by
  have hIV : Gen.SM3.IV = Spec.SM3.IV := rfl
  obtain ⟨hfold, hlen⟩ := foldl_cf_refines block hb (List.range count) Spec.SM3.IV (by rfl)
  -- the last blocks: the padded tail carrying the total length
  have elast : Impl.SM3.padZeros (tail ++ [0x80]) ++ natBE 8 ((64 * count + tail.length) * 8)
      = tail ++ [0x80] ++ List.replicate ((55 + 64 - (64 * count + tail.length) % 64) % 64) 0
          ++ natBE 8 (8 * (64 * count + tail.length)) := by
    rw [padZeros_eq, Nat.mul_comm]
    simp only [List.length_append, List.length_cons, List.length_nil]
    have : (56 + 64 - (tail.length + (0 + 1)) % 64) % 64
        = (55 + 64 - (64 * count + tail.length) % 64) % 64 := by omega
    rw [this]
  have hmod : (tail ++ [0x80] ++ List.replicate ((55 + 64 - (64 * count + tail.length) % 64) % 64) 0
      ++ natBE 8 (8 * (64 * count + tail.length))).length % 64 = 0 := by
    simp only [List.length_append, List.length_cons, List.length_nil, List.length_replicate, natBE_length]
    omega
  have h := blockLoop_refines _ hmod 0 _ hlen (by omega)
  simp only [Impl.SM3.sm3_hash_rep, hb, ne_eq, not_true_eq_false, if_false, lenBytes, elast, hIV, hfold, h,
    Nat.zero_mul, List.drop_zero]
  rfl

theorem sm3_hash_rep_eq (block tail : List UInt8) (hb : block.length = 64) (count : Nat) :
    Impl.SM3.sm3_hash_rep block count tail
      = Impl.SM3.sm3_hash ((List.replicate count block).flatten ++ tail) := by
  rw [sm3_hash_rep_spec block tail hb, specSm3Rep_eq block tail hb, sm3_refines]
  rfl

/-- a block of the wrong length is refused (the `sm3rep` op is only defined for 64-byte blocks) -/
theorem sm3_hash_rep_bad_block (block tail : List UInt8) (hb : block.length ≠ 64) (count : Nat) :
    Impl.SM3.sm3_hash_rep block count tail = .err "sm3rep-needs-64-byte-block" := by
  simp only [Impl.SM3.sm3_hash_rep, hb, ne_eq, not_false_eq_true, if_true]

end GmVerif.Proofs.SM3
