/-
Helper lemmas for C07b: the mode objects of gm-sm4 are pure — a call's result depends only on (mode, key, iv, data),
never on the calls made before it on the same `Sm4CipherMode` object.  Core Lean only.
-/
import GmVerif.Impl.SM4
namespace GmVerif.Proofs.SM4Hist
open GmVerif

/-- `Sm4CipherMode::encrypt(data, iv)` as a function of the object's round keys -/
def encWith (mode : Impl.SM4.Mode) (rk : Array UInt32) (data iv : List UInt8) : Outcome (List UInt8) :=
  if iv.length ≠ 16 then .err "ErrorBlockSize"
  else match mode with
    | .cfb => .ok (Impl.SM4.cfb_encrypt rk data iv)
    | .ofb => .ok (Impl.SM4.ofb_encrypt rk data iv)
    | .ctr => .ok (Impl.SM4.ctr_encrypt rk data iv)
    | .cbc => .ok (Impl.SM4.cbc_encrypt rk data iv)

/-- `Sm4CipherMode::decrypt(data, iv)` as a function of the object's round keys -/
def decWith (mode : Impl.SM4.Mode) (rk : Array UInt32) (data iv : List UInt8) : Outcome (List UInt8) :=
  if iv.length ≠ 16 then .err "ErrorBlockSize"
  else match mode with
    | .cfb => .ok (Impl.SM4.cfb_decrypt rk data iv)
    | .ofb => .ok (Impl.SM4.ofb_encrypt rk data iv)
    | .ctr => .ok (Impl.SM4.ctr_encrypt rk data iv)
    | .cbc => Impl.SM4.cbc_decrypt rk data iv

theorem mode_encrypt_eq (mode : Impl.SM4.Mode) (key data iv : List UInt8) :
    Impl.SM4.mode_encrypt mode key data iv = (Impl.SM4.new key).bind (fun rk => encWith mode rk data iv) := by
  unfold Impl.SM4.mode_encrypt
  cases Impl.SM4.new key <;> rfl

theorem mode_decrypt_eq (mode : Impl.SM4.Mode) (key data iv : List UInt8) :
    Impl.SM4.mode_decrypt mode key data iv = (Impl.SM4.new key).bind (fun rk => decWith mode rk data iv) := by
  unfold Impl.SM4.mode_decrypt
  cases Impl.SM4.new key <;> rfl

/-- one call: (encrypt?, iv, data) -/
abbrev Op := Bool × List UInt8 × List UInt8

/-- a call on an object holding the round keys `rk` -/
def callWith (mode : Impl.SM4.Mode) (rk : Array UInt32) (op : Op) : Outcome (List UInt8) :=
  if op.1 then encWith mode rk op.2.2 op.2.1 else decWith mode rk op.2.2 op.2.1

/-- a call on a fresh object (`Sm4CipherMode::new(key, mode)?` then the call) -/
def callFresh (mode : Impl.SM4.Mode) (key : List UInt8) (op : Op) : Outcome (List UInt8) :=
  if op.1 then Impl.SM4.mode_encrypt mode key op.2.2 op.2.1 else Impl.SM4.mode_decrypt mode key op.2.2 op.2.1

/-- every call of the history evaluated alone -/
def runHistory (mode : Impl.SM4.Mode) (key : List UInt8) (ops : List Op) : List (Outcome (List UInt8)) :=
  ops.map (callFresh mode key)

/-- the calls made one after the other on ONE object: the fold threads the object (which `&self` methods
hand back unchanged) and collects the results -/
def threadObject (mode : Impl.SM4.Mode) (rk : Array UInt32) (ops : List Op) :
    Array UInt32 × List (Outcome (List UInt8)) :=
  ops.foldl (fun st op => (st.1, st.2 ++ [callWith mode st.1 op])) (rk, [])

/-- `Sm4CipherMode::new(key, mode)` evaluated once, then the history on that object; when the constructor fails
there is no object and every call of the history reports that failure -/
def runThreaded (mode : Impl.SM4.Mode) (key : List UInt8) (ops : List Op) : List (Outcome (List UInt8)) :=
  match Impl.SM4.new key with
  | .ok rk => (threadObject mode rk ops).2
  | .err e => ops.map fun _ => .err e
  | .panic => ops.map fun _ => .panic

theorem foldl_thread (mode : Impl.SM4.Mode) (rk : Array UInt32) (ops : List Op)
    (acc : List (Outcome (List UInt8))) :
    ops.foldl (fun st op => (st.1, st.2 ++ [callWith mode st.1 op])) (rk, acc)
      = (rk, acc ++ ops.map (callWith mode rk)) := by
  induction ops generalizing acc with
  | nil => simp
  | cons op ops ih => rw [List.foldl_cons, ih]; simp

/-- the object never changes and the results are the per-call function of its round keys -/
theorem threadObject_eq (mode : Impl.SM4.Mode) (rk : Array UInt32) (ops : List Op) :
    threadObject mode rk ops = (rk, ops.map (callWith mode rk)) := by
  rw [threadObject, foldl_thread, List.nil_append]

theorem callFresh_eq (mode : Impl.SM4.Mode) (key : List UInt8) (op : Op) :
    callFresh mode key op = (Impl.SM4.new key).bind (fun rk => callWith mode rk op) := by
  unfold callFresh callWith
  rw [mode_encrypt_eq, mode_decrypt_eq]
  cases op.1 <;> simp

theorem mode_history_independent (mode : Impl.SM4.Mode) (key : List UInt8) (ops : List Op) :
    runThreaded mode key ops = runHistory mode key ops := by
  unfold runThreaded runHistory
  have hc := callFresh_eq mode key
  cases h : Impl.SM4.new key with
  | ok rk =>
    dsimp only
    rw [threadObject_eq]
    apply List.map_congr_left
    intro op _
    rw [hc, h]; rfl
  | err e =>
    dsimp only
    apply List.map_congr_left
    intro op _
    rw [hc, h]; rfl
  | panic =>
    dsimp only
    apply List.map_congr_left
    intro op _
    rw [hc, h]; rfl

/-- position by position: the i-th result of the threaded run is the i-th call evaluated alone -/
theorem mode_history_at (mode : Impl.SM4.Mode) (key : List UInt8) (ops : List Op) (i : Nat) (h : i < ops.length) :
    (runThreaded mode key ops)[i]? = some (callFresh mode key ops[i]) := by
  rw [mode_history_independent, runHistory, List.getElem?_map, List.getElem?_eq_getElem h]
  rfl

theorem runThreaded_length (mode : Impl.SM4.Mode) (key : List UInt8) (ops : List Op) :
    (runThreaded mode key ops).length = ops.length := by
  rw [mode_history_independent, runHistory, List.length_map]

end GmVerif.Proofs.SM4Hist
