/-
C12c, model side of the Miller loop: the three line-evaluation functions of the gm-sm9 model
(`sm9_u256_eval_g_tangent`, `sm9_u256_eval_g_line`, `sm9_u256_eval_g_line_no_pre`) followed line by line with the `Ok2`
rules of `Proofs.SM9Tower` (bundle `fp_facts` discharged): on canonical operands every output coordinate is canonical and
represents an explicit polynomial in the decoded inputs (over the coefficient ring `F2 = Fp[u]/(u² + 2)`).

* tangent at T = (X, Y, Z), evaluated at the affine point (xP, yP) of E(Fp):
    T₂ = (9X⁴ − 8XY², 3X²(4XY² − X₃) − 8Y⁴, 2YZ)                        (the doubling of `point_double`)
    lw = (6X³ − 4Y², −6X²Z²·xP, 4YZ³·yP)                                  (coefficients of 1, w², w³)
* chord through T = (X₁, Y₁, Z₁) and Q = (X₂, Y₂, Z₂) with the block `pre = (Y₂², Z₂³, 2Z₂³·yP, −2Z₂³·xP, 2X₂Z₂)`:
    H = X₂Z₁² − X₁Z₂², r = 2(Y₂Z₁³ − Y₁Z₂³)
    T₃ = (r² − 4H³ − 8X₁Z₂²H², r(4X₁Z₂²H² − X₃) − 8Y₁Z₂³H³, 2Z₁Z₂H)       (the general addition scaled by λ = 2)
    lw = (2rX₂Z₂ − 4Y₂Z₁Z₂H, −2rZ₂³·xP, 4Z₁Z₂⁴H·yP)
No case distinction is made by the code (no test for T = ±Q or infinity): the formulas hold for all canonical inputs.
-/
import GmVerif.Proofs.SM9PairingReduce
set_option autoImplicit false
namespace GmVerif.Proofs.SM9MillerLines
open GmVerif GmVerif.Proofs.SM9Tower
open GmVerif.Spec.SM9 (p)
open _root_.GmVerif.Impl.SM9 (Fp2 Fp4 Fp12 Line TwistPoint Point Pre sm9_u256_eval_g_tangent sm9_u256_eval_g_line
  sm9_u256_eval_g_line_no_pre line_pre)

/-- the discharged bundle of base-field facts -/
theorem F : FpFacts := SM9FpFacts.fp_facts

/-! ### relational vocabulary for points, lines and the `pre` block -/

/-- the three Jacobian coordinates are canonical and represent X, Y, Z -/
structure OkPt (T : TwistPoint) (X Y Z : F2) : Prop where
  x : Ok2 T.x X
  y : Ok2 T.y Y
  z : Ok2 T.z Z

/-- the three coefficients of a sparse line value are canonical and represent l0, l1, l2 -/
structure OkLine (lw : Line) (l0 l1 l2 : F2) : Prop where
  l0 : Ok2 lw.l0 l0
  l1 : Ok2 lw.l1 l1
  l2 : Ok2 lw.l2 l2

structure OkPre (pre : Pre) (p0 p1 p2 p3 p4 : F2) : Prop where
  p0 : Ok2 pre.p0 p0
  p1 : Ok2 pre.p1 p1
  p2 : Ok2 pre.p2 p2
  p3 : Ok2 pre.p3 p3
  p4 : Ok2 pre.p4 p4

/-- canonical coordinates -/
@[reducible] def CanonPt (T : TwistPoint) : Prop := Canon2 T.x ∧ Canon2 T.y ∧ Canon2 T.z
@[reducible] def CanonLine (lw : Line) : Prop := Canon2 lw.l0 ∧ Canon2 lw.l1 ∧ Canon2 lw.l2
@[reducible] def CanonPre (pre : Pre) : Prop := Canon2 pre.p0 ∧ Canon2 pre.p1 ∧ Canon2 pre.p2 ∧ Canon2 pre.p3 ∧ Canon2 pre.p4

theorem okPt_dec {T : TwistPoint} (h : CanonPt T) : OkPt T (dec2 T.x) (dec2 T.y) (dec2 T.z) :=
  ⟨ok2_dec h.1, ok2_dec h.2.1, ok2_dec h.2.2⟩
theorem OkPt.canon {T : TwistPoint} {X Y Z : F2} (h : OkPt T X Y Z) : CanonPt T := ⟨h.x.out.1, h.y.out.1, h.z.out.1⟩
theorem OkLine.canon {lw : Line} {a b c : F2} (h : OkLine lw a b c) : CanonLine lw :=
  ⟨h.l0.out.1, h.l1.out.1, h.l2.out.1⟩
theorem okPre_dec {pre : Pre} (h : CanonPre pre) :
    OkPre pre (dec2 pre.p0) (dec2 pre.p1) (dec2 pre.p2) (dec2 pre.p3) (dec2 pre.p4) :=
  ⟨ok2_dec h.1, ok2_dec h.2.1, ok2_dec h.2.2.1, ok2_dec h.2.2.2.1, ok2_dec h.2.2.2.2⟩
theorem OkPre.canon {pre : Pre} {a b c d e : F2} (h : OkPre pre a b c d e) : CanonPre pre :=
  ⟨h.p0.out.1, h.p1.out.1, h.p2.out.1, h.p3.out.1, h.p4.out.1⟩

/-! ### the tangent step -/

/-- the doubled point of the tangent step -/
def dblX (X Y : F2) : F2 := 9 * X ^ 4 - 8 * X * Y ^ 2
def dblY (X Y : F2) : F2 := 3 * X ^ 2 * (4 * X * Y ^ 2 - dblX X Y) - 8 * Y ^ 4
def dblZ (Y Z : F2) : F2 := 2 * Y * Z
/-- the three coefficients of the tangent line value -/
def tan0 (X Y : F2) : F2 := 6 * X ^ 3 - 4 * Y ^ 2
def tan1 (X Z : F2) (xP : K) : F2 := -(6 * X ^ 2 * Z ^ 2) * Quad.of xP
def tan2 (Y Z : F2) (yP : K) : F2 := 4 * Y * Z ^ 3 * Quad.of yP

theorem o_tangent {T : TwistPoint} {P : Point} {X Y Z : F2} {xP yP : K} (hT : OkPt T X Y Z) (hx : Ok P.x xP)
    (hy : Ok P.y yP) :
    OkPt (sm9_u256_eval_g_tangent T P).1 (dblX X Y) (dblY X Y) (dblZ Y Z)
      ∧ OkLine (sm9_u256_eval_g_tangent T P).2 (tan0 X Y) (tan1 X Z xP) (tan2 Y Z yP) := by
  obtain ⟨x, y, z⟩ := hT
  have t1 := F.o2_sqr z
  have a := F.o2_sqr x
  have b := F.o2_sqr y
  have c := F.o2_sqr b
  have d := F.o2_double (F.o2_sub (F.o2_sub (F.o2_sqr (F.o2_add x b)) a) c)
  have z3 := F.o2_sub (F.o2_sub (F.o2_sqr (F.o2_add y z)) b) t1
  have lw0 := F.o2_add (F.o2_double (F.o2_double b)) a
  have a' := F.o2_triple a
  have b' := F.o2_sqr a'
  have x3 := F.o2_sub b' (F.o2_double d)
  have lw0 := F.o2_add lw0 b'
  have y3 := F.o2_mul (F.o2_sub d x3) a'
  have c' := F.o2_double (F.o2_double (F.o2_double c))
  have y3 := F.o2_sub y3 c'
  have lw2 := F.o2_double (F.o2_mul z3 t1)
  have lw1 := F.o2_neg (F.o2_double (F.o2_mul a' t1))
  have a'' := F.o2_sqr (F.o2_add x a')
  have lw0 := F.o2_sub a'' lw0
  have lw1 := F.o2_mul_fp lw1 hx
  have lw2 := F.o2_mul_fp lw2 hy
  refine ⟨⟨x3.cast ?_, y3.cast ?_, z3.cast ?_⟩, ⟨lw0.cast ?_, lw1.cast ?_, lw2.cast ?_⟩⟩
  · unfold dblX; ring
  · unfold dblY dblX; ring
  · unfold dblZ; ring
  · unfold tan0; ring
  · unfold tan1; ring
  · unfold tan2; ring

/-! ### the chord step -/

/-- H and r = 2R of the addition formulas -/
def addH (X1 Z1 X2 Z2 : F2) : F2 := X2 * Z1 ^ 2 - X1 * Z2 ^ 2
def addR2 (Y1 Z1 Y2 Z2 : F2) : F2 := 2 * (Y2 * Z1 ^ 3 - Y1 * Z2 ^ 3)
def addX (X1 Y1 Z1 X2 Y2 Z2 : F2) : F2 :=
  addR2 Y1 Z1 Y2 Z2 ^ 2 - 4 * addH X1 Z1 X2 Z2 ^ 3 - 8 * X1 * Z2 ^ 2 * addH X1 Z1 X2 Z2 ^ 2
def addY (X1 Y1 Z1 X2 Y2 Z2 : F2) : F2 :=
  addR2 Y1 Z1 Y2 Z2 * (4 * X1 * Z2 ^ 2 * addH X1 Z1 X2 Z2 ^ 2 - addX X1 Y1 Z1 X2 Y2 Z2)
    - 8 * Y1 * Z2 ^ 3 * addH X1 Z1 X2 Z2 ^ 3
def addZ (X1 Z1 X2 Z2 : F2) : F2 := 2 * Z1 * Z2 * addH X1 Z1 X2 Z2
/-- the three coefficients of the chord line value -/
def chord0 (X1 Y1 Z1 X2 Y2 Z2 : F2) : F2 :=
  2 * addR2 Y1 Z1 Y2 Z2 * X2 * Z2 - 4 * Y2 * Z1 * Z2 * addH X1 Z1 X2 Z2
def chord1 (Y1 Z1 Y2 Z2 : F2) (xP : K) : F2 := -(2 * addR2 Y1 Z1 Y2 Z2 * Z2 ^ 3) * Quad.of xP
def chord2 (X1 Z1 X2 Z2 : F2) (yP : K) : F2 := 4 * Z1 * Z2 ^ 4 * addH X1 Z1 X2 Z2 * Quad.of yP

/-- the block `pre` belongs to the point (·, Y2, Z2) with X2 and to the affine point (xP, yP) -/
def PreFor (pre : Pre) (X2 Y2 Z2 : F2) (xP yP : K) : Prop :=
  OkPre pre (Y2 ^ 2) (Z2 ^ 3) (2 * Z2 ^ 3 * Quad.of yP) (-(2 * Z2 ^ 3) * Quad.of xP) (2 * X2 * Z2)

/-- the chord step with an arbitrary canonical `pre` block: canonical outputs -/
theorem line_canon {pre : Pre} {T Q : TwistPoint} (P : Point) (hpre : CanonPre pre) (hT : CanonPt T) (hQ : CanonPt Q) :
    CanonPt (sm9_u256_eval_g_line pre T Q P).1 ∧ CanonLine (sm9_u256_eval_g_line pre T Q P).2 := by
  obtain ⟨p0, p1, p2, p3, p4⟩ := okPre_dec hpre
  obtain ⟨x1, y1, z1⟩ := okPt_dec hT
  obtain ⟨x2, y2, z2⟩ := okPt_dec hQ
  have t1 := F.o2_sqr z1
  have t2 := F.o2_sqr z2
  have z3 := F.o2_sub (F.o2_sub (F.o2_sqr (F.o2_add z1 z2)) t1) t2
  have a := F.o2_mul x1 t2
  have b := F.o2_mul x2 t1
  have c := F.o2_double (F.o2_mul y1 p1)
  have d := F.o2_mul (F.o2_sub (F.o2_sub (F.o2_sqr (F.o2_add y2 z1)) p0) t1) t1
  have b := F.o2_sub b a
  have z3 := F.o2_mul z3 b
  have t1 := F.o2_sqr (F.o2_double b)
  have x3 := F.o2_mul b t1
  have y3 := F.o2_mul c x3
  have a := F.o2_mul a t1
  have b := F.o2_sub d c
  have x3 := F.o2_sub (F.o2_sqr b) (F.o2_add x3 (F.o2_double a))
  have y3 := F.o2_sub (F.o2_mul (F.o2_sub a x3) b) y3
  have lw2 := F.o2_mul z3 p2
  have lw1 := F.o2_mul b p3
  have lw0 := F.o2_sub (F.o2_mul b p4) (F.o2_double (F.o2_mul y2 z3))
  exact ⟨⟨x3.out.1, y3.out.1, z3.out.1⟩, ⟨lw0.out.1, lw1.out.1, lw2.out.1⟩⟩

/-- the chord step with the `pre` block of its second operand -/
theorem o_line {pre : Pre} {T Q : TwistPoint} (P : Point) {X1 Y1 Z1 X2 Y2 Z2 : F2} {xP yP : K}
    (hpre : PreFor pre X2 Y2 Z2 xP yP) (hT : OkPt T X1 Y1 Z1) (hQ : OkPt Q X2 Y2 Z2) :
    OkPt (sm9_u256_eval_g_line pre T Q P).1 (addX X1 Y1 Z1 X2 Y2 Z2) (addY X1 Y1 Z1 X2 Y2 Z2) (addZ X1 Z1 X2 Z2)
      ∧ OkLine (sm9_u256_eval_g_line pre T Q P).2 (chord0 X1 Y1 Z1 X2 Y2 Z2) (chord1 Y1 Z1 Y2 Z2 xP)
          (chord2 X1 Z1 X2 Z2 yP) := by
  obtain ⟨p0, p1, p2, p3, p4⟩ := hpre
  obtain ⟨x1, y1, z1⟩ := hT
  obtain ⟨x2, y2, z2⟩ := hQ
  have t1 := F.o2_sqr z1
  have t2 := F.o2_sqr z2
  have z3 := F.o2_sub (F.o2_sub (F.o2_sqr (F.o2_add z1 z2)) t1) t2
  have a := F.o2_mul x1 t2
  have b := F.o2_mul x2 t1
  have c := F.o2_double (F.o2_mul y1 p1)
  have d := F.o2_mul (F.o2_sub (F.o2_sub (F.o2_sqr (F.o2_add y2 z1)) p0) t1) t1
  have b := F.o2_sub b a
  have z3 := F.o2_mul z3 b
  have t1 := F.o2_sqr (F.o2_double b)
  have x3 := F.o2_mul b t1
  have y3 := F.o2_mul c x3
  have a := F.o2_mul a t1
  have b := F.o2_sub d c
  have x3 := F.o2_sub (F.o2_sqr b) (F.o2_add x3 (F.o2_double a))
  have y3 := F.o2_sub (F.o2_mul (F.o2_sub a x3) b) y3
  have lw2 := F.o2_mul z3 p2
  have lw1 := F.o2_mul b p3
  have lw0 := F.o2_sub (F.o2_mul b p4) (F.o2_double (F.o2_mul y2 z3))
  refine ⟨⟨x3.cast ?_, y3.cast ?_, z3.cast ?_⟩, ⟨lw0.cast ?_, lw1.cast ?_, lw2.cast ?_⟩⟩
  · unfold addX addR2 addH; ring
  · unfold addY addX addR2 addH; ring
  · unfold addZ addH; ring
  · unfold chord0 addR2 addH; ring
  · unfold chord1 addR2; ring
  · unfold chord2 addH; ring

/-- the `pre` block computed by `line_pre` -/
theorem o_line_pre {Q : TwistPoint} {P : Point} {X2 Y2 Z2 : F2} {xP yP : K} (hQ : OkPt Q X2 Y2 Z2) (hx : Ok P.x xP)
    (hy : Ok P.y yP) : PreFor (line_pre Q P) X2 Y2 Z2 xP yP := by
  obtain ⟨x2, y2, z2⟩ := hQ
  have pre0 := F.o2_sqr y2
  have pre4 := F.o2_double (F.o2_mul x2 z2)
  have pre1 := F.o2_mul (F.o2_sqr z2) z2
  have pre2 := F.o2_double (F.o2_mul_fp pre1 hy)
  have pre3 := F.o2_neg (F.o2_double (F.o2_mul_fp pre1 hx))
  exact ⟨pre0.cast (by ring), pre1.cast (by ring), pre2.cast (by ring), pre3.cast (by ring), pre4.cast (by ring)⟩

theorem o_line_no_pre {T Q : TwistPoint} {P : Point} {X1 Y1 Z1 X2 Y2 Z2 : F2} {xP yP : K}
    (hT : OkPt T X1 Y1 Z1) (hQ : OkPt Q X2 Y2 Z2) (hx : Ok P.x xP) (hy : Ok P.y yP) :
    OkPt (sm9_u256_eval_g_line_no_pre T Q P).1 (addX X1 Y1 Z1 X2 Y2 Z2) (addY X1 Y1 Z1 X2 Y2 Z2) (addZ X1 Z1 X2 Z2)
      ∧ OkLine (sm9_u256_eval_g_line_no_pre T Q P).2 (chord0 X1 Y1 Z1 X2 Y2 Z2) (chord1 Y1 Z1 Y2 Z2 xP)
          (chord2 X1 Z1 X2 Z2 yP) :=
  o_line P (o_line_pre hQ hx hy) hT hQ

/-! ### multiplication of the accumulator by a line value -/

theorem o_line_mul {r : Fp12} {x : F12} {lw : Line} {l0 l1 l2 : F2} (hr : Ok12 r x) (hl : OkLine lw l0 l1 l2) :
    Ok12 (r.fp_line_mul lw) (x * lineElt l0 l1 l2) := F.o12_line_mul hr hl.l0 hl.l1 hl.l2

end GmVerif.Proofs.SM9MillerLines
