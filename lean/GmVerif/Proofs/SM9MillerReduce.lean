/-
C12c, Stages C and D: `model_miller_sd` for the model's points (the untwist of `toSpec2 Q` is represented by Q, the
embedding of `toSpec P` by `P.to_affine_point`), and the reduction of `MillerRefines` to two statements about the
SPECIFICATION alone: `ChainGeneric` (no exceptional case along the signed-digit chain) and `ChainIndependent` (the
signed-digit chain and the binary chain give the same Miller value up to a killed factor).
-/
import GmVerif.Proofs.SM9MillerAssemble
set_option autoImplicit false
namespace GmVerif.Proofs.SM9MillerReduce
open GmVerif GmVerif.Proofs.SM9Tower GmVerif.Proofs.SM9TowerDense GmVerif.Proofs.SM9PairingReduce GmVerif.Proofs.SM9Bridge
open GmVerif.Proofs.SM9SpecField GmVerif.Proofs.SM9SpecLines GmVerif.Proofs.SM9MillerLines GmVerif.Proofs.SM9MillerCanon
open GmVerif.Proofs.SM9MillerSD GmVerif.Proofs.SM9MillerAssemble
open GmVerif.Spec.SM9 (p finalExp lineAdd Pt12 neg12 frobPt)
open GmVerif.Proofs.SM9Fp12 (ev f Canon)
open GmVerif.Proofs.SM9G2ImplField (φ decL L)
open _root_.GmVerif.Impl.SM9 (Fp2 Fp4 Fp12 Line TwistPoint Point Pre abits)

/-! ### the arguments of the model denote the arguments of the specification -/

theorem repP_of_valid {P : Point} (hP : SM9G1.Valid P) (hp : P.z ≠ 0) {P' : SFp12 × SFp12}
    (hP' : Spec.SM9.embed1 (SM9G1.toSpec P) = some P') : RepP P.to_affine_point P' := by
  obtain ⟨hv, _, _, h4⟩ := SM9G1.to_affine_correct P hP hp
  rw [h4] at hP'
  have e : P' = (Spec.SM9.Fp12.ofNat (Impl.SM9.fp_from_mont P.to_affine_point.x),
      Spec.SM9.Fp12.ofNat (Impl.SM9.fp_from_mont P.to_affine_point.y)) := by
    simpa [Spec.SM9.embed1] using hP'.symm
  subst e
  exact ⟨hv.1, hv.2.1, canon_ofNat _, canon_ofNat _, by rw [ev_ofNat, fm_cast hv.1], by rw [ev_ofNat, fm_cast hv.2.1]⟩

theorem ev_wi : ev (Spec.SM9.Fp12.inv Spec.SM9.Fp12.w) = ω⁻¹ := by
  rw [ev_inv' canon_w (by rw [ev_w]; exact ω_ne_zero), ev_w]

theorem ev_ofFp2_ofK (u : L) : ev (Spec.SM9.Fp12.ofFp2 (SM9G2.ofK u)) = φ2 (φ.symm u) := by
  rw [ev_ofFp2, φ2_apply]
  simp [SM9G2.ofK]

theorem div_rel (n : Nat) (a c : F2) (hc : φ c ≠ 0) : φ.symm (φ a / φ c ^ n) * c ^ n = a := by
  apply φ.injective
  rw [map_mul, map_pow, RingEquiv.apply_symm_apply, div_mul_cancel₀ _ (pow_ne_zero _ hc)]

/-- a valid finite twist point of the model is a Jacobian representation of the untwist of its affine form -/
theorem rep_untwist {Q : TwistPoint} (hQ : SM9G2Impl.Valid2 Q) (hz : dec2 Q.z ≠ 0) {Q' : SFp12 × SFp12}
    (hQ' : Spec.SM9.untwist (SM9G2Impl.toSpec2 Q) = some Q') : Rep Q (some Q') := by
  have hL : decL Q.z ≠ 0 := by
    unfold decL; exact fun h => hz ((map_eq_zero_iff _ φ.injective).1 h)
  have hL' : φ (dec2 Q.z) ≠ 0 := hL
  rw [SM9G2Impl.toSpec2, if_neg hL] at hQ'
  simp only [Spec.SM9.untwist, Option.some.injEq] at hQ'
  subst hQ'
  have hω := ω_ne_zero
  refine ⟨⟨hQ.1, hQ.2.1, hQ.2.2.1⟩, hz, _, _, rfl, SM9Fp12.canon_mul _ _, SM9Fp12.canon_mul _ _, ?_, ?_⟩
  · have e := congrArg φ2 (div_rel 2 (dec2 Q.x) (dec2 Q.z) hL')
    rw [map_mul, map_pow] at e
    rw [SM9Fp12.ev_mul, SM9Fp12.ev_mul, ev_ofFp2_ofK, ev_wi, ← e]
    unfold decL
    field_simp
  · have e := congrArg φ2 (div_rel 3 (dec2 Q.y) (dec2 Q.z) hL')
    rw [map_mul, map_pow] at e
    rw [SM9Fp12.ev_mul, SM9Fp12.ev_mul, SM9Fp12.ev_mul, ev_ofFp2_ofK, ev_wi, ← e]
    unfold decL
    field_simp

/-! ### Stage C -/

/-- STAGE C: off the infinity guard, for a valid twist point and a valid G1 point, if the signed-digit chain on the
untwisted point is generic, the model's Miller value denotes the specification's signed-digit Miller value up to a non-zero
factor that the final exponentiation kills -/
theorem model_miller_sd (Q : TwistPoint) (P : Point) (hQ : SM9G2Impl.Valid2 Q) (hP : SM9G1.Valid P)
    (hq : Q.z.is_zero = false) (hp : P.z ≠ 0) (P' Q' : SFp12 × SFp12)
    (hPe : Spec.SM9.embed1 (SM9G1.toSpec P) = some P') (hQe : Spec.SM9.untwist (SM9G2Impl.toSpec2 Q) = some Q')
    (hgen : SDGeneric P' (some Q')) :
    ∃ c, c ≠ Spec.SM9.Fp12.zero ∧ Spec.SM9.Fp12.pow c finalExp = Spec.SM9.Fp12.one ∧
      dense (millerPart Q P) = Spec.SM9.Fp12.mul c (millerSD P' (some Q')) := by
  have hz : dec2 Q.z ≠ 0 := fun h => by
    have := (ok2_dec hQ.2.2.1).is_zero_iff.2 h
    rw [hq] at this; cases this
  have hA := model_miller_sd_acc (rep_untwist hQ hz hQe) (repP_of_valid hP hp hPe) hgen
  rw [← millerPart_eq] at hA
  obtain ⟨cr, _, c, ⟨hc0, hck⟩, e⟩ := hA
  obtain ⟨cc, hcc, hev⟩ := exists_canon c
  refine ⟨cc, ?_, ?_, ?_⟩
  · intro h; apply hc0; rw [← hev, h, ev_zero]
  · apply SM9Fp12.ev_injective (SM9Fp12.canon_pow _ _) SM9Fp12.canon_one
    rw [SM9Fp12.ev_pow, hev, hck, SM9Fp12.ev_one]
  · apply SM9Fp12.ev_injective (dense_canon _) (SM9Fp12.canon_mul _ _)
    rw [ev_dense _ cr, e, SM9Fp12.ev_mul, hev]

/-- the two Frobenius endpoints of the model, for a valid finite twist point -/
theorem endpoints_rep {Q : TwistPoint} (hQ : SM9G2Impl.Valid2 Q) (hz : dec2 Q.z ≠ 0) {Q' : SFp12 × SFp12}
    (hQ' : Spec.SM9.untwist (SM9G2Impl.toSpec2 Q) = some Q') :
    Rep Q (some Q') ∧ Rep Q.point_neg (neg12 (some Q')) ∧ Rep Q.point_pi1 (frobPt (some Q'))
      ∧ Rep Q.point_neg_pi2 (neg12 (frobPt (frobPt (some Q')))) :=
  ⟨rep_untwist hQ hz hQ', neg_rep (rep_untwist hQ hz hQ'), pi1_rep (rep_untwist hQ hz hQ'),
    neg_pi2_rep (rep_untwist hQ hz hQ')⟩


/-! ### the step lemmas in the specification's dense Fp12 -/

/-- the sparse line value l0 + l1·w² + l2·w³ as a tower element of the model (what `fp_line_mul` multiplies by) -/
def lineFp12 (lw : Line) : Fp12 := ⟨⟨lw.l0, lw.l2⟩, Impl.SM9.Fp4.zero, ⟨lw.l1, Impl.SM9.Fp2.zero⟩⟩

theorem ok_lineFp12 {lw : Line} (hl : CanonLine lw) :
    Ok12 (lineFp12 lw) (lineElt (dec2 lw.l0) (dec2 lw.l1) (dec2 lw.l2)) :=
  ⟨⟨ok2_dec hl.1, ok2_dec hl.2.2⟩, ok4_zero, ⟨ok2_dec hl.2.1, ok2_zero⟩⟩

/-- multiplying by the sparse value is multiplying by this element -/
theorem line_mul_eq_mul {r : Fp12} {lw : Line} (hr : Canon12 r) (hl : CanonLine lw) :
    r.fp_line_mul lw = r.fp_mul (lineFp12 lw) := by
  have h1 := (F.o12_line_mul (ok12_dec hr) (ok2_dec hl.1) (ok2_dec hl.2.1) (ok2_dec hl.2.2)).out
  have h2 := (F.o12_mul (ok12_dec hr) (ok_lineFp12 hl)).out
  exact SM9FrobAll.eq_of_dec12 h1.1 h2.1 (by rw [h1.2, h2.2])

/-- from the field A back to the dense lists -/
theorem dense_of_killed {r : Fp12} (cr : Canon12 r) {m : SFp12} (h : ∃ c, Killed c ∧ φ12 (dec12 r) = c * ev m) :
    ∃ cc, cc ≠ Spec.SM9.Fp12.zero ∧ Spec.SM9.Fp12.pow cc finalExp = Spec.SM9.Fp12.one ∧
      dense r = Spec.SM9.Fp12.mul cc m := by
  obtain ⟨c, ⟨hc0, hck⟩, e⟩ := h
  obtain ⟨cc, hcc, hev⟩ := exists_canon c
  refine ⟨cc, ?_, ?_, ?_⟩
  · intro h; apply hc0; rw [← hev, h, ev_zero]
  · apply SM9Fp12.ev_injective (SM9Fp12.canon_pow _ _) SM9Fp12.canon_one
    rw [SM9Fp12.ev_pow, hev, hck, SM9Fp12.ev_one]
  · apply SM9Fp12.ev_injective (dense_canon _) (SM9Fp12.canon_mul _ _)
    rw [ev_dense _ cr, e, SM9Fp12.ev_mul, hev]

/-- STAGE B, tangent, dense form -/
theorem tangent_step_dense {T : TwistPoint} {T' : Pt12} {pa : Point} {P' : SFp12 × SFp12} (hT : Rep T T')
    (hP : RepP pa P') (hok : TangentOK T') :
    Rep (Impl.SM9.sm9_u256_eval_g_tangent T pa).1 (lineAdd T' T' P').2 ∧
      ∃ c, c ≠ Spec.SM9.Fp12.zero ∧ Spec.SM9.Fp12.pow c finalExp = Spec.SM9.Fp12.one ∧
        dense (lineFp12 (Impl.SM9.sm9_u256_eval_g_tangent T pa).2) = Spec.SM9.Fp12.mul c (lineAdd T' T' P').1 := by
  obtain ⟨_, rep2, cl, hv⟩ := tangent_rep' (pa := pa) (P' := P') hT hP hok
  refine ⟨rep2, dense_of_killed (ok_lineFp12 cl).out.1 ?_⟩
  rw [(ok_lineFp12 cl).out.2]; exact hv

/-- STAGE B, chord (with the `pre` block of the second operand), dense form -/
theorem chord_step_dense {pre : Pre} {T Q : TwistPoint} {T' Q' : Pt12} {pa : Point} {P' : SFp12 × SFp12}
    (hpre : PreFor pre (dec2 Q.x) (dec2 Q.y) (dec2 Q.z) (dec pa.x) (dec pa.y))
    (hT : Rep T T') (hQ : Rep Q Q') (hP : RepP pa P') (hok : ChordOK T' Q') :
    Rep (Impl.SM9.sm9_u256_eval_g_line pre T Q pa).1 (lineAdd T' Q' P').2 ∧
      ∃ c, c ≠ Spec.SM9.Fp12.zero ∧ Spec.SM9.Fp12.pow c finalExp = Spec.SM9.Fp12.one ∧
        dense (lineFp12 (Impl.SM9.sm9_u256_eval_g_line pre T Q pa).2) = Spec.SM9.Fp12.mul c (lineAdd T' Q' P').1 := by
  obtain ⟨_, rep3, cl, hv⟩ := chord_rep' hpre hT hQ hP hok
  refine ⟨rep3, dense_of_killed (ok_lineFp12 cl).out.1 ?_⟩
  rw [(ok_lineFp12 cl).out.2]; exact hv

/-- the same for the variant that computes its own `pre` block -/
theorem chord_no_pre_step_dense {T Q : TwistPoint} {T' Q' : Pt12} {pa : Point} {P' : SFp12 × SFp12}
    (hT : Rep T T') (hQ : Rep Q Q') (hP : RepP pa P') (hok : ChordOK T' Q') :
    Rep (Impl.SM9.sm9_u256_eval_g_line_no_pre T Q pa).1 (lineAdd T' Q' P').2 ∧
      ∃ c, c ≠ Spec.SM9.Fp12.zero ∧ Spec.SM9.Fp12.pow c finalExp = Spec.SM9.Fp12.one ∧
        dense (lineFp12 (Impl.SM9.sm9_u256_eval_g_line_no_pre T Q pa).2) = Spec.SM9.Fp12.mul c (lineAdd T' Q' P').1 :=
  chord_step_dense (o_line_pre (okPt_dec hQ.1) (ok_dec hP.1) (ok_dec hP.2.1)) hT hQ hP hok

/-- a valid finite twist point has a non-vertical tangent: the tangent half of the genericity is automatic -/
theorem tangentOK_of_valid {T : TwistPoint} {T' : Pt12} (hv : SM9G2Impl.Valid2 T) (hT : Rep T T') : TangentOK T' := by
  obtain ⟨hc, hz, x, y, rfl, cx, cy, ex, ey⟩ := hT
  refine ⟨x, y, rfl, fun h0 => ?_⟩
  have hy : dec2 T.y ≠ 0 := by
    have e := SM9G2Impl.eq_mk T hv.1 hv.2.1 hv.2.2.1
    have hv' := hv
    rw [e] at hv'
    have := SM9G2Impl.valid_Y_ne_zero _ _ _ (fun h0 => hz ((map_eq_zero_iff _ φ.injective).1 h0)) hv'
    exact fun h0 => this (by show φ (dec2 T.y) = 0; rw [h0, map_zero])
  have h1 : ev y + ev y = 0 := by rw [← ev_add, h0, ev_zero]
  have h2 : ev y = 0 := by
    have : (2 : A) * ev y = 0 := by linear_combination h1
    rcases mul_eq_zero.1 this with h | h
    · exact absurd h two_ne_zero_A
    · exact h
  rw [h2, zero_mul] at ey
  exact φ2_ne_zero hy ey.symm

/-! ### Stage D — what remains is about the specification -/

/-- SPECIFICATION-ONLY: along the signed-digit chain of a point of order N of the twist (and for the two Frobenius steps) no
exceptional case of the line function occurs -/
structure ChainGeneric : Prop where
  generic : ∀ (P : Spec.EC.Pt) (Q : Spec.SM9.Pt2) (P' Q' : SFp12 × SFp12),
    Spec.EC.onCurve Spec.SM9.curve P = true → Spec.SM9.embed1 P = some P' →
    Spec.SM9.onTwist Q = true → Spec.SM9.mul2 Spec.SM9.N Q = none → Spec.SM9.untwist Q = some Q' →
      SDGeneric P' (some Q')

/-- SPECIFICATION-ONLY: the signed-digit chain and the binary chain of the standard give the same Miller value up to a factor
killed by the final exponentiation (Miller functions / divisors; not proved) -/
structure ChainIndependent : Prop where
  indep : ∀ (P : Spec.EC.Pt) (Q : Spec.SM9.Pt2) (P' Q' : SFp12 × SFp12),
    Spec.EC.onCurve Spec.SM9.curve P = true → Spec.SM9.embed1 P = some P' →
    Spec.SM9.onTwist Q = true → Spec.SM9.mul2 Spec.SM9.N Q = none → Spec.SM9.untwist Q = some Q' →
      ∃ c, Spec.SM9.Fp12.pow c finalExp = Spec.SM9.Fp12.one ∧
        millerSD P' (some Q') = Spec.SM9.Fp12.mul c (Spec.SM9.miller P' (some Q'))

/-- THE REDUCTION: the remaining hypothesis of the SM9 refinement theorems follows from two statements about `Spec.SM9`
alone -/
theorem millerRefines_of_chainIndependent (CG : ChainGeneric) (CI : ChainIndependent) : MillerRefines := by
  refine ⟨miller_canon, ?_⟩
  intro Q P hQ hP hq hp P' Q' hPe hQe
  have hc := SM9G1.toSpec_onCurve P hP
  have ht := SM9G2Impl.toSpec2_onTwist Q hQ.1
  have hgen := CG.generic _ _ P' Q' hc hPe ht hQ.2 hQe
  obtain ⟨c1, _, h1, e1⟩ := model_miller_sd Q P hQ.1 hP hq hp P' Q' hPe hQe hgen
  obtain ⟨c2, h2, e2⟩ := CI.indep _ _ P' Q' hc hPe ht hQ.2 hQe
  refine ⟨Spec.SM9.Fp12.mul c1 c2, ?_, ?_⟩
  · rw [spec_mul_pow, h1, h2, spec_one_mul _ SM9Fp12.canon_one]
  · rw [e1, e2, SM9Fp12.mul_assoc]

theorem pairingRefines_of_chainIndependent (CG : ChainGeneric) (CI : ChainIndependent) : PairingRefines :=
  pairingRefines_of_miller (millerRefines_of_chainIndependent CG CI)

end GmVerif.Proofs.SM9MillerReduce
