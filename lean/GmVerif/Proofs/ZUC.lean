/-
Helper lemmas for property C08: the model of gm-zuc (`Impl.ZUC`) refines the ZUC-128 specification
(`Spec.ZUC`) for every request history.  Core Lean only (no Mathlib, no `bv_decide`).
-/
import GmVerif.Spec.ZUC
import GmVerif.Impl.ZUC
namespace GmVerif.Proofs.ZUC
open GmVerif

theorem getD_eq {α} (l : List α) (i : Nat) (d : α) (h : i < l.length) : l.getD i d = l[i] :=
  (List.getElem_eq_getD d).symm

/-! ### dumped constants -/

theorem gen_S0 : Gen.ZUC.S0 = Spec.ZUC.S0 := by decide +kernel
theorem gen_S1 : Gen.ZUC.S1 = Spec.ZUC.S1 := by decide +kernel
theorem gen_D : Gen.ZUC.D.map UInt32.toNat = Spec.ZUC.D := by decide +kernel

theorem tables_length :
    Spec.ZUC.S0.length = 256 ∧ Spec.ZUC.S1.length = 256 ∧ Spec.ZUC.D.length = 16 := by
  refine ⟨?_, ?_, ?_⟩ <;> decide +kernel

theorem d_nonzero : ∀ d ∈ Spec.ZUC.D, 0 < d ∧ d < 2 ^ 15 := by decide

/-! ### residue lemmas for the 32-bit tricks -/

theorem add31_toNat (a b : UInt32) (ha : a.toNat ≤ 2 ^ 31 - 1) (hb : b.toNat ≤ 2 ^ 31 - 1) :
    (Impl.ZUC.add31 a b).toNat = (a.toNat + b.toNat) % 2 ^ 31 + (a.toNat + b.toNat) / 2 ^ 31 := by
  have h31 : (31 : UInt32).toNat % 32 = 31 := by decide
  have hm : (0x7FFFFFFF : UInt32).toNat = 2 ^ 31 - 1 := by decide
  simp only [Impl.ZUC.add31, UInt32.toNat_add, UInt32.toNat_and, UInt32.toNat_shiftRight, h31, hm,
    Nat.and_two_pow_sub_one_eq_mod, Nat.shiftRight_eq_div_pow]
  have h1 : (a.toNat + b.toNat) % 2 ^ 32 = a.toNat + b.toNat := Nat.mod_eq_of_lt (by omega)
  rw [h1]
  have h2 : (a.toNat + b.toNat) / 2 ^ 31 ≤ 1 := by omega
  omega

theorem add31_add (a b : UInt32) (ha : a.toNat ≤ 2 ^ 31 - 1) (hb : b.toNat ≤ 2 ^ 31 - 1) :
    (Impl.ZUC.add31 a b).toNat ≤ 2 ^ 31 - 1 ∧
    (Impl.ZUC.add31 a b).toNat % (2 ^ 31 - 1) = (a.toNat + b.toNat) % (2 ^ 31 - 1) ∧
    (0 < a.toNat ∨ 0 < b.toNat → 0 < (Impl.ZUC.add31 a b).toNat) := by
  rw [add31_toNat a b ha hb]
  have h2 : (a.toNat + b.toNat) / 2 ^ 31 ≤ 1 := by omega
  omega

theorem toUInt32_toNat_mod (k : Nat) (h : k < 32) : k.toUInt32.toNat % 32 = k := by
  simp [Nat.toUInt32]; omega

/-- the value `rot31` computes on a 31-bit cell: low part shifted up, high part wrapped round -/
theorem rot31_toNat (a : UInt32) (k : Nat) (ha : a.toNat < 2 ^ 31) (hk : 0 < k ∧ k < 31) :
    (Impl.ZUC.rot31 a k).toNat = (a.toNat % 2 ^ (31 - k)) * 2 ^ k + a.toNat / 2 ^ (31 - k) := by
  have hm : (0x7FFFFFFF : UInt32).toNat = 2 ^ 31 - 1 := by decide
  have hPQ : 2 ^ (31 - k) * 2 ^ k = 2 ^ 31 := by rw [← Nat.pow_add]; congr 1; omega
  have hhi : a.toNat / 2 ^ (31 - k) < 2 ^ k := by
    apply Nat.div_lt_of_lt_mul; rw [hPQ]; exact ha
  have hhi' : a.toNat / 2 ^ (31 - k) < 2 ^ 31 := by
    have := Nat.div_le_self a.toNat (2 ^ (31 - k)); omega
  simp only [Impl.ZUC.rot31, UInt32.toNat_and, UInt32.toNat_or, UInt32.toNat_shiftLeft,
    UInt32.toNat_shiftRight, hm, Nat.and_two_pow_sub_one_eq_mod,
    toUInt32_toNat_mod k (by omega), toUInt32_toNat_mod (31 - k) (by omega), Nat.or_mod_two_pow,
    Nat.shiftRight_eq_div_pow]
  rw [Nat.mod_mod_of_dvd _ (by decide : 2 ^ 31 ∣ 2 ^ 32), Nat.mod_eq_of_lt hhi', Nat.shiftLeft_eq]
  conv => lhs; lhs; rw [← hPQ, Nat.mul_mod_mul_right]
  rw [← Nat.shiftLeft_eq, ← Nat.shiftLeft_add_eq_or_of_lt hhi]

theorem rot31_mul (a : UInt32) (k : Nat) (ha : a.toNat < 2 ^ 31) (hk : 0 < k ∧ k < 31) :
    (Impl.ZUC.rot31 a k).toNat < 2 ^ 31 ∧
    (Impl.ZUC.rot31 a k).toNat % (2 ^ 31 - 1) = (a.toNat * 2 ^ k) % (2 ^ 31 - 1) := by
  rw [rot31_toNat a k ha hk]
  have hPQ : 2 ^ (31 - k) * 2 ^ k = 2 ^ 31 := by rw [← Nat.pow_add]; congr 1; omega
  have hhi : a.toNat / 2 ^ (31 - k) < 2 ^ k := by
    apply Nat.div_lt_of_lt_mul; rw [hPQ]; exact ha
  have hlo : a.toNat % 2 ^ (31 - k) < 2 ^ (31 - k) := Nat.mod_lt _ (Nat.two_pow_pos _)
  have h1 : (a.toNat % 2 ^ (31 - k) + 1) * 2 ^ k ≤ 2 ^ (31 - k) * 2 ^ k :=
    Nat.mul_le_mul_right _ hlo
  rw [hPQ, Nat.add_mul] at h1
  have h2 : a.toNat * 2 ^ k
      = (a.toNat / 2 ^ (31 - k)) * 2 ^ 31 + (a.toNat % 2 ^ (31 - k)) * 2 ^ k := by
    conv => lhs; rw [← Nat.div_add_mod a.toNat (2 ^ (31 - k))]
    rw [Nat.add_mul, ← hPQ, Nat.mul_comm (2 ^ (31 - k)) (a.toNat / 2 ^ (31 - k)), Nat.mul_assoc]
  rw [h2]
  generalize a.toNat % 2 ^ (31 - k) * 2 ^ k = X at *
  generalize a.toNat / 2 ^ (31 - k) = H at *
  generalize 2 ^ k = P at *
  omega

theorem rot31_pos (a : UInt32) (k : Nat) (ha : 0 < a.toNat ∧ a.toNat ≤ 2 ^ 31 - 1)
    (hk : 0 < k ∧ k < 31) :
    0 < (Impl.ZUC.rot31 a k).toNat ∧ (Impl.ZUC.rot31 a k).toNat ≤ 2 ^ 31 - 1 := by
  have ha' : a.toNat < 2 ^ 31 := by omega
  have h := (rot31_mul a k ha' hk).1
  refine ⟨?_, by omega⟩
  rw [rot31_toNat a k ha' hk]
  have hdm := Nat.div_add_mod a.toNat (2 ^ (31 - k))
  rcases Nat.eq_zero_or_pos (a.toNat / 2 ^ (31 - k)) with h0 | h0
  · rw [h0] at hdm
    have : 0 < a.toNat % 2 ^ (31 - k) := by omega
    have := Nat.mul_pos this (Nat.two_pow_pos k)
    omega
  · omega

/-! ### state relation and invariant -/

def Inv (s : List Nat) : Prop := s.length = 16 ∧ ∀ c ∈ s, 1 ≤ c ∧ c ≤ 2 ^ 31 - 1

def Rel (z : Impl.ZUC.ZUC) (st : Spec.ZUC.State) : Prop :=
  z.s.map UInt32.toNat = st.s ∧ z.r1 = st.r1 ∧ z.r2 = st.r2 ∧ Inv st.s

theorem lfsrNext_range (s : List Nat) (u : Nat) :
    1 ≤ Spec.ZUC.lfsrNext s u ∧ Spec.ZUC.lfsrNext s u ≤ 2 ^ 31 - 1 := by
  unfold Spec.ZUC.lfsrNext Spec.ZUC.M31
  dsimp only
  split <;> omega

theorem inv_lfsrShift (s : List Nat) (u : Nat) (h : Inv s) : Inv (Spec.ZUC.lfsrShift s u) := by
  refine ⟨?_, ?_⟩
  · simp [Spec.ZUC.lfsrShift, h.1]
  · intro c hc
    simp only [Spec.ZUC.lfsrShift, List.mem_append, List.mem_singleton] at hc
    rcases hc with hc | hc
    · exact h.2 c (List.mem_of_mem_drop hc)
    · rw [hc]; exact lfsrNext_range s u

theorem D_getD (i : Nat) (hi : i < 16) :
    0 < Spec.ZUC.D.getD i 0 ∧ Spec.ZUC.D.getD i 0 < 2 ^ 15 := by
  apply d_nonzero
  have hl : i < Spec.ZUC.D.length := by rw [tables_length.2.2]; exact hi
  rw [getD_eq _ _ _ hl]
  exact List.getElem_mem hl

theorem inv_load (k iv : List UInt8) : Inv (Spec.ZUC.load k iv) := by
  refine ⟨by simp [Spec.ZUC.load], ?_⟩
  intro c hc
  simp only [Spec.ZUC.load, List.mem_map, List.mem_range] at hc
  obtain ⟨i, hi, rfl⟩ := hc
  have hd := D_getD i hi
  have h1 := (k.getD i 0).toNat_lt
  have h2 := (iv.getD i 0).toNat_lt
  omega

theorem inv_initRound (st : Spec.ZUC.State) (h : Inv st.s) : Inv (Spec.ZUC.initRound st).s :=
  inv_lfsrShift st.s _ h

theorem inv_workStep (st : Spec.ZUC.State) (h : Inv st.s) : Inv (Spec.ZUC.workStep st).2.s :=
  inv_lfsrShift st.s _ h

/-- cells of related states agree, and are canonical non-zero residues -/
theorem rel_cell (z : Impl.ZUC.ZUC) (st : Spec.ZUC.State) (h : Rel z st) (i : Nat) (hi : i < 16) :
    (Impl.ZUC.sg z i).toNat = Spec.ZUC.cell st.s i ∧
    1 ≤ (Impl.ZUC.sg z i).toNat ∧ (Impl.ZUC.sg z i).toNat ≤ 2 ^ 31 - 1 := by
  obtain ⟨hs, _, _, hlen, hmem⟩ := h
  have hl : i < st.s.length := by rw [hlen]; exact hi
  have hlz : i < z.s.length := by
    have := congrArg List.length hs
    rw [List.length_map] at this; omega
  have e : (Impl.ZUC.sg z i).toNat = Spec.ZUC.cell st.s i := by
    unfold Impl.ZUC.sg Spec.ZUC.cell
    rw [getD_eq _ _ _ hlz, getD_eq _ _ _ hl]
    simp only [← hs, List.getElem_map]
  refine ⟨e, ?_⟩
  rw [e]
  unfold Spec.ZUC.cell
  rw [getD_eq _ _ _ hl]
  exact hmem _ (List.getElem_mem hl)

/-! ### the LFSR feedback -/

/-- one accumulation step of the feedback sum -/
theorem acc_step (v r : UInt32) (A B : Nat)
    (hv : 1 ≤ v.toNat ∧ v.toNat ≤ 2 ^ 31 - 1 ∧ v.toNat % (2 ^ 31 - 1) = A % (2 ^ 31 - 1))
    (hr : r.toNat ≤ 2 ^ 31 - 1 ∧ r.toNat % (2 ^ 31 - 1) = B % (2 ^ 31 - 1)) :
    1 ≤ (Impl.ZUC.add31 v r).toNat ∧ (Impl.ZUC.add31 v r).toNat ≤ 2 ^ 31 - 1 ∧
      (Impl.ZUC.add31 v r).toNat % (2 ^ 31 - 1) = (A + B) % (2 ^ 31 - 1) := by
  obtain ⟨h1, h2, h3⟩ := add31_add v r hv.2.1 hr.1
  refine ⟨h3 (Or.inl hv.1), h1, ?_⟩
  rw [h2, Nat.add_mod, hv.2.2, hr.2, ← Nat.add_mod]

theorem rot_fact (c : UInt32) (k : Nat) (hc : 1 ≤ c.toNat ∧ c.toNat ≤ 2 ^ 31 - 1)
    (hk : 0 < k ∧ k < 31) :
    (Impl.ZUC.rot31 c k).toNat ≤ 2 ^ 31 - 1 ∧
      (Impl.ZUC.rot31 c k).toNat % (2 ^ 31 - 1) = (c.toNat * 2 ^ k) % (2 ^ 31 - 1) :=
  ⟨(rot31_pos c k hc hk).2, (rot31_mul c k (by omega) hk).2⟩

/-- for v in 1..2^31−1, v ≡ Σ (mod 2^31−1) pins v to the spec's canonical representative -/
theorem canonical (v sum : Nat) (h1 : 1 ≤ v) (h2 : v ≤ 2 ^ 31 - 1)
    (h3 : v % (2 ^ 31 - 1) = sum % (2 ^ 31 - 1)) :
    v = if sum % (2 ^ 31 - 1) = 0 then 2 ^ 31 - 1 else sum % (2 ^ 31 - 1) := by
  split <;> omega

/-- the five-term feedback sum before `u` is added -/
theorem feedback5 (c0 c4 c10 c13 c15 : UInt32)
    (h0 : 1 ≤ c0.toNat ∧ c0.toNat ≤ 2 ^ 31 - 1) (h4 : 1 ≤ c4.toNat ∧ c4.toNat ≤ 2 ^ 31 - 1)
    (h10 : 1 ≤ c10.toNat ∧ c10.toNat ≤ 2 ^ 31 - 1) (h13 : 1 ≤ c13.toNat ∧ c13.toNat ≤ 2 ^ 31 - 1)
    (h15 : 1 ≤ c15.toNat ∧ c15.toNat ≤ 2 ^ 31 - 1) :
    let v := Impl.ZUC.add31 (Impl.ZUC.add31 (Impl.ZUC.add31 (Impl.ZUC.add31 (Impl.ZUC.add31 c0
      (Impl.ZUC.rot31 c0 8)) (Impl.ZUC.rot31 c4 20)) (Impl.ZUC.rot31 c10 21))
      (Impl.ZUC.rot31 c13 17)) (Impl.ZUC.rot31 c15 15)
    1 ≤ v.toNat ∧ v.toNat ≤ 2 ^ 31 - 1 ∧
      v.toNat % (2 ^ 31 - 1) =
        (c0.toNat + c0.toNat * 2 ^ 8 + c4.toNat * 2 ^ 20 + c10.toNat * 2 ^ 21 + c13.toNat * 2 ^ 17
          + c15.toNat * 2 ^ 15) % (2 ^ 31 - 1) := by
  intro v
  have a0 : 1 ≤ c0.toNat ∧ c0.toNat ≤ 2 ^ 31 - 1 ∧
      c0.toNat % (2 ^ 31 - 1) = c0.toNat % (2 ^ 31 - 1) := ⟨h0.1, h0.2, rfl⟩
  have a1 := acc_step _ _ _ _ a0 (rot_fact c0 8 h0 (by omega))
  have a2 := acc_step _ _ _ _ a1 (rot_fact c4 20 h4 (by omega))
  have a3 := acc_step _ _ _ _ a2 (rot_fact c10 21 h10 (by omega))
  have a4 := acc_step _ _ _ _ a3 (rot_fact c13 17 h13 (by omega))
  exact acc_step _ _ _ _ a4 (rot_fact c15 15 h15 (by omega))

theorem ite_zero_eq (v : UInt32) (h : 1 ≤ v.toNat) : (if v = 0 then (2147483647 : UInt32) else v) = v := by
  have : v ≠ 0 := by
    intro h0; rw [h0] at h; exact absurd h (by decide)
  rw [if_neg this]

theorem spec_sum_eq (s : List Nat) (u : Nat) :
    2 ^ 15 * Spec.ZUC.cell s 15 + 2 ^ 17 * Spec.ZUC.cell s 13 + 2 ^ 21 * Spec.ZUC.cell s 10
        + 2 ^ 20 * Spec.ZUC.cell s 4 + (1 + 2 ^ 8) * Spec.ZUC.cell s 0 + u
      = Spec.ZUC.cell s 0 + Spec.ZUC.cell s 0 * 2 ^ 8 + Spec.ZUC.cell s 4 * 2 ^ 20
        + Spec.ZUC.cell s 10 * 2 ^ 21 + Spec.ZUC.cell s 13 * 2 ^ 17 + Spec.ZUC.cell s 15 * 2 ^ 15 + u := by
  omega

/-- the stored feedback cell (work mode) is the spec's `lfsrNext … 0` -/
theorem s16_work (z : Impl.ZUC.ZUC) (st : Spec.ZUC.State) (h : Rel z st) :
    (Impl.ZUC.add31 (Impl.ZUC.add31 (Impl.ZUC.add31 (Impl.ZUC.add31 (Impl.ZUC.add31 (Impl.ZUC.sg z 0)
      (Impl.ZUC.rot31 (Impl.ZUC.sg z 0) 8)) (Impl.ZUC.rot31 (Impl.ZUC.sg z 4) 20))
      (Impl.ZUC.rot31 (Impl.ZUC.sg z 10) 21)) (Impl.ZUC.rot31 (Impl.ZUC.sg z 13) 17))
      (Impl.ZUC.rot31 (Impl.ZUC.sg z 15) 15)).toNat = Spec.ZUC.lfsrNext st.s 0 ∧
    1 ≤ Spec.ZUC.lfsrNext st.s 0 := by
  obtain ⟨e0, r0⟩ := rel_cell z st h 0 (by omega)
  obtain ⟨e4, r4⟩ := rel_cell z st h 4 (by omega)
  obtain ⟨e10, r10⟩ := rel_cell z st h 10 (by omega)
  obtain ⟨e13, r13⟩ := rel_cell z st h 13 (by omega)
  obtain ⟨e15, r15⟩ := rel_cell z st h 15 (by omega)
  obtain ⟨p1, p2, p3⟩ := feedback5 _ _ _ _ _ r0 r4 r10 r13 r15
  refine ⟨?_, (lfsrNext_range st.s 0).1⟩
  unfold Spec.ZUC.lfsrNext Spec.ZUC.M31
  dsimp only
  rw [spec_sum_eq, ← e0, ← e4, ← e10, ← e13, ← e15, Nat.add_zero]
  exact canonical _ _ p1 p2 p3

/-- the stored feedback cell (initialisation mode) is the spec's `lfsrNext … u` -/
theorem s16_init (z : Impl.ZUC.ZUC) (st : Spec.ZUC.State) (h : Rel z st) (u : UInt32)
    (hu : u.toNat < 2 ^ 31) :
    (Impl.ZUC.add31 (Impl.ZUC.add31 (Impl.ZUC.add31 (Impl.ZUC.add31 (Impl.ZUC.add31 (Impl.ZUC.add31
      (Impl.ZUC.sg z 0)
      (Impl.ZUC.rot31 (Impl.ZUC.sg z 0) 8)) (Impl.ZUC.rot31 (Impl.ZUC.sg z 4) 20))
      (Impl.ZUC.rot31 (Impl.ZUC.sg z 10) 21)) (Impl.ZUC.rot31 (Impl.ZUC.sg z 13) 17))
      (Impl.ZUC.rot31 (Impl.ZUC.sg z 15) 15)) u).toNat = Spec.ZUC.lfsrNext st.s u.toNat ∧
    1 ≤ Spec.ZUC.lfsrNext st.s u.toNat := by
  obtain ⟨e0, r0⟩ := rel_cell z st h 0 (by omega)
  obtain ⟨e4, r4⟩ := rel_cell z st h 4 (by omega)
  obtain ⟨e10, r10⟩ := rel_cell z st h 10 (by omega)
  obtain ⟨e13, r13⟩ := rel_cell z st h 13 (by omega)
  obtain ⟨e15, r15⟩ := rel_cell z st h 15 (by omega)
  have p := feedback5 _ _ _ _ _ r0 r4 r10 r13 r15
  obtain ⟨p1, p2, p3⟩ := acc_step _ u _ u.toNat p ⟨by omega, rfl⟩
  refine ⟨?_, (lfsrNext_range st.s _).1⟩
  unfold Spec.ZUC.lfsrNext Spec.ZUC.M31
  dsimp only
  rw [spec_sum_eq, ← e0, ← e4, ← e10, ← e13, ← e15]
  exact canonical _ _ p1 p2 p3

theorem rel_shift (z : Impl.ZUC.ZUC) (st : Spec.ZUC.State) (h : Rel z st) (c : UInt32) (u : Nat)
    (hc : c.toNat = Spec.ZUC.lfsrNext st.s u) :
    Rel { z with s := z.s.drop 1 ++ [c] } ⟨Spec.ZUC.lfsrShift st.s u, st.r1, st.r2⟩ := by
  refine ⟨?_, h.2.1, h.2.2.1, inv_lfsrShift st.s u h.2.2.2⟩
  show List.map UInt32.toNat (z.s.drop 1 ++ [c]) = Spec.ZUC.lfsrShift st.s u
  rw [List.map_append, List.map_drop, h.1]
  simp only [List.map_cons, List.map_nil, hc, Spec.ZUC.lfsrShift]

theorem lfsr_work_refines (z : Impl.ZUC.ZUC) (st : Spec.ZUC.State) (h : Rel z st) :
    Rel (Impl.ZUC.lfsr_with_work_mode z) ⟨Spec.ZUC.lfsrShift st.s 0, st.r1, st.r2⟩ := by
  obtain ⟨e, pos⟩ := s16_work z st h
  unfold Impl.ZUC.lfsr_with_work_mode
  dsimp only
  rw [ite_zero_eq _ (by rw [e]; exact pos)]
  exact rel_shift z st h _ 0 e

theorem lfsr_init_refines (z : Impl.ZUC.ZUC) (st : Spec.ZUC.State) (h : Rel z st) (u : UInt32)
    (hu : u.toNat < 2 ^ 31) :
    Rel (Impl.ZUC.lfsr_with_initialization_mode z u)
      ⟨Spec.ZUC.lfsrShift st.s u.toNat, st.r1, st.r2⟩ := by
  obtain ⟨e, pos⟩ := s16_init z st h u hu
  unfold Impl.ZUC.lfsr_with_initialization_mode
  dsimp only
  rw [ite_zero_eq _ (by rw [e]; exact pos)]
  exact rel_shift z st h _ u.toNat e

/-! ### S-box, linear maps, bit reorganisation, F -/

theorem S0A_get (i : Nat) : Impl.ZUC.S0A[i]! = Spec.ZUC.S0.getD i 0 := by
  rw [Array.getElem!_eq_getD, Impl.ZUC.S0A, gen_S0]
  simp [Array.getD_eq_getD_getElem?, List.getD_eq_getElem?_getD]
  rfl

theorem S1A_get (i : Nat) : Impl.ZUC.S1A[i]! = Spec.ZUC.S1.getD i 0 := by
  rw [Array.getElem!_eq_getD, Impl.ZUC.S1A, gen_S1]
  simp [Array.getD_eq_getD_getElem?, List.getD_eq_getElem?_getD]
  rfl

theorem sbox_eq (x : UInt32) : Impl.ZUC.sbox x = Spec.ZUC.S x := by
  have e1 : (x >>> 24).toNat = (x >>> 24).toUInt8.toNat := by
    rw [UInt32.toNat_toUInt8, UInt32.toNat_shiftRight]
    have := x.toNat_lt
    simp [Nat.shiftRight_eq_div_pow]; omega
  have e2 : ∀ y : UInt32, (y &&& 0xFF).toNat = y.toUInt8.toNat := by
    intro y
    rw [UInt32.toNat_toUInt8, UInt32.toNat_and]
    exact Nat.and_two_pow_sub_one_eq_mod _ 8
  simp only [Impl.ZUC.sbox, Spec.ZUC.S, Impl.ZUC.make_u32, u32be, S0A_get, S1A_get, e1, e2]

theorem l1_eq (x : UInt32) : Impl.ZUC.l1 x = Spec.ZUC.L1 x := rfl
theorem l2_eq (x : UInt32) : Impl.ZUC.l2 x = Spec.ZUC.L2 x := rfl

theorem and_hi_mask (a : Nat) : a &&& 0x7FFF8000 = (a / 2^15 % 2^16) * 2^15 := by
  apply Nat.eq_of_testBit_eq; intro i
  have hlit : (0x7FFF8000 : Nat) = (2^16 - 1) <<< 15 := by decide
  rw [hlit, ← Nat.shiftLeft_eq, Nat.testBit_and, Nat.testBit_shiftLeft, Nat.testBit_shiftLeft,
    Nat.testBit_two_pow_sub_one, Nat.testBit_mod_two_pow, Nat.testBit_div_two_pow]
  by_cases h : i ≥ 15
  · simp [h, Bool.and_comm]
  · simp [h]

/-- `hi * 2^s + lo` with `lo < 2^s` is `hi * 2^s ||| lo` -/
theorem mul_add_eq_or (hi lo s : Nat) (h : lo < 2 ^ s) : hi * 2 ^ s ||| lo = hi * 2 ^ s + lo := by
  rw [← Nat.shiftLeft_eq, Nat.shiftLeft_add_eq_or_of_lt h]

/-- X0: `(s15 & 0x7FFF8000) << 1 | (s14 & 0xFFFF)` is `s15_H ‖ s14_L` -/
theorem reorg0 (a b : UInt32) :
    ((a &&& 0x7FFF8000) <<< 1) ||| (b &&& 0xFFFF)
      = UInt32.ofNat (Spec.ZUC.hi16 a.toNat * 2 ^ 16 + Spec.ZUC.lo16 b.toNat) := by
  apply UInt32.toNat_inj.mp
  have h1 : (1 : UInt32).toNat % 32 = 1 := by decide
  have hm1 : (0x7FFF8000 : UInt32).toNat = 0x7FFF8000 := by decide
  have hm2 : (0xFFFF : UInt32).toNat = 2 ^ 16 - 1 := by decide
  rw [UInt32.toNat_or, UInt32.toNat_shiftLeft, UInt32.toNat_and, UInt32.toNat_and, h1, hm1, hm2,
    and_hi_mask, Nat.and_two_pow_sub_one_eq_mod, UInt32.toNat_ofNat', Nat.shiftLeft_eq]
  unfold Spec.ZUC.hi16 Spec.ZUC.lo16
  have hh : a.toNat / 2 ^ 15 % 2 ^ 16 < 2 ^ 16 := Nat.mod_lt _ (by decide)
  have hl : b.toNat % 2 ^ 16 < 2 ^ 16 := Nat.mod_lt _ (by decide)
  have e : a.toNat / 2 ^ 15 % 2 ^ 16 * 2 ^ 15 * 2 ^ 1 % 2 ^ 32 = a.toNat / 2 ^ 15 % 2 ^ 16 * 2 ^ 16 := by
    omega
  rw [e, mul_add_eq_or _ _ _ hl]
  omega

/-- X1, X2, X3: `(a & 0xFFFF) << 16 | (b >> 15)` is `a_L ‖ b_H` for a 31-bit cell `b` -/
theorem reorg1 (a b : UInt32) (hb : b.toNat ≤ 2 ^ 31 - 1) :
    ((a &&& 0xFFFF) <<< 16) ||| (b >>> 15)
      = UInt32.ofNat (Spec.ZUC.lo16 a.toNat * 2 ^ 16 + Spec.ZUC.hi16 b.toNat) := by
  apply UInt32.toNat_inj.mp
  have h16 : (16 : UInt32).toNat % 32 = 16 := by decide
  have h15 : (15 : UInt32).toNat % 32 = 15 := by decide
  have hm2 : (0xFFFF : UInt32).toNat = 2 ^ 16 - 1 := by decide
  rw [UInt32.toNat_or, UInt32.toNat_shiftLeft, UInt32.toNat_and, UInt32.toNat_shiftRight, h16, h15,
    hm2, Nat.and_two_pow_sub_one_eq_mod, UInt32.toNat_ofNat', Nat.shiftLeft_eq,
    Nat.shiftRight_eq_div_pow]
  unfold Spec.ZUC.hi16 Spec.ZUC.lo16
  have hl : a.toNat % 2 ^ 16 < 2 ^ 16 := Nat.mod_lt _ (by decide)
  have hh : b.toNat / 2 ^ 15 < 2 ^ 16 := by omega
  have e : a.toNat % 2 ^ 16 * 2 ^ 16 % 2 ^ 32 = a.toNat % 2 ^ 16 * 2 ^ 16 := by omega
  rw [e, mul_add_eq_or _ _ _ hh]
  omega

theorem bitrec_x (z : Impl.ZUC.ZUC) (st : Spec.ZUC.State) (h : Rel z st) :
    (Impl.ZUC.bit_reconstruction z).x = Spec.ZUC.bitReorg st.s := by
  obtain ⟨e0, r0⟩ := rel_cell z st h 0 (by omega)
  obtain ⟨e2, r2⟩ := rel_cell z st h 2 (by omega)
  obtain ⟨e5, r5⟩ := rel_cell z st h 5 (by omega)
  obtain ⟨e7, r7⟩ := rel_cell z st h 7 (by omega)
  obtain ⟨e9, r9⟩ := rel_cell z st h 9 (by omega)
  obtain ⟨e11, r11⟩ := rel_cell z st h 11 (by omega)
  obtain ⟨e14, r14⟩ := rel_cell z st h 14 (by omega)
  obtain ⟨e15, r15⟩ := rel_cell z st h 15 (by omega)
  unfold Impl.ZUC.bit_reconstruction Spec.ZUC.bitReorg
  dsimp only
  rw [← e0, ← e2, ← e5, ← e7, ← e9, ← e11, ← e14, ← e15,
    reorg0, reorg1 _ _ r9.2, reorg1 _ _ r5.2, reorg1 _ _ r0.2]

theorem bitrec_rel (z : Impl.ZUC.ZUC) (st : Spec.ZUC.State) (h : Rel z st) :
    Rel (Impl.ZUC.bit_reconstruction z) st := h

theorem impl_f_eq (z : Impl.ZUC.ZUC) :
    Impl.ZUC.f z = ((z.x.1 ^^^ z.r1) + z.r2,
      { z with
        r1 := Impl.ZUC.sbox (Impl.ZUC.l1 (((z.r1 + z.x.2.1) <<< 16) ||| ((z.r2 ^^^ z.x.2.2.1) >>> 16))),
        r2 := Impl.ZUC.sbox (Impl.ZUC.l2 (((z.r2 ^^^ z.x.2.2.1) <<< 16) ||| ((z.r1 + z.x.2.1) >>> 16))) }) :=
  rfl

/-- the spec's F applied to the reorganised words of a state -/
def specF (st : Spec.ZUC.State) : UInt32 × UInt32 × UInt32 :=
  Spec.ZUC.F (Spec.ZUC.bitReorg st.s).1 (Spec.ZUC.bitReorg st.s).2.1 (Spec.ZUC.bitReorg st.s).2.2.1
    st.r1 st.r2

theorem spec_initRound_eq (st : Spec.ZUC.State) :
    Spec.ZUC.initRound st =
      ⟨Spec.ZUC.lfsrShift st.s ((specF st).1.toNat / 2), (specF st).2.1, (specF st).2.2⟩ := rfl

theorem spec_workStep_eq (st : Spec.ZUC.State) :
    Spec.ZUC.workStep st =
      ((specF st).1 ^^^ (Spec.ZUC.bitReorg st.s).2.2.2,
        ⟨Spec.ZUC.lfsrShift st.s 0, (specF st).2.1, (specF st).2.2⟩) := rfl

/-- `bit_reconstruction` then `f` computes the spec's F and leaves the cells and X words alone -/
theorem f_refines (z : Impl.ZUC.ZUC) (st : Spec.ZUC.State) (h : Rel z st) :
    (Impl.ZUC.f (Impl.ZUC.bit_reconstruction z)).1 = (specF st).1 ∧
    Rel (Impl.ZUC.f (Impl.ZUC.bit_reconstruction z)).2 ⟨st.s, (specF st).2.1, (specF st).2.2⟩ ∧
    (Impl.ZUC.f (Impl.ZUC.bit_reconstruction z)).2.x = Spec.ZUC.bitReorg st.s := by
  have hx := bitrec_x z st h
  have hr1 : (Impl.ZUC.bit_reconstruction z).r1 = st.r1 := h.2.1
  have hr2 : (Impl.ZUC.bit_reconstruction z).r2 = st.r2 := h.2.2.1
  have hs : (Impl.ZUC.bit_reconstruction z).s = z.s := rfl
  rw [impl_f_eq]
  dsimp only
  rw [hx, hr1, hr2]
  refine ⟨rfl, ⟨?_, ?_, ?_, h.2.2.2⟩, rfl⟩
  · exact h.1
  · show Impl.ZUC.sbox _ = Spec.ZUC.S _
    rw [sbox_eq, l1_eq]
  · show Impl.ZUC.sbox _ = Spec.ZUC.S _
    rw [sbox_eq, l2_eq]

/-! ### rounds -/

theorem impl_initRound_eq (z : Impl.ZUC.ZUC) :
    Impl.ZUC.initRound z =
      Impl.ZUC.lfsr_with_initialization_mode (Impl.ZUC.f (Impl.ZUC.bit_reconstruction z)).2
        ((Impl.ZUC.f (Impl.ZUC.bit_reconstruction z)).1 >>> 1) := rfl

theorem shr1_toNat (w : UInt32) : (w >>> 1).toNat = w.toNat / 2 := by
  have h1 : (1 : UInt32).toNat % 32 = 1 := by decide
  rw [UInt32.toNat_shiftRight, h1, Nat.shiftRight_eq_div_pow]

theorem initRound_refines (z : Impl.ZUC.ZUC) (st : Spec.ZUC.State) (h : Rel z st) :
    Rel (Impl.ZUC.initRound z) (Spec.ZUC.initRound st) := by
  obtain ⟨hw, hrel, _⟩ := f_refines z st h
  rw [impl_initRound_eq, spec_initRound_eq]
  have hu : ((Impl.ZUC.f (Impl.ZUC.bit_reconstruction z)).1 >>> 1).toNat < 2 ^ 31 := by
    rw [shr1_toNat]
    have := (Impl.ZUC.f (Impl.ZUC.bit_reconstruction z)).1.toNat_lt
    omega
  have := lfsr_init_refines _ _ hrel _ hu
  rw [shr1_toNat] at this
  rw [← hw]
  exact this

theorem iter_initRound_refines (n : Nat) (z : Impl.ZUC.ZUC) (st : Spec.ZUC.State) (h : Rel z st) :
    Rel (Impl.ZUC.iter Impl.ZUC.initRound n z) (Spec.ZUC.iter Spec.ZUC.initRound n st) := by
  induction n generalizing z st with
  | zero => exact h
  | succ n ih => exact ih _ _ (initRound_refines z st h)

/-- one working step of the model -/
def workStepI (z : Impl.ZUC.ZUC) : UInt32 × Impl.ZUC.ZUC :=
  ((Impl.ZUC.f (Impl.ZUC.bit_reconstruction z)).1 ^^^
      (Impl.ZUC.f (Impl.ZUC.bit_reconstruction z)).2.x.2.2.2,
   Impl.ZUC.lfsr_with_work_mode (Impl.ZUC.f (Impl.ZUC.bit_reconstruction z)).2)

theorem gen_succ (z : Impl.ZUC.ZUC) (n : Nat) :
    Impl.ZUC.generate_keystream z (n + 1) =
      ((workStepI z).1 :: (Impl.ZUC.generate_keystream (workStepI z).2 n).1,
       (Impl.ZUC.generate_keystream (workStepI z).2 n).2) := rfl

theorem workStep_refines (z : Impl.ZUC.ZUC) (st : Spec.ZUC.State) (h : Rel z st) :
    (workStepI z).1 = (Spec.ZUC.workStep st).1 ∧ Rel (workStepI z).2 (Spec.ZUC.workStep st).2 := by
  obtain ⟨hw, hrel, hx⟩ := f_refines z st h
  rw [spec_workStep_eq]
  unfold workStepI
  dsimp only
  refine ⟨by rw [hw, hx], ?_⟩
  exact lfsr_work_refines _ _ hrel

/-! ### key loading and `new` -/

theorem make_u31_toNat (k iv : UInt8) (d : UInt32) (hd : d.toNat < 2 ^ 15) :
    (Impl.ZUC.make_u31 k.toUInt32 d iv.toUInt32).toNat
      = k.toNat * 2 ^ 23 + d.toNat * 2 ^ 8 + iv.toNat := by
  have h23 : (23 : UInt32).toNat % 32 = 23 := by decide
  have h8 : (8 : UInt32).toNat % 32 = 8 := by decide
  have hk := k.toNat_lt
  have hiv := iv.toNat_lt
  unfold Impl.ZUC.make_u31
  rw [UInt32.toNat_or, UInt32.toNat_or, UInt32.toNat_shiftLeft, UInt32.toNat_shiftLeft, h23, h8,
    UInt8.toNat_toUInt32, UInt8.toNat_toUInt32, Nat.shiftLeft_eq, Nat.shiftLeft_eq]
  have e1 : k.toNat * 2 ^ 23 % 2 ^ 32 = k.toNat * 2 ^ 23 := Nat.mod_eq_of_lt (by omega)
  have e2 : d.toNat * 2 ^ 8 % 2 ^ 32 = d.toNat * 2 ^ 8 := Nat.mod_eq_of_lt (by omega)
  rw [e1, e2, mul_add_eq_or _ _ 23 (by omega)]
  have e3 : k.toNat * 2 ^ 23 + d.toNat * 2 ^ 8 = (k.toNat * 2 ^ 15 + d.toNat) * 2 ^ 8 := by omega
  rw [e3, mul_add_eq_or _ _ 8 (by omega)]

theorem DA_get (i : Nat) (hi : i < 16) : Impl.ZUC.DA[i]!.toNat = Spec.ZUC.D.getD i 0 := by
  have hl : i < Gen.ZUC.D.length := by
    have := congrArg List.length gen_D
    rw [List.length_map, tables_length.2.2] at this; omega
  have hl' : i < Spec.ZUC.D.length := by rw [tables_length.2.2]; exact hi
  rw [Array.getElem!_eq_getD, Impl.ZUC.DA, getD_eq _ _ _ hl']
  simp only [← gen_D, List.getElem_map]
  rw [← Array.getElem_eq_getD (xs := Gen.ZUC.D.toArray) (h := by simpa using hl) default]
  simp

theorem load_refines (k iv : List UInt8) :
    ((List.range 16).map fun i =>
        Impl.ZUC.make_u31 (k.getD i 0).toUInt32 Impl.ZUC.DA[i]! (iv.getD i 0).toUInt32).map UInt32.toNat
      = Spec.ZUC.load k iv := by
  unfold Spec.ZUC.load
  rw [List.map_map]
  apply List.map_congr_left
  intro i hi
  have hi : i < 16 := List.mem_range.mp hi
  have hd := D_getD i hi
  simp only [Function.comp]
  rw [make_u31_toNat _ _ _ (by rw [DA_get i hi]; exact hd.2), DA_get i hi]

theorem impl_new_ok (k iv : List UInt8) (hk : k.length = 16) (hiv : iv.length = 16) :
    Impl.ZUC.new k iv = .ok (workStepI (Impl.ZUC.iter Impl.ZUC.initRound 32
      ⟨(List.range 16).map fun i =>
        Impl.ZUC.make_u31 (k.getD i 0).toUInt32 Impl.ZUC.DA[i]! (iv.getD i 0).toUInt32,
       0, 0, (0, 0, 0, 0)⟩)).2 := by
  unfold Impl.ZUC.new
  rw [if_neg (by omega)]
  rfl

theorem new_refines (k iv : List UInt8) (hk : k.length = 16) (hiv : iv.length = 16) :
    ∃ z, Impl.ZUC.new k iv = .ok z ∧ Rel z (Spec.ZUC.init k iv) := by
  refine ⟨_, impl_new_ok k iv hk hiv, ?_⟩
  have h0 : Rel ⟨(List.range 16).map fun i =>
        Impl.ZUC.make_u31 (k.getD i 0).toUInt32 Impl.ZUC.DA[i]! (iv.getD i 0).toUInt32,
       0, 0, (0, 0, 0, 0)⟩ ⟨Spec.ZUC.load k iv, 0, 0⟩ :=
    ⟨load_refines k iv, rfl, rfl, inv_load k iv⟩
  exact (workStep_refines _ _ (iter_initRound_refines 32 _ _ h0)).2

theorem new_panic_iff (k iv : List UInt8) :
    Impl.ZUC.new k iv = .panic ↔ (k.length < 16 ∨ iv.length < 16) := by
  unfold Impl.ZUC.new
  split
  · simp [*]
  · simp [*]

/-! ### keystream generation -/

theorem streamFrom_succ (st : Spec.ZUC.State) (n : Nat) :
    Spec.ZUC.streamFrom st (n + 1)
      = (Spec.ZUC.workStep st).1 :: Spec.ZUC.streamFrom (Spec.ZUC.workStep st).2 n := rfl

theorem generate_refines (z : Impl.ZUC.ZUC) (st : Spec.ZUC.State) (h : Rel z st) (n : Nat) :
    (Impl.ZUC.generate_keystream z n).1 = Spec.ZUC.streamFrom st n ∧
    ∃ st', Rel (Impl.ZUC.generate_keystream z n).2 st' ∧
      ∀ m, Spec.ZUC.streamFrom st (n + m) = Spec.ZUC.streamFrom st n ++ Spec.ZUC.streamFrom st' m := by
  induction n generalizing z st with
  | zero =>
    refine ⟨rfl, st, h, ?_⟩
    intro m
    rw [Nat.zero_add]; rfl
  | succ n ih =>
    obtain ⟨hw, hrel⟩ := workStep_refines z st h
    obtain ⟨h1, st', hrel', hsplit⟩ := ih _ _ hrel
    rw [gen_succ, streamFrom_succ]
    dsimp only
    refine ⟨by rw [hw, h1], st', hrel', ?_⟩
    intro m
    rw [Nat.add_right_comm, streamFrom_succ, hsplit m, List.cons_append]

theorem generate_length (z : Impl.ZUC.ZUC) (n : Nat) :
    (Impl.ZUC.generate_keystream z n).1.length = n := by
  induction n generalizing z with
  | zero => rfl
  | succ n ih => rw [gen_succ]; simp [ih]

theorem requests_cons (z : Impl.ZUC.ZUC) (n : Nat) (ns : List Nat) :
    Impl.ZUC.requests z (n :: ns)
      = (Impl.ZUC.generate_keystream z n).1 :: Impl.ZUC.requests (Impl.ZUC.generate_keystream z n).2 ns :=
  rfl

theorem requests_refines (z : Impl.ZUC.ZUC) (st : Spec.ZUC.State) (h : Rel z st) (ns : List Nat) :
    (Impl.ZUC.requests z ns).flatten = Spec.ZUC.streamFrom st ns.sum := by
  induction ns generalizing z st with
  | nil => rfl
  | cons n ns ih =>
    obtain ⟨h1, st', hrel', hsplit⟩ := generate_refines z st h n
    rw [requests_cons, List.flatten_cons, List.sum_cons, hsplit, h1, ih _ _ hrel']

theorem request_lengths (z : Impl.ZUC.ZUC) (ns : List Nat) :
    (Impl.ZUC.requests z ns).map List.length = ns := by
  induction ns generalizing z with
  | nil => rfl
  | cons n ns ih => rw [requests_cons, List.map_cons, generate_length, ih]

theorem keystream_first (k iv : List UInt8) (hk : k.length = 16) (hiv : iv.length = 16) (n : Nat) :
    ∃ z, Impl.ZUC.new k iv = .ok z ∧ (Impl.ZUC.generate_keystream z n).1 = Spec.ZUC.stream k iv n := by
  obtain ⟨z, hz, hrel⟩ := new_refines k iv hk hiv
  exact ⟨z, hz, (generate_refines z _ hrel n).1⟩

theorem split_independent (k iv : List UInt8) (hk : k.length = 16) (hiv : iv.length = 16)
    (ns : List Nat) :
    ∃ z, Impl.ZUC.new k iv = .ok z ∧
      (Impl.ZUC.requests z ns).flatten = Spec.ZUC.stream k iv ns.sum := by
  obtain ⟨z, hz, hrel⟩ := new_refines k iv hk hiv
  exact ⟨z, hz, requests_refines z _ hrel ns⟩

end GmVerif.Proofs.ZUC
