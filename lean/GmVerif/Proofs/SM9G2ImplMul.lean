/-
C13 (point layer, G2), continued: the double-and-add multiplication `TwistPoint.point_mul`, the fixed-base `g_mul`,
affine points in Montgomery form (the generator), a decidable on-curve test for concrete points, and the exact
characterisation of the (defective) `TwistPoint.point_equals`.
-/
import GmVerif.Proofs.SM9G2Impl
import GmVerif.Proofs.SM9Algebra
import GmVerif.Proofs.Limb
set_option autoImplicit false
namespace GmVerif.Proofs.SM9G2Impl
open GmVerif
open GmVerif.Spec.SM9 (p Pt2 add2 mul2 onTwist)
open GmVerif.Proofs.SM9Tower (F2 Canon2 dec2 Ok2 ok2_dec)
open GmVerif.Proofs.SM9G2 (ofK toK)
open GmVerif.Proofs.SM9G2ImplField
open GmVerif.Proofs.SM2CurveAlg GmVerif.Proofs.SM9G2ImplAlg
open _root_.GmVerif.Impl.SM9 (Fp2 TwistPoint twist_point_add_full)

/-! ### double-and-add -/

theorem point_mul_loop (P : TwistPoint) (hP : Valid2 P) (bits : List Bool) (r : TwistPoint) (k : Nat)
    (hr : Valid2 r) (hk : toSpec2 r = mul2 k (toSpec2 P)) :
    Valid2 (bits.foldl (fun r bit => let r := r.point_double; if bit then twist_point_add_full r P else r) r) ∧
    toSpec2 (bits.foldl (fun r bit => let r := r.point_double; if bit then twist_point_add_full r P else r) r)
      = mul2 (Proofs.Limb.bitsVal bits k) (toSpec2 P) := by
  induction bits generalizing r k with
  | nil => exact ⟨hr, hk⟩
  | cons bit bits ih =>
    rw [List.foldl_cons, Proofs.Limb.bitsVal, List.foldl_cons, ← Proofs.Limb.bitsVal]
    have hd := point_double_correct r hr
    have hT := toSpec2_onTwist P hP
    have h2k : toSpec2 r.point_double = mul2 (2 * k) (toSpec2 P) := by
      rw [hd.2, hk, ← SM9G2.mul2_add k k hT, Nat.two_mul]
    cases bit
    · simp only [Bool.false_eq_true, if_false, Bool.toNat_false]
      exact ih _ (2 * k + 0) hd.1 h2k
    · simp only [if_true, Bool.toNat_true]
      have ha := add_full_correct r.point_double P hd.1 hP
      refine ih _ (2 * k + 1) ha.1 ?_
      rw [ha.2, h2k, SM9G2.mul2_add (2 * k) 1 hT, SM9Algebra.mul2_one]

theorem zero_valid : Valid2 TwistPoint.zero := by rw [zero_eq_mk]; exact valid_mk_zero _ _
theorem toSpec2_zero : toSpec2 TwistPoint.zero = none := by rw [zero_eq_mk]; exact toSpec2_mk_zero _ _

theorem point_mul_correct (Q : TwistPoint) (h : Valid2 Q) (k : Nat) (hk : k < 2 ^ 256) :
    Valid2 (Q.point_mul k) ∧ toSpec2 (Q.point_mul k) = mul2 k (toSpec2 Q) := by
  have := point_mul_loop Q h (Impl.NatField.bitsMSB k) TwistPoint.zero 0 zero_valid
    (by rw [toSpec2_zero, SM9Algebra.mul2_zero])
  rw [Proofs.Limb.bitsMSB_val, Nat.mod_eq_of_lt hk] at this
  exact this

/-! ### affine points of the specification in Montgomery form -/

theorem encN_natCast (n : Nat) : encN (n : ZMod p) = n * 2 ^ 256 % p := by
  unfold encN
  rw [← ZMod.val_natCast]
  rw [Nat.cast_mul, Nat.cast_pow, Nat.cast_ofNat]

theorem enc2_toK (a : Spec.SM9.Fp2) : enc2 (toK a) = ⟨a.1 * 2 ^ 256 % p, a.2 * 2 ^ 256 % p⟩ := by
  simp only [enc2, toK, encN_natCast]

/-- the Jacobian/Montgomery representation (Z = 1) of an affine point of the specification -/
def ofAffine (x y : Spec.SM9.Fp2) : TwistPoint :=
  ⟨⟨x.1 * 2 ^ 256 % p, x.2 * 2 ^ 256 % p⟩, ⟨y.1 * 2 ^ 256 % p, y.2 * 2 ^ 256 % p⟩, Fp2.one⟩

theorem ofAffine_eq_mk (x y : Spec.SM9.Fp2) : ofAffine x y = mk (toK x) (toK y) 1 := by
  simp only [ofAffine, mk, enc2_toK, one_eq]

theorem ofAffine_correct (x y : Spec.SM9.Fp2) (h : onTwist (some (x, y)) = true) :
    Valid2 (ofAffine x y) ∧ toSpec2 (ofAffine x y) = some (x, y) := by
  have hc : x.1 < p ∧ x.2 < p ∧ y.1 < p ∧ y.2 < p := by
    simp only [onTwist, Bool.and_eq_true, decide_eq_true_eq] at h
    exact ⟨h.1.1.1.1, h.1.1.1.2, h.1.1.2, h.1.2⟩
  have hx := SM9G2.ofK_toK x hc.1 hc.2.1
  have hy := SM9G2.ofK_toK y hc.2.2.1 hc.2.2.2
  rw [← hx, ← hy, onTwist_ofK_iff] at h
  rw [ofAffine_eq_mk]
  constructor
  · rw [valid_mk_iff]
    intro _
    linear_combination h
  · rw [toSpec2_mk_of_ne one_ne_zero]
    simp only [one_pow, div_one, hx, hy]

theorem g2_eq : Impl.SM9.TWIST_POINT_MONT_P2
    = ofAffine (0x3722755292130B08D2AAB97FD34EC120EE265948D19C17ABF9B7213BAF82D65B,
                0x85AEF3D078640C98597B6027B441A01FF1DD2C190F5E93C454806C11D8806141)
               (0xA7CF28D519BE3DA65F3170153D278FF247EFBA98A71A08116215BBA5C999A7C7,
                0x17509B092E845C1266BA0D262CBEE6ED0736A96FA347C8BD856DC76B84EBEB96) := by
  decide +kernel

theorem g2_correct : Valid2 Impl.SM9.TWIST_POINT_MONT_P2 ∧ toSpec2 Impl.SM9.TWIST_POINT_MONT_P2 = Spec.SM9.P2 := by
  rw [g2_eq]
  exact ofAffine_correct _ _ SM9Algebra.sm9_P2_onTwist

theorem g_mul_correct (k : Nat) (hk : k < 2 ^ 256) :
    Valid2 (TwistPoint.g_mul k) ∧ toSpec2 (TwistPoint.g_mul k) = mul2 k Spec.SM9.P2 := by
  have := point_mul_correct _ g2_correct.1 k hk
  rw [g2_correct.2] at this
  exact this

/-! ### a decidable on-curve test (for concrete points) -/

/-- Y² = X³ + 5u·Z⁶ evaluated with the model's own arithmetic -/
def onTwistCheck (Q : TwistPoint) : Bool :=
  Q.y.fp_sqr.eq ((Q.x.fp_sqr.fp_mul Q.x).fp_add (((Q.z.fp_sqr.fp_mul Q.z).fp_sqr).fp_mul ⟨0, Gen.SM9.MODP_MONT_FIVE⟩))

theorem onTwistCheck_mk (X Y Z : L) : onTwistCheck (mk X Y Z) = true ↔ Y * Y = X * X * X + Z * Z * Z * (Z * Z * Z) * bL := by
  simp only [onTwistCheck, mk, mont_b_eq, fp_sqr_enc2, fp_mul_enc2, fp_add_enc2, eq_enc2]

theorem valid2_of_check (Q : TwistPoint) (hc : Canon2 Q.x ∧ Canon2 Q.y ∧ Canon2 Q.z) (h : onTwistCheck Q = true) :
    Valid2 Q := by
  have e := eq_mk Q hc.1 hc.2.1 hc.2.2
  rw [e] at h ⊢
  rw [onTwistCheck_mk] at h
  rw [valid_mk_iff]
  intro _
  linear_combination h

/-! ### `point_equals`, as it is -/

theorem point_equals_mk (X1 Y1 Z1 X2 Y2 Z2 : L) :
    (mk X1 Y1 Z1).point_equals (mk X2 Y2 Z2) = true ↔ X1 * Z2 ^ 2 = X2 * Z1 ^ 2 ∨ Y1 * Z2 ^ 3 = Y2 * Z1 ^ 3 := by
  simp only [TwistPoint.point_equals, mk, fp_sqr_enc2, fp_mul_enc2, eq_enc2]
  have hx : (X1 * (Z2 * Z2) = X2 * (Z1 * Z1)) ↔ (X1 * Z2 ^ 2 = X2 * Z1 ^ 2) := by rw [pow_two, pow_two]
  have hy : (Y1 * (Z2 * Z2 * Z2) = Y2 * (Z1 * Z1 * Z1)) ↔ (Y1 * Z2 ^ 3 = Y2 * Z1 ^ 3) := by
    rw [show Z2 ^ 3 = Z2 * Z2 * Z2 by ring, show Z1 ^ 3 = Z1 * Z1 * Z1 by ring]
  rw [← hx, ← hy]
  split_ifs with h
  · simp [h]
  · rw [eq_enc2]; simp [h]

/-- the exact behaviour on finite points: `true` iff the affine x-coordinates agree OR the affine y-coordinates agree -/
theorem point_equals_mk_char (X1 Y1 Z1 X2 Y2 Z2 : L) (hZ1 : Z1 ≠ 0) (hZ2 : Z2 ≠ 0) :
    (mk X1 Y1 Z1).point_equals (mk X2 Y2 Z2) = true ↔
      ∃ x1 y1 x2 y2, toSpec2 (mk X1 Y1 Z1) = some (x1, y1) ∧ toSpec2 (mk X2 Y2 Z2) = some (x2, y2)
        ∧ (x1 = x2 ∨ y1 = y2) := by
  rw [point_equals_mk, cross_x_iff X1 Z1 X2 Z2 hZ1 hZ2, cross_y_iff Y1 Z1 Y2 Z2 hZ1 hZ2,
    toSpec2_mk_of_ne hZ1, toSpec2_mk_of_ne hZ2]
  constructor
  · rintro (h | h)
    · exact ⟨_, _, _, _, rfl, rfl, Or.inl (congrArg ofK h)⟩
    · exact ⟨_, _, _, _, rfl, rfl, Or.inr (congrArg ofK h)⟩
  · rintro ⟨x1, y1, x2, y2, h1, h2, h⟩
    simp only [Option.some.injEq, Prod.mk.injEq] at h1 h2
    rcases h with h | h
    · exact Or.inl (SM9G2.ofK_injective (by rw [h1.1, h2.1, h]))
    · exact Or.inr (SM9G2.ofK_injective (by rw [h1.2, h2.2, h]))

theorem decL_eq_zero_iff {a : Fp2} : decL a = 0 ↔ dec2 a = 0 := by
  unfold decL; exact map_eq_zero_iff _ φ.injective

theorem point_equals_char (P Q : TwistPoint) (hP : Valid2 P) (hQ : Valid2 Q) (hzP : dec2 P.z ≠ 0)
    (hzQ : dec2 Q.z ≠ 0) :
    P.point_equals Q = true ↔
      ∃ x1 y1 x2 y2, toSpec2 P = some (x1, y1) ∧ toSpec2 Q = some (x2, y2) ∧ (x1 = x2 ∨ y1 = y2) := by
  have eP := eq_mk P hP.1 hP.2.1 hP.2.2.1
  have eQ := eq_mk Q hQ.1 hQ.2.1 hQ.2.2.1
  rw [eP, eQ]
  exact point_equals_mk_char _ _ _ _ _ _ (fun h => hzP (decL_eq_zero_iff.mp h)) (fun h => hzQ (decL_eq_zero_iff.mp h))

/-- at infinity: a first operand with z = 0 compares equal to EVERYTHING whose z is 0 too, and x·0 = x'·0 -/
theorem point_equals_inf_left (X1 Y1 X2 Y2 Z2 : L) :
    (mk X1 Y1 0).point_equals (mk X2 Y2 Z2) = true ↔ X1 * Z2 ^ 2 = 0 ∨ Y1 * Z2 ^ 3 = 0 := by
  rw [point_equals_mk]; simp

/-! ### the definitions, spelled out (for the property file) -/

/-- a coefficient pair of the model as an Fp2 element of the specification: canonical representatives of the decoded
coefficients -/
def decSpec (a : Fp2) : Spec.SM9.Fp2 := ((SM9Tower.dec a.c0).val, (SM9Tower.dec a.c1).val)

theorem decSpec_eq (a : Fp2) : decSpec a = ofK (decL a) := rfl

theorem valid2_def (Q : TwistPoint) :
    Valid2 Q ↔ Canon2 Q.x ∧ Canon2 Q.y ∧ Canon2 Q.z ∧
      (dec2 Q.z ≠ 0 → dec2 Q.y ^ 2 = dec2 Q.x ^ 3 + (SM9Tower.Quad.of 5 * SM9Tower.u) * dec2 Q.z ^ 6) := by
  rw [← b2_eq]; rfl

/-- `toSpec2` with the specification's own Fp2 arithmetic: (X·(Z²)⁻¹, Y·(Z³)⁻¹) on the decoded coordinates -/
theorem toSpec2_def (Q : TwistPoint) :
    toSpec2 Q = if decSpec Q.z = Spec.SM9.Fp2.zero then none
      else some (Spec.SM9.Fp2.mul (decSpec Q.x) (Spec.SM9.Fp2.inv (Spec.SM9.Fp2.mul (decSpec Q.z) (decSpec Q.z))),
        Spec.SM9.Fp2.mul (decSpec Q.y) (Spec.SM9.Fp2.inv
          (Spec.SM9.Fp2.mul (Spec.SM9.Fp2.mul (decSpec Q.z) (decSpec Q.z)) (decSpec Q.z)))) := by
  have hz : decSpec Q.z = Spec.SM9.Fp2.zero ↔ decL Q.z = 0 := by
    rw [decSpec_eq, SM9G2.zero_ofK]
    exact ⟨fun h => SM9G2.ofK_injective h, fun h => congrArg ofK h⟩
  unfold toSpec2
  by_cases h : decL Q.z = 0
  · rw [if_pos h, if_pos (hz.mpr h)]
  · rw [if_neg h, if_neg (fun h' => h (hz.mp h'))]
    simp only [decSpec_eq, SM9G2.mul_ofK, SM9G2.inv_ofK]
    rw [div_eq_mul_inv, div_eq_mul_inv, pow_two, pow_three']

end GmVerif.Proofs.SM9G2Impl
