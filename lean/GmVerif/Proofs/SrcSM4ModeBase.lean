/-
The lemmas of `Proofs/SrcSM4.lean` (block cipher: translated = hand model) re-established for the copies of the same
definitions inside `Gen.SrcSM4Mode` (the whole-file translation of gm-sm4/src/lib.rs).  Mechanical copy of that file
(`sed s/Gen.SrcSM4/Gen.SrcSM4Mode/`): the definitions are textually identical, so are the proofs.
-/
import GmVerif.Common
import GmVerif.Impl.SM4
import GmVerif.Gen.SrcSM4Mode
import GmVerif.Proofs.SrcCommon
namespace GmVerif.Proofs.SrcSM4ModeBase
open GmVerif
open GmVerif.Proofs.SrcCommon
open GmVerif.Gen.SrcSM4Mode (Rs.get Rs.set Rs.usub Rs.slice Rs.err Rs.try_into_array Rs.copy_into_range Rs.to_be_bytes32 Rs.from_be_bytes32)

theorem SBOX_eq : Gen.SrcSM4Mode.SBOX = Impl.SM4.SBOXA := by decide +kernel
theorem FK_eq : Gen.SrcSM4Mode.FK = Impl.SM4.FKA := by decide +kernel
theorem CK_eq : Gen.SrcSM4Mode.CK = Impl.SM4.CKA := by decide +kernel
theorem SBOX_size : Gen.SrcSM4Mode.SBOX.size = 256 := by decide +kernel
theorem CKA_size : Impl.SM4.CKA.size = 32 := by decide +kernel
theorem FKA_size : Impl.SM4.FKA.size = 4 := by decide +kernel

theorem get_ok {α} [Inhabited α] (a : Array α) (i : Nat) (h : i < a.size) : Rs.get a i = .ok a[i]! := by
  simp only [Rs.get, if_pos h]
theorem set_ok {α} (a : Array α) (i : Nat) (v : α) (h : i < a.size) : Rs.set a i v = .ok (a.set! i v) := by
  simp only [Rs.set, if_pos h]
theorem usub_ok (a b : Nat) (h : b ≤ a) : Rs.usub a b = .ok (a - b) := by
  simp only [Rs.usub, if_pos h]

theorem el_eq (b : UInt32) : Gen.SrcSM4Mode.el b = Impl.SM4.el b := rfl
theorem el_prime_eq (b : UInt32) : Gen.SrcSM4Mode.el_prime b = Impl.SM4.el_prime b := rfl

theorem u8_lt (b : UInt8) : b.toNat < 256 := b.toNat_lt

theorem tau_eq (a : UInt32) : Gen.SrcSM4Mode.tau a = .ok (Impl.SM4.tau a) := by
  unfold Gen.SrcSM4Mode.tau Impl.SM4.tau
  simp (disch := first | (simp only [SBOX_size]; exact u8_lt _) | simp [Rs.to_be_bytes32]) only [get_ok, set_ok, ok_bind, pure_eq]
  simp [Rs.to_be_bytes32, Rs.from_be_bytes32, u32be, SBOX_eq]

theorem t_eq (a : UInt32) : Gen.SrcSM4Mode.t a = .ok (Impl.SM4.t a) := by
  simp only [Gen.SrcSM4Mode.t, Impl.SM4.t, tau_eq, ok_bind, pure_eq, el_eq]
theorem t_prime_eq (a : UInt32) : Gen.SrcSM4Mode.t_prime a = .ok (Impl.SM4.t_prime a) := by
  simp only [Gen.SrcSM4Mode.t_prime, Impl.SM4.t_prime, tau_eq, ok_bind, pure_eq, el_prime_eq]

/-! ### `Sm4Cipher::encrypt` / `decrypt` -/

/-- a `for i in a..b` loop whose body maps the image `emb s` of a model state to the image of `step s i` -/
theorem forIn_list_emb {σ β} (emb : σ → β) (step : σ → Nat → σ)
    (F : Nat → β → Outcome (ForInStep β)) :
    ∀ (l : List Nat) (s : σ), (∀ i s, i ∈ l → F i (emb s) = .ok (.yield (emb (step s i)))) →
      forIn l (emb s) F = .ok (emb (l.foldl step s)) := by
  intro l
  induction l with
  | nil => intro s _; rfl
  | cons a l ih =>
    intro s hF
    rw [List.forIn_cons, hF a s (by simp), List.foldl_cons]
    exact ih (step s a) (fun i s hi => hF i s (by simp [hi]))

theorem forIn_range_emb {σ β} (emb : σ → β) (step : σ → Nat → σ)
    (F : Nat → β → Outcome (ForInStep β)) (n : Nat) (s : σ)
    (hF : ∀ i s, i < n → F i (emb s) = .ok (.yield (emb (step s i)))) :
    forIn [0:n] (emb s) F = .ok (emb ((List.range n).foldl step s)) := by
  rw [Std.Legacy.Range.forIn_eq_forIn_range']
  have e : (List.range' (([0:n] : Std.Legacy.Range)).start (([0:n] : Std.Legacy.Range)).size (([0:n] : Std.Legacy.Range)).step)
      = List.range n := by
    simp [Std.Legacy.Range.size, List.range_eq_range']
  rw [e]
  exact forIn_list_emb emb step F _ s (fun i s hi => hF i s (List.mem_range.mp hi))

def embQ (x : Impl.SM4.Q) : Array UInt32 := #[x.1, x.2.1, x.2.2.1, x.2.2.2]

/-- `u32::from_be_bytes(b[i..i+4].try_into().unwrap())` on a 16-byte block -/
theorem words_eq (b : List UInt8) (hb : b.length = 16) :
    (Rs.slice b.toArray 0 4 = .ok (b.toArray.extract 0 4) ∧
     Rs.slice b.toArray 4 8 = .ok (b.toArray.extract 4 8) ∧
     Rs.slice b.toArray 8 12 = .ok (b.toArray.extract 8 12) ∧
     Rs.slice b.toArray 12 16 = .ok (b.toArray.extract 12 16)) ∧
    (Rs.try_into_array (b.toArray.extract 0 4) 4 = .ok (b.toArray.extract 0 4) ∧
     Rs.try_into_array (b.toArray.extract 4 8) 4 = .ok (b.toArray.extract 4 8) ∧
     Rs.try_into_array (b.toArray.extract 8 12) 4 = .ok (b.toArray.extract 8 12) ∧
     Rs.try_into_array (b.toArray.extract 12 16) 4 = .ok (b.toArray.extract 12 16)) ∧
    Rs.from_be_bytes32 (b.toArray.extract 0 4) = Impl.SM4.word b 0 ∧
    Rs.from_be_bytes32 (b.toArray.extract 4 8) = Impl.SM4.word b 4 ∧
    Rs.from_be_bytes32 (b.toArray.extract 8 12) = Impl.SM4.word b 8 ∧
    Rs.from_be_bytes32 (b.toArray.extract 12 16) = Impl.SM4.word b 12 := by
  match b, hb with
  | [b0, b1, b2, b3, b4, b5, b6, b7, b8, b9, b10, b11, b12, b13, b14, b15], _ =>
    refine ⟨⟨rfl, rfl, rfl, rfl⟩, ⟨rfl, rfl, rfl, rfl⟩, ?_, ?_, ?_, ?_⟩ <;>
      simp [Rs.from_be_bytes32, Impl.SM4.word, u32be]

theorem copy_into_range_ok (L S : List UInt8) (lo hi : Nat) (h1 : lo ≤ hi) (h2 : hi ≤ L.length)
    (h3 : S.length = hi - lo) :
    Rs.copy_into_range L.toArray lo hi S.toArray = .ok (L.take lo ++ S ++ L.drop hi).toArray := by
  unfold Rs.copy_into_range
  rw [if_pos (by simpa using ⟨h1, h2⟩), if_pos (by simpa using h3)]
  simp [List.take_of_length_le]

theorem out_eq (x : Impl.SM4.Q) :
    (do
      let out ← Rs.copy_into_range (Array.replicate 16 (0 : UInt8)) 0 4 (Rs.to_be_bytes32 (← Rs.get (embQ x) 3))
      let out ← Rs.copy_into_range out 4 8 (Rs.to_be_bytes32 (← Rs.get (embQ x) 2))
      let out ← Rs.copy_into_range out 8 12 (Rs.to_be_bytes32 (← Rs.get (embQ x) 1))
      let out ← Rs.copy_into_range out 12 16 (Rs.to_be_bytes32 (← Rs.get (embQ x) 0))
      pure out : Outcome (Array UInt8)) = .ok (Impl.SM4.outBytes x).toArray := by
  obtain ⟨x0, x1, x2, x3⟩ := x
  have e : ∀ w, Rs.to_be_bytes32 w = (be32 w).toArray := fun _ => rfl
  simp (disch := simp [embQ]) only [get_ok, ok_bind, e]
  rw [← List.toArray_replicate, copy_into_range_ok _ _ 0 4 (by omega) (by simp) (by simp [be32]), ok_bind,
    copy_into_range_ok _ _ 4 8 (by omega) (by simp [be32]) (by simp [be32]), ok_bind,
    copy_into_range_ok _ _ 8 12 (by omega) (by simp [be32]) (by simp [be32]), ok_bind,
    copy_into_range_ok _ _ 12 16 (by omega) (by simp [be32]) (by simp [be32])]
  simp [embQ, Impl.SM4.outBytes, be32, List.replicate_succ]


/-- one statement `x[p] ^= T(x[q] ^ x[r] ^ x[s] ^ c)` on the 4-word array, kept folded so that terms stay small -/
def upd (T : UInt32 → UInt32) (a : Array UInt32) (p q r s : Nat) (c : UInt32) : Array UInt32 :=
  a.set! p (a[p]! ^^^ T (a[q]! ^^^ a[r]! ^^^ a[s]! ^^^ c))

theorem upd_size (T : UInt32 → UInt32) (a : Array UInt32) (p q r s : Nat) (c : UInt32) :
    (upd T a p q r s c).size = a.size := by simp [upd]

theorem stmt_ok {β} (Tm : UInt32 → Outcome UInt32) (T : UInt32 → UInt32) (hT : ∀ v, Tm v = .ok (T v))
    (a tbl : Array UInt32) (p q r s j : Nat) (hp : p < a.size) (hq : q < a.size) (hr : r < a.size)
    (hs : s < a.size) (hj : j < tbl.size) (k : Array UInt32 → Outcome β) :
    (do let v0 ← Rs.get a p
        let v1 ← Rs.get a q
        let v2 ← Rs.get a r
        let v3 ← Rs.get a s
        let c ← Rs.get tbl j
        let tt ← Tm (v1 ^^^ v2 ^^^ v3 ^^^ c)
        let x ← Rs.set a p (v0 ^^^ tt)
        k x) = k (upd T a p q r s tbl[j]!) := by
  simp only [get_ok, set_ok, hp, hq, hr, hs, hj, hT, ok_bind, upd]

theorem upd0 (T : UInt32 → UInt32) (x0 x1 x2 x3 c : UInt32) :
    upd T (embQ (x0, x1, x2, x3)) 0 1 2 3 c = embQ (x0 ^^^ T (x1 ^^^ x2 ^^^ x3 ^^^ c), x1, x2, x3) := by
  simp [upd, embQ]
theorem upd1 (T : UInt32 → UInt32) (x0 x1 x2 x3 c : UInt32) :
    upd T (embQ (x0, x1, x2, x3)) 1 2 3 0 c = embQ (x0, x1 ^^^ T (x2 ^^^ x3 ^^^ x0 ^^^ c), x2, x3) := by
  simp [upd, embQ]
theorem upd2 (T : UInt32 → UInt32) (x0 x1 x2 x3 c : UInt32) :
    upd T (embQ (x0, x1, x2, x3)) 2 3 0 1 c = embQ (x0, x1, x2 ^^^ T (x3 ^^^ x0 ^^^ x1 ^^^ c), x3) := by
  simp [upd, embQ]
theorem upd3 (T : UInt32 → UInt32) (x0 x1 x2 x3 c : UInt32) :
    upd T (embQ (x0, x1, x2, x3)) 3 0 1 2 c = embQ (x0, x1, x2, x3 ^^^ T (x0 ^^^ x1 ^^^ x2 ^^^ c)) := by
  simp [upd, embQ]

theorem embQ_size (x : Impl.SM4.Q) : (embQ x).size = 4 := rfl

theorem encrypt_eq (rk : Array UInt32) (hrk : rk.size = 32) (b : List UInt8) :
    Gen.SrcSM4Mode.Sm4Cipher.encrypt ⟨rk⟩ b.toArray = (Impl.SM4.encrypt rk b).map List.toArray := by
  unfold Gen.SrcSM4Mode.Sm4Cipher.encrypt Impl.SM4.encrypt
  by_cases hb : b.length = 16
  · obtain ⟨⟨w0, w1, w2, w3⟩, ⟨t0, t1, t2, t3⟩, e0, e1, e2, e3⟩ := words_eq b hb
    simp only [List.size_toArray, hb, ne_eq, not_true_eq_false, if_false, pure_eq, ok_bind,
      w0, w1, w2, w3, t0, t1, t2, t3, e0, e1, e2, e3]
    have hq : #[Impl.SM4.word b 0, Impl.SM4.word b 4, Impl.SM4.word b 8, Impl.SM4.word b 12]
        = embQ (Impl.SM4.word b 0, Impl.SM4.word b 4, Impl.SM4.word b 8, Impl.SM4.word b 12) := rfl
    rw [hq, forIn_range_emb embQ (Impl.SM4.encRound rk) _ 8]
    · rw [ok_bind, out_eq, Impl.SM4.encB, outcome_map_ok]
    · intro i x hi
      obtain ⟨x0, x1, x2, x3⟩ := x
      rw [stmt_ok _ _ t_eq _ _ 0 1 2 3 (i * 4) (by simp [embQ_size]) (by simp [embQ_size]) (by simp [embQ_size])
        (by simp [embQ_size]) (by omega)]
      rw [stmt_ok _ _ t_eq _ _ 1 2 3 0 (i * 4 + 1) (by simp [embQ_size, upd_size]) (by simp [embQ_size, upd_size])
        (by simp [embQ_size, upd_size]) (by simp [embQ_size, upd_size]) (by omega)]
      rw [stmt_ok _ _ t_eq _ _ 2 3 0 1 (i * 4 + 2) (by simp [embQ_size, upd_size]) (by simp [embQ_size, upd_size])
        (by simp [embQ_size, upd_size]) (by simp [embQ_size, upd_size]) (by omega)]
      rw [stmt_ok _ _ t_eq _ _ 3 0 1 2 (i * 4 + 3) (by simp [embQ_size, upd_size]) (by simp [embQ_size, upd_size])
        (by simp [embQ_size, upd_size]) (by simp [embQ_size, upd_size]) (by omega)]
      simp only [upd0, upd1, upd2, upd3, Impl.SM4.encRound]
  · simp only [List.size_toArray, ne_eq, hb, not_false_eq_true, if_true]
    rfl

theorem decrypt_eq (rk : Array UInt32) (hrk : rk.size = 32) (b : List UInt8) :
    Gen.SrcSM4Mode.Sm4Cipher.decrypt ⟨rk⟩ b.toArray = (Impl.SM4.decrypt rk b).map List.toArray := by
  unfold Gen.SrcSM4Mode.Sm4Cipher.decrypt Impl.SM4.decrypt
  by_cases hb : b.length = 16
  · obtain ⟨⟨w0, w1, w2, w3⟩, ⟨t0, t1, t2, t3⟩, e0, e1, e2, e3⟩ := words_eq b hb
    simp only [List.size_toArray, hb, ne_eq, not_true_eq_false, if_false, pure_eq, ok_bind,
      w0, w1, w2, w3, t0, t1, t2, t3, e0, e1, e2, e3]
    have hq : #[Impl.SM4.word b 0, Impl.SM4.word b 4, Impl.SM4.word b 8, Impl.SM4.word b 12]
        = embQ (Impl.SM4.word b 0, Impl.SM4.word b 4, Impl.SM4.word b 8, Impl.SM4.word b 12) := rfl
    rw [hq, forIn_range_emb embQ (Impl.SM4.decRound rk) _ 8]
    · rw [ok_bind, out_eq, Impl.SM4.decB, outcome_map_ok]
    · intro i x hi
      obtain ⟨x0, x1, x2, x3⟩ := x
      simp (disch := omega) only [usub_ok, ok_bind]
      rw [stmt_ok _ _ t_eq _ _ 0 1 2 3 (31 - i * 4) (by simp [embQ_size]) (by simp [embQ_size]) (by simp [embQ_size])
        (by simp [embQ_size]) (by omega)]
      rw [stmt_ok _ _ t_eq _ _ 1 2 3 0 (31 - (i * 4 + 1)) (by simp [embQ_size, upd_size]) (by simp [embQ_size, upd_size])
        (by simp [embQ_size, upd_size]) (by simp [embQ_size, upd_size]) (by omega)]
      rw [stmt_ok _ _ t_eq _ _ 2 3 0 1 (31 - (i * 4 + 2)) (by simp [embQ_size, upd_size]) (by simp [embQ_size, upd_size])
        (by simp [embQ_size, upd_size]) (by simp [embQ_size, upd_size]) (by omega)]
      rw [stmt_ok _ _ t_eq _ _ 3 0 1 2 (31 - (i * 4 + 3)) (by simp [embQ_size, upd_size]) (by simp [embQ_size, upd_size])
        (by simp [embQ_size, upd_size]) (by simp [embQ_size, upd_size]) (by omega)]
      simp only [upd0, upd1, upd2, upd3, Impl.SM4.decRound]
  · simp only [List.size_toArray, ne_eq, hb, not_false_eq_true, if_true]
    rfl


/-! ### `Sm4Cipher::new` -/

/-- `forIn_range_emb` with an invariant that may mention the loop index -/
theorem forIn_list_emb_inv {σ β} (emb : σ → β) (step : σ → Nat → σ)
    (F : Nat → β → Outcome (ForInStep β)) (P : Nat → σ → Prop) :
    ∀ (m a : Nat) (s : σ), P a s →
      (∀ i s, a ≤ i → i < a + m → P i s → P (i + 1) (step s i)) →
      (∀ i s, a ≤ i → i < a + m → P i s → F i (emb s) = .ok (.yield (emb (step s i)))) →
      forIn (List.range' a m) (emb s) F = .ok (emb ((List.range' a m).foldl step s)) := by
  intro m
  induction m with
  | zero => intro a s _ _ _; rfl
  | succ m ih =>
    intro a s h0 hP hF
    rw [List.range'_succ, List.forIn_cons, hF a s (Nat.le_refl _) (by omega) h0, List.foldl_cons]
    exact ih (a + 1) (step s a) (hP a s (Nat.le_refl _) (by omega) h0)
      (fun i s h1 h2 => hP i s (by omega) (by omega))
      (fun i s h1 h2 => hF i s (by omega) (by omega))

theorem forIn_range_emb_inv {σ β} (emb : σ → β) (step : σ → Nat → σ)
    (F : Nat → β → Outcome (ForInStep β)) (P : Nat → σ → Prop) (n : Nat) (s : σ) (h0 : P 0 s)
    (hP : ∀ i s, i < n → P i s → P (i + 1) (step s i))
    (hF : ∀ i s, i < n → P i s → F i (emb s) = .ok (.yield (emb (step s i)))) :
    forIn [0:n] (emb s) F = .ok (emb ((List.range n).foldl step s)) := by
  rw [Std.Legacy.Range.forIn_eq_forIn_range']
  have e : (List.range' (([0:n] : Std.Legacy.Range)).start (([0:n] : Std.Legacy.Range)).size (([0:n] : Std.Legacy.Range)).step)
      = List.range' 0 n := by
    simp [Std.Legacy.Range.size]
  rw [e, List.range_eq_range']
  exact forIn_list_emb_inv emb step F P n 0 s h0 (fun i s _ h => hP i s (by omega))
    (fun i s _ h => hF i s (by omega))

/-- the translated loop state `(rk, k)` for the model's `((k0, k1, k2, k3), rk-so-far)` -/
def embK (st : Impl.SM4.Q × List UInt32) : Array UInt32 × Array UInt32 :=
  ((st.2 ++ List.replicate (32 - st.2.length) 0).toArray, embQ st.1)


theorem embQ_0 (a b c d : UInt32) : (embQ (a, b, c, d))[0]! = a := rfl
theorem embQ_1 (a b c d : UInt32) : (embQ (a, b, c, d))[1]! = b := rfl
theorem embQ_2 (a b c d : UInt32) : (embQ (a, b, c, d))[2]! = c := rfl
theorem embQ_3 (a b c d : UInt32) : (embQ (a, b, c, d))[3]! = d := rfl

theorem set4 (L : List UInt32) (m : Nat) (a b c d : UInt32) :
    ((((L ++ List.replicate (m + 4) 0).toArray.set! L.length a).set! (L.length + 1) b).set! (L.length + 2) c).set!
        (L.length + 3) d = ((L ++ [a, b, c, d]) ++ List.replicate m 0).toArray := by
  have e : List.replicate (m + 4) (0 : UInt32) = 0 :: 0 :: 0 :: 0 :: List.replicate m 0 := by
    simp [List.replicate_succ]
  rw [e, Proofs.SM3.set_fill]
  have h1 := Proofs.SM3.set_fill (0 : UInt32) b (L ++ [a]) (0 :: 0 :: List.replicate m 0)
  have h2 := Proofs.SM3.set_fill (0 : UInt32) c (L ++ [a, b]) (0 :: List.replicate m 0)
  have h3 := Proofs.SM3.set_fill (0 : UInt32) d (L ++ [a, b, c]) (List.replicate m 0)
  simp only [List.length_append, List.length_cons, List.length_nil, List.append_assoc, List.cons_append,
    List.nil_append, Nat.zero_add] at h1 h2 h3
  rw [h1, h2, h3]
  simp

theorem ks_len (n : Nat) (st : Impl.SM4.Q × List UInt32) :
    ((List.range n).foldl Impl.SM4.ksRound st).2.length = st.2.length + 4 * n := by
  induction n with
  | zero => simp
  | succ n ih =>
    rw [List.range_succ, List.foldl_append, List.foldl_cons, List.foldl_nil]
    generalize (List.range n).foldl Impl.SM4.ksRound st = r at ih ⊢
    obtain ⟨⟨k0, k1, k2, k3⟩, L⟩ := r
    simp [Impl.SM4.ksRound] at ih ⊢
    omega

theorem CKA_size' : Impl.SM4.CKA.size = 32 := CKA_size

theorem new_eq (k : List UInt8) :
    Gen.SrcSM4Mode.Sm4Cipher.new k.toArray = (Impl.SM4.new k).map (fun rk => ⟨rk⟩) := by
  unfold Gen.SrcSM4Mode.Sm4Cipher.new Impl.SM4.new
  by_cases hb : k.length = 16
  · obtain ⟨⟨w0, w1, w2, w3⟩, ⟨t0, t1, t2, t3⟩, e0, e1, e2, e3⟩ := words_eq k hb
    simp (disch := first | decide | simp [FK_eq, FKA_size]) only [List.size_toArray, hb, ne_eq, not_true_eq_false, if_false, pure_eq, ok_bind,
      w0, w1, w2, w3, t0, t1, t2, t3, e0, e1, e2, e3, get_ok]
    rw [FK_eq, CK_eq]
    have h0 : ((Array.replicate 32 (0 : UInt32),
        #[#[Impl.SM4.word k 0, Impl.SM4.word k 4, Impl.SM4.word k 8, Impl.SM4.word k 12][0]! ^^^ Impl.SM4.FKA[0]!,
          #[Impl.SM4.word k 0, Impl.SM4.word k 4, Impl.SM4.word k 8, Impl.SM4.word k 12][1]! ^^^ Impl.SM4.FKA[1]!,
          #[Impl.SM4.word k 0, Impl.SM4.word k 4, Impl.SM4.word k 8, Impl.SM4.word k 12][2]! ^^^ Impl.SM4.FKA[2]!,
          #[Impl.SM4.word k 0, Impl.SM4.word k 4, Impl.SM4.word k 8, Impl.SM4.word k 12][3]! ^^^ Impl.SM4.FKA[3]!]) :
          Array UInt32 × Array UInt32)
        = embK ((Impl.SM4.word k 0 ^^^ Impl.SM4.FKA[0]!, Impl.SM4.word k 4 ^^^ Impl.SM4.FKA[1]!,
                  Impl.SM4.word k 8 ^^^ Impl.SM4.FKA[2]!, Impl.SM4.word k 12 ^^^ Impl.SM4.FKA[3]!), []) := by
      simp [embK, embQ]
      rfl
    rw [h0, forIn_range_emb_inv embK Impl.SM4.ksRound _ (fun i st => st.2.length = 4 * i) 8 _ rfl]
    · have hl := ks_len 8 ((Impl.SM4.word k 0 ^^^ Impl.SM4.FKA[0]!, Impl.SM4.word k 4 ^^^ Impl.SM4.FKA[1]!,
                  Impl.SM4.word k 8 ^^^ Impl.SM4.FKA[2]!, Impl.SM4.word k 12 ^^^ Impl.SM4.FKA[3]!), [])
      generalize (List.range 8).foldl Impl.SM4.ksRound _ = r at hl ⊢
      simp only [ok_bind, outcome_map_ok, embK]
      simp at hl
      simp [hl]
    · intro i st hi hst
      obtain ⟨⟨k0, k1, k2, k3⟩, L⟩ := st
      simp [Impl.SM4.ksRound] at hst ⊢
      omega
    · intro i st hi hst
      obtain ⟨⟨x0, x1, x2, x3⟩, L⟩ := st
      simp only at hst
      simp only [embK]
      rw [stmt_ok _ _ t_prime_eq _ _ 0 1 2 3 (i * 4) (by simp [embQ_size]) (by simp [embQ_size]) (by simp [embQ_size])
        (by simp [embQ_size]) (by rw [CKA_size]; omega)]
      rw [stmt_ok _ _ t_prime_eq _ _ 1 2 3 0 (i * 4 + 1) (by simp [embQ_size, upd_size]) (by simp [embQ_size, upd_size])
        (by simp [embQ_size, upd_size]) (by simp [embQ_size, upd_size]) (by rw [CKA_size]; omega)]
      rw [stmt_ok _ _ t_prime_eq _ _ 2 3 0 1 (i * 4 + 2) (by simp [embQ_size, upd_size]) (by simp [embQ_size, upd_size])
        (by simp [embQ_size, upd_size]) (by simp [embQ_size, upd_size]) (by rw [CKA_size]; omega)]
      rw [stmt_ok _ _ t_prime_eq _ _ 3 0 1 2 (i * 4 + 3) (by simp [embQ_size, upd_size]) (by simp [embQ_size, upd_size])
        (by simp [embQ_size, upd_size]) (by simp [embQ_size, upd_size]) (by rw [CKA_size]; omega)]
      simp only [upd0, upd1, upd2, upd3]
      have hi4 : i * 4 = L.length := by omega
      have h32 : 32 - L.length = (32 - (L.length + 4)) + 4 := by omega
      simp only [hi4]
      simp (disch := first | omega | (simp [embQ]; done) | (simp; omega)) only [get_ok, set_ok, ok_bind, embQ_0, embQ_1, embQ_2, embQ_3]
      rw [h32, set4]
      simp [Impl.SM4.ksRound, hi4]
  · simp only [List.size_toArray, ne_eq, hb, not_false_eq_true, if_true]
    rfl
end GmVerif.Proofs.SrcSM4ModeBase
