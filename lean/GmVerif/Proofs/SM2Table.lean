/-
C11 (level L3), part 2c: soundness of the table checker (`Proofs.SM2TableCheck`): the cross-multiplied chord / tangent
identities imply `Spec.EC.add`, a checked row lists the multiples 1..255 of its first point, consecutive rows are linked
by a factor 256, hence entry (i, v) of the dumped table is the Montgomery form of [v·256^i]G.  Then `g_mul` is correct
for EVERY 256-bit scalar.
-/
import GmVerif.Proofs.SM2Scalar
import GmVerif.Proofs.SM2TableRows

namespace GmVerif.Proofs.SM2Table
open GmVerif
open GmVerif.Proofs.SM2TableCheck GmVerif.Proofs.SM2Curve GmVerif.Proofs.SM2CurveAlg GmVerif.Proofs.SM2Scalar

theorem cast_inj_of_lt {a b : ℕ} (ha : a < Spec.SM2.p) (hb : b < Spec.SM2.p) (h : (a : Fp) = (b : Fp)) : a = b := by
  have := congrArg ZMod.val h
  rwa [ZMod.val_cast_of_lt ha, ZMod.val_cast_of_lt hb] at this

/-- the cross-multiplied chord identities with x₁ ≠ x₂ give the sum of the specification -/
theorem chord_sound (x1 y1 x2 y2 x3 y3 : ℕ) (h1 : x1 < Spec.SM2.p) (h1' : y1 < Spec.SM2.p) (h2 : x2 < Spec.SM2.p)
    (h2' : y2 < Spec.SM2.p) (h3 : x3 < Spec.SM2.p) (h3' : y3 < Spec.SM2.p)
    (h : chordOK (x1, y1) (x2, y2) (x3, y3) = true) :
    Spec.EC.add Spec.SM2.curve (some (x1, y1)) (some (x2, y2)) = some (x3, y3) := by
  simp only [chordOK, Bool.and_eq_true, bne_iff_ne, ne_eq, beq_iff_eq] at h
  obtain ⟨⟨hne, e1⟩, e2⟩ := h
  have E1 := (ZMod.natCast_eq_natCast_iff' _ _ _).mpr e1
  have E2 := (ZMod.natCast_eq_natCast_iff' _ _ _).mpr e2
  simp only [Nat.cast_mul, Nat.cast_add, Nat.cast_sub (show x1 ≤ x2 + Spec.SM2.p by omega),
    Nat.cast_sub (show y1 ≤ y2 + Spec.SM2.p by omega), Nat.cast_sub (show x3 ≤ x1 + Spec.SM2.p by omega),
    ZMod.natCast_self, add_zero] at E1 E2
  have hX : (x1 : Fp) ≠ (x2 : Fp) := fun h => hne (cast_inj_of_lt h1 h2 h)
  have hd : (x2 : Fp) - (x1 : Fp) ≠ 0 := fun h => hX (sub_eq_zero.mp h).symm
  have key := spec_add_val (x1 : Fp) (y1 : Fp) (x2 : Fp) (y2 : Fp)
  rw [ZMod.val_cast_of_lt h1, ZMod.val_cast_of_lt h1', ZMod.val_cast_of_lt h2, ZMod.val_cast_of_lt h2'] at key
  rw [key, affAdd, if_neg hX]
  simp only [specPt, Option.map_some]
  have hl : (((y2 : Fp) - y1) / ((x2 : Fp) - x1)) * ((x2 : Fp) - x1) = (y2 : Fp) - y1 := div_mul_cancel₀ _ hd
  generalize ((y2 : Fp) - y1) / ((x2 : Fp) - x1) = l at hl ⊢
  have ex : l ^ 2 - x1 - x2 = (x3 : Fp) := by
    apply mul_left_cancel₀ (pow_ne_zero 2 hd)
    linear_combination (l * ((x2 : Fp) - x1) + ((y2 : Fp) - y1)) * hl - E1
  have ey : l * ((x1 : Fp) - x3) - y1 = (y3 : Fp) := by
    apply mul_left_cancel₀ hd
    linear_combination ((x1 : Fp) - x3) * hl - E2
  rw [ex, ey, ZMod.val_cast_of_lt h3, ZMod.val_cast_of_lt h3']

/-- the cross-multiplied tangent identities with 2·y₁ ≠ 0 give the double of the specification -/
theorem tangent_sound (x1 y1 x3 y3 : ℕ) (h1 : x1 < Spec.SM2.p) (h1' : y1 < Spec.SM2.p)
    (h3 : x3 < Spec.SM2.p) (h3' : y3 < Spec.SM2.p)
    (h : tangentOK (x1, y1) (x3, y3) = true) :
    Spec.EC.add Spec.SM2.curve (some (x1, y1)) (some (x1, y1)) = some (x3, y3) := by
  simp only [tangentOK, Bool.and_eq_true, bne_iff_ne, ne_eq, beq_iff_eq] at h
  obtain ⟨⟨hne, e1⟩, e2⟩ := h
  have E1 := (ZMod.natCast_eq_natCast_iff' _ _ _).mpr e1
  have E2 := (ZMod.natCast_eq_natCast_iff' _ _ _).mpr e2
  simp only [Nat.cast_mul, Nat.cast_add, Nat.cast_sub (show x3 ≤ x1 + Spec.SM2.p by omega),
    ZMod.natCast_self, add_zero, Nat.cast_ofNat] at E1 E2
  have h2y : (2 : Fp) * (y1 : Fp) ≠ 0 := by
    intro h0
    apply hne
    rw [mod_eq_zero_iff_cast]
    push_cast
    exact h0
  have hyy : ¬ ((y1 : Fp) + (y1 : Fp) = 0) := fun h0 => h2y (by linear_combination h0)
  have key := spec_add_val (x1 : Fp) (y1 : Fp) (x1 : Fp) (y1 : Fp)
  rw [ZMod.val_cast_of_lt h1, ZMod.val_cast_of_lt h1'] at key
  rw [key, affAdd, if_pos rfl, if_neg hyy]
  simp only [specPt, Option.map_some]
  have hl : ((3 * (x1 : Fp) ^ 2 + ca) / (2 * (y1 : Fp))) * (2 * (y1 : Fp)) = 3 * (x1 : Fp) ^ 2 + ca :=
    div_mul_cancel₀ _ h2y
  generalize (3 * (x1 : Fp) ^ 2 + ca) / (2 * (y1 : Fp)) = l at hl ⊢
  have ex : l ^ 2 - 2 * (x1 : Fp) = (x3 : Fp) := by
    apply mul_left_cancel₀ (pow_ne_zero 2 h2y)
    unfold ca at hl
    linear_combination (l * (2 * (y1 : Fp)) + (3 * (x1 : Fp) ^ 2 + (Spec.SM2.a : Fp))) * hl - E1
  have ey : l * ((x1 : Fp) - x3) - y1 = (y3 : Fp) := by
    apply mul_left_cancel₀ h2y
    unfold ca at hl
    linear_combination ((x1 : Fp) - x3) * hl - E2
  rw [ex, ey, ZMod.val_cast_of_lt h3, ZMod.val_cast_of_lt h3']


theorem chord_sound' (A B C : ℕ × ℕ) (hA : A.1 < Spec.SM2.p ∧ A.2 < Spec.SM2.p)
    (hB : B.1 < Spec.SM2.p ∧ B.2 < Spec.SM2.p) (hC : C.1 < Spec.SM2.p ∧ C.2 < Spec.SM2.p)
    (h : chordOK A B C = true) : Spec.EC.add Spec.SM2.curve (some A) (some B) = some C :=
  chord_sound A.1 A.2 B.1 B.2 C.1 C.2 hA.1 hA.2 hB.1 hB.2 hC.1 hC.2 h

theorem dpt_lt (x y : ℕ) : (dpt x y).1 < Spec.SM2.p ∧ (dpt x y).2 < Spec.SM2.p := ⟨mod_p_lt _, mod_p_lt _⟩
theorem pt_lt (row : List ℕ) (v : ℕ) : (pt row v).1 < Spec.SM2.p ∧ (pt row v).2 < Spec.SM2.p :=
  ⟨mod_p_lt _, mod_p_lt _⟩

/-! ### a checked row lists the multiples of its first point -/

theorem chain_sound (B : ℕ × ℕ) (hB : B.1 < Spec.SM2.p ∧ B.2 < Spec.SM2.p)
    (hBon : Spec.EC.onCurve Spec.SM2.curve (some B) = true) :
    ∀ (l : List ℕ) (A : ℕ × ℕ) (m : ℕ), A.1 < Spec.SM2.p ∧ A.2 < Spec.SM2.p →
      some A = Spec.EC.mul Spec.SM2.curve m (some B) → chain B A l = true →
      ∀ j, 2 * j + 1 < l.length →
        l[2 * j]! < Spec.SM2.p ∧ l[2 * j + 1]! < Spec.SM2.p
          ∧ some (dpt l[2 * j]! l[2 * j + 1]!) = Spec.EC.mul Spec.SM2.curve (m + 1 + j) (some B)
  | [], _, _, _, _, _, j, hj => by simp at hj
  | [_], _, _, _, _, _, j, hj => by simp at hj
  | x :: y :: rest, A, m, hA, hAm, h, j, hj => by
    simp only [chain, Bool.and_eq_true, decide_eq_true_eq] at h
    obtain ⟨⟨⟨hx, hy⟩, hch⟩, hrest⟩ := h
    have hC := chord_sound' A B (dpt x y) hA hB (dpt_lt x y) hch
    have hCm : some (dpt x y) = Spec.EC.mul Spec.SM2.curve (m + 1) (some B) := by
      rw [SpecEC.mul_add hc m 1 hBon, ← hAm, SpecEC.mul_one, ← hC]
    cases j with
    | zero => exact ⟨hx, hy, hCm⟩
    | succ j =>
      have ih := chain_sound B hB hBon rest (dpt x y) (m + 1) (dpt_lt x y) hCm hrest j
        (by simp only [List.length_cons] at hj; omega)
      have e1 : (x :: y :: rest)[2 * (j + 1)]! = rest[2 * j]! := rfl
      have e2 : (x :: y :: rest)[2 * (j + 1) + 1]! = rest[2 * j + 1]! := rfl
      rw [e1, e2]
      refine ⟨ih.1, ih.2.1, ?_⟩
      rw [ih.2.2]
      congr 1; omega

theorem row_sound (row : List ℕ) (h : rowOK row = true) :
    Spec.EC.onCurve Spec.SM2.curve (some (pt row 1)) = true ∧
    ∀ v, 1 ≤ v → 2 * v ≤ row.length →
      row[2 * v - 2]! < Spec.SM2.p ∧ row[2 * v - 1]! < Spec.SM2.p
        ∧ some (pt row v) = Spec.EC.mul Spec.SM2.curve v (some (pt row 1)) := by
  match row, h with
  | [], h => simp [rowOK] at h
  | [_], h => simp [rowOK] at h
  | [_, _], h => simp [rowOK] at h
  | [_, _, _], h => simp [rowOK] at h
  | x1 :: y1 :: x2 :: y2 :: rest, h =>
    simp only [rowOK, Bool.and_eq_true, decide_eq_true_eq] at h
    obtain ⟨⟨⟨⟨⟨⟨hx1, hy1⟩, hx2⟩, hy2⟩, hon⟩, htan⟩, hch⟩ := h
    have p1 : pt (x1 :: y1 :: x2 :: y2 :: rest) 1 = dpt x1 y1 := rfl
    rw [p1]
    refine ⟨hon, ?_⟩
    have h2 : some (dpt x2 y2) = Spec.EC.mul Spec.SM2.curve 2 (some (dpt x1 y1)) := by
      have ht := tangent_sound (dpt x1 y1).1 (dpt x1 y1).2 (dpt x2 y2).1 (dpt x2 y2).2 (dpt_lt x1 y1).1
        (dpt_lt x1 y1).2 (dpt_lt x2 y2).1 (dpt_lt x2 y2).2 htan
      rw [show (2 : ℕ) = 1 + 1 from rfl, SpecEC.mul_add hc 1 1 hon, SpecEC.mul_one]
      exact ht.symm
    intro v hv1 hv2
    match v, hv1, hv2 with
    | 1, _, _ => exact ⟨hx1, hy1, by rw [SpecEC.mul_one]; rfl⟩
    | 2, _, _ => exact ⟨hx2, hy2, h2⟩
    | j + 3, _, hv2 =>
      have ih := chain_sound (dpt x1 y1) (dpt_lt x1 y1) hon rest (dpt x2 y2) 2 (dpt_lt x2 y2) h2 hch j
        (by simp only [List.length_cons] at hv2; omega)
      have e1 : (x1 :: y1 :: x2 :: y2 :: rest)[2 * (j + 3) - 2]! = rest[2 * j]! := by
        rw [show 2 * (j + 3) - 2 = 2 * j + 1 + 1 + 1 + 1 by omega]; rfl
      have e2 : (x1 :: y1 :: x2 :: y2 :: rest)[2 * (j + 3) - 1]! = rest[2 * j + 1]! := by
        rw [show 2 * (j + 3) - 1 = 2 * j + 1 + 1 + 1 + 1 + 1 by omega]; rfl
      have e3 : pt (x1 :: y1 :: x2 :: y2 :: rest) (j + 3) = dpt rest[2 * j]! rest[2 * j + 1]! := by
        unfold pt dpt; rw [e1, e2]
      rw [e1, e2, e3]
      refine ⟨ih.1, ih.2.1, ?_⟩
      rw [ih.2.2]
      congr 1; omega

/-! ### all rows -/

open GmVerif.Gen.SM2Table (rows)
open GmVerif.Proofs.SM2TableRows

theorem rows_len (i : ℕ) (hi : i < 32) : (rows[i]!).length = 510 := by
  have h := rows_len_all
  rw [List.all_eq_true] at h
  have hi' : i < rows.length := by rw [rows_length]; exact hi
  have := h (rows[i]!) (by rw [getElem!_pos rows i hi']; exact List.getElem_mem hi')
  simpa using this

theorem G_onCurve : Spec.EC.onCurve Spec.SM2.curve Spec.SM2.G = true := SM2Algebra.sm2_G_onCurve

/-- the first point of row i is [256^i]G -/
theorem first_point : ∀ i, i < 32 → some (pt (rows[i]!) 1) = Spec.EC.mul Spec.SM2.curve (256 ^ i) Spec.SM2.G := by
  intro i
  induction i with
  | zero =>
    intro _
    rw [show rows[0]! = Gen.SM2Table.row0 from rfl, first_is_G, Nat.pow_zero, SpecEC.mul_one]; rfl
  | succ i ih =>
    intro hi
    have ih := ih (by omega)
    obtain ⟨hon, hrow⟩ := row_sound (rows[i]!) (rows_ok i (by omega))
    have h255 := (hrow 255 (by decide) (by rw [rows_len i (by omega)])).2.2
    have hl := chord_sound' _ _ _ (pt_lt _ _) (pt_lt _ _) (pt_lt _ _) (links_ok i (by omega))
    rw [← hl, h255]
    have : Spec.EC.add Spec.SM2.curve (Spec.EC.mul Spec.SM2.curve 255 (some (pt rows[i]! 1))) (some (pt rows[i]! 1))
        = Spec.EC.mul Spec.SM2.curve 256 (some (pt rows[i]! 1)) := by
      rw [show (256 : ℕ) = 255 + 1 from rfl, SpecEC.mul_add hc 255 1 hon, SpecEC.mul_one]
    rw [this, ih, SpecEC.mul_mul hc 256 (256 ^ i) G_onCurve, Nat.pow_succ, Nat.mul_comm]

/-- entry (i, v) of the dumped rows: canonical, and decodes to [v·256^i]G -/
theorem rows_entry (i : ℕ) (hi : i < 32) (v : ℕ) (h1 : 1 ≤ v) (h2 : v ≤ 255) :
    (rows[i]!)[2 * v - 2]! < Spec.SM2.p ∧ (rows[i]!)[2 * v - 1]! < Spec.SM2.p
      ∧ some (pt (rows[i]!) v) = Spec.EC.mul Spec.SM2.curve (v * 256 ^ i) Spec.SM2.G := by
  obtain ⟨_, hrow⟩ := row_sound (rows[i]!) (rows_ok i hi)
  obtain ⟨a, b, c⟩ := hrow v h1 (by rw [rows_len i hi]; omega)
  refine ⟨a, b, ?_⟩
  rw [c, first_point i hi, SpecEC.mul_mul hc v (256 ^ i) G_onCurve]


/-! ### the table of the model -/

theorem TABLE_get (i : ℕ) (hi : i < 32) (j : ℕ) : (Impl.SM2.TABLE[i]!)[j]! = (rows[i]!)[j]! := by
  have hi' : i < rows.length := by rw [rows_length]; exact hi
  have e : Impl.SM2.TABLE[i]! = (rows[i]!).toArray := by
    unfold Impl.SM2.TABLE
    rw [List.getElem!_toArray, getElem!_pos (rows.map List.toArray) i (by rw [List.length_map]; exact hi'),
      List.getElem_map, getElem!_pos rows i hi']
  rw [e, List.getElem!_toArray]

theorem Rinv_eq : Rinv = SM2Field.RinvP := rfl

/-- re-encoding a decoded canonical entry gives the entry back -/
theorem reencode (t : ℕ) (ht : t < Spec.SM2.p) : (t * Rinv % Spec.SM2.p) * 2 ^ 256 % Spec.SM2.p = t := by
  rw [Rinv_eq, ← SM2Field.P_eq] at *
  rw [Nat.mod_mul_mod, Nat.mul_assoc, Nat.mul_comm SM2Field.RinvP, Nat.mul_mod, SM2Field.RinvP_spec, ← Nat.mul_mod,
    Nat.mul_one, Nat.mod_eq_of_lt ht]

theorem table_correct : ∀ i, i < 32 → ∀ v, 1 ≤ v → v ≤ 255 →
    ∃ x y, Spec.EC.mul Spec.SM2.curve (v * 256 ^ i) Spec.SM2.G = some (x, y) ∧
      (Impl.SM2.TABLE[i]!)[2 * v - 2]! = (x * 2 ^ 256) % Spec.SM2.p
      ∧ (Impl.SM2.TABLE[i]!)[2 * v - 1]! = (y * 2 ^ 256) % Spec.SM2.p := by
  intro i hi v h1 h2
  obtain ⟨a, b, c⟩ := rows_entry i hi v h1 h2
  refine ⟨(pt (rows[i]!) v).1, (pt (rows[i]!) v).2, c.symm, ?_, ?_⟩
  · rw [TABLE_get i hi]; exact (reencode _ a).symm
  · rw [TABLE_get i hi]; exact (reencode _ b).symm


/-! ### `g_mul` -/

/-- an affine point of the curve in Montgomery form with Z = 1 is a valid representation of itself -/
theorem to_jacobi_good (X Y : ℕ) (h : Spec.EC.onCurve Spec.SM2.curve (some (X, Y)) = true) :
    Valid (Impl.SM2.to_jacobi (X * 2 ^ 256 % Spec.SM2.p) (Y * 2 ^ 256 % Spec.SM2.p))
      ∧ toSpec (Impl.SM2.to_jacobi (X * 2 ^ 256 % Spec.SM2.p) (Y * 2 ^ 256 % Spec.SM2.p)) = some (X, Y) := by
  have hX : X < Spec.SM2.p := by
    simp only [Spec.EC.onCurve, Spec.SM2.curve, Bool.and_eq_true] at h; exact of_decide_eq_true h.1.1
  have hY : Y < Spec.SM2.p := by
    simp only [Spec.EC.onCurve, Spec.SM2.curve, Bool.and_eq_true] at h; exact of_decide_eq_true h.1.2
  have e : Impl.SM2.to_jacobi (X * 2 ^ 256 % Spec.SM2.p) (Y * 2 ^ 256 % Spec.SM2.p) = mk (X : Fp) (Y : Fp) 1 := by
    unfold Impl.SM2.to_jacobi mk
    rw [mont_one_eq field_facts,
      eq_enc_of_cast (v := (X : Fp)) (mod_p_lt (X * 2 ^ 256)) (by rw [ZMod.natCast_mod, cast_mul_R]),
      eq_enc_of_cast (v := (Y : Fp)) (mod_p_lt (Y * 2 ^ 256)) (by rw [ZMod.natCast_mod, cast_mul_R])]
  rw [e, valid_mk_one_iff, toSpec_mk_one, ← onCurve_val, ZMod.val_cast_of_lt hX, ZMod.val_cast_of_lt hY]
  exact ⟨h, rfl⟩

/-- the loop body of `g_mul` -/
def gStep (k : ℕ) (r : Impl.SM2.Point) (i : ℕ) : Impl.SM2.Point :=
  let v := k / 256 ^ i % 256
  if v ≠ 0 then r.point_add (Impl.SM2.to_jacobi (Impl.SM2.TABLE[i]!)[v * 2 - 2]! (Impl.SM2.TABLE[i]!)[v * 2 - 1]!)
  else r

theorem g_mul_eq (k : ℕ) : Impl.SM2.g_mul k = (List.range 32).foldl (gStep k) Impl.SM2.Point.zero := rfl

theorem table_entry_good (i : ℕ) (hi : i < 32) (v : ℕ) (h1 : 1 ≤ v) (h2 : v ≤ 255) :
    Good Spec.SM2.G (v * 256 ^ i)
      (Impl.SM2.to_jacobi (Impl.SM2.TABLE[i]!)[v * 2 - 2]! (Impl.SM2.TABLE[i]!)[v * 2 - 1]!) := by
  obtain ⟨x, y, hm, hx, hy⟩ := table_correct i hi v h1 h2
  rw [Nat.mul_comm v 2, hx, hy]
  have hon : Spec.EC.onCurve Spec.SM2.curve (some (x, y)) = true := by
    rw [← hm]; exact SpecEC.onCurve_mul hc _ G_onCurve
  obtain ⟨a, b⟩ := to_jacobi_good x y hon
  exact ⟨a, b.trans hm.symm⟩

theorem g_loop (k : ℕ) : ∀ i, i ≤ 32 →
    Good Spec.SM2.G (k % 256 ^ i) ((List.range i).foldl (gStep k) Impl.SM2.Point.zero) := by
  intro i
  induction i with
  | zero =>
    intro _
    simp only [List.range_zero, List.foldl_nil]
    exact (good_zero _).cast (by rw [Nat.pow_zero, Nat.mod_one])
  | succ i ih =>
    intro hi
    have ih := ih (by omega)
    rw [List.range_succ, List.foldl_append]
    simp only [List.foldl_cons, List.foldl_nil]
    generalize (List.range i).foldl (gStep k) Impl.SM2.Point.zero = r at ih ⊢
    have hs : k % 256 ^ (i + 1) = k % 256 ^ i + (k / 256 ^ i % 256) * 256 ^ i := by
      rw [Nat.mod_pow_succ, Nat.mul_comm]
    have hv : k / 256 ^ i % 256 < 256 := Nat.mod_lt _ (by decide)
    unfold gStep
    simp only []
    generalize k / 256 ^ i % 256 = v at hs hv ⊢
    by_cases hv0 : v = 0
    · rw [if_neg (not_not.mpr hv0)]
      exact ih.cast (by rw [hs, hv0]; omega)
    · rw [if_pos hv0]
      exact (good_add G_onCurve ih (table_entry_good i (by omega) v (by omega) (by omega))).cast hs.symm

theorem g_mul_good (k : ℕ) (hk : k < 2 ^ 256) : Good Spec.SM2.G k (Impl.SM2.g_mul k) := by
  rw [g_mul_eq]
  exact (g_loop k 32 (le_refl _)).cast
    (Nat.mod_eq_of_lt (by have : (256 : ℕ) ^ 32 = 2 ^ 256 := by decide
                          omega))

end GmVerif.Proofs.SM2Table
