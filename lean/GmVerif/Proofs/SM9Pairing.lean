/-
Component facts for the SM9 R-ate pairing of the gm-sm9 model (property C12, the provable parts):

* A. the signed-digit string `abits` of `sm9_u256_pairing` encodes the Miller-loop parameter 6t+2 of the specification;
* B. `final_exponent` / `final_exponent_hard_part` are instances of one generic straight-line program `finalProg` /
     `hardProg` over an abstract operation table `Ops` (proved by `rfl`), so that the SAME program can be run on
     exponents;
* C. run on integer exponents (`expOps`), the program yields exactly (p¹²−1)/N = `Spec.SM9.finalExp` (so the constant
     c of "computes a fixed power of the pairing" is 1), the easy part (p⁶−1)(p²+1), the hard part (p⁴−p²+1)/N;
     the exponent interpretation is sound in every commutative group (`finalProg_sound`);
     the hard-part identity holds for EVERY BN parameter t (polynomial identity, `ring`);
* D. the chain constants: a3 = 6t+5, a2 = 6t²+1, nine = 9;
* E. the Frobenius constants: MONT_ALPHAk = (−2)^(k(p−1)/12)·2²⁵⁶ mod p, BETA = ALPHA3, −2 is a quadratic non-residue.

The evaluation of the p-power Frobenius on the tower basis is in `GmVerif.Proofs.SM9Frobenius` (separate files: slow).
-/
import Mathlib.Tactic.Ring
import GmVerif.Proofs.Primes
import GmVerif.Impl.SM9.Points
import GmVerif.Spec.SM9
namespace GmVerif.Proofs.SM9Pairing
open GmVerif

/-! ## A. the loop string -/

/-- the digit a character of `abits` stands for, with the SAME case distinction as the loop body of `sm9_u256_pairing`
(`if ch = '1' … else if ch = '2' … else` nothing): '1' ↦ +1 (add Q), '2' ↦ −1 (add −Q), anything else ↦ 0 -/
def digit (c : Char) : Int := if c = '1' then 1 else if c = '2' then -1 else 0

/-- Horner evaluation MSB-first from the start value `v0`: every character first doubles (the loop squares `r` and
doubles `t` unconditionally for EVERY character, including the first), then adds its digit -/
def signedHorner (s : List Char) (v0 : Int) : Int := s.foldl (fun v c => 2 * v + digit c) v0

/-- Horner evaluation of a bit list from `v0` (the loop of the specification) -/
def bitHorner (s : List Bool) (v0 : Nat) : Nat := s.foldl (fun v b => 2 * v + (if b then 1 else 0)) v0

/-- the model starts from `(r, t) = (1, Q)`, i.e. from the scalar 1, and then processes ALL 65 characters: there is an
implicit leading digit 1 of weight 2^65 in front of the string, and the value is exactly 6t+2 -/
theorem abits_value : signedHorner Impl.SM9.abits.toList 1 = ((6 * Spec.SM9.t + 2 : Nat) : Int) := by
  decide +kernel

theorem abits_length : Impl.SM9.abits.toList.length = 65 := by decide +kernel

theorem abits_alphabet : Impl.SM9.abits.toList.all (fun c => c = '0' ∨ c = '1' ∨ c = '2') = true := by
  decide +kernel

/-- as a sum: 2^65 + Σᵢ dᵢ·2^(64−i) over the 65 characters -/
theorem abits_sum :
    (2 : Int) ^ 65 + ((List.range 65).map fun i => digit (Impl.SM9.abits.toList.getD i '0') * 2 ^ (64 - i)).sum
      = ((6 * Spec.SM9.t + 2 : Nat) : Int) := by
  decide +kernel

/-- the specification's loop: the bits of 6t+2 without the leading one, from the same start value 1; same number (65)
of doubling steps -/
theorem spec_loop_value :
    bitHorner ((Spec.SM9.bitsMSB Spec.SM9.ateLoop).drop 1) 1 = Spec.SM9.ateLoop
      ∧ ((Spec.SM9.bitsMSB Spec.SM9.ateLoop).drop 1).length = 65
      ∧ (Spec.SM9.bitsMSB Spec.SM9.ateLoop).head? = some true := by
  decide +kernel

/-- number of addition steps: 15 in the binary loop of the specification, 10 with the signed digits of the model -/
theorem loop_additions :
    ((Spec.SM9.bitsMSB Spec.SM9.ateLoop).drop 1).count true = 15
      ∧ (Impl.SM9.abits.toList.filter fun c => c = '1' ∨ c = '2').length = 10 := by
  decide +kernel

/-- what the value means: if a register is driven like `t` in the loop (doubled for every character, then `Q` added for
'1' and `−Q` for '2') and `mulQ k` denotes `[k]Q` with the three laws below, the loop started at `[v0]Q` ends at
`[signedHorner s v0]Q`; with `abits` and `v0 = 1` that is `[6t+2]Q` -/
theorem loop_scalar {α : Type} (dbl : α → α) (add : α → α → α) (mulQ : Int → α)
    (hdbl : ∀ k, dbl (mulQ k) = mulQ (2 * k))
    (hadd : ∀ k, add (mulQ k) (mulQ 1) = mulQ (k + 1))
    (hsub : ∀ k, add (mulQ k) (mulQ (-1)) = mulQ (k - 1))
    (s : List Char) (v0 : Int) :
    s.foldl (fun T ch =>
        let T := dbl T
        if ch = '1' then add T (mulQ 1) else if ch = '2' then add T (mulQ (-1)) else T) (mulQ v0)
      = mulQ (signedHorner s v0) := by
  induction s generalizing v0 with
  | nil => rfl
  | cons c s ih =>
    simp only [List.foldl_cons, signedHorner] at ih ⊢
    have step : (if c = '1' then add (dbl (mulQ v0)) (mulQ 1)
        else if c = '2' then add (dbl (mulQ v0)) (mulQ (-1)) else dbl (mulQ v0)) = mulQ (2 * v0 + digit c) := by
      unfold digit
      by_cases h1 : c = '1'
      · simp only [h1, if_true, hdbl, hadd]
      · by_cases h2 : c = '2'
        · simp only [h2, if_true, hdbl, hsub]
          congr 1
        · simp only [h1, h2, if_false, hdbl]
          congr 1
          omega
    rw [step]
    exact ih _

/-! ## B. the addition chain as a generic straight-line program -/

/-- operation table: the eight Fp12 operations used by `final_exponent` and `final_exponent_hard_part` -/
structure Ops (α : Type) where
  mul : α → α → α
  sqr : α → α
  pow : α → Nat → α
  inv : α → α
  frob : α → α
  frob2 : α → α
  frob3 : α → α
  frob6 : α → α

/-- `final_exponent_hard_part`, line by line (constants `a3`, `nine`, `a2` as parameters) -/
def hardProg {α : Type} (o : Ops α) (a3 nine a2 : Nat) (x : α) : α :=
  let t0 := o.pow x a3
  let t0 := o.inv t0
  let t1 := o.frob t0
  let t1 := o.mul t0 t1
  let t0 := o.mul t0 t1
  let t2 := o.frob x
  let t3 := o.mul t2 x
  let t3 := o.pow t3 nine
  let t0 := o.mul t0 t3
  let t3 := o.sqr x
  let t3 := o.sqr t3
  let t0 := o.mul t0 t3
  let t2 := o.sqr t2
  let t2 := o.mul t2 t1
  let t1 := o.frob2 x
  let t1 := o.mul t1 t2
  let t2 := o.pow t1 a2
  let t0 := o.mul t2 t0
  let t1 := o.frob3 x
  let t1 := o.mul t1 t0
  t1

/-- the first five lines of `final_exponent` (the "easy part") -/
def easyProg {α : Type} (o : Ops α) (x : α) : α :=
  let t0 := o.frob6 x
  let t1 := o.inv x
  let t0 := o.mul t0 t1
  let t1 := o.frob2 t0
  let t0 := o.mul t0 t1
  t0

/-- `final_exponent`, line by line -/
def finalProg {α : Type} (o : Ops α) (a3 nine a2 : Nat) (x : α) : α :=
  let t0 := o.frob6 x
  let t1 := o.inv x
  let t0 := o.mul t0 t1
  let t1 := o.frob2 t0
  let t0 := o.mul t0 t1
  hardProg o a3 nine a2 t0

theorem finalProg_eq {α : Type} (o : Ops α) (a3 nine a2 : Nat) (x : α) :
    finalProg o a3 nine a2 x = hardProg o a3 nine a2 (easyProg o x) := rfl

/-- the operations of the model -/
def fp12Ops : Ops Impl.SM9.Fp12 where
  mul := Impl.SM9.Fp12.fp_mul
  sqr := Impl.SM9.Fp12.fp_sqr
  pow := Impl.SM9.Fp12.pow_loop
  inv := Impl.SM9.Fp12.fp_inv
  frob := Impl.SM9.Fp12.fp12_frobenius
  frob2 := Impl.SM9.Fp12.fp12_frobenius2
  frob3 := Impl.SM9.Fp12.fp12_frobenius3
  frob6 := Impl.SM9.Fp12.fp12_frobenius6

/-- the model's functions ARE the generic programs at the model's operations and constants (definitional unfolding) -/
theorem hard_part_is_prog (x : Impl.SM9.Fp12) :
    x.final_exponent_hard_part = hardProg fp12Ops Impl.SM9.Fp12.hard_a3 Impl.SM9.Fp12.hard_nine Impl.SM9.Fp12.hard_a2 x := by
  simp only [Impl.SM9.Fp12.final_exponent_hard_part, hardProg, fp12Ops]

theorem final_exponent_is_prog (x : Impl.SM9.Fp12) :
    x.final_exponent = finalProg fp12Ops Impl.SM9.Fp12.hard_a3 Impl.SM9.Fp12.hard_nine Impl.SM9.Fp12.hard_a2 x := by
  simp only [Impl.SM9.Fp12.final_exponent, finalProg, hard_part_is_prog, fp12Ops]

/-- the split of `final_exponent`: its first five lines are `easyProg`, the rest is `final_exponent_hard_part` -/
theorem final_exponent_split (x : Impl.SM9.Fp12) :
    x.final_exponent = (easyProg fp12Ops x).final_exponent_hard_part := by
  simp only [Impl.SM9.Fp12.final_exponent, easyProg, fp12Ops]

/-- `pow_loop` is what `pow` returns for the three constants (the `assert!` of `pow` holds) -/
theorem pow_consts_ok (x : Impl.SM9.Fp12) :
    x.pow Impl.SM9.Fp12.hard_a3 = .ok (x.pow_loop Impl.SM9.Fp12.hard_a3)
      ∧ x.pow Impl.SM9.Fp12.hard_nine = .ok (x.pow_loop Impl.SM9.Fp12.hard_nine)
      ∧ x.pow Impl.SM9.Fp12.hard_a2 = .ok (x.pow_loop Impl.SM9.Fp12.hard_a2) := by
  refine ⟨?_, ?_, ?_⟩ <;>
  · unfold Impl.SM9.Fp12.pow
    rw [if_pos (by decide +kernel)]

/-! ## C. exponent tracking -/

/-- the exponent interpretation: a value g^e is represented by e; the p^k-power Frobenius multiplies by q^k -/
def expOps (q : Int) : Ops Int where
  mul := fun a b => a + b
  sqr := fun a => 2 * a
  pow := fun a k => a * (k : Int)
  inv := fun a => -a
  frob := fun a => a * q
  frob2 := fun a => a * q ^ 2
  frob3 := fun a => a * q ^ 3
  frob6 := fun a => a * q ^ 6

/-- the group interpretation in a commutative group in which the p^k-power Frobenius is x ↦ x^(q^k) (as it is in Fp12ˣ) -/
def groupOps (G : Type) [CommGroup G] (q : Nat) : Ops G where
  mul := fun a b => a * b
  sqr := fun a => a * a
  pow := fun a k => a ^ k
  inv := fun a => a⁻¹
  frob := fun a => a ^ q
  frob2 := fun a => a ^ (q ^ 2)
  frob3 := fun a => a ^ (q ^ 3)
  frob6 := fun a => a ^ (q ^ 6)

theorem easyProg_sound (G : Type) [CommGroup G] (q : Nat) (g : G) (e : Int) :
    easyProg (groupOps G q) (g ^ e) = g ^ (easyProg (expOps q) e) := by
  simp only [easyProg, groupOps, expOps, ← zpow_natCast, ← zpow_mul, ← zpow_add, ← zpow_neg, Nat.cast_pow]

theorem hardProg_sound (G : Type) [CommGroup G] (q a3 nine a2 : Nat) (g : G) (e : Int) :
    hardProg (groupOps G q) a3 nine a2 (g ^ e) = g ^ (hardProg (expOps q) a3 nine a2 e) := by
  simp only [hardProg, groupOps, expOps, ← zpow_natCast, ← zpow_mul, ← zpow_add, ← zpow_neg]
  congr 1
  push_cast
  ring

/-- soundness of exponent tracking: in every commutative group the program maps g^e to g^(tracked exponent) -/
theorem finalProg_sound (G : Type) [CommGroup G] (q a3 nine a2 : Nat) (g : G) (e : Int) :
    finalProg (groupOps G q) a3 nine a2 (g ^ e) = g ^ (finalProg (expOps q) a3 nine a2 e) := by
  rw [finalProg_eq, finalProg_eq, easyProg_sound, hardProg_sound]

/-- the easy part multiplies the exponent by (q⁶ − 1)(q² + 1), for every q -/
theorem easy_exponent (q e : Int) : easyProg (expOps q) e = e * ((q ^ 6 - 1) * (q ^ 2 + 1)) := by
  simp only [easyProg, expOps]
  ring

/-- the hard part multiplies the exponent by λ₃q³ + λ₂q² + λ₁q + λ₀ with
λ₃ = 1, λ₂ = a2, λ₁ = a2·(2 − a3) − a3 + nine, λ₀ = −a2·a3 − 2·a3 + nine + 4 -/
theorem hard_exponent_lambda (q e : Int) (a3 nine a2 : Nat) :
    hardProg (expOps q) a3 nine a2 e
      = e * (q ^ 3 + (a2 : Int) * q ^ 2 + ((a2 : Int) * (2 - a3) - a3 + nine) * q
              + (-(a2 : Int) * a3 - 2 * a3 + nine + 4)) := by
  simp only [hardProg, expOps]
  ring

/-- the exponent computed by the hard part on the literal integers: EXACTLY (p⁴ − p² + 1)/N (an equality of integers,
not only a congruence), and N divides p⁴ − p² + 1 -/
theorem hard_exponent_exact :
    hardProg (expOps (Spec.SM9.p : Nat)) Impl.SM9.Fp12.hard_a3 Impl.SM9.Fp12.hard_nine Impl.SM9.Fp12.hard_a2 1
        = (((Spec.SM9.p ^ 4 - Spec.SM9.p ^ 2 + 1) / Spec.SM9.N : Nat) : Int)
      ∧ (Spec.SM9.p ^ 4 - Spec.SM9.p ^ 2 + 1) % Spec.SM9.N = 0 := by
  decide +kernel

/-- the easy part on the literal integers -/
theorem easy_exponent_exact :
    easyProg (expOps (Spec.SM9.p : Nat)) 1 = (((Spec.SM9.p ^ 6 - 1) * (Spec.SM9.p ^ 2 + 1) : Nat) : Int)
      ∧ (Spec.SM9.p ^ 6 - 1) * (Spec.SM9.p ^ 2 + 1) * (Spec.SM9.p ^ 4 - Spec.SM9.p ^ 2 + 1) = Spec.SM9.p ^ 12 - 1 := by
  decide +kernel

/-- the exponent computed by `final_exponent` on the literal integers: EXACTLY `Spec.SM9.finalExp` = (p¹² − 1)/N -/
theorem final_exponent_exact :
    finalProg (expOps (Spec.SM9.p : Nat)) Impl.SM9.Fp12.hard_a3 Impl.SM9.Fp12.hard_nine Impl.SM9.Fp12.hard_a2 1 = (Spec.SM9.finalExp : Int) := by
  decide +kernel

theorem finalExp_facts :
    Spec.SM9.finalExp * Spec.SM9.N = Spec.SM9.p ^ 12 - 1 ∧ Spec.SM9.finalExp < Spec.SM9.p ^ 12 - 1
      ∧ Spec.SM9.finalExp
          = (Spec.SM9.p ^ 6 - 1) * (Spec.SM9.p ^ 2 + 1) * ((Spec.SM9.p ^ 4 - Spec.SM9.p ^ 2 + 1) / Spec.SM9.N) := by
  decide +kernel

/-- in every commutative group with Frobenius = p-power, the program of `final_exponent` raises to (p¹² − 1)/N -/
theorem finalProg_group (G : Type) [CommGroup G] (g : G) :
    finalProg (groupOps G Spec.SM9.p) Impl.SM9.Fp12.hard_a3 Impl.SM9.Fp12.hard_nine Impl.SM9.Fp12.hard_a2 g = g ^ Spec.SM9.finalExp := by
  have h := finalProg_sound G Spec.SM9.p Impl.SM9.Fp12.hard_a3 Impl.SM9.Fp12.hard_nine Impl.SM9.Fp12.hard_a2 g 1
  rw [zpow_one, final_exponent_exact, zpow_natCast] at h
  exact h

/-! ### the hard-part identity for every BN parameter -/

/-- the BN polynomials p(t), N(t) -/
def bnP (t : Int) : Int := 36 * t ^ 4 + 36 * t ^ 3 + 24 * t ^ 2 + 6 * t + 1
def bnN (t : Int) : Int := 36 * t ^ 4 + 36 * t ^ 3 + 18 * t ^ 2 + 6 * t + 1

/-- with a3 = 6t+5, nine = 9, a2 = 6t²+1 the chain computes the Devegili–Scott–Dahab decomposition
(p⁴−p²+1)/N = p³ + (6t²+1)p² − (36t³+18t²+12t−1)p − (36t³+30t²+18t+2), for EVERY t -/
theorem hard_exponent_bn (t : Nat) (e : Int) :
    hardProg (expOps (bnP t)) (6 * t + 5) 9 (6 * t ^ 2 + 1) e
        = e * (bnP t ^ 3 + (6 * (t : Int) ^ 2 + 1) * bnP t ^ 2 - (36 * (t : Int) ^ 3 + 18 * t ^ 2 + 12 * t - 1) * bnP t
                - (36 * (t : Int) ^ 3 + 30 * t ^ 2 + 18 * t + 2))
      ∧ hardProg (expOps (bnP t)) (6 * t + 5) 9 (6 * t ^ 2 + 1) e * bnN t = e * (bnP t ^ 4 - bnP t ^ 2 + 1) := by
  constructor
  · rw [hard_exponent_lambda]
    simp only [bnP]
    push_cast
    ring
  · rw [hard_exponent_lambda]
    simp only [bnP, bnN]
    push_cast
    ring

/-! ## D. the constants of the chain -/

theorem chain_constants :
    Impl.SM9.Fp12.hard_a3 = 6 * Spec.SM9.t + 5
      ∧ Impl.SM9.Fp12.hard_a2 = 6 * Spec.SM9.t ^ 2 + 1
      ∧ Impl.SM9.Fp12.hard_nine = 9
      ∧ Impl.SM9.Fp12.hard_a3 = 0x2400000000215d941
      ∧ Impl.SM9.Fp12.hard_a2 = 0xd8000000019062ed0000b98b0cb27659
      ∧ Spec.SM9.p = 36 * Spec.SM9.t ^ 4 + 36 * Spec.SM9.t ^ 3 + 24 * Spec.SM9.t ^ 2 + 6 * Spec.SM9.t + 1
      ∧ Spec.SM9.N = 36 * Spec.SM9.t ^ 4 + 36 * Spec.SM9.t ^ 3 + 18 * Spec.SM9.t ^ 2 + 6 * Spec.SM9.t + 1 := by
  decide +kernel

/-- hence the literal-integer instance is the t-instance of `hard_exponent_bn` -/
theorem bn_instance : bnP (Spec.SM9.t : Nat) = (Spec.SM9.p : Nat) ∧ bnN (Spec.SM9.t : Nat) = (Spec.SM9.N : Nat) := by
  decide +kernel

/-! ## E. the Frobenius constants -/

open Gen.SM9 in
/-- with α = (−2)^((p−1)/12) mod p (−2 ≡ p−2), the k-th constant is α^k in Montgomery form (·2²⁵⁶ mod p), k = 1..5;
BETA = (ALPHA3, 0); α⁶ = (−2)^((p−1)/2) = −1, i.e. −2 is a quadratic non-residue (so u² = −2 defines Fp2 and
conjugation is the p-power map on Fp2) -/
theorem frobenius_constants_powMod :
    Spec.SM9.p % 12 = 1
      ∧ MONT_ALPHA1 = Spec.EC.powMod (Spec.SM9.p - 2) (1 * ((Spec.SM9.p - 1) / 12)) Spec.SM9.p * 2 ^ 256 % Spec.SM9.p
      ∧ MONT_ALPHA2 = Spec.EC.powMod (Spec.SM9.p - 2) (2 * ((Spec.SM9.p - 1) / 12)) Spec.SM9.p * 2 ^ 256 % Spec.SM9.p
      ∧ MONT_ALPHA3 = Spec.EC.powMod (Spec.SM9.p - 2) (3 * ((Spec.SM9.p - 1) / 12)) Spec.SM9.p * 2 ^ 256 % Spec.SM9.p
      ∧ MONT_ALPHA4 = Spec.EC.powMod (Spec.SM9.p - 2) (4 * ((Spec.SM9.p - 1) / 12)) Spec.SM9.p * 2 ^ 256 % Spec.SM9.p
      ∧ MONT_ALPHA5 = Spec.EC.powMod (Spec.SM9.p - 2) (5 * ((Spec.SM9.p - 1) / 12)) Spec.SM9.p * 2 ^ 256 % Spec.SM9.p
      ∧ Impl.SM9.MONT_BETA = ⟨MONT_ALPHA3, 0⟩
      ∧ Spec.EC.powMod (Spec.SM9.p - 2) (6 * ((Spec.SM9.p - 1) / 12)) Spec.SM9.p = Spec.SM9.p - 1
      ∧ MODP_MONT_ONE = 2 ^ 256 % Spec.SM9.p
      ∧ P = Spec.SM9.p := by
  decide +kernel

open Gen.SM9 in
theorem frobenius_constants :
    Spec.SM9.p % 12 = 1
      ∧ MONT_ALPHA1 = (Spec.SM9.p - 2) ^ (1 * ((Spec.SM9.p - 1) / 12)) % Spec.SM9.p * 2 ^ 256 % Spec.SM9.p
      ∧ MONT_ALPHA2 = (Spec.SM9.p - 2) ^ (2 * ((Spec.SM9.p - 1) / 12)) % Spec.SM9.p * 2 ^ 256 % Spec.SM9.p
      ∧ MONT_ALPHA3 = (Spec.SM9.p - 2) ^ (3 * ((Spec.SM9.p - 1) / 12)) % Spec.SM9.p * 2 ^ 256 % Spec.SM9.p
      ∧ MONT_ALPHA4 = (Spec.SM9.p - 2) ^ (4 * ((Spec.SM9.p - 1) / 12)) % Spec.SM9.p * 2 ^ 256 % Spec.SM9.p
      ∧ MONT_ALPHA5 = (Spec.SM9.p - 2) ^ (5 * ((Spec.SM9.p - 1) / 12)) % Spec.SM9.p * 2 ^ 256 % Spec.SM9.p
      ∧ Impl.SM9.MONT_BETA = ⟨MONT_ALPHA3, 0⟩
      ∧ (Spec.SM9.p - 2) ^ ((Spec.SM9.p - 1) / 2) % Spec.SM9.p = Spec.SM9.p - 1
      ∧ MODP_MONT_ONE = 2 ^ 256 % Spec.SM9.p := by
  have h := frobenius_constants_powMod
  simp only [Primes.powMod_eq] at h
  obtain ⟨h0, h1, h2, h3, h4, h5, h6, h7, h8, _⟩ := h
  refine ⟨h0, h1, h2, h3, h4, h5, h6, ?_, h8⟩
  have e : (Spec.SM9.p - 1) / 2 = 6 * ((Spec.SM9.p - 1) / 12) := by decide +kernel
  rw [e]
  exact h7

end GmVerif.Proofs.SM9Pairing
