/-
C13 (point layer, G2): the Jacobian point formulas over Fp2 of the gm-sm9 model (`Impl.SM9.TwistPoint`,
`twist_point_add_full`) compute the group law of the specification's twist (`Spec.SM9.add2`, `mul2`), for ALL
representations.  Mirrors `Proofs.SM2Curve`: points with canonical coordinates are `mk X Y Z` with X, Y, Z in Mathlib's
field `L` (`Proofs.SM9G2ImplField`), every model function is computed on `mk`, the branches are matched against the
generic identities of `Proofs.SM2CurveAlg` / `Proofs.SM9G2ImplAlg`, and the specification side goes through
`Proofs.SM9G2` (`ofK`).
-/
import Mathlib.Tactic.FieldSimp
import GmVerif.Proofs.SM9G2ImplAlg
import GmVerif.Proofs.SM9G2ImplField
import GmVerif.Impl.SM9.Points
set_option autoImplicit false
namespace GmVerif.Proofs.SM9G2Impl
open GmVerif
open GmVerif.Spec.SM9 (p Pt2 add2 mul2 onTwist)
open GmVerif.Proofs.SM9Tower (F2 Canon2 dec2 Ok2 ok2_dec)
open GmVerif.Proofs.SM9G2 (ofK)
open GmVerif.Proofs.SM9G2ImplField
open GmVerif.Proofs.SM2CurveAlg GmVerif.Proofs.SM9G2ImplAlg
open _root_.GmVerif.Impl.SM9 (Fp2 TwistPoint twist_point_add_full)

/-- canonical coordinates and, off infinity, the Jacobian equation of the twist Y² = X³ + 5u·Z⁶ on decoded values
(in the coefficient ring `F2` of C13b) -/
def Valid2 (Q : TwistPoint) : Prop :=
  Canon2 Q.x ∧ Canon2 Q.y ∧ Canon2 Q.z ∧
    (dec2 Q.z ≠ 0 → dec2 Q.y ^ 2 = dec2 Q.x ^ 3 + b2 * dec2 Q.z ^ 6)

/-- the affine point (X/Z², Y/Z³) (division in Mathlib's field `L`), as a point of the specification -/
def toSpec2 (Q : TwistPoint) : Pt2 :=
  if decL Q.z = 0 then none
  else some (ofK (decL Q.x / decL Q.z ^ 2), ofK (decL Q.y / decL Q.z ^ 3))

/-! ### points with canonical coordinates are `mk X Y Z` -/

def mk (X Y Z : L) : TwistPoint := ⟨enc2 X, enc2 Y, enc2 Z⟩

theorem eq_mk (P : TwistPoint) (hx : Canon2 P.x) (hy : Canon2 P.y) (hz : Canon2 P.z) :
    P = mk (decL P.x) (decL P.y) (decL P.z) := by
  cases P with
  | mk x y z => simp only [mk] at *; rw [enc2_decL hx, enc2_decL hy, enc2_decL hz]

theorem mk_congr {X Y Z X' Y' Z' : L} (hx : X = X') (hy : Y = Y') (hz : Z = Z') : mk X Y Z = mk X' Y' Z' := by
  rw [hx, hy, hz]

theorem symm_bL : φ.symm bL = b2 := rfl

theorem eqn_iff (X Y Z : L) :
    φ.symm Y ^ 2 = φ.symm X ^ 3 + b2 * φ.symm Z ^ 6 ↔ Y ^ 2 = X ^ 3 + 0 * X * Z ^ 4 + bL * Z ^ 6 := by
  rw [← φ.symm.injective.eq_iff]
  simp only [map_add, map_mul, map_pow, symm_bL, zero_mul, add_zero]

theorem valid_mk_iff (X Y Z : L) :
    Valid2 (mk X Y Z) ↔ (Z ≠ 0 → Y ^ 2 = X ^ 3 + 0 * X * Z ^ 4 + bL * Z ^ 6) := by
  have hz : dec2 (enc2 Z) ≠ 0 ↔ Z ≠ 0 := by rw [dec2_enc2, ne_eq, map_eq_zero_iff _ φ.symm.injective]
  constructor
  · rintro ⟨_, _, _, h⟩ hZ
    have := h (hz.mpr hZ)
    simp only [mk, dec2_enc2] at this
    exact (eqn_iff X Y Z).mp this
  · intro h
    refine ⟨canon2_enc2 X, canon2_enc2 Y, canon2_enc2 Z, fun hZ => ?_⟩
    simp only [mk, dec2_enc2]
    exact (eqn_iff X Y Z).mpr (h (hz.mp hZ))

theorem toSpec2_mk (X Y Z : L) :
    toSpec2 (mk X Y Z) = if Z = 0 then none else some (ofK (X / Z ^ 2), ofK (Y / Z ^ 3)) := by
  simp only [toSpec2, mk, decL_enc2]

theorem toSpec2_mk_of_ne {X Y Z : L} (hZ : Z ≠ 0) :
    toSpec2 (mk X Y Z) = some (ofK (X / Z ^ 2), ofK (Y / Z ^ 3)) := by
  rw [toSpec2_mk, if_neg hZ]

theorem toSpec2_mk_zero (X Y : L) : toSpec2 (mk X Y 0) = none := by
  rw [toSpec2_mk, if_pos rfl]

theorem valid_mk_zero (X Y : L) : Valid2 (mk X Y 0) := (valid_mk_iff _ _ _).mpr (fun h => absurd rfl h)

theorem zero_eq_mk : TwistPoint.zero = mk 1 1 0 := by
  simp only [TwistPoint.zero, mk, one_eq, zero_eq]

/-! ### the specification side: `add2` on `ofK` -/

/-- a pair of field elements as a specification point -/
def specPt2 (q : Option (L × L)) : Pt2 := q.map fun q => (ofK q.1, ofK q.2)

theorem spec_add2_ofK (x1 y1 x2 y2 : L) :
    add2 (some (ofK x1, ofK y1)) (some (ofK x2, ofK y2)) = specPt2 (affAdd 0 x1 y1 x2 y2) := by
  simp only [add2, affAdd]
  by_cases hx : x1 = x2
  · subst hx
    rw [if_pos rfl, if_pos rfl]
    by_cases hy : y1 + y2 = 0
    · rw [if_pos hy, if_pos ((SM9G2.ofK_eq_zero_iff y1 y2).mpr (eq_neg_of_add_eq_zero_left hy))]; rfl
    · rw [if_neg hy, if_neg (fun h => hy (by rw [(SM9G2.ofK_eq_zero_iff y1 y2).mp h, neg_add_cancel]))]
      simp only [SM9G2.scale_ofK, SM9G2.mul_ofK, SM9G2.inv_ofK, SM9G2.sub_ofK, specPt2, Option.map_some]
      refine congrArg some (Prod.ext (congrArg ofK ?_) (congrArg ofK ?_))
      · push_cast; rw [div_eq_mul_inv]; ring
      · push_cast; rw [div_eq_mul_inv]; ring
  · have hxv : ofK x1 ≠ ofK x2 := fun h => hx (SM9G2.ofK_injective h)
    rw [if_neg hxv, if_neg hx]
    simp only [SM9G2.mul_ofK, SM9G2.inv_ofK, SM9G2.sub_ofK, specPt2, Option.map_some]
    refine congrArg some (Prod.ext (congrArg ofK ?_) (congrArg ofK ?_))
    · rw [div_eq_mul_inv]; ring
    · rw [div_eq_mul_inv]; ring

theorem add2_none_left (q : Pt2) : add2 none q = q := by simp [add2]
theorem add2_none_right (q : Pt2) : add2 q none = q := by cases q <;> simp [add2]

/-! ### doubling -/

theorem point_double_mk (X Y Z : L) :
    (mk X Y Z).point_double = if Z = 0 then mk X Y Z else mk (dblX0 X Y) (dblY0 X Y) (dblZ Y Z) := by
  have h2 := two_ne_zero_L
  simp only [TwistPoint.point_double, mk, is_zero_enc2, fp_sqr_enc2, fp_triple_enc2, fp_double_enc2, fp_mul_enc2,
    fp_div2_enc2, fp_sub_enc2]
  split_ifs
  · rfl
  · congr 2 <;> (simp only [dblX0, dblY0, dblZ, dblA0]; field_simp; ring)

theorem point_double_mk_correct (X Y Z : L) (h : Valid2 (mk X Y Z)) :
    Valid2 (mk X Y Z).point_double
      ∧ toSpec2 (mk X Y Z).point_double = add2 (toSpec2 (mk X Y Z)) (toSpec2 (mk X Y Z)) := by
  rw [point_double_mk]
  by_cases hZ : Z = 0
  · subst hZ
    rw [if_pos rfl, toSpec2_mk_zero]
    exact ⟨h, rfl⟩
  · rw [if_neg hZ]
    have E := (valid_mk_iff _ _ _).mp h hZ
    refine ⟨(valid_mk_iff _ _ _).mpr (fun _ => dbl0_onCurve 0 bL X Y Z rfl E), ?_⟩
    rw [toSpec2_mk_of_ne hZ, spec_add2_ofK, affAdd, if_pos rfl]
    by_cases hY : Y = 0
    · subst hY
      have hz3 : dblZ (0 : L) Z = 0 := by simp [dblZ]
      rw [hz3, toSpec2_mk_zero, if_pos (by simp)]; rfl
    · have hz3 : dblZ Y Z ≠ 0 := fun h => hY ((dblZ_eq_zero_iff Y Z two_ne_zero_L hZ).mp h)
      have hyy : ¬ (Y / Z ^ 3 + Y / Z ^ 3 = 0) := by
        intro h
        have h' : 2 * (Y / Z ^ 3) = 0 := by linear_combination h
        rcases mul_eq_zero.mp h' with h2 | h2
        · exact two_ne_zero_L h2
        · rcases div_eq_zero_iff.mp h2 with h3 | h3
          · exact hY h3
          · exact hZ (pow_eq_zero_iff (by decide) |>.mp h3)
      rw [toSpec2_mk_of_ne hz3, if_neg hyy]
      simp only [specPt2, Option.map_some]
      rw [dbl0_y 0 X Y Z _ rfl two_ne_zero_L hZ hY rfl, dbl0_x 0 X Y Z rfl two_ne_zero_L hZ hY]

/-! ### the full addition, branch by branch -/

/-- `t6 = S2 + S1` of the code -/
def addS (Y1 Z1 Y2 Z2 : L) : L := Y2 * Z1 ^ 3 + Y1 * Z2 ^ 3

theorem add_full_mk (X1 Y1 Z1 X2 Y2 Z2 : L) :
    twist_point_add_full (mk X1 Y1 Z1) (mk X2 Y2 Z2) =
      if Z1 = 0 then mk X2 Y2 Z2
      else if Z2 = 0 then mk X1 Y1 Z1
      else if addR Y1 Z1 Y2 Z2 = 0 ∧ addH X1 Z1 X2 Z2 = 0 then (mk X1 Y1 Z1).point_double
      else if addR Y1 Z1 Y2 Z2 = 0 ∧ addS Y1 Z1 Y2 Z2 = 0 then TwistPoint.zero
      else mk (addX X1 Y1 Z1 X2 Y2 Z2) (addY X1 Y1 Z1 X2 Y2 Z2) (addZ X1 Z1 X2 Z2) := by
  have eH : X2 * (Z1 * Z1) - X1 * (Z2 * Z2) = addH X1 Z1 X2 Z2 := by simp only [addH]; ring
  have eR : Z1 * Z1 * Z1 * Y2 - Z2 * Z2 * Z2 * Y1 = addR Y1 Z1 Y2 Z2 := by simp only [addR]; ring
  have eS : Z1 * Z1 * Z1 * Y2 + Z2 * Z2 * Z2 * Y1 = addS Y1 Z1 Y2 Z2 := by simp only [addS]; ring
  simp only [twist_point_add_full, mk, is_zero_enc2, fp_sqr_enc2, fp_mul_enc2, fp_sub_enc2, fp_add_enc2,
    Bool.and_eq_true, eH, eR, eS]
  split_ifs
  · rfl
  · rfl
  · rfl
  · rfl
  · refine mk_congr ?_ ?_ ?_ <;> (simp only [addX, addY, addZ, addH, addR]; ring)

theorem full_inf_left (X1 Y1 X2 Y2 Z2 : L) (hQ : Valid2 (mk X2 Y2 Z2)) :
    Valid2 (twist_point_add_full (mk X1 Y1 0) (mk X2 Y2 Z2))
      ∧ toSpec2 (twist_point_add_full (mk X1 Y1 0) (mk X2 Y2 Z2))
          = add2 (toSpec2 (mk X1 Y1 0)) (toSpec2 (mk X2 Y2 Z2)) := by
  rw [add_full_mk, if_pos rfl, toSpec2_mk_zero, add2_none_left]
  exact ⟨hQ, rfl⟩

theorem full_inf_right (X1 Y1 Z1 X2 Y2 : L) (hP : Valid2 (mk X1 Y1 Z1)) :
    Valid2 (twist_point_add_full (mk X1 Y1 Z1) (mk X2 Y2 0))
      ∧ toSpec2 (twist_point_add_full (mk X1 Y1 Z1) (mk X2 Y2 0))
          = add2 (toSpec2 (mk X1 Y1 Z1)) (toSpec2 (mk X2 Y2 0)) := by
  rw [add_full_mk]
  by_cases hZ1 : Z1 = 0
  · subst hZ1
    rw [if_pos rfl, toSpec2_mk_zero, toSpec2_mk_zero]
    exact ⟨valid_mk_zero _ _, rfl⟩
  · rw [if_neg hZ1, if_pos rfl, toSpec2_mk_zero, add2_none_right]
    exact ⟨hP, rfl⟩

/-- the same point in any two representations (R = 0 and H = 0): delegated to the doubling -/
theorem full_same_point (X1 Y1 Z1 X2 Y2 Z2 : L) (hZ1 : Z1 ≠ 0) (hZ2 : Z2 ≠ 0)
    (hR : addR Y1 Z1 Y2 Z2 = 0) (hH : addH X1 Z1 X2 Z2 = 0) (hP : Valid2 (mk X1 Y1 Z1)) :
    Valid2 (twist_point_add_full (mk X1 Y1 Z1) (mk X2 Y2 Z2))
      ∧ toSpec2 (twist_point_add_full (mk X1 Y1 Z1) (mk X2 Y2 Z2))
          = add2 (toSpec2 (mk X1 Y1 Z1)) (toSpec2 (mk X2 Y2 Z2)) := by
  rw [add_full_mk, if_neg hZ1, if_neg hZ2, if_pos ⟨hR, hH⟩]
  have hx := (addH_eq_zero_iff X1 Z1 X2 Z2 hZ1 hZ2).mp hH
  have hy := (addR_eq_zero_iff Y1 Z1 Y2 Z2 hZ1 hZ2).mp hR
  have hQP : toSpec2 (mk X2 Y2 Z2) = toSpec2 (mk X1 Y1 Z1) := by
    rw [toSpec2_mk_of_ne hZ1, toSpec2_mk_of_ne hZ2, hx, hy]
  rw [hQP]
  exact point_double_mk_correct X1 Y1 Z1 hP

/-- a valid finite point has Y ≠ 0: −5u is not a cube, so the twist has no point of order two -/
theorem valid_Y_ne_zero (X Y Z : L) (hZ : Z ≠ 0) (hP : Valid2 (mk X Y Z)) : Y ≠ 0 :=
  no_two_torsion bL X Y Z neg_bL_noncube hZ ((valid_mk_iff _ _ _).mp hP hZ)

/-- the second special-case test of the code (R = 0 and S1 + S2 = 0, answering "infinity" WITHOUT looking at H) can
never fire on valid finite points: it would force Y1 = 0 -/
theorem full_second_test_dead (X1 Y1 Z1 Y2 Z2 : L) (hZ1 : Z1 ≠ 0) (hZ2 : Z2 ≠ 0)
    (hP : Valid2 (mk X1 Y1 Z1)) : ¬ (addR Y1 Z1 Y2 Z2 = 0 ∧ addS Y1 Z1 Y2 Z2 = 0) := by
  rintro ⟨hR, hS⟩
  exact valid_Y_ne_zero X1 Y1 Z1 hZ1 hP (y_zero_of_sum_diff Y1 Z1 Y2 Z2 two_ne_zero_L hZ2 hR hS)

/-- P = −Q (H = 0, R ≠ 0): the generic formulas give Z3 = 0 -/
theorem full_opposite (X1 Y1 Z1 X2 Y2 Z2 : L) (hZ1 : Z1 ≠ 0) (hZ2 : Z2 ≠ 0)
    (hH : addH X1 Z1 X2 Z2 = 0) (hR : addR Y1 Z1 Y2 Z2 ≠ 0)
    (hP : Valid2 (mk X1 Y1 Z1)) (hQ : Valid2 (mk X2 Y2 Z2)) :
    Valid2 (twist_point_add_full (mk X1 Y1 Z1) (mk X2 Y2 Z2))
      ∧ toSpec2 (twist_point_add_full (mk X1 Y1 Z1) (mk X2 Y2 Z2))
          = add2 (toSpec2 (mk X1 Y1 Z1)) (toSpec2 (mk X2 Y2 Z2)) := by
  rw [add_full_mk, if_neg hZ1, if_neg hZ2, if_neg (fun h => hR h.1), if_neg (fun h => hR h.1),
    addZ_of_H_zero _ _ _ _ hH]
  refine ⟨valid_mk_zero _ _, ?_⟩
  have hx := (addH_eq_zero_iff X1 Z1 X2 Z2 hZ1 hZ2).mp hH
  have hy : ¬ (Y1 / Z1 ^ 3 = Y2 / Z2 ^ 3) := fun h => hR ((addR_eq_zero_iff Y1 Z1 Y2 Z2 hZ1 hZ2).mpr h)
  have E1 := (jac_iff_aff 0 bL X1 Y1 Z1 hZ1).mp ((valid_mk_iff _ _ _).mp hP hZ1)
  have E2 := (jac_iff_aff 0 bL X2 Y2 Z2 hZ2).mp ((valid_mk_iff _ _ _).mp hQ hZ2)
  rw [← hx] at E2
  have hsum : Y1 / Z1 ^ 3 + Y2 / Z2 ^ 3 = 0 := (aff_same_x 0 bL _ _ _ E1 E2).resolve_left hy
  rw [toSpec2_mk_zero, toSpec2_mk_of_ne hZ1, toSpec2_mk_of_ne hZ2, spec_add2_ofK, affAdd, if_pos hx, if_pos hsum]
  rfl

/-- the generic case (H ≠ 0) -/
theorem full_generic (X1 Y1 Z1 X2 Y2 Z2 : L) (hZ1 : Z1 ≠ 0) (hZ2 : Z2 ≠ 0)
    (hH : addH X1 Z1 X2 Z2 ≠ 0)
    (hP : Valid2 (mk X1 Y1 Z1)) (hQ : Valid2 (mk X2 Y2 Z2)) :
    Valid2 (twist_point_add_full (mk X1 Y1 Z1) (mk X2 Y2 Z2))
      ∧ toSpec2 (twist_point_add_full (mk X1 Y1 Z1) (mk X2 Y2 Z2))
          = add2 (toSpec2 (mk X1 Y1 Z1)) (toSpec2 (mk X2 Y2 Z2)) := by
  rw [add_full_mk, if_neg hZ1, if_neg hZ2, if_neg (fun h => hH h.2),
    if_neg (full_second_test_dead X1 Y1 Z1 Y2 Z2 hZ1 hZ2 hP)]
  have E1 := (valid_mk_iff _ _ _).mp hP hZ1
  have E2 := (valid_mk_iff _ _ _).mp hQ hZ2
  refine ⟨(valid_mk_iff _ _ _).mpr (fun _ => add_onCurve 0 bL X1 Y1 Z1 X2 Y2 Z2 E1 E2), ?_⟩
  have hx : ¬ (X1 / Z1 ^ 2 = X2 / Z2 ^ 2) := fun h => hH ((addH_eq_zero_iff X1 Z1 X2 Z2 hZ1 hZ2).mpr h)
  have hZ3 : addZ X1 Z1 X2 Z2 ≠ 0 := mul_ne_zero (mul_ne_zero hZ1 hZ2) hH
  rw [toSpec2_mk_of_ne hZ3, toSpec2_mk_of_ne hZ1, toSpec2_mk_of_ne hZ2, spec_add2_ofK, affAdd, if_neg hx]
  simp only [specPt2, Option.map_some]
  rw [add_y X1 Y1 Z1 X2 Y2 Z2 _ hZ1 hZ2 hH rfl, add_x X1 Y1 Z1 X2 Y2 Z2 hZ1 hZ2 hH]

theorem add_full_mk_correct (X1 Y1 Z1 X2 Y2 Z2 : L) (hP : Valid2 (mk X1 Y1 Z1)) (hQ : Valid2 (mk X2 Y2 Z2)) :
    Valid2 (twist_point_add_full (mk X1 Y1 Z1) (mk X2 Y2 Z2))
      ∧ toSpec2 (twist_point_add_full (mk X1 Y1 Z1) (mk X2 Y2 Z2))
          = add2 (toSpec2 (mk X1 Y1 Z1)) (toSpec2 (mk X2 Y2 Z2)) := by
  by_cases hZ1 : Z1 = 0
  · subst hZ1; exact full_inf_left X1 Y1 X2 Y2 Z2 hQ
  by_cases hZ2 : Z2 = 0
  · subst hZ2; exact full_inf_right X1 Y1 Z1 X2 Y2 hP
  by_cases hH : addH X1 Z1 X2 Z2 = 0
  · by_cases hR : addR Y1 Z1 Y2 Z2 = 0
    · exact full_same_point X1 Y1 Z1 X2 Y2 Z2 hZ1 hZ2 hR hH hP
    · exact full_opposite X1 Y1 Z1 X2 Y2 Z2 hZ1 hZ2 hH hR hP hQ
  · exact full_generic X1 Y1 Z1 X2 Y2 Z2 hZ1 hZ2 hH hP hQ

/-! ### `point_add`: mixed addition when the second operand has Z = 1 -/

theorem point_add_mk (X1 Y1 Z1 X2 Y2 Z2 : L) :
    (mk X1 Y1 Z1).point_add (mk X2 Y2 Z2) =
      if Z1 = 0 then mk X2 Y2 Z2
      else if Z2 = 0 then mk X1 Y1 Z1
      else if ¬ Z2 = 1 then twist_point_add_full (mk X1 Y1 Z1) (mk X2 Y2 Z2)
      else if addH X1 Z1 X2 1 = 0 then
        (if addR Y1 Z1 Y2 1 = 0 then (mk X2 Y2 Z2).point_double else TwistPoint.zero)
      else mk (addX X1 Y1 Z1 X2 Y2 1) (addY X1 Y1 Z1 X2 Y2 1) (addZ X1 Z1 X2 1) := by
  have eH : Z1 * Z1 * X2 - X1 = addH X1 Z1 X2 1 := by simp only [addH]; ring
  have eR : Z1 * Z1 * Z1 * Y2 - Y1 = addR Y1 Z1 Y2 1 := by simp only [addR]; ring
  simp only [TwistPoint.point_add, mk, is_zero_enc2, fp_sqr_enc2, fp_double_enc2, fp_mul_enc2,
    fp_sub_enc2, one_eq, Bool.not_eq_true', ← Bool.not_eq_true, eq_enc2, eH, eR]
  split_ifs <;> first
    | with_reducible rfl
    | (refine mk_congr ?_ ?_ ?_ <;> (simp only [addX, addY, addZ]; ring))

theorem point_add_mk_correct (X1 Y1 Z1 X2 Y2 Z2 : L) (hP : Valid2 (mk X1 Y1 Z1)) (hQ : Valid2 (mk X2 Y2 Z2)) :
    Valid2 ((mk X1 Y1 Z1).point_add (mk X2 Y2 Z2))
      ∧ toSpec2 ((mk X1 Y1 Z1).point_add (mk X2 Y2 Z2))
          = add2 (toSpec2 (mk X1 Y1 Z1)) (toSpec2 (mk X2 Y2 Z2)) := by
  have hfull := add_full_mk_correct X1 Y1 Z1 X2 Y2 Z2 hP hQ
  by_cases hZ1 : Z1 = 0
  · subst hZ1
    rw [point_add_mk, if_pos rfl, toSpec2_mk_zero, add2_none_left]
    exact ⟨hQ, rfl⟩
  by_cases hZ2 : Z2 = 0
  · subst hZ2
    rw [point_add_mk, if_neg hZ1, if_pos rfl, toSpec2_mk_zero, add2_none_right]
    exact ⟨hP, rfl⟩
  by_cases h1 : Z2 = 1
  · subst h1
    rw [point_add_mk, if_neg hZ1, if_neg hZ2, if_neg (fun h => h rfl)]
    have one_ne : (1 : L) ≠ 0 := one_ne_zero
    by_cases hH : addH X1 Z1 X2 1 = 0
    · rw [if_pos hH]
      have hx := (addH_eq_zero_iff X1 Z1 X2 1 hZ1 one_ne).mp hH
      by_cases hR : addR Y1 Z1 Y2 1 = 0
      · -- the same point: the code doubles the SECOND operand
        rw [if_pos hR]
        have hy := (addR_eq_zero_iff Y1 Z1 Y2 1 hZ1 one_ne).mp hR
        have hPQ : toSpec2 (mk X1 Y1 Z1) = toSpec2 (mk X2 Y2 1) := by
          rw [toSpec2_mk_of_ne hZ1, toSpec2_mk_of_ne one_ne, hx, hy]
        rw [hPQ]
        exact point_double_mk_correct X2 Y2 1 hQ
      · -- opposite points
        rw [if_neg hR, zero_eq_mk]
        refine ⟨valid_mk_zero _ _, ?_⟩
        have hy : ¬ (Y1 / Z1 ^ 3 = Y2 / 1 ^ 3) := fun h => hR ((addR_eq_zero_iff Y1 Z1 Y2 1 hZ1 one_ne).mpr h)
        have E1 := (jac_iff_aff 0 bL X1 Y1 Z1 hZ1).mp ((valid_mk_iff _ _ _).mp hP hZ1)
        have E2 := (jac_iff_aff 0 bL X2 Y2 1 one_ne).mp ((valid_mk_iff _ _ _).mp hQ one_ne)
        rw [← hx] at E2
        have hsum : Y1 / Z1 ^ 3 + Y2 / 1 ^ 3 = 0 := (aff_same_x 0 bL _ _ _ E1 E2).resolve_left hy
        rw [toSpec2_mk_zero, toSpec2_mk_of_ne hZ1, toSpec2_mk_of_ne one_ne, spec_add2_ofK, affAdd, if_pos hx,
          if_pos hsum]
        rfl
    · -- generic: the mixed formulas are the full ones at Z2 = 1
      rw [if_neg hH]
      have := full_generic X1 Y1 Z1 X2 Y2 1 hZ1 one_ne hH hP hQ
      rw [add_full_mk, if_neg hZ1, if_neg one_ne, if_neg (fun h => hH h.2),
        if_neg (full_second_test_dead X1 Y1 Z1 Y2 1 hZ1 one_ne hP)] at this
      exact this
  · rw [point_add_mk, if_neg hZ1, if_neg hZ2, if_pos h1]
    exact hfull

/-! ### negation -/

theorem point_neg_mk (X Y Z : L) : (mk X Y Z).point_neg = mk X (-Y) Z := by
  simp only [TwistPoint.point_neg, mk, fp_neg_enc2]

theorem spec_neg2_ofK (x y : L) : Spec.SM9.neg2 (some (ofK x, ofK y)) = some (ofK x, ofK (-y)) := by
  simp only [Spec.SM9.neg2, SM9G2.neg_ofK]

theorem point_neg_mk_correct (X Y Z : L) (h : Valid2 (mk X Y Z)) :
    Valid2 (mk X Y Z).point_neg ∧ toSpec2 (mk X Y Z).point_neg = Spec.SM9.neg2 (toSpec2 (mk X Y Z)) := by
  rw [point_neg_mk]
  constructor
  · rw [valid_mk_iff] at h ⊢
    intro hZ
    have E := h hZ
    linear_combination E
  · by_cases hZ : Z = 0
    · subst hZ; rw [toSpec2_mk_zero, toSpec2_mk_zero]; rfl
    · rw [toSpec2_mk_of_ne hZ, toSpec2_mk_of_ne hZ, spec_neg2_ofK, neg_div]

/-! ### every valid point decodes to a point of the twist -/

theorem onTwist_ofK_iff (x y : L) : onTwist (some (ofK x, ofK y)) = true ↔ y * y = x * x * x + bL := by
  simp only [onTwist, Bool.and_eq_true, decide_eq_true_eq, beq_iff_eq, SM9G2.bTwist_ofK, SM9G2.mul_ofK,
    SM9G2.add_ofK]
  constructor
  · intro h; exact SM9G2.ofK_injective h.2
  · intro h
    exact ⟨⟨⟨⟨ZMod.val_lt x.re, ZMod.val_lt x.im⟩, ZMod.val_lt y.re⟩, ZMod.val_lt y.im⟩, congrArg ofK h⟩

theorem toSpec2_mk_onTwist (X Y Z : L) (h : Valid2 (mk X Y Z)) : onTwist (toSpec2 (mk X Y Z)) = true := by
  by_cases hZ : Z = 0
  · subst hZ; rw [toSpec2_mk_zero]; rfl
  · rw [toSpec2_mk_of_ne hZ, onTwist_ofK_iff]
    have E := (jac_iff_aff 0 bL X Y Z hZ).mp ((valid_mk_iff _ _ _).mp h hZ)
    linear_combination E

/-! ### the theorems for arbitrary valid points -/

theorem toSpec2_onTwist (P : TwistPoint) (h : Valid2 P) : onTwist (toSpec2 P) = true := by
  have e := eq_mk P h.1 h.2.1 h.2.2.1
  rw [e] at h ⊢
  exact toSpec2_mk_onTwist _ _ _ h

theorem point_double_correct (P : TwistPoint) (h : Valid2 P) :
    Valid2 P.point_double ∧ toSpec2 P.point_double = add2 (toSpec2 P) (toSpec2 P) := by
  have e := eq_mk P h.1 h.2.1 h.2.2.1
  rw [e] at h ⊢
  exact point_double_mk_correct _ _ _ h

theorem add_full_correct (P Q : TwistPoint) (hP : Valid2 P) (hQ : Valid2 Q) :
    Valid2 (twist_point_add_full P Q) ∧ toSpec2 (twist_point_add_full P Q) = add2 (toSpec2 P) (toSpec2 Q) := by
  have eP := eq_mk P hP.1 hP.2.1 hP.2.2.1
  have eQ := eq_mk Q hQ.1 hQ.2.1 hQ.2.2.1
  rw [eP] at hP ⊢
  rw [eQ] at hQ ⊢
  exact add_full_mk_correct _ _ _ _ _ _ hP hQ

theorem point_add_correct (P Q : TwistPoint) (hP : Valid2 P) (hQ : Valid2 Q) :
    Valid2 (P.point_add Q) ∧ toSpec2 (P.point_add Q) = add2 (toSpec2 P) (toSpec2 Q) := by
  have eP := eq_mk P hP.1 hP.2.1 hP.2.2.1
  have eQ := eq_mk Q hQ.1 hQ.2.1 hQ.2.2.1
  rw [eP] at hP ⊢
  rw [eQ] at hQ ⊢
  exact point_add_mk_correct _ _ _ _ _ _ hP hQ

theorem point_neg_correct (P : TwistPoint) (h : Valid2 P) :
    Valid2 P.point_neg ∧ toSpec2 P.point_neg = Spec.SM9.neg2 (toSpec2 P) := by
  have e := eq_mk P h.1 h.2.1 h.2.2.1
  rw [e] at h ⊢
  exact point_neg_mk_correct _ _ _ h

theorem point_sub_correct (P Q : TwistPoint) (hP : Valid2 P) (hQ : Valid2 Q) :
    Valid2 (P.point_sub Q) ∧ toSpec2 (P.point_sub Q) = add2 (toSpec2 P) (Spec.SM9.neg2 (toSpec2 Q)) := by
  have hn := point_neg_correct Q hQ
  have h := add_full_correct P Q.point_neg hP hn.1
  rw [hn.2] at h
  exact h

end GmVerif.Proofs.SM9G2Impl
