/-
C12f, Stage 1 (continued): closure of the curve under chord and tangent, and the derived identities in exactly the shape
that one step of the comparison "binary chain vs signed-digit chain" uses (all in the formulas of `lineAdd`):
with D = 2T, S = T+Q, U = D+Q = 2T+Q,
  * `step_value`  l(T,Q)²·l(S,S)·v(D)·v(U) = l(T,T)·l(D,Q)·l(U,Q)·v(S)²       (f_{m+1}²·l(S,S) vs f_{2m+1}·l(U,Q))
  * `step_point`  U + Q = 2S
  * `minus_value` l(U,Q)·l(U+Q,−Q) = v(Q)·v(U+Q)·v(U)   and   `minus_point`  (U+Q) + (−Q) = U.
-/
import GmVerif.Proofs.SM9MillerAssoc
set_option autoImplicit false
namespace GmVerif.Proofs.SM9MillerAssoc
variable {F : Type*} [Field F]

theorem chord_on_curve_raw (x1 y1 x2 y2 : F) (h2 : y2 ^ 2 = x2 ^ 3 + (y1 ^ 2 - x1 ^ 3)) (hx : x2 - x1 ≠ 0) (lam x3 y3 : F)
    (hlam : lam = (y2 - y1) / (x2 - x1)) (hx3 : x3 = lam * lam - x1 - x2) (hy3 : y3 = lam * (x1 - x3) - y1) :
    y3 ^ 2 = x3 ^ 3 + (y1 ^ 2 - x1 ^ 3) := by
  rw [hy3, hx3, hlam]
  field_simp
  linear_combination ((-1)*y2^2*x1^3 + (3)*y2^2*x1^2*x2 + (-3)*y2^2*x1*x2^2 + y2^2*x2^3 + (2)*y2*y1*x1^3 + (-6)*y2*y1*x1^2*x2 + (6)*y2*y1*x1*x2^2 + (-2)*y2*y1*x2^3 + (-1)*y1^2*x1^3 + (3)*y1^2*x1^2*x2 + (-3)*y1^2*x1*x2^2 + y1^2*x2^3 + (2)*x1^6 + (-9)*x1^5*x2 + (15)*x1^4*x2^2 + (-10)*x1^3*x2^3 + (3)*x1*x2^5 + (-1)*x2^6) * h2

/-- the chord sum of two points of y² = x³ + b lies on the curve -/
theorem chord_on_curve {b x1 y1 x2 y2 lam x3 y3 : F} (h1 : y1 ^ 2 = x1 ^ 3 + b) (h2 : y2 ^ 2 = x2 ^ 3 + b) (hx : x1 ≠ x2)
    (hlam : lam = (y2 - y1) / (x2 - x1)) (hx3 : x3 = lam * lam - x1 - x2) (hy3 : y3 = lam * (x1 - x3) - y1) :
    y3 ^ 2 = x3 ^ 3 + b := by
  have := chord_on_curve_raw x1 y1 x2 y2 (by linear_combination h2 - h1) (sub_ne_zero.2 hx.symm) lam x3 y3 hlam hx3 hy3
  linear_combination this + h1

/-- the double of a point of y² = x³ + b (y ≠ 0) lies on the curve -/
theorem tangent_on_curve {b x1 y1 lam x3 y3 : F} (two : (2 : F) ≠ 0) (h1 : y1 ^ 2 = x1 ^ 3 + b) (hy : y1 ≠ 0)
    (hlam : lam = 3 * (x1 * x1) / (y1 + y1)) (hx3 : x3 = lam * lam - x1 - x1) (hy3 : y3 = lam * (x1 - x3) - y1) :
    y3 ^ 2 = x3 ^ 3 + b := by
  obtain ⟨d, hd2, hd⟩ : ∃ d : F, d = 2 ∧ d ≠ 0 := ⟨2, rfl, two⟩
  have hyy : y1 + y1 = d * y1 := by rw [hd2]; ring
  rw [hyy] at hlam
  rw [hy3, hx3, hlam]
  field_simp
  subst hd2
  linear_combination (64 * y1 ^ 6) * h1

/-- the same line through two points, written from either end -/
theorem line_symm {x1 y1 x2 y2 xP yP : F} (hx : x1 ≠ x2) :
    (y2 - y1) / (x2 - x1) * (xP - x1) - (yP - y1) = (y1 - y2) / (x1 - x2) * (xP - x2) - (yP - y2) := by
  have h1 : x2 - x1 ≠ 0 := sub_ne_zero.2 hx.symm
  have h2 : x1 - x2 ≠ 0 := sub_ne_zero.2 hx
  field_simp
  ring

section step
variable {b x1 y1 x2 y2 xP yP mT xD yD lTQ xS yS lDQ xU yU mS lUQ : F}

/-- U = 2T + Q is also (T+Q) + T -/
theorem step_assoc (two : (2 : F) ≠ 0) (h1 : y1 ^ 2 = x1 ^ 3 + b) (h2 : y2 ^ 2 = x2 ^ 3 + b)
    (hmT : mT = 3 * (x1 * x1) / (y1 + y1)) (hxD : xD = mT * mT - x1 - x1) (hyD : yD = mT * (x1 - xD) - y1)
    (hlTQ : lTQ = (y2 - y1) / (x2 - x1)) (hxS : xS = lTQ * lTQ - x1 - x2) (hyS : yS = lTQ * (x1 - xS) - y1)
    (hlDQ : lDQ = (y2 - yD) / (x2 - xD)) (hxU : xU = lDQ * lDQ - xD - x2) (hyU : yU = lDQ * (xD - xU) - yD)
    (ny1 : y1 ≠ 0) (nTQ : x1 ≠ x2) (nDQ : xD ≠ x2) (nST : xS ≠ x1) :
    xU = (y1 - yS) / (x1 - xS) * ((y1 - yS) / (x1 - xS)) - xS - x1
      ∧ yU = (y1 - yS) / (x1 - xS) * (xS - xU) - yS := by
  have h2' : y2 ^ 2 = x2 ^ 3 + (y1 ^ 2 - x1 ^ 3) := by linear_combination h2 - h1
  have hm : mT = 3 * (x1 * x1) / (2 * y1) := by rw [hmT]; congr 1; ring
  have ex := assoc_2TQ_x_raw x1 y1 x2 y2 h2' 2 two ny1 (sub_ne_zero.2 nTQ.symm) mT xD yD lTQ xS yS lDQ
    ((y1 - yS) / (x1 - xS)) hm hxD hyD hlTQ hxS hyS (sub_ne_zero.2 nDQ.symm) hlDQ (sub_ne_zero.2 nST.symm) rfl rfl
  have ey := assoc_2TQ_y_raw x1 y1 x2 y2 h2' 2 two ny1 (sub_ne_zero.2 nTQ.symm) mT xD yD lTQ xS yS lDQ
    ((y1 - yS) / (x1 - xS)) hm hxD hyD hlTQ hxS hyS (sub_ne_zero.2 nDQ.symm) hlDQ (sub_ne_zero.2 nST.symm) rfl rfl
  have hx : xU = (y1 - yS) / (x1 - xS) * ((y1 - yS) / (x1 - xS)) - xS - x1 := by rw [hxU]; exact ex
  refine ⟨hx, ?_⟩
  rw [← ex] at ey
  rw [hyU, hxU]; exact ey

/-- the hypotheses of `key_sum_raw` / `assoc_sum_*_raw` for S = T + Q, T (so that S − T = Q) -/
theorem step_value (two : (2 : F) ≠ 0) (h1 : y1 ^ 2 = x1 ^ 3 + b) (h2 : y2 ^ 2 = x2 ^ 3 + b) (hP : yP ^ 2 = xP ^ 3 + b)
    (hmT : mT = 3 * (x1 * x1) / (y1 + y1)) (hxD : xD = mT * mT - x1 - x1) (hyD : yD = mT * (x1 - xD) - y1)
    (hlTQ : lTQ = (y2 - y1) / (x2 - x1)) (hxS : xS = lTQ * lTQ - x1 - x2) (hyS : yS = lTQ * (x1 - xS) - y1)
    (hlDQ : lDQ = (y2 - yD) / (x2 - xD)) (hxU : xU = lDQ * lDQ - xD - x2) (hyU : yU = lDQ * (xD - xU) - yD)
    (hmS : mS = 3 * (xS * xS) / (yS + yS)) (hlUQ : lUQ = (y2 - yU) / (x2 - xU))
    (ny1 : y1 ≠ 0) (nTQ : x1 ≠ x2) (nDQ : xD ≠ x2) (nST : xS ≠ x1) (nyS : yS ≠ 0) (nUQ : xU ≠ x2) :
    (lTQ * (xP - x1) - (yP - y1)) ^ 2 * (mS * (xP - xS) - (yP - yS)) * (xP - xD) * (xP - xU)
      = (mT * (xP - x1) - (yP - y1)) * (lDQ * (xP - xD) - (yP - yD)) * (lUQ * (xP - xU) - (yP - yU)) * (xP - xS) ^ 2
    ∧ lUQ * lUQ - xU - x2 = mS * mS - xS - xS
    ∧ lUQ * (xU - (lUQ * lUQ - xU - x2)) - yU = mS * (xS - (mS * mS - xS - xS)) - yS := by
  have h2' : y2 ^ 2 = x2 ^ 3 + (y1 ^ 2 - x1 ^ 3) := by linear_combination h2 - h1
  have hP' : yP ^ 2 = xP ^ 3 + (y1 ^ 2 - x1 ^ 3) := by linear_combination hP - h1
  have hm : mT = 3 * (x1 * x1) / (2 * y1) := by rw [hmT]; congr 1; ring
  have hmS' : mS = 3 * (xS * xS) / (2 * yS) := by rw [hmS]; congr 1; ring
  have d1 : x2 - x1 ≠ 0 := sub_ne_zero.2 nTQ.symm
  have d2 : xS - x1 ≠ 0 := sub_ne_zero.2 nST
  have d3 : x1 - xS ≠ 0 := sub_ne_zero.2 nST.symm
  have hSc : yS ^ 2 = xS ^ 3 + b := chord_on_curve h1 h2 nTQ hlTQ hxS hyS
  obtain ⟨aUx, aUy⟩ := step_assoc two h1 h2 hmT hxD hyD hlTQ hxS hyS hlDQ hxU hyU ny1 nTQ nDQ nST
  have K1 := key_tangent_raw x1 y1 x2 y2 xP yP h2' hP' 2 two ny1 d1 mT xD yD lTQ xS yS lDQ ((yS - y1) / (xS - x1))
    hm hxD hyD hlTQ hxS hyS (sub_ne_zero.2 nDQ.symm) hlDQ d2 rfl rfl
  rw [line_symm nST.symm] at K1
  have hT' : y1 ^ 2 = x1 ^ 3 + (yS ^ 2 - xS ^ 3) := by linear_combination h1 - hSc
  have hPS : yP ^ 2 = xP ^ 3 + (yS ^ 2 - xS ^ 3) := by linear_combination hP - hSc
  have e1 : lTQ = (-yS - y1) / (xS - x1) := by
    rw [eq_div_iff d2, hyS]; ring
  have e2 : x2 = lTQ * lTQ - xS - x1 := by rw [hxS]; ring
  have e3 : y2 = y1 + lTQ * (x2 - x1) := by rw [hlTQ]; field_simp; ring
  have dU : x2 - xU ≠ 0 := sub_ne_zero.2 nUQ.symm
  have K2 := key_sum_raw xS yS x1 y1 xP yP hT' hPS 2 two nyS d2 d3 lTQ x2 y2 ((y1 - yS) / (x1 - xS)) xU yU lUQ mS
    e1 e2 e3 rfl aUx aUy dU hlUQ hmS' rfl
  have A1x := assoc_sum_x_raw xS yS x1 y1 hT' 2 two nyS d2 d3 lTQ x2 y2 ((y1 - yS) / (x1 - xS)) xU yU lUQ mS
    e1 e2 e3 rfl aUx aUy dU hlUQ hmS' rfl
  have A1y := assoc_sum_y_raw xS yS x1 y1 hT' 2 two nyS d2 d3 lTQ x2 y2 ((y1 - yS) / (x1 - xS)) xU yU lUQ mS
    e1 e2 e3 rfl aUx aUy dU hlUQ hmS' rfl
  refine ⟨?_, A1x, A1y⟩
  linear_combination (-((lTQ * (xP - x1) - (yP - y1)) * (xP - xD))) * K2
    + (-((lUQ * (xP - xU) - (yP - yU)) * (xP - xS))) * K1

end step

section minus
variable {b xU yU xQ yQ xP yP a xW yW a' : F}

/-- the digit −1: U + Q =: W, then W + (−Q) = U, and l(U,Q)·l(W,−Q) = v(Q)·v(W)·v(U) -/
theorem minus_step (hU : yU ^ 2 = xU ^ 3 + b) (hQ : yQ ^ 2 = xQ ^ 3 + b) (hP : yP ^ 2 = xP ^ 3 + b)
    (ha : a = (yQ - yU) / (xQ - xU)) (hxW : xW = a * a - xU - xQ) (hyW : yW = a * (xU - xW) - yU)
    (ha' : a' = (-yQ - yW) / (xQ - xW)) (nUQ : xU ≠ xQ) (nWQ : xW ≠ xQ) :
    (a * (xP - xU) - (yP - yU)) * (a' * (xP - xW) - (yP - yW)) = (xP - xQ) * (xP - xW) * (xP - xU)
      ∧ a' * a' - xW - xQ = xU ∧ a' * (xW - (a' * a' - xW - xQ)) - yW = yU := by
  have d1 : xQ - xU ≠ 0 := sub_ne_zero.2 nUQ.symm
  have d2 : xQ - xW ≠ 0 := sub_ne_zero.2 nWQ.symm
  have e : a' = -a := by
    rw [ha', div_eq_iff d2, hyW]
    have : a * (xQ - xU) = yQ - yU := by rw [ha]; field_simp
    linear_combination this
  have J := line_mirror_raw xU yU xQ yQ xP yP (by linear_combination hQ - hU) (by linear_combination hP - hU) d1 a xW yW
    ha hxW hyW
  subst e
  refine ⟨J, by rw [hxW]; ring, by rw [hyW, hxW]; ring⟩

end minus

end GmVerif.Proofs.SM9MillerAssoc
