/-
The SM9 curve y² = x³ + 5 over F_p has exactly N points (N prime), so G1 = ⟨P1⟩ is the whole curve:
instance of `Proofs.CurveOrder`.
"No point of order two" = −5 is not a cube modulo p: p ≡ 1 (mod 3), and a cube root r of −5 would give
(−5)^((p−1)/3) = r^(p−1) = 1, while the kernel evaluates `powMod (p − 5) ((p − 1)/3) p ≠ 1`.
-/
import GmVerif.Proofs.CurveOrder
import GmVerif.Proofs.SM9Algebra

namespace GmVerif.Proofs.SM9Order
open GmVerif GmVerif.Spec.EC GmVerif.Spec.SM9
open GmVerif.Proofs.SpecEC (Valid W)
open GmVerif.Proofs.SM9Algebra (sm9_valid sm9_P1_onCurve sm9_g1_order P1_ne_none p_prime N_prime)

/-- the cubic-residue certificate (one 254-step square-and-multiply in the kernel) -/
theorem cube_cert : powMod (p - 5) ((p - 1) / 3) p ≠ 1 := by decide +kernel

theorem three_mul_div : 3 * ((p - 1) / 3) = p - 1 := by decide

local instance factP : Fact (Nat.Prime p) := ⟨p_prime⟩

/-- −5 is not a cube modulo p -/
theorem no_cube_root (r : ZMod p) : r ^ 3 + (5 : ZMod p) ≠ 0 := by
  intro hr
  have hm5 : ((p - 5 : ℕ) : ZMod p) = -(5 : ZMod p) := by
    rw [Nat.cast_sub (by decide), ZMod.natCast_self, zero_sub]
    simp
  have h3 : r ^ 3 = ((p - 5 : ℕ) : ZMod p) := by
    rw [hm5]
    linear_combination hr
  have hr0 : r ≠ 0 := by
    rintro rfl
    have h5 : ((5 : ℕ) : ZMod p) = 0 := by
      have : (5 : ZMod p) = 0 := by linear_combination hr
      exact_mod_cast this
    rw [ZMod.natCast_eq_zero_iff] at h5
    exact absurd (Nat.le_of_dvd (by norm_num) h5) (by decide)
  have hone : ((p - 5 : ℕ) : ZMod p) ^ ((p - 1) / 3) = 1 := by
    rw [← h3, ← pow_mul, three_mul_div]
    exact ZMod.pow_card_sub_one_eq_one hr0
  exact cube_cert ((Primes.zmod_pow_eq_one_iff p (p - 5) ((p - 1) / 3) (by decide)).mp hone)

theorem sm9_noRoot : CurveOrder.NoRoot curve := by
  have h : ∀ r : ZMod p, r ^ 3 + ((0 : ℕ) : ZMod p) * r + ((5 : ℕ) : ZMod p) ≠ 0 :=
    fun r hr => no_cube_root r (by simpa using hr)
  exact h

theorem sm9_bound : 2 * curve.p + 1 < 3 * N := by decide

/-- #E(F_p) = N for the SM9 G1 curve -/
theorem sm9_g1_card : Nat.card (W curve).Point = N :=
  CurveOrder.card_eq sm9_valid N_prime sm9_bound sm9_noRoot sm9_P1_onCurve P1_ne_none sm9_g1_order

/-- `[N]P = O` for every on-curve point: the standard's test "P ∈ G1" is the on-curve test -/
theorem sm9_g1_mul_N {P : Pt} (hP : onCurve curve P = true) : mul curve N P = none :=
  CurveOrder.mul_card_eq_none sm9_valid sm9_g1_card hP

/-- every non-trivial point of the SM9 G1 curve has order N -/
theorem sm9_g1_mul_eq_none_iff_all {P : Pt} (hP : onCurve curve P = true) (hP0 : P ≠ none) (k : ℕ) :
    mul curve k P = none ↔ N ∣ k :=
  CurveOrder.mul_eq_none_iff_of_card sm9_valid N_prime sm9_g1_card hP hP0 k

theorem sm9_g1_mul_ne_none_of_not_dvd {c1 : ℕ × ℕ} (h : onCurve curve (some c1) = true) {d : ℕ} (hd : ¬ N ∣ d) :
    mul curve d (some c1) ≠ none :=
  fun h0 => hd ((sm9_g1_mul_eq_none_iff_all h (by simp) d).mp h0)

theorem sm9_g1_mul_ne_none_all {c1 : ℕ × ℕ} (h : onCurve curve (some c1) = true) {d : ℕ} (hd1 : 1 ≤ d) (hd : d < N) :
    mul curve d (some c1) ≠ none :=
  sm9_g1_mul_ne_none_of_not_dvd h fun hdvd => absurd (Nat.le_of_dvd (by omega) hdvd) (by omega)

/-- E(F_p) = G1 = ⟨P1⟩ -/
theorem sm9_exists_mul_P1 {P : Pt} (hP : onCurve curve P = true) : ∃ k, k < N ∧ mul curve k P1 = P :=
  CurveOrder.exists_mul_eq_of_card sm9_valid N_prime sm9_g1_card sm9_P1_onCurve P1_ne_none hP

end GmVerif.Proofs.SM9Order
