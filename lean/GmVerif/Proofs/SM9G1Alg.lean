/-
Generic (arbitrary field) identities behind the Jacobian point formulas of gm-sm9 G1 (`Impl.SM9.Point`):
the a = 0 doubling (with the halving `8Y⁴ = (16Y⁴)/2`) and the add-2007-bl style chord addition, which is the textbook
chord addition of `Proofs.SM2CurveAlg` rescaled by λ = 2: (X, Y, Z) ↦ (λ²X, λ³Y, λZ).
No GmVerif import besides the SM2 algebra file: pure algebra, used by `Proofs.SM9G1`.
-/
import GmVerif.Proofs.SM2CurveAlg

namespace GmVerif.Proofs.SM9G1Alg
open GmVerif.Proofs.SM2CurveAlg

variable {K : Type*} [Field K]

/-! ### the formulas of the code (simplified form) -/

/-- `t2 = 3·X²` -/
def dblM (X : K) : K := 3 * X ^ 2
def dblX (X Y : K) : K := dblM X ^ 2 - 8 * (X * Y ^ 2)
def dblY (X Y : K) : K := dblM X * (4 * (X * Y ^ 2) - dblX X Y) - 8 * Y ^ 4
def dblZ (Y Z : K) : K := 2 * Y * Z

/-- the sum computed by the code: the chord sum of `SM2CurveAlg` rescaled by 2 -/
def add2X (X1 Y1 Z1 X2 Y2 Z2 : K) : K := 4 * addX X1 Y1 Z1 X2 Y2 Z2
def add2Y (X1 Y1 Z1 X2 Y2 Z2 : K) : K := 8 * addY X1 Y1 Z1 X2 Y2 Z2
def add2Z (X1 Z1 X2 Z2 : K) : K := 2 * addZ X1 Z1 X2 Z2

/-! ### doubling, a = 0 -/

/-- the doubled point satisfies the Jacobian curve equation (a = 0), no side condition -/
theorem dbl_onCurve (b X Y Z : K) (E : Y ^ 2 = X ^ 3 + b * Z ^ 6) :
    dblY X Y ^ 2 = dblX X Y ^ 3 + b * dblZ Y Z ^ 6 := by
  simp only [dblY, dblX, dblZ, dblM]
  linear_combination (64 * Y ^ 6) * E

theorem dbl_x (a X Y Z : K) (ha : a = 0) (h2 : (2 : K) ≠ 0) (hZ : Z ≠ 0) (hY : Y ≠ 0) :
    dblX X Y / dblZ Y Z ^ 2
      = ((3 * (X / Z ^ 2) ^ 2 + a) / (2 * (Y / Z ^ 3))) ^ 2 - 2 * (X / Z ^ 2) := by
  subst ha
  simp only [dblX, dblZ, dblM]
  field_simp
  ring

theorem dbl_y (a X Y Z x3 : K) (ha : a = 0) (h2 : (2 : K) ≠ 0) (hZ : Z ≠ 0) (hY : Y ≠ 0)
    (hx3 : x3 = dblX X Y / dblZ Y Z ^ 2) :
    dblY X Y / dblZ Y Z ^ 3
      = ((3 * (X / Z ^ 2) ^ 2 + a) / (2 * (Y / Z ^ 3))) * (X / Z ^ 2 - x3) - Y / Z ^ 3 := by
  subst ha hx3
  simp only [dblY, dblX, dblZ, dblM]
  field_simp
  ring

theorem dblZ_eq_zero_iff (Y Z : K) (h2 : (2 : K) ≠ 0) (hZ : Z ≠ 0) : dblZ Y Z = 0 ↔ Y = 0 := by
  simp [dblZ, h2, hZ]

/-! ### rescaling a Jacobian triple -/

theorem scale_onCurve (a b l X Y Z : K) (E : Y ^ 2 = X ^ 3 + a * X * Z ^ 4 + b * Z ^ 6) :
    (l ^ 3 * Y) ^ 2 = (l ^ 2 * X) ^ 3 + a * (l ^ 2 * X) * (l * Z) ^ 4 + b * (l * Z) ^ 6 := by
  linear_combination (l ^ 6) * E

theorem scale_x (l X Z : K) (hl : l ≠ 0) : (l ^ 2 * X) / (l * Z) ^ 2 = X / Z ^ 2 := by
  rw [mul_pow, mul_div_mul_left _ _ (pow_ne_zero 2 hl)]

theorem scale_y (l Y Z : K) (hl : l ≠ 0) : (l ^ 3 * Y) / (l * Z) ^ 3 = Y / Z ^ 3 := by
  rw [mul_pow, mul_div_mul_left _ _ (pow_ne_zero 3 hl)]

/-! ### addition -/

theorem add2_onCurve (a b X1 Y1 Z1 X2 Y2 Z2 : K)
    (E1 : Y1 ^ 2 = X1 ^ 3 + a * X1 * Z1 ^ 4 + b * Z1 ^ 6)
    (E2 : Y2 ^ 2 = X2 ^ 3 + a * X2 * Z2 ^ 4 + b * Z2 ^ 6) :
    add2Y X1 Y1 Z1 X2 Y2 Z2 ^ 2
      = add2X X1 Y1 Z1 X2 Y2 Z2 ^ 3 + a * add2X X1 Y1 Z1 X2 Y2 Z2 * add2Z X1 Z1 X2 Z2 ^ 4
        + b * add2Z X1 Z1 X2 Z2 ^ 6 := by
  have h := scale_onCurve a b 2 _ _ _ (add_onCurve a b X1 Y1 Z1 X2 Y2 Z2 E1 E2)
  simp only [add2X, add2Y, add2Z]
  linear_combination h

theorem add2_x_eq (X1 Y1 Z1 X2 Y2 Z2 : K) (h2 : (2 : K) ≠ 0) :
    add2X X1 Y1 Z1 X2 Y2 Z2 / add2Z X1 Z1 X2 Z2 ^ 2 = addX X1 Y1 Z1 X2 Y2 Z2 / addZ X1 Z1 X2 Z2 ^ 2 := by
  have h := scale_x 2 (addX X1 Y1 Z1 X2 Y2 Z2) (addZ X1 Z1 X2 Z2) h2
  rw [← h]
  simp only [add2X, add2Z]
  norm_num

theorem add2_y_eq (X1 Y1 Z1 X2 Y2 Z2 : K) (h2 : (2 : K) ≠ 0) :
    add2Y X1 Y1 Z1 X2 Y2 Z2 / add2Z X1 Z1 X2 Z2 ^ 3 = addY X1 Y1 Z1 X2 Y2 Z2 / addZ X1 Z1 X2 Z2 ^ 3 := by
  have h := scale_y 2 (addY X1 Y1 Z1 X2 Y2 Z2) (addZ X1 Z1 X2 Z2) h2
  rw [← h]
  simp only [add2Y, add2Z]
  norm_num

theorem add2_x (X1 Y1 Z1 X2 Y2 Z2 : K) (h2 : (2 : K) ≠ 0) (hZ1 : Z1 ≠ 0) (hZ2 : Z2 ≠ 0)
    (hH : addH X1 Z1 X2 Z2 ≠ 0) :
    add2X X1 Y1 Z1 X2 Y2 Z2 / add2Z X1 Z1 X2 Z2 ^ 2
      = ((Y2 / Z2 ^ 3 - Y1 / Z1 ^ 3) / (X2 / Z2 ^ 2 - X1 / Z1 ^ 2)) ^ 2
          - X1 / Z1 ^ 2 - X2 / Z2 ^ 2 := by
  rw [← add_x X1 Y1 Z1 X2 Y2 Z2 hZ1 hZ2 hH, add2_x_eq _ _ _ _ _ _ h2]

theorem add2_y (X1 Y1 Z1 X2 Y2 Z2 x3 : K) (h2 : (2 : K) ≠ 0) (hZ1 : Z1 ≠ 0) (hZ2 : Z2 ≠ 0)
    (hH : addH X1 Z1 X2 Z2 ≠ 0) (hx3 : x3 = add2X X1 Y1 Z1 X2 Y2 Z2 / add2Z X1 Z1 X2 Z2 ^ 2) :
    add2Y X1 Y1 Z1 X2 Y2 Z2 / add2Z X1 Z1 X2 Z2 ^ 3
      = ((Y2 / Z2 ^ 3 - Y1 / Z1 ^ 3) / (X2 / Z2 ^ 2 - X1 / Z1 ^ 2)) * (X1 / Z1 ^ 2 - x3)
          - Y1 / Z1 ^ 3 := by
  have hx : x3 = addX X1 Y1 Z1 X2 Y2 Z2 / addZ X1 Z1 X2 Z2 ^ 2 := by
    rw [hx3, add2_x_eq _ _ _ _ _ _ h2]
  rw [← add_y X1 Y1 Z1 X2 Y2 Z2 x3 hZ1 hZ2 hH hx, add2_y_eq _ _ _ _ _ _ h2]

end GmVerif.Proofs.SM9G1Alg
