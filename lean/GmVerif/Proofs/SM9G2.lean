/-
G2 of SM9: `Spec.SM9.Fp2` (pairs of naturals, Fp[u]/(u² + 2)) is Mathlib's field `QuadraticAlgebra (ZMod p) (-2) 0`
(−2 is a quadratic non-residue mod p: Euler's criterion, evaluated by the kernel), and `add2`/`mul2` on the twist
E' : y² = x³ + 5u are the group law / scalar multiplication of Mathlib's `WeierstrassCurve.Affine.Point` over it.
Consequences on the Spec functions only: closure, commutativity, associativity, `mul2 (a+b)`, `mul2 (a*b)`, prime order.
-/
import Mathlib.Algebra.QuadraticAlgebra.Basic
import Mathlib.AlgebraicGeometry.EllipticCurve.Affine.Point
import Mathlib.NumberTheory.LegendreSymbol.Basic
import Mathlib.Tactic.Ring
import Mathlib.Tactic.LinearCombination
import GmVerif.Proofs.SpecEC
import GmVerif.Proofs.Primes
import GmVerif.Spec.SM9

namespace GmVerif.Proofs.SM9G2
open GmVerif GmVerif.Spec.EC GmVerif.Spec.SM9 GmVerif.Proofs.SpecEC
open WeierstrassCurve.Affine

instance : Fact (Nat.Prime p) := ⟨Proofs.Primes.sm9_p_prime⟩
instance : NeZero p := ⟨by decide⟩
theorem two_lt_p : 2 < p := by decide

/-- Euler's criterion, evaluated: (−2)^((p−1)/2) = −1 -/
theorem euler_neg_two : powMod (p - 2) (p / 2) p = p - 1 := by decide +kernel

theorem neg_two_nonsquare : ∀ r : ZMod p, r ^ 2 ≠ -2 + 0 * r := by
  intro r h
  have h2 : (-2 : ZMod p) = ((p - 2 : ℕ) : ZMod p) := by
    rw [cast_sub_of_le (by decide)]; norm_num
  have hne : (-2 : ZMod p) ≠ 0 := neg_ne_zero.mpr (two_ne_zero' two_lt_p)
  have hsq : IsSquare (-2 : ZMod p) := ⟨r, by rw [← pow_two, h]; ring⟩
  have := (ZMod.euler_criterion p hne).mp hsq
  rw [h2, ← cast_powMod, euler_neg_two] at this
  have h1 : ((1 : ℕ) : ZMod p) = 1 := Nat.cast_one
  rw [← h1, ZMod.natCast_eq_natCast_iff'] at this
  exact absurd this (by decide)

instance : Fact (∀ r : ZMod p, r ^ 2 ≠ -2 + 0 * r) := ⟨neg_two_nonsquare⟩

/-- Fp2 = Fp[u]/(u² + 2) as a Mathlib field -/
abbrev K := QuadraticAlgebra (ZMod p) (-2) 0

example : Field K := inferInstance

def ofK (z : K) : Fp2 := (z.re.val, z.im.val)

theorem ofK_injective {z w : K} (h : ofK z = ofK w) : z = w := by
  simp only [ofK, Prod.mk.injEq] at h
  exact QuadraticAlgebra.ext (ZMod.val_injective _ h.1) (ZMod.val_injective _ h.2)

theorem zero_ofK : Fp2.zero = ofK 0 := by
  simp [Fp2.zero, ofK]

theorem add_ofK (z w : K) : Fp2.add (ofK z) (ofK w) = ofK (z + w) := by
  refine Prod.ext (mod_eq_val_of_cast ?_) (mod_eq_val_of_cast ?_) <;> simp [ofK]

theorem neg_ofK (z : K) : Fp2.neg (ofK z) = ofK (-z) := by
  refine Prod.ext (mod_eq_val_of_cast ?_) (mod_eq_val_of_cast ?_) <;>
    simp [ofK, cast_sub_mod]

theorem sub_ofK (z w : K) : Fp2.sub (ofK z) (ofK w) = ofK (z - w) := by
  rw [Fp2.sub, neg_ofK, add_ofK, sub_eq_add_neg]

theorem mul_ofK (z w : K) : Fp2.mul (ofK z) (ofK w) = ofK (z * w) := by
  refine Prod.ext (mod_eq_val_of_cast ?_) (mod_eq_val_of_cast ?_)
  · simp only [ofK]
    push_cast [cast_sub_mod, ZMod.natCast_zmod_val]
    simp only [QuadraticAlgebra.re_mul]
    ring
  · simp only [ofK]
    push_cast [ZMod.natCast_zmod_val]
    simp only [QuadraticAlgebra.im_mul]
    ring

theorem scale_ofK (k : ℕ) (z : K) : Fp2.scale k (ofK z) = ofK ((k : K) * z) := by
  refine Prod.ext (mod_eq_val_of_cast ?_) (mod_eq_val_of_cast ?_)
  · simp only [ofK]
    push_cast [ZMod.natCast_zmod_val]
    simp [QuadraticAlgebra.re_mul]
  · simp only [ofK]
    push_cast [ZMod.natCast_zmod_val]
    simp [QuadraticAlgebra.im_mul]

theorem inv_ofK (z : K) : Fp2.inv (ofK z) = ofK z⁻¹ := by
  refine Prod.ext (mod_eq_val_of_cast ?_) (mod_eq_val_of_cast ?_)
  · simp only [ofK]
    push_cast [cast_sub_mod, ZMod.natCast_zmod_val, cast_invMod two_lt_p, ZMod.natCast_mod]
    simp [QuadraticAlgebra.re_inv, QuadraticAlgebra.norm_def]
    ring
  · simp only [ofK]
    push_cast [cast_sub_mod, ZMod.natCast_zmod_val, cast_invMod two_lt_p, ZMod.natCast_mod]
    simp [QuadraticAlgebra.im_inv, QuadraticAlgebra.norm_def]
    ring

/-! ### the twist as a Mathlib curve -/

/-- E' : y² = x³ + 5u over Fp2 -/
def W2 : WeierstrassCurve.Affine K := { a₁ := 0, a₂ := 0, a₃ := 0, a₄ := 0, a₆ := ⟨0, 5⟩ }

@[simp] theorem W2_a₁ : W2.a₁ = 0 := rfl
@[simp] theorem W2_a₂ : W2.a₂ = 0 := rfl
@[simp] theorem W2_a₃ : W2.a₃ = 0 := rfl
@[simp] theorem W2_a₄ : W2.a₄ = 0 := rfl
@[simp] theorem W2_a₆ : W2.a₆ = ⟨0, 5⟩ := rfl

theorem bTwist_ofK : bTwist = ofK ⟨0, 5⟩ := by
  have h5 : ((5 : ℕ) : ZMod p).val = 5 := ZMod.val_cast_of_lt (by decide)
  simp only [bTwist, ofK, ZMod.val_zero]
  rw [← h5]; simp

theorem W2_equation_iff (x y : K) : W2.Equation x y ↔ y * y = x * x * x + ⟨0, 5⟩ := by
  rw [WeierstrassCurve.Affine.equation_iff]
  simp only [W2_a₁, W2_a₂, W2_a₃, W2_a₄, W2_a₆]
  constructor <;> intro h <;> linear_combination h

theorem natCast_ne_zero (n : ℕ) (hn : n % p ≠ 0) : ((n : ℕ) : K) ≠ 0 := by
  intro h
  have := congrArg QuadraticAlgebra.re h
  rw [QuadraticAlgebra.re_natCast, QuadraticAlgebra.re_zero, ZMod.natCast_eq_zero_iff] at this
  exact hn (Nat.mod_eq_zero_of_dvd this)

theorem W2_Δ_ne_zero : W2.Δ ≠ 0 := by
  have h : W2.Δ = -((432 : ℕ) : K) * (⟨0, 5⟩ : K) ^ 2 := by
    simp only [WeierstrassCurve.Δ, WeierstrassCurve.b₂, WeierstrassCurve.b₄, WeierstrassCurve.b₆,
      WeierstrassCurve.b₈, W2_a₁, W2_a₂, W2_a₃, W2_a₄, W2_a₆]
    push_cast
    ring
  rw [h]
  refine mul_ne_zero (neg_ne_zero.mpr (natCast_ne_zero 432 (by decide))) (pow_ne_zero _ ?_)
  intro h0
  have := congrArg QuadraticAlgebra.im h0
  simp only [QuadraticAlgebra.im_zero] at this
  have h5 : ((5 : ℕ) : ZMod p) = 0 := by exact_mod_cast this
  rw [ZMod.natCast_eq_zero_iff] at h5
  exact absurd (Nat.mod_eq_zero_of_dvd h5) (by decide)

def ofPoint2 : W2.Point → Pt2
  | .zero => none
  | .some x y _ => some (ofK x, ofK y)

theorem ofK_eq_zero_iff (z w : K) : Fp2.add (ofK z) (ofK w) = Fp2.zero ↔ z = -w := by
  rw [add_ofK, zero_ofK]
  constructor
  · intro h; exact eq_neg_of_add_eq_zero_left (ofK_injective h)
  · intro h; rw [h, neg_add_cancel]

theorem add2_ofPoint (P Q : W2.Point) : add2 (ofPoint2 P) (ofPoint2 Q) = ofPoint2 (P + Q) := by
  rcases P with _ | ⟨x1, y1, h1⟩
  · have : (Point.zero : W2.Point) + Q = Q := zero_add Q
    rw [this]; simp [ofPoint2, add2]
  rcases Q with _ | ⟨x2, y2, hh2⟩
  · have : (Point.some x1 y1 h1 : W2.Point) + Point.zero = Point.some x1 y1 h1 := add_zero _
    rw [this]; simp [ofPoint2, add2]
  simp only [ofPoint2, add2]
  by_cases hx : x1 = x2
  · subst hx
    rw [if_pos rfl]
    by_cases hy : y1 = -y2
    · rw [if_pos ((ofK_eq_zero_iff y1 y2).mpr hy)]
      rw [Point.add_of_Y_eq rfl (by simp [hy])]
    · rw [if_neg (fun h => hy ((ofK_eq_zero_iff y1 y2).mp h))]
      have hy' : y1 ≠ W2.negY x1 y2 := by simpa using hy
      rw [Point.add_of_Y_ne hy']
      have hsl : W2.slope x1 x1 y1 y2 = ((3 : ℕ) : K) * (x1 * x1) * (((2 : ℕ) : K) * y1)⁻¹ := by
        rw [slope_of_Y_ne rfl hy']
        simp only [negY, W2_a₁, W2_a₂, W2_a₃, W2_a₄, div_eq_mul_inv]
        push_cast
        ring
      simp only [scale_ofK, mul_ofK, inv_ofK, sub_ofK]
      show some (_, _) = some (ofK _, ofK _)
      rw [hsl]
      refine congrArg some (Prod.ext (congrArg ofK ?_) (congrArg ofK ?_))
      · simp only [addX, W2_a₁, W2_a₂]
        push_cast
        ring
      · simp only [addY, negAddY, negY, addX, W2_a₁, W2_a₂, W2_a₃]
        push_cast
        ring
  · have hxv : ofK x1 ≠ ofK x2 := fun h => hx (ofK_injective h)
    rw [if_neg hxv, Point.add_of_X_ne hx]
    have hsl : W2.slope x1 x2 y1 y2 = (y2 - y1) * (x2 - x1)⁻¹ := by
      rw [slope_of_X_ne hx, div_eq_mul_inv, ← neg_sub y2 y1, ← neg_sub x2 x1, inv_neg]
      ring
    simp only [mul_ofK, inv_ofK, sub_ofK]
    show some (_, _) = some (ofK _, ofK _)
    rw [hsl]
    refine congrArg some (Prod.ext (congrArg ofK ?_) (congrArg ofK ?_))
    · simp only [addX, W2_a₁, W2_a₂]
      ring
    · simp only [addY, negAddY, negY, addX, W2_a₁, W2_a₂, W2_a₃]
      ring

theorem mul2_ofPoint (k : ℕ) (P : W2.Point) : mul2 k (ofPoint2 P) = ofPoint2 (k • P) := by
  induction k using Nat.strong_induction_on generalizing P with
  | _ k ih =>
    rw [mul2]
    split
    · next h => subst h; rw [zero_nsmul]; rfl
    · next h =>
      simp only [add2_ofPoint, ih (k / 2) (by omega)]
      split
      · next h1 =>
        congr 1
        have hk : k = 1 + 2 * (k / 2) := by omega
        conv_rhs => rw [hk, add_nsmul, mul_nsmul, one_nsmul, two_nsmul]
      · next h0 =>
        congr 1
        have hk : k = 2 * (k / 2) := by omega
        conv_rhs => rw [hk, mul_nsmul, two_nsmul]

/-- canonical pair → field element -/
def toK (a : Fp2) : K := ⟨(a.1 : ZMod p), (a.2 : ZMod p)⟩

theorem ofK_toK (a : Fp2) (h1 : a.1 < p) (h2 : a.2 < p) : ofK (toK a) = a := by
  simp only [ofK, toK, ZMod.val_cast_of_lt h1, ZMod.val_cast_of_lt h2]

theorem exists_ofPoint2 {P : Pt2} (hP : onTwist P = true) : ∃ P' : W2.Point, P = ofPoint2 P' := by
  rcases P with _ | ⟨x, y⟩
  · exact ⟨0, rfl⟩
  · simp only [onTwist, Bool.and_eq_true, decide_eq_true_eq, beq_iff_eq] at hP
    obtain ⟨⟨⟨⟨hx1, hx2⟩, hy1⟩, hy2⟩, heq⟩ := hP
    have hx := ofK_toK x hx1 hx2
    have hy := ofK_toK y hy1 hy2
    rw [← hx, ← hy, bTwist_ofK] at heq
    simp only [mul_ofK, add_ofK] at heq
    have heq' := (W2_equation_iff (toK x) (toK y)).mpr (ofK_injective heq)
    refine ⟨.some (toK x) (toK y)
      ((WeierstrassCurve.Affine.equation_iff_nonsingular_of_Δ_ne_zero W2_Δ_ne_zero).mp heq'), ?_⟩
    simp only [ofPoint2, hx, hy]

/-! ### the group laws on `Spec.SM9.add2` / `mul2`, for all points of the twist -/

theorem onTwist_ofPoint2 (P : W2.Point) : onTwist (ofPoint2 P) = true := by
  rcases P with _ | ⟨x, y, h⟩
  · rfl
  · simp only [ofPoint2, onTwist, Bool.and_eq_true, decide_eq_true_eq, beq_iff_eq]
    refine ⟨⟨⟨⟨ZMod.val_lt x.re, ZMod.val_lt x.im⟩, ZMod.val_lt y.re⟩, ZMod.val_lt y.im⟩, ?_⟩
    rw [bTwist_ofK]
    simp only [mul_ofK, add_ofK]
    exact congrArg ofK ((W2_equation_iff x y).mp h.1)

theorem onTwist_add2 {P Q : Pt2} (hP : onTwist P = true) (hQ : onTwist Q = true) :
    onTwist (add2 P Q) = true := by
  obtain ⟨P', rfl⟩ := exists_ofPoint2 hP
  obtain ⟨Q', rfl⟩ := exists_ofPoint2 hQ
  rw [add2_ofPoint]; exact onTwist_ofPoint2 _

theorem onTwist_mul2 (k : ℕ) {P : Pt2} (hP : onTwist P = true) : onTwist (mul2 k P) = true := by
  obtain ⟨P', rfl⟩ := exists_ofPoint2 hP
  rw [mul2_ofPoint]; exact onTwist_ofPoint2 _

theorem add2_comm {P Q : Pt2} (hP : onTwist P = true) (hQ : onTwist Q = true) :
    add2 P Q = add2 Q P := by
  obtain ⟨P', rfl⟩ := exists_ofPoint2 hP
  obtain ⟨Q', rfl⟩ := exists_ofPoint2 hQ
  rw [add2_ofPoint, add2_ofPoint, add_comm]

theorem add2_assoc {P Q R : Pt2} (hP : onTwist P = true) (hQ : onTwist Q = true)
    (hR : onTwist R = true) : add2 (add2 P Q) R = add2 P (add2 Q R) := by
  obtain ⟨P', rfl⟩ := exists_ofPoint2 hP
  obtain ⟨Q', rfl⟩ := exists_ofPoint2 hQ
  obtain ⟨R', rfl⟩ := exists_ofPoint2 hR
  simp only [add2_ofPoint, add_assoc]

theorem mul2_add (k₁ k₂ : ℕ) {P : Pt2} (hP : onTwist P = true) :
    mul2 (k₁ + k₂) P = add2 (mul2 k₁ P) (mul2 k₂ P) := by
  obtain ⟨P', rfl⟩ := exists_ofPoint2 hP
  simp only [mul2_ofPoint, add2_ofPoint, add_nsmul]

theorem mul2_mul (k₁ k₂ : ℕ) {P : Pt2} (hP : onTwist P = true) :
    mul2 k₁ (mul2 k₂ P) = mul2 (k₁ * k₂) P := by
  obtain ⟨P', rfl⟩ := exists_ofPoint2 hP
  simp only [mul2_ofPoint, mul_nsmul']

theorem mul2_none (k : ℕ) : mul2 k none = none := by
  have := mul2_ofPoint k (0 : W2.Point)
  rw [nsmul_zero] at this
  exact this

theorem ofPoint2_eq_none_iff (P : W2.Point) : ofPoint2 P = none ↔ P = 0 := by
  rcases P with _ | ⟨x, y, h⟩
  · exact ⟨fun _ => rfl, fun _ => rfl⟩
  · constructor
    · intro h'; simp [ofPoint2] at h'
    · intro h'; exact absurd h' (Point.some_ne_zero h)

/-- if `[n]P = O` for a prime `n` and `P ≠ O`, then `[k]P = O ↔ n ∣ k` -/
theorem mul2_eq_none_iff_of_prime_order {n : ℕ} (hnp : Nat.Prime n) {P : Pt2}
    (hP : onTwist P = true) (hP0 : P ≠ none) (hn : mul2 n P = none) (k : ℕ) :
    mul2 k P = none ↔ n ∣ k := by
  obtain ⟨P', rfl⟩ := exists_ofPoint2 hP
  rw [mul2_ofPoint, ofPoint2_eq_none_iff] at *
  have hP0' : P' ≠ 0 := fun h => hP0 (by rw [h]; rfl)
  have hord : addOrderOf P' = n := by
    have hd : addOrderOf P' ∣ n := addOrderOf_dvd_of_nsmul_eq_zero hn
    rcases (Nat.dvd_prime hnp).mp hd with h1 | h1
    · exact absurd (AddMonoid.addOrderOf_eq_one_iff.mp h1) hP0'
    · exact h1
  rw [← hord]
  exact (addOrderOf_dvd_iff_nsmul_eq_zero).symm

end GmVerif.Proofs.SM9G2
