/-
C19a: the DER writer/reader of the model for the GM/T 0009 ciphertext SEQUENCE { x INTEGER, y INTEGER, hash OCTET STRING,
cipher OCTET STRING }: the writer equals the specification's encoder, the reader inverts it for every coordinate value,
`decrypt_asn1` / `encrypt_asn1` are `decrypt` / `encrypt` through that encoding, and `decrypt_asn1` never panics.
Only the property theorems; all work is in `GmVerif.Proofs.SM2Logic`.
-/
import GmVerif.Proofs.SM2Logic

namespace GmVerif.Thm.C19a
open GmVerif
open GmVerif.Proofs.SM2Logic.Ex (ctEx derEx)

/-- `write_biguint` (model) = X.690 INTEGER of the specification, for every 256-bit value -/
theorem derBiguint_eq_spec (x : Nat) (h : x < 2^256) : Impl.SM2.derBiguint x = Spec.SM2.derInteger x :=
  Proofs.SM2Logic.derBiguint_eq_spec x h

/-- zero, top bit clear, top bit set (sign byte), a full 32-byte value with the top bit set (33 content bytes) -/
example : Spec.SM2.derInteger 0 = [0x02, 0x01, 0x00] := by decide +kernel
example : Spec.SM2.derInteger 0x7F = [0x02, 0x01, 0x7F] := by decide +kernel
example : Spec.SM2.derInteger 0x80 = [0x02, 0x02, 0x00, 0x80] := by decide +kernel
example : Spec.SM2.derInteger (2 ^ 255) = [0x02, 0x21, 0x00, 0x80] ++ List.replicate 31 0 := by decide +kernel
example : Impl.SM2.derBiguint (2 ^ 255) = Spec.SM2.derInteger (2 ^ 255) := derBiguint_eq_spec _ (by decide)

theorem derBytes_eq_spec (b : List UInt8) : Impl.SM2.derBytes b = Spec.SM2.derOctets b :=
  Proofs.SM2Logic.derBytes_eq_spec b

/-- short and long form of the length -/
example : Spec.SM2.derOctets [7, 8] = [0x04, 0x02, 7, 8] := by decide +kernel
example : (Spec.SM2.derOctets (List.replicate 300 1)).take 4 = [0x04, 0x82, 0x01, 0x2C] := by decide +kernel

/-- the reader inverts the writer for EVERY coordinate value (leading zero bytes, top bit set, zero) and every C3/C2 whose
    length is < 2^32 -/
theorem parse_asn1 (x y : Nat) (hx : x < 2^256) (hy : y < 2^256) (h c : List UInt8) (hh : h.length < 2^32) (hc : c.length < 2^32) :
    ∃ xb yb, Impl.SM2.parseCiphertext (Spec.SM2.asn1Ciphertext x y h c) = some (xb, yb, h, c) ∧ beNat xb = x ∧ beNat yb = y
      ∧ xb.length ≤ 32 ∧ yb.length ≤ 32 :=
  Proofs.SM2Logic.parse_asn1 x y hx hy h c hh hc

/-- x with 31 leading zero bytes, y with the top bit set, a 200-byte C2 (long-form lengths); and x = 0 -/
example : Impl.SM2.parseCiphertext (Spec.SM2.asn1Ciphertext 1 (2 ^ 255) (List.replicate 32 7) (List.replicate 200 9)) =
    some ([1], 0x80 :: List.replicate 31 0, List.replicate 32 7, List.replicate 200 9) := by decide +kernel
example : Impl.SM2.parseCiphertext (Spec.SM2.asn1Ciphertext 0 (2 ^ 256 - 1) [] []) =
    some ([0], List.replicate 32 0xFF, [], []) := by decide +kernel
/-- the reader rejects non-minimal INTEGERs, trailing bytes and truncation -/
example : Impl.SM2.parseCiphertext [0x30, 0x0B, 0x02, 0x02, 0x00, 0x01, 0x02, 0x01, 0x01, 0x04, 0x00, 0x04, 0x00] = none := by
  decide +kernel
example : Impl.SM2.parseCiphertext (Spec.SM2.asn1Ciphertext 1 2 [] [] ++ [0]) = none := by decide +kernel
example : Impl.SM2.parseCiphertext ((Spec.SM2.asn1Ciphertext 1 2 [] [3]).dropLast) = none := by decide +kernel

/-- decrypt_asn1 of the DER form of a raw ciphertext 04‖x‖y‖C3‖C2 equals decrypt of the raw form: for every ephemeral
    point (every x, y < 2^256, in particular coordinates with leading zero bytes) -/
theorem decrypt_asn1_der (d : Nat) (x y : Nat) (_hx : x < 2^256) (_hy : y < 2^256) (c3 c2 : List UInt8) (h3 : c3.length = 32) (h2 : c2.length < 2^32) :
    Impl.SM2.decrypt_asn1 d (Spec.SM2.asn1Ciphertext x y c3 c2)
      = Impl.SM2.decrypt d ([0x04] ++ natBE 32 x ++ natBE 32 y ++ c3 ++ c2) false .c1c3c2 :=
  Proofs.SM2Logic.decrypt_asn1_der d x y c3 c2 h3 h2

/-- `derEx` = what `encrypt_asn1 (g_mul 5) "abc" [07…07]` returns, `ctEx` = the raw C1‖C3‖C2 of the same encryption -/
example : derEx = Spec.SM2.asn1Ciphertext (beNat ((ctEx.drop 1).take 32)) (beNat ((ctEx.drop 33).take 32))
    ((ctEx.drop 65).take 32) (ctEx.drop 97) := by decide +kernel
/-- non-vacuity: the DER ciphertext decrypts (kernel evaluation of the model) -/
example : Impl.SM2.decrypt_asn1 5 derEx = .ok [0x61, 0x62, 0x63] := by decide +kernel

/-- encrypt_asn1 produces exactly the GM/T 0009 SEQUENCE of the fields of the raw ciphertext -/
theorem encrypt_asn1_der (pk : Impl.SM2.Point) (msg : List UInt8) (cands : List (List UInt8)) (r : Impl.SM2.Rand (List UInt8))
    (h : Impl.SM2.encrypt pk msg false .c1c3c2 cands = .ok r) (_hlen : r.val.length ≥ 97) :
    ∃ r', Impl.SM2.encrypt_asn1 pk msg cands = .ok r' ∧ r'.used = r.used ∧
      r'.val = Spec.SM2.asn1Ciphertext (beNat ((r.val.drop 1).take 32)) (beNat ((r.val.drop 33).take 32)) ((r.val.drop 65).take 32) (r.val.drop 97) :=
  Proofs.SM2Logic.encrypt_asn1_der pk msg cands r h

/-- non-vacuity: the hypothesis is satisfiable and the conclusion is what the model computes -/
example : (Impl.SM2.encrypt (Impl.SM2.g_mul 5) [0x61, 0x62, 0x63] false .c1c3c2 [List.replicate 32 0x07]).map (·.val) = .ok ctEx := by
  decide +kernel
example : (Impl.SM2.encrypt_asn1 (Impl.SM2.g_mul 5) [0x61, 0x62, 0x63] [List.replicate 32 0x07]).map (·.val) = .ok derEx := by
  decide +kernel

theorem decrypt_asn1_total (d : Nat) (der : List UInt8) : Impl.SM2.decrypt_asn1 d der ≠ .panic :=
  Proofs.SM2Logic.decrypt_asn1_total d der

example : Impl.SM2.decrypt_asn1 5 [] = .err "InvalidDer" := by decide +kernel
example : Impl.SM2.decrypt_asn1 5 (derEx.take 50) ≠ .panic := decrypt_asn1_total _ _

end GmVerif.Thm.C19a
