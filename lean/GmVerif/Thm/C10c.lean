/-
C10c: the refinement theorems of SM9 encryption / decryption (`Thm.C10b`) WITHOUT the hypotheses `PairingRefines` and
`TowerDense`.

DISCHARGED:
* `PairingRefines` (the model's pairing routine returns a canonical tower element denoting `Spec.SM9.pairing` on G1 × G2)
  is now a theorem, `Thm.C12g.pairingRefines` (no hypothesis);
* `TowerDense` (tower multiplication is dense multiplication) is `Thm.C09b.tower_dense` (no hypothesis).
Every theorem of `Thm.C10b` that took `(PR : PairingRefines)` (and possibly `(TD : TowerDense)`) is restated here under the
same name, with the same statement minus these hypotheses, and proved by applying the original.  `dense_pow` (which took
`TD` only) is restated as well.

WHAT REMAINS (genuine preconditions, not proof gaps):
* `Valid m.ppube` — the master public key is a valid representation of a point of the curve; `InG2 key.de` — the private
  key is a valid representation of a point of G2 (true for every extracted key);
* `hfin` (C1 = [r]Q_B is never the point at infinity) in `encrypt_refines` / `encrypt_ok_iff` / `encrypt_empty` — holds
  for an honest key: `encrypt_refines_honest`;
* the length conditions 1 ≤ |M| ≤ 255, |C| ≤ 352 (the domain of C10; outside it the differences are stated exactly in
  `Thm.C10b.encrypt_long_panics`, `decrypt_long`, `encrypt_empty`);
* `PairingFacts` (bilinearity and non-degeneracy of the SPECIFICATION's textbook pairing; a statement about `Spec.SM9`
  only, NOT proved) — in `encrypt_then_decrypt_impl` / `encrypt_then_decrypt_own_key` only.
The hypothesis-free theorems of `Thm.C10b` (`encrypt_no_panic`, `sampler_refines`, `decrypt_long`, `noncanonical_rejected`,
`spec_decrypt_iff`, …) are not repeated.
-/
import GmVerif.Thm.C10b
import GmVerif.Thm.C09b
import GmVerif.Thm.C12g

namespace GmVerif.Thm.C10c
open GmVerif GmVerif.Impl.SM9
open GmVerif.Proofs.SM9Bridge (dense TowerDense PairingRefines InG2)
open GmVerif.Proofs.SM9Tower (Canon12)
open GmVerif.Proofs.SM9Algebra (PairingFacts)
open GmVerif.Thm.C13c (Valid toSpec)
open GmVerif.Thm.C13d (Valid2 toSpec2)
open GmVerif.Spec.SM9 (curve N p)
open GmVerif.Thm.SpecSM9 (exKe exIdB exDeB exMsgE exRE)
open GmVerif.Thm.C10b (Accept firstAccepted QB specEncLoop c1X c1Y CanonC1 decTail)

/-- the discharged hypotheses -/
theorem pairingRefines : PairingRefines := Thm.C12g.pairingRefines
theorem towerDense : TowerDense := Thm.C09b.tower_dense

/-! ## 1 — `Fp12::pow` -/

/-- for a canonical base and e ≤ N − 1, `Fp12::pow` returns (no panic) a canonical element denoting the specification's
power, and its 384 octets are the specification's -/
theorem dense_pow (a : Fp12) (ha : Canon12 a) (e : Nat) (he : e ≤ N - 1) :
    ∃ r, a.pow e = .ok r ∧ Canon12 r ∧ dense r = Spec.SM9.Fp12.pow (dense a) e
      ∧ r.to_bytes_be = Spec.SM9.Fp12.toBytes (Spec.SM9.Fp12.pow (dense a) e) :=
  C10b.dense_pow towerDense a ha e he
example : ∃ r, Fp12.one.pow 5 = .ok r ∧ dense r = Spec.SM9.Fp12.pow (dense Fp12.one) 5 :=
  let ⟨r, h1, _, h3, _⟩ := dense_pow Fp12.one Proofs.SM9EncRefinesBase.canon_one 5 (by decide)
  ⟨r, h1, h3⟩

/-! ## 2 — encryption -/

/-- THE PROPERTY (encryption): for every valid representation of the master public key, every identity, every message of
1..255 bytes and every list of candidates, `encrypt` returns EXACTLY the result of the standard's loop — the octets
C1 ‖ C3 ‖ C2 of `Spec.SM9.encryptWith` for the accepted r, the scalars logged, the candidates left — and
`rng-exhausted` when the standard's loop finds no r; it never panics.
`hfin` (C1 = [r]Q_B is never the point at infinity) holds for an honest key: `encrypt_refines_honest`. -/
theorem encrypt_refines (m : Sm9EncMasterKey) (hv : Valid m.ppube)
    (idb data : List UInt8) (hne : data ≠ []) (hlen : data.length ≤ 255)
    (hfin : ∀ r, Accept r → Spec.EC.mul curve r (QB (toSpec m.ppube) idb) ≠ none)
    (cands : List (List UInt8)) :
    m.encrypt idb data cands =
      match specEncLoop (toSpec m.ppube) idb data cands [] with
      | some res => .ok res
      | none => .err "rng-exhausted" :=
  C10b.encrypt_refines pairingRefines towerDense m hv idb data hne hlen hfin cands

/-- … with Ppub-e = [ke]P1 and an identity that has a private key (H1(ID_B ‖ 03) + ke ≢ 0 mod N) -/
theorem encrypt_refines_honest (ke : Nat) (ppube : Point) (hv : Valid ppube)
    (hpp : toSpec ppube = Spec.SM9.encMasterPub ke) (idb data : List UInt8)
    (hext : (Spec.SM9.H1 (idb ++ [Spec.SM9.hidEnc]) + ke) % N ≠ 0) (hne : data ≠ []) (hlen : data.length ≤ 255)
    (cands : List (List UInt8)) :
    (⟨ke, ppube⟩ : Sm9EncMasterKey).encrypt idb data cands =
      match specEncLoop (Spec.SM9.encMasterPub ke) idb data cands [] with
      | some res => .ok res
      | none => .err "rng-exhausted" :=
  C10b.encrypt_refines_honest pairingRefines towerDense ke ppube hv hpp idb data hext hne hlen cands

/-- non-vacuity, no hypothesis left, GM/T 0044.5 Annex C: master key ke, identity "Bob", message "Chinese IBE standard",
r of the Annex as the only candidate: the model returns the standard's ciphertext for that r (or `rng-exhausted` if K1
were all zero) -/
example : ∃ P, Point.g_mul exKe = .ok P ∧
    (⟨exKe, P⟩ : Sm9EncMasterKey).encrypt exIdB exMsgE [natBE 32 exRE] =
      match Spec.SM9.encryptWith (Spec.SM9.encMasterPub exKe) exIdB exMsgE exRE with
      | some ct => .ok ⟨ct, [exRE], []⟩
      | none => .err "rng-exhausted" := by
  obtain ⟨P, h1, h2, h3⟩ := Thm.C13c.g_mul_correct exKe (by decide)
  refine ⟨P, h1, ?_⟩
  have ha : Accept (beNat (natBE 32 exRE)) := by rw [C10b.ex_re_bytes]; decide
  rw [encrypt_refines_honest exKe P h2 h3 exIdB exMsgE C10b.ex_ext (by decide) (by decide),
    C10b.specEncLoop_single _ _ _ _ ha, C10b.ex_re_bytes]
  cases Spec.SM9.encryptWith (Spec.SM9.encMasterPub exKe) exIdB exMsgE exRE <;> rfl

/-- the "accepted r" form: a successful `encrypt` means that the LAST logged scalar r is in the acceptance set, the output
is `encryptWith` for that r, and every scalar logged before it was accepted by the sampler and sent back to A2 by the
standard (K1 all zero); conversely such a run of the standard's loop is reproduced by the model -/
theorem encrypt_ok_iff (m : Sm9EncMasterKey) (hv : Valid m.ppube)
    (idb data : List UInt8) (hne : data ≠ []) (hlen : data.length ≤ 255)
    (hfin : ∀ r, Accept r → Spec.EC.mul curve r (QB (toSpec m.ppube) idb) ≠ none)
    (cands : List (List UInt8)) (res : Rand (List UInt8)) :
    (m.encrypt idb data cands = .ok res ↔ specEncLoop (toSpec m.ppube) idb data cands [] = some res)
    ∧ (m.encrypt idb data cands = .ok res →
        ∃ r skipped, res.used = skipped ++ [r] ∧ Accept r
          ∧ Spec.SM9.encryptWith (toSpec m.ppube) idb data r = some res.val
          ∧ (∀ s ∈ skipped, Accept s ∧ Spec.SM9.encryptWith (toSpec m.ppube) idb data s = none)
          ∧ res.used.length + res.rest.length ≤ cands.length) :=
  C10b.encrypt_ok_iff pairingRefines towerDense m hv idb data hne hlen hfin cands res

/-- THE EMPTY MESSAGE (difference, stated exactly; the standard never produces a ciphertext for M = ε:
`Thm.C10b.encryptWith_empty`): the model takes the FIRST accepted candidate, does not test K1 (no retry) and returns
C1 ‖ MAC(K2, ε) with K2 = KDF(C1 ‖ w ‖ ID_B, 32) — 97 octets, which its own `decrypt` refuses (`InvalidFieldLen`) -/
theorem encrypt_empty (m : Sm9EncMasterKey) (hv : Valid m.ppube)
    (idb : List UInt8) (hfin : ∀ r, Accept r → Spec.EC.mul curve r (QB (toSpec m.ppube) idb) ≠ none)
    (cands : List (List UInt8)) :
    m.encrypt idb [] cands =
      match firstAccepted cands with
      | none => .err "rng-exhausted"
      | some (r, rest) =>
        let C1 := Spec.EC.mul curve r (QB (toSpec m.ppube) idb)
        let z := Spec.SM9.pointBytes C1
          ++ Spec.SM9.Fp12.toBytes (Spec.SM9.Fp12.pow (Spec.SM9.pairing (toSpec m.ppube) Spec.SM9.P2) r) ++ idb
        .ok ⟨Spec.SM9.encodePoint C1 ++ Spec.SM9.mac (Spec.SM9.kdf z 32) [], [r], rest⟩ :=
  C10b.encrypt_empty pairingRefines towerDense m hv idb hfin cands

/-! ## 3 — decryption -/

/-- THE PROPERTY (decryption): for every private key in G2, every identity and EVERY byte string of at most 352 octets
(C1 ‖ C3 ‖ C2 with at most 255 message octets — the domain of C10) the model returns a plaintext exactly when the standard
does, and the same one; otherwise it returns an error (never panics: `Thm.C10.decrypt_total`). -/
theorem decrypt_refines (key : Sm9EncKey) (hde : InG2 key.de) (idb ct msg : List UInt8)
    (hlen : ct.length ≤ 352) :
    key.decrypt idb ct = .ok msg ↔ Spec.SM9.decrypt (toSpec2 key.de) idb ct = some msg :=
  C10b.decrypt_refines pairingRefines key hde idb ct msg hlen

/-- EVERY byte string, no side condition: the model decrypts to `msg` exactly when the standard decrypts to `msg` and the
ciphertext has at most 352 octets.  The length limit is the one remaining difference (`Thm.C10b.decrypt_long`). -/
theorem decrypt_exact (key : Sm9EncKey) (hde : InG2 key.de) (idb ct msg : List UInt8) :
    key.decrypt idb ct = .ok msg ↔
      (Spec.SM9.decrypt (toSpec2 key.de) idb ct = some msg ∧ ct.length ≤ 352) :=
  C10b.decrypt_exact pairingRefines key hde idb ct msg

/-- soundness (every byte string) and completeness (at most 352 octets) separately -/
theorem decrypt_sound (key : Sm9EncKey) (hde : InG2 key.de) (idb ct msg : List UInt8)
    (h : key.decrypt idb ct = .ok msg) : Spec.SM9.decrypt (toSpec2 key.de) idb ct = some msg :=
  C10b.decrypt_sound pairingRefines key hde idb ct msg h
theorem decrypt_complete (key : Sm9EncKey) (hde : InG2 key.de) (idb ct msg : List UInt8)
    (hlen : ct.length ≤ 352) (h : Spec.SM9.decrypt (toSpec2 key.de) idb ct = some msg) : key.decrypt idb ct = .ok msg :=
  C10b.decrypt_complete pairingRefines key hde idb ct msg hlen h

/-- when the standard reports an error (any byte string) the model returns an error — never a plaintext, never a panic -/
theorem decrypt_refines_none (key : Sm9EncKey) (hde : InG2 key.de) (idb ct : List UInt8)
    (h : Spec.SM9.decrypt (toSpec2 key.de) idb ct = none) : ∃ e, key.decrypt idb ct = .err e :=
  C10b.decrypt_refines_none pairingRefines key hde idb ct h

/-- the model on EVERY ciphertext of 98..352 octets, in the standard's terms: success iff the prefix is 04, both
coordinates are field elements, the point is on the curve, and B2–B6 hold -/
theorem decrypt_model (key : Sm9EncKey) (hde : InG2 key.de) (idb ct msg : List UInt8)
    (h1 : 98 ≤ ct.length) (h2 : ct.length ≤ 352) :
    key.decrypt idb ct = .ok msg ↔
      ct.head? = some 0x04 ∧ CanonC1 ct ∧ Spec.EC.onCurve curve (some (c1X ct, c1Y ct)) = true
      ∧ decTail (toSpec2 key.de) idb ct (c1X ct, c1Y ct) ((ct.take 65).drop 1) msg :=
  C10b.decrypt_model pairingRefines key hde idb ct msg h1 h2

/-- non-vacuity, no hypothesis left: the key the model extracts for "Bob" under the Annex C master key lies in G2 and is
the Annex's; with it the model decrypts a byte string exactly when the standard (with the Annex's de_B) does -/
example (ppube : Point) : ∃ key, (⟨exKe, ppube⟩ : Sm9EncMasterKey).extract_key exIdB = .ok (some key)
    ∧ ∀ ct msg, ct.length ≤ 352 → (key.decrypt exIdB ct = .ok msg ↔ Spec.SM9.decrypt exDeB exIdB ct = some msg) := by
  obtain ⟨r, h1, h2, _⟩ := (Thm.C13d.extract_enc_refines ⟨exKe, ppube⟩ (show exKe < N by decide +kernel) exIdB).1
  rw [Thm.SpecSM9.ex_extractEnc] at h2
  cases r with
  | none => simp at h2
  | some key =>
    have h1' := h1
    rw [Proofs.SM9G2Impl.extract_key_eq] at h1'
    have hde : InG2 key.de :=
      (Proofs.SM9EncRefinesRound.extracted_key_facts exKe (by decide +kernel) ppube exIdB _ key h1').1
    have e : toSpec2 key.de = exDeB := by simpa using h2
    refine ⟨key, h1, fun ct msg hlen => ?_⟩
    rw [← e]
    exact decrypt_refines key hde exIdB ct msg hlen

/-! ## 4 — round trip on the model (remaining hypothesis: `PairingFacts`) -/

/-- what the model encrypts (any candidates), the model decrypts with the key it extracts: master key ke ∈ [1, N − 1], any
valid representation of Ppub-e = [ke]P1, any identity for which extraction is defined, any message of 1..255 octets -/
theorem encrypt_then_decrypt_impl (F : PairingFacts) (ke : Nat)
    (hke : 1 ≤ ke ∧ ke < N) (ppube : Point) (hv : Valid ppube) (hpp : toSpec ppube = Spec.SM9.encMasterPub ke)
    (idb data : List UInt8) (hne : data ≠ []) (hlen : data.length ≤ 255) (key : Sm9EncKey)
    (hkey : (⟨ke, ppube⟩ : Sm9EncMasterKey).extract_key idb = .ok (some key))
    (cands : List (List UInt8)) (ct : List UInt8) (used : List Nat) (rest : List (List UInt8))
    (henc : (⟨ke, ppube⟩ : Sm9EncMasterKey).encrypt idb data cands = .ok ⟨ct, used, rest⟩) :
    key.decrypt idb ct = .ok data :=
  C10b.encrypt_then_decrypt_impl pairingRefines towerDense F ke hke ppube hv hpp idb data hne hlen key hkey cands ct used
    rest henc

/-- with the master public key the model generates (`Point::g_mul(ke)`) -/
theorem encrypt_then_decrypt_own_key (F : PairingFacts) (ke : Nat)
    (hke : 1 ≤ ke ∧ ke < N) (idb data : List UInt8) (hne : data ≠ []) (hlen : data.length ≤ 255) :
    ∃ P, Point.g_mul ke = .ok P ∧ ∀ key, (⟨ke, P⟩ : Sm9EncMasterKey).extract_key idb = .ok (some key) →
      ∀ cands ct used rest, (⟨ke, P⟩ : Sm9EncMasterKey).encrypt idb data cands = .ok ⟨ct, used, rest⟩ →
        key.decrypt idb ct = .ok data :=
  C10b.encrypt_then_decrypt_own_key pairingRefines towerDense F ke hke idb data hne hlen

/-- non-vacuity, Annex C: the hypotheses on ke, the identity and the message hold; the key exists -/
example (F : PairingFacts) : ∃ P key, Point.g_mul exKe = .ok P
    ∧ (⟨exKe, P⟩ : Sm9EncMasterKey).extract_key exIdB = .ok (some key)
    ∧ ∀ cands ct used rest, (⟨exKe, P⟩ : Sm9EncMasterKey).encrypt exIdB exMsgE cands = .ok ⟨ct, used, rest⟩ →
        key.decrypt exIdB ct = .ok exMsgE := by
  obtain ⟨P, h1, h2⟩ := encrypt_then_decrypt_own_key F exKe (by decide +kernel) exIdB exMsgE (by decide)
    (by decide)
  obtain ⟨r, h3, h4, _⟩ := (Thm.C13d.extract_enc_refines ⟨exKe, P⟩ (show exKe < N by decide +kernel) exIdB).1
  rw [Thm.SpecSM9.ex_extractEnc] at h4
  cases r with
  | none => simp at h4
  | some key => exact ⟨P, key, h1, h3, h2 key h3⟩

end GmVerif.Thm.C10c
