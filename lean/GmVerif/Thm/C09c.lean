/-
C09c: the refinement theorems of the SM9 signature (`Thm.C09b`) WITHOUT the hypothesis `PairingRefines`.

DISCHARGED: `PairingRefines` (the model's R-ate pairing returns a canonical tower element denoting `Spec.SM9.pairing` on
G1 × G2) is now a theorem, `Thm.C12g.pairingRefines` (no hypothesis).  Every theorem of `Thm.C09b` that took
`(PR : PairingRefines)` is restated here under the same name, with the same statement minus that hypothesis, and proved by
applying the original to `Thm.C12g.pairingRefines`.

WHAT REMAINS (genuine preconditions, not proof gaps):
* `Valid key.ds` / `Valid s` — the Jacobian point handed to the model is a valid representation (canonical coordinates, on
  the curve or the point at infinity).  The model performs NO curve test on S in `verify_sign` (`Thm.C09.verify_ok_iff`), so
  `Valid s` cannot be dropped from `verify_refines`; `verify_refines_from_bytes` covers a caller who runs `is_on_curve` first.
* `InG2 key.ppubs` / `InG2 m.ppubs` — the master public key is a valid representation of a point of G2 (true for every key
  `TwistPoint.g_mul k` the model generates: `Thm.C09b.g_mul_inG2`).
* `PairingFacts` (bilinearity and non-degeneracy of the SPECIFICATION's textbook pairing; a statement about `Spec.SM9` only,
  NOT proved) — in `sign_then_verify_impl` only.
The hypothesis-free theorems of `Thm.C09b` (Parts 1, 2: `tower_dense`, `dense_pow`, `sign_no_panic'`, `verify_total`, …) are
not repeated.
-/
import GmVerif.Thm.C09b
import GmVerif.Thm.C12g

namespace GmVerif.Thm.C09c
open GmVerif GmVerif.Impl.SM9
open GmVerif.Spec.SM9 (N)
open GmVerif.Thm.SpecSM9 (exKs exIdA exDsA exMsgS exRS)
open GmVerif.Thm.C09b (Valid toSpec InG2 toSpec2 PairingRefines PairingFacts Accepts specSignLoop)

/-- the discharged hypothesis -/
theorem pairingRefines : PairingRefines := Thm.C12g.pairingRefines

/-! ## signing -/

/-- THE PROPERTY (signing): for a signing key whose `ds` is a valid representation and whose `ppubs` is in G2, every
message and every candidate list, `sign` fails exactly when the standard's loop over the same candidates is exhausted
(error "rng-exhausted", never a panic) and otherwise returns the standard's h, a valid representation of the standard's
S (encoded as the standard encodes it when S ≠ O), the scalars consumed and the candidates left -/
theorem sign_refines (key : Sm9SignKey) (hds : Valid key.ds) (hpp : InG2 key.ppubs)
    (data : List UInt8) (cands : List (List UInt8)) :
    match specSignLoop (toSpec2 key.ppubs) (toSpec key.ds) data cands [] with
    | none => key.sign data cands = .err "rng-exhausted"
    | some ((h, S), used, rest) =>
      ∃ s, key.sign data cands = .ok ⟨(h, s), used, rest⟩ ∧ Valid s ∧ toSpec s = S
        ∧ (S ≠ none → s.to_bytes_be = Spec.SM9.encodePoint S) :=
  C09b.sign_refines pairingRefines key hds hpp data cands

/-- the first candidate is accepted and the standard signs with it -/
theorem sign_first (key : Sm9SignKey) (hds : Valid key.ds) (hpp : InG2 key.ppubs)
    (data : List UInt8) (c : List UInt8) (rest : List (List UInt8)) (hc : Accepts (beNat c)) (h : Nat) (S : Spec.EC.Pt)
    (hs : Spec.SM9.signWith (toSpec2 key.ppubs) (toSpec key.ds) data (beNat c) = some (h, S)) :
    ∃ s, key.sign data (c :: rest) = .ok ⟨(h, s), [beNat c], rest⟩ ∧ Valid s ∧ toSpec s = S
      ∧ (S ≠ none → s.to_bytes_be = Spec.SM9.encodePoint S) :=
  C09b.sign_first pairingRefines key hds hpp data c rest hc h S hs

/-- a candidate outside the acceptance set is skipped -/
theorem sign_skip (key : Sm9SignKey) (hpp : InG2 key.ppubs) (data : List UInt8)
    (c : List UInt8) (rest : List (List UInt8)) (hc : ¬ Accepts (beNat c)) :
    key.sign data (c :: rest) = key.sign data rest :=
  C09b.sign_skip pairingRefines key hpp data c rest hc

/-- "return to A2" (l = 0): the model logs r and takes the next candidate -/
theorem sign_retry (key : Sm9SignKey) (hpp : InG2 key.ppubs) (data : List UInt8) (ds : Spec.EC.Pt)
    (c : List UInt8) (rest : List (List UInt8)) (used : List Nat) (fuel : Nat) (hf : rest.length < fuel)
    (hc : Accepts (beNat c)) (hs : Spec.SM9.signWith (toSpec2 key.ppubs) ds data (beNat c) = none) :
    signLoop (sm9_u256_pairing key.ppubs POINT_MONT_P1) data (fuel + 1) (c :: rest) used =
      signLoop (sm9_u256_pairing key.ppubs POINT_MONT_P1) data fuel rest (used ++ [beNat c]) :=
  C09b.sign_retry pairingRefines key hpp data ds c rest used fuel hf hc hs

/-- non-vacuity, no hypothesis left: the Annex A signing key as the model extracts it (`Thm.C09b.ex_key`) meets the
preconditions; with the Annex nonce r as the only candidate the model's `sign` returns exactly what `Spec.SM9.signWith`
returns for it -/
example (m : Sm9SignMasterKey) (hm : m.ks = exKs) (hp : m.ppubs = TwistPoint.g_mul exKs) : ∃ key : Sm9SignKey,
    m.extract_key exIdA = .ok (some key) ∧ toSpec key.ds = exDsA ∧
    ∀ h S, Spec.SM9.signWith (Spec.SM9.signMasterPub exKs) exDsA exMsgS exRS = some (h, S) →
      ∃ s, key.sign exMsgS [natBE 32 exRS] = .ok ⟨(h, s), [exRS], []⟩ ∧ toSpec s = S := by
  obtain ⟨key, h1, hds, hpp, e1, e2⟩ := C09b.ex_key m hm hp
  refine ⟨key, h1, e1, fun h S hs => ?_⟩
  have e : beNat (natBE 32 exRS) = exRS := by decide +kernel
  obtain ⟨s, h1, _, h3, _⟩ := sign_first key hds hpp exMsgS (natBE 32 exRS) [] (by rw [e]; decide +kernel) h S
    (by rw [e, e1, e2]; exact hs)
  exact ⟨s, by rw [h1, e], h3⟩
/-- the failure branch is reachable on that key: only rejected candidates -/
example (m : Sm9SignMasterKey) (hm : m.ks = exKs) (hp : m.ppubs = TwistPoint.g_mul exKs) : ∃ key : Sm9SignKey,
    m.extract_key exIdA = .ok (some key) ∧
    key.sign exMsgS [natBE 32 (N - 1), natBE 32 0] = .err "rng-exhausted" := by
  obtain ⟨key, h1, hds, hpp, _⟩ := C09b.ex_key m hm hp
  refine ⟨key, h1, ?_⟩
  have h := sign_refines key hds hpp exMsgS [natBE 32 (N - 1), natBE 32 0]
  rw [C09b.specSignLoop_cons, if_neg (by decide +kernel), C09b.specSignLoop_cons, if_neg (by decide +kernel)] at h
  exact h

/-! ## verification -/

/-- THE PROPERTY (verification): for a master public key in G2, every identity, message and h, and every VALID
representation s of a point S (on the curve or the point at infinity; canonical coordinates), the model accepts exactly
when the standard's verifier B1–B9 accepts.  An h outside [1, N−1] is an error on both sides.  The model performs no curve
test on S: `Valid s` cannot be dropped. -/
theorem verify_refines (m : Sm9SignMasterKey) (hpp : InG2 m.ppubs) (id data : List UInt8)
    (h : Nat) (s : Point) (hs : Valid s) :
    m.verify_sign id data h s = .ok () ↔ Spec.SM9.verify (toSpec2 m.ppubs) id data h (toSpec s) = true :=
  C09b.verify_refines pairingRefines m hpp id data h s hs

/-- the two directions -/
theorem verify_sound (m : Sm9SignMasterKey) (hpp : InG2 m.ppubs) (id data : List UInt8)
    (h : Nat) (s : Point) (hs : Valid s) (hv : m.verify_sign id data h s = .ok ()) :
    Spec.SM9.verify (toSpec2 m.ppubs) id data h (toSpec s) = true :=
  C09b.verify_sound pairingRefines m hpp id data h s hs hv
theorem verify_complete (m : Sm9SignMasterKey) (hpp : InG2 m.ppubs) (id data : List UInt8)
    (h : Nat) (s : Point) (hs : Valid s)
    (hv : Spec.SM9.verify (toSpec2 m.ppubs) id data h (toSpec s) = true) : m.verify_sign id data h s = .ok () :=
  C09b.verify_complete pairingRefines m hpp id data h s hs hv

/-- when the standard rejects, the model reports an error (never a panic) -/
theorem verify_reject (m : Sm9SignMasterKey) (hpp : InG2 m.ppubs) (id data : List UInt8)
    (h : Nat) (s : Point) (hs : Valid s)
    (hv : Spec.SM9.verify (toSpec2 m.ppubs) id data h (toSpec s) = false) : ∃ e, m.verify_sign id data h s = .err e :=
  C09b.verify_reject pairingRefines m hpp id data h s hs hv

/-- S as it comes off the wire (`Point::from_bytes`, ≥ 65 bytes): the model's own `is_on_curve` test is then exactly
`Valid`, so a caller that runs it before `verify_sign` (which does not) is covered.  Without that test nothing is claimed. -/
theorem verify_refines_from_bytes (m : Sm9SignMasterKey) (hpp : InG2 m.ppubs)
    (id data : List UInt8) (h : Nat) (b : List UInt8) (hb : 65 ≤ b.length) :
    ∃ s, Point.from_bytes b = .ok s ∧ (s.is_on_curve = true ↔ Valid s) ∧
      (s.is_on_curve = true →
        (m.verify_sign id data h s = .ok () ↔ Spec.SM9.verify (toSpec2 m.ppubs) id data h (toSpec s) = true)) :=
  C09b.verify_refines_from_bytes pairingRefines m hpp id data h b hb

/-- non-vacuity, no hypothesis left: Ppub-s of the Annex, S = [2]P1 in a Z ≠ 1 representation, h = 0 — the standard
rejects and so does the model (with an error, not a panic) -/
example (m : Sm9SignMasterKey) (hp : m.ppubs = TwistPoint.g_mul exKs) :
    Spec.SM9.verify (Spec.SM9.signMasterPub exKs) exIdA exMsgS 0 (toSpec Thm.C13c.D1) = false
      ∧ ∃ e, m.verify_sign exIdA exMsgS 0 Thm.C13c.D1 = .err e := by
  have hv : Spec.SM9.verify (Spec.SM9.signMasterPub exKs) exIdA exMsgS 0 (toSpec Thm.C13c.D1) = false :=
    Proofs.SM9SignRefines.spec_verify_range _ _ _ _ _ (Or.inl rfl)
  refine ⟨hv, verify_reject m (by rw [hp]; exact (C09b.g_mul_inG2 exKs (by decide)).1) exIdA exMsgS 0 Thm.C13c.D1
    Thm.C13c.D1_valid ?_⟩
  rw [hp, (C09b.g_mul_inG2 exKs (by decide)).2, hv]

/-! ## end to end (remaining hypothesis: `PairingFacts`, bilinearity of the specification's pairing) -/

/-- a signature produced by the model's `sign` with the key the model's `extract_key` extracted for `id` from a master key
ks ∈ [1, N−1] with Ppub-s = `TwistPoint.g_mul ks` is accepted by the model's `verify_sign` for `id` — and by the standard's
verifier; S is a valid representation, h ∈ [1, N−1] -/
theorem sign_then_verify_impl (F : PairingFacts) (ks : Nat) (hks : 1 ≤ ks ∧ ks ≤ N - 1)
    (id data : List UInt8) (cands : List (List UInt8)) (key : Sm9SignKey)
    (hkey : (⟨ks, TwistPoint.g_mul ks⟩ : Sm9SignMasterKey).extract_key id = .ok (some key))
    (h : Nat) (S : Point) (used : List Nat) (rest : List (List UInt8))
    (hsig : key.sign data cands = .ok ⟨(h, S), used, rest⟩) :
    (⟨ks, TwistPoint.g_mul ks⟩ : Sm9SignMasterKey).verify_sign id data h S = .ok ()
      ∧ Spec.SM9.verify (Spec.SM9.signMasterPub ks) id data h (toSpec S) = true
      ∧ Valid S ∧ 1 ≤ h ∧ h ≤ N - 1 :=
  C09b.sign_then_verify_impl pairingRefines F ks hks id data cands key hkey h S used rest hsig

/-- the premises are met: the Annex A master key is in range and the model extracts Alice's key; whatever that key signs,
the model verifies -/
example (F : PairingFacts) : (1 ≤ exKs ∧ exKs ≤ N - 1) ∧
    ∃ key, (⟨exKs, TwistPoint.g_mul exKs⟩ : Sm9SignMasterKey).extract_key exIdA = .ok (some key) ∧
      ∀ cands h S used rest, key.sign exMsgS cands = .ok ⟨(h, S), used, rest⟩ →
        (⟨exKs, TwistPoint.g_mul exKs⟩ : Sm9SignMasterKey).verify_sign exIdA exMsgS h S = .ok () := by
  obtain ⟨key, hkey, _⟩ := C09b.ex_key ⟨exKs, TwistPoint.g_mul exKs⟩ (by dsimp only) (by dsimp only)
  exact ⟨by decide +kernel, key, hkey, fun cands h S used rest hsig =>
    (sign_then_verify_impl F exKs (by decide +kernel) exIdA exMsgS cands key hkey h S used rest hsig).1⟩

end GmVerif.Thm.C09c
