/-
C01: the model of gm-sm3 (`Impl.SM3`) refines GB/T 32905-2016 (`Spec.SM3`).
Only the property theorems; all work is in `GmVerif.Proofs.SM3`.
-/
import GmVerif.Proofs.SM3

namespace GmVerif.Thm.C01
open GmVerif

/-- dumped constants equal the standard's -/
theorem gen_consts : Gen.SM3.IV = Spec.SM3.IV ∧ Gen.SM3.T00 = 0x79cc4519 ∧ Gen.SM3.T16 = 0x7a879d8a :=
  ⟨rfl, rfl, rfl⟩

example : Spec.SM3.IV.length = 8 := by decide

/-- the push-loop padding equals the closed form (no length guard needed: both sides reduce the
    bit length mod 2^64) -/
theorem pad_refines (m : List UInt8) : Impl.SM3.pad m = .ok (Spec.SM3.pad m) :=
  Proofs.SM3.pad_refines m

example : Impl.SM3.pad (List.replicate 55 0) = .ok (Spec.SM3.pad (List.replicate 55 0)) :=
  pad_refines _
example : (Spec.SM3.pad (List.replicate 55 0)).length = 64 := by decide +kernel
example : (Spec.SM3.pad (List.replicate 56 0)).length = 128 := by decide +kernel

/-- `pad(msg).unwrap()` cannot fire and the block loop never indexes out of range -/
theorem pad_total (m : List UInt8) : ∃ p, Impl.SM3.pad m = .ok p ∧ p.length % 64 = 0 :=
  ⟨_, Proofs.SM3.pad_refines m, Proofs.SM3.spec_pad_length_mod m⟩

example : ∃ p, Impl.SM3.pad (List.replicate 63 7) = .ok p ∧ p.length % 64 = 0 := pad_total _

theorem cf_refines (v : List UInt32) (b : List UInt8) (hv : v.length = 8) (hb : b.length = 64) :
    (Impl.SM3.cf v.toArray b.toArray).toList = Spec.SM3.CF v b :=
  Proofs.SM3.cf_refines v b hv hb

example : Spec.SM3.IV.length = 8 ∧ (List.replicate 64 (0 : UInt8)).length = 64 := by decide
example : (Impl.SM3.cf Spec.SM3.IV.toArray (List.replicate 64 (0 : UInt8)).toArray).toList
    = Spec.SM3.CF Spec.SM3.IV (List.replicate 64 0) := cf_refines _ _ (by decide) (by decide)

/-- the property: for every byte string in the standard's domain the model returns the standard's digest -/
theorem sm3_refines (m : List UInt8) (_h : m.length < 2 ^ 61) :
    Impl.SM3.sm3_hash m = .ok (Spec.SM3.hash m) :=
  Proofs.SM3.sm3_refines m

example : (List.replicate 55 (0 : UInt8)).length < 2 ^ 61 := by decide
example : (List.replicate 56 (0 : UInt8)).length < 2 ^ 61 := by decide
example : (List.replicate 63 (0 : UInt8)).length < 2 ^ 61 := by decide
example : (List.replicate 64 (0 : UInt8)).length < 2 ^ 61 := by decide

/-- the refinement holds for every byte string (the model, like `Spec.SM3.pad`, reduces the bit
    length mod 2^64) -/
theorem sm3_refines_unguarded (m : List UInt8) : Impl.SM3.sm3_hash m = .ok (Spec.SM3.hash m) :=
  Proofs.SM3.sm3_refines m

/-- totality (used by C20): never panics, never errs, always 32 bytes -/
theorem sm3_total (m : List UInt8) : ∃ d, Impl.SM3.sm3_hash m = .ok d ∧ d.length = 32 :=
  ⟨_, Proofs.SM3.sm3_refines m, Proofs.SM3.spec_hash_length m⟩

example : ∃ d, Impl.SM3.sm3_hash [] = .ok d ∧ d.length = 32 := sm3_total _

/-- the standard's digest is 32 bytes -/
theorem spec_hash_length (m : List UInt8) : (Spec.SM3.hash m).length = 32 :=
  Proofs.SM3.spec_hash_length m

example : (Spec.SM3.hash (List.replicate 64 0)).length = 32 := spec_hash_length _

/-! ### evaluation checks against GB/T 32905-2016 Annex A -/

/-- A.1: SM3("abc") = 66c7f0f4 62eeedd9 d1f2d46b dc10e4e2 4167c487 5cf2f7a2 297da02b 8f4ba8e0 -/
example : Spec.SM3.hash [0x61, 0x62, 0x63] =
    [0x66,0xc7,0xf0,0xf4,0x62,0xee,0xed,0xd9,0xd1,0xf2,0xd4,0x6b,0xdc,0x10,0xe4,0xe2,
     0x41,0x67,0xc4,0x87,0x5c,0xf2,0xf7,0xa2,0x29,0x7d,0xa0,0x2b,0x8f,0x4b,0xa8,0xe0] := by
  decide +kernel

example : hexOfBytes (Spec.SM3.hash ("abc".toList.map fun c => c.toNat.toUInt8)) =
    "66c7f0f462eeedd9d1f2d46bdc10e4e24167c4875cf2f7a2297da02b8f4ba8e0" := by
  decide +kernel

/-- A.2: the 64-byte message "abcd"×16 (two blocks after padding) -/
example : hexOfBytes (Spec.SM3.hash (List.replicate 16 [0x61, 0x62, 0x63, 0x64]).flatten) =
    "debe9ff92275b8a138604889c18e5a4d6fdb70e5387e5765293dcba39c0c5732" := by
  decide +kernel

/-- the model itself evaluates to the same digest -/
example : (Impl.SM3.sm3_hash [0x61, 0x62, 0x63]).map hexOfBytes =
    .ok "66c7f0f462eeedd9d1f2d46bdc10e4e24167c4875cf2f7a2297da02b8f4ba8e0" := by
  decide +kernel

end GmVerif.Thm.C01
