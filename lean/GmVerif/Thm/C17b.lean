/-
Property C17, refinement part (C17b): the model of gm-sm9's `exch_step_1a`, `exch_step_1b`, `exch_step_2a` computes what
GM/T 0044.3 §6.2 says (`Spec.SM9.exchEphemeral`, `exchResponder`, `exchInitiator`), GIVEN the two named hypotheses of
`Proofs.SM9Bridge`:
  `PR : PairingRefines` — the model's pairing routine returns a canonical tower element denoting `Spec.SM9.pairing` (NOT proved),
  `TD : TowerDense`     — tower multiplication is dense multiplication (proved elsewhere; taken as a hypothesis here).

Contents
 0. the `hpm`-free restatements of C17;
 1. `exch_1a_refines` (no hypothesis): r_A is the first accepted candidate, R_A = [r_A]Q_B;
 2. `exch_1b_refines`: (R_B, SK_B) is EXACTLY the result of the standard's responder run over the same candidates, with the
    model's redraw on an all-zero key; `exch_1b_rejects`: a received point off the curve is rejected by both;
 3. `exch_2a_refines`: SK_A is the standard's, an all-zero SK_A being reported as `KdfHashError` (single pass);
 4. `exch_agree_impl`: an honest run on the model ends with equal keys, equal to the standard's (needs `PairingFacts`);
 5. the point at infinity as a received point (difference, stated exactly).
Only property theorems here; the work is in `Proofs.SM9EncRefinesBase`, `Proofs.SM9ExchRefines`, `Proofs.SM9ExchRefinesAgree`.
-/
import GmVerif.Proofs.SM9ExchRefinesAgree
import GmVerif.Thm.C17
import GmVerif.Thm.C10b
namespace GmVerif.Thm.C17b
open GmVerif GmVerif.Impl.SM9
open GmVerif.Proofs.SM9Bridge (dense TowerDense PairingRefines InG2)
open GmVerif.Proofs.SM9Algebra (PairingFacts)
open GmVerif.Thm.C13c (Valid toSpec)
open GmVerif.Thm.C13d (Valid2 toSpec2)
open GmVerif.Thm.C10b (Accept firstAccepted)
open GmVerif.Spec.SM9 (curve N p)
open GmVerif.Gen.SM9 (N_MINUS_ONE)
open GmVerif.Thm.SpecSM9 (exKx exIdA exIdB exDeAx exDeBx exRA exRB)

/-! ## 0 — C17 without `hpm` -/

/-- responder: R_A off the curve, klen ≥ 1 and a usable candidate ⇒ an error -/
theorem exch_1b_off_curve (m : Sm9EncMasterKey) (ida idb : List UInt8) (key : Sm9EncKey) (ra : Point) (klen : Nat)
    (cands : List (List UInt8)) (hk : 1 ≤ klen) (hc : ∃ x, sm9_random_u256 N_MINUS_ONE cands = some x)
    (h : ra.is_on_curve = false) : ∃ e, exch_step_1b m ida idb key ra klen cands = .err e :=
  Thm.C17.exch_1b_off_curve m ida idb key ra klen cands Thm.C13c.point_mul_total hk hc h

/-- … of exactly this kind, for every klen and every candidate list -/
theorem exch_1b_off_curve_kind (m : Sm9EncMasterKey) (ida idb : List UInt8) (key : Sm9EncKey) (ra : Point)
    (klen : Nat) (cands : List (List UInt8)) (h : ra.is_on_curve = false) :
    exch_step_1b m ida idb key ra klen cands =
      if klen = 0 then .err "KdfHashError" else
      match sm9_random_u256 N_MINUS_ONE cands with
      | none => .err "rng-exhausted"
      | some _ => .err "InvalidPoint" :=
  Thm.C17.exch_1b_off_curve_kind m ida idb key ra klen cands Thm.C13c.point_mul_total h
example (m : Sm9EncMasterKey) (key : Sm9EncKey) :
    exch_step_1b m [] [] key ⟨0, 0, Gen.SM9.MODP_MONT_ONE⟩ 16 [Thm.C17.one32] = .err "InvalidPoint" := by
  rw [exch_1b_off_curve_kind _ _ _ _ _ _ _ (by decide +kernel), if_neg (by decide),
    show sm9_random_u256 N_MINUS_ONE [Thm.C17.one32] = some (1, []) by decide +kernel]

/-- step 1b does not panic for klen ≤ 32·(2^32 − 1) -/
theorem exch_1b_no_panic (m : Sm9EncMasterKey) (ida idb : List UInt8) (key : Sm9EncKey) (ra : Point) (klen : Nat)
    (cands : List (List UInt8)) (hk : klen ≤ 32 * (2 ^ 32 - 1)) : exch_step_1b m ida idb key ra klen cands ≠ .panic :=
  Thm.C17.exch_1b_no_panic m ida idb key ra klen cands Thm.C13c.point_mul_total hk
example (m : Sm9EncMasterKey) (key : Sm9EncKey) (ra : Point) : exch_step_1b m [] [] key ra 16 [] ≠ .panic :=
  exch_1b_no_panic _ _ _ _ _ _ _ (by decide)

/-! ## 1 — step 1a -/

/-- `exch_step_1a`, every valid representation of Ppub-e, every identity, every candidate list: r_A is the first candidate
in the sampler's acceptance set (`Thm.C10b.Accept`: r < N − 1, low 64 bits not all zero), R_A is a valid representation
of the standard's R_A = [r_A]([H1(ID_B ‖ 02)]P1 + Ppub-e), and — when that point is finite — its octets are the standard's;
`rng-exhausted` when no candidate is accepted; no panic.  No hypothesis. -/
theorem exch_1a_refines (m : Sm9EncMasterKey) (hv : Valid m.ppube) (idb : List UInt8) (cands : List (List UInt8)) :
    match firstAccepted cands with
    | none => exch_step_1a m idb cands = .err "rng-exhausted"
    | some (r, rest) => ∃ R, exch_step_1a m idb cands = .ok ⟨(R, r), [r], rest⟩ ∧ Valid R
        ∧ toSpec R = Spec.SM9.exchEphemeral (toSpec m.ppube) idb r
        ∧ (Spec.SM9.exchEphemeral (toSpec m.ppube) idb r ≠ none →
            R.z ≠ 0 ∧ R.to_bytes_be = Spec.SM9.encodePoint (Spec.SM9.exchEphemeral (toSpec m.ppube) idb r)) :=
  Proofs.SM9ExchRefines.exch_1a_refines m hv idb cands

/-- a single accepted candidate -/
theorem exch_1a_single (m : Sm9EncMasterKey) (hv : Valid m.ppube) (idb c : List UInt8) (h : Accept (beNat c)) :
    ∃ R, exch_step_1a m idb [c] = .ok ⟨(R, beNat c), [beNat c], []⟩ ∧ Valid R
      ∧ toSpec R = Spec.SM9.exchEphemeral (toSpec m.ppube) idb (beNat c) := by
  have h' := exch_1a_refines m hv idb [c]
  rw [show firstAccepted [c] = some (beNat c, []) from Proofs.SM9EncRefinesBase.firstAccepted_cons_accept h] at h'
  obtain ⟨R, hR, hv', hs, _⟩ := h'
  exact ⟨R, hR, hv', hs⟩

/-- Annex B: master key, A's random number r_A as the only candidate, peer "Bob" -/
theorem ex_ra_bytes : beNat (natBE 32 exRA) = exRA := by decide +kernel
example : ∃ P R, Point.g_mul exKx = .ok P ∧ exch_step_1a ⟨exKx, P⟩ exIdB [natBE 32 exRA] = .ok ⟨(R, exRA), [exRA], []⟩
    ∧ toSpec R = Spec.SM9.exchEphemeral (Spec.SM9.encMasterPub exKx) exIdB exRA := by
  obtain ⟨P, h1, h2, h3⟩ := Thm.C13c.g_mul_correct exKx (by decide)
  obtain ⟨R, hR, _, hs⟩ := exch_1a_single ⟨exKx, P⟩ h2 exIdB (natBE 32 exRA) (by rw [ex_ra_bytes]; decide)
  rw [ex_ra_bytes] at hR hs
  exact ⟨P, R, h1, hR, by rw [hs]; exact congrArg (fun Q => Spec.SM9.exchEphemeral Q exIdB exRA) h3⟩

/-! ## 2 — step 1b -/

/-- GM/T 0044.3 §6.2 B1–B7 over a list of candidates for r_B, with the model's two additions stated as they are: candidates
outside `Accept` are skipped, and an all-zero SK_B makes the responder draw again (the standard has no such test);
`none` = candidates exhausted (or R_A rejected) -/
abbrev specRespLoop := Proofs.SM9ExchRefines.specRespLoop
example (Ppube : Spec.EC.Pt) (deB : Spec.SM9.Pt2) (idA idB : List UInt8) (RA : Spec.EC.Pt) (klen : Nat) (used : List Nat) :
    specRespLoop Ppube deB idA idB RA klen [] used = none := rfl
example (Ppube : Spec.EC.Pt) (deB : Spec.SM9.Pt2) (idA idB : List UInt8) (RA : Spec.EC.Pt) (klen : Nat) (c : List UInt8)
    (cs : List (List UInt8)) (used : List Nat) :
    specRespLoop Ppube deB idA idB RA klen (c :: cs) used =
      if Accept (beNat c) then
        match Spec.SM9.exchResponder Ppube deB idA idB RA (beNat c) klen with
        | none => none
        | some (RB, sk) =>
          if sk.all (· == 0) then specRespLoop Ppube deB idA idB RA klen cs (used ++ [beNat c])
          else some ⟨(RB, sk), used ++ [beNat c], cs⟩
      else specRespLoop Ppube deB idA idB RA klen cs used := rfl

/-- THE PROPERTY (responder): for a private key in G2 and a received R_A that is a finite point of the curve (any valid
representation), 1 ≤ klen ≤ 32·(2^32 − 1): `exch_step_1b` returns EXACTLY the result of the standard's loop — SK_B
octet for octet, R_B as a valid finite representation whose octets are the standard's, the scalars logged, the candidates
left — and `rng-exhausted` when the loop finds no r_B; it never panics.
`hfin` (R_B = [r_B]Q_A is never the point at infinity) holds for an honest key: `exch_1b_refines_honest`. -/
theorem exch_1b_refines (PR : PairingRefines) (TD : TowerDense) (m : Sm9EncMasterKey) (hv : Valid m.ppube)
    (key : Sm9EncKey) (hde : InG2 key.de) (ida idb : List UInt8) (ra : Point) (hra : Valid ra) (hraz : ra.z ≠ 0)
    (klen : Nat) (hk1 : 1 ≤ klen) (hk2 : klen ≤ 32 * (2 ^ 32 - 1))
    (hfin : ∀ r, Accept r → Spec.SM9.exchEphemeral (toSpec m.ppube) ida r ≠ none)
    (cands : List (List UInt8)) :
    match specRespLoop (toSpec m.ppube) (toSpec2 key.de) ida idb (toSpec ra) klen cands [] with
    | none => exch_step_1b m ida idb key ra klen cands = .err "rng-exhausted"
    | some res => ∃ rbp, exch_step_1b m ida idb key ra klen cands = .ok ⟨(rbp, res.val.2), res.used, res.rest⟩
        ∧ Valid rbp ∧ rbp.z ≠ 0 ∧ toSpec rbp = res.val.1
        ∧ rbp.to_bytes_be = Spec.SM9.encodePoint res.val.1 :=
  Proofs.SM9ExchRefines.exch_1b_refines PR TD m hv key hde ida idb ra hra hraz klen hk1 hk2 hfin cands

/-- … with Ppub-e = [ke]P1 and an initiator identity that has a private key (H1(ID_A ‖ 02) + ke ≢ 0 mod N) -/
theorem exch_1b_refines_honest (PR : PairingRefines) (TD : TowerDense) (ke : Nat) (ppube : Point) (hv : Valid ppube)
    (hpp : toSpec ppube = Spec.SM9.encMasterPub ke) (key : Sm9EncKey) (hde : InG2 key.de) (ida idb : List UInt8)
    (hext : (Spec.SM9.H1 (ida ++ [Spec.SM9.hidExch]) + ke) % N ≠ 0)
    (ra : Point) (hra : Valid ra) (hraz : ra.z ≠ 0) (klen : Nat) (hk1 : 1 ≤ klen) (hk2 : klen ≤ 32 * (2 ^ 32 - 1))
    (cands : List (List UInt8)) :
    match specRespLoop (Spec.SM9.encMasterPub ke) (toSpec2 key.de) ida idb (toSpec ra) klen cands [] with
    | none => exch_step_1b ⟨ke, ppube⟩ ida idb key ra klen cands = .err "rng-exhausted"
    | some res => ∃ rbp, exch_step_1b ⟨ke, ppube⟩ ida idb key ra klen cands = .ok ⟨(rbp, res.val.2), res.used, res.rest⟩
        ∧ Valid rbp ∧ rbp.z ≠ 0 ∧ toSpec rbp = res.val.1
        ∧ rbp.to_bytes_be = Spec.SM9.encodePoint res.val.1 := by
  have h := exch_1b_refines PR TD ⟨ke, ppube⟩ hv key hde ida idb ra hra hraz klen hk1 hk2
    (fun r hr => Proofs.SM9EncRefinesRound.hfin_of_key ke ppube hpp ida _ hext r hr) cands
  rw [show toSpec (⟨ke, ppube⟩ : Sm9EncMasterKey).ppube = Spec.SM9.encMasterPub ke from hpp] at h
  exact h

/-- the hypotheses are satisfiable on Annex B: B's key as the model extracts it, R_A as the model's step 1a computes it -/
theorem ex_ext_A : (Spec.SM9.H1 (exIdA ++ [Spec.SM9.hidExch]) + exKx) % N ≠ 0 := by decide +kernel
theorem ex_ext_B : (Spec.SM9.H1 (exIdB ++ [Spec.SM9.hidExch]) + exKx) % N ≠ 0 := by decide +kernel
example : (1 : Nat) ≤ 16 ∧ 16 ≤ 32 * (2 ^ 32 - 1) ∧ Accept exRA ∧ Accept exRB := by decide
example (ppube : Point) : ∃ key, (⟨exKx, ppube⟩ : Sm9EncMasterKey).extract_exch_key exIdB = .ok (some key)
    ∧ InG2 key.de ∧ toSpec2 key.de = exDeBx := by
  obtain ⟨r, h1, h2, _⟩ := (Thm.C13d.extract_enc_refines ⟨exKx, ppube⟩ (show exKx < N by decide +kernel) exIdB).2
  rw [Thm.SpecSM9.ex_extractB] at h2
  cases r with
  | none => simp at h2
  | some key =>
    have h1' := h1
    rw [Proofs.SM9G2Impl.extract_exch_key_eq] at h1'
    exact ⟨key, h1, (Proofs.SM9EncRefinesRound.extracted_key_facts exKx (by decide +kernel) ppube exIdB _ key h1').1,
      by simpa using h2⟩

/-- the "accepted r_B" form: a successful run of the standard's loop means that the LAST logged scalar r_B is in the
acceptance set, (R_B, SK_B) = `exchResponder` for that r_B, SK_B is not all zero, and every scalar logged before it was
accepted by the sampler and gave an all-zero key -/
theorem specRespLoop_some (Ppube : Spec.EC.Pt) (deB : Spec.SM9.Pt2) (idA idB : List UInt8) (RA : Spec.EC.Pt)
    (klen : Nat) (cands : List (List UInt8)) (res : Rand (Spec.EC.Pt × List UInt8))
    (h : specRespLoop Ppube deB idA idB RA klen cands [] = some res) :
    ∃ rB skipped, res.used = skipped ++ [rB] ∧ Accept rB
      ∧ Spec.SM9.exchResponder Ppube deB idA idB RA rB klen = some res.val
      ∧ res.val.2.all (· == 0) = false
      ∧ (∀ s ∈ skipped, Accept s ∧ ∃ RB sk, Spec.SM9.exchResponder Ppube deB idA idB RA s klen = some (RB, sk)
          ∧ sk.all (· == 0) = true)
      ∧ res.used.length + res.rest.length ≤ cands.length := by
  obtain ⟨r, sk, h1, h2, h3, h4, h5, h6⟩ := Proofs.SM9ExchRefines.specRespLoop_some _ _ _ _ _ _ _ _ _ h
  exact ⟨r, sk, by simpa using h1, h2, h3, h4, h5, by simpa using h6⟩

/-- a received point: canonical coordinates and Z ≠ 0 — everything `Point::from_bytes` returns, every Jacobian
representation of a finite point -/
abbrev Finite (P : Point) : Prop := Proofs.SM9ExchRefines.Finite P
example (P : Point) : Finite P ↔ P.x < p ∧ P.y < p ∧ P.z < p ∧ P.z ≠ 0 := Iff.rfl

/-- for such a point the model's `is_on_curve` is the standard's membership test on the decoded affine point -/
theorem received_on_curve_iff (P : Point) (h : Finite P) :
    P.is_on_curve = true ↔ Spec.EC.onCurve curve (toSpec P) = true :=
  (Proofs.SM9ExchRefines.onCurve_toSpec_iff P h).symm
example : Finite (⟨0, 0, Gen.SM9.MODP_MONT_ONE⟩ : Point) ∧ (⟨0, 0, Gen.SM9.MODP_MONT_ONE⟩ : Point).is_on_curve = false := by
  decide +kernel

/-- R_A off the curve: the standard's responder rejects it for every r_B (and every key), and so does the model — with
`InvalidPoint` once a candidate is accepted (`KdfHashError` first when klen = 0) -/
theorem exch_1b_rejects (m : Sm9EncMasterKey) (ida idb : List UInt8) (key : Sm9EncKey) (ra : Point)
    (hra : Finite ra) (hoff : ra.is_on_curve = false) (klen : Nat) (cands : List (List UInt8)) :
    (∀ Ppube deB rB, Spec.SM9.exchResponder Ppube deB ida idb (toSpec ra) rB klen = none)
    ∧ exch_step_1b m ida idb key ra klen cands =
        if klen = 0 then .err "KdfHashError" else
        match firstAccepted cands with
        | none => .err "rng-exhausted"
        | some _ => .err "InvalidPoint" :=
  Proofs.SM9ExchRefines.exch_1b_off_curve m ida idb key ra hra hoff klen cands

/-! ## 3 — step 2a -/

/-- THE PROPERTY (initiator): r_A ≤ N − 1 (step 1a delivers r_A ≤ N − 2; above N − 1 the `assert!` of `Fp12::pow` fires:
`Thm.C17.exch_2a_large_ra_panics`), the initiator's own R_A (valid, finite), a received R_B with canonical coordinates and
Z ≠ 0, 1 ≤ klen ≤ 32·(2^32 − 1): `InvalidPoint` exactly when the standard rejects R_B; otherwise the standard's SK_A —
except that an all-zero SK_A is the error `KdfHashError` (one pass, no redraw; the standard has no such test) -/
theorem exch_2a_refines (PR : PairingRefines) (TD : TowerDense) (m : Sm9EncMasterKey) (hv : Valid m.ppube)
    (key : Sm9EncKey) (hde : InG2 key.de) (ida idb : List UInt8) (ra_ : Nat) (hra_ : ra_ ≤ N - 1)
    (ra : Point) (hra : Valid ra) (hraz : ra.z ≠ 0) (rb : Point) (hrb : Finite rb)
    (klen : Nat) (hk1 : 1 ≤ klen) (hk2 : klen ≤ 32 * (2 ^ 32 - 1)) :
    exch_step_2a m ida idb key ra_ ra rb klen =
      match Spec.SM9.exchInitiator (toSpec m.ppube) (toSpec2 key.de) ida idb ra_ (toSpec ra) (toSpec rb) klen with
      | none => .err "InvalidPoint"
      | some sk => if sk.all (· == 0) then .err "KdfHashError" else .ok sk :=
  Proofs.SM9ExchRefines.exch_2a_refines PR TD m hv key hde ida idb ra_ hra_ ra hra hraz rb hrb klen hk1 hk2
example : exRA ≤ N - 1 ∧ Finite POINT_MONT_P1 := by decide +kernel

/-! ## 4 — the honest run -/

/-- an honest run on the model: master key ke ∈ [1, N − 1], any valid representation of Ppub-e = [ke]P1, two identities with
extracted keys, klen ≥ 1, any candidates.  If step 1a (A) and step 1b (B, on ANY valid representation `raB` of R_A — e.g. the
one parsed from R_A's octets) succeed, then step 2a (A, on any valid representation `rbA` of R_B) returns B's key:
SK_A = SK_B, and this key is the standard's (`exchResponder` for the last logged r_B, `exchInitiator` for r_A). -/
theorem exch_agree_impl (PR : PairingRefines) (TD : TowerDense) (F : PairingFacts) (ke : Nat) (hke : 1 ≤ ke ∧ ke < N)
    (ppube : Point) (hv : Valid ppube) (hpp : toSpec ppube = Spec.SM9.encMasterPub ke) (ida idb : List UInt8)
    (keyA keyB : Sm9EncKey)
    (hA : (⟨ke, ppube⟩ : Sm9EncMasterKey).extract_exch_key ida = .ok (some keyA))
    (hB : (⟨ke, ppube⟩ : Sm9EncMasterKey).extract_exch_key idb = .ok (some keyB))
    (klen : Nat) (hk : 1 ≤ klen)
    (candsA : List (List UInt8)) (RA : Point) (rA : Nat) (usedA : List Nat) (restA : List (List UInt8))
    (h1a : exch_step_1a ⟨ke, ppube⟩ idb candsA = .ok ⟨(RA, rA), usedA, restA⟩)
    (raB : Point) (hraB : Valid raB) (hraBs : toSpec raB = toSpec RA)
    (candsB : List (List UInt8)) (RB : Point) (SKB : List UInt8) (usedB : List Nat) (restB : List (List UInt8))
    (h1b : exch_step_1b ⟨ke, ppube⟩ ida idb keyB raB klen candsB = .ok ⟨(RB, SKB), usedB, restB⟩)
    (rbA : Point) (hrbA : Valid rbA) (hrbAs : toSpec rbA = toSpec RB) :
    exch_step_2a ⟨ke, ppube⟩ ida idb keyA rA RA rbA klen = .ok SKB
    ∧ toSpec RA = Spec.SM9.exchEphemeral (Spec.SM9.encMasterPub ke) idb rA
    ∧ ∃ rB, usedB.getLast? = some rB
      ∧ Spec.SM9.exchResponder (Spec.SM9.encMasterPub ke) (toSpec2 keyB.de) ida idb
          (Spec.SM9.exchEphemeral (Spec.SM9.encMasterPub ke) idb rA) rB klen = some (toSpec RB, SKB)
      ∧ Spec.SM9.exchInitiator (Spec.SM9.encMasterPub ke) (toSpec2 keyA.de) ida idb rA
          (Spec.SM9.exchEphemeral (Spec.SM9.encMasterPub ke) idb rA) (toSpec RB) klen = some SKB :=
  Proofs.SM9ExchRefinesAgree.exch_agree PR TD F ke hke ppube hv hpp ida idb keyA keyB hA hB klen hk candsA RA rA usedA
    restA h1a raB hraB hraBs candsB RB SKB usedB restB h1b rbA hrbA hrbAs

/-- the plain case: the points are handed over as they are -/
theorem exch_agree_direct (PR : PairingRefines) (TD : TowerDense) (F : PairingFacts) (ke : Nat) (hke : 1 ≤ ke ∧ ke < N)
    (ppube : Point) (hv : Valid ppube) (hpp : toSpec ppube = Spec.SM9.encMasterPub ke) (ida idb : List UInt8)
    (keyA keyB : Sm9EncKey)
    (hA : (⟨ke, ppube⟩ : Sm9EncMasterKey).extract_exch_key ida = .ok (some keyA))
    (hB : (⟨ke, ppube⟩ : Sm9EncMasterKey).extract_exch_key idb = .ok (some keyB))
    (klen : Nat) (hk : 1 ≤ klen)
    (candsA : List (List UInt8)) (RA : Point) (rA : Nat) (usedA : List Nat) (restA : List (List UInt8))
    (h1a : exch_step_1a ⟨ke, ppube⟩ idb candsA = .ok ⟨(RA, rA), usedA, restA⟩)
    (candsB : List (List UInt8)) (RB : Point) (SKB : List UInt8) (usedB : List Nat) (restB : List (List UInt8))
    (h1b : exch_step_1b ⟨ke, ppube⟩ ida idb keyB RA klen candsB = .ok ⟨(RB, SKB), usedB, restB⟩) :
    exch_step_2a ⟨ke, ppube⟩ ida idb keyA rA RA RB klen = .ok SKB := by
  have hextA := Proofs.SM9ExchRefinesAgree.hext_of_exch_key ke hke.2 ppube ida keyA hA
  have hextB := Proofs.SM9ExchRefinesAgree.hext_of_exch_key ke hke.2 ppube idb keyB hB
  have hRA := (Proofs.SM9ExchRefinesAgree.ra_facts ke ppube hv hpp idb hextB candsA RA rA usedA restA h1a).1
  have hRB := (Proofs.SM9ExchRefinesAgree.rb_facts ke ppube hv hpp ida idb hextA keyB RA klen candsB RB SKB usedB restB
    h1b).1
  exact (exch_agree_impl PR TD F ke hke ppube hv hpp ida idb keyA keyB hA hB klen hk candsA RA rA usedA restA h1a
    RA hRA rfl candsB RB SKB usedB restB h1b RB hRB rfl).1

/-- over the wire: B parses the octets of R_A (`Point::from_bytes`), A parses the octets of R_B -/
theorem exch_agree_wire (PR : PairingRefines) (TD : TowerDense) (F : PairingFacts) (ke : Nat) (hke : 1 ≤ ke ∧ ke < N)
    (ppube : Point) (hv : Valid ppube) (hpp : toSpec ppube = Spec.SM9.encMasterPub ke) (ida idb : List UInt8)
    (keyA keyB : Sm9EncKey)
    (hA : (⟨ke, ppube⟩ : Sm9EncMasterKey).extract_exch_key ida = .ok (some keyA))
    (hB : (⟨ke, ppube⟩ : Sm9EncMasterKey).extract_exch_key idb = .ok (some keyB))
    (klen : Nat) (hk : 1 ≤ klen)
    (candsA : List (List UInt8)) (RA : Point) (rA : Nat) (usedA : List Nat) (restA : List (List UInt8))
    (h1a : exch_step_1a ⟨ke, ppube⟩ idb candsA = .ok ⟨(RA, rA), usedA, restA⟩) :
    ∃ raB, Point.from_bytes RA.to_bytes_be = .ok raB ∧
      ∀ (candsB : List (List UInt8)) (RB : Point) (SKB : List UInt8) (usedB : List Nat) (restB : List (List UInt8)),
        exch_step_1b ⟨ke, ppube⟩ ida idb keyB raB klen candsB = .ok ⟨(RB, SKB), usedB, restB⟩ →
        ∃ rbA, Point.from_bytes RB.to_bytes_be = .ok rbA
          ∧ exch_step_2a ⟨ke, ppube⟩ ida idb keyA rA RA rbA klen = .ok SKB := by
  have hextA := Proofs.SM9ExchRefinesAgree.hext_of_exch_key ke hke.2 ppube ida keyA hA
  have hextB := Proofs.SM9ExchRefinesAgree.hext_of_exch_key ke hke.2 ppube idb keyB hB
  obtain ⟨hRA, hRAz, _⟩ := Proofs.SM9ExchRefinesAgree.ra_facts ke ppube hv hpp idb hextB candsA RA rA usedA restA h1a
  obtain ⟨raB, hp1, hraB, hraBs⟩ := Proofs.SM9ExchRefinesAgree.from_bytes_to_bytes RA hRA hRAz
  refine ⟨raB, hp1, fun candsB RB SKB usedB restB h1b => ?_⟩
  obtain ⟨hRB, hRBz⟩ := Proofs.SM9ExchRefinesAgree.rb_facts ke ppube hv hpp ida idb hextA keyB raB klen candsB RB SKB
    usedB restB h1b
  obtain ⟨rbA, hp2, hrbA, hrbAs⟩ := Proofs.SM9ExchRefinesAgree.from_bytes_to_bytes RB hRB hRBz
  exact ⟨rbA, hp2, (exch_agree_impl PR TD F ke hke ppube hv hpp ida idb keyA keyB hA hB klen hk candsA RA rA usedA restA
    h1a raB hraB hraBs candsB RB SKB usedB restB h1b rbA hrbA hrbAs).1⟩

/-- non-vacuity, Annex B: the hypotheses on the master key, the identities "Alice" / "Bob" and klen = 16 hold, both keys
exist; whenever the two steps succeed (they do for the Annex's r_A, r_B unless SK_B were all zero) the keys agree -/
example (PR : PairingRefines) (TD : TowerDense) (F : PairingFacts) : ∃ P keyA keyB, Point.g_mul exKx = .ok P
    ∧ (⟨exKx, P⟩ : Sm9EncMasterKey).extract_exch_key exIdA = .ok (some keyA)
    ∧ (⟨exKx, P⟩ : Sm9EncMasterKey).extract_exch_key exIdB = .ok (some keyB)
    ∧ toSpec2 keyA.de = exDeAx ∧ toSpec2 keyB.de = exDeBx
    ∧ ∀ candsA RA rA usedA restA candsB RB SKB usedB restB,
        exch_step_1a ⟨exKx, P⟩ exIdB candsA = .ok ⟨(RA, rA), usedA, restA⟩ →
        exch_step_1b ⟨exKx, P⟩ exIdA exIdB keyB RA 16 candsB = .ok ⟨(RB, SKB), usedB, restB⟩ →
        exch_step_2a ⟨exKx, P⟩ exIdA exIdB keyA rA RA RB 16 = .ok SKB := by
  obtain ⟨P, h1, h2, h3⟩ := Thm.C13c.g_mul_correct exKx (by decide)
  have hlt : exKx < N := by decide +kernel
  obtain ⟨rA, hA1, hA2, _⟩ := (Thm.C13d.extract_enc_refines ⟨exKx, P⟩ hlt exIdA).2
  obtain ⟨rB, hB1, hB2, _⟩ := (Thm.C13d.extract_enc_refines ⟨exKx, P⟩ hlt exIdB).2
  rw [Thm.SpecSM9.ex_extractA] at hA2
  rw [Thm.SpecSM9.ex_extractB] at hB2
  cases rA with
  | none => simp at hA2
  | some keyA =>
    cases rB with
    | none => simp at hB2
    | some keyB =>
      refine ⟨P, keyA, keyB, h1, hA1, hB1, by simpa using hA2, by simpa using hB2, ?_⟩
      intro candsA RA rA usedA restA candsB RB SKB usedB restB h1a h1b
      exact exch_agree_direct PR TD F exKx (by decide +kernel) P h2 h3 exIdA exIdB keyA keyB hA1 hB1 16 (by decide)
        candsA RA rA usedA restA h1a candsB RB SKB usedB restB h1b

/-! ## 5 — the point at infinity as a received point (difference, stated exactly) -/

/-- the standard rejects the point at infinity in both roles; the model's `is_on_curve` accepts `Point::zero()` = (1, 1, 0)
(it tests Y² = X³ + 5·Z⁶ without looking at Z), so step 2a does NOT answer `InvalidPoint` for it.  Not reachable through
`Point::from_bytes` (which always sets Z = 1), only by handing a `Point` value to the functions. -/
theorem infinity_received (Ppube : Spec.EC.Pt) (de : Spec.SM9.Pt2) (ida idb : List UInt8) (r klen : Nat) (RA : Spec.EC.Pt) :
    toSpec Point.zero = none ∧ Point.zero.is_on_curve = true
    ∧ Spec.SM9.exchResponder Ppube de ida idb (toSpec Point.zero) r klen = none
    ∧ Spec.SM9.exchInitiator Ppube de ida idb r RA (toSpec Point.zero) klen = none
    ∧ ∀ (m : Sm9EncMasterKey) (key : Sm9EncKey) (ra : Point),
        exch_step_2a m ida idb key r ra Point.zero klen ≠ .err "InvalidPoint" := by
  have hz : toSpec Point.zero = none := Thm.C13c.zero_toSpec
  have hon : Point.zero.is_on_curve = true := by decide +kernel
  refine ⟨hz, hon, by rw [hz]; rfl, by rw [hz]; rfl, fun m key ra => ?_⟩
  rw [Thm.C17.exch_2a_single_pass, if_neg (by rw [hon]; decide)]
  intro h
  split at h
  · cases h
  · simp only [] at h
    split at h
    · cases h
    · split at h <;> simp at h

end GmVerif.Thm.C17b

