/-
Property C13, point layer, G2 part (C13d), and the G2 half of C16 (extraction of encryption / key-exchange keys).

* Part 0: the hypothesis bundle `FpFacts` of C13b is DISCHARGED (`fp_facts`, from C13a and the primality of p), and the
  C13b tower theorems are restated without it.
* Part 1: the Jacobian point formulas over Fp2 of the gm-sm9 model (`Impl.SM9.TwistPoint.point_double`, `point_add` with
  its mixed branch, `twist_point_add_full` with its two special-case tests, `point_neg`, `point_sub`) and the double-and-add
  `point_mul` / `g_mul` compute the group law of the specification's twist E'(Fp2) : y² = x³ + 5u
  (`Spec.SM9.add2`, `neg2`, `mul2`), for EVERY representation of the operands.
  - `Valid2 Q`: canonical Fp2 coordinates and, when Z ≠ 0, Y² = X³ + 5u·Z⁶ on the decoded values (in the coefficient ring
    `F2` of C13b; `valid2_def`);
  - `toSpec2 Q`: the affine point (X/Z², Y/Z³) as a point of the specification, `none` when Z = 0 (`toSpec2_def`).
  A valid finite point has Y ≠ 0 (−5u is not a cube in Fp2: the twist has no point of order two), which is what makes
  the second special-case test of `twist_point_add_full` — it answers "infinity" without looking at X — harmless.
* Part 2: `TwistPoint.point_equals` is characterised EXACTLY as it is: on finite points it returns `true` iff the affine
  x-coordinates agree OR the affine y-coordinates agree (recorded, open defect; witnesses for both disjuncts).
* Part 3 (C16): `extract_key` / `extract_exch_key` of the encryption master key return the standard's de = [t2]P2.
Only property theorems here; the work is in `Proofs.SM9FpFacts`, `Proofs.SM9G2ImplAlg` (field identities),
`Proofs.SM9G2ImplField` (transfer to Mathlib's Fp2), `Proofs.SM9G2Impl`, `…Mul`, `…Frob`, `…Extract`, `…Witness`.
-/
import GmVerif.Proofs.SM9FpFacts
import GmVerif.Proofs.SM9G2ImplExtract
import GmVerif.Proofs.SM9G2ImplWitness
import GmVerif.Proofs.SM9G2ImplFrob
import GmVerif.Thm.C13b
import GmVerif.Thm.SpecSM9
namespace GmVerif.Thm.C13d
open GmVerif GmVerif.Impl.SM9 GmVerif.Proofs.SM9Tower
open GmVerif.Spec.SM9 (p)
open GmVerif.Proofs.SM9G2Impl (Valid2 toSpec2 decSpec)
export GmVerif.Proofs.SM9G2Impl (Valid2 toSpec2)

/-! ## Part 0 — the base-field bundle is discharged -/

/-- every field of `FpFacts` holds: p is prime and the Montgomery-domain functions are exact on canonical operands -/
theorem fp_facts : FpFacts := Proofs.SM9FpFacts.fp_facts
example : Nat.Prime p ∧ Gen.SM9.P = p := ⟨fp_facts.prime, fp_facts.consts⟩

/-! ### the key C13b theorems, hypothesis-free -/

theorem fp2_mul_correct (a b : Fp2) (ha : Canon2 a) (hb : Canon2 b) :
    Canon2 (a.fp_mul b) ∧ dec2 (a.fp_mul b) = dec2 a * dec2 b := C13b.fp2_mul_correct fp_facts a b ha hb
theorem fp2_sqr_correct (a : Fp2) (ha : Canon2 a) :
    Canon2 a.fp_sqr ∧ dec2 a.fp_sqr = dec2 a * dec2 a := C13b.fp2_sqr_correct fp_facts a ha
theorem fp2_add_correct (a b : Fp2) (ha : Canon2 a) (hb : Canon2 b) :
    Canon2 (a.fp_add b) ∧ dec2 (a.fp_add b) = dec2 a + dec2 b := C13b.fp2_add_correct fp_facts a b ha hb
theorem fp2_sub_correct (a b : Fp2) (ha : Canon2 a) (hb : Canon2 b) :
    Canon2 (a.fp_sub b) ∧ dec2 (a.fp_sub b) = dec2 a - dec2 b := C13b.fp2_sub_correct fp_facts a b ha hb
theorem fp2_neg_correct (a : Fp2) (ha : Canon2 a) :
    Canon2 a.fp_neg ∧ dec2 a.fp_neg = -dec2 a := C13b.fp2_neg_correct fp_facts a ha
theorem fp2_double_correct (a : Fp2) (ha : Canon2 a) :
    Canon2 a.fp_double ∧ dec2 a.fp_double = dec2 a + dec2 a := C13b.fp2_double_correct fp_facts a ha
theorem fp2_triple_correct (a : Fp2) (ha : Canon2 a) :
    Canon2 a.fp_triple ∧ dec2 a.fp_triple = dec2 a + dec2 a + dec2 a := C13b.fp2_triple_correct fp_facts a ha
theorem fp2_div2_correct (a : Fp2) (ha : Canon2 a) :
    Canon2 a.fp_div2 ∧ 2 * dec2 a.fp_div2 = dec2 a := C13b.fp2_div2_correct fp_facts a ha
theorem fp2_conjugate_correct (a : Fp2) (ha : Canon2 a) :
    Canon2 a.conjugate ∧ dec2 a.conjugate = (dec2 a).conj := C13b.fp2_conjugate_correct fp_facts a ha
theorem fp2_mul_fp_correct (a : Fp2) (k : Nat) (ha : Canon2 a) (hk : k < p) :
    Canon2 (a.fp_mul_fp k) ∧ dec2 (a.fp_mul_fp k) = dec2 a * Quad.of (dec k) := C13b.fp2_mul_fp_correct fp_facts a k ha hk
theorem fp2_inv_correct (a : Fp2) (ha : Canon2 a) (hne : dec2 a ≠ 0) :
    Canon2 a.fp_inv ∧ dec2 a * dec2 a.fp_inv = 1 := C13b.fp2_inv_correct' fp_facts a ha hne
example : Canon2 (C13b.A2.fp_mul C13b.B2) ∧ dec2 (C13b.A2.fp_mul C13b.B2) = dec2 C13b.A2 * dec2 C13b.B2 :=
  fp2_mul_correct _ _ (by decide +kernel) (by decide +kernel)

theorem fp4_mul_correct (a b : Fp4) (ha : Canon4 a) (hb : Canon4 b) :
    Canon4 (a.fp_mul b) ∧ dec4 (a.fp_mul b) = dec4 a * dec4 b := C13b.fp4_mul_correct fp_facts a b ha hb
theorem fp4_sqr_correct (a : Fp4) (ha : Canon4 a) :
    Canon4 a.fp_sqr ∧ dec4 a.fp_sqr = dec4 a * dec4 a := C13b.fp4_sqr_correct fp_facts a ha
theorem fp4_inv_correct (a : Fp4) (ha : Canon4 a) (hne : dec4 a ≠ 0) :
    Canon4 a.fp_inv ∧ dec4 a * dec4 a.fp_inv = 1 := C13b.fp4_inv_correct' fp_facts a ha hne

theorem fp12_mul_correct (a b : Fp12) (ha : Canon12 a) (hb : Canon12 b) :
    Canon12 (a.fp_mul b) ∧ dec12 (a.fp_mul b) = dec12 a * dec12 b := C13b.fp12_mul_correct fp_facts a b ha hb
theorem fp12_sqr_correct (a : Fp12) (ha : Canon12 a) :
    Canon12 a.fp_sqr ∧ dec12 a.fp_sqr = dec12 a * dec12 a := C13b.fp12_sqr_correct fp_facts a ha
theorem fp12_inv_correct (a : Fp12) (ha : Canon12 a) (hne : dec12 a ≠ 0) :
    Canon12 a.fp_inv ∧ dec12 a * dec12 a.fp_inv = 1 := C13b.fp12_inv_correct' fp_facts a ha hne
theorem fp12_line_mul_correct (a : Fp12) (lw : Line) (ha : Canon12 a) (h0 : Canon2 lw.l0)
    (h1 : Canon2 lw.l1) (h2 : Canon2 lw.l2) :
    Canon12 (a.fp_line_mul lw) ∧
    dec12 (a.fp_line_mul lw) = dec12 a * (Cubic.of (Quad.of (dec2 lw.l0)) + Cubic.of (Quad.of (dec2 lw.l1)) * (w * w)
      + Cubic.of (Quad.of (dec2 lw.l2)) * (w * w * w)) := C13b.fp12_line_mul_correct fp_facts a lw ha h0 h1 h2
theorem fp12_pow_correct (a : Fp12) (e : Nat) (ha : Canon12 a) (he : e ≤ Spec.SM9.N - 1) :
    ∃ r, a.pow e = .ok r ∧ Canon12 r ∧ dec12 r = dec12 a ^ e := C13b.fp12_pow_correct fp_facts a e ha he
theorem fp12_to_bytes_spec (a : Fp12) (ha : Canon12 a) :
    a.to_bytes_be = Spec.SM9.Fp12.toBytes (Spec.SM9.Fp12.ofTower (towerList a)) :=
  (C13b.fp12_to_bytes_spec fp_facts a ha).1
example : Canon12 C13b.A12.fp_inv ∧ dec12 C13b.A12 * dec12 C13b.A12.fp_inv = 1 :=
  fp12_inv_correct _ (by decide +kernel) (fun h => absurd ((C13b.fp12_is_zero_correct _ (by decide +kernel)).mpr h)
    (by decide +kernel))

/-! ## Part 1 — G2 points -/

/-- `Valid2`, spelled out (5u = `Quad.of 5 * u` in F2 = Fp[u]/(u² + 2)) -/
theorem valid2_def (Q : TwistPoint) :
    Valid2 Q ↔ Canon2 Q.x ∧ Canon2 Q.y ∧ Canon2 Q.z ∧
      (dec2 Q.z ≠ 0 → dec2 Q.y ^ 2 = dec2 Q.x ^ 3 + (Quad.of 5 * u) * dec2 Q.z ^ 6) :=
  Proofs.SM9G2Impl.valid2_def Q

/-- `toSpec2`, spelled out with the specification's own Fp2 arithmetic on the decoded coordinates
(`decSpec a` = the pair of canonical representatives of `dec a.c0`, `dec a.c1`) -/
theorem toSpec2_def (Q : TwistPoint) :
    toSpec2 Q = if decSpec Q.z = Spec.SM9.Fp2.zero then none
      else some (Spec.SM9.Fp2.mul (decSpec Q.x) (Spec.SM9.Fp2.inv (Spec.SM9.Fp2.mul (decSpec Q.z) (decSpec Q.z))),
        Spec.SM9.Fp2.mul (decSpec Q.y) (Spec.SM9.Fp2.inv
          (Spec.SM9.Fp2.mul (Spec.SM9.Fp2.mul (decSpec Q.z) (decSpec Q.z)) (decSpec Q.z)))) :=
  Proofs.SM9G2Impl.toSpec2_def Q
example (a : Fp2) : decSpec a = ((dec a.c0).val, (dec a.c1).val) := rfl

/-- a valid point decodes to a point of the twist (so the group laws of `Thm.SpecSM9` apply to it) -/
theorem toSpec2_onTwist (Q : TwistPoint) (h : Valid2 Q) : Spec.SM9.onTwist (toSpec2 Q) = true :=
  Proofs.SM9G2Impl.toSpec2_onTwist Q h

/-- the point at infinity of the model -/
theorem twist_zero_correct : Valid2 TwistPoint.zero ∧ toSpec2 TwistPoint.zero = none :=
  ⟨Proofs.SM9G2Impl.zero_valid, Proofs.SM9G2Impl.toSpec2_zero⟩

/-- the generator: `SM9_TWIST_POINT_MONT_P2` is valid and decodes to the standard's P2 -/
theorem twist_generator_correct : Valid2 TWIST_POINT_MONT_P2 ∧ toSpec2 TWIST_POINT_MONT_P2 = Spec.SM9.P2 :=
  Proofs.SM9G2Impl.g2_correct

/-- a decidable sufficient test for concrete points: canonical coordinates and the curve equation evaluated with the
model's own arithmetic -/
theorem valid2_of_check (Q : TwistPoint) (hc : Canon2 Q.x ∧ Canon2 Q.y ∧ Canon2 Q.z)
    (h : Proofs.SM9G2Impl.onTwistCheck Q = true) : Valid2 Q := Proofs.SM9G2Impl.valid2_of_check Q hc h

/-! concrete points for the non-vacuity examples -/

/-- the generator (Z = 1) -/
abbrev G : TwistPoint := TWIST_POINT_MONT_P2
/-- the same point in another representation: (λ²X, λ³Y, λZ) with λ = 2 + 3u -/
def lam : Fp2 := ⟨C13b.m 2, C13b.m 3⟩
def G' : TwistPoint := ⟨G.x.fp_mul lam.fp_sqr, G.y.fp_mul (lam.fp_sqr.fp_mul lam), G.z.fp_mul lam⟩
theorem G_valid : Valid2 G := twist_generator_correct.1
theorem G'_valid : Valid2 G' := valid2_of_check G' (by decide +kernel) (by decide +kernel)
example : G'.x ≠ G.x ∧ G'.y ≠ G.y ∧ G'.z ≠ G.z ∧ G'.z.is_zero = false := by decide +kernel
/-- a canonical point that is not on the twist fails the test -/
example : Proofs.SM9G2Impl.onTwistCheck ⟨G.x, G.x, G.z⟩ = false := by decide +kernel

theorem twist_double_correct (Q : TwistPoint) (h : Valid2 Q) :
    Valid2 Q.point_double ∧ toSpec2 Q.point_double = Spec.SM9.add2 (toSpec2 Q) (toSpec2 Q) :=
  Proofs.SM9G2Impl.point_double_correct Q h
example : Valid2 G'.point_double ∧ toSpec2 G'.point_double = Spec.SM9.add2 (toSpec2 G') (toSpec2 G') :=
  twist_double_correct G' G'_valid
example : toSpec2 G.point_double = Spec.SM9.add2 Spec.SM9.P2 Spec.SM9.P2 := by
  rw [(twist_double_correct G G_valid).2, twist_generator_correct.2]
/-- the point at infinity is returned unchanged -/
example : TwistPoint.zero.point_double = TwistPoint.zero := by decide +kernel

/-- EVERY representation: either operand at infinity, the same point with different Z (R = 0 ∧ H = 0 → doubling),
opposite points (H = 0, R ≠ 0: the generic formulas give Z3 = 0), the generic case; the second special-case test
(R = 0 ∧ S1 + S2 = 0 → "infinity", WITHOUT a test on H) never fires on valid finite points -/
theorem twist_add_full_correct (P Q : TwistPoint) (hP : Valid2 P) (hQ : Valid2 Q) :
    Valid2 (twist_point_add_full P Q)
      ∧ toSpec2 (twist_point_add_full P Q) = Spec.SM9.add2 (toSpec2 P) (toSpec2 Q) :=
  Proofs.SM9G2Impl.add_full_correct P Q hP hQ
example : toSpec2 (twist_point_add_full G.point_double G') = Spec.SM9.add2 (toSpec2 G.point_double) (toSpec2 G') :=
  (twist_add_full_correct _ _ (twist_double_correct G G_valid).1 G'_valid).2
/-- the special branches are really taken by the model: same point with different Z → doubling of the first operand;
opposite points → Z3 = 0; infinity on either side → the other operand -/
example : twist_point_add_full G G' = G.point_double ∧ (twist_point_add_full G G'.point_neg).z = Fp2.zero
    ∧ twist_point_add_full TwistPoint.zero G' = G' ∧ twist_point_add_full G' TwistPoint.zero = G' := by decide +kernel
example : toSpec2 (twist_point_add_full G G') = Spec.SM9.add2 (toSpec2 G) (toSpec2 G') :=
  (twist_add_full_correct G G' G_valid G'_valid).2
/-- why the second test is dead: a valid finite point has Y ≠ 0 (no point of order two on the twist) -/
theorem twist_valid_y_ne_zero (Q : TwistPoint) (h : Valid2 Q) (hz : dec2 Q.z ≠ 0) : dec2 Q.y ≠ 0 := by
  have e := Proofs.SM9G2Impl.eq_mk Q h.1 h.2.1 h.2.2.1
  rw [e] at h
  have := Proofs.SM9G2Impl.valid_Y_ne_zero _ _ _
    (fun h0 => hz (Proofs.SM9G2Impl.decL_eq_zero_iff.mp h0)) h
  exact fun h0 => this (Proofs.SM9G2Impl.decL_eq_zero_iff.mpr h0)
/-- −5u is not a cube in Fp2 (norm argument: 50 is not a cube in Fp, kernel-evaluated Euler criterion) -/
theorem neg_b_noncube : ∀ t : F2, t ^ 3 ≠ -(Quad.of 5 * u) := by
  rw [← Proofs.SM9G2ImplField.b2_eq]; exact Proofs.SM9G2ImplField.neg_b2_noncube
example : Spec.EC.powMod 50 ((p - 1) / 3) p ≠ 1 := by decide +kernel

/-- `point_add`: the mixed addition when `rhs.z == Fp2::one()`, `twist_point_add_full` otherwise -/
theorem twist_point_add_correct (P Q : TwistPoint) (hP : Valid2 P) (hQ : Valid2 Q) :
    Valid2 (P.point_add Q) ∧ toSpec2 (P.point_add Q) = Spec.SM9.add2 (toSpec2 P) (toSpec2 Q) :=
  Proofs.SM9G2Impl.point_add_correct P Q hP hQ
/-- mixed branch (G has Z = 1): generic, same point (the code doubles the SECOND operand), opposite points -/
example : G.z.eq Fp2.one = true ∧ G'.z.eq Fp2.one = false := by decide +kernel
example : toSpec2 (G'.point_double.point_add G) = Spec.SM9.add2 (toSpec2 G'.point_double) (toSpec2 G) :=
  (twist_point_add_correct _ _ (twist_double_correct G' G'_valid).1 G_valid).2
example : G'.point_add G = G.point_double ∧ G'.point_neg.point_add G = TwistPoint.zero
    ∧ G.point_add G' = twist_point_add_full G G' := by decide +kernel

theorem twist_neg_correct (Q : TwistPoint) (h : Valid2 Q) :
    Valid2 Q.point_neg ∧ toSpec2 Q.point_neg = Spec.SM9.neg2 (toSpec2 Q) :=
  Proofs.SM9G2Impl.point_neg_correct Q h
theorem twist_sub_correct (P Q : TwistPoint) (hP : Valid2 P) (hQ : Valid2 Q) :
    Valid2 (P.point_sub Q) ∧ toSpec2 (P.point_sub Q) = Spec.SM9.add2 (toSpec2 P) (Spec.SM9.neg2 (toSpec2 Q)) :=
  Proofs.SM9G2Impl.point_sub_correct P Q hP hQ
example : toSpec2 G.point_neg = Spec.SM9.neg2 Spec.SM9.P2 := by
  rw [(twist_neg_correct G G_valid).2, twist_generator_correct.2]
example : toSpec2 (G'.point_sub G) = Spec.SM9.add2 (toSpec2 G') (Spec.SM9.neg2 (toSpec2 G)) :=
  (twist_sub_correct G' G G'_valid G_valid).2
example : (G'.point_sub G).z = Fp2.zero := by decide +kernel

/-- MSB-first double-and-add over the 256 bits of k, with the full addition -/
theorem twist_point_mul_correct (Q : TwistPoint) (h : Valid2 Q) (k : Nat) (hk : k < 2 ^ 256) :
    Valid2 (Q.point_mul k) ∧ toSpec2 (Q.point_mul k) = Spec.SM9.mul2 k (toSpec2 Q) :=
  Proofs.SM9G2Impl.point_mul_correct Q h k hk
example : toSpec2 (G'.point_mul 5) = Spec.SM9.mul2 5 (toSpec2 G') :=
  (twist_point_mul_correct G' G'_valid 5 (by decide)).2
example : G'.point_mul 0 = TwistPoint.zero ∧ G.point_mul 2 = G.point_double := by decide +kernel

theorem twist_g_mul_correct (k : Nat) (hk : k < 2 ^ 256) :
    toSpec2 (TwistPoint.g_mul k) = Spec.SM9.mul2 k Spec.SM9.P2 := (Proofs.SM9G2Impl.g_mul_correct k hk).2
theorem twist_g_mul_valid (k : Nat) (hk : k < 2 ^ 256) : Valid2 (TwistPoint.g_mul k) :=
  (Proofs.SM9G2Impl.g_mul_correct k hk).1
/-- [N]P2 = O in the model, through the specification (`Thm.SpecSM9.sm9_g2_order`) -/
example : toSpec2 (TwistPoint.g_mul Spec.SM9.N) = none := by
  rw [twist_g_mul_correct _ (by decide), SpecSM9.sm9_g2_order]

/-! ### the Frobenius-twist maps used by the last two steps of the pairing -/

/-- the function-local constants are the dumped `SM9_MONT_ALPHA1/2` (= β^((p−1)/12), β^((p−1)/6) in Montgomery form, β = −2:
`Thm.C13a.sm9_frobenius_consts`), canonical, with c₁⁶ = −1 and c₂⁶ = 1 -/
theorem twist_pi_consts : TwistPoint.pi1_c = Gen.SM9.MONT_ALPHA1 ∧ TwistPoint.neg_pi2_c = Gen.SM9.MONT_ALPHA2
    ∧ TwistPoint.pi1_c < p ∧ TwistPoint.neg_pi2_c < p
    ∧ dec TwistPoint.pi1_c ^ 6 = -1 ∧ dec TwistPoint.neg_pi2_c ^ 6 = 1 :=
  ⟨Proofs.SM9G2Impl.pi_consts.1, Proofs.SM9G2Impl.pi_consts.2.1, Proofs.SM9G2Impl.pi_consts.2.2.1,
    Proofs.SM9G2Impl.pi_consts.2.2.2, Proofs.SM9G2Impl.pi1_c_pow6, Proofs.SM9G2Impl.neg_pi2_c_pow6⟩

/-- `point_pi1` : (X, Y, Z) ↦ (X̄, Ȳ, Z̄·c₁) maps valid points to valid points -/
theorem twist_pi1_correct (Q : TwistPoint) (h : Valid2 Q) :
    Valid2 Q.point_pi1 ∧ dec2 Q.point_pi1.x = (dec2 Q.x).conj ∧ dec2 Q.point_pi1.y = (dec2 Q.y).conj
      ∧ dec2 Q.point_pi1.z = (dec2 Q.z).conj * Quad.of (dec TwistPoint.pi1_c) :=
  Proofs.SM9G2Impl.point_pi1_correct Q h
/-- `point_neg_pi2` : (X, Y, Z) ↦ (X, −Y, Z·c₂) maps valid points to valid points -/
theorem twist_neg_pi2_correct (Q : TwistPoint) (h : Valid2 Q) :
    Valid2 Q.point_neg_pi2 ∧ Q.point_neg_pi2.x = Q.x ∧ dec2 Q.point_neg_pi2.y = -dec2 Q.y
      ∧ dec2 Q.point_neg_pi2.z = dec2 Q.z * Quad.of (dec TwistPoint.neg_pi2_c) :=
  Proofs.SM9G2Impl.point_neg_pi2_correct Q h
example : Valid2 G'.point_pi1 ∧ Valid2 G'.point_neg_pi2 := ⟨(twist_pi1_correct G' G'_valid).1, (twist_neg_pi2_correct G' G'_valid).1⟩
/-- cross-check by evaluation: both images pass the model-level curve test, and π₁ ≠ id -/
example : Proofs.SM9G2Impl.onTwistCheck G'.point_pi1 = true ∧ Proofs.SM9G2Impl.onTwistCheck G'.point_neg_pi2 = true
    ∧ G'.point_pi1 ≠ G' := by decide +kernel

/-! ## Part 2 — `point_equals`, as it is -/

/-- the recorded defect, stated exactly: on valid finite points `point_equals` is `true` iff the affine x-coordinates
agree OR the affine y-coordinates agree (the code returns `true` as soon as the x cross-products agree, and otherwise
compares the y cross-products) -/
theorem twist_point_equals_char (P Q : TwistPoint) (hP : Valid2 P) (hQ : Valid2 Q) (hzP : dec2 P.z ≠ 0)
    (hzQ : dec2 Q.z ≠ 0) :
    P.point_equals Q = true ↔
      ∃ x1 y1 x2 y2, toSpec2 P = some (x1, y1) ∧ toSpec2 Q = some (x2, y2) ∧ (x1 = x2 ∨ y1 = y2) :=
  Proofs.SM9G2Impl.point_equals_char P Q hP hQ hzP hzQ
example : G.point_equals G' = true ∧ G.point_equals G.point_double = false := by decide +kernel

/-- the half of the x-only reading that does hold: equal affine x-coordinates ⇒ `true` (in particular P and −P) -/
theorem twist_point_equals_of_same_x (P Q : TwistPoint) (hP : Valid2 P) (hQ : Valid2 Q) (hzP : dec2 P.z ≠ 0)
    (hzQ : dec2 Q.z ≠ 0) (x y1 y2 : Spec.SM9.Fp2) (h1 : toSpec2 P = some (x, y1)) (h2 : toSpec2 Q = some (x, y2)) :
    P.point_equals Q = true :=
  (twist_point_equals_char P Q hP hQ hzP hzQ).mpr ⟨x, y1, x, y2, h1, h2, Or.inl rfl⟩

/-- witness of the defect: P2 and −P2 are different points that compare equal (kernel evaluation) -/
theorem twist_point_equals_defect : ∃ P Q, Valid2 P ∧ Valid2 Q ∧ toSpec2 P ≠ toSpec2 Q ∧ P.point_equals Q = true :=
  Proofs.SM9G2Impl.equals_defect
example : G.point_equals G.point_neg = true ∧ G.point_neg ≠ G := by decide +kernel

/-- the second disjunct is real: P2 = (x, y) and (ω·x, y), ω a primitive cube root of unity in Fp, have DIFFERENT
x-coordinates and compare equal — so "`true` iff the x-coordinates agree" is false -/
theorem twist_point_equals_defect_y : ∃ P Q, Valid2 P ∧ Valid2 Q ∧
    (∃ x1 y1 x2 y2, toSpec2 P = some (x1, y1) ∧ toSpec2 Q = some (x2, y2) ∧ x1 ≠ x2) ∧
    P.point_equals Q = true := Proofs.SM9G2Impl.equals_defect_y
example : Proofs.SM9G2Impl.omega ^ 3 % p = 1 ∧ Proofs.SM9G2Impl.omega ≠ 1 := by decide +kernel

/-! ## Part 3 — C16: extraction of the encryption and key-exchange private keys -/

/-- the scalar t2 = k·(H1(ID‖hid) + k)⁻¹ mod N of the three `extract_*key` functions is the standard's, for every master
key k < N; `none` (t1 = 0) is reported as `None`; nothing panics -/
theorem extract_scalar_refines (k : Nat) (hk : k < Spec.SM9.N) (id : List UInt8) (hid : UInt8) :
    extract_scalar k id hid = .ok (Spec.SM9.extractScalar k id hid) :=
  Proofs.SM9G2Impl.extract_scalar_refines k hk id hid

/-- `Sm9EncMasterKey::extract_key` (hid = 03) and `extract_exch_key` (hid = 02) return de = [t2]P2 of the standard
(`Spec.SM9.extractEnc`), as a valid twist point, together with the master public key -/
theorem extract_enc_refines (m : Sm9EncMasterKey) (hke : m.ke < Spec.SM9.N) (id : List UInt8) :
    (∃ r, m.extract_key id = .ok r
      ∧ r.map (fun key => toSpec2 key.de) = Spec.SM9.extractEnc m.ke id Spec.SM9.hidEnc
      ∧ ∀ key, r = some key → key.ppube = m.ppube ∧ Valid2 key.de)
    ∧ (∃ r, m.extract_exch_key id = .ok r
      ∧ r.map (fun key => toSpec2 key.de) = Spec.SM9.extractEnc m.ke id Spec.SM9.hidExch
      ∧ ∀ key, r = some key → key.ppube = m.ppube ∧ Valid2 key.de) := by
  constructor
  · rw [Proofs.SM9G2Impl.extract_key_eq, Proofs.SM9G2Impl.hid_enc]
    exact Proofs.SM9G2Impl.extractWith_refines m hke id _
  · rw [Proofs.SM9G2Impl.extract_exch_key_eq, Proofs.SM9G2Impl.hid_exch]
    exact Proofs.SM9G2Impl.extractWith_refines m hke id _

/-- GM/T 0044.5 Annex C / Annex B: the model extracts Bob's encryption key and Alice's exchange key of the standard -/
example (ppube : Point) : ∃ key, (⟨SpecSM9.exKe, ppube⟩ : Sm9EncMasterKey).extract_key SpecSM9.exIdB = .ok (some key)
    ∧ toSpec2 key.de = SpecSM9.exDeB := by
  obtain ⟨r, h1, h2, _⟩ := (extract_enc_refines ⟨SpecSM9.exKe, ppube⟩ (show SpecSM9.exKe < Spec.SM9.N by decide +kernel) SpecSM9.exIdB).1
  rw [SpecSM9.ex_extractEnc] at h2
  cases r with
  | none => simp at h2
  | some key => exact ⟨key, h1, by simpa using h2⟩
example (ppube : Point) : ∃ key,
    (⟨SpecSM9.exKx, ppube⟩ : Sm9EncMasterKey).extract_exch_key SpecSM9.exIdA = .ok (some key)
    ∧ toSpec2 key.de = SpecSM9.exDeAx := by
  obtain ⟨r, h1, h2, _⟩ := (extract_enc_refines ⟨SpecSM9.exKx, ppube⟩ (show SpecSM9.exKx < Spec.SM9.N by decide +kernel) SpecSM9.exIdA).2
  rw [SpecSM9.ex_extractA] at h2
  cases r with
  | none => simp at h2
  | some key => exact ⟨key, h1, by simpa using h2⟩
/-- the hypothesis k < N is needed: for larger master keys the Barrett product inside `mod_n_inv` can panic -/
example : Spec.SM9.N ≤ 2 ^ 256 - 1 := by decide

end GmVerif.Thm.C13d
