/-
Property C07: SM4 modes of operation (CTR/OFB/CFB-128/CBC+PKCS#7) — the index-based loops of
`Impl.SM4.mode_{encrypt,decrypt}` refine `Spec.Modes` over `E = SM4.encBytes key`,
`D = SM4.decBytes key`; error/panic behaviour; round trips for every data length.
Only property theorems here; all lemmas live in `GmVerif.Proofs.Modes`.
-/
import GmVerif.Proofs.Modes
namespace GmVerif.Thm.C07
open GmVerif GmVerif.Spec

/-! example inputs for the non-vacuity checks -/
def exKey : List UInt8 :=
  [0x01, 0x23, 0x45, 0x67, 0x89, 0xab, 0xcd, 0xef, 0xfe, 0xdc, 0xba, 0x98, 0x76, 0x54, 0x32, 0x10]
def exIv : List UInt8 := List.replicate 16 0xFF
/-- the bytes 0, 1, …, n-1 -/
def exData (n : Nat) : List UInt8 := (List.range n).map Nat.toUInt8

/-- carry through all 16 bytes, wrap at 2^128 -/
theorem add_one (a : List UInt8) (h : a.length = 16) : Impl.SM4.blockAddOne a = Modes.incr a :=
  Proofs.Modes.blockAddOne_eq_incr a h
theorem add_one_value (a : List UInt8) (h : a.length = 16) :
    beNat (Impl.SM4.blockAddOne a) = (beNat a + 1) % 2 ^ 128 :=
  Proofs.Modes.beNat_blockAddOne16 a h
example : Impl.SM4.blockAddOne (List.replicate 16 0xFF) = List.replicate 16 0x00 := by decide
example : Modes.incr (List.replicate 16 0xFF) = List.replicate 16 0x00 := by decide +kernel
example : Impl.SM4.blockAddOne [0, 0, 0, 0, 0, 0, 0, 0, 0, 0, 0, 0, 0, 1, 0xFF, 0xFF] =
    [0, 0, 0, 0, 0, 0, 0, 0, 0, 0, 0, 0, 0, 2, 0, 0] := by decide

/-! ### refinement -/

theorem ctr_refines (key data iv : List UInt8) (hk : key.length = 16) (hiv : iv.length = 16) :
    Impl.SM4.mode_encrypt .ctr key data iv = .ok (Modes.ctr (SM4.encBytes key) iv data) :=
  Proofs.Modes.mode_encrypt_ok .ctr key data iv hk hiv
theorem ofb_refines (key data iv : List UInt8) (hk : key.length = 16) (hiv : iv.length = 16) :
    Impl.SM4.mode_encrypt .ofb key data iv = .ok (Modes.ofb (SM4.encBytes key) iv data) :=
  Proofs.Modes.mode_encrypt_ok .ofb key data iv hk hiv
theorem cfb_enc_refines (key data iv : List UInt8) (hk : key.length = 16) (hiv : iv.length = 16) :
    Impl.SM4.mode_encrypt .cfb key data iv = .ok (Modes.cfbEnc (SM4.encBytes key) iv data) :=
  Proofs.Modes.mode_encrypt_ok .cfb key data iv hk hiv
theorem cfb_dec_refines (key data iv : List UInt8) (hk : key.length = 16) (hiv : iv.length = 16) :
    Impl.SM4.mode_decrypt .cfb key data iv = .ok (Modes.cfbDec (SM4.encBytes key) iv data) :=
  Proofs.Modes.mode_decrypt_ok .cfb key data iv hk hiv
/-- CTR and OFB decryption are the same function as encryption -/
theorem ctr_dec_refines (key data iv : List UInt8) (hk : key.length = 16) (hiv : iv.length = 16) :
    Impl.SM4.mode_decrypt .ctr key data iv = .ok (Modes.ctr (SM4.encBytes key) iv data) :=
  Proofs.Modes.mode_decrypt_ok .ctr key data iv hk hiv
theorem ofb_dec_refines (key data iv : List UInt8) (hk : key.length = 16) (hiv : iv.length = 16) :
    Impl.SM4.mode_decrypt .ofb key data iv = .ok (Modes.ofb (SM4.encBytes key) iv data) :=
  Proofs.Modes.mode_decrypt_ok .ofb key data iv hk hiv
theorem cbc_enc_refines (key data iv : List UInt8) (hk : key.length = 16) (hiv : iv.length = 16) :
    Impl.SM4.mode_encrypt .cbc key data iv = .ok (Modes.cbcEnc (SM4.encBytes key) iv data) :=
  Proofs.Modes.mode_encrypt_ok .cbc key data iv hk hiv

/-- the counter really carries: with IV = ff…ff the second block is keyed by 00…00 -/
example : Impl.SM4.mode_encrypt .ctr exKey (exData 17) exIv =
    .ok [0x68, 0x10, 0xad, 0x7d, 0x0d, 0x76, 0x62, 0xe0, 0x8e, 0xf2, 0x4f, 0xc5, 0x51, 0x97, 0x6e,
         0xff, 0x36] := by decide +kernel
example : Impl.SM4.mode_encrypt .ofb exKey (exData 17) exIv =
    .ok [0x68, 0x10, 0xad, 0x7d, 0x0d, 0x76, 0x62, 0xe0, 0x8e, 0xf2, 0x4f, 0xc5, 0x51, 0x97, 0x6e,
         0xff, 0x27] := by decide +kernel
example : Impl.SM4.mode_encrypt .cfb exKey (exData 17) exIv =
    .ok [0x68, 0x10, 0xad, 0x7d, 0x0d, 0x76, 0x62, 0xe0, 0x8e, 0xf2, 0x4f, 0xc5, 0x51, 0x97, 0x6e,
         0xff, 0x45] := by decide +kernel
example : Impl.SM4.mode_encrypt .cbc exKey (exData 0) exIv =
    .ok [0x5f, 0x1c, 0xb3, 0x4f, 0xfb, 0x1a, 0xb5, 0x67, 0xe3, 0xc1, 0x19, 0xaa, 0xa3, 0x65, 0xf1,
         0x34] := by decide +kernel

/-- decision logic of CBC decryption stated outright (no panic branch is reachable) -/
theorem cbc_dec_refines (key data iv : List UInt8) (hk : key.length = 16) (hiv : iv.length = 16) :
    Impl.SM4.mode_decrypt .cbc key data iv =
      match Modes.cbcDec (SM4.decBytes key) iv data with
      | some p => .ok p
      | none => .err (if data.length = 0 ∨ data.length % 16 ≠ 0 then "ErrorDataLen"
                      else "InvalidLastU8") :=
  Proofs.Modes.mode_decrypt_ok .cbc key data iv hk hiv
theorem cbc_dec_err (key data iv : List UInt8) (hk : key.length = 16) (hiv : iv.length = 16) :
    (∃ e, Impl.SM4.mode_decrypt .cbc key data iv = .err e) ↔
      (data.length = 0 ∨ data.length % 16 ≠ 0 ∨ Modes.cbcDec (SM4.decBytes key) iv data = none) :=
  Proofs.Modes.cbc_dec_err key data iv hk hiv
example : Impl.SM4.mode_decrypt .cbc exKey (exData 0) exIv = .err "ErrorDataLen" ∧
    Impl.SM4.mode_decrypt .cbc exKey (exData 15) exIv = .err "ErrorDataLen" ∧
    Impl.SM4.mode_decrypt .cbc exKey (exData 16) exIv = .err "InvalidLastU8" ∧
    Impl.SM4.mode_decrypt .cbc exKey (exData 17) exIv = .err "ErrorDataLen" := by decide +kernel

theorem iv_len_err (mode : Impl.SM4.Mode) (key data iv : List UInt8) (hk : key.length = 16)
    (hiv : iv.length ≠ 16) :
    Impl.SM4.mode_encrypt mode key data iv = .err "ErrorBlockSize" ∧
    Impl.SM4.mode_decrypt mode key data iv = .err "ErrorBlockSize" :=
  Proofs.Modes.mode_iv_err mode key data iv hk hiv
theorem key_len_err (mode : Impl.SM4.Mode) (key data iv : List UInt8) (hk : key.length ≠ 16) :
    Impl.SM4.mode_encrypt mode key data iv = .err "ErrorDataLen" ∧
    Impl.SM4.mode_decrypt mode key data iv = .err "ErrorDataLen" :=
  Proofs.Modes.mode_key_err mode key data iv hk
theorem mode_total (mode : Impl.SM4.Mode) (key data iv : List UInt8) :
    Impl.SM4.mode_encrypt mode key data iv ≠ .panic ∧
    Impl.SM4.mode_decrypt mode key data iv ≠ .panic :=
  Proofs.Modes.mode_total mode key data iv
example : Impl.SM4.mode_encrypt .cbc exKey [] [1, 2, 3] = .err "ErrorBlockSize" ∧
    Impl.SM4.mode_encrypt .cbc [1, 2, 3] [] exIv = .err "ErrorDataLen" := by decide +kernel

/-! ### round trips on `Spec.Modes`, generic in the block function -/

theorem spec_ctr_round_trip (E : Modes.Block → Modes.Block) (hE : ∀ b, (E b).length = 16)
    (iv data : List UInt8) : Modes.ctr E iv (Modes.ctr E iv data) = data :=
  Proofs.Modes.ctr_ctr E hE iv data
theorem spec_ofb_round_trip (E : Modes.Block → Modes.Block) (hE : ∀ b, (E b).length = 16)
    (iv data : List UInt8) : Modes.ofb E iv (Modes.ofb E iv data) = data :=
  Proofs.Modes.ofb_ofb E hE iv data
theorem spec_cfb_round_trip (E : Modes.Block → Modes.Block) (hE : ∀ b, (E b).length = 16)
    (iv data : List UInt8) : Modes.cfbDec E iv (Modes.cfbEnc E iv data) = data :=
  Proofs.Modes.cfbDec_cfbEnc E hE iv data
theorem spec_cbc_round_trip (E D : Modes.Block → Modes.Block) (hE : ∀ b, (E b).length = 16)
    (hDE : ∀ b, b.length = 16 → D (E b) = b) (iv data : List UInt8) (hiv : iv.length = 16) :
    Modes.cbcDec D iv (Modes.cbcEnc E iv data) = some data :=
  Proofs.Modes.cbcDec_cbcEnc E hE D hDE iv data hiv

/-! ### round trips of the implementation, for EVERY data length -/

theorem ctr_round_trip (key data iv : List UInt8) (hk : key.length = 16) (hiv : iv.length = 16) :
    (Impl.SM4.mode_encrypt .ctr key data iv).bind (fun c => Impl.SM4.mode_decrypt .ctr key c iv) =
      .ok data := by
  rw [ctr_refines key data iv hk hiv, Outcome.bind, ctr_dec_refines key _ iv hk hiv,
    spec_ctr_round_trip _ (Proofs.SM4.encBytes_length key)]
theorem ofb_round_trip (key data iv : List UInt8) (hk : key.length = 16) (hiv : iv.length = 16) :
    (Impl.SM4.mode_encrypt .ofb key data iv).bind (fun c => Impl.SM4.mode_decrypt .ofb key c iv) =
      .ok data := by
  rw [ofb_refines key data iv hk hiv, Outcome.bind, ofb_dec_refines key _ iv hk hiv,
    spec_ofb_round_trip _ (Proofs.SM4.encBytes_length key)]
theorem cfb_round_trip (key data iv : List UInt8) (hk : key.length = 16) (hiv : iv.length = 16) :
    (Impl.SM4.mode_encrypt .cfb key data iv).bind (fun c => Impl.SM4.mode_decrypt .cfb key c iv) =
      .ok data := by
  rw [cfb_enc_refines key data iv hk hiv, Outcome.bind, cfb_dec_refines key _ iv hk hiv,
    spec_cfb_round_trip _ (Proofs.SM4.encBytes_length key)]
theorem cbc_round_trip (key data iv : List UInt8) (hk : key.length = 16) (hiv : iv.length = 16) :
    (Impl.SM4.mode_encrypt .cbc key data iv).bind (fun c => Impl.SM4.mode_decrypt .cbc key c iv) =
      .ok data := by
  rw [cbc_enc_refines key data iv hk hiv, Outcome.bind, cbc_dec_refines key _ iv hk hiv,
    spec_cbc_round_trip _ _ (Proofs.SM4.encBytes_length key)
      (fun b hb => Proofs.SM4.dec_enc_bytes key b hb) iv data hiv]
example : (Impl.SM4.mode_encrypt .cbc exKey (exData 15) exIv).bind
    (fun c => Impl.SM4.mode_decrypt .cbc exKey c exIv) = .ok (exData 15) := by decide +kernel
example : (Impl.SM4.mode_encrypt .cbc exKey (exData 16) exIv).bind
    (fun c => Impl.SM4.mode_decrypt .cbc exKey c exIv) = .ok (exData 16) := by decide +kernel

/-! ### lengths -/

/-- CTR/OFB/CFB keep the length (both directions) -/
theorem stream_length (mode : Impl.SM4.Mode) (hm : mode ≠ .cbc) (key data iv : List UInt8)
    (hk : key.length = 16) (hiv : iv.length = 16) :
    (∃ c, Impl.SM4.mode_encrypt mode key data iv = .ok c ∧ c.length = data.length) ∧
    (∃ p, Impl.SM4.mode_decrypt mode key data iv = .ok p ∧ p.length = data.length) := by
  have hE := Proofs.SM4.encBytes_length key
  cases mode with
  | cbc => exact absurd rfl hm
  | cfb => exact ⟨⟨_, cfb_enc_refines key data iv hk hiv, Proofs.Modes.cfbEnc_length _ hE iv data⟩,
      ⟨_, cfb_dec_refines key data iv hk hiv, Proofs.Modes.cfbDec_length _ hE iv data⟩⟩
  | ofb => exact ⟨⟨_, ofb_refines key data iv hk hiv, Proofs.Modes.ofb_length _ hE iv data⟩,
      ⟨_, ofb_dec_refines key data iv hk hiv, Proofs.Modes.ofb_length _ hE iv data⟩⟩
  | ctr => exact ⟨⟨_, ctr_refines key data iv hk hiv, Proofs.Modes.ctr_length _ hE iv data⟩,
      ⟨_, ctr_dec_refines key data iv hk hiv, Proofs.Modes.ctr_length _ hE iv data⟩⟩
theorem cbc_length (key data iv : List UInt8) (hk : key.length = 16) (hiv : iv.length = 16) :
    ∃ c, Impl.SM4.mode_encrypt .cbc key data iv = .ok c ∧
      c.length = 16 * (data.length / 16 + 1) :=
  ⟨_, cbc_enc_refines key data iv hk hiv,
    Proofs.Modes.cbcEnc_length _ (Proofs.SM4.encBytes_length key) iv data hiv⟩
example : ∀ n ∈ [0, 15, 16, 17],
    (Impl.SM4.mode_encrypt .cbc exKey (exData n) exIv).map List.length =
      .ok (16 * (n / 16 + 1)) ∧
    (Impl.SM4.mode_encrypt .ctr exKey (exData n) exIv).map List.length = .ok n := by
  decide +kernel

end GmVerif.Thm.C07
