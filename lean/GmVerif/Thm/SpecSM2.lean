/-
Properties C03, C05, C15 (the algebra): the textbook SM2 specification is a correct cryptosystem.
* Part 1: `Spec.EC` (affine arithmetic on Nat with Fermat inverses) is Mathlib's elliptic-curve group.
* Part 2: the SM2 curve: G is on the curve, the discriminant is non-zero, [n]G = O, the order of G is the prime n.
* Part 3: sign/verify, encrypt/decrypt, octet-string round trip, key agreement — at the Spec level.
Primality of the SM2 field prime `p` and group order `n` is a hypothesis of every theorem that needs it.
Only property theorems here; all lemmas live in `GmVerif.Proofs.SpecEC` and `GmVerif.Proofs.SM2Algebra`.
-/
import GmVerif.Proofs.SpecEC
import GmVerif.Proofs.SM2Algebra
namespace GmVerif.Thm.SpecSM2
open GmVerif GmVerif.Spec.EC GmVerif.Spec.SM2
open GmVerif.Proofs.SpecEC (Valid W toPoint)

/-! ## Part 1 — Spec.EC is the Mathlib group (generic in the curve)

`Valid c` = `2 < c.p` and `(4a³ + 27b²) mod p ≠ 0`; `W c` = the Mathlib curve `y² = x³ + a x + b` over `ZMod c.p`;
`toPoint hc P h : (W c).Point` for an on-curve `P`. -/
section Part1
variable {c : Curve} [Fact (Nat.Prime c.p)] (hc : Valid c)
include hc

theorem toPoint_injective {P Q : Pt} (hP : onCurve c P = true) (hQ : onCurve c Q = true)
    (h : toPoint hc P hP = toPoint hc Q hQ) : P = Q := Proofs.SpecEC.toPoint_injective hc hP hQ h

/-- every Mathlib point is the image of a (unique) on-curve Spec point -/
theorem toPoint_surjective (X : (W c).Point) : ∃ P hP, toPoint hc P hP = X :=
  ⟨_, Proofs.SpecEC.onCurve_ofPoint X, Proofs.SpecEC.toPoint_ofPoint hc X _⟩

theorem onCurve_add {P Q : Pt} (hP : onCurve c P = true) (hQ : onCurve c Q = true) :
    onCurve c (add c P Q) = true := Proofs.SpecEC.onCurve_add hc hP hQ

theorem toPoint_add {P Q : Pt} (hP : onCurve c P = true) (hQ : onCurve c Q = true) :
    toPoint hc (add c P Q) (onCurve_add hc hP hQ) = toPoint hc P hP + toPoint hc Q hQ :=
  Proofs.SpecEC.toPoint_add hc hP hQ _

theorem onCurve_neg {P : Pt} (hP : onCurve c P = true) : onCurve c (neg c P) = true :=
  Proofs.SpecEC.onCurve_neg hc hP

theorem toPoint_neg {P : Pt} (hP : onCurve c P = true) :
    toPoint hc (neg c P) (onCurve_neg hc hP) = - toPoint hc P hP := Proofs.SpecEC.toPoint_neg hc hP _

theorem onCurve_mul (k : Nat) {P : Pt} (hP : onCurve c P = true) : onCurve c (mul c k P) = true :=
  Proofs.SpecEC.onCurve_mul hc k hP

theorem toPoint_mul (k : Nat) {P : Pt} (hP : onCurve c P = true) :
    toPoint hc (mul c k P) (onCurve_mul hc k hP) = k • toPoint hc P hP :=
  Proofs.SpecEC.toPoint_mul hc k hP _

theorem add_comm' {P Q : Pt} (hP : onCurve c P = true) (hQ : onCurve c Q = true) :
    add c P Q = add c Q P := Proofs.SpecEC.add_comm' hc hP hQ

theorem add_assoc' {P Q R : Pt} (hP : onCurve c P = true) (hQ : onCurve c Q = true)
    (hR : onCurve c R = true) : add c (add c P Q) R = add c P (add c Q R) :=
  Proofs.SpecEC.add_assoc' hc hP hQ hR

theorem add_neg' {P : Pt} (hP : onCurve c P = true) : add c P (neg c P) = none :=
  Proofs.SpecEC.add_neg' hc hP

theorem mul_add (k₁ k₂ : Nat) {P : Pt} (hP : onCurve c P = true) :
    mul c (k₁ + k₂) P = add c (mul c k₁ P) (mul c k₂ P) := Proofs.SpecEC.mul_add hc k₁ k₂ hP

theorem mul_mul (k₁ k₂ : Nat) {P : Pt} (hP : onCurve c P = true) :
    mul c k₁ (mul c k₂ P) = mul c (k₁ * k₂) P := Proofs.SpecEC.mul_mul hc k₁ k₂ hP

end Part1

theorem mul_zero (c : Curve) (P : Pt) : mul c 0 P = none := Proofs.SpecEC.mul_zero P
theorem mul_one (c : Curve) (P : Pt) : mul c 1 P = P := Proofs.SpecEC.mul_one P

/-! ## Part 2 — the SM2 instance -/

theorem sm2_G_onCurve : onCurve curve G = true := Proofs.SM2Algebra.sm2_G_onCurve
theorem sm2_disc_ne_zero : (4 * a ^ 3 + 27 * b ^ 2) % p ≠ 0 := Proofs.SM2Algebra.sm2_disc_ne_zero
theorem sm2_valid : Valid curve := Proofs.SM2Algebra.sm2_valid
/-- `decide +kernel` on the 256-step double-and-add (≈ 20 s) -/
theorem sm2_nG : mul curve n G = none := Proofs.SM2Algebra.sm2_nG
theorem sm2_mul_mod (hp : Nat.Prime p) (k : Nat) : mul curve k G = mul curve (k % n) G :=
  Proofs.SM2Algebra.sm2_mul_mod hp k
/-- the order of G is the prime n -/
theorem sm2_mul_ne_none (hp : Nat.Prime p) (hn : Nat.Prime n) (k : Nat) (h : k % n ≠ 0) :
    mul curve k G ≠ none := Proofs.SM2Algebra.sm2_mul_ne_none hp hn k h
example : mul curve 1 G = G ∧ 1 % n ≠ 0 := by decide +kernel

/-! ## Part 3 — protocol correctness at the Spec level -/

/-- C03: a signature made by the standard's signer for (d, e, k) is accepted by the standard's verifier under P = [d]G -/
theorem sign_then_verify (hp : Nat.Prime p) (hn : Nat.Prime n) (d e k r s : Nat)
    (hd : 1 ≤ d ∧ d ≤ n - 2) (hk : 1 ≤ k ∧ k < n) (_he : e < 2 ^ 256)
    (h : signWith d e k = some (r, s)) :
    1 ≤ r ∧ r < n ∧ 1 ≤ s ∧ s < n ∧ verify (mul curve d G) e r s = true :=
  Proofs.SM2Algebra.sign_then_verify hp hn d e k r s hd hk h

/-! non-vacuity: GM/T 0003.5 (GB/T 32918.5) Annex A.2 -/
def exD : Nat := 0x3945208F7B2144B13F36E38AC6D39F95889393692860B51A42FB81EF4DF7C5B8
def exK : Nat := 0x59276E27D506861A16680F3AD9C02DCCEF3CC1FA3CDBE4CE6D54B80DEAC1BC21
def exXA : Nat := 0x09F9DF311E5421A150DD7D161E4BC5C672179FAD1833FC076BB08FF356F35020
def exYA : Nat := 0xCCEA490CE26775A52DC6EA718CC1AA600AED05FBF35E084A6632F6072DA9AD13
/-- the default ID "1234567812345678" -/
def exId : List UInt8 := [0x31, 0x32, 0x33, 0x34, 0x35, 0x36, 0x37, 0x38, 0x31, 0x32, 0x33, 0x34, 0x35, 0x36, 0x37, 0x38]
/-- "message digest" -/
def exMsg : List UInt8 := [0x6d, 0x65, 0x73, 0x73, 0x61, 0x67, 0x65, 0x20, 0x64, 0x69, 0x67, 0x65, 0x73, 0x74]
def exE : Nat := 0xF0B43E94BA45ACCAACE692ED534382EB17E6AB5A19CE7B31F4486FDFC0D28640
def exR : Nat := 0xF5A03B0648D2C4630EEAC513E1BB81A15944DA3827D5B74143AC7EACEEE720B3
def exS : Nat := 0xB1B6AA29DF212FD8763182BC0D421CA1BB9038FD1F7F42D4840B69C485BBC1AA
theorem ex_pub : mul curve exD G = some (exXA, exYA) := by decide +kernel
theorem ex_digest : digestE exId exXA exYA exMsg = exE := by decide +kernel
theorem ex_sign : signWith exD exE exK = some (exR, exS) := by decide +kernel
example : (1 ≤ exD ∧ exD ≤ n - 2) ∧ (1 ≤ exK ∧ exK < n) ∧ exE < 2 ^ 256 := by decide +kernel
example (hp : Nat.Prime p) (hn : Nat.Prime n) : verify (some (exXA, exYA)) exE exR exS = true :=
  ex_pub ▸ (sign_then_verify hp hn exD exE exK exR exS (by decide +kernel) (by decide +kernel)
    (by decide +kernel) ex_sign).2.2.2.2

/-- `verify = true` pins down the standard's equation -/
theorem verify_iff (P : Pt) (e r s : Nat) :
    verify P e r s = true ↔ 1 ≤ r ∧ r < n ∧ 1 ≤ s ∧ s < n ∧ (r + s) % n ≠ 0 ∧
      ∃ x1 y1, add curve (mul curve s G) (mul curve ((r + s) % n) P) = some (x1, y1) ∧
        (e + x1) % n = r := Proofs.SM2Algebra.verify_iff P e r s
example : verify (some (exXA, exYA)) exE 0 exS = false ∧ verify (some (exXA, exYA)) exE exR n = false := by
  decide +kernel

/-- the octet-string conversion of part 1 §4.2.8–4.2.10 round-trips on every curve point, for both encodings
(for p ≡ 3 mod 4 the square root and the parity bit select the right root) — C19's core -/
theorem decode_encode (hp : Nat.Prime p) (x y : Nat) (h : onCurve curve (some (x, y)) = true)
    (compressed : Bool) :
    decodePoint (encodePoint compressed (some (x, y))) = some (x, y) :=
  Proofs.SM2Algebra.decode_encode hp x y h compressed
example : onCurve curve (some (Gx, Gy)) = true ∧
    decodePoint (encodePoint true (some (Gx, Gy))) = some (Gx, Gy) ∧
    decodePoint (encodePoint false (some (Gx, Gy))) = some (Gx, Gy) := by decide +kernel

theorem decode_some_onCurve (bs : List UInt8) (x y : Nat) (h : decodePoint bs = some (x, y)) :
    onCurve curve (some (x, y)) = true ∧ x < p ∧ y < p := Proofs.SM2Algebra.decode_some_onCurve bs x y h
example : decodePoint (0x02 :: bytes32 Gx) = some (Gx, Gy) := by decide +kernel
example : decodePoint (0x02 :: bytes32 p) = none ∧ decodePoint [0x00] = none := by decide +kernel

/-- C05: decryption inverts encryption for both orders and both C1 encodings, every non-empty message, every valid key pair -/
theorem decrypt_encrypt (hp : Nat.Prime p) (_hn : Nat.Prime n) (d k : Nat) (_hd : 1 ≤ d ∧ d < n)
    (_hk : 1 ≤ k ∧ k < n) (msg : List UInt8) (hm : msg ≠ []) (compressed : Bool) (order : Order)
    (ct : List UInt8) (h : encryptWith (mul curve d G) msg k compressed order = some ct) :
    decrypt d ct compressed order = some msg :=
  Proofs.SM2Algebra.decrypt_encrypt hp d k msg hm compressed order ct h

/-! non-vacuity: GB/T 32918.5 Annex C (same key pair and nonce as above), "encryption standard", C1‖C3‖C2 -/
def exPlain : List UInt8 := [0x65, 0x6e, 0x63, 0x72, 0x79, 0x70, 0x74, 0x69, 0x6f, 0x6e, 0x20, 0x73, 0x74, 0x61, 0x6e, 0x64, 0x61, 0x72, 0x64]
def exCt : List UInt8 := [
   0x04, 0x04, 0xeb, 0xfc, 0x71, 0x8e, 0x8d, 0x17, 0x98, 0x62, 0x04, 0x32, 0x26, 0x8e, 0x77, 0xfe,
   0xb6, 0x41, 0x5e, 0x2e, 0xde, 0x0e, 0x07, 0x3c, 0x0f, 0x4f, 0x64, 0x0e, 0xcd, 0x2e, 0x14, 0x9a,
   0x73, 0xe8, 0x58, 0xf9, 0xd8, 0x1e, 0x54, 0x30, 0xa5, 0x7b, 0x36, 0xda, 0xab, 0x8f, 0x95, 0x0a,
   0x3c, 0x64, 0xe6, 0xee, 0x6a, 0x63, 0x09, 0x4d, 0x99, 0x28, 0x3a, 0xff, 0x76, 0x7e, 0x12, 0x4d,
   0xf0, 0x59, 0x98, 0x3c, 0x18, 0xf8, 0x09, 0xe2, 0x62, 0x92, 0x3c, 0x53, 0xae, 0xc2, 0x95, 0xd3,
   0x03, 0x83, 0xb5, 0x4e, 0x39, 0xd6, 0x09, 0xd1, 0x60, 0xaf, 0xcb, 0x19, 0x08, 0xd0, 0xbd, 0x87,
   0x66, 0x21, 0x88, 0x6c, 0xa9, 0x89, 0xca, 0x9c, 0x7d, 0x58, 0x08, 0x73, 0x07, 0xca, 0x93, 0x09,
   0x2d, 0x65, 0x1e, 0xfa]
theorem ex_encrypt' : encryptWith (some (exXA, exYA)) exPlain exK false .c1c3c2 = some exCt := by
  decide +kernel
theorem ex_encrypt : encryptWith (mul curve exD G) exPlain exK false .c1c3c2 = some exCt :=
  (congrArg (fun P => encryptWith P exPlain exK false .c1c3c2) ex_pub).trans ex_encrypt'
example : decrypt exD exCt false .c1c3c2 = some exPlain := by decide +kernel
example : (1 ≤ exD ∧ exD < n) ∧ exPlain ≠ [] := by decide +kernel

/-- C15: both parties of an honest run compute the same key and confirmation values
(both sides compute [t_A·t_B]G; the cofactor is 1; if that point is O both abort) -/
theorem kex_agree (hp : Nat.Prime p) (hn : Nat.Prime n) (dA dB rA rB : Nat)
    (_hdA : 1 ≤ dA ∧ dA < n) (_hdB : 1 ≤ dB ∧ dB < n) (hrA : 1 ≤ rA ∧ rA < n) (hrB : 1 ≤ rB ∧ rB < n)
    (za zb : List UInt8) (klen : Nat) :
    let PA := mul curve dA G; let PB := mul curve dB G
    let RA := mul curve rA G; let RB := mul curve rB G
    kexCompute dA rA RA RB PB za zb klen RA RB = kexCompute dB rB RB RA PA za zb klen RA RB :=
  Proofs.SM2Algebra.kex_agree hp hn dA dB rA rB hrA hrB za zb klen
/-- non-vacuity: an honest run (d_A, r_A, d_B, r_B) = (1, 2, 3, 4) does not abort -/
example : (kexCompute 1 2 (mul curve 2 G) (mul curve 4 G) (mul curve 3 G) [] [] 16
    (mul curve 2 G) (mul curve 4 G)).map (·.key) =
    some [0xf2, 0x01, 0x13, 0x9a, 0x20, 0xc8, 0x27, 0xb1, 0x0c, 0x7d, 0x17, 0x44, 0xc4, 0x30, 0x87, 0x53] := by
  decide +kernel

end GmVerif.Thm.SpecSM2
