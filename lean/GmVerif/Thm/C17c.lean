/-
C17c: the refinement theorems of the SM9 key exchange (`Thm.C17b`) WITHOUT the hypotheses `PairingRefines` and `TowerDense`.

DISCHARGED:
* `PairingRefines` (the model's pairing routine returns a canonical tower element denoting `Spec.SM9.pairing` on G1 × G2)
  is now a theorem, `Thm.C12g.pairingRefines` (no hypothesis);
* `TowerDense` (tower multiplication is dense multiplication) is `Thm.C09b.tower_dense` (no hypothesis).
Every theorem of `Thm.C17b` that took `(PR : PairingRefines) (TD : TowerDense)` is restated here under the same name, with
the same statement minus these hypotheses, and proved by applying the original.

WHAT REMAINS (genuine preconditions, not proof gaps):
* `Valid m.ppube`, `InG2 key.de` — the master public key / the private key are valid representations (of a point of the
  curve / of G2; true for generated and extracted keys);
* `Valid ra`, `ra.z ≠ 0`, `Finite rb` — the received / own ephemeral points are finite points in a valid (resp. canonical)
  representation (a received point off the curve is rejected by both sides: `Thm.C17b.exch_1b_rejects`; the point at
  infinity is the stated difference `Thm.C17b.infinity_received`);
* 1 ≤ klen ≤ 32·(2^32 − 1), r_A ≤ N − 1 (above it `Fp12::pow`'s `assert!` fires: `Thm.C17.exch_2a_large_ra_panics`);
* `hfin` (R_B = [r_B]Q_A is never the point at infinity) in `exch_1b_refines` — holds for an honest key:
  `exch_1b_refines_honest`;
* `PairingFacts` (bilinearity and non-degeneracy of the SPECIFICATION's textbook pairing; a statement about `Spec.SM9`
  only, NOT proved) — in `exch_agree_impl` / `exch_agree_direct` / `exch_agree_wire` only.
The hypothesis-free theorems of `Thm.C17b` (`exch_1a_refines`, `exch_1b_rejects`, `exch_1b_no_panic`, `infinity_received`, …)
are not repeated.
-/
import GmVerif.Thm.C17b
import GmVerif.Thm.C09b
import GmVerif.Thm.C12g

namespace GmVerif.Thm.C17c
open GmVerif GmVerif.Impl.SM9
open GmVerif.Proofs.SM9Bridge (dense TowerDense PairingRefines InG2)
open GmVerif.Proofs.SM9Algebra (PairingFacts)
open GmVerif.Thm.C13c (Valid toSpec)
open GmVerif.Thm.C13d (Valid2 toSpec2)
open GmVerif.Thm.C10b (Accept firstAccepted)
open GmVerif.Thm.C17b (specRespLoop Finite)
open GmVerif.Spec.SM9 (curve N p)
open GmVerif.Thm.SpecSM9 (exKx exIdA exIdB exDeAx exDeBx exRA exRB)

/-- the discharged hypotheses -/
theorem pairingRefines : PairingRefines := Thm.C12g.pairingRefines
theorem towerDense : TowerDense := Thm.C09b.tower_dense

/-! ## step 1b -/

/-- THE PROPERTY (responder): for a private key in G2 and a received R_A that is a finite point of the curve (any valid
representation), 1 ≤ klen ≤ 32·(2^32 − 1): `exch_step_1b` returns EXACTLY the result of the standard's loop — SK_B
octet for octet, R_B as a valid finite representation whose octets are the standard's, the scalars logged, the candidates
left — and `rng-exhausted` when the loop finds no r_B; it never panics.
`hfin` (R_B = [r_B]Q_A is never the point at infinity) holds for an honest key: `exch_1b_refines_honest`. -/
theorem exch_1b_refines (m : Sm9EncMasterKey) (hv : Valid m.ppube)
    (key : Sm9EncKey) (hde : InG2 key.de) (ida idb : List UInt8) (ra : Point) (hra : Valid ra) (hraz : ra.z ≠ 0)
    (klen : Nat) (hk1 : 1 ≤ klen) (hk2 : klen ≤ 32 * (2 ^ 32 - 1))
    (hfin : ∀ r, Accept r → Spec.SM9.exchEphemeral (toSpec m.ppube) ida r ≠ none)
    (cands : List (List UInt8)) :
    match specRespLoop (toSpec m.ppube) (toSpec2 key.de) ida idb (toSpec ra) klen cands [] with
    | none => exch_step_1b m ida idb key ra klen cands = .err "rng-exhausted"
    | some res => ∃ rbp, exch_step_1b m ida idb key ra klen cands = .ok ⟨(rbp, res.val.2), res.used, res.rest⟩
        ∧ Valid rbp ∧ rbp.z ≠ 0 ∧ toSpec rbp = res.val.1
        ∧ rbp.to_bytes_be = Spec.SM9.encodePoint res.val.1 :=
  C17b.exch_1b_refines pairingRefines towerDense m hv key hde ida idb ra hra hraz klen hk1 hk2 hfin cands

/-- … with Ppub-e = [ke]P1 and an initiator identity that has a private key (H1(ID_A ‖ 02) + ke ≢ 0 mod N) -/
theorem exch_1b_refines_honest (ke : Nat) (ppube : Point) (hv : Valid ppube)
    (hpp : toSpec ppube = Spec.SM9.encMasterPub ke) (key : Sm9EncKey) (hde : InG2 key.de) (ida idb : List UInt8)
    (hext : (Spec.SM9.H1 (ida ++ [Spec.SM9.hidExch]) + ke) % N ≠ 0)
    (ra : Point) (hra : Valid ra) (hraz : ra.z ≠ 0) (klen : Nat) (hk1 : 1 ≤ klen) (hk2 : klen ≤ 32 * (2 ^ 32 - 1))
    (cands : List (List UInt8)) :
    match specRespLoop (Spec.SM9.encMasterPub ke) (toSpec2 key.de) ida idb (toSpec ra) klen cands [] with
    | none => exch_step_1b ⟨ke, ppube⟩ ida idb key ra klen cands = .err "rng-exhausted"
    | some res => ∃ rbp, exch_step_1b ⟨ke, ppube⟩ ida idb key ra klen cands = .ok ⟨(rbp, res.val.2), res.used, res.rest⟩
        ∧ Valid rbp ∧ rbp.z ≠ 0 ∧ toSpec rbp = res.val.1
        ∧ rbp.to_bytes_be = Spec.SM9.encodePoint res.val.1 :=
  C17b.exch_1b_refines_honest pairingRefines towerDense ke ppube hv hpp key hde ida idb hext ra hra hraz klen hk1 hk2 cands

/-- non-vacuity, no hypothesis left, Annex B: master key of the Annex with the public key the model generates, B's key as
the model extracts it (it is the Annex's de_B), received point P1, klen = 16, no candidate: the standard's loop is
exhausted and the model says so -/
example : ∃ P key, Point.g_mul exKx = .ok P ∧ (⟨exKx, P⟩ : Sm9EncMasterKey).extract_exch_key exIdB = .ok (some key)
    ∧ toSpec2 key.de = exDeBx
    ∧ exch_step_1b ⟨exKx, P⟩ exIdA exIdB key Thm.C13c.G1 16 [] = .err "rng-exhausted" := by
  obtain ⟨P, h1, h2, h3⟩ := Thm.C13c.g_mul_correct exKx (by decide)
  obtain ⟨r, hB1, hB2, _⟩ := (Thm.C13d.extract_enc_refines ⟨exKx, P⟩ (show exKx < N by decide +kernel) exIdB).2
  rw [Thm.SpecSM9.ex_extractB] at hB2
  cases r with
  | none => simp at hB2
  | some key =>
    have hB1' := hB1
    rw [Proofs.SM9G2Impl.extract_exch_key_eq] at hB1'
    have hde : InG2 key.de :=
      (Proofs.SM9EncRefinesRound.extracted_key_facts exKx (by decide +kernel) P exIdB _ key hB1').1
    exact ⟨P, key, h1, hB1, by simpa using hB2,
      exch_1b_refines_honest exKx P h2 h3 key hde exIdA exIdB C17b.ex_ext_A Thm.C13c.G1 Thm.C13c.G1_valid
        (by decide +kernel) 16 (by decide) (by decide) []⟩

/-! ## step 2a -/

/-- THE PROPERTY (initiator): r_A ≤ N − 1, the initiator's own R_A (valid, finite), a received R_B with canonical
coordinates and Z ≠ 0, 1 ≤ klen ≤ 32·(2^32 − 1): `InvalidPoint` exactly when the standard rejects R_B; otherwise the
standard's SK_A — except that an all-zero SK_A is the error `KdfHashError` (one pass, no redraw; the standard has no such
test) -/
theorem exch_2a_refines (m : Sm9EncMasterKey) (hv : Valid m.ppube)
    (key : Sm9EncKey) (hde : InG2 key.de) (ida idb : List UInt8) (ra_ : Nat) (hra_ : ra_ ≤ N - 1)
    (ra : Point) (hra : Valid ra) (hraz : ra.z ≠ 0) (rb : Point) (hrb : Finite rb)
    (klen : Nat) (hk1 : 1 ≤ klen) (hk2 : klen ≤ 32 * (2 ^ 32 - 1)) :
    exch_step_2a m ida idb key ra_ ra rb klen =
      match Spec.SM9.exchInitiator (toSpec m.ppube) (toSpec2 key.de) ida idb ra_ (toSpec ra) (toSpec rb) klen with
      | none => .err "InvalidPoint"
      | some sk => if sk.all (· == 0) then .err "KdfHashError" else .ok sk :=
  C17b.exch_2a_refines pairingRefines towerDense m hv key hde ida idb ra_ hra_ ra hra hraz rb hrb klen hk1 hk2

/-- non-vacuity: the side conditions hold for the Annex's r_A, the points P1 and (0, 0, 1) (finite, off the curve) -/
example (m : Sm9EncMasterKey) (hv : Valid m.ppube) (key : Sm9EncKey) (hde : InG2 key.de) :
    exch_step_2a m exIdA exIdB key exRA Thm.C13c.G1 ⟨0, 0, Gen.SM9.MODP_MONT_ONE⟩ 16 =
      match Spec.SM9.exchInitiator (toSpec m.ppube) (toSpec2 key.de) exIdA exIdB exRA (toSpec Thm.C13c.G1)
        (toSpec ⟨0, 0, Gen.SM9.MODP_MONT_ONE⟩) 16 with
      | none => .err "InvalidPoint"
      | some sk => if sk.all (· == 0) then .err "KdfHashError" else .ok sk :=
  exch_2a_refines m hv key hde exIdA exIdB exRA (by decide +kernel) Thm.C13c.G1 Thm.C13c.G1_valid (by decide +kernel)
    ⟨0, 0, Gen.SM9.MODP_MONT_ONE⟩ (by decide +kernel) 16 (by decide) (by decide)

/-! ## the honest run (remaining hypothesis: `PairingFacts`) -/

/-- an honest run on the model: master key ke ∈ [1, N − 1], any valid representation of Ppub-e = [ke]P1, two identities with
extracted keys, klen ≥ 1, any candidates.  If step 1a (A) and step 1b (B, on ANY valid representation `raB` of R_A — e.g. the
one parsed from R_A's octets) succeed, then step 2a (A, on any valid representation `rbA` of R_B) returns B's key:
SK_A = SK_B, and this key is the standard's (`exchResponder` for the last logged r_B, `exchInitiator` for r_A). -/
theorem exch_agree_impl (F : PairingFacts) (ke : Nat) (hke : 1 ≤ ke ∧ ke < N)
    (ppube : Point) (hv : Valid ppube) (hpp : toSpec ppube = Spec.SM9.encMasterPub ke) (ida idb : List UInt8)
    (keyA keyB : Sm9EncKey)
    (hA : (⟨ke, ppube⟩ : Sm9EncMasterKey).extract_exch_key ida = .ok (some keyA))
    (hB : (⟨ke, ppube⟩ : Sm9EncMasterKey).extract_exch_key idb = .ok (some keyB))
    (klen : Nat) (hk : 1 ≤ klen)
    (candsA : List (List UInt8)) (RA : Point) (rA : Nat) (usedA : List Nat) (restA : List (List UInt8))
    (h1a : exch_step_1a ⟨ke, ppube⟩ idb candsA = .ok ⟨(RA, rA), usedA, restA⟩)
    (raB : Point) (hraB : Valid raB) (hraBs : toSpec raB = toSpec RA)
    (candsB : List (List UInt8)) (RB : Point) (SKB : List UInt8) (usedB : List Nat) (restB : List (List UInt8))
    (h1b : exch_step_1b ⟨ke, ppube⟩ ida idb keyB raB klen candsB = .ok ⟨(RB, SKB), usedB, restB⟩)
    (rbA : Point) (hrbA : Valid rbA) (hrbAs : toSpec rbA = toSpec RB) :
    exch_step_2a ⟨ke, ppube⟩ ida idb keyA rA RA rbA klen = .ok SKB
    ∧ toSpec RA = Spec.SM9.exchEphemeral (Spec.SM9.encMasterPub ke) idb rA
    ∧ ∃ rB, usedB.getLast? = some rB
      ∧ Spec.SM9.exchResponder (Spec.SM9.encMasterPub ke) (toSpec2 keyB.de) ida idb
          (Spec.SM9.exchEphemeral (Spec.SM9.encMasterPub ke) idb rA) rB klen = some (toSpec RB, SKB)
      ∧ Spec.SM9.exchInitiator (Spec.SM9.encMasterPub ke) (toSpec2 keyA.de) ida idb rA
          (Spec.SM9.exchEphemeral (Spec.SM9.encMasterPub ke) idb rA) (toSpec RB) klen = some SKB :=
  C17b.exch_agree_impl pairingRefines towerDense F ke hke ppube hv hpp ida idb keyA keyB hA hB klen hk candsA RA rA usedA
    restA h1a raB hraB hraBs candsB RB SKB usedB restB h1b rbA hrbA hrbAs

/-- the plain case: the points are handed over as they are -/
theorem exch_agree_direct (F : PairingFacts) (ke : Nat) (hke : 1 ≤ ke ∧ ke < N)
    (ppube : Point) (hv : Valid ppube) (hpp : toSpec ppube = Spec.SM9.encMasterPub ke) (ida idb : List UInt8)
    (keyA keyB : Sm9EncKey)
    (hA : (⟨ke, ppube⟩ : Sm9EncMasterKey).extract_exch_key ida = .ok (some keyA))
    (hB : (⟨ke, ppube⟩ : Sm9EncMasterKey).extract_exch_key idb = .ok (some keyB))
    (klen : Nat) (hk : 1 ≤ klen)
    (candsA : List (List UInt8)) (RA : Point) (rA : Nat) (usedA : List Nat) (restA : List (List UInt8))
    (h1a : exch_step_1a ⟨ke, ppube⟩ idb candsA = .ok ⟨(RA, rA), usedA, restA⟩)
    (candsB : List (List UInt8)) (RB : Point) (SKB : List UInt8) (usedB : List Nat) (restB : List (List UInt8))
    (h1b : exch_step_1b ⟨ke, ppube⟩ ida idb keyB RA klen candsB = .ok ⟨(RB, SKB), usedB, restB⟩) :
    exch_step_2a ⟨ke, ppube⟩ ida idb keyA rA RA RB klen = .ok SKB :=
  C17b.exch_agree_direct pairingRefines towerDense F ke hke ppube hv hpp ida idb keyA keyB hA hB klen hk candsA RA rA usedA
    restA h1a candsB RB SKB usedB restB h1b

/-- over the wire: B parses the octets of R_A (`Point::from_bytes`), A parses the octets of R_B -/
theorem exch_agree_wire (F : PairingFacts) (ke : Nat) (hke : 1 ≤ ke ∧ ke < N)
    (ppube : Point) (hv : Valid ppube) (hpp : toSpec ppube = Spec.SM9.encMasterPub ke) (ida idb : List UInt8)
    (keyA keyB : Sm9EncKey)
    (hA : (⟨ke, ppube⟩ : Sm9EncMasterKey).extract_exch_key ida = .ok (some keyA))
    (hB : (⟨ke, ppube⟩ : Sm9EncMasterKey).extract_exch_key idb = .ok (some keyB))
    (klen : Nat) (hk : 1 ≤ klen)
    (candsA : List (List UInt8)) (RA : Point) (rA : Nat) (usedA : List Nat) (restA : List (List UInt8))
    (h1a : exch_step_1a ⟨ke, ppube⟩ idb candsA = .ok ⟨(RA, rA), usedA, restA⟩) :
    ∃ raB, Point.from_bytes RA.to_bytes_be = .ok raB ∧
      ∀ (candsB : List (List UInt8)) (RB : Point) (SKB : List UInt8) (usedB : List Nat) (restB : List (List UInt8)),
        exch_step_1b ⟨ke, ppube⟩ ida idb keyB raB klen candsB = .ok ⟨(RB, SKB), usedB, restB⟩ →
        ∃ rbA, Point.from_bytes RB.to_bytes_be = .ok rbA
          ∧ exch_step_2a ⟨ke, ppube⟩ ida idb keyA rA RA rbA klen = .ok SKB :=
  C17b.exch_agree_wire pairingRefines towerDense F ke hke ppube hv hpp ida idb keyA keyB hA hB klen hk candsA RA rA usedA
    restA h1a

/-- non-vacuity, Annex B: the hypotheses on the master key, the identities "Alice" / "Bob" and klen = 16 hold, both keys
exist and are the Annex's; whenever the two steps succeed the keys agree -/
example (F : PairingFacts) : ∃ P keyA keyB, Point.g_mul exKx = .ok P
    ∧ (⟨exKx, P⟩ : Sm9EncMasterKey).extract_exch_key exIdA = .ok (some keyA)
    ∧ (⟨exKx, P⟩ : Sm9EncMasterKey).extract_exch_key exIdB = .ok (some keyB)
    ∧ toSpec2 keyA.de = exDeAx ∧ toSpec2 keyB.de = exDeBx
    ∧ ∀ candsA RA rA usedA restA candsB RB SKB usedB restB,
        exch_step_1a ⟨exKx, P⟩ exIdB candsA = .ok ⟨(RA, rA), usedA, restA⟩ →
        exch_step_1b ⟨exKx, P⟩ exIdA exIdB keyB RA 16 candsB = .ok ⟨(RB, SKB), usedB, restB⟩ →
        exch_step_2a ⟨exKx, P⟩ exIdA exIdB keyA rA RA RB 16 = .ok SKB := by
  obtain ⟨P, h1, h2, h3⟩ := Thm.C13c.g_mul_correct exKx (by decide)
  have hlt : exKx < N := by decide +kernel
  obtain ⟨rA, hA1, hA2, _⟩ := (Thm.C13d.extract_enc_refines ⟨exKx, P⟩ hlt exIdA).2
  obtain ⟨rB, hB1, hB2, _⟩ := (Thm.C13d.extract_enc_refines ⟨exKx, P⟩ hlt exIdB).2
  rw [Thm.SpecSM9.ex_extractA] at hA2
  rw [Thm.SpecSM9.ex_extractB] at hB2
  cases rA with
  | none => simp at hA2
  | some keyA =>
    cases rB with
    | none => simp at hB2
    | some keyB =>
      refine ⟨P, keyA, keyB, h1, hA1, hB1, by simpa using hA2, by simpa using hB2, ?_⟩
      intro candsA RA rA usedA restA candsB RB SKB usedB restB h1a h1b
      exact exch_agree_direct F exKx (by decide +kernel) P h2 h3 exIdA exIdB keyA keyB hA1 hB1 16 (by decide)
        candsA RA rA usedA restA h1a candsB RB SKB usedB restB h1b

end GmVerif.Thm.C17c
