/-
C04: decision logic of SM2 signature verification in the model of gm-sm2 (`Impl.SM2.verify_raw`, `verify`, key.rs):
accepts exactly when …, never panics, rejects every malformed (r, s) encoding and the sum at infinity with an error.
Only the property theorems; all work is in `GmVerif.Proofs.SM2Logic`.  Point operations stay opaque.
-/
import GmVerif.Proofs.SM2Logic

namespace GmVerif.Thm.C04
open GmVerif GmVerif.Impl.SM2
open GmVerif.Proofs.SM2Logic.Ex (sigEx)

/-- verification accepts exactly: 32-byte digest, 64-byte signature, r and s in [1, n-1], t = s + r ≠ 0 (mod n),
    [s]G + [t]P_A is not the point at infinity (Z ≠ 0) and r = (x1 + e) mod n for (x1, _) = [s]G + [t]P_A -/
theorem verify_raw_iff (digest : List UInt8) (pk : Point) (sig : List UInt8) :
    verify_raw digest pk sig = .ok () ↔
      digest.length = 32 ∧ sig.length = 64 ∧
      1 ≤ beNat (sig.take 32) ∧ beNat (sig.take 32) < Gen.SM2.N ∧ 1 ≤ beNat (sig.drop 32) ∧ beNat (sig.drop 32) < Gen.SM2.N ∧
      fn_add (beNat (sig.drop 32)) (beNat (sig.take 32)) ≠ 0 ∧
      ((g_mul (beNat (sig.drop 32))).point_add
          (pk.scalar_mul (fn_add (beNat (sig.drop 32)) (beNat (sig.take 32))))).is_zero = false ∧
      beNat (sig.take 32) =
        fn_add (reduceN (fp_from_mont (((g_mul (beNat (sig.drop 32))).point_add
                  (pk.scalar_mul (fn_add (beNat (sig.drop 32)) (beNat (sig.take 32))))).to_affine_point).x))
               (reduceN (beNat digest)) :=
  Proofs.SM2Logic.verify_raw_iff digest pk sig

/-- non-vacuity (`sigEx` = what `sign_raw` returns on digest 11…11, d = 5, nonce 07…07): the accepting side is
    inhabited (evaluated in the kernel), hence so is the right-hand side -/
example : verify_raw (List.replicate 32 0x11) (g_mul 5) sigEx = .ok () := by decide +kernel
example : (sign_raw (List.replicate 32 0x11) 5 [List.replicate 32 0x07]).map (·.val) = .ok sigEx := by decide +kernel
example : beNat (sigEx.take 32) =
    fn_add (reduceN (fp_from_mont (((g_mul (beNat (sigEx.drop 32))).point_add
              ((g_mul 5).scalar_mul (fn_add (beNat (sigEx.drop 32)) (beNat (sigEx.take 32))))).to_affine_point).x))
           (reduceN (beNat (List.replicate 32 0x11))) :=
  ((verify_raw_iff _ _ _).mp (by decide +kernel)).2.2.2.2.2.2.2.2
/-- and the rejecting side: one flipped bit in s -/
example : verify_raw (List.replicate 32 0x11) (g_mul 5)
    (sigEx.take 63 ++ [0x11]) = .err "InvalidDigest" := by decide +kernel

theorem verify_raw_total (digest : List UInt8) (pk : Point) (sig : List UInt8) : verify_raw digest pk sig ≠ .panic :=
  Proofs.SM2Logic.verify_raw_total digest pk sig

example : verify_raw [] Point.zero [] ≠ .panic := verify_raw_total _ _ _

theorem verify_total (pk : Point) (id msg sig : List UInt8) : verify pk id msg sig ≠ .panic :=
  Proofs.SM2Logic.verify_total pk id msg sig

example : verify ⟨1, 2, 3⟩ [] [] (List.replicate 64 0) ≠ .panic := verify_total _ _ _ _

/-- any encoding that is not exactly 64 bytes is rejected with an error, never accepted -/
theorem verify_bad_length (digest : List UInt8) (pk : Point) (sig : List UInt8) (h : sig.length ≠ 64) :
    ∃ e, verify_raw digest pk sig = .err e :=
  Proofs.SM2Logic.verify_bad_length digest pk sig h

example : (List.replicate 65 (1 : UInt8)).length ≠ 64 := by decide
example : ∃ e, verify_raw (List.replicate 32 0x11) (g_mul 5) (sigEx ++ [0]) = .err e :=
  verify_bad_length _ _ _ (by decide)
example : ∃ e, verify_raw (List.replicate 32 0x11) (g_mul 5) (sigEx.take 63) = .err e :=
  verify_bad_length _ _ _ (by decide)

theorem verify_out_of_range (digest : List UInt8) (pk : Point) (sig : List UInt8) (h64 : sig.length = 64)
    (h : beNat (sig.take 32) = 0 ∨ beNat (sig.take 32) ≥ Gen.SM2.N ∨ beNat (sig.drop 32) = 0 ∨ beNat (sig.drop 32) ≥ Gen.SM2.N) :
    ∃ e, verify_raw digest pk sig = .err e :=
  Proofs.SM2Logic.verify_out_of_range digest pk sig h64 h

/-- r = 0 -/
example : ∃ e, verify_raw (List.replicate 32 0x11) (g_mul 5) (List.replicate 32 0 ++ sigEx.drop 32) = .err e :=
  verify_out_of_range _ _ _ (by decide) (.inl (by decide +kernel))
/-- r = n -/
example : ∃ e, verify_raw (List.replicate 32 0x11) (g_mul 5) (natBE 32 Gen.SM2.N ++ sigEx.drop 32) = .err e :=
  verify_out_of_range _ _ _ (by decide +kernel) (.inr (.inl (by decide +kernel)))
/-- s = 0 -/
example : ∃ e, verify_raw (List.replicate 32 0x11) (g_mul 5) (sigEx.take 32 ++ List.replicate 32 0) = .err e :=
  verify_out_of_range _ _ _ (by decide +kernel) (.inr (.inr (.inl (by decide +kernel))))
/-- s = 2^256 - 1 -/
example : ∃ e, verify_raw (List.replicate 32 0x11) (g_mul 5) (sigEx.take 32 ++ List.replicate 32 0xFF) = .err e :=
  verify_out_of_range _ _ _ (by decide +kernel) (.inr (.inr (.inr (by decide +kernel))))

/-- GB/T 32918.2 B6: a signature that passes the length, range and t ≠ 0 checks but for which [s]G + [t]P_A is the point
    at infinity is rejected with an error (before the fix of key.rs the model read x1 = 0 off that point) -/
theorem verify_sum_infinity (digest : List UInt8) (pk : Point) (sig : List UInt8)
    (hd : digest.length = 32) (hs : sig.length = 64)
    (hr : 1 ≤ beNat (sig.take 32) ∧ beNat (sig.take 32) < Gen.SM2.N)
    (hsr : 1 ≤ beNat (sig.drop 32) ∧ beNat (sig.drop 32) < Gen.SM2.N)
    (ht : fn_add (beNat (sig.drop 32)) (beNat (sig.take 32)) ≠ 0)
    (h : ((g_mul (beNat (sig.drop 32))).point_add
        (pk.scalar_mul (fn_add (beNat (sig.drop 32)) (beNat (sig.take 32))))).is_zero = true) :
    verify_raw digest pk sig = .err "InvalidDigest" :=
  Proofs.SM2Logic.verify_sum_infinity digest pk sig hd hs hr hsr ht h

/-- the hypotheses are satisfiable: public key G (d = 1), e = 1, r = 1, s = (n−1)/2, so t = (n+1)/2 and
    [s]G + [t]G = [n]G = O; r = e mod n, so this is the input the unfixed code accepted -/
example : verify_raw (natBE 32 1) (g_mul 1) (natBE 32 1 ++ natBE 32 ((Gen.SM2.N - 1) / 2)) = .err "InvalidDigest" :=
  verify_sum_infinity _ _ _ (by decide) (by decide) (by decide +kernel) (by decide +kernel) (by decide +kernel)
    (by decide +kernel)

/-- verify = verify_raw on e = SM3(ZA ‖ M) -/
theorem verify_unfold (pk : Point) (id msg sig : List UInt8) (za : List UInt8) (h : compute_za id pk = .ok za) :
    verify pk id msg sig = verify_raw (sm3 (za ++ msg)) pk sig :=
  Proofs.SM2Logic.verify_unfold pk id msg sig za h

/-- the hypothesis is satisfiable: ZA of a valid key exists -/
example : (compute_za [0x31, 0x32, 0x33, 0x34] (g_mul 5)).isOk = true := by decide +kernel

end GmVerif.Thm.C04
