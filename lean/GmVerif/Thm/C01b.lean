/-
C01b: the streaming driver op `sm3rep` equals the hash of the materialised message.
`Impl.SM3.sm3_hash_rep block count tail` (fold `cf` over `count` copies of a 64-byte block, then pad `tail` with the
TOTAL length) is `Impl.SM3.sm3_hash (block^count ++ tail)`, and the oracle helper `Drv.Sym.specSm3Rep` is
`Spec.SM3.hash` of the same message.  Only the property theorems; all work is in `GmVerif.Proofs.SM3Rep`.
-/
import GmVerif.Proofs.SM3Rep

namespace GmVerif.Thm.C01b
open GmVerif

/-- the model's streaming evaluation is the model's hash of `block^count ++ tail` -/
theorem sm3_hash_rep_eq (block tail : List UInt8) (hb : block.length = 64) (count : Nat) :
    Impl.SM3.sm3_hash_rep block count tail
      = Impl.SM3.sm3_hash ((List.replicate count block).flatten ++ tail) :=
  Proofs.SM3.sm3_hash_rep_eq block tail hb count

example : (List.replicate 64 (0x61 : UInt8)).length = 64 := by decide
example : Impl.SM3.sm3_hash_rep (List.replicate 64 0x61) 3 [1, 2, 3]
    = Impl.SM3.sm3_hash ((List.replicate 3 (List.replicate 64 0x61)).flatten ++ [1, 2, 3]) :=
  sm3_hash_rep_eq _ _ (by decide) 3

/-- the oracle's streaming evaluation is the standard's hash of `block^count ++ tail` -/
theorem specSm3Rep_eq (block tail : List UInt8) (hb : block.length = 64) (count : Nat) :
    Drv.Sym.specSm3Rep block count tail
      = Spec.SM3.hash ((List.replicate count block).flatten ++ tail) :=
  Proofs.SM3.specSm3Rep_eq block tail hb count

example : Drv.Sym.specSm3Rep (List.replicate 64 0x61) 3 [1, 2, 3]
    = Spec.SM3.hash ((List.replicate 3 (List.replicate 64 0x61)).flatten ++ [1, 2, 3]) :=
  specSm3Rep_eq _ _ (by decide) 3

/-- hence model and oracle agree on every `sm3rep` request with a 64-byte block (never an error or a panic) -/
theorem sm3_hash_rep_refines (block tail : List UInt8) (hb : block.length = 64) (count : Nat) :
    Impl.SM3.sm3_hash_rep block count tail = .ok (Drv.Sym.specSm3Rep block count tail) :=
  Proofs.SM3.sm3_hash_rep_spec block tail hb count

example : Impl.SM3.sm3_hash_rep (List.replicate 64 0) 0 [] = .ok (Drv.Sym.specSm3Rep (List.replicate 64 0) 0 []) :=
  sm3_hash_rep_refines _ _ (by decide) 0

/-- the length guard is needed: any other block length is refused by the model -/
theorem sm3_hash_rep_bad_block (block tail : List UInt8) (hb : block.length ≠ 64) (count : Nat) :
    Impl.SM3.sm3_hash_rep block count tail = .err "sm3rep-needs-64-byte-block" :=
  Proofs.SM3.sm3_hash_rep_bad_block block tail hb count

example : Impl.SM3.sm3_hash_rep [1, 2, 3] 5 [] = .err "sm3rep-needs-64-byte-block" :=
  sm3_hash_rep_bad_block _ _ (by decide) 5

/-! ### evaluation checks -/

/-- GB/T 32905-2016 A.2 ("abcd"×16) as one streamed block with an empty tail, on both sides -/
example : (Impl.SM3.sm3_hash_rep (List.replicate 16 [0x61, 0x62, 0x63, 0x64]).flatten 1 []).map hexOfBytes =
    .ok "debe9ff92275b8a138604889c18e5a4d6fdb70e5387e5765293dcba39c0c5732" := by
  decide +kernel
example : hexOfBytes (Drv.Sym.specSm3Rep (List.replicate 16 [0x61, 0x62, 0x63, 0x64]).flatten 1 []) =
    "debe9ff92275b8a138604889c18e5a4d6fdb70e5387e5765293dcba39c0c5732" := by
  decide +kernel
/-- count = 0 is the plain hash of the tail: A.1 ("abc") -/
example : hexOfBytes (Drv.Sym.specSm3Rep (List.replicate 64 0) 0 [0x61, 0x62, 0x63]) =
    "66c7f0f462eeedd9d1f2d46bdc10e4e24167c4875cf2f7a2297da02b8f4ba8e0" := by
  decide +kernel
/-- two streamed blocks and a non-empty tail against the materialised 131-byte message -/
example : Drv.Sym.specSm3Rep (List.replicate 64 7) 2 [1, 2, 3]
    = Spec.SM3.hash (List.replicate 128 7 ++ [1, 2, 3]) := by
  decide +kernel

end GmVerif.Thm.C01b
