/-
C11 (level L2): the Jacobian / Montgomery-domain point formulas of the gm-sm2 model (`Impl.SM2.Curve`: is_valid,
is_valid_affine_point, neg, point_dbl, point_add with its `h = 0` branch, to_affine_point, to_byte_be, from_byte)
compute the group law and the point encodings of the specification (`Spec.EC`, `Spec.SM2`), for ALL representations.
Hypothesis bundle: `Proofs.SM2Curve.FieldFacts` (primality of p, exactness of the Nat-level field functions on
canonical operands) — discharged elsewhere.  Only the property theorems here; all work is in
`Proofs.SM2CurveAlg` (field identities), `Proofs.SM2CurvePow` (square-and-multiply loop), `Proofs.SM2Curve`
(transfer and branches), `Proofs.SM2CurveTors` (no point of order two).
-/
import GmVerif.Proofs.SM2Curve
import GmVerif.Proofs.SM2CurveTors

namespace GmVerif.Thm.C11b
open GmVerif
open GmVerif.Impl.SM2 (Point)
open GmVerif.Proofs.SM2Curve (FieldFacts Valid toSpec dec ca cb)

/-! concrete points for the non-vacuity examples: the generator with Z = 1, and the same point with Z = 2 -/

/-- the base point, Montgomery form, Z = 1 -/
def G1 : Point := ⟨Impl.SM2.fp_to_mont Spec.SM2.Gx, Impl.SM2.fp_to_mont Spec.SM2.Gy, Gen.SM2.MODP_MONT_ONE⟩
/-- Montgomery form of 2 -/
def two : Nat := Impl.SM2.fp_double Gen.SM2.MODP_MONT_ONE
/-- the base point with Z = 2: (4·x, 8·y, 2) -/
def G2 : Point :=
  ⟨Impl.SM2.fp_mul G1.x (Impl.SM2.fp_sqr two), Impl.SM2.fp_mul G1.y (Impl.SM2.fp_mul (Impl.SM2.fp_sqr two) two), two⟩

theorem is_valid_iff (F : FieldFacts) (P : Point) (hc : P.x < Spec.SM2.p ∧ P.y < Spec.SM2.p ∧ P.z < Spec.SM2.p) :
    P.is_valid = true ↔ Valid P :=
  haveI : Fact (Nat.Prime Spec.SM2.p) := ⟨F.prime⟩
  Proofs.SM2Curve.is_valid_iff F P hc

example : G1.x < Spec.SM2.p ∧ G1.y < Spec.SM2.p ∧ G1.z < Spec.SM2.p := by decide +kernel
example : G2.x < Spec.SM2.p ∧ G2.y < Spec.SM2.p ∧ G2.z < Spec.SM2.p := by decide +kernel
theorem G1_valid (F : FieldFacts) : Valid G1 := (is_valid_iff F G1 (by decide +kernel)).mp (by decide +kernel)
theorem G2_valid (F : FieldFacts) : Valid G2 := (is_valid_iff F G2 (by decide +kernel)).mp (by decide +kernel)
/-- a canonical point that is not on the curve is rejected -/
example : (⟨G1.x, G1.x, G1.z⟩ : Point).is_valid = false := by decide +kernel
example (F : FieldFacts) : ¬ Valid ⟨G1.x, G1.x, G1.z⟩ := fun h =>
  absurd ((is_valid_iff F _ (by decide +kernel)).mpr h) (by decide +kernel)

theorem toSpec_onCurve (F : FieldFacts) (P : Point) (h : Valid P) :
    Spec.EC.onCurve Spec.SM2.curve (toSpec P) = true :=
  haveI : Fact (Nat.Prime Spec.SM2.p) := ⟨F.prime⟩
  Proofs.SM2Curve.toSpec_onCurve P h

example (F : FieldFacts) : Spec.EC.onCurve Spec.SM2.curve (toSpec G2) = true := toSpec_onCurve F G2 (G2_valid F)

/-- negation.  `Point.neg` computes `p − y` on natural numbers: for `y = 0` the result is `p` (NOT canonical, so the
result is not `Valid`), for `y ≠ 0` the result is `Valid`; in all cases the decoded point is the negative. -/
theorem neg_correct (F : FieldFacts) (P : Point) (h : Valid P) (_hy : P.z ≠ 0 → P.y ≠ 0 ∨ True) :
    toSpec P.neg = Spec.EC.neg Spec.SM2.curve (toSpec P)
      ∧ P.neg.x = P.x ∧ P.neg.z = P.z ∧ P.neg.y = Spec.SM2.p - P.y ∧ P.neg.y ≤ Spec.SM2.p
      ∧ dec P.neg.y = -dec P.y
      ∧ (P.y ≠ 0 → Valid P.neg)
      ∧ (P.y = 0 → P.neg.y = Spec.SM2.p ∧ ¬ Valid P.neg) :=
  haveI : Fact (Nat.Prime Spec.SM2.p) := ⟨F.prime⟩
  Proofs.SM2Curve.neg_correct F P h

example (F : FieldFacts) : toSpec G2.neg = Spec.EC.neg Spec.SM2.curve (toSpec G2) ∧ Valid G2.neg :=
  have h := neg_correct F G2 (G2_valid F) (fun _ => Or.inr trivial)
  ⟨h.1, h.2.2.2.2.2.2.1 (by decide +kernel)⟩
/-- the non-canonical output really occurs in the model (at a point with y = 0, here the point at infinity (0,0,0)) -/
example : (⟨0, 0, 0⟩ : Point).neg.y = Spec.SM2.p := by decide +kernel

theorem point_dbl_correct (F : FieldFacts) (P : Point) (h : Valid P) :
    Valid P.point_dbl ∧ toSpec P.point_dbl = Spec.EC.add Spec.SM2.curve (toSpec P) (toSpec P) :=
  haveI : Fact (Nat.Prime Spec.SM2.p) := ⟨F.prime⟩
  Proofs.SM2Curve.point_dbl_correct F P h

example (F : FieldFacts) :
    Valid G2.point_dbl ∧ toSpec G2.point_dbl = Spec.EC.add Spec.SM2.curve (toSpec G2) (toSpec G2) :=
  point_dbl_correct F G2 (G2_valid F)

/-- EVERY representation: P = Q with different Z (the h = 0, r = 0 branch), P = −Q (h = 0, r ≠ 0), either operand at
infinity, bit-identical operands, and the generic case -/
theorem point_add_correct (F : FieldFacts) (P Q : Point) (hP : Valid P) (hQ : Valid Q) :
    Valid (P.point_add Q) ∧ toSpec (P.point_add Q) = Spec.EC.add Spec.SM2.curve (toSpec P) (toSpec Q) :=
  haveI : Fact (Nat.Prime Spec.SM2.p) := ⟨F.prime⟩
  Proofs.SM2Curve.point_add_correct F P Q hP hQ

/-- same point, different Z: the model takes the `h = 0, r = 0` branch and doubles -/
example : G1 ≠ G2 ∧ G1.point_add G2 = G1.point_dbl := by decide +kernel
example (F : FieldFacts) :
    Valid (G1.point_add G2) ∧ toSpec (G1.point_add G2) = Spec.EC.add Spec.SM2.curve (toSpec G1) (toSpec G2) :=
  point_add_correct F G1 G2 (G1_valid F) (G2_valid F)
/-- opposite points with different Z: the `h = 0, r ≠ 0` branch returns the point at infinity -/
example : G1.point_add G2.neg = Point.zero := by decide +kernel
/-- generic case (G + 2G) and an operand at infinity -/
example (F : FieldFacts) :
    toSpec (G1.point_add G2.point_dbl)
      = Spec.EC.add Spec.SM2.curve (toSpec G1) (Spec.EC.add Spec.SM2.curve (toSpec G2) (toSpec G2)) := by
  have h2 := point_dbl_correct F G2 (G2_valid F)
  rw [(point_add_correct F G1 G2.point_dbl (G1_valid F) h2.1).2, h2.2]
example : Point.zero.point_add G2 = G2 ∧ G2.point_add Point.zero = G2 := by decide +kernel

theorem to_affine_correct (F : FieldFacts) (P : Point) (h : Valid P) (hz : P.z ≠ 0) :
    let A := P.to_affine_point
    Valid A ∧ A.z = Gen.SM2.MODP_MONT_ONE ∧ toSpec A = toSpec P
      ∧ toSpec P = some (Impl.SM2.fp_from_mont A.x, Impl.SM2.fp_from_mont A.y) :=
  haveI : Fact (Nat.Prime Spec.SM2.p) := ⟨F.prime⟩
  Proofs.SM2Curve.to_affine_correct F P h hz

/-- the two representations of G decode to the base point of the standard -/
example (F : FieldFacts) : toSpec G1 = Spec.SM2.G ∧ toSpec G2 = Spec.SM2.G := by
  have h1 := (to_affine_correct F G1 (G1_valid F) (by decide +kernel)).2.2.2
  have h2 := (to_affine_correct F G2 (G2_valid F) (by decide +kernel)).2.2.2
  have e1 : (Impl.SM2.fp_from_mont G1.to_affine_point.x, Impl.SM2.fp_from_mont G1.to_affine_point.y)
      = (Spec.SM2.Gx, Spec.SM2.Gy) := by decide +kernel
  have e2 : (Impl.SM2.fp_from_mont G2.to_affine_point.x, Impl.SM2.fp_from_mont G2.to_affine_point.y)
      = (Spec.SM2.Gx, Spec.SM2.Gy) := by decide +kernel
  rw [e1] at h1; rw [e2] at h2
  exact ⟨h1, h2⟩

theorem is_valid_affine_iff (F : FieldFacts) (P : Point)
    (hc : P.x < Spec.SM2.p ∧ P.y < Spec.SM2.p ∧ P.z < Spec.SM2.p) (hz : P.z = Gen.SM2.MODP_MONT_ONE) :
    P.is_valid_affine_point = true ↔ Valid P :=
  haveI : Fact (Nat.Prime Spec.SM2.p) := ⟨F.prime⟩
  Proofs.SM2Curve.is_valid_affine_iff F P hc hz

example : G1.is_valid_affine_point = true := by decide +kernel
example (F : FieldFacts) : Valid G1 := (is_valid_affine_iff F G1 (by decide +kernel) rfl).mp (by decide +kernel)

theorem to_byte_correct (F : FieldFacts) (P : Point) (h : Valid P) (hz : P.z ≠ 0) (c : Bool) :
    P.to_byte_be c = Spec.SM2.encodePoint c (toSpec P) :=
  haveI : Fact (Nat.Prime Spec.SM2.p) := ⟨F.prime⟩
  Proofs.SM2Curve.to_byte_correct F P h hz c

example (F : FieldFacts) : G2.to_byte_be true = Spec.SM2.encodePoint true (toSpec G2) :=
  to_byte_correct F G2 (G2_valid F) (by decide +kernel) true
example : G2.to_byte_be true = 0x02 :: natBE 32 Spec.SM2.Gx := by decide +kernel

/-- `from_byte` against SEC1 / part 1 §4.2.9–4.2.10 decoding, for EVERY byte string (compressed, uncompressed, malformed).
The compressed branch uses that the SM2 curve has no point with y = 0 (`Proofs.SM2CurveTors.no_two_torsion`: a
kernel-checked certificate), because `from_byte` would otherwise return the non-canonical y = p. -/
theorem from_byte_correct (F : FieldFacts) (b : List UInt8) :
    (∀ x y, Spec.SM2.decodePoint b = some (x, y) →
        ∃ P, Impl.SM2.Point.from_byte b = .ok P ∧ Valid P ∧ toSpec P = some (x, y))
      ∧ (Spec.SM2.decodePoint b = none → ∃ e, Impl.SM2.Point.from_byte b = .err e) :=
  haveI : Fact (Nat.Prime Spec.SM2.p) := ⟨F.prime⟩
  Proofs.SM2Curve.from_byte_correct_of F Proofs.SM2CurveTors.no_two_torsion b

example : Spec.SM2.decodePoint (4 :: (natBE 32 Spec.SM2.Gx ++ natBE 32 Spec.SM2.Gy)) = some (Spec.SM2.Gx, Spec.SM2.Gy) := by
  decide +kernel
example : Spec.SM2.decodePoint (2 :: natBE 32 Spec.SM2.Gx) = some (Spec.SM2.Gx, Spec.SM2.Gy) := by decide +kernel
example : Spec.SM2.decodePoint (3 :: natBE 32 Spec.SM2.Gx) = some (Spec.SM2.Gx, Spec.SM2.p - Spec.SM2.Gy) := by
  decide +kernel
example : Spec.SM2.decodePoint (5 :: natBE 32 Spec.SM2.Gx) = none := by decide +kernel
example (F : FieldFacts) :
    ∃ P, Impl.SM2.Point.from_byte (3 :: natBE 32 Spec.SM2.Gx) = .ok P ∧ Valid P
      ∧ toSpec P = some (Spec.SM2.Gx, Spec.SM2.p - Spec.SM2.Gy) :=
  (from_byte_correct F _).1 _ _ (by decide +kernel)
example : Impl.SM2.Point.from_byte (2 :: natBE 32 Spec.SM2.Gx) = .ok G1 := by decide +kernel

end GmVerif.Thm.C11b
