/-
C09: SM9 signature in the model of gm-sm9/src/key.rs — the decision logic of `verify_sign` stated outright, `verify_sign`
never panics, an out-of-range h is an error, shape of a successful `sign` and its panic-freedom.
Only the property theorems; all work is in `GmVerif.Proofs.SM9Logic`.

Hypothesis discharged elsewhere (arithmetic of the point code): `hpm` — `Point::point_mul` returns for every 256-bit
scalar (its Booth table index is in range).
-/
import GmVerif.Proofs.SM9Logic

namespace GmVerif.Thm.C09
open GmVerif GmVerif.Impl.SM9
open GmVerif.Gen.SM9 (N_MINUS_ONE)

/-- decision logic of `verify_sign` stated outright: 1 ≤ h ≤ N − 1 and h = H2(M ‖ w') with
w' = e(Ppub + [h1]P2, S) · e(Ppub, P1)^h, h1 = H1(ID ‖ hid) -/
theorem verify_ok_iff (m : Sm9SignMasterKey) (id data : List UInt8) (h : Nat) (s : Point) :
    m.verify_sign id data h s = .ok () ↔
      1 ≤ h ∧ h ≤ Gen.SM9.N - 1 ∧ ∃ t h1 h2, (sm9_u256_pairing m.ppubs POINT_MONT_P1).pow h = .ok t ∧
        sm9_u256_hash1 id Gen.SM9.HID_SIGN = .ok h1 ∧
        sm9_u256_hash2 data
          ((sm9_u256_pairing (twist_point_add_full m.ppubs (TwistPoint.g_mul h1)) s).fp_mul t).to_bytes_be = .ok h2 ∧
        h2 = h :=
  Proofs.SM9Logic.verify_ok_iff m id data h s

/-- the right-hand side is refutable: h = 0 never verifies -/
example (m : Sm9SignMasterKey) (s : Point) : m.verify_sign [] [] 0 s ≠ .ok () := by
  rw [Ne, verify_ok_iff]; intro h; exact absurd h.1 (by decide)

/-- `verify_sign` never panics: the `assert!` of `Fp12::pow` needs h ≤ N − 1, which B1 has checked, and H1, H2 always
hash 64 ≥ 40 bytes -/
theorem verify_total (m : Sm9SignMasterKey) (id data : List UInt8) (h : Nat) (s : Point) :
    m.verify_sign id data h s ≠ .panic :=
  Proofs.SM9Logic.verify_total m id data h s

example (m : Sm9SignMasterKey) (s : Point) : m.verify_sign [1] [2] (2 ^ 256 - 1) s ≠ .panic := verify_total _ _ _ _ _

theorem verify_h_out_of_range (m : Sm9SignMasterKey) (id data : List UInt8) (h : Nat) (s : Point)
    (hh : h = 0 ∨ Gen.SM9.N ≤ h) : ∃ e, m.verify_sign id data h s = .err e :=
  ⟨_, Proofs.SM9Logic.verify_h_out_of_range m id data h s hh⟩

example (m : Sm9SignMasterKey) (s : Point) : ∃ e, m.verify_sign [] [] 0 s = .err e :=
  verify_h_out_of_range _ _ _ _ _ (Or.inl rfl)
example (m : Sm9SignMasterKey) (s : Point) : ∃ e, m.verify_sign [] [] Gen.SM9.N s = .err e :=
  verify_h_out_of_range _ _ _ _ _ (Or.inr (Nat.le_refl _))

/-- the kind of the error -/
theorem verify_h_out_of_range_kind (m : Sm9SignMasterKey) (id data : List UInt8) (h : Nat) (s : Point)
    (hh : h = 0 ∨ Gen.SM9.N ≤ h) : m.verify_sign id data h s = .err "InvalidDigest" :=
  Proofs.SM9Logic.verify_h_out_of_range m id data h s hh

/-- a successful pass through the `loop` of `sign` returns (h, l) with h = H2(M ‖ w) for w = g^r, l = r − h mod N ≠ 0,
r the accepted candidate: the last scalar logged, in [1, N − 2]; at least one candidate was consumed -/
theorem sign_shape (g : Fp12) (data : List UInt8) (fuel : Nat) (cands : List (List UInt8)) (used : List Nat)
    (h l : Nat) (used' : List Nat) (rest : List (List UInt8))
    (hs : signLoop g data fuel cands used = .ok ⟨(h, l), used', rest⟩) :
    (∃ r w skipped, 1 ≤ r ∧ r < N_MINUS_ONE ∧ used' = used ++ skipped ++ [r] ∧
      g.pow r = .ok w ∧ sm9_u256_hash2 data w.to_bytes_be = .ok h ∧ l = mod_n_sub r h ∧ l ≠ 0 ∧ l < 2 ^ 256)
    ∧ rest.length < cands.length :=
  Proofs.SM9Logic.signLoop_ok g data fuel cands used h l used' rest hs

/-- `mod_n_sub` on canonical operands is subtraction modulo N (so l = (r − h) mod N in `sign_shape` once
h = H2(…) ∈ [1, N − 1], which is the Barrett arithmetic of `mod_n_from_hash`) -/
theorem mod_n_sub_canonical (a b : Nat) (ha : a < Gen.SM9.N) (hb : b ≤ Gen.SM9.N) :
    mod_n_sub a b = (a + Gen.SM9.N - b) % Gen.SM9.N :=
  Proofs.SM9Logic.mod_n_sub_eq a b ha hb

example : mod_n_sub 3 5 = (3 + Gen.SM9.N - 5) % Gen.SM9.N := mod_n_sub_canonical 3 5 (by decide) (by decide)
example : mod_n_sub 3 5 = Gen.SM9.N - 2 := by decide

/-- `sign` returns (h, S) with S = [l]ds for the (h, l) of `sign_shape` (g = e(Ppub-s, P1), empty log at the start) -/
theorem sign_result_shape (key : Sm9SignKey) (data : List UInt8) (cands : List (List UInt8)) (h : Nat) (s : Point)
    (used : List Nat) (rest : List (List UInt8))
    (hs : key.sign data cands = .ok ⟨(h, s), used, rest⟩) :
    ∃ l r w skipped, 1 ≤ r ∧ r < N_MINUS_ONE ∧ used = skipped ++ [r] ∧
      (sm9_u256_pairing key.ppubs POINT_MONT_P1).pow r = .ok w ∧ sm9_u256_hash2 data w.to_bytes_be = .ok h ∧
      l = mod_n_sub r h ∧ l ≠ 0 ∧ key.ds.point_mul l = .ok s ∧ rest.length < cands.length := by
  obtain ⟨l, ⟨r, w, sk, h1, h2, h3, h4, h5, h6, h7, _⟩, hq, hr⟩ :=
    Proofs.SM9Logic.sign_shape key data cands h s used rest hs
  exact ⟨l, r, w, sk, h1, h2, by simpa using h3, h4, h5, h6, h7, hq, hr⟩

/-- the `loop` of `sign` never panics (`Fp12::pow` gets r ≤ N − 2) -/
theorem sign_loop_no_panic (g : Fp12) (data : List UInt8) (fuel : Nat) (cands : List (List UInt8)) (used : List Nat) :
    signLoop g data fuel cands used ≠ .panic :=
  Proofs.SM9Logic.signLoop_no_panic g data fuel cands used

theorem sign_no_panic (key : Sm9SignKey) (data : List UInt8) (cands : List (List UInt8))
    (hpm : ∀ (P : Point) (k : Nat), k < 2 ^ 256 → ∃ R, P.point_mul k = .ok R) :
    key.sign data cands ≠ .panic :=
  Proofs.SM9Logic.sign_no_panic key data cands
    (fun l hl h => by obtain ⟨R, hR⟩ := hpm key.ds l hl; rw [hR] at h; cases h)

/-- an instance of `hpm` (the general fact is proved with the point arithmetic) -/
example : (POINT_MONT_P1.point_mul (Gen.SM9.N - 1)).isOk = true := by decide +kernel

/-- with no candidate left the RNG stub reports exhaustion, not a panic -/
example (key : Sm9SignKey) : key.sign [] [] = .err "rng-exhausted" := rfl

end GmVerif.Thm.C09
