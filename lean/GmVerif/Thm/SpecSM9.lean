/-
Properties C09, C10, C17 (the algebra): the textbook SM9 specification is a correct cryptosystem, GIVEN that the pairing
of the specification is bilinear on ⟨P1⟩ × ⟨P2⟩.
* Part 1 (no hypothesis): P1 ∈ E(Fp), P2 ∈ E'(Fp2), [N]P1 = O, [N]P2 = O (kernel evaluation); G1 is Mathlib's group
  (`Thm.SpecSM2` Part 1, generic in the curve); `add2`/`mul2` on the twist E'(Fp2) obey the group laws (Fp2 is Mathlib's
  quadratic field over ZMod p, the twist a Mathlib elliptic-curve group); P1 and P2 have prime order N; the dense Fp12
  computes in Mathlib's quotient ring (ZMod p)[X]/(X¹² + 2), hence `Fp12.mul`/`Fp12.pow` obey the monoid and power laws.
* Part 2: the hypothesis structure `PairingFacts` — ONE field: e([a]P1, [b]P2) = e(P1, P2)^(ab) for all naturals a, b.
  It is NOT proved (no Miller-function theory in Mathlib) and cannot be kernel-evaluated; it is a closed statement about
  the Spec functions that can be tested on concrete numbers.  Equivalent form: exponent reduced mod N, plus g^N = 1.
* Part 3: sign/verify, encrypt/decrypt, key exchange — at the Spec level, from `PairingFacts`.
Primality of the SM9 field prime `p` and group order `N` is the kernel-checked `Thm.Primes.sm9_p_prime`/`sm9_N_prime`.
Only property theorems here; the lemmas live in `GmVerif.Proofs.SM9Algebra`, `Proofs.SM9G2`, `Proofs.SM9Fp12`
(and `Proofs.SpecEC` for G1).
-/
import GmVerif.Proofs.SM9Algebra
import GmVerif.Thm.Primes
namespace GmVerif.Thm.SpecSM9
open GmVerif GmVerif.Spec.EC GmVerif.Spec.SM9
open GmVerif.Proofs.SM9Algebra (PairingFacts)
open GmVerif.Proofs.SpecEC (Valid)

/-! ## Part 1 — the three groups of SM9 (no hypothesis) -/

theorem sm9_P1_onCurve : onCurve curve P1 = true := Proofs.SM9Algebra.sm9_P1_onCurve
theorem sm9_P2_onTwist : onTwist P2 = true := Proofs.SM9Algebra.sm9_P2_onTwist
theorem sm9_valid : Valid curve := Proofs.SM9Algebra.sm9_valid
/-- `decide +kernel` on the 256-step double-and-add over Fp (≈ 10 s) -/
theorem sm9_g1_order : mul curve N P1 = none := Proofs.SM9Algebra.sm9_g1_order
/-- `decide +kernel` on the 256-step double-and-add over Fp2 (≈ 10 s) -/
theorem sm9_g2_order : mul2 N P2 = none := Proofs.SM9Algebra.sm9_g2_order
/-- the order of P1 is the prime N -/
theorem sm9_mul_ne_none (k : Nat) (h : k % N ≠ 0) : mul curve k P1 ≠ none :=
  Proofs.SM9Algebra.sm9_mul_ne_none k h
example : mul curve 1 P1 = P1 ∧ 1 % N ≠ 0 ∧ mul2 1 P2 = P2 := by decide +kernel
example : P1 ≠ none ∧ P2 ≠ none ∧ curve.p = Thm.Primes.sm9_p ∧ N = Thm.Primes.sm9_N := by decide +kernel

/-! ### G2: `add2`/`mul2` on the twist E'(Fp2) : y² = x³ + 5u obey the group laws -/

theorem onTwist_add2 {P Q : Pt2} (hP : onTwist P = true) (hQ : onTwist Q = true) :
    onTwist (add2 P Q) = true := Proofs.SM9G2.onTwist_add2 hP hQ
theorem onTwist_mul2 (k : Nat) {P : Pt2} (hP : onTwist P = true) : onTwist (mul2 k P) = true :=
  Proofs.SM9G2.onTwist_mul2 k hP
theorem add2_comm {P Q : Pt2} (hP : onTwist P = true) (hQ : onTwist Q = true) : add2 P Q = add2 Q P :=
  Proofs.SM9G2.add2_comm hP hQ
theorem add2_assoc {P Q R : Pt2} (hP : onTwist P = true) (hQ : onTwist Q = true) (hR : onTwist R = true) :
    add2 (add2 P Q) R = add2 P (add2 Q R) := Proofs.SM9G2.add2_assoc hP hQ hR
theorem mul2_add (k₁ k₂ : Nat) {P : Pt2} (hP : onTwist P = true) :
    mul2 (k₁ + k₂) P = add2 (mul2 k₁ P) (mul2 k₂ P) := Proofs.SM9G2.mul2_add k₁ k₂ hP
theorem mul2_mul (k₁ k₂ : Nat) {P : Pt2} (hP : onTwist P = true) :
    mul2 k₁ (mul2 k₂ P) = mul2 (k₁ * k₂) P := Proofs.SM9G2.mul2_mul k₁ k₂ hP
/-- the order of P2 is the prime N -/
theorem sm9_mul2_eq_none_iff (k : Nat) : mul2 k P2 = none ↔ N ∣ k := Proofs.SM9Algebra.g2_mul_eq_none_iff k
example : mul2 2 P2 = add2 P2 P2 ∧ mul2 3 P2 = add2 P2 (add2 P2 P2) ∧ onTwist (mul2 3 P2) = true := by
  decide +kernel
/-- `add2` is only meaningful on the twist: (0, u) ∉ E' and its "double" is not on E' either -/
example : onTwist (some ((0, 0), (0, 1))) = false ∧ onTwist (add2 (some ((0, 0), (0, 1))) (some ((0, 0), (0, 1)))) = false := by
  decide +kernel

/-! ### GT ⊂ Fp12: the dense arithmetic obeys the monoid and power laws (all inputs, canonical or not) -/

theorem fp12_mul_comm (a c : Fp12) : Fp12.mul a c = Fp12.mul c a := Proofs.SM9Fp12.mul_comm a c
theorem fp12_mul_assoc (a c d : Fp12) : Fp12.mul (Fp12.mul a c) d = Fp12.mul a (Fp12.mul c d) :=
  Proofs.SM9Fp12.mul_assoc a c d
theorem fp12_pow_pow (g : Fp12) (a b : Nat) : Fp12.pow (Fp12.pow g a) b = Fp12.pow g (a * b) :=
  Proofs.SM9Fp12.pow_pow g a b
theorem fp12_pow_mul (g : Fp12) (a b : Nat) : Fp12.mul (Fp12.pow g a) (Fp12.pow g b) = Fp12.pow g (a + b) :=
  Proofs.SM9Fp12.pow_mul g a b
/-- `pow g` has period n as soon as `pow g n = one` -/
theorem fp12_pow_mod_of_order (g : Fp12) (n : Nat) (h : Fp12.pow g n = Fp12.one) (k : Nat) :
    Fp12.pow g k = Fp12.pow g (k % n) := Proofs.SM9Fp12.pow_mod_of_order g n h k
/-- w¹² = −2;  −1 has order 2, so its powers depend on the exponent mod 2 only -/
example : Fp12.pow Fp12.w 12 = Fp12.ofNat (p - 2) ∧ Fp12.pow (Fp12.ofNat (p - 1)) 2 = Fp12.one ∧
    Fp12.pow (Fp12.ofNat (p - 1)) 5 = Fp12.pow (Fp12.ofNat (p - 1)) (5 % 2) := by decide +kernel

/-! ## Part 2 — the hypothesis -/

/-- the content of `PairingFacts`: bilinearity on ⟨P1⟩ × ⟨P2⟩ -/
theorem pairingFacts_iff : PairingFacts ↔
    ∀ a b : Nat, pairing (mul curve a P1) (mul2 b P2) = Fp12.pow (pairing P1 P2) (a * b) :=
  ⟨fun F => F.bilinear, fun h => ⟨h⟩⟩

/-- equivalent form with reduced exponents: e([a]P1, [b]P2) = g^(ab mod N) and g^N = 1, for g = e(P1, P2) -/
theorem pairingFacts_iff_mod : PairingFacts ↔
    (∀ a b : Nat, pairing (mul curve a P1) (mul2 b P2) = Fp12.pow (pairing P1 P2) (a * b % N)) ∧
      Fp12.pow (pairing P1 P2) N = Fp12.one :=
  ⟨fun F => ⟨Proofs.SM9Algebra.bilinear_mod F, Proofs.SM9Algebra.gt_order F⟩,
    fun ⟨hb, ho⟩ => Proofs.SM9Algebra.PairingFacts.of_mod hb ho⟩

/-- the degenerate cases of the hypothesis hold by definition: e(O, Q) = 1 = g^0 -/
example (b : Nat) : pairing (mul curve 0 P1) (mul2 b P2) = Fp12.pow (pairing P1 P2) (0 * b) := by
  rw [Proofs.SpecEC.mul_zero, Proofs.SM9Algebra.pairing_none_left, Nat.zero_mul, Fp12.pow]; rfl

/-! ## Part 3 — protocol correctness at the Spec level -/

/-- C09: what the standard's signer produces with the identity's extracted key, the standard's verifier accepts:
e(S, [h1]P2 + Ppub) · g^h = g^r with ds = [ks (h1+ks)⁻¹]P1, S = [r−h]ds, Ppub = [ks]P2 -/
theorem sign_then_verify (F : PairingFacts) (ks : Nat) (_hks : 1 ≤ ks ∧ ks < N) (id msg : List UInt8)
    (ds : Pt) (hds : extractSign ks id = some ds) (r : Nat) (_hr : 1 ≤ r ∧ r < N) (h : Nat) (S : Pt)
    (hs : signWith (signMasterPub ks) ds msg r = some (h, S)) :
    verify (signMasterPub ks) id msg h S = true ∧ 1 ≤ h ∧ h < N :=
  Proofs.SM9Algebra.sign_then_verify F ks id msg ds hds r h S hs

/-! non-vacuity: GM/T 0044.5 Annex A (signature).  Key extraction is kernel-evaluated; the premise `signWith … = some (h, S)`
contains a pairing and is evaluated with the Annex values only by the compiled evaluator (`Audit/SpecSM9.lean`). -/
def exKs : Nat := 0x000130E78459D78545CB54C587E02CF480CE0B66340F319F348A1D5B1F2DC5F4
/-- "Alice" -/
def exIdA : List UInt8 := [0x41, 0x6C, 0x69, 0x63, 0x65]
/-- "Bob" -/
def exIdB : List UInt8 := [0x42, 0x6F, 0x62]
def exDsA : Pt := some
  (0xA5702F05CF1315305E2D6EB64B0DEB923DB1A0BCF0CAFF90523AC8754AA69820,
   0x78559A844411F9825C109F5EE3F52D720DD01785392A727BB1556952B2B013D3)
/-- "Chinese IBS standard" -/
def exMsgS : List UInt8 := [0x43, 0x68, 0x69, 0x6E, 0x65, 0x73, 0x65, 0x20, 0x49, 0x42, 0x53, 0x20, 0x73, 0x74, 0x61, 0x6E, 0x64, 0x61, 0x72, 0x64]
def exRS : Nat := 0x00033C8616B06704813203DFD00965022ED15975C662337AED648835DC4B1CBE
theorem ex_H1 : H1 (exIdA ++ [hidSign]) = 0x2ACC468C3926B0BDB2767E99FF26E084DE9CED8DBC7D5FBF418027B667862FAB := by
  decide +kernel
theorem ex_extractSign : extractSign exKs exIdA = some exDsA := by decide +kernel
example : (1 ≤ exKs ∧ exKs < N) ∧ (1 ≤ exRS ∧ exRS < N) := by decide +kernel
example (F : PairingFacts) (h : Nat) (S : Pt)
    (hs : signWith (signMasterPub exKs) exDsA exMsgS exRS = some (h, S)) :
    verify (signMasterPub exKs) exIdA exMsgS h S = true :=
  (sign_then_verify F exKs (by decide +kernel) exIdA exMsgS exDsA ex_extractSign exRS (by decide +kernel) h S hs).1
/-- the identity must have a key: for ks ≡ −H1(ID‖hid) the extraction fails (the KGC regenerates the master key) -/
example : extractSign (N - H1 (exIdA ++ [hidSign])) exIdA = none := by decide +kernel

/-- C10: decryption with the identity's key inverts encryption, every message, every r:
e(C1, de) = e([r]([h1]P1 + Ppub), [ke (h1+ke)⁻¹]P2) = e(P1, P2)^(r·ke) = e(Ppub, P2)^r
(`encryptWith` returns `none` on the empty message — K1 is empty, hence "all zero" — so `_hm` is implied by `h`) -/
theorem decrypt_encrypt (F : PairingFacts) (ke : Nat) (_hke : 1 ≤ ke ∧ ke < N) (id msg : List UInt8)
    (_hm : msg ≠ []) (de : Pt2) (hde : extractEnc ke id hidEnc = some de) (r : Nat) (hr : 1 ≤ r ∧ r < N)
    (ct : List UInt8) (h : encryptWith (encMasterPub ke) id msg r = some ct) :
    decrypt de id ct = some msg :=
  Proofs.SM9Algebra.decrypt_encrypt F ke id msg de hde r hr ct h

/-! non-vacuity: GM/T 0044.5 Annex C (encryption), key extraction kernel-evaluated -/
def exKe : Nat := 0x0001EDEE3778F441F8DEA3D9FA0ACC4E07EE36C93F9A08618AF4AD85CEDE1C22
/-- Fp2 elements are pairs (x, y) = x + y·u: the standard prints the u-coefficient first -/
def exDeB : Pt2 := some
  ((0x115BAE85F5D8BC6C3DBD9E5342979ACCCF3C2F4F28420B1CB4F8C0B59A19B158,
    0x94736ACD2C8C8796CC4785E938301A139A059D3537B6414140B2D31EECF41683),
   (0x27538A62E7F7BFB51DCE08704796D94C9D56734F119EA44732B50E31CDEB75C1,
    0x7AA5E47570DA7600CD760A0CF7BEAF71C447F3844753FE74FA7BA92CA7D3B55F))
/-- "Chinese IBE standard" -/
def exMsgE : List UInt8 := [0x43, 0x68, 0x69, 0x6E, 0x65, 0x73, 0x65, 0x20, 0x49, 0x42, 0x45, 0x20, 0x73, 0x74, 0x61, 0x6E, 0x64, 0x61, 0x72, 0x64]
def exRE : Nat := 0x0000AAC0541779C8FC45E3E2CB25C12B5D2576B2129AE8BB5EE2CBE5EC9E785C
theorem ex_extractEnc : extractEnc exKe exIdB hidEnc = some exDeB := by decide +kernel
example (F : PairingFacts) (ct : List UInt8)
    (h : encryptWith (encMasterPub exKe) exIdB exMsgE exRE = some ct) : decrypt exDeB exIdB ct = some exMsgE :=
  decrypt_encrypt F exKe (by decide +kernel) exIdB exMsgE (by decide) exDeB ex_extractEnc exRE (by decide +kernel) ct h
/-- C17: both sides derive the same key -/
theorem exch_agree (F : PairingFacts) (ke : Nat) (_hke : 1 ≤ ke ∧ ke < N) (idA idB : List UInt8)
    (deA deB : Pt2) (hA : extractEnc ke idA hidExch = some deA) (hB : extractEnc ke idB hidExch = some deB)
    (rA rB : Nat) (hrA : 1 ≤ rA ∧ rA < N) (hrB : 1 ≤ rB ∧ rB < N) (klen : Nat) :
    let Ppub := encMasterPub ke; let RA := exchEphemeral Ppub idB rA
    ∀ RB skb, exchResponder Ppub deB idA idB RA rB klen = some (RB, skb) →
      exchInitiator Ppub deA idA idB rA RA RB klen = some skb := by
  intro Ppub RA RB skb h
  exact Proofs.SM9Algebra.exch_agree F ke idA idB deA deB hA hB rA rB hrA hrB klen RB skb h

/-- the premise of `exch_agree` is always met: the responder answers with RB = [rB]Q_A and some key (no pairing fact needed) -/
theorem exch_responder_some (ke : Nat) (idA idB : List UInt8) (deB : Pt2)
    (hB : extractEnc ke idB hidExch = some deB) (rA rB : Nat) (hrA : 1 ≤ rA ∧ rA < N) (klen : Nat) :
    ∃ skb, exchResponder (encMasterPub ke) deB idA idB (exchEphemeral (encMasterPub ke) idB rA) rB klen =
      some (exchEphemeral (encMasterPub ke) idA rB, skb) :=
  Proofs.SM9Algebra.exch_responder_some ke idA idB deB hB rA rB hrA klen

/-! non-vacuity: GM/T 0044.5 Annex B (key exchange), key extraction kernel-evaluated -/
def exKx : Nat := 0x0002E65B0762D042F51F0D23542B13ED8CFA2E9A0E7206361E013A283905E31F
def exDeAx : Pt2 := some
  ((0x7DA57BC50241F9E5BFDDC075DD9D32C7777100D736916CFC165D8D36E0634CD7,
    0x0FE8EAB395199B56BF1D75BD2CD610B6424F08D1092922C5882B52DCD6CA832A),
   (0x6970876B9AAD1B7A50BB4863A11E574AF1FE3C5975161D73DE4C3AF621FB1EFB,
    0x83A457DAF52CAD464C903B26062CAF937BB40E37DADED9EDA401050E49C8AD0C))
def exDeBx : Pt2 := some
  ((0x01092FF4DE89362670C21711B6DBE52DCD5F8E40C6654B3DECE573C2AB3D29B2,
    0x74CCC3AC9C383C60AF083972B96D05C75F12C8907D128A17ADAFBAB8C5A4ACF7),
   (0x8CFC48FB4FF37F1E27727464F3C34E2153861AD08E972D1625FC1A7BD18D5539,
    0x44B0294AA04290E1524FF3E3DA8CFD432BB64DE3A8040B5B88D1B5FC86A4EBC1))
def exRA : Nat := 0x00005879DD1D51E175946F23B1B41E93BA31C584AE59A426EC1046A4D03B06C8
def exRB : Nat := 0x00018B98C44BEF9F8537FB7D071B2C928B3BC65BD3D69E1EEE213564905634FE
theorem ex_extractA : extractEnc exKx exIdA hidExch = some exDeAx := by decide +kernel
theorem ex_extractB : extractEnc exKx exIdB hidExch = some exDeBx := by decide +kernel
/-- both parties of the Annex end with the same 16-byte key -/
example (F : PairingFacts) : ∃ RB skb,
    exchResponder (encMasterPub exKx) exDeBx exIdA exIdB (exchEphemeral (encMasterPub exKx) exIdB exRA) exRB 16 =
      some (RB, skb) ∧
    exchInitiator (encMasterPub exKx) exDeAx exIdA exIdB exRA (exchEphemeral (encMasterPub exKx) exIdB exRA) RB 16 =
      some skb := by
  obtain ⟨skb, h⟩ := exch_responder_some exKx exIdA exIdB exDeBx ex_extractB exRA exRB (by decide +kernel) 16
  exact ⟨_, skb, h, exch_agree F exKx (by decide +kernel) exIdA exIdB exDeAx exDeBx ex_extractA ex_extractB exRA exRB
    (by decide +kernel) (by decide +kernel) 16 _ skb h⟩

end GmVerif.Thm.SpecSM9
