/-
C15b: tamper detection of the SM2 key-agreement model `Impl.SM2.kex` (exchange_1 … exchange_4 of gm-sm2/exchange.rs run
for both parties, with the adversary of the harness: `tamper` lists the messages altered in transit — "ra", "rb" (lowest
bit of x flipped), "sb" (lowest bit of the first byte flipped), "sa" (highest bit of the last byte flipped)).
Control flow only; point operations stay opaque.  The meaning: an altered S_B or S_A, or an invalid ephemeral point, makes
the affected party report failure; a run never panics; a successful run returns keys of the requested length.
The honest-run corollaries (`kex_honest_*`) combine this with `Thm.C03.kex_refines_honest`.
Proofs in `GmVerif.Proofs.SM2KexTamper`.
-/
import GmVerif.Proofs.SM2KexTamper
import GmVerif.Thm.C03
import GmVerif.Thm.C05a

namespace GmVerif.Thm.C15b
open GmVerif GmVerif.Impl.SM2
open GmVerif.Proofs.SM2Curve (Valid toSpec)
open GmVerif.Thm.C11b (G2)
open GmVerif.Thm.SpecSM2 (exD exXA exYA exId)

/-! ### the adversary's alterations really alter -/

theorem flipFirst_ne (h : List UInt8) (hl : h.length = 32) : flipFirst h ≠ h :=
  Proofs.SM2KexTamper.flipFirst_ne h hl

theorem flipLast_ne (h : List UInt8) (hl : h.length = 32) : flipLast h ≠ h :=
  Proofs.SM2KexTamper.flipLast_ne h hl

example : flipFirst (List.replicate 32 0) ≠ List.replicate 32 0 := flipFirst_ne _ (by decide)
example : flipLast (List.replicate 32 0) = List.replicate 31 0 ++ [0x80] := by decide
/-- the length hypothesis of `flipLast_ne` is needed: `flipLast` leaves a string shorter than 32 bytes alone -/
example : flipLast (List.replicate 31 7) = List.replicate 31 7 := by decide

/-! ### altered confirmation values -/

/-- A got past its comparison S_1 = S_B: the run succeeded, or failed only at B's final comparison -/
def PassedStep3 (r : Outcome KexOut) : Prop := (∃ out, r = .ok out) ∨ r = .err "step4:false"

/-- S_B altered.  "The run reaches step 3" is made precise as: the same run with S_B delivered unaltered (every other
alteration kept) gets past A's comparison S_1 = S_B.  Then A, receiving the altered S_B, reports `HashNotEqual`. -/
theorem kex_sb_tampered (dA : Nat) (pA : Point) (dB : Nat) (pB : Point) (idA idB : List UInt8) (klen : Nat)
    (cands : List (List UInt8)) (tamper : List String) (hsb : "sb" ∈ tamper)
    (hreach : PassedStep3 (kex dA pA dB pB idA idB klen cands (tamper.filter (· != "sb")))) :
    kex dA pA dB pB idA idB klen cands tamper = .err "step3:HashNotEqual" :=
  Proofs.SM2KexTamper.kex_sb_tampered_gen dA pA dB pB idA idB klen cands tamper _
    (Proofs.SM2KexTamper.contains_filter_ne tamper "sb" "ra" (by decide)).symm
    (Proofs.SM2KexTamper.contains_filter_ne tamper "sb" "rb" (by decide)).symm
    (List.contains_iff_mem.mpr hsb) (Proofs.SM2KexTamper.contains_filter_self tamper "sb") hreach

/-- S_A altered, everything else as in a run that succeeds: B reports failure in exchange_4 -/
theorem kex_sa_tampered (dA : Nat) (pA : Point) (dB : Nat) (pB : Point) (idA idB : List UInt8) (klen : Nat)
    (cands : List (List UInt8)) (tamper : List String) (hsa : "sa" ∈ tamper) (out : KexOut)
    (hbase : kex dA pA dB pB idA idB klen cands (tamper.filter (· != "sa")) = .ok out) :
    kex dA pA dB pB idA idB klen cands tamper = .err "step4:false" :=
  Proofs.SM2KexTamper.kex_sa_tampered_gen dA pA dB pB idA idB klen cands tamper _
    (Proofs.SM2KexTamper.contains_filter_ne tamper "sa" "ra" (by decide)).symm
    (Proofs.SM2KexTamper.contains_filter_ne tamper "sa" "rb" (by decide)).symm
    (Proofs.SM2KexTamper.contains_filter_ne tamper "sa" "sb" (by decide)).symm
    (List.contains_iff_mem.mpr hsa) (Proofs.SM2KexTamper.contains_filter_self tamper "sa") out hbase

/-! ### shape of a successful run, totality -/

theorem kex_ok_shape (dA : Nat) (pA : Point) (dB : Nat) (pB : Point) (idA idB : List UInt8) (klen : Nat)
    (hklen : 1 ≤ klen) (cands : List (List UInt8)) (tamper : List String) (out : KexOut)
    (h : kex dA pA dB pB idA idB klen cands tamper = .ok out) :
    out.ka.length = klen ∧ out.kb.length = klen ∧ out.sb.length = 32 ∧ out.sa.length = 32 :=
  Proofs.SM2KexTamper.kex_ok_shape dA pA dB pB idA idB klen hklen cands tamper out h

/-- the model returns `.panic` only through `compute_za`, which never does -/
theorem kex_total (dA : Nat) (pA : Point) (dB : Nat) (pB : Point) (idA idB : List UInt8) (klen : Nat)
    (cands : List (List UInt8)) (tamper : List String) :
    kex dA pA dB pB idA idB klen cands tamper ≠ .panic :=
  Proofs.SM2KexTamper.kex_total dA pA dB pB idA idB klen cands tamper

example : kex 0 Point.zero 0 Point.zero [] [] 0 [] ["ra", "rb", "sb", "sa"] ≠ .panic := kex_total _ _ _ _ _ _ _ _ _

/-! ### invalid ephemeral point -/

/-- if the (possibly altered) R_A seen by B is not `is_valid`, B reports `CheckPointErr` in exchange_2 -/
theorem kex_offcurve_ra (dA : Nat) (pA : Point) (dB : Nat) (pB : Point) (idA idB : List UInt8) (klen : Nat)
    (cands : List (List UInt8)) (tamper : List String) (za zb : List UInt8) (rA : Nat) (rest : List (List UInt8))
    (hza : compute_za idA pA = .ok za) (hzb : compute_za idB pB = .ok zb)
    (hr : random_u256 cands = some (rA, rest))
    (hbad : (if tamper.contains "ra" then flipPoint (g_mul rA) else g_mul rA).is_valid = false) :
    kex dA pA dB pB idA idB klen cands tamper = .err "step2:CheckPointErr" :=
  Proofs.SM2KexTamper.kex_offcurve_ra dA pA dB pB idA idB klen cands tamper za zb rA rest hza hzb hr hbad

/-- r_A = 2 with R_A altered in transit: the altered point is off the curve and B stops -/
example : kex 1 G2 1 G2 exId exId 16 [natBE 32 2, natBE 32 4] ["ra"] = .err "step2:CheckPointErr" :=
  have hza : compute_za exId G2 = .ok (Spec.SM2.ZA exId Spec.SM2.Gx Spec.SM2.Gy) :=
    Thm.C03.compute_za_refines exId G2 Thm.C11.G2_valid (by decide +kernel) (by decide) _ _ Thm.C11.G2_toSpec
  kex_offcurve_ra _ _ _ _ _ _ _ _ _ _ _ 2 [natBE 32 4] hza hza (by decide +kernel) (by decide +kernel)

/-- conversely a successful run means both ephemeral points, as received, passed the receiver's check (so an invalid
R_A or R_B, altered or not, never leads to a key) -/
theorem kex_ok_points_valid (dA : Nat) (pA : Point) (dB : Nat) (pB : Point) (idA idB : List UInt8) (klen : Nat)
    (cands : List (List UInt8)) (tamper : List String) (out : KexOut)
    (h : kex dA pA dB pB idA idB klen cands tamper = .ok out) :
    ∃ rA c2 rB c3, random_u256 cands = some (rA, c2) ∧ random_u256 c2 = some (rB, c3)
      ∧ (if tamper.contains "ra" then flipPoint (g_mul rA) else g_mul rA).is_valid = true
      ∧ (if tamper.contains "rb" then flipPoint (g_mul rB) else g_mul rB).is_valid = true
      ∧ out.ra = (g_mul rA).to_byte_be false ∧ out.rb = (g_mul rB).to_byte_be false :=
  Proofs.SM2KexTamper.kex_ok_points_valid dA pA dB pB idA idB klen cands tamper out h

/-! ### honest parties, altered confirmation values (with `Thm.C03.kex_refines_honest`) -/

/-- honest keys, admissible nonces, the standard's computation succeeds (the hypotheses of `Thm.C03.kex_refines_honest`,
under which the unaltered run returns the standard's key to both parties): if S_B is altered in transit — and the
ephemeral points are not — A reports `HashNotEqual`, whatever happens to S_A -/
theorem kex_honest_sb_tampered (dA dB : Nat) (hdA : dA < Spec.SM2.n) (hdB : dB < Spec.SM2.n) (pA pB : Point)
    (hpA : Valid pA) (hpB : Valid pB)
    (xA yA xB yB : Nat) (hA : toSpec pA = some (xA, yA)) (hB : toSpec pB = some (xB, yB))
    (hPA : Spec.EC.mul Spec.SM2.curve dA Spec.SM2.G = some (xA, yA))
    (hPB : Spec.EC.mul Spec.SM2.curve dB Spec.SM2.G = some (xB, yB))
    (idA idB : List UInt8) (hidA : idA.length * 8 ≤ 65535) (hidB : idB.length * 8 ≤ 65535)
    (klen : Nat) (hklen : 1 ≤ klen) (kA kB : List UInt8) (rest : List (List UInt8))
    (hkA : 1 ≤ beNat kA ∧ beNat kA < Spec.SM2.n) (hkB : 1 ≤ beNat kB ∧ beNat kB < Spec.SM2.n)
    (a : Spec.SM2.KexResult)
    (ha : Spec.SM2.kexCompute dA (beNat kA) (Spec.EC.mul Spec.SM2.curve (beNat kA) Spec.SM2.G)
      (Spec.EC.mul Spec.SM2.curve (beNat kB) Spec.SM2.G)
      (Spec.EC.mul Spec.SM2.curve dB Spec.SM2.G) (Spec.SM2.ZA idA xA yA) (Spec.SM2.ZA idB xB yB) klen
      (Spec.EC.mul Spec.SM2.curve (beNat kA) Spec.SM2.G) (Spec.EC.mul Spec.SM2.curve (beNat kB) Spec.SM2.G) = some a)
    (tamper : List String) (hra : "ra" ∉ tamper) (hrb : "rb" ∉ tamper) (hsb : "sb" ∈ tamper) :
    kex dA pA dB pB idA idB klen (kA :: kB :: rest) tamper = .err "step3:HashNotEqual" := by
  obtain ⟨out, hok, _⟩ := Thm.C03.kex_refines_honest dA dB hdA hdB pA pB hpA hpB xA yA xB yB hA hB hPA hPB idA idB
    hidA hidB klen hklen kA kB rest hkA hkB a ha
  have c1 : tamper.contains "ra" = false := by
    cases h : tamper.contains "ra"
    · rfl
    · exact absurd (List.contains_iff_mem.mp h) hra
  have c2 : tamper.contains "rb" = false := by
    cases h : tamper.contains "rb"
    · rfl
    · exact absurd (List.contains_iff_mem.mp h) hrb
  exact Proofs.SM2KexTamper.kex_sb_tampered_gen dA pA dB pB idA idB klen _ tamper [] c1 c2
    (List.contains_iff_mem.mpr hsb) rfl (Or.inl ⟨out, hok⟩)

/-- same hypotheses: if only S_A is altered in transit, B reports failure in exchange_4 -/
theorem kex_honest_sa_tampered (dA dB : Nat) (hdA : dA < Spec.SM2.n) (hdB : dB < Spec.SM2.n) (pA pB : Point)
    (hpA : Valid pA) (hpB : Valid pB)
    (xA yA xB yB : Nat) (hA : toSpec pA = some (xA, yA)) (hB : toSpec pB = some (xB, yB))
    (hPA : Spec.EC.mul Spec.SM2.curve dA Spec.SM2.G = some (xA, yA))
    (hPB : Spec.EC.mul Spec.SM2.curve dB Spec.SM2.G = some (xB, yB))
    (idA idB : List UInt8) (hidA : idA.length * 8 ≤ 65535) (hidB : idB.length * 8 ≤ 65535)
    (klen : Nat) (hklen : 1 ≤ klen) (kA kB : List UInt8) (rest : List (List UInt8))
    (hkA : 1 ≤ beNat kA ∧ beNat kA < Spec.SM2.n) (hkB : 1 ≤ beNat kB ∧ beNat kB < Spec.SM2.n)
    (a : Spec.SM2.KexResult)
    (ha : Spec.SM2.kexCompute dA (beNat kA) (Spec.EC.mul Spec.SM2.curve (beNat kA) Spec.SM2.G)
      (Spec.EC.mul Spec.SM2.curve (beNat kB) Spec.SM2.G)
      (Spec.EC.mul Spec.SM2.curve dB Spec.SM2.G) (Spec.SM2.ZA idA xA yA) (Spec.SM2.ZA idB xB yB) klen
      (Spec.EC.mul Spec.SM2.curve (beNat kA) Spec.SM2.G) (Spec.EC.mul Spec.SM2.curve (beNat kB) Spec.SM2.G) = some a) :
    kex dA pA dB pB idA idB klen (kA :: kB :: rest) ["sa"] = .err "step4:false" := by
  obtain ⟨out, hok, _⟩ := Thm.C03.kex_refines_honest dA dB hdA hdB pA pB hpA hpB xA yA xB yB hA hB hPA hPB idA idB
    hidA hidB klen hklen kA kB rest hkA hkB a ha
  exact kex_sa_tampered dA pA dB pB idA idB klen _ ["sa"] (by decide) out hok

/-! ### non-vacuity: the concrete honest run of `Thm.C03` (d_A = 1, P_A = G as its Z = 2 representation, d_B = Annex A key,
r_A = 2, r_B = 4, default IDs, 16-byte key) -/

theorem ex_run : ∃ out, kex 1 G2 exD (g_mul exD) exId exId 16 [natBE 32 2, natBE 32 4] [] = .ok out := by
  have hg := Thm.C11.g_mul_correct exD (by decide)
  have e2 : beNat (natBE 32 2) = 2 := by decide +kernel
  have e4 : beNat (natBE 32 4) = 4 := by decide +kernel
  cases hs : Spec.SM2.kexCompute 1 2 (Spec.EC.mul Spec.SM2.curve 2 Spec.SM2.G)
      (Spec.EC.mul Spec.SM2.curve 4 Spec.SM2.G) (some (exXA, exYA)) (Spec.SM2.ZA exId Spec.SM2.Gx Spec.SM2.Gy)
      (Spec.SM2.ZA exId exXA exYA) 16 (Spec.EC.mul Spec.SM2.curve 2 Spec.SM2.G)
      (Spec.EC.mul Spec.SM2.curve 4 Spec.SM2.G) with
  | none => have := Thm.C03.ex_kex_spec; rw [hs] at this; cases this
  | some a =>
    obtain ⟨out, h1, _⟩ := Thm.C03.kex_refines_honest 1 exD (by decide) (by decide +kernel) G2
      (g_mul exD) Thm.C11.G2_valid hg.1 Spec.SM2.Gx Spec.SM2.Gy exXA exYA Thm.C11.G2_toSpec
      (hg.2.trans Thm.SpecSM2.ex_pub) (Thm.SpecSM2.mul_one _ _) Thm.SpecSM2.ex_pub exId exId (by decide) (by decide)
      16 (by decide) (natBE 32 2) (natBE 32 4) [] (by rw [e2]; decide) (by rw [e4]; decide) a
      (by rw [e2, e4, Thm.SpecSM2.ex_pub]; exact hs)
    exact ⟨out, h1⟩

/-- the successful run has the stated shape … -/
example : ∃ out, kex 1 G2 exD (g_mul exD) exId exId 16 [natBE 32 2, natBE 32 4] [] = .ok out
    ∧ out.ka.length = 16 ∧ out.kb.length = 16 ∧ out.sb.length = 32 ∧ out.sa.length = 32 :=
  let ⟨out, h⟩ := ex_run
  ⟨out, h, kex_ok_shape _ _ _ _ _ _ _ (by decide) _ _ out h⟩
/-- … S_B altered: A reports `HashNotEqual` (also when S_A is altered as well) … -/
example : kex 1 G2 exD (g_mul exD) exId exId 16 [natBE 32 2, natBE 32 4] ["sb"] = .err "step3:HashNotEqual" :=
  let ⟨out, h⟩ := ex_run
  kex_sb_tampered _ _ _ _ _ _ _ _ ["sb"] (by decide) (Or.inl ⟨out, h⟩)
example : kex 1 G2 exD (g_mul exD) exId exId 16 [natBE 32 2, natBE 32 4] ["sa", "sb"] = .err "step3:HashNotEqual" :=
  let ⟨out, h⟩ := ex_run
  Proofs.SM2KexTamper.kex_sb_tampered_gen _ _ _ _ _ _ _ _ ["sa", "sb"] [] rfl rfl rfl rfl (Or.inl ⟨out, h⟩)
/-- … S_A altered: B reports failure -/
example : kex 1 G2 exD (g_mul exD) exId exId 16 [natBE 32 2, natBE 32 4] ["sa"] = .err "step4:false" :=
  let ⟨out, h⟩ := ex_run
  kex_sa_tampered _ _ _ _ _ _ _ _ ["sa"] (by decide) out h

end GmVerif.Thm.C15b
