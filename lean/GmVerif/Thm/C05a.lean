/-
C05a: the KDF of the model of gm-sm2 (`Impl.SM2.kdf`, util.rs) equals GB/T 32918.4 §5.4.3 (`Spec.SM2.kdf`).
Only the property theorems; all work is in `GmVerif.Proofs.SM2Logic`.
-/
import GmVerif.Proofs.SM2Logic

namespace GmVerif.Thm.C05a
open GmVerif

/-- the SM3 used by the SM2 model is the standard's hash, 32 bytes -/
theorem sm3_eq (m : List UInt8) : Impl.SM2.sm3 m = Spec.SM2.hash m ∧ (Impl.SM2.sm3 m).length = 32 :=
  ⟨Proofs.SM2Logic.sm3_eq_hash m, Proofs.SM2Logic.sm3_length m⟩

example : Impl.SM2.sm3 [0x61, 0x62, 0x63] = Spec.SM2.hash [0x61, 0x62, 0x63] := (sm3_eq _).1

/-- the property's KDF clause: for EVERY klen ≥ 1 (including multiples of 32) the model returns exactly the first klen
    bytes of SM3(Z‖1)‖SM3(Z‖2)‖…  (the f64 ceil in the Rust code is exact for klen < 2^37; the model uses (klen+31)/32) -/
theorem kdf_prefix (z : List UInt8) (klen : Nat) (h : 1 ≤ klen) : Impl.SM2.kdf z klen = Spec.SM2.kdf z klen :=
  Proofs.SM2Logic.kdf_prefix z klen h

example : Impl.SM2.kdf [1, 2, 3] 32 = Spec.SM2.kdf [1, 2, 3] 32 := kdf_prefix _ _ (by decide)
example : Impl.SM2.kdf [1, 2, 3] 64 = Spec.SM2.kdf [1, 2, 3] 64 := kdf_prefix _ _ (by decide)
example : Impl.SM2.kdf [1, 2, 3] 19 = Spec.SM2.kdf [1, 2, 3] 19 := kdf_prefix _ _ (by decide)
/-- evaluation: one full block is SM3(Z ‖ 00000001) -/
example : Spec.SM2.kdf [1, 2, 3] 32 = Spec.SM2.hash [1, 2, 3, 0, 0, 0, 1] := by decide +kernel
example : Spec.SM2.kdf [1, 2, 3] 33 =
    Spec.SM2.hash [1, 2, 3, 0, 0, 0, 1] ++ (Spec.SM2.hash [1, 2, 3, 0, 0, 0, 2]).take 1 := by decide +kernel

theorem kdf_length (z : List UInt8) (klen : Nat) (h : 1 ≤ klen) : (Impl.SM2.kdf z klen).length = klen :=
  Proofs.SM2Logic.kdf_length z klen h

example : (Impl.SM2.kdf [] 96).length = 96 := kdf_length _ _ (by decide)

/-- prefix law of the standard's KDF -/
theorem spec_kdf_prefix (z : List UInt8) (k1 k2 : Nat) (h : k1 ≤ k2) :
    Spec.SM2.kdf z k1 = (Spec.SM2.kdf z k2).take k1 :=
  Proofs.SM2Logic.spec_kdf_prefix z k1 k2 h

example : Spec.SM2.kdf [9] 32 = (Spec.SM2.kdf [9] 33).take 32 := spec_kdf_prefix _ _ _ (by decide)
example : Spec.SM2.kdf [9] 0 = [] := by decide +kernel

/-- the quirk that made decrypt/encrypt panic before the fix: klen = 0 yields 32 bytes -/
theorem kdf_zero (z : List UInt8) : (Impl.SM2.kdf z 0).length = 32 :=
  Proofs.SM2Logic.kdf_zero z

/-- so at klen = 0 the model does NOT equal the standard's (empty) KDF output: the guard `1 ≤ klen` is needed -/
example : Impl.SM2.kdf [] 0 ≠ Spec.SM2.kdf [] 0 := by
  intro h
  have h1 := kdf_zero []
  rw [h] at h1
  revert h1
  decide +kernel

end GmVerif.Thm.C05a
