/-
Property C11/C13, field part (C11a): the limb arithmetic of u256.rs is exact (L0), the limb-level Montgomery / modular
routines equal their Nat mirror `Impl.NatField` for ALL 256-bit operands (L1a), the Nat mirror computes the mathematics
under the stated side conditions (L1b), and the SM2 constants dumped from the crate satisfy those side conditions, so
`Impl.SM2.fp_*` / `fn_*` are the field operations.  R = 2^256 throughout.
Only property theorems here; all lemmas live in `GmVerif.Proofs.Limb` and `GmVerif.Proofs.SM2Field`.
-/
import GmVerif.Proofs.Limb
import GmVerif.Proofs.SM2Field
namespace GmVerif.Thm.C11a
open GmVerif GmVerif.Impl GmVerif.Impl.Limb

/-! ## L0 — limb arithmetic, for ALL operands (no canonicity hypotheses) -/

/-- 2^256 − 1 -/
def maxU : U256 := ⟨0xffffffffffffffff, 0xffffffffffffffff, 0xffffffffffffffff, 0xffffffffffffffff⟩
example : maxU.toNat = 2 ^ 256 - 1 := by decide

theorem toNat_lt (a : U256) : a.toNat < 2 ^ 256 := Proofs.Limb.toNat_lt a
example : U256.zero.toNat = 0 ∧ maxU.toNat + 1 = 2 ^ 256 := by decide

theorem ofNat_toNat (a : U256) : U256.ofNat a.toNat = a := Proofs.Limb.ofNat_toNat a
theorem toNat_ofNat (n : Nat) : (U256.ofNat n).toNat = n % 2 ^ 256 := Proofs.Limb.toNat_ofNat n
example : (U256.ofNat (2 ^ 256 + 5)).toNat = 5 ∧ U256.ofNat (2 ^ 256 - 1) = maxU := by decide
theorem toNat_inj (a b : U256) : a.toNat = b.toNat → a = b := Proofs.Limb.toNat_inj a b
example : (⟨1, 0, 0, 0⟩ : U256).toNat ≠ (⟨0, 1, 0, 0⟩ : U256).toNat ∧ (⟨0, 0, 0, 1⟩ : U256).toNat = 2 ^ 192 := by decide

theorem u256_add_correct (a b : U256) :
    (u256_add a b).1.toNat + 2 ^ 256 * (if (u256_add a b).2 then 1 else 0) = a.toNat + b.toNat :=
  Proofs.Limb.u256_add_correct a b
example : u256_add maxU (U256.ofNat 1) = (U256.zero, true) ∧ u256_add maxU maxU = (U256.ofNat (2 ^ 256 - 2), true)
    ∧ u256_add U256.zero (U256.ofNat 1) = (U256.ofNat 1, false) := by decide

theorem u256_sub_correct (a b : U256) :
    (u256_sub a b).1.toNat + b.toNat = a.toNat + 2 ^ 256 * (if (u256_sub a b).2 then 1 else 0) :=
  Proofs.Limb.u256_sub_correct a b
example : u256_sub U256.zero (U256.ofNat 1) = (maxU, true) ∧ u256_sub maxU maxU = (U256.zero, false) := by decide

theorem u256_cmp_correct (a b : U256) :
    u256_cmp a b = (if a.toNat > b.toNat then 1 else if a.toNat < b.toNat then -1 else 0) :=
  Proofs.Limb.u256_cmp_correct a b
example : u256_cmp maxU U256.zero = 1 ∧ u256_cmp U256.zero maxU = -1 ∧ u256_cmp maxU maxU = 0
    ∧ u256_cmp ⟨0, 1, 0, 0⟩ ⟨0xffffffffffffffff, 0, 0, 0⟩ = 1 := by decide

theorem u512_add_correct (a b : U512) :
    (u512_add a b).1.toNat + 2 ^ 512 * (if (u512_add a b).2 then 1 else 0) = a.toNat + b.toNat :=
  Proofs.Limb.u512_add_correct a b
example : u512_add ⟨maxU, maxU⟩ ⟨U256.ofNat 1, U256.zero⟩ = (⟨U256.zero, U256.zero⟩, true)
    ∧ u512_add ⟨maxU, U256.zero⟩ ⟨U256.ofNat 1, U256.zero⟩ = (⟨U256.zero, U256.ofNat 1⟩, false) := by decide

/-- C20 obligation for `u256_mul`: the invariant of the double loop, in closed form.  Before step `j` of row `i`
(state `(s, u)` = the fold of the loop body over the previous rows and the previous `j` steps) the accumulator has 16
entries, all of them and the carry `u` and the half-limbs `a_[i]`, `b_[j]` are < 2^32; hence the product and both
additions of the plain (checked) u64 expression `s[i+j] + a_[i]*b_[j] + u` stay below 2^64
((2^32−1)^2 + 2(2^32−1) = 2^64−1) and the wrapping u64 value used by the model is the exact Nat value. -/
theorem mulRow_no_overflow (a b : U256) (i j : Nat) (hi : i < 8) (hj : j < 8) :
    let ah := halves a
    let bh := halves b
    let s0 := (List.range i).foldl (mulRow ah bh) (Array.replicate 16 0)
    let st := (List.range j).foldl
      (fun (st : Array UInt64 × UInt64) j =>
        let u := st.1[i + j]! + ah[i]! * bh[j]! + st.2
        (st.1.set! (i + j) (u &&& M32), u >>> 32)) (s0, 0)
    st.1.size = 16 ∧ (∀ k : Nat, st.1[k]!.toNat < 2 ^ 32) ∧ st.2.toNat < 2 ^ 32 ∧
    ah[i]!.toNat < 2 ^ 32 ∧ bh[j]!.toNat < 2 ^ 32 ∧
    ah[i]!.toNat * bh[j]!.toNat < 2 ^ 64 ∧
    st.1[i + j]!.toNat + ah[i]!.toNat * bh[j]!.toNat < 2 ^ 64 ∧
    st.1[i + j]!.toNat + ah[i]!.toNat * bh[j]!.toNat + st.2.toNat < 2 ^ 64 ∧
    (st.1[i + j]! + ah[i]! * bh[j]! + st.2).toNat = st.1[i + j]!.toNat + ah[i]!.toNat * bh[j]!.toNat + st.2.toNat :=
  Proofs.Limb.mulRow_no_overflow a b i j hi hj
/-- the bound is attained: (2^32−1) + (2^32−1)^2 + (2^32−1) = 2^64−1 -/
example : (0xffffffff : UInt64).toNat + (0xffffffff : UInt64).toNat * (0xffffffff : UInt64).toNat
    + (0xffffffff : UInt64).toNat = 2 ^ 64 - 1 := by decide

/-- the same obligation as an executable statement: the model of `u256_mul` with Rust's checked `+`, `*` and checked
indexing (`Proofs.Limb.u256_mulC`, `none` = panic) always returns `some (u256_mul a b)` -/
theorem u256_mul_checked (a b : U256) : Proofs.Limb.u256_mulC a b = some (u256_mul a b) :=
  Proofs.Limb.u256_mul_checked a b
example : Proofs.Limb.cadd 0xffffffffffffffff 1 = none ∧ Proofs.Limb.cmul 0x100000000 0x100000000 = none
    ∧ Proofs.Limb.cadd 0xfffffffffffffffe 1 = some 0xffffffffffffffff := by decide

theorem u256_mul_correct (a b : U256) : (u256_mul a b).toNat = a.toNat * b.toNat := Proofs.Limb.u256_mul_correct a b
example : (u256_mul maxU maxU).toNat = (2 ^ 256 - 1) * (2 ^ 256 - 1)
    ∧ u256_mul maxU U256.zero = ⟨U256.zero, U256.zero⟩ ∧ u256_mul maxU (U256.ofNat 1) = ⟨maxU, U256.zero⟩ := by
  decide +kernel

theorem from_be_bytes_correct (bs : List UInt8) (h : bs.length = 32) :
    ∃ v, u256_from_be_bytes bs = .ok v ∧ v.toNat = beNat bs := Proofs.Limb.from_be_bytes_correct bs h
/-- longer inputs: the first 32 bytes are read and the rest ignored; shorter inputs panic -/
theorem from_be_bytes_ge (bs : List UInt8) (h : 32 ≤ bs.length) :
    ∃ v, u256_from_be_bytes bs = .ok v ∧ v.toNat = beNat (bs.take 32) := Proofs.Limb.from_be_bytes_ge bs h
theorem from_be_bytes_short (bs : List UInt8) (h : bs.length < 32) : u256_from_be_bytes bs = .panic :=
  Proofs.Limb.from_be_bytes_short bs h
example : u256_from_be_bytes (List.replicate 31 0 ++ [1]) = .ok (U256.ofNat 1)
    ∧ u256_from_be_bytes (List.replicate 32 0xff) = .ok maxU
    ∧ u256_from_be_bytes (List.replicate 31 0) = .panic := by decide

theorem to_be_bytes_correct (a : U256) : u256_to_be_bytes a = natBE 32 a.toNat := Proofs.Limb.to_be_bytes_correct a
example : u256_to_be_bytes (U256.ofNat 1) = List.replicate 31 0 ++ [1]
    ∧ u256_to_be_bytes maxU = List.replicate 32 0xff := by decide

/-! ## L1 — limb level = Nat-exact, for ALL operands -/

theorem mont_mul_eq (m mp neg a b : Limb.U256) :
    (Limb.mont_mul m mp neg a b).toNat = NatField.montMul m.toNat mp.toNat neg.toNat a.toNat b.toNat :=
  Proofs.Limb.mont_mul_eq m mp neg a b
open Impl.SM2.L Gen.SM2 in
example : (Limb.mont_mul uP uPP uONE (U256.ofNat (P - 1)) uONE).toNat = P - 1
    ∧ (Limb.mont_mul uP uPP uONE U256.zero maxU).toNat = 0
    ∧ (Limb.mont_mul uP uPP uONE maxU maxU).toNat
        = NatField.montMul P P_PRIME MODP_MONT_ONE (2 ^ 256 - 1) (2 ^ 256 - 1) := by decide +kernel
theorem mod_add_eq (m neg a b : Limb.U256) :
    (Limb.mod_add m neg a b).toNat = NatField.modAdd m.toNat neg.toNat a.toNat b.toNat :=
  Proofs.Limb.mod_add_eq m neg a b
theorem mod_sub_eq (neg a b : Limb.U256) :
    (Limb.mod_sub neg a b).toNat = NatField.modSub neg.toNat a.toNat b.toNat := Proofs.Limb.mod_sub_eq neg a b
theorem mod_neg_eq (m a : Limb.U256) : (Limb.mod_neg m a).toNat = NatField.modNeg m.toNat a.toNat :=
  Proofs.Limb.mod_neg_eq m a
open Impl.SM2.L Gen.SM2 in
example : (Limb.mod_add uN uNNEG maxU maxU).toNat = 2 ^ 256 - 2 - N
    ∧ (Limb.mod_add uN uNNEG (U256.ofNat (N - 1)) (U256.ofNat 1)).toNat = 0
    ∧ (Limb.mod_sub uNNEG U256.zero maxU).toNat = NatField.modSub N_NEG 0 (2 ^ 256 - 1)
    ∧ (Limb.mod_sub uNNEG U256.zero (U256.ofNat 1)).toNat = N - 1
    ∧ (Limb.mod_neg uP (U256.ofNat 1)).toNat = P - 1 ∧ (Limb.mod_neg uP U256.zero).toNat = 0
    ∧ (Limb.mod_neg uP maxU).toNat = NatField.modNeg P (2 ^ 256 - 1) := by decide
theorem mod_div2_eq (m a : Limb.U256) (hm : m.toNat % 2 = 1) (ha : a.toNat < m.toNat) :
    (Limb.mod_div2 m a).toNat = NatField.modDiv2 m.toNat a.toNat := Proofs.Limb.mod_div2_eq m a hm ha
/-- it holds for all m and a: the limb code shifts the 257-bit value a + m (or a) right by one -/
theorem mod_div2_eq_all (m a : Limb.U256) : (Limb.mod_div2 m a).toNat = NatField.modDiv2 m.toNat a.toNat :=
  Proofs.Limb.mod_div2_eq_all m a
example : (Limb.mod_div2 maxU maxU).toNat = 2 ^ 256 - 1 ∧ (Limb.mod_div2 maxU (U256.ofNat 2)).toNat = 1 := by decide
theorem bitsMSB_eq (e : Limb.U256) : Limb.bitsMSB e = NatField.bitsMSB e.toNat := Proofs.Limb.bitsMSB_eq e
example : (Limb.bitsMSB (U256.ofNat 5)).drop 252 = [false, true, false, true] := by decide
theorem pow_loop_eq (mulL : U256 → U256 → U256) (mulN : Nat → Nat → Nat)
    (h : ∀ x y, (mulL x y).toNat = mulN x.toNat y.toNat) (one a e : Limb.U256) :
    (Limb.pow_loop mulL one a e).toNat = NatField.powLoop mulN one.toNat a.toNat e.toNat :=
  Proofs.Limb.pow_loop_eq mulL mulN h one a e
/-- with the additive monoid the loop computes e·a: 5·3 = 15, and (2^256−1)·1 wraps to 2^256−1 -/
example : Limb.pow_loop (fun x y => (u256_add x y).1) U256.zero (U256.ofNat 3) (U256.ofNat 5) = U256.ofNat 15
    ∧ Limb.pow_loop (fun x y => (u256_add x y).1) U256.zero (U256.ofNat 1) maxU = maxU := by decide +kernel

/-! ## L1 — Nat-exact = mathematics.  Side conditions: 0 < m < R, m·mp ≡ −1 (mod R), neg = R − m.
`R/2 < m` is NOT needed for canonical operands; it is used only in `modAdd_noncanonical`. -/

/-- Montgomery: hypotheses m·mp ≡ −1 (mod R) [as (m*mp + 1) % R = 0], neg = R − m, 0 < m < R, a*b < m*R -/
theorem montMul_correct (m mp neg a b : Nat) (hm : 0 < m ∧ m < 2 ^ 256) (hmp : (m * mp + 1) % 2 ^ 256 = 0)
    (hneg : neg = 2 ^ 256 - m) (hab : a * b < m * 2 ^ 256) :
    NatField.montMul m mp neg a b < m ∧ (NatField.montMul m mp neg a b * 2 ^ 256) % m = (a * b) % m :=
  Proofs.Limb.montMul_correct m mp neg a b hm hmp hneg hab
open Gen.SM2 in
/-- a Montgomery product landing on 0, on m − 1, and the carry branch (z + t·m ≥ 2^512) being taken -/
example : NatField.montMul P P_PRIME MODP_MONT_ONE 0 (P - 1) = 0
    ∧ NatField.montMul P P_PRIME MODP_MONT_ONE (P - 1) MODP_MONT_ONE = P - 1
    ∧ NatField.montMul P P_PRIME MODP_MONT_ONE (P - 1) (P - 1) = Proofs.SM2Field.RinvP
    ∧ (P - 1) * (P - 1) + ((P - 1) * (P - 1) % 2 ^ 256 * P_PRIME % 2 ^ 256) * P ≥ 2 ^ 256 * 2 ^ 256
    ∧ NatField.montMul P P_PRIME MODP_MONT_ONE 1 1 = Proofs.SM2Field.RinvP := by
  decide

theorem modAdd_correct (m neg a b : Nat) (hm : 0 < m ∧ m < 2 ^ 256) (hneg : neg = 2 ^ 256 - m) (ha : a < m)
    (hb : b < m) : NatField.modAdd m neg a b = (a + b) % m := Proofs.Limb.modAdd_correct m neg a b hm hneg ha hb
theorem modSub_correct (m neg a b : Nat) (hm : 0 < m ∧ m < 2 ^ 256) (hneg : neg = 2 ^ 256 - m) (ha : a < m)
    (hb : b < m) : NatField.modSub neg a b = (a + m - b) % m := Proofs.Limb.modSub_correct m neg a b hm hneg ha hb
theorem modNeg_correct (m a : Nat) (hm : 0 < m ∧ m < 2 ^ 256) (ha : a < m) : NatField.modNeg m a = (m - a) % m :=
  Proofs.Limb.modNeg_correct m a hm ha
theorem modDiv2_correct (m a : Nat) (hodd : m % 2 = 1) (ha : a < m) :
    NatField.modDiv2 m a < m ∧ (2 * NatField.modDiv2 m a) % m = a := Proofs.Limb.modDiv2_correct m a hodd ha
open Gen.SM2 in
example : NatField.modAdd P MODP_MONT_ONE (P - 1) (P - 1) = P - 2 ∧ NatField.modSub MODP_MONT_ONE 0 (P - 1) = 1
    ∧ NatField.modNeg P 0 = 0 ∧ NatField.modNeg P 1 = P - 1 ∧ NatField.modDiv2 P 1 = (P + 1) / 2
    ∧ NatField.modDiv2 P (P - 1) = (P - 1) / 2 := by decide

/-- what happens with NON-canonical operands is stated exactly: for a + b ≥ 2m the result is ≥ m or wrapped -/
theorem modAdd_noncanonical (m neg a b : Nat) (hm : 2 ^ 255 < m ∧ m < 2 ^ 256) (hneg : neg = 2 ^ 256 - m)
    (ha : a < 2 ^ 256) (hb : b < 2 ^ 256) :
    NatField.modAdd m neg a b
      = (if a + b ≥ 2 ^ 256 then (a + b - m) % 2 ^ 256 else if a + b ≥ m then a + b - m else a + b) :=
  Proofs.Limb.modAdd_noncanonical m neg a b hm hneg ha hb
/-- the three regimes for arbitrary 256-bit operands: correct while a + b < 2m; unreduced (≥ m, still congruent) for
2m ≤ a + b < R + m; wrapped (off by R, no longer congruent to a + b) for a + b ≥ R + m -/
theorem modAdd_noncanonical_cases (m neg a b : Nat) (hm : 2 ^ 255 < m ∧ m < 2 ^ 256) (hneg : neg = 2 ^ 256 - m)
    (ha : a < 2 ^ 256) (hb : b < 2 ^ 256) :
    (a + b < 2 * m → NatField.modAdd m neg a b = (a + b) % m)
    ∧ (2 * m ≤ a + b → a + b < 2 ^ 256 + m → NatField.modAdd m neg a b = a + b - m ∧ m ≤ NatField.modAdd m neg a b)
    ∧ (2 ^ 256 + m ≤ a + b → NatField.modAdd m neg a b = a + b - m - 2 ^ 256) :=
  Proofs.Limb.modAdd_noncanonical_cases m neg a b hm hneg ha hb
open Gen.SM2 in
/-- (2^256−1) + n is returned unreduced; (2^256−1) + (2^256−1) wraps and is not even congruent to the sum -/
example : NatField.modAdd N N_NEG (2 ^ 256 - 1) 0 = 2 ^ 256 - 1 - N
    ∧ NatField.modAdd N N_NEG (2 ^ 256 - 1) N = 2 ^ 256 - 1 ∧ 2 ^ 256 - 1 ≥ N
    ∧ NatField.modAdd N N_NEG (2 ^ 256 - 1) (2 ^ 256 - 1) = 2 ^ 256 - 2 - N
    ∧ (2 ^ 256 - 2 - N) % N ≠ (2 ^ 256 - 1 + (2 ^ 256 - 1)) % N := by decide

/-- square-and-multiply, abstract form (monoid-hom style): `I` is an invariant set closed under `mul`, `φ` is
multiplicative mod m along `mul` on `I` and `φ one = 1`; then `φ (powLoop mul one a e) = φ a ^ (e mod 2^256) mod m`
(`powLoop` reads exactly the low 256 bits of `e`, most significant first) -/
theorem powLoop_hom (mul : Nat → Nat → Nat) (I : Nat → Prop) (φ : Nat → Nat) (m one a e : Nat)
    (hI : ∀ x y, I x → I y → I (mul x y))
    (hφ : ∀ x y, I x → I y → φ (mul x y) = φ x * φ y % m) (h1 : I one) (ha : I a) (hone : φ one = 1 % m) :
    I (NatField.powLoop mul one a e) ∧ φ (NatField.powLoop mul one a e) = φ a ^ (e % 2 ^ 256) % m :=
  Proofs.Limb.powLoop_hom mul I φ m one a e hI hφ h1 ha hone

/-- square-and-multiply in the Montgomery domain: for any `mul` with `mul x y < m` and `(mul x y * R) % m = (x*y) % m`
on operands < m, R invertible mod m (witness `Rinv`), `one = R % m`, and `a = A·R mod m`:
the result is exactly `A^(e mod 2^256)·R mod m` -/
theorem powLoop_correct (mul : Nat → Nat → Nat) (m Rinv A e : Nat) (hm : 0 < m)
    (hR : 2 ^ 256 * Rinv % m = 1 % m)
    (hmul : ∀ x y, x < m → y < m → mul x y < m ∧ mul x y * 2 ^ 256 % m = x * y % m) :
    NatField.powLoop mul (2 ^ 256 % m) (A * 2 ^ 256 % m) e = A ^ (e % 2 ^ 256) * 2 ^ 256 % m :=
  Proofs.Limb.powLoop_correct mul m Rinv A e hm hR hmul
example : NatField.powLoop (fun x y => x * y % 7) 1 3 5 = 3 ^ 5 % 7
    ∧ NatField.powLoop (fun x y => x * y % 7) 1 3 (2 ^ 256 + 5) = 3 ^ 5 % 7
    ∧ Impl.SM2.fp_pow (3 * 2 ^ 256 % Gen.SM2.P) 5 = 243 * 2 ^ 256 % Gen.SM2.P := by decide +kernel

/-! ## SM2 constants and instances -/

theorem sm2_consts : Gen.SM2.P = Spec.SM2.p ∧ Gen.SM2.N = Spec.SM2.n ∧ Gen.SM2.G_X = Spec.SM2.Gx ∧ Gen.SM2.G_Y = Spec.SM2.Gy
    ∧ (Gen.SM2.P * Gen.SM2.P_PRIME + 1) % 2 ^ 256 = 0 ∧ (Gen.SM2.N * Gen.SM2.N_PRIME + 1) % 2 ^ 256 = 0
    ∧ Gen.SM2.MODP_MONT_ONE = 2 ^ 256 - Gen.SM2.P ∧ Gen.SM2.N_NEG = 2 ^ 256 - Gen.SM2.N
    ∧ Gen.SM2.MODP_2E512 = 2 ^ 512 % Gen.SM2.P ∧ Gen.SM2.MOD_N_2E512 = 2 ^ 512 % Gen.SM2.N
    ∧ Gen.SM2.P_MINUS_TWO = Gen.SM2.P - 2 ∧ Gen.SM2.N_MINUS_TWO = Gen.SM2.N - 2 ∧ Gen.SM2.SQRT_EXP = (Gen.SM2.P + 1) / 4
    ∧ Gen.SM2.MODP_MONT_A = (Spec.SM2.a * 2 ^ 256) % Gen.SM2.P ∧ Gen.SM2.MODP_MONT_B = (Spec.SM2.b * 2 ^ 256) % Gen.SM2.P :=
  open Proofs.SM2Field in
  ⟨P_eq, N_eq, GX_eq, GY_eq, P_prime, N_prime, P_neg, N_neg, P_2e512, N_2e512, P_m2, N_m2, sqrt_exp, mont_a, mont_b⟩
example : Gen.SM2.P % 4 = 3 ∧ Gen.SM2.P % 2 = 1 ∧ Gen.SM2.N % 2 = 1 ∧ 2 ^ 255 < Gen.SM2.N ∧ Gen.SM2.N < Gen.SM2.P
    ∧ Gen.SM2.P < 2 ^ 256 := by decide

/-- SM2 field functions on canonical operands (Montgomery domain: value v is stored as v·R mod p) -/
theorem sm2_fp_mul_correct (a b : Nat) (ha : a < Spec.SM2.p) (hb : b < Spec.SM2.p) :
    Impl.SM2.fp_mul a b < Spec.SM2.p ∧ (Impl.SM2.fp_mul a b * 2 ^ 256) % Spec.SM2.p = (a * b) % Spec.SM2.p := by
  rw [← Proofs.SM2Field.P_eq] at *; exact Proofs.SM2Field.fp_mul_correct a b ha hb
/-- also for one non-canonical operand: any a, b with a·b < p·R, e.g. a < 2^256 and b < p -/
theorem sm2_fp_mul_correct' (a b : Nat) (hab : a * b < Spec.SM2.p * 2 ^ 256) :
    Impl.SM2.fp_mul a b < Spec.SM2.p ∧ (Impl.SM2.fp_mul a b * 2 ^ 256) % Spec.SM2.p = (a * b) % Spec.SM2.p := by
  rw [← Proofs.SM2Field.P_eq] at *; exact Proofs.SM2Field.fp_mul_correct' a b hab
/-- on Montgomery representatives: (A·R)·(B·R) ↦ A·B·R -/
theorem sm2_fp_mul_dom (A B : Nat) :
    Impl.SM2.fp_mul (A * 2 ^ 256 % Spec.SM2.p) (B * 2 ^ 256 % Spec.SM2.p) = A * B * 2 ^ 256 % Spec.SM2.p := by
  rw [← Proofs.SM2Field.P_eq]; exact Proofs.SM2Field.fp_mul_dom A B
example : Impl.SM2.fp_mul 0 (Spec.SM2.p - 1) = 0
    ∧ Impl.SM2.fp_mul (Spec.SM2.p - 1) Gen.SM2.MODP_MONT_ONE = Spec.SM2.p - 1
    ∧ Impl.SM2.fp_mul Gen.SM2.MODP_MONT_ONE Gen.SM2.MODP_MONT_ONE = Gen.SM2.MODP_MONT_ONE
    ∧ Impl.SM2.fp_mul (2 ^ 256 - 1) (Spec.SM2.p - 1) < Spec.SM2.p := by decide

theorem sm2_fp_add_correct (a b : Nat) (ha : a < Spec.SM2.p) (hb : b < Spec.SM2.p) :
    Impl.SM2.fp_add a b = (a + b) % Spec.SM2.p := by
  rw [← Proofs.SM2Field.P_eq] at *; exact Proofs.SM2Field.fp_add_correct a b ha hb
theorem sm2_fp_sub_correct (a b : Nat) (ha : a < Spec.SM2.p) (hb : b < Spec.SM2.p) :
    Impl.SM2.fp_sub a b = (a + Spec.SM2.p - b) % Spec.SM2.p := by
  rw [← Proofs.SM2Field.P_eq] at *; exact Proofs.SM2Field.fp_sub_correct a b ha hb
theorem sm2_fp_neg_correct (a : Nat) (ha : a < Spec.SM2.p) : Impl.SM2.fp_neg a = (Spec.SM2.p - a) % Spec.SM2.p := by
  rw [← Proofs.SM2Field.P_eq] at *; exact Proofs.SM2Field.fp_neg_correct a ha
theorem sm2_fp_div2_correct (a : Nat) (ha : a < Spec.SM2.p) :
    Impl.SM2.fp_div2 a < Spec.SM2.p ∧ (2 * Impl.SM2.fp_div2 a) % Spec.SM2.p = a := by
  rw [← Proofs.SM2Field.P_eq] at *; exact Proofs.SM2Field.fp_div2_correct a ha
example : Impl.SM2.fp_add (Spec.SM2.p - 1) (Spec.SM2.p - 1) = Spec.SM2.p - 2 ∧ Impl.SM2.fp_add (Spec.SM2.p - 1) 1 = 0
    ∧ Impl.SM2.fp_sub 0 1 = Spec.SM2.p - 1 ∧ Impl.SM2.fp_sub 0 (Spec.SM2.p - 1) = 1 ∧ Impl.SM2.fp_neg 0 = 0
    ∧ Impl.SM2.fp_neg (Spec.SM2.p - 1) = 1 ∧ Impl.SM2.fp_div2 1 = (Spec.SM2.p + 1) / 2
    ∧ Impl.SM2.fp_div2 (Spec.SM2.p - 1) = (Spec.SM2.p - 1) / 2 ∧ Impl.SM2.fp_div2 0 = 0 := by decide
/-- `fp_double` / `fp_triple` on canonical operands -/
theorem sm2_fp_double_triple_correct (a : Nat) (ha : a < Spec.SM2.p) :
    Impl.SM2.fp_double a = 2 * a % Spec.SM2.p ∧ Impl.SM2.fp_triple a = 3 * a % Spec.SM2.p := by
  rw [← Proofs.SM2Field.P_eq] at *
  exact ⟨Proofs.SM2Field.fp_double_correct a ha, Proofs.SM2Field.fp_triple_correct a ha⟩
example : Impl.SM2.fp_double (Spec.SM2.p - 1) = Spec.SM2.p - 2 ∧ Impl.SM2.fp_triple (Spec.SM2.p - 1) = Spec.SM2.p - 3
    ∧ Impl.SM2.fp_sqr (Spec.SM2.p - 1) = Proofs.SM2Field.RinvP := by decide
/-- non-canonical operands of `fp_add`, exactly -/
theorem sm2_fp_add_noncanonical (a b : Nat) (ha : a < 2 ^ 256) (hb : b < 2 ^ 256) :
    Impl.SM2.fp_add a b = (if a + b ≥ 2 ^ 256 then (a + b - Spec.SM2.p) % 2 ^ 256
      else if a + b ≥ Spec.SM2.p then a + b - Spec.SM2.p else a + b) := by
  rw [← Proofs.SM2Field.P_eq]; exact Proofs.SM2Field.fp_add_noncanonical a b ha hb

/-- `fp_to_mont a = a·R mod p` for every a < 2^256, canonical or not -/
theorem sm2_fp_to_mont_correct (a : Nat) (ha : a < 2 ^ 256) : Impl.SM2.fp_to_mont a = a * 2 ^ 256 % Spec.SM2.p := by
  rw [← Proofs.SM2Field.P_eq]; exact Proofs.SM2Field.fp_to_mont_correct a ha
/-- `fp_from_mont` for every a < 2^256: canonical result r with r·R ≡ a; on a representative A·R mod p it returns
A mod p; and it inverts `fp_to_mont` up to reduction -/
theorem sm2_fp_from_mont_correct (a : Nat) (ha : a < 2 ^ 256) :
    Impl.SM2.fp_from_mont a < Spec.SM2.p ∧ (Impl.SM2.fp_from_mont a * 2 ^ 256) % Spec.SM2.p = a % Spec.SM2.p := by
  rw [← Proofs.SM2Field.P_eq]; exact Proofs.SM2Field.fp_from_mont_correct a ha
theorem sm2_fp_from_mont_dom (A : Nat) : Impl.SM2.fp_from_mont (A * 2 ^ 256 % Spec.SM2.p) = A % Spec.SM2.p := by
  rw [← Proofs.SM2Field.P_eq]; exact Proofs.SM2Field.fp_from_mont_dom A
theorem sm2_fp_from_to_mont (a : Nat) (ha : a < 2 ^ 256) :
    Impl.SM2.fp_from_mont (Impl.SM2.fp_to_mont a) = a % Spec.SM2.p := by
  rw [← Proofs.SM2Field.P_eq]; exact Proofs.SM2Field.fp_from_to_mont a ha
example : Impl.SM2.fp_to_mont 1 = Gen.SM2.MODP_MONT_ONE ∧ Impl.SM2.fp_to_mont 0 = 0
    ∧ Impl.SM2.fp_to_mont (2 ^ 256 - 1) = (2 ^ 256 - 1) * 2 ^ 256 % Spec.SM2.p
    ∧ Impl.SM2.fp_from_mont Gen.SM2.MODP_MONT_ONE = 1
    ∧ Impl.SM2.fp_from_mont (Impl.SM2.fp_to_mont (2 ^ 256 - 1)) = 2 ^ 256 - 1 - Spec.SM2.p
    ∧ Impl.SM2.fp_to_mont Spec.SM2.a = Gen.SM2.MODP_MONT_A := by decide
/-- `fp_pow` in the Montgomery domain (exponent = low 256 bits of e) -/
theorem sm2_fp_pow_correct (A e : Nat) :
    Impl.SM2.fp_pow (A * 2 ^ 256 % Spec.SM2.p) e = A ^ (e % 2 ^ 256) * 2 ^ 256 % Spec.SM2.p := by
  rw [← Proofs.SM2Field.P_eq]; exact Proofs.SM2Field.fp_pow_correct A e

theorem sm2_fn_add_correct (a b : Nat) (ha : a < Spec.SM2.n) (hb : b < Spec.SM2.n) :
    Impl.SM2.fn_add a b = (a + b) % Spec.SM2.n := by
  rw [← Proofs.SM2Field.N_eq] at *; exact Proofs.SM2Field.fn_add_correct a b ha hb
theorem sm2_fn_sub_correct (a b : Nat) (ha : a < Spec.SM2.n) (hb : b < Spec.SM2.n) :
    Impl.SM2.fn_sub a b = (a + Spec.SM2.n - b) % Spec.SM2.n := by
  rw [← Proofs.SM2Field.N_eq] at *; exact Proofs.SM2Field.fn_sub_correct a b ha hb
/-- non-canonical operands of `fn_add`, exactly (this is the shape that exposed the sign/verify defect) -/
theorem sm2_fn_add_noncanonical (a b : Nat) (ha : a < 2 ^ 256) (hb : b < 2 ^ 256) :
    Impl.SM2.fn_add a b = (if a + b ≥ 2 ^ 256 then (a + b - Spec.SM2.n) % 2 ^ 256
      else if a + b ≥ Spec.SM2.n then a + b - Spec.SM2.n else a + b) := by
  rw [← Proofs.SM2Field.N_eq]; exact Proofs.SM2Field.fn_add_noncanonical a b ha hb
/-- `fn_mul a b = a·b mod n` for ALL a, b < 2^256 (canonical or not) -/
theorem sm2_fn_mul_correct (a b : Nat) (ha : a < 2 ^ 256) (hb : b < 2 ^ 256) :
    Impl.SM2.fn_mul a b = a * b % Spec.SM2.n := by
  rw [← Proofs.SM2Field.N_eq]; exact Proofs.SM2Field.fn_mul_correct a b ha hb
/-- `fn_pow a e = a^e mod n` for all a < 2^256 (exponent = low 256 bits of e) -/
theorem sm2_fn_pow_correct (a e : Nat) (ha : a < 2 ^ 256) :
    Impl.SM2.fn_pow a e = a ^ (e % 2 ^ 256) % Spec.SM2.n := by
  rw [← Proofs.SM2Field.N_eq]; exact Proofs.SM2Field.fn_pow_correct a e ha
example : Impl.SM2.fn_add (Spec.SM2.n - 1) (Spec.SM2.n - 1) = Spec.SM2.n - 2 ∧ Impl.SM2.fn_sub 0 (Spec.SM2.n - 1) = 1
    ∧ Impl.SM2.fn_mul (Spec.SM2.n - 1) (Spec.SM2.n - 1) = 1 ∧ Impl.SM2.fn_mul (2 ^ 256 - 1) (2 ^ 256 - 1)
      = (2 ^ 256 - 1) * (2 ^ 256 - 1) % Spec.SM2.n ∧ Impl.SM2.fn_mul 0 1 = 0
    ∧ Impl.SM2.fn_add (2 ^ 256 - 1) 0 = 2 ^ 256 - 1 - Spec.SM2.n ∧ Impl.SM2.fn_pow 2 10 = 1024 := by decide +kernel

/-- the limb-level instances `Impl.SM2.L.*` agree with the Nat-level functions through `toNat`, for ALL operands -/
theorem sm2_limb_nat :
    (∀ a b : U256, (Impl.SM2.L.fp_mul a b).toNat = Impl.SM2.fp_mul a.toNat b.toNat)
    ∧ (∀ a b : U256, (Impl.SM2.L.fp_add a b).toNat = Impl.SM2.fp_add a.toNat b.toNat)
    ∧ (∀ a b : U256, (Impl.SM2.L.fp_sub a b).toNat = Impl.SM2.fp_sub a.toNat b.toNat)
    ∧ (∀ a : U256, (Impl.SM2.L.fp_neg a).toNat = Impl.SM2.fp_neg a.toNat)
    ∧ (∀ a : U256, (Impl.SM2.L.fp_div2 a).toNat = Impl.SM2.fp_div2 a.toNat)
    ∧ (∀ a e : U256, (Impl.SM2.L.fp_pow a e).toNat = Impl.SM2.fp_pow a.toNat e.toNat)
    ∧ (∀ a b : U256, (Impl.SM2.L.fn_mont_mul a b).toNat = Impl.SM2.fn_mont_mul a.toNat b.toNat)
    ∧ (∀ a b : U256, (Impl.SM2.L.fn_add a b).toNat = Impl.SM2.fn_add a.toNat b.toNat)
    ∧ (∀ a b : U256, (Impl.SM2.L.fn_sub a b).toNat = Impl.SM2.fn_sub a.toNat b.toNat)
    ∧ (∀ a : U256, (Impl.SM2.L.fn_to_mont a).toNat = Impl.SM2.fn_to_mont a.toNat)
    ∧ (∀ a : U256, (Impl.SM2.L.fn_from_mont a).toNat = Impl.SM2.fn_from_mont a.toNat)
    ∧ (∀ a b : U256, (Impl.SM2.L.fn_mul a b).toNat = Impl.SM2.fn_mul a.toNat b.toNat)
    ∧ (∀ a e : U256, (Impl.SM2.L.fn_pow a e).toNat = Impl.SM2.fn_pow a.toNat e.toNat) :=
  open Proofs.SM2Field in
  ⟨L_fp_mul, L_fp_add, L_fp_sub, L_fp_neg, L_fp_div2, L_fp_pow, L_fn_mont_mul, L_fn_add, L_fn_sub, L_fn_to_mont,
    L_fn_from_mont, L_fn_mul, L_fn_pow⟩
example : Impl.SM2.L.fp_mul (U256.ofNat (Gen.SM2.P - 1)) Impl.SM2.L.uONE = U256.ofNat (Gen.SM2.P - 1)
    ∧ Impl.SM2.L.fp_mul U256.zero maxU = U256.zero
    ∧ Impl.SM2.L.fn_mul (U256.ofNat (Gen.SM2.N - 1)) (U256.ofNat (Gen.SM2.N - 1)) = U256.ofNat 1
    ∧ Impl.SM2.L.fp_add maxU U256.zero = U256.ofNat (2 ^ 256 - 1 - Gen.SM2.P) := by decide +kernel

end GmVerif.Thm.C11a
