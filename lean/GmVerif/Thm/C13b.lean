/-
Property C13, tower part (C13b): the field tower of the gm-sm9 model (`Impl.SM9.Fp2/Fp4/Fp12`, coefficients = canonical
Montgomery residues) computes in
    Fp2 = Fp[u]/(u² + 2),   Fp4 = Fp2[v]/(v² − u),   Fp12 = Fp4[w]/(w³ − v).

* `F2 / F4 / F12` are the textbook quotient rings over `K = ZMod p` (`Quad K β = K[x]/(x² − β)`,
  `Cubic K ξ = K[x]/(x³ − ξ)` of `Proofs.SM9TowerAlg`, proved there to be commutative rings), `u v w` the adjoined roots.
* `dec x = x·R⁻¹` (R = 2^256) decodes a limb value, `dec2 / dec4 / dec12` decode componentwise,
  `Canon2 / Canon4 / Canon12` = "every coefficient < p".
* `FpFacts` is the bundle of base-field facts (Montgomery multiplication, modular add/sub/neg/halving, Fermat inverse),
  proved elsewhere and taken as a hypothesis here.
* Inversions need the tower to be a tower of fields: `−2` a non-square in Fp (`hnr`), `u` a non-square in Fp2 (`hnr2`),
  `v` a non-cube in Fp4 (`hnc`).  These are hypotheses of the `*_inv_correct` theorems, exactly as written there;
  `tower_nonresidues` proves all three (p ≡ 5 mod 8, 2^((p−1)/3) ≠ 1 mod p, p prime by its Pratt certificate), and the
  primed versions `*_inv_correct'` need `FpFacts` only.
Only property theorems here; all lemmas live in `GmVerif.Proofs.SM9Tower` / `GmVerif.Proofs.SM9TowerAlg`.
-/
import GmVerif.Proofs.SM9Tower
import GmVerif.Proofs.SM9TowerNonRes
namespace GmVerif.Thm.C13b
open GmVerif GmVerif.Impl.SM9 GmVerif.Proofs.SM9Tower
open GmVerif.Spec.SM9 (p)

/-! ## sample elements for the non-vacuity examples (small integers in Montgomery form) -/

/-- Montgomery form of an integer -/
def m (n : Nat) : Nat := fp_to_mont n
/-- 3 + 5u,  7 + 11u -/
def A2 : Fp2 := ⟨m 3, m 5⟩
def B2 : Fp2 := ⟨m 7, m 11⟩
/-- (3 + 5u) + (7 + 11u)v,  (2 + u) + (4 + 9u)v -/
def A4 : Fp4 := ⟨A2, B2⟩
def B4 : Fp4 := ⟨⟨m 2, m 1⟩, ⟨m 4, m 9⟩⟩
def A12 : Fp12 := ⟨A4, B4, ⟨⟨m 1, m 2⟩, ⟨m 3, m 4⟩⟩⟩
def B12 : Fp12 := ⟨B4, ⟨⟨m 5, m 6⟩, ⟨m 7, m 8⟩⟩, A4⟩
/-- an element with c2 = 0 (first branch of `Fp12::fp_inv`) -/
def C12 : Fp12 := ⟨A4, B4, Fp4.zero⟩

example : Canon2 A2 ∧ Canon2 B2 ∧ Canon4 A4 ∧ Canon4 B4 ∧ Canon12 A12 ∧ Canon12 B12 ∧ Canon12 C12 := by
  decide +kernel

/-! ## the abstract tower is the claimed one -/

theorem tower_relations : u * u = -2 ∧ v * v = Quad.of u ∧ w * w * w = Cubic.of v := ⟨u_sq, v_sq, w_cube⟩
/-- every element is `c0 + c1·root (+ c2·root²)` over the level below -/
theorem tower_basis :
    (∀ x : F2, x = Quad.of x.c0 + Quad.of x.c1 * u) ∧ (∀ x : F4, x = Quad.of x.c0 + Quad.of x.c1 * v) ∧
    (∀ x : F12, x = Cubic.of x.c0 + Cubic.of x.c1 * w + Cubic.of x.c2 * (w * w)) :=
  ⟨Quad.eq_of_add_root, Quad.eq_of_add_root, Cubic.eq_of_add_root⟩
example : (u : F2) = ⟨0, 1⟩ ∧ (v : F4) = ⟨0, 1⟩ ∧ (w : F12) = ⟨0, 1, 0⟩ := ⟨rfl, rfl, rfl⟩

/-- the three side conditions of the inversions hold: −2 is a non-square in Fp, u a non-square in Fp2, v a non-cube in
Fp4 -/
theorem tower_nonresidues : (∀ x : ZMod p, x ^ 2 ≠ -2) ∧ (∀ x : F2, x ^ 2 ≠ u) ∧ (∀ x : F4, x ^ 3 ≠ v) :=
  ⟨neg_two_nonsquare p_prime, u_nonsquare p_prime, v_noncube p_prime⟩
example : p % 8 = 5 ∧ p % 3 = 1 ∧ Spec.EC.powMod 2 ((p - 1) / 2) p = p - 1 ∧ Spec.EC.powMod 2 ((p - 1) / 3) p ≠ 1 := by
  decide +kernel
/-- hence Fp12 is a field: every non-zero element is invertible -/
theorem tower_field : ∀ x : F12, x ≠ 0 → ∃ y, x * y = 1 := hasInvF12
/-- w⁶ = u (the embedding used by `Spec.SM9.Fp12.ofFp2`) -/
example : w * w * w * (w * w * w) = Cubic.of (Quad.of u) := by rw [w_cube, ← Cubic.of_mul, v_sq]

/-- the base-field facts hold at sample points (the bundle itself is discharged elsewhere) -/
example : fp_mul (m 3) (m 5) < p ∧ (fp_mul (m 3) (m 5) * 2 ^ 256) % p = (m 3 * m 5) % p
    ∧ fp_add (m 3) (m (p - 1)) = (m 3 + m (p - 1)) % p ∧ fp_sub (m 3) (m 5) = (m 3 + p - m 5) % p
    ∧ fp_neg (m 3) = (p - m 3) % p ∧ fp_neg 0 = (p - 0) % p ∧ (2 * fp_div2 (m 3)) % p = m 3
    ∧ fp_mul (m 3) (fp_inv (m 3)) = 2 ^ 256 % p ∧ fp_inv 0 = 0 := by decide +kernel

/-! ## Fp2 -/

theorem fp2_zero_one : Canon2 Fp2.zero ∧ dec2 Fp2.zero = 0 ∧ Canon2 Fp2.one ∧ dec2 Fp2.one = 1 :=
  ⟨ok2_zero.out.1, ok2_zero.out.2, ok2_one.out.1, ok2_one.out.2⟩
example : Fp2.one = ⟨m 1, m 0⟩ ∧ Fp2.zero = ⟨m 0, m 0⟩ := by decide +kernel

theorem fp2_is_zero_correct (a : Fp2) (ha : Canon2 a) : a.is_zero = true ↔ dec2 a = 0 := (ok2_dec ha).is_zero_iff
example : Fp2.zero.is_zero = true ∧ A2.is_zero = false ∧ (⟨0, m 1⟩ : Fp2).is_zero = false := by decide +kernel

theorem fp2_eq_correct (a b : Fp2) (ha : Canon2 a) (hb : Canon2 b) : a.eq b = true ↔ dec2 a = dec2 b :=
  (ok2_dec ha).eq_iff (ok2_dec hb)
example : A2.eq A2 = true ∧ A2.eq B2 = false := by decide +kernel

theorem fp2_mul_correct (F : FpFacts) (a b : Fp2) (ha : Canon2 a) (hb : Canon2 b) :
    Canon2 (a.fp_mul b) ∧ dec2 (a.fp_mul b) = dec2 a * dec2 b := (F.o2_mul (ok2_dec ha) (ok2_dec hb)).out
/-- (3 + 5u)(7 + 11u) = −89 + 68u -/
example : A2.fp_mul B2 = ⟨m (p - 89), m 68⟩ := by decide +kernel

theorem fp2_add_correct (F : FpFacts) (a b : Fp2) (ha : Canon2 a) (hb : Canon2 b) :
    Canon2 (a.fp_add b) ∧ dec2 (a.fp_add b) = dec2 a + dec2 b := (F.o2_add (ok2_dec ha) (ok2_dec hb)).out
example : A2.fp_add B2 = ⟨m 10, m 16⟩ ∧ (⟨m (p - 1), m (p - 2)⟩ : Fp2).fp_add A2 = ⟨m 2, m 3⟩ := by decide +kernel

theorem fp2_sub_correct (F : FpFacts) (a b : Fp2) (ha : Canon2 a) (hb : Canon2 b) :
    Canon2 (a.fp_sub b) ∧ dec2 (a.fp_sub b) = dec2 a - dec2 b := (F.o2_sub (ok2_dec ha) (ok2_dec hb)).out
example : A2.fp_sub B2 = ⟨m (p - 4), m (p - 6)⟩ ∧ B2.fp_sub A2 = ⟨m 4, m 6⟩ := by decide +kernel

theorem fp2_sqr_correct (F : FpFacts) (a : Fp2) (ha : Canon2 a) :
    Canon2 a.fp_sqr ∧ dec2 a.fp_sqr = dec2 a * dec2 a := (F.o2_sqr (ok2_dec ha)).out
/-- (3 + 5u)² = −41 + 30u -/
example : A2.fp_sqr = ⟨m (p - 41), m 30⟩ ∧ A2.fp_sqr = A2.fp_mul A2 := by decide +kernel

theorem fp2_neg_correct (F : FpFacts) (a : Fp2) (ha : Canon2 a) :
    Canon2 a.fp_neg ∧ dec2 a.fp_neg = -dec2 a := (F.o2_neg (ok2_dec ha)).out
example : A2.fp_neg = ⟨m (p - 3), m (p - 5)⟩ ∧ Fp2.zero.fp_neg = Fp2.zero := by decide +kernel

theorem fp2_double_correct (F : FpFacts) (a : Fp2) (ha : Canon2 a) :
    Canon2 a.fp_double ∧ dec2 a.fp_double = dec2 a + dec2 a := (F.o2_double (ok2_dec ha)).out
theorem fp2_triple_correct (F : FpFacts) (a : Fp2) (ha : Canon2 a) :
    Canon2 a.fp_triple ∧ dec2 a.fp_triple = dec2 a + dec2 a + dec2 a := (F.o2_triple (ok2_dec ha)).out
example : A2.fp_double = ⟨m 6, m 10⟩ ∧ A2.fp_triple = ⟨m 9, m 15⟩ := by decide +kernel

/-- `fp_div2`: 2·r = a -/
theorem fp2_div2_correct (F : FpFacts) (a : Fp2) (ha : Canon2 a) :
    Canon2 a.fp_div2 ∧ 2 * dec2 a.fp_div2 = dec2 a := (F.o2_div2 (ok2_dec ha)).out_div2
example : A2.fp_div2.fp_double = A2 ∧ (⟨m 6, m 10⟩ : Fp2).fp_div2 = A2 := by decide +kernel

theorem fp2_conjugate_correct (F : FpFacts) (a : Fp2) (ha : Canon2 a) :
    Canon2 a.conjugate ∧ dec2 a.conjugate = (dec2 a).conj := (F.o2_conj (ok2_dec ha)).out
example : A2.conjugate = ⟨m 3, m (p - 5)⟩ := by decide +kernel

/-- `a_mul_u`: a·u -/
theorem fp2_a_mul_u_correct (F : FpFacts) (a : Fp2) (ha : Canon2 a) :
    Canon2 a.a_mul_u ∧ dec2 a.a_mul_u = dec2 a * u := (F.o2_a_mul_u (ok2_dec ha)).out
/-- (3 + 5u)u = −10 + 3u -/
example : A2.a_mul_u = ⟨m (p - 10), m 3⟩ := by decide +kernel

/-- `fp_mul_u`: a·b·u -/
theorem fp2_mul_u_correct (F : FpFacts) (a b : Fp2) (ha : Canon2 a) (hb : Canon2 b) :
    Canon2 (a.fp_mul_u b) ∧ dec2 (a.fp_mul_u b) = dec2 a * dec2 b * u := (F.o2_mul_u (ok2_dec ha) (ok2_dec hb)).out
example : A2.fp_mul_u B2 = ⟨m (p - 136), m (p - 89)⟩ ∧ A2.fp_mul_u B2 = (A2.fp_mul B2).a_mul_u := by decide +kernel

/-- `sqr_u`: a²·u -/
theorem fp2_sqr_u_correct (F : FpFacts) (a : Fp2) (ha : Canon2 a) :
    Canon2 a.sqr_u ∧ dec2 a.sqr_u = dec2 a * dec2 a * u := (F.o2_sqr_u (ok2_dec ha)).out
example : A2.sqr_u = ⟨m (p - 60), m (p - 41)⟩ := by decide +kernel

/-- `fp_mul_fp`: multiplication by a base-field element -/
theorem fp2_mul_fp_correct (F : FpFacts) (a : Fp2) (k : Nat) (ha : Canon2 a) (hk : k < p) :
    Canon2 (a.fp_mul_fp k) ∧ dec2 (a.fp_mul_fp k) = dec2 a * Quad.of (dec k) := (F.o2_mul_fp (ok2_dec ha) (ok_dec hk)).out
example : A2.fp_mul_fp (m 4) = ⟨m 12, m 20⟩ := by decide +kernel

/-- `fp_inv`: covers the c0 = 0 branch, the c1 = 0 branch and the general branch -/
theorem fp2_inv_correct (F : FpFacts) (hnr : ∀ x : ZMod p, x ^ 2 ≠ -2) (a : Fp2) (ha : Canon2 a) (hne : dec2 a ≠ 0) :
    Canon2 a.fp_inv ∧ dec2 a * dec2 a.fp_inv = 1 := out_inv2 (F.o2_inv hnr (ok2_dec ha) hne)
/-- one sample per branch -/
example : (⟨0, m 5⟩ : Fp2).fp_mul (⟨0, m 5⟩ : Fp2).fp_inv = Fp2.one
    ∧ (⟨m 3, 0⟩ : Fp2).fp_mul (⟨m 3, 0⟩ : Fp2).fp_inv = Fp2.one ∧ A2.fp_mul A2.fp_inv = Fp2.one := by decide +kernel

theorem fp2_inv_correct' (F : FpFacts) (a : Fp2) (ha : Canon2 a) (hne : dec2 a ≠ 0) :
    Canon2 a.fp_inv ∧ dec2 a * dec2 a.fp_inv = 1 := out_inv2 (F.o2_inv tower_nonresidues.1 (ok2_dec ha) hne)
example : B2.fp_mul B2.fp_inv = Fp2.one := by decide +kernel

/-- `div`: (a / b)·b = a -/
theorem fp2_div_correct (F : FpFacts) (hnr : ∀ x : ZMod p, x ^ 2 ≠ -2) (a b : Fp2) (ha : Canon2 a) (hb : Canon2 b)
    (hne : dec2 b ≠ 0) : Canon2 (a.div b) ∧ dec2 (a.div b) * dec2 b = dec2 a := by
  obtain ⟨z, hz, e⟩ := F.o2_div hnr (ok2_dec ha) (ok2_dec hb) hne
  exact ⟨hz.out.1, by rw [hz.out.2]; exact e⟩
example : (A2.div B2).fp_mul B2 = A2 := by decide +kernel

/-! ## Fp4 -/

theorem fp4_zero_one : Canon4 Fp4.zero ∧ dec4 Fp4.zero = 0 ∧ Canon4 Fp4.one ∧ dec4 Fp4.one = 1
    ∧ Fp4.mont_one = Fp4.one := ⟨ok4_zero.out.1, ok4_zero.out.2, ok4_one.out.1, ok4_one.out.2, rfl⟩
example : Fp4.one = ⟨⟨m 1, 0⟩, ⟨0, 0⟩⟩ := by decide +kernel

theorem fp4_is_zero_correct (a : Fp4) (ha : Canon4 a) : a.is_zero = true ↔ dec4 a = 0 := (ok4_dec ha).is_zero_iff
example : Fp4.zero.is_zero = true ∧ A4.is_zero = false ∧ (⟨Fp2.zero, ⟨0, m 1⟩⟩ : Fp4).is_zero = false := by
  decide +kernel
theorem fp4_eq_correct (a b : Fp4) (ha : Canon4 a) (hb : Canon4 b) : a.eq b = true ↔ dec4 a = dec4 b :=
  (ok4_dec ha).eq_iff (ok4_dec hb)
example : A4.eq A4 = true ∧ A4.eq B4 = false := by decide +kernel

theorem fp4_mul_correct (F : FpFacts) (a b : Fp4) (ha : Canon4 a) (hb : Canon4 b) :
    Canon4 (a.fp_mul b) ∧ dec4 (a.fp_mul b) = dec4 a * dec4 b := (F.o4_mul (ok4_dec ha) (ok4_dec hb)).out
example : A4.fp_mul B4 = ⟨⟨m (p - 218), m (p - 157)⟩, ⟨m (p - 86), m 76⟩⟩ := by decide +kernel

theorem fp4_add_correct (F : FpFacts) (a b : Fp4) (ha : Canon4 a) (hb : Canon4 b) :
    Canon4 (a.fp_add b) ∧ dec4 (a.fp_add b) = dec4 a + dec4 b := (F.o4_add (ok4_dec ha) (ok4_dec hb)).out
theorem fp4_sub_correct (F : FpFacts) (a b : Fp4) (ha : Canon4 a) (hb : Canon4 b) :
    Canon4 (a.fp_sub b) ∧ dec4 (a.fp_sub b) = dec4 a - dec4 b := (F.o4_sub (ok4_dec ha) (ok4_dec hb)).out
example : A4.fp_add B4 = ⟨⟨m 5, m 6⟩, ⟨m 11, m 20⟩⟩ ∧ B4.fp_sub A4 = ⟨⟨m (p - 1), m (p - 4)⟩, ⟨m (p - 3), m (p - 2)⟩⟩ := by
  decide +kernel

theorem fp4_sqr_correct (F : FpFacts) (a : Fp4) (ha : Canon4 a) :
    Canon4 a.fp_sqr ∧ dec4 a.fp_sqr = dec4 a * dec4 a := (F.o4_sqr (ok4_dec ha)).out
example : A4.fp_sqr = ⟨⟨m (p - 349), m (p - 163)⟩, ⟨m (p - 178), m 136⟩⟩ ∧ A4.fp_sqr = A4.fp_mul A4 := by decide +kernel

theorem fp4_neg_correct (F : FpFacts) (a : Fp4) (ha : Canon4 a) :
    Canon4 a.fp_neg ∧ dec4 a.fp_neg = -dec4 a := (F.o4_neg (ok4_dec ha)).out
theorem fp4_double_correct (F : FpFacts) (a : Fp4) (ha : Canon4 a) :
    Canon4 a.fp_double ∧ dec4 a.fp_double = dec4 a + dec4 a := (F.o4_double (ok4_dec ha)).out
theorem fp4_triple_correct (F : FpFacts) (a : Fp4) (ha : Canon4 a) :
    Canon4 a.fp_triple ∧ dec4 a.fp_triple = dec4 a + dec4 a + dec4 a := (F.o4_triple (ok4_dec ha)).out
example : A4.fp_neg.fp_add A4 = Fp4.zero ∧ A4.fp_double = A4.fp_add A4 ∧ A4.fp_triple = (A4.fp_add A4).fp_add A4
    ∧ B4.fp_triple = ⟨⟨m 6, m 3⟩, ⟨m 12, m 27⟩⟩ := by decide +kernel

/-- `fp_div2`: 2·r = a -/
theorem fp4_div2_correct (F : FpFacts) (a : Fp4) (ha : Canon4 a) :
    Canon4 a.fp_div2 ∧ 2 * dec4 a.fp_div2 = dec4 a := (F.o4_div2 (ok4_dec ha)).out_div2
example : A4.fp_div2.fp_double = A4 := by decide +kernel

theorem fp4_conjugate_correct (F : FpFacts) (a : Fp4) (ha : Canon4 a) :
    Canon4 a.conjugate ∧ dec4 a.conjugate = (dec4 a).conj := (F.o4_conj (ok4_dec ha)).out
example : A4.conjugate = ⟨A2, ⟨m (p - 7), m (p - 11)⟩⟩ := by decide +kernel

/-- `fp_mul_v`: a·b·v -/
theorem fp4_mul_v_correct (F : FpFacts) (a b : Fp4) (ha : Canon4 a) (hb : Canon4 b) :
    Canon4 (a.fp_mul_v b) ∧ dec4 (a.fp_mul_v b) = dec4 a * dec4 b * v := (F.o4_mul_v (ok4_dec ha) (ok4_dec hb)).out
example : A4.fp_mul_v B4 = ⟨⟨m (p - 152), m (p - 86)⟩, ⟨m (p - 218), m (p - 157)⟩⟩
    ∧ A4.fp_mul_v B4 = (A4.fp_mul B4).a_mul_v := by decide +kernel

/-- `a_mul_v`: a·v -/
theorem fp4_a_mul_v_correct (F : FpFacts) (a : Fp4) (ha : Canon4 a) :
    Canon4 a.a_mul_v ∧ dec4 a.a_mul_v = dec4 a * v := (F.o4_a_mul_v (ok4_dec ha)).out
example : A4.a_mul_v = ⟨⟨m (p - 22), m 7⟩, ⟨m 3, m 5⟩⟩ := by decide +kernel

/-- `sqr_v`: a²·v -/
theorem fp4_sqr_v_correct (F : FpFacts) (a : Fp4) (ha : Canon4 a) :
    Canon4 a.sqr_v ∧ dec4 a.sqr_v = dec4 a * dec4 a * v := (F.o4_sqr_v (ok4_dec ha)).out
example : A4.sqr_v = ⟨⟨m (p - 272), m (p - 178)⟩, ⟨m (p - 349), m (p - 163)⟩⟩ := by decide +kernel

/-- `fp_mul_fp`: multiplication by a base-field element -/
theorem fp4_mul_fp_correct (F : FpFacts) (a : Fp4) (k : Nat) (ha : Canon4 a) (hk : k < p) :
    Canon4 (a.fp_mul_fp k) ∧ dec4 (a.fp_mul_fp k) = dec4 a * Quad.of (Quad.of (dec k)) :=
  (F.o4_mul_fp (ok4_dec ha) (ok_dec hk)).out
example : B4.fp_mul_fp (m 3) = ⟨⟨m 6, m 3⟩, ⟨m 12, m 27⟩⟩ := by decide +kernel

/-- `fp_mul_fp2`: multiplication by an Fp2 element -/
theorem fp4_mul_fp2_correct (F : FpFacts) (a : Fp4) (k : Fp2) (ha : Canon4 a) (hk : Canon2 k) :
    Canon4 (a.fp_mul_fp2 k) ∧ dec4 (a.fp_mul_fp2 k) = dec4 a * Quad.of (dec2 k) :=
  (F.o4_mul_fp2 (ok4_dec ha) (ok2_dec hk)).out
example : A4.fp_mul_fp2 B2 = A4.fp_mul ⟨B2, Fp2.zero⟩ ∧ A4.fp_mul_fp2 B2 = ⟨A2.fp_mul B2, B2.fp_mul B2⟩ := by
  decide +kernel

/-- `fp_inv`; `hnr2`: u is a non-square in Fp2 -/
theorem fp4_inv_correct (F : FpFacts) (hnr : ∀ x : ZMod p, x ^ 2 ≠ -2) (hnr2 : ∀ x : F2, x ^ 2 ≠ u) (a : Fp4)
    (ha : Canon4 a) (hne : dec4 a ≠ 0) : Canon4 a.fp_inv ∧ dec4 a * dec4 a.fp_inv = 1 :=
  out_inv4 (F.o4_inv hnr hnr2 (ok4_dec ha) hne)
example : A4.fp_mul A4.fp_inv = Fp4.one ∧ (⟨A2, Fp2.zero⟩ : Fp4).fp_mul (⟨A2, Fp2.zero⟩ : Fp4).fp_inv = Fp4.one
    ∧ (⟨Fp2.zero, A2⟩ : Fp4).fp_mul (⟨Fp2.zero, A2⟩ : Fp4).fp_inv = Fp4.one := by decide +kernel

theorem fp4_inv_correct' (F : FpFacts) (a : Fp4) (ha : Canon4 a) (hne : dec4 a ≠ 0) :
    Canon4 a.fp_inv ∧ dec4 a * dec4 a.fp_inv = 1 :=
  out_inv4 (F.o4_inv tower_nonresidues.1 tower_nonresidues.2.1 (ok4_dec ha) hne)
example : B4.fp_mul B4.fp_inv = Fp4.one := by decide +kernel

/-! ## Fp12 -/

theorem fp12_zero_one : Canon12 Fp12.zero ∧ dec12 Fp12.zero = 0 ∧ Canon12 Fp12.one ∧ dec12 Fp12.one = 1 :=
  ⟨ok12_zero.out.1, ok12_zero.out.2, ok12_one.out.1, ok12_one.out.2⟩
theorem fp12_is_zero_correct (a : Fp12) (ha : Canon12 a) : a.is_zero = true ↔ dec12 a = 0 := (ok12_dec ha).is_zero_iff
theorem fp12_eq_correct (a b : Fp12) (ha : Canon12 a) (hb : Canon12 b) : a.eq b = true ↔ dec12 a = dec12 b :=
  (ok12_dec ha).eq_iff (ok12_dec hb)
example : Fp12.zero.is_zero = true ∧ A12.is_zero = false ∧ A12.eq A12 = true ∧ A12.eq B12 = false
    ∧ Fp12.one.fp_mul A12 = A12 := by decide +kernel

theorem fp12_add_correct (F : FpFacts) (a b : Fp12) (ha : Canon12 a) (hb : Canon12 b) :
    Canon12 (a.fp_add b) ∧ dec12 (a.fp_add b) = dec12 a + dec12 b := (F.o12_add (ok12_dec ha) (ok12_dec hb)).out
theorem fp12_sub_correct (F : FpFacts) (a b : Fp12) (ha : Canon12 a) (hb : Canon12 b) :
    Canon12 (a.fp_sub b) ∧ dec12 (a.fp_sub b) = dec12 a - dec12 b := (F.o12_sub (ok12_dec ha) (ok12_dec hb)).out
example : (A12.fp_add B12).fp_sub B12 = A12 ∧ (A12.fp_sub B12).c2 = ⟨⟨m (p - 2), m (p - 3)⟩, ⟨m (p - 4), m (p - 7)⟩⟩ := by
  decide +kernel

theorem fp12_mul_correct (F : FpFacts) (a b : Fp12) (ha : Canon12 a) (hb : Canon12 b) :
    Canon12 (a.fp_mul b) ∧ dec12 (a.fp_mul b) = dec12 a * dec12 b := (F.o12_mul (ok12_dec ha) (ok12_dec hb)).out
example : A12.fp_mul B12 =
  ⟨⟨⟨m (p - 490), m (p - 301)⟩, ⟨m (p - 427), m (p - 108)⟩⟩,
   ⟨⟨m (p - 557), m (p - 294)⟩, ⟨m (p - 315), m 144⟩⟩,
   ⟨⟨m (p - 629), m (p - 317)⟩, ⟨m (p - 302), m 256⟩⟩⟩ := by decide +kernel

theorem fp12_sqr_correct (F : FpFacts) (a : Fp12) (ha : Canon12 a) :
    Canon12 a.fp_sqr ∧ dec12 a.fp_sqr = dec12 a * dec12 a := (F.o12_sqr (ok12_dec ha)).out
example : A12.fp_sqr =
  ⟨⟨⟨m (p - 461), m (p - 231)⟩, ⟨m (p - 354), m 26⟩⟩,
   ⟨⟨m (p - 476), m (p - 340)⟩, ⟨m (p - 227), m 133⟩⟩,
   ⟨⟨m (p - 420), m (p - 254)⟩, ⟨m (p - 156), m 148⟩⟩⟩ ∧ A12.fp_sqr = A12.fp_mul A12 := by decide +kernel

theorem fp12_neg_correct (F : FpFacts) (a : Fp12) (ha : Canon12 a) :
    Canon12 a.fp_neg ∧ dec12 a.fp_neg = -dec12 a := (F.o12_neg (ok12_dec ha)).out
theorem fp12_double_correct (F : FpFacts) (a : Fp12) (ha : Canon12 a) :
    Canon12 a.fp_double ∧ dec12 a.fp_double = dec12 a + dec12 a := (F.o12_double (ok12_dec ha)).out
theorem fp12_triple_correct (F : FpFacts) (a : Fp12) (ha : Canon12 a) :
    Canon12 a.fp_triple ∧ dec12 a.fp_triple = dec12 a + dec12 a + dec12 a := (F.o12_triple (ok12_dec ha)).out
example : A12.fp_neg.fp_add A12 = Fp12.zero ∧ A12.fp_double = A12.fp_add A12
    ∧ A12.fp_triple = (A12.fp_add A12).fp_add A12 := by decide +kernel

/-- `fp_div2`: 2·r = a -/
theorem fp12_div2_correct (F : FpFacts) (a : Fp12) (ha : Canon12 a) :
    Canon12 a.fp_div2 ∧ 2 * dec12 a.fp_div2 = dec12 a := (F.o12_div2 (ok12_dec ha)).out_div2
example : A12.fp_div2.fp_double = A12 := by decide +kernel

/-- `fp_line_mul(self, lw)` multiplies by the sparse element  lw[0] + lw[1]·w² + lw[2]·w³
(coefficient vector ((lw[0] + lw[2]·v), 0, lw[1]) over Fp4) -/
theorem fp12_line_mul_correct (F : FpFacts) (a : Fp12) (lw : Line) (ha : Canon12 a) (h0 : Canon2 lw.l0)
    (h1 : Canon2 lw.l1) (h2 : Canon2 lw.l2) :
    Canon12 (a.fp_line_mul lw) ∧
    dec12 (a.fp_line_mul lw) = dec12 a * (Cubic.of (Quad.of (dec2 lw.l0)) + Cubic.of (Quad.of (dec2 lw.l1)) * (w * w)
      + Cubic.of (Quad.of (dec2 lw.l2)) * (w * w * w)) := by
  have h := (F.o12_line_mul (ok12_dec ha) (ok2_dec h0) (ok2_dec h1) (ok2_dec h2)).out
  rw [lineElt_eq] at h
  exact h
/-- the sparse element as a coefficient vector -/
theorem fp12_line_elt (l0 l1 l2 : F2) :
    Cubic.of (Quad.of l0) + Cubic.of (Quad.of l1) * (w * w) + Cubic.of (Quad.of l2) * (w * w * w)
      = (⟨⟨l0, l2⟩, 0, ⟨l1, 0⟩⟩ : F12) := (lineElt_eq l0 l1 l2).symm
/-- lw = (2 + 3u, 5 + 7u, 11 + 13u) -/
example : A12.fp_line_mul ⟨⟨m 2, m 3⟩, ⟨m 5, m 7⟩, ⟨m 11, m 13⟩⟩ =
  ⟨⟨⟨m (p - 594), m (p - 296)⟩, ⟨m (p - 153), m 156⟩⟩,
   ⟨⟨m (p - 386), m (p - 223)⟩, ⟨m (p - 73), m 84⟩⟩,
   ⟨⟨m (p - 231), m (p - 18)⟩, ⟨m (p - 178), m 156⟩⟩⟩
  ∧ A12.fp_line_mul ⟨⟨m 2, m 3⟩, ⟨m 5, m 7⟩, ⟨m 11, m 13⟩⟩
    = A12.fp_mul ⟨⟨⟨m 2, m 3⟩, ⟨m 11, m 13⟩⟩, Fp4.zero, ⟨⟨m 5, m 7⟩, Fp2.zero⟩⟩ := by decide +kernel

/-- `fp_inv` in BOTH branches (c2 = 0 and c2 ≠ 0); `hnc`: v is a non-cube in Fp4 -/
theorem fp12_inv_correct (F : FpFacts) (hnr : ∀ x : ZMod p, x ^ 2 ≠ -2) (hnr2 : ∀ x : F2, x ^ 2 ≠ u)
    (hnc : ∀ x : F4, x ^ 3 ≠ v) (a : Fp12) (ha : Canon12 a) (hne : dec12 a ≠ 0) :
    Canon12 a.fp_inv ∧ dec12 a * dec12 a.fp_inv = 1 := out_inv12 (F.o12_inv hnr hnr2 hnc (ok12_dec ha) hne)
/-- one sample per branch (C12 has c2 = 0), and a sample with c1 = c2 = 0 -/
example : A12.c2.is_zero = false ∧ A12.fp_mul A12.fp_inv = Fp12.one
    ∧ C12.c2.is_zero = true ∧ C12.fp_mul C12.fp_inv = Fp12.one
    ∧ (⟨A4, Fp4.zero, Fp4.zero⟩ : Fp12).fp_mul (⟨A4, Fp4.zero, Fp4.zero⟩ : Fp12).fp_inv = Fp12.one := by decide +kernel

theorem fp12_inv_correct' (F : FpFacts) (a : Fp12) (ha : Canon12 a) (hne : dec12 a ≠ 0) :
    Canon12 a.fp_inv ∧ dec12 a * dec12 a.fp_inv = 1 :=
  out_inv12 (F.o12_inv tower_nonresidues.1 tower_nonresidues.2.1 tower_nonresidues.2.2 (ok12_dec ha) hne)
example : B12.fp_mul B12.fp_inv = Fp12.one := by decide +kernel

/-- `pow`: for e ≤ N − 1 the result is a^e; above, the `assert!` panics -/
theorem fp12_pow_correct (F : FpFacts) (a : Fp12) (e : Nat) (ha : Canon12 a) (he : e ≤ Spec.SM9.N - 1) :
    ∃ r, a.pow e = .ok r ∧ Canon12 r ∧ dec12 r = dec12 a ^ e := F.pow_correct ha he
theorem fp12_pow_panic (a : Fp12) (e : Nat) (he : Spec.SM9.N - 1 < e) : a.pow e = .panic := pow_panic he
example : A12.pow 5 = .ok ((((A12.fp_mul A12).fp_mul A12).fp_mul A12).fp_mul A12) ∧ A12.pow 0 = .ok Fp12.one
    ∧ (A12.pow (Spec.SM9.N - 1)).isOk = true ∧ A12.pow Spec.SM9.N = .panic ∧ A12.pow (2 ^ 256) = .panic := by
  decide +kernel

/-- `to_bytes_be` writes the 12 canonical coefficients (out of Montgomery form, 32 big-endian bytes each) in the order
c2‖c1‖c0 / c1‖c0 / c1‖c0 -/
theorem fp12_to_bytes (a : Fp12) :
    a.to_bytes_be =
      [a.c2.c1.c1, a.c2.c1.c0, a.c2.c0.c1, a.c2.c0.c0, a.c1.c1.c1, a.c1.c1.c0, a.c1.c0.c1, a.c1.c0.c0,
       a.c0.c1.c1, a.c0.c1.c0, a.c0.c0.c1, a.c0.c0.c0].flatMap fun c => natBE 32 (fp_from_mont c) :=
  to_bytes_explicit a
/-- each written value is the canonical representative of the decoded coefficient -/
theorem fp_from_mont_correct (F : FpFacts) (c : Nat) (hc : c < p) :
    fp_from_mont c < p ∧ ((fp_from_mont c : Nat) : ZMod p) = dec c := from_mont_correct F hc
/-- against the Spec: the octet string of the dense Fp12 element whose tower coefficients are the decoded ones -/
theorem fp12_to_bytes_spec (F : FpFacts) (a : Fp12) (ha : Canon12 a) :
    a.to_bytes_be = Spec.SM9.Fp12.toBytes (Spec.SM9.Fp12.ofTower (towerList a)) ∧
    towerList a = [a.c0.c0.c0, a.c0.c0.c1, a.c0.c1.c0, a.c0.c1.c1, a.c1.c0.c0, a.c1.c0.c1, a.c1.c1.c0, a.c1.c1.c1,
      a.c2.c0.c0, a.c2.c0.c1, a.c2.c1.c0, a.c2.c1.c1].map fp_from_mont := ⟨to_bytes_spec F ha, towerList_eq a⟩
/-- tower coefficients 1 … 12 are written as 12, 11, …, 1 -/
example : (⟨⟨⟨m 1, m 2⟩, ⟨m 3, m 4⟩⟩, ⟨⟨m 5, m 6⟩, ⟨m 7, m 8⟩⟩, ⟨⟨m 9, m 10⟩, ⟨m 11, m 12⟩⟩⟩ : Fp12).to_bytes_be
      = [12, 11, 10, 9, 8, 7, 6, 5, 4, 3, 2, 1].flatMap (fun k => natBE 32 k)
    ∧ Fp12.one.to_bytes_be = List.replicate 383 0 ++ [1]
    ∧ A12.to_bytes_be = Spec.SM9.Fp12.toBytes (Spec.SM9.Fp12.ofTower [3, 5, 7, 11, 2, 1, 4, 9, 1, 2, 3, 4]) := by
  decide +kernel

end GmVerif.Thm.C13b
