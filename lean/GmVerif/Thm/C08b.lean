/-
C08b: consequences of the ZUC invariant for the model of gm-zuc.  Under the invariant of C08 (`Rel`: every cell is a
canonical residue in 1..2^31−1) the `if s16 == 0` patches of `lfsr_with_work_mode` / `lfsr_with_initialization_mode`
are dead code, so no state reachable from `ZUC::new` through any request history ever stores a 0 cell; and the
feedback cell is the standard's canonical representative — 2^31−1 exactly when the weighted sum is ≡ 0 (mod 2^31−1).
Only the property theorems; the work is in `GmVerif.Proofs.ZUCInv` (on top of `GmVerif.Proofs.ZUC`).
-/
import GmVerif.Proofs.ZUCInv
import GmVerif.Thm.C08
namespace GmVerif.Thm.C08b
open GmVerif
open GmVerif.Thm.C08 (Rel Inv)

/-- the generator after serving the requests `ns` one after the other -/
def stateAfter (z : Impl.ZUC.ZUC) (ns : List Nat) : Impl.ZUC.ZUC :=
  ns.foldl (fun z n => (Impl.ZUC.generate_keystream z n).2) z

/-- `z` is the state reached from `ZUC::new(k, iv)` by the requests `ns` -/
def Reachable (k iv : List UInt8) (ns : List Nat) (z : Impl.ZUC.ZUC) : Prop :=
  ∃ z0, Impl.ZUC.new k iv = .ok z0 ∧ stateAfter z0 ns = z

/-- `stateAfter` is the state `Impl.ZUC.requests` (the driver's request sequence) threads through -/
theorem requests_append (z : Impl.ZUC.ZUC) (ns ms : List Nat) :
    Impl.ZUC.requests z (ns ++ ms) = Impl.ZUC.requests z ns ++ Impl.ZUC.requests (stateAfter z ns) ms :=
  Proofs.ZUC.requests_append z ns ms

example (z : Impl.ZUC.ZUC) : Impl.ZUC.requests z ([0, 1] ++ [2])
    = Impl.ZUC.requests z [0, 1] ++ Impl.ZUC.requests (stateAfter z [0, 1]) [2] := requests_append z _ _

/-- every reachable state is related to a spec state (so every lemma of C08 applies to it) -/
theorem reachable_rel (k iv : List UInt8) (hk : k.length = 16) (hiv : iv.length = 16) (ns : List Nat) :
    ∀ z, Reachable k iv ns z → ∃ st, Rel z st := by
  rintro z ⟨z0, hz0, rfl⟩
  obtain ⟨z1, hz1, hrel⟩ := Proofs.ZUC.new_refines k iv hk hiv
  rw [hz0] at hz1; cases hz1
  exact Proofs.ZUC.stateAfter_rel z0 _ hrel ns

/-- reachable states exist for every 16-byte key/iv and every history (the hypothesis below is satisfiable) -/
theorem reachable_exists (k iv : List UInt8) (hk : k.length = 16) (hiv : iv.length = 16) (ns : List Nat) :
    ∃ z, Reachable k iv ns z :=
  let ⟨z0, h0, _⟩ := Proofs.ZUC.new_refines k iv hk hiv
  ⟨_, z0, h0, rfl⟩

example : ∃ z, Reachable (List.replicate 16 0) (List.replicate 16 0) [0, 1, 0, 2] z :=
  reachable_exists _ _ rfl rfl _

/-- THE PROPERTY: no reachable state holds a 0 cell (every cell is in 1..2^31−1), whatever the request history -/
theorem cells_never_zero (k iv : List UInt8) (hk : k.length = 16) (hiv : iv.length = 16) (ns : List Nat) :
    ∀ z, Reachable k iv ns z → ∀ c ∈ z.s, 1 ≤ c.toNat ∧ c.toNat ≤ 2 ^ 31 - 1 :=
  fun z hz => (Proofs.ZUC.cells_never_zero k iv hk hiv ns z hz).2

/-- … and it has 16 cells -/
theorem cells_length (k iv : List UInt8) (hk : k.length = 16) (hiv : iv.length = 16) (ns : List Nat) :
    ∀ z, Reachable k iv ns z → z.s.length = 16 :=
  fun z hz => (Proofs.ZUC.cells_never_zero k iv hk hiv ns z hz).1

example : ∃ z, Reachable (List.replicate 16 0xff) (List.replicate 16 0xff) [3, 0, 2] z ∧ z.s.length = 16
    ∧ ∀ c ∈ z.s, 1 ≤ c.toNat ∧ c.toNat ≤ 2 ^ 31 - 1 :=
  let ⟨z, hz⟩ := reachable_exists (List.replicate 16 0xff) (List.replicate 16 0xff) rfl rfl [3, 0, 2]
  ⟨z, hz, cells_length _ _ rfl rfl _ z hz, cells_never_zero _ _ rfl rfl _ z hz⟩

/-- the statement is not trivially true of arbitrary generator states: a state with a 0 cell exists, it is just
not reachable -/
example : ¬ ∀ c ∈ (⟨List.replicate 16 0, 0, 0, (0, 0, 0, 0)⟩ : Impl.ZUC.ZUC).s, 1 ≤ c.toNat ∧ c.toNat ≤ 2 ^ 31 - 1 := by
  decide

/-! ### the `if s16 == 0` patches are dead under the invariant -/

/-- the feedback word of `lfsr_with_work_mode` before the patch -/
def rawWork (z : Impl.ZUC.ZUC) : UInt32 :=
  Impl.ZUC.add31 (Impl.ZUC.add31 (Impl.ZUC.add31 (Impl.ZUC.add31 (Impl.ZUC.add31 (Impl.ZUC.sg z 0)
      (Impl.ZUC.rot31 (Impl.ZUC.sg z 0) 8)) (Impl.ZUC.rot31 (Impl.ZUC.sg z 4) 20))
      (Impl.ZUC.rot31 (Impl.ZUC.sg z 10) 21)) (Impl.ZUC.rot31 (Impl.ZUC.sg z 13) 17))
      (Impl.ZUC.rot31 (Impl.ZUC.sg z 15) 15)

/-- what the code does, with the patch made explicit (by unfolding, no hypothesis) -/
theorem work_mode_eq (z : Impl.ZUC.ZUC) :
    Impl.ZUC.lfsr_with_work_mode z
      = { z with s := z.s.drop 1 ++ [if rawWork z = 0 then 2147483647 else rawWork z] } := rfl
theorem init_mode_eq (z : Impl.ZUC.ZUC) (u : UInt32) :
    Impl.ZUC.lfsr_with_initialization_mode z u
      = { z with s := z.s.drop 1 ++
          [if Impl.ZUC.add31 (rawWork z) u = 0 then 2147483647 else Impl.ZUC.add31 (rawWork z) u] } := rfl

theorem work_patch_dead (z : Impl.ZUC.ZUC) (st : Spec.ZUC.State) (h : Rel z st) :
    rawWork z ≠ 0 ∧ Impl.ZUC.lfsr_with_work_mode z = { z with s := z.s.drop 1 ++ [rawWork z] } :=
  Proofs.ZUC.work_patch_dead z st h

theorem init_patch_dead (z : Impl.ZUC.ZUC) (st : Spec.ZUC.State) (h : Rel z st) (u : UInt32)
    (hu : u.toNat < 2 ^ 31) :
    Impl.ZUC.add31 (rawWork z) u ≠ 0
      ∧ Impl.ZUC.lfsr_with_initialization_mode z u
          = { z with s := z.s.drop 1 ++ [Impl.ZUC.add31 (rawWork z) u] } :=
  Proofs.ZUC.init_patch_dead z st h u hu

/-- the boundary state (all cells 2^31−1 ≡ 0) satisfies the invariant … -/
def zMax : Impl.ZUC.ZUC := ⟨List.replicate 16 0x7FFFFFFF, 0, 0, (0, 0, 0, 0)⟩
def stMax : Spec.ZUC.State := ⟨List.replicate 16 (2 ^ 31 - 1), 0, 0⟩
theorem relMax : Rel zMax stMax := by
  refine ⟨by decide, rfl, rfl, ?_⟩
  unfold Thm.C08.Inv; decide
/-- … and even there the raw feedback word is not 0 (it is 2^31−1), in both modes -/
example : rawWork zMax ≠ 0 := (work_patch_dead zMax stMax relMax).1
example : rawWork zMax = 0x7FFFFFFF ∧ Impl.ZUC.add31 (rawWork zMax) 0x7FFFFFFF = 0x7FFFFFFF := by decide
example : Impl.ZUC.add31 (rawWork zMax) 0x7FFFFFFF ≠ 0 := (init_patch_dead zMax stMax relMax _ (by decide)).1
/-- without the invariant the patch is live: on the all-zero state the raw word is 0 and the patch stores 2^31−1 -/
example : rawWork ⟨List.replicate 16 0, 0, 0, (0, 0, 0, 0)⟩ = 0
    ∧ (Impl.ZUC.lfsr_with_work_mode ⟨List.replicate 16 0, 0, 0, (0, 0, 0, 0)⟩).s.getD 15 0 = 0x7FFFFFFF := by decide

/-! ### the feedback cell is the canonical residue -/

/-- the weighted sum of §3.2 over the model's cells -/
def weightedSum (z : Impl.ZUC.ZUC) : Nat :=
  2 ^ 15 * (Impl.ZUC.sg z 15).toNat + 2 ^ 17 * (Impl.ZUC.sg z 13).toNat + 2 ^ 21 * (Impl.ZUC.sg z 10).toNat
    + 2 ^ 20 * (Impl.ZUC.sg z 4).toNat + (1 + 2 ^ 8) * (Impl.ZUC.sg z 0).toNat

/-- in `lfsr_with_work_mode`, under `Rel z st`, the new cell is `Spec.ZUC.lfsrNext st.s 0`: it is 2^31−1 exactly when
the weighted sum is ≡ 0 (mod 2^31−1) — never 0 — and the residue itself otherwise -/
theorem lfsr_feedback_canonical (z : Impl.ZUC.ZUC) (st : Spec.ZUC.State) (h : Rel z st) :
    ∃ c : UInt32, (Impl.ZUC.lfsr_with_work_mode z).s = z.s.drop 1 ++ [c]
      ∧ c.toNat = Spec.ZUC.lfsrNext st.s 0
      ∧ (c.toNat = 2 ^ 31 - 1 ↔ weightedSum z % (2 ^ 31 - 1) = 0)
      ∧ (c.toNat ≠ 2 ^ 31 - 1 → c.toNat = weightedSum z % (2 ^ 31 - 1)) :=
  Proofs.ZUC.lfsr_feedback_canonical z st h

/-- the case a seeded change broke: the weighted sum ≡ 0, the stored cell is 2^31−1 -/
example : weightedSum zMax % (2 ^ 31 - 1) = 0
    ∧ (Impl.ZUC.lfsr_with_work_mode zMax).s = zMax.s.drop 1 ++ [0x7FFFFFFF] := by decide
example : ∃ c : UInt32, (Impl.ZUC.lfsr_with_work_mode zMax).s = zMax.s.drop 1 ++ [c] ∧ c.toNat = 2 ^ 31 - 1 :=
  let ⟨c, h1, _, h3, _⟩ := lfsr_feedback_canonical zMax stMax relMax
  ⟨c, h1, h3.2 (by decide)⟩
/-- and a state whose sum is not ≡ 0: all cells 1, the sum is 2^15+2^17+2^21+2^20+1+2^8 -/
def zOne : Impl.ZUC.ZUC := ⟨List.replicate 16 1, 0, 0, (0, 0, 0, 0)⟩
theorem relOne : Rel zOne ⟨List.replicate 16 1, 0, 0⟩ := by
  refine ⟨by decide, rfl, rfl, ?_⟩
  unfold Thm.C08.Inv; decide
example : ∃ c : UInt32, (Impl.ZUC.lfsr_with_work_mode zOne).s = zOne.s.drop 1 ++ [c]
    ∧ c.toNat = 2 ^ 15 + 2 ^ 17 + 2 ^ 21 + 2 ^ 20 + 1 + 2 ^ 8 :=
  let ⟨c, h1, _, h3, h4⟩ := lfsr_feedback_canonical zOne _ relOne
  have e : weightedSum zOne % (2 ^ 31 - 1) = 2 ^ 15 + 2 ^ 17 + 2 ^ 21 + 2 ^ 20 + 1 + 2 ^ 8 := by decide
  have hc : c.toNat ≠ 2 ^ 31 - 1 := fun hc => by have := h3.1 hc; omega
  ⟨c, h1, by rw [h4 hc, e]⟩

end GmVerif.Thm.C08b
