/-
C20b: the SM9 entry points of gm-sm9 that take untrusted bytes never panic in the model, and the exact panic condition
of every helper that can (slice indexing, `assert!`), so that each caller's guard can be checked against it.
Only the property theorems; all work is in `GmVerif.Proofs.SM9Logic` (and C09, C10 for the two re-exports).
-/
import GmVerif.Thm.C09
import GmVerif.Thm.C10

namespace GmVerif.Thm.C20b
open GmVerif GmVerif.Impl.SM9

/-- `Sm9EncKey::decrypt` on arbitrary bytes (re-export of C10) -/
theorem decrypt_total (key : Sm9EncKey) (idb data : List UInt8) : key.decrypt idb data ≠ .panic :=
  Thm.C10.decrypt_total key idb data

example (key : Sm9EncKey) : key.decrypt [0xff] (List.replicate 400 0xff) ≠ .panic := decrypt_total _ _ _

/-- `Sm9SignMasterKey::verify_sign` on arbitrary id, message, h (any 256-bit value and beyond) and S
(re-export of C09) -/
theorem verify_total (m : Sm9SignMasterKey) (id data : List UInt8) (h : Nat) (s : Point) :
    m.verify_sign id data h s ≠ .panic :=
  Thm.C09.verify_total m id data h s

example (m : Sm9SignMasterKey) : m.verify_sign [] [] 0 ⟨0, 0, 0⟩ ≠ .panic := verify_total _ _ _ _ _

/-- `mod_n_from_hash(ha)` returns a 256-bit value for EVERY input length (the fixed code: fewer than 40 bytes used to panic) -/
theorem mod_n_from_hash_total (ha : List UInt8) : ∃ r, mod_n_from_hash ha = .ok r ∧ r < 2 ^ 256 :=
  Proofs.SM9Logic.mod_n_from_hash_total ha

theorem mod_n_from_hash_not_panic (ha : List UInt8) : mod_n_from_hash ha ≠ .panic :=
  Proofs.SM9Logic.mod_n_from_hash_not_panic ha

example : mod_n_from_hash (List.replicate 39 0) ≠ .panic := mod_n_from_hash_not_panic _
example : mod_n_from_hash [] ≠ .panic := mod_n_from_hash_not_panic _

/-- (kept for callers) at least 40 bytes: a 256-bit value; it never returns an error -/
theorem mod_n_from_hash_ok (ha : List UInt8) (h : 40 ≤ ha.length) : ∃ r, mod_n_from_hash ha = .ok r ∧ r < 2 ^ 256 :=
  Proofs.SM9Logic.mod_n_from_hash_ok ha h

example : ∃ r, mod_n_from_hash (List.replicate 64 0xff) = .ok r ∧ r < 2 ^ 256 := mod_n_from_hash_ok _ (by decide)

theorem mod_n_from_hash_not_err (ha : List UInt8) (e : String) : mod_n_from_hash ha ≠ .err e :=
  Proofs.SM9Logic.mod_n_from_hash_not_err ha e

/-- H1 and H2 always hash 64 bytes: they never panic (and never fail) -/
theorem hash1_total (id : List UInt8) (hid : UInt8) : ∃ r, sm9_u256_hash1 id hid = .ok r ∧ r < 2 ^ 256 :=
  Proofs.SM9Logic.hash1_ok id hid

theorem hash2_total (data wbuf : List UInt8) : ∃ r, sm9_u256_hash2 data wbuf = .ok r ∧ r < 2 ^ 256 :=
  Proofs.SM9Logic.hash2_ok data wbuf

theorem hash1_no_panic (id : List UInt8) (hid : UInt8) : sm9_u256_hash1 id hid ≠ .panic := by
  obtain ⟨r, h, _⟩ := hash1_total id hid; rw [h]; intro hc; cases hc

theorem hash2_no_panic (data wbuf : List UInt8) : sm9_u256_hash2 data wbuf ≠ .panic := by
  obtain ⟨r, h, _⟩ := hash2_total data wbuf; rw [h]; intro hc; cases hc

example : sm9_u256_hash1 [] 0 ≠ .panic ∧ sm9_u256_hash2 [] [] ≠ .panic := ⟨hash1_no_panic _ _, hash2_no_panic _ _⟩

/-- `kdf` is total: the model is a plain function (no panic or error outcome exists), and for EVERY `klen` — 0 and
values beyond 2^32 blocks included — it returns this many bytes (the `u32` counter cannot overflow because the block
count saturates at 2^32 − 1) -/
theorem kdf_total (z : List UInt8) (klen : Nat) :
    ∃ out, kdf z klen = out ∧
      out.length = 32 * (min ((klen + 31) / 32) (2 ^ 32 - 1) - 1) + (if klen % 32 = 0 then 32 else klen % 32) :=
  ⟨_, rfl, Proofs.SM9Logic.kdf_length_gen z klen⟩

example : (kdf [] 0).length = 32 := Proofs.SM9Logic.kdf_length_zero []

/-- never more than requested -/
theorem kdf_length_le (z : List UInt8) (klen : Nat) (h : 1 ≤ klen) : (kdf z klen).length ≤ klen :=
  Proofs.SM9Logic.kdf_length_le z klen h

example : (kdf [] 5).length ≤ 5 := kdf_length_le _ _ (by decide)

/-- `Point::from_bytes(b)` panics iff fewer than 65 bytes are given (its callers check: `decrypt` only calls it after
the length window test, see `decrypt_total`); it never returns an error — no range or curve check -/
theorem from_bytes_panic_iff (b : List UInt8) : Point.from_bytes b = .panic ↔ b.length < 65 :=
  Proofs.SM9Logic.from_bytes_panic_iff b

example : Point.from_bytes (List.replicate 64 0) = .panic := (from_bytes_panic_iff _).2 (by decide +kernel)
example : Point.from_bytes (List.replicate 65 0) ≠ .panic :=
  fun h => absurd ((from_bytes_panic_iff _).1 h) (by decide +kernel)

theorem from_bytes_not_err (b : List UInt8) (e : String) : Point.from_bytes b ≠ .err e :=
  Proofs.SM9Logic.from_bytes_not_err b e

/-- `u256_from_be_bytes` panics iff fewer than 32 bytes are given -/
theorem u256_from_be_bytes_panic_iff (b : List UInt8) : u256_from_be_bytes b = .panic ↔ b.length < 32 :=
  Proofs.SM9Logic.u256_from_be_bytes_panic_iff b

example : u256_from_be_bytes (List.replicate 31 0) = .panic := (u256_from_be_bytes_panic_iff _).2 (by decide)

/-- `Fp12::pow(e)` panics iff e > N − 1 (its `assert!`) -/
theorem pow_panic_iff (a : Fp12) (e : Nat) : a.pow e = .panic ↔ Gen.SM9.N_MINUS_ONE < e :=
  Proofs.SM9Logic.pow_panic_iff a e

example (a : Fp12) : a.pow Gen.SM9.N = .panic := (pow_panic_iff a _).2 (by decide)
example (a : Fp12) : a.pow Gen.SM9.N_MINUS_ONE ≠ .panic := fun h => absurd ((pow_panic_iff a _).1 h) (by decide)

/-- `sm9_mac(k2, z)` panics iff |k2| < 32; `xor(k, data, len)` iff a slice is shorter than `len` -/
theorem mac_panic_iff (k2 z : List UInt8) : sm9_mac k2 z = .panic ↔ k2.length < 32 :=
  Proofs.SM9Logic.mac_panic_iff k2 z

theorem xor_panic_iff (k data : List UInt8) (len : Nat) :
    Impl.SM9.xor k data len = .panic ↔ k.length < len ∨ data.length < len :=
  Proofs.SM9Logic.xor_panic_iff k data len

example : Impl.SM9.xor [1] [1, 2] 2 = .panic := (xor_panic_iff _ _ _).2 (Or.inl (by decide))
example : sm9_mac [] [] = .panic := (mac_panic_iff _ _).2 (by decide)

end GmVerif.Thm.C20b
