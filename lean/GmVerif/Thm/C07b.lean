/-
C07b: the mode objects of gm-sm4 are pure.  `Sm4CipherMode::{encrypt,decrypt}` take `&self` and the object holds only
the round keys, so in the model a call is a function of (mode, key, iv, data).  The history theorem the check's
`sm4modehist` op relies on: a list of (encrypt?/decrypt, iv, data) calls made one after the other on ONE object
(`Impl.SM4.new key` evaluated once, the object threaded through a fold) yields, at each position, exactly
`mode_encrypt` / `mode_decrypt` of that call alone.  Proofs in `GmVerif.Proofs.SM4Hist`.
-/
import GmVerif.Proofs.SM4Hist
import GmVerif.Thm.C07
namespace GmVerif.Thm.C07b
open GmVerif
open GmVerif.Proofs.SM4Hist (Op encWith decWith callWith callFresh runHistory threadObject runThreaded)
open GmVerif.Thm.C07 (exKey exIv)

/-- the constructor is evaluated once; the call is the per-mode function `encWith` of the round keys -/
theorem mode_encrypt_eq (mode : Impl.SM4.Mode) (key data iv : List UInt8) :
    Impl.SM4.mode_encrypt mode key data iv = (Impl.SM4.new key).bind (fun rk => encWith mode rk data iv) :=
  Proofs.SM4Hist.mode_encrypt_eq mode key data iv

theorem mode_decrypt_eq (mode : Impl.SM4.Mode) (key data iv : List UInt8) :
    Impl.SM4.mode_decrypt mode key data iv = (Impl.SM4.new key).bind (fun rk => decWith mode rk data iv) :=
  Proofs.SM4Hist.mode_decrypt_eq mode key data iv

example : Impl.SM4.mode_encrypt .ctr exKey [1, 2, 3] exIv
    = (Impl.SM4.new exKey).bind (fun rk => encWith .ctr rk [1, 2, 3] exIv) := mode_encrypt_eq _ _ _ _
example : (Impl.SM4.new exKey).isOk = true := by decide +kernel

/-- the threaded object is handed back unchanged by every call -/
theorem object_unchanged (mode : Impl.SM4.Mode) (rk : Array UInt32) (ops : List Op) :
    threadObject mode rk ops = (rk, ops.map (callWith mode rk)) :=
  Proofs.SM4Hist.threadObject_eq mode rk ops

example (rk : Array UInt32) : (threadObject .cbc rk [(true, exIv, [1]), (false, exIv, [2])]).1 = rk := by
  rw [object_unchanged]

/-- THE PROPERTY: the history run on one object equals every call evaluated alone -/
theorem mode_history_independent (mode : Impl.SM4.Mode) (key : List UInt8)
    (ops : List (Bool × List UInt8 × List UInt8)) :
    runThreaded mode key ops = runHistory mode key ops :=
  Proofs.SM4Hist.mode_history_independent mode key ops

/-- position by position -/
theorem mode_history_at (mode : Impl.SM4.Mode) (key : List UInt8) (ops : List (Bool × List UInt8 × List UInt8))
    (i : Nat) (h : i < ops.length) :
    (runThreaded mode key ops)[i]? = some (if ops[i].1 then Impl.SM4.mode_encrypt mode key ops[i].2.2 ops[i].2.1
      else Impl.SM4.mode_decrypt mode key ops[i].2.2 ops[i].2.1) :=
  Proofs.SM4Hist.mode_history_at mode key ops i h

/-- a history mixing directions, an error in the middle, and a repeated call: the repeat gives the same result as
the first call, the error does not disturb what follows -/
example : runThreaded .cbc exKey [(true, exIv, [1, 2, 3]), (false, exIv, [1, 2, 3]), (true, exIv, [1, 2, 3])]
    = [Impl.SM4.mode_encrypt .cbc exKey [1, 2, 3] exIv, .err "ErrorDataLen",
       Impl.SM4.mode_encrypt .cbc exKey [1, 2, 3] exIv] := by
  rw [mode_history_independent]
  decide +kernel
example : (runThreaded .ctr exKey [(true, exIv, [1, 2, 3]), (false, List.replicate 15 0, [])])[1]?
    = some (Impl.SM4.mode_decrypt .ctr exKey [] (List.replicate 15 0)) :=
  mode_history_at _ _ _ 1 (by decide)
/-- a key of the wrong length: no object, every call reports the constructor's error — on both sides -/
example : runThreaded .ofb [1, 2, 3] [(true, exIv, [1]), (false, exIv, [2])]
    = [.err "ErrorDataLen", .err "ErrorDataLen"] := by decide +kernel
example : runHistory .ofb [1, 2, 3] [(true, exIv, [1]), (false, exIv, [2])]
    = [.err "ErrorDataLen", .err "ErrorDataLen"] := by decide +kernel

end GmVerif.Thm.C07b
