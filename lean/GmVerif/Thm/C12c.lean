/-
Property C12, third part (C12c): the Miller part of the SM9 R-ate pairing of the gm-sm9 model — everything that concerns
the MODEL is closed, what remains of `MillerRefines` is a statement about the specification.

* Stage A — canonicity.  The value `millerPart Q P` of `sm9_u256_pairing` before its final exponentiation is a canonical
  tower element for ALL arguments with canonical coordinates (`millerPart_canon`; the loop has no data-dependent branch and
  every operation preserves canonicity), in particular under the side conditions of `MillerRefines` (`miller_canon`).
  Consequences: `MillerRefines` ↔ its `value` field (`millerRefines_iff_value`), and `MillerRefines` ↔ `PairingRefines`
  (`millerRefines_iff_pairingRefines`).
* Stage B — the specification-side SIGNED-DIGIT Miller value `millerSD` (the line functions and Frobenius steps of
  `Spec.SM9.miller`, folded over the model's digit string `abits`), and the step lemmas: on a Jacobian representation `Rep` of
  the untwisted points, the tangent / chord functions of the model return a representation of the specification's next point
  and a sparse line value equal to the specification's affine line value times a factor c = (non-zero Fp2 scalar)·w³ with
  c^((p¹²−1)/N) = 1 (`tangent_step`, `chord_step`, `chord_no_pre_step`; generic cases of `lineAdd`, stated as the
  hypotheses `TangentOK` / `ChordOK`); the Frobenius endpoints `point_pi1 Q`, `point_neg_pi2 Q` represent π(Q') and
  −π²(Q') (`frobenius_endpoints`).  Along the way the specification's `Fp12.inv` (extended Euclid) is proved correct.
* Stage C — `model_miller_sd`: under the specification-side genericity `SDGeneric` of the chain, the model's Miller value
  denotes `millerSD` up to a non-zero killed factor.
* Stage D — `millerRefines_of_chainIndependent`: `MillerRefines` (hence `PairingRefines`) follows from `ChainGeneric` and
  `ChainIndependent`, two statements about `Spec.SM9` ALONE.  Neither is proved here.
Only property theorems here; definitions and lemmas are in `Proofs.SM9MillerLines`, `Proofs.SM9MillerCanon`,
`Proofs.SM9Fp12Inv`, `Proofs.SM9SpecField`, `Proofs.SM9SpecLines`, `Proofs.SM9MillerSD`, `Proofs.SM9MillerAssemble`,
`Proofs.SM9MillerReduce`.
-/
import GmVerif.Proofs.SM9MillerReduce
import GmVerif.Thm.C13d
import GmVerif.Thm.C12b
namespace GmVerif.Thm.C12c
open GmVerif GmVerif.Impl.SM9
open GmVerif.Proofs.SM9Tower (Canon12 Canon2 dec2 dec F2 K)
open GmVerif.Spec.SM9 (p N finalExp)
open GmVerif.Thm.C12b (dense InG2 PairingRefines Valid toSpec toSpec2 millerPart MillerRefines)

/-! ## vocabulary (definitions of `Proofs/*`, unchanged) -/

abbrev CanonPt := Proofs.SM9MillerLines.CanonPt
abbrev CanonLine := Proofs.SM9MillerLines.CanonLine
abbrev CanonPre := Proofs.SM9MillerLines.CanonPre
abbrev MillerValue := Proofs.SM9MillerCanon.MillerValue
abbrev loopStep := Proofs.SM9MillerCanon.loopStep
abbrev loopResult := Proofs.SM9MillerCanon.loopResult
abbrev frobSteps := Proofs.SM9MillerCanon.frobSteps

example (T : TwistPoint) : CanonPt T ↔ Canon2 T.x ∧ Canon2 T.y ∧ Canon2 T.z := Iff.rfl
example (lw : Line) : CanonLine lw ↔ Canon2 lw.l0 ∧ Canon2 lw.l1 ∧ Canon2 lw.l2 := Iff.rfl

/-! ## Stage A — the Miller value is canonical -/

/-- the model's Miller part is: the `pre` block, the fold of the loop body over the 65 characters of `abits` from
(1, Q), then the two Frobenius line steps (by unfolding; nothing is evaluated) -/
theorem millerPart_unfold (q : TwistPoint) (P : Point) :
    millerPart q P = frobSteps q P.to_affine_point (loopResult q P.to_affine_point) :=
  Proofs.SM9MillerCanon.millerPart_eq q P
example : abits.toList.length = 65 := by decide

/-- the tangent step: canonical point and line coefficients out of canonical inputs -/
theorem tangent_canon (T : TwistPoint) (P : Point) (hT : CanonPt T) (hx : P.x < p) (hy : P.y < p) :
    CanonPt (sm9_u256_eval_g_tangent T P).1 ∧ CanonLine (sm9_u256_eval_g_tangent T P).2 :=
  Proofs.SM9MillerCanon.tangent_canon hT ⟨hx, hy⟩
example : CanonPt (sm9_u256_eval_g_tangent TWIST_POINT_MONT_P2 POINT_MONT_P1).1 :=
  (tangent_canon _ _ (by decide +kernel) (by decide +kernel) (by decide +kernel)).1

/-- the chord step, for an arbitrary canonical `pre` block (the G1 argument is not read) -/
theorem line_canon (pre : Pre) (T Q : TwistPoint) (P : Point) (hpre : CanonPre pre) (hT : CanonPt T) (hQ : CanonPt Q) :
    CanonPt (sm9_u256_eval_g_line pre T Q P).1 ∧ CanonLine (sm9_u256_eval_g_line pre T Q P).2 :=
  Proofs.SM9MillerLines.line_canon P hpre hT hQ

/-- the chord step that computes its own `pre` block -/
theorem line_no_pre_canon (T Q : TwistPoint) (P : Point) (hT : CanonPt T) (hQ : CanonPt Q) (hx : P.x < p) (hy : P.y < p) :
    CanonPt (sm9_u256_eval_g_line_no_pre T Q P).1 ∧ CanonLine (sm9_u256_eval_g_line_no_pre T Q P).2 :=
  Proofs.SM9MillerCanon.line_no_pre_canon hT hQ ⟨hx, hy⟩
example : CanonLine (sm9_u256_eval_g_line_no_pre TWIST_POINT_MONT_P2.point_double TWIST_POINT_MONT_P2 POINT_MONT_P1).2 :=
  (line_no_pre_canon _ _ _ (by decide +kernel) (by decide +kernel) (by decide +kernel) (by decide +kernel)).2

/-- the Frobenius images of a canonical point are canonical; so is the affine form of a canonical G1 point -/
theorem endpoints_canon (Q : TwistPoint) (hQ : CanonPt Q) : CanonPt Q.point_pi1 ∧ CanonPt Q.point_neg_pi2 ∧ CanonPt Q.point_neg :=
  ⟨Proofs.SM9MillerCanon.pi1_canon hQ, Proofs.SM9MillerCanon.neg_pi2_canon hQ, Proofs.SM9MillerCanon.neg_canon hQ⟩
theorem to_affine_canon (P : Point) (hx : P.x < p) (hy : P.y < p) (hz : P.z < p) :
    P.to_affine_point.x < p ∧ P.to_affine_point.y < p := Proofs.SM9MillerCanon.to_affine_canon P hx hy hz

/-- THE PROPERTY (general form): canonical coordinates are all that is needed — no curve equation, no subgroup, no
"off infinity" condition -/
theorem millerPart_canon (Q : TwistPoint) (P : Point) (hQ : CanonPt Q) (hx : P.x < p) (hy : P.y < p) (hz : P.z < p) :
    Canon12 (millerPart Q P) := Proofs.SM9MillerCanon.millerPart_canon Q P hQ hx hy hz
example : Canon12 (millerPart TWIST_POINT_MONT_P2 POINT_MONT_P1) :=
  millerPart_canon _ _ (by decide +kernel) (by decide +kernel) (by decide +kernel) (by decide +kernel)
/-- even at infinity (where `sm9_u256_pairing` never calls it) -/
example : Canon12 (millerPart TwistPoint.zero Point.zero) :=
  millerPart_canon _ _ (by decide +kernel) (by decide +kernel) (by decide +kernel) (by decide +kernel)

/-- THE PROPERTY (Stage A as stated): the `canon` field of `MillerRefines` -/
theorem miller_canon : ∀ Q P, InG2 Q → Valid P → Q.z.is_zero = false → P.z ≠ 0 → Canon12 (millerPart Q P) :=
  Proofs.SM9MillerCanon.miller_canon
example : Canon12 (millerPart TWIST_POINT_MONT_P2 POINT_MONT_P1) :=
  miller_canon _ _ Proofs.SM9SignRefines.inG2_generator Proofs.SM9SignRefines.P1_valid (by decide +kernel) (by decide +kernel)

/-- CONSEQUENCE 1: `MillerRefines` is its value part -/
theorem millerRefines_iff_value : MillerRefines ↔ MillerValue := Proofs.SM9MillerCanon.millerRefines_iff_value
example : MillerValue ↔
    ∀ Q P, InG2 Q → Valid P → Q.z.is_zero = false → P.z ≠ 0 →
      ∀ P' Q', Spec.SM9.embed1 (toSpec P) = some P' → Spec.SM9.untwist (toSpec2 Q) = some Q' →
        ∃ c, Spec.SM9.Fp12.pow c finalExp = Spec.SM9.Fp12.one ∧
          dense (millerPart Q P) = Spec.SM9.Fp12.mul c (Spec.SM9.miller P' (some Q')) := Iff.rfl

/-- CONSEQUENCE 2: with `C12b.millerRefines_iff`, the Miller hypothesis and the pairing hypothesis are EQUIVALENT -/
theorem millerRefines_iff_pairingRefines : MillerRefines ↔ PairingRefines :=
  Proofs.SM9MillerCanon.millerRefines_iff_pairingRefines
example (PR : PairingRefines) : MillerValue := millerRefines_iff_value.1 (millerRefines_iff_pairingRefines.2 PR)

/-! ## vocabulary of Stages B–D -/

abbrev SFp12 := Spec.SM9.Fp12
noncomputable abbrev ev := Proofs.SM9Fp12.ev
abbrev Canon := Proofs.SM9Fp12.Canon
abbrev millerSD := Proofs.SM9MillerSD.millerSD
abbrev sdStep := Proofs.SM9MillerSD.sdStep
abbrev sdLoop := Proofs.SM9MillerSD.sdLoop
abbrev sdFinish := Proofs.SM9MillerSD.sdFinish
abbrev TangentOK := Proofs.SM9MillerSD.TangentOK
abbrev ChordOK := Proofs.SM9MillerSD.ChordOK
abbrev StepOK := Proofs.SM9MillerSD.StepOK
abbrev GenericFrom := Proofs.SM9MillerSD.GenericFrom
abbrev SDGeneric := Proofs.SM9MillerSD.SDGeneric
abbrev Rep := Proofs.SM9MillerSD.Rep
abbrev RepP := Proofs.SM9MillerSD.RepP
abbrev PreFor := Proofs.SM9MillerLines.PreFor
abbrev lineFp12 := Proofs.SM9MillerReduce.lineFp12
abbrev ChainGeneric := Proofs.SM9MillerReduce.ChainGeneric
abbrev ChainIndependent := Proofs.SM9MillerReduce.ChainIndependent
open GmVerif.Spec.SM9 (lineAdd neg12 frobPt Pt12)
open GmVerif.Proofs.SM9TowerDense (φ2 ω ι)

/-- `millerSD`, spelled out: the fold of `sdStep` over the 65 characters of `abits` from (1, Q), then the two Frobenius
lines of `Spec.SM9.miller` -/
example (P : SFp12 × SFp12) (Q : Pt12) :
    millerSD P Q = sdFinish P Q (abits.toList.foldl (sdStep Q P) (Spec.SM9.Fp12.one, Q)) := rfl
example (P : SFp12 × SFp12) (Q : Pt12) (fs : SFp12) (T : Pt12) :
    sdFinish P Q (fs, T) =
      Spec.SM9.Fp12.mul (Spec.SM9.Fp12.mul fs (lineAdd T (frobPt Q) P).1)
        (lineAdd (lineAdd T (frobPt Q) P).2 (neg12 (frobPt (frobPt Q))) P).1 := rfl
/-- one step: digit '0' ↦ square and tangent; '1' ↦ then the chord to Q; '2' ↦ then the chord to −Q -/
example (Q : Pt12) (P : SFp12 × SFp12) (fs : SFp12) (T : Pt12) :
    sdStep Q P (fs, T) '0' = (Spec.SM9.Fp12.mul (Spec.SM9.Fp12.mul fs fs) (lineAdd T T P).1, (lineAdd T T P).2)
      ∧ sdStep Q P (fs, T) '2' =
          (Spec.SM9.Fp12.mul (Spec.SM9.Fp12.mul (Spec.SM9.Fp12.mul fs fs) (lineAdd T T P).1)
            (lineAdd (lineAdd T T P).2 (neg12 Q) P).1, (lineAdd (lineAdd T T P).2 (neg12 Q) P).2) := ⟨rfl, rfl⟩
/-- the genericity conditions are about the specification's points only -/
example (T Q : Pt12) : (TangentOK T ↔ ∃ x y, T = some (x, y) ∧ Spec.SM9.Fp12.add y y ≠ Spec.SM9.Fp12.zero)
    ∧ (ChordOK T Q ↔ ∃ x1 y1 x2 y2, T = some (x1, y1) ∧ Q = some (x2, y2) ∧ x1 ≠ x2) := ⟨Iff.rfl, Iff.rfl⟩
example (P : SFp12 × SFp12) (Q : Pt12) : SDGeneric P Q ↔
    GenericFrom Q P abits.toList (Spec.SM9.Fp12.one, Q) ∧ ChordOK (sdLoop P Q).2 (frobPt Q)
      ∧ ChordOK (lineAdd (sdLoop P Q).2 (frobPt Q) P).2 (neg12 (frobPt (frobPt Q))) := Iff.rfl
example (Q : Pt12) (P : SFp12 × SFp12) (ch : Char) (cs : List Char) (st : SFp12 × Pt12) :
    GenericFrom Q P (ch :: cs) st ↔ StepOK Q P st.2 ch ∧ GenericFrom Q P cs (sdStep Q P st ch) := Iff.rfl
/-- `Rep T T'`: T = (X, Y, Z) has canonical coordinates, Z ≠ 0, and T' = (x, y) with x·Z²·w² = X, y·Z³·w³ = Y in
Fp12 = Fp[w]/(w¹² + 2) (φ2 embeds Fp2 by u ↦ w⁶, ω is the class of w): T' is the untwist of the affine form of T -/
example (T : TwistPoint) (T' : Pt12) : Rep T T' ↔
    CanonPt T ∧ dec2 T.z ≠ 0 ∧ ∃ x y, T' = some (x, y) ∧ Canon x ∧ Canon y ∧
      ev x * (φ2 (dec2 T.z) ^ 2 * ω ^ 2) = φ2 (dec2 T.x) ∧ ev y * (φ2 (dec2 T.z) ^ 3 * ω ^ 3) = φ2 (dec2 T.y) := Iff.rfl
example (pa : Point) (P' : SFp12 × SFp12) : RepP pa P' ↔
    pa.x < p ∧ pa.y < p ∧ Canon P'.1 ∧ Canon P'.2 ∧ ev P'.1 = ι (dec pa.x) ∧ ev P'.2 = ι (dec pa.y) := Iff.rfl
example (lw : Line) : lineFp12 lw = ⟨⟨lw.l0, lw.l2⟩, Fp4.zero, ⟨lw.l1, Fp2.zero⟩⟩ := rfl

/-! ## Stage B — the specification's inverse, the step lemmas, the Frobenius endpoints -/

/-- the specification's `Fp12.inv` (extended Euclid on coefficient lists) IS the inverse in Fp[w]/(w¹² + 2) -/
theorem spec_inv_correct (a : SFp12) (ha : Canon a) (hne : a ≠ Spec.SM9.Fp12.zero) :
    Canon (Spec.SM9.Fp12.inv a) ∧ Spec.SM9.Fp12.mul a (Spec.SM9.Fp12.inv a) = Spec.SM9.Fp12.one := by
  have h0 : ev a ≠ 0 := fun h => hne ((Proofs.SM9SpecField.eq_zero_iff_ev ha).2 h)
  refine ⟨Proofs.SM9Fp12Inv.canon_inv a, ?_⟩
  apply Proofs.SM9Fp12.ev_injective (Proofs.SM9Fp12.canon_mul _ _) Proofs.SM9Fp12.canon_one
  rw [Proofs.SM9Fp12.ev_mul, Proofs.SM9Fp12Inv.ev_inv a ha h0, Proofs.SM9Fp12.ev_one]
example : Spec.SM9.Fp12.mul Spec.SM9.Fp12.w (Spec.SM9.Fp12.inv Spec.SM9.Fp12.w) = Spec.SM9.Fp12.one :=
  (spec_inv_correct _ Proofs.SM9SpecField.canon_w (by decide +kernel)).2

/-- a multiplication by a sparse line value is a multiplication by the tower element `lineFp12` -/
theorem line_mul_is_mul (r : Fp12) (lw : Line) (hr : Canon12 r) (hl : CanonLine lw) :
    r.fp_line_mul lw = r.fp_mul (lineFp12 lw) := Proofs.SM9MillerReduce.line_mul_eq_mul hr hl

/-- the model's arguments represent the specification's: Q its untwisted affine form, `to_affine_point P` the embedded
affine form -/
theorem arguments_rep (Q : TwistPoint) (P : Point) (hQ : C13d.Valid2 Q) (hP : Valid P) (hq : Q.z.is_zero = false)
    (hp : P.z ≠ 0) (P' Q' : SFp12 × SFp12) (hPe : Spec.SM9.embed1 (toSpec P) = some P')
    (hQe : Spec.SM9.untwist (toSpec2 Q) = some Q') : Rep Q (some Q') ∧ RepP P.to_affine_point P' := by
  have hz : dec2 Q.z ≠ 0 := fun h => by
    have := (Proofs.SM9Tower.ok2_dec hQ.2.2.1).is_zero_iff.2 h
    rw [hq] at this; cases this
  exact ⟨Proofs.SM9MillerReduce.rep_untwist hQ hz hQe, Proofs.SM9MillerReduce.repP_of_valid hP hp hPe⟩
example : ∃ P' Q', Rep TWIST_POINT_MONT_P2 (some Q') ∧ RepP POINT_MONT_P1.to_affine_point P' := by
  obtain ⟨P', Q', h1, h2⟩ := C12b.miller_arguments_exist _ _ Proofs.SM9SignRefines.inG2_generator
    (by decide +kernel : TWIST_POINT_MONT_P2.z.is_zero = false) (by decide +kernel : POINT_MONT_P1.z ≠ 0)
  exact ⟨P', Q', arguments_rep _ _ C13d.G_valid Proofs.SM9SignRefines.P1_valid (by decide +kernel) (by decide +kernel)
    P' Q' h1 h2⟩

/-- THE TANGENT STEP: T₂ represents the specification's 2T', and the sparse line value is c·g_{T',T'}(P') with c ≠ 0 killed
by the final exponentiation -/
theorem tangent_step (T : TwistPoint) (T' : Pt12) (pa : Point) (P' : SFp12 × SFp12) (hT : Rep T T') (hP : RepP pa P')
    (hok : TangentOK T') :
    Rep (sm9_u256_eval_g_tangent T pa).1 (lineAdd T' T' P').2 ∧
      ∃ c, c ≠ Spec.SM9.Fp12.zero ∧ Spec.SM9.Fp12.pow c finalExp = Spec.SM9.Fp12.one ∧
        dense (lineFp12 (sm9_u256_eval_g_tangent T pa).2) = Spec.SM9.Fp12.mul c (lineAdd T' T' P').1 :=
  Proofs.SM9MillerReduce.tangent_step_dense hT hP hok
/-- the side condition holds at every VALID finite point (no point of order two on the twist) -/
theorem tangent_side_condition (T : TwistPoint) (T' : Pt12) (hv : C13d.Valid2 T) (hT : Rep T T') : TangentOK T' :=
  Proofs.SM9MillerReduce.tangentOK_of_valid hv hT
/-- non-vacuity: the first tangent step of e(P1, P2) -/
example : ∃ P' Q', Rep (sm9_u256_eval_g_tangent TWIST_POINT_MONT_P2 POINT_MONT_P1.to_affine_point).1
    (lineAdd (some Q') (some Q') P').2 := by
  obtain ⟨P', Q', h1, h2⟩ := C12b.miller_arguments_exist _ _ Proofs.SM9SignRefines.inG2_generator
    (by decide +kernel : TWIST_POINT_MONT_P2.z.is_zero = false) (by decide +kernel : POINT_MONT_P1.z ≠ 0)
  obtain ⟨r1, r2⟩ := arguments_rep _ _ C13d.G_valid Proofs.SM9SignRefines.P1_valid (by decide +kernel)
    (by decide +kernel) P' Q' h1 h2
  exact ⟨P', Q', (tangent_step _ _ _ _ r1 r2 (tangent_side_condition _ _ C13d.G_valid r1)).1⟩

/-- THE CHORD STEP (`sm9_u256_eval_g_line` with the `pre` block of its second operand Q and of the evaluation point; the
side condition: the specification's points have different x-coordinates) -/
theorem chord_step (pre : Pre) (T Q : TwistPoint) (T' Q' : Pt12) (pa : Point) (P' : SFp12 × SFp12)
    (hpre : PreFor pre (dec2 Q.x) (dec2 Q.y) (dec2 Q.z) (dec pa.x) (dec pa.y))
    (hT : Rep T T') (hQ : Rep Q Q') (hP : RepP pa P') (hok : ChordOK T' Q') :
    Rep (sm9_u256_eval_g_line pre T Q pa).1 (lineAdd T' Q' P').2 ∧
      ∃ c, c ≠ Spec.SM9.Fp12.zero ∧ Spec.SM9.Fp12.pow c finalExp = Spec.SM9.Fp12.one ∧
        dense (lineFp12 (sm9_u256_eval_g_line pre T Q pa).2) = Spec.SM9.Fp12.mul c (lineAdd T' Q' P').1 :=
  Proofs.SM9MillerReduce.chord_step_dense hpre hT hQ hP hok
/-- the `pre` block of `sm9_u256_pairing` is the block of Q, and also of −Q -/
theorem pairing_pre_for (Q : TwistPoint) (pa : Point) (hQ : CanonPt Q) (hx : pa.x < p) (hy : pa.y < p) :
    PreFor (Proofs.SM9MillerCanon.pairingPre Q pa) (dec2 Q.x) (dec2 Q.y) (dec2 Q.z) (dec pa.x) (dec pa.y)
      ∧ PreFor (Proofs.SM9MillerCanon.pairingPre Q pa) (dec2 Q.point_neg.x) (dec2 Q.point_neg.y) (dec2 Q.point_neg.z)
          (dec pa.x) (dec pa.y) :=
  ⟨Proofs.SM9MillerCanon.o_pairingPre (Proofs.SM9MillerLines.okPt_dec hQ) (Proofs.SM9Tower.ok_dec hx)
      (Proofs.SM9Tower.ok_dec hy),
    Proofs.SM9MillerAssemble.neg_pre hQ (Proofs.SM9MillerCanon.o_pairingPre (Proofs.SM9MillerLines.okPt_dec hQ)
      (Proofs.SM9Tower.ok_dec hx) (Proofs.SM9Tower.ok_dec hy))⟩
example : PreFor (Proofs.SM9MillerCanon.pairingPre TWIST_POINT_MONT_P2 POINT_MONT_P1) (dec2 TWIST_POINT_MONT_P2.x)
    (dec2 TWIST_POINT_MONT_P2.y) (dec2 TWIST_POINT_MONT_P2.z) (dec POINT_MONT_P1.x) (dec POINT_MONT_P1.y) :=
  (pairing_pre_for _ _ (by decide +kernel) (by decide +kernel) (by decide +kernel)).1

/-- the variant that computes its own `pre` block (used for the two Frobenius steps) -/
theorem chord_no_pre_step (T Q : TwistPoint) (T' Q' : Pt12) (pa : Point) (P' : SFp12 × SFp12)
    (hT : Rep T T') (hQ : Rep Q Q') (hP : RepP pa P') (hok : ChordOK T' Q') :
    Rep (sm9_u256_eval_g_line_no_pre T Q pa).1 (lineAdd T' Q' P').2 ∧
      ∃ c, c ≠ Spec.SM9.Fp12.zero ∧ Spec.SM9.Fp12.pow c finalExp = Spec.SM9.Fp12.one ∧
        dense (lineFp12 (sm9_u256_eval_g_line_no_pre T Q pa).2) = Spec.SM9.Fp12.mul c (lineAdd T' Q' P').1 :=
  Proofs.SM9MillerReduce.chord_no_pre_step_dense hT hQ hP hok

/-- THE FROBENIUS ENDPOINTS: `point_neg Q`, `point_pi1 Q` = (X̄, Ȳ, Z̄·α), `point_neg_pi2 Q` = (X, −Y, Z·α²) are Jacobian
representations of −Q', π(Q'), −π²(Q') (`frobPt` is the p-power map on both coordinates); all three are points of the
twist (C13d `twist_pi1_correct`, `twist_neg_pi2_correct`) -/
theorem frobenius_endpoints (Q : TwistPoint) (Q' : Pt12) (h : Rep Q Q') :
    Rep Q.point_neg (neg12 Q') ∧ Rep Q.point_pi1 (frobPt Q') ∧ Rep Q.point_neg_pi2 (neg12 (frobPt (frobPt Q'))) :=
  ⟨Proofs.SM9MillerAssemble.neg_rep h, Proofs.SM9MillerAssemble.pi1_rep h, Proofs.SM9MillerAssemble.neg_pi2_rep h⟩
example : ∃ Q', Rep TWIST_POINT_MONT_P2.point_pi1 (frobPt (some Q')) := by
  obtain ⟨P', Q', h1, h2⟩ := C12b.miller_arguments_exist _ _ Proofs.SM9SignRefines.inG2_generator
    (by decide +kernel : TWIST_POINT_MONT_P2.z.is_zero = false) (by decide +kernel : POINT_MONT_P1.z ≠ 0)
  exact ⟨Q', (frobenius_endpoints _ _ (arguments_rep _ _ C13d.G_valid Proofs.SM9SignRefines.P1_valid (by decide +kernel)
    (by decide +kernel) P' Q' h1 h2).1).2.1⟩

/-! ## Stage C — the model's Miller value is the signed-digit Miller value of the specification -/

/-- THE PROPERTY: off the infinity guard, for a valid twist point and a valid G1 point, if the signed-digit chain on the
specification's points is generic (`SDGeneric`, a statement about `Spec.SM9` only), then
dense (millerPart Q P) = c · millerSD P' Q' with c ≠ 0 and c^((p¹²−1)/N) = 1 -/
theorem model_miller_sd (Q : TwistPoint) (P : Point) (hQ : C13d.Valid2 Q) (hP : Valid P) (hq : Q.z.is_zero = false)
    (hp : P.z ≠ 0) (P' Q' : SFp12 × SFp12) (hPe : Spec.SM9.embed1 (toSpec P) = some P')
    (hQe : Spec.SM9.untwist (toSpec2 Q) = some Q') (hgen : SDGeneric P' (some Q')) :
    ∃ c, c ≠ Spec.SM9.Fp12.zero ∧ Spec.SM9.Fp12.pow c finalExp = Spec.SM9.Fp12.one ∧
      dense (millerPart Q P) = Spec.SM9.Fp12.mul c (millerSD P' (some Q')) :=
  Proofs.SM9MillerReduce.model_miller_sd Q P hQ hP hq hp P' Q' hPe hQe hgen
/-- non-vacuity of everything but `SDGeneric` (which is not evaluated here: 65 doublings and 9 additions with extended-Euclid
inversions in the dense Fp12): the hypotheses hold for the generators -/
example : ∃ P' Q', Spec.SM9.embed1 (toSpec POINT_MONT_P1) = some P' ∧ Spec.SM9.untwist (toSpec2 TWIST_POINT_MONT_P2) = some Q'
    ∧ (SDGeneric P' (some Q') → ∃ c, c ≠ Spec.SM9.Fp12.zero ∧ Spec.SM9.Fp12.pow c finalExp = Spec.SM9.Fp12.one ∧
        dense (millerPart TWIST_POINT_MONT_P2 POINT_MONT_P1) = Spec.SM9.Fp12.mul c (millerSD P' (some Q'))) := by
  obtain ⟨P', Q', h1, h2⟩ := C12b.miller_arguments_exist _ _ Proofs.SM9SignRefines.inG2_generator
    (by decide +kernel : TWIST_POINT_MONT_P2.z.is_zero = false) (by decide +kernel : POINT_MONT_P1.z ≠ 0)
  exact ⟨P', Q', h1, h2, model_miller_sd _ _ C13d.G_valid Proofs.SM9SignRefines.P1_valid (by decide +kernel)
    (by decide +kernel) P' Q' h1 h2⟩

/-! ## Stage D — what remains is about the specification alone -/

/-- the two remaining hypotheses, spelled out: both quantify over points of the specification only -/
example : ChainGeneric ↔ ∀ (P : Spec.EC.Pt) (Q : Spec.SM9.Pt2) (P' Q' : SFp12 × SFp12),
    Spec.EC.onCurve Spec.SM9.curve P = true → Spec.SM9.embed1 P = some P' →
    Spec.SM9.onTwist Q = true → Spec.SM9.mul2 N Q = none → Spec.SM9.untwist Q = some Q' → SDGeneric P' (some Q') :=
  ⟨fun h => h.generic, fun h => ⟨h⟩⟩
example : ChainIndependent ↔ ∀ (P : Spec.EC.Pt) (Q : Spec.SM9.Pt2) (P' Q' : SFp12 × SFp12),
    Spec.EC.onCurve Spec.SM9.curve P = true → Spec.SM9.embed1 P = some P' →
    Spec.SM9.onTwist Q = true → Spec.SM9.mul2 N Q = none → Spec.SM9.untwist Q = some Q' →
      ∃ c, Spec.SM9.Fp12.pow c finalExp = Spec.SM9.Fp12.one ∧
        millerSD P' (some Q') = Spec.SM9.Fp12.mul c (Spec.SM9.miller P' (some Q')) :=
  ⟨fun h => h.indep, fun h => ⟨h⟩⟩

/-- THE REDUCTION: `MillerRefines` — the single hypothesis of the SM9 refinement theorems — follows from `ChainGeneric` and
`ChainIndependent` -/
theorem millerRefines_of_chainIndependent (CG : ChainGeneric) (CI : ChainIndependent) : MillerRefines :=
  Proofs.SM9MillerReduce.millerRefines_of_chainIndependent CG CI
theorem pairingRefines_of_chainIndependent (CG : ChainGeneric) (CI : ChainIndependent) : PairingRefines :=
  Proofs.SM9MillerReduce.pairingRefines_of_chainIndependent CG CI
example (CG : ChainGeneric) (CI : ChainIndependent) : MillerValue :=
  millerRefines_iff_value.1 (millerRefines_of_chainIndependent CG CI)

end GmVerif.Thm.C12c
