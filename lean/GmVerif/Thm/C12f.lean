/-
Property C12, sixth part (C12f): towards `ChainIndependent` (the signed-digit Miller chain and the binary Miller chain of
`Spec.SM9` agree up to a factor killed by the final exponentiation) by ELEMENTARY algebra — "Miller associativity".

* Stage 1 — identities over an arbitrary field F, curve y² = x³ + b, in the formulas of `Spec.SM9.lineAdd`
  (l = λ(x_P − x_U) − (y_P − y_U), v_U = x_P − x_U):
    `key_tangent`   l(T,T)·l(2T,Q)·v(T+Q) = l(T,Q)·l(T,T+Q)·v(2T)                 (key lemma, A = B)
    `key_sum`       l(S,T)·l(S+T,S−T)·v(S) = l(T,S−T)·l(S,S)·v(S+T)               (key lemma, A = B + C)
    `step_value`    l(T,Q)²·l(S,S)·v(D)·v(U) = l(T,T)·l(D,Q)·l(U,Q)·v(S)², U + Q = 2S    (D = 2T, S = T+Q, U = D+Q)
    `minus_step`    l(U,Q)·l(U+Q,−Q) = v(Q)·v(U+Q)·v(U), (U+Q)+(−Q) = U
    `chord_on_curve`, `tangent_on_curve`.
* Stage 2 — `killed_vertical`; `lineAdd_step`, `lineAdd_minus`: the same identities for the values and points that
  `Spec.SM9.lineAdd` returns (generic cases `TangentOK` / `ChordOK` of C12c).
* Stage 3 — `Approx` (equality up to a killed factor) and the two cocycle relations `carry_double`, `carry_minus`.
* Stage 4 (`ChainGenericStrong → ChainIndependent`) is NOT proved here.
Only property theorems; definitions and lemmas are in `Proofs.SM9MillerAssoc`, `Proofs.SM9MillerAssocSteps`,
`Proofs.SM9MillerAssocSpec`, `Proofs.SM9MillerAssocCocycle`.
-/
import GmVerif.Proofs.SM9MillerAssocCocycle
namespace GmVerif.Thm.C12f
open GmVerif
open GmVerif.Proofs.SM9SpecField (A Killed)
open GmVerif.Proofs.SM9SpecLines (SFp12)
open GmVerif.Proofs.SM9MillerSD (TangentOK ChordOK)
open GmVerif.Spec.SM9 (p finalExp lineAdd Pt12 neg12)
open GmVerif.Proofs.SM9Fp12 (ev Canon)

/-! ## vocabulary (definitions of `Proofs/*`, unchanged) -/

abbrev Aff := Proofs.SM9MillerAssocSpec.Aff
abbrev OnE := Proofs.SM9MillerAssocSpec.OnE
abbrev OnTw := Proofs.SM9MillerAssocSpec.OnTw
abbrev OnBase := Proofs.SM9MillerAssocSpec.OnBase
abbrev Approx := Proofs.SM9MillerAssocSpec.Approx
noncomputable abbrev σ := Proofs.SM9MillerAssocSpec.σ

example (T : Pt12) (x y : A) : Aff T x y ↔ ∃ tx ty, T = some (tx, ty) ∧ Canon tx ∧ Canon ty ∧ ev tx = x ∧ ev ty = y := Iff.rfl
example (x y : A) : (OnE x y ↔ y ^ 2 = x ^ 3 + 5) ∧ (OnTw x y ↔ σ x = x ∧ σ y = -y) ∧ (OnBase x y ↔ σ x = x ∧ σ y = y) :=
  ⟨Iff.rfl, Iff.rfl, Iff.rfl⟩
example (x : A) : σ x = x ^ p ^ 6 := rfl
example (x y : A) : Approx x y ↔ ∃ c, Killed c ∧ x = c * y := Iff.rfl

/-! ## Stage 1 — pure algebra over an arbitrary field -/

section stage1
variable {F : Type*} [Field F]

/-- KEY LEMMA, instance A = B = T, C = Q -/
theorem key_tangent {b x1 y1 x2 y2 xP yP mT xD yD lTQ xS yS lDQ lTS : F} (two : (2 : F) ≠ 0)
    (h1 : y1 ^ 2 = x1 ^ 3 + b) (h2 : y2 ^ 2 = x2 ^ 3 + b) (hP : yP ^ 2 = xP ^ 3 + b)
    (hmT : mT = 3 * (x1 * x1) / (y1 + y1)) (hxD : xD = mT * mT - x1 - x1) (hyD : yD = mT * (x1 - xD) - y1)
    (hlTQ : lTQ = (y2 - y1) / (x2 - x1)) (hxS : xS = lTQ * lTQ - x1 - x2) (hyS : yS = lTQ * (x1 - xS) - y1)
    (hlDQ : lDQ = (y2 - yD) / (x2 - xD)) (hlTS : lTS = (yS - y1) / (xS - x1))
    (ny1 : y1 ≠ 0) (nTQ : x1 ≠ x2) (nDQ : xD ≠ x2) (nST : xS ≠ x1) :
    (mT * (xP - x1) - (yP - y1)) * (lDQ * (xP - xD) - (yP - yD)) * (xP - xS)
      = (lTQ * (xP - x1) - (yP - y1)) * (lTS * (xP - x1) - (yP - y1)) * (xP - xD) :=
  Proofs.SM9MillerAssoc.key_tangent_raw x1 y1 x2 y2 xP yP (by linear_combination h2 - h1) (by linear_combination hP - h1)
    2 two ny1 (sub_ne_zero.2 nTQ.symm) mT xD yD lTQ xS yS lDQ lTS (by rw [hmT]; congr 1; ring) hxD hyD hlTQ hxS hyS
    (sub_ne_zero.2 nDQ.symm) hlDQ (sub_ne_zero.2 nST) hlTS rfl

/-- non-vacuity: the hypotheses hold for T = (1, 2), Q = 3T on y² = x³ + 3 over ℚ, P = −T -/
example : True := by
  have _h := key_tangent (F := ℚ) (b := 3) (x1 := 1) (y1 := 2) (x2 := 1873 / 1521) (y2 := -130870 / 59319) (xP := 1)
    (yP := -2) (by norm_num) (by norm_num) (by norm_num) (by norm_num) rfl rfl rfl rfl rfl rfl rfl rfl
    (by norm_num) (by norm_num) (by norm_num) (by norm_num)
  trivial

/-- KEY LEMMA, instance A = S, B = T, C = S − T =: Q (the line through T and −S has slope `lam` and meets the curve again
in Q), U = S + T -/
theorem key_sum {b xS yS xT yT xP yP lam xQ yQ a1 xU yU a2 a4 : F} (two : (2 : F) ≠ 0)
    (hS : yS ^ 2 = xS ^ 3 + b) (hT : yT ^ 2 = xT ^ 3 + b) (hP : yP ^ 2 = xP ^ 3 + b)
    (hlam : lam = (-yS - yT) / (xS - xT)) (hxQ : xQ = lam * lam - xS - xT) (hyQ : yQ = yT + lam * (xQ - xT))
    (ha1 : a1 = (yT - yS) / (xT - xS)) (hxU : xU = a1 * a1 - xS - xT) (hyU : yU = a1 * (xS - xU) - yS)
    (ha2 : a2 = (yQ - yU) / (xQ - xU)) (ha4 : a4 = 3 * (xS * xS) / (yS + yS))
    (nyS : yS ≠ 0) (nST : xS ≠ xT) (nUQ : xU ≠ xQ) :
    (a1 * (xP - xS) - (yP - yS)) * (a2 * (xP - xU) - (yP - yU)) * (xP - xS)
      = (lam * (xP - xT) - (yP - yT)) * (a4 * (xP - xS) - (yP - yS)) * (xP - xU) :=
  Proofs.SM9MillerAssoc.key_sum_raw xS yS xT yT xP yP (by linear_combination hT - hS) (by linear_combination hP - hS)
    2 two nyS (sub_ne_zero.2 nST) (sub_ne_zero.2 nST.symm) lam xQ yQ a1 xU yU a2 a4 hlam hxQ hyQ ha1 hxU hyU
    (sub_ne_zero.2 nUQ.symm) ha2 (by rw [ha4]; congr 1; ring) rfl

/-- closure of the curve under chord and tangent -/
theorem chord_on_curve {b x1 y1 x2 y2 lam x3 y3 : F} (h1 : y1 ^ 2 = x1 ^ 3 + b) (h2 : y2 ^ 2 = x2 ^ 3 + b) (hx : x1 ≠ x2)
    (hlam : lam = (y2 - y1) / (x2 - x1)) (hx3 : x3 = lam * lam - x1 - x2) (hy3 : y3 = lam * (x1 - x3) - y1) :
    y3 ^ 2 = x3 ^ 3 + b := Proofs.SM9MillerAssoc.chord_on_curve h1 h2 hx hlam hx3 hy3
theorem tangent_on_curve {b x1 y1 lam x3 y3 : F} (two : (2 : F) ≠ 0) (h1 : y1 ^ 2 = x1 ^ 3 + b) (hy : y1 ≠ 0)
    (hlam : lam = 3 * (x1 * x1) / (y1 + y1)) (hx3 : x3 = lam * lam - x1 - x1) (hy3 : y3 = lam * (x1 - x3) - y1) :
    y3 ^ 2 = x3 ^ 3 + b := Proofs.SM9MillerAssoc.tangent_on_curve two h1 hy hlam hx3 hy3
example : ((-11 / 64 : ℚ)) ^ 2 = (-23 / 16) ^ 3 + 3 :=
  tangent_on_curve (b := 3) (x1 := 1) (y1 := 2) (by norm_num) (by norm_num) (by norm_num) rfl (by norm_num) (by norm_num)

/-- THE STEP IDENTITY (doubling with a pending carry): D = 2T, S = T + Q, U = D + Q;
l(T,Q)²·l(S,S)·v(D)·v(U) = l(T,T)·l(D,Q)·l(U,Q)·v(S)²  and  U + Q = 2S (both coordinates) -/
theorem step_value {b x1 y1 x2 y2 xP yP mT xD yD lTQ xS yS lDQ xU yU mS lUQ : F} (two : (2 : F) ≠ 0)
    (h1 : y1 ^ 2 = x1 ^ 3 + b) (h2 : y2 ^ 2 = x2 ^ 3 + b) (hP : yP ^ 2 = xP ^ 3 + b)
    (hmT : mT = 3 * (x1 * x1) / (y1 + y1)) (hxD : xD = mT * mT - x1 - x1) (hyD : yD = mT * (x1 - xD) - y1)
    (hlTQ : lTQ = (y2 - y1) / (x2 - x1)) (hxS : xS = lTQ * lTQ - x1 - x2) (hyS : yS = lTQ * (x1 - xS) - y1)
    (hlDQ : lDQ = (y2 - yD) / (x2 - xD)) (hxU : xU = lDQ * lDQ - xD - x2) (hyU : yU = lDQ * (xD - xU) - yD)
    (hmS : mS = 3 * (xS * xS) / (yS + yS)) (hlUQ : lUQ = (y2 - yU) / (x2 - xU))
    (ny1 : y1 ≠ 0) (nTQ : x1 ≠ x2) (nDQ : xD ≠ x2) (nST : xS ≠ x1) (nyS : yS ≠ 0) (nUQ : xU ≠ x2) :
    (lTQ * (xP - x1) - (yP - y1)) ^ 2 * (mS * (xP - xS) - (yP - yS)) * (xP - xD) * (xP - xU)
      = (mT * (xP - x1) - (yP - y1)) * (lDQ * (xP - xD) - (yP - yD)) * (lUQ * (xP - xU) - (yP - yU)) * (xP - xS) ^ 2
    ∧ lUQ * lUQ - xU - x2 = mS * mS - xS - xS
    ∧ lUQ * (xU - (lUQ * lUQ - xU - x2)) - yU = mS * (xS - (mS * mS - xS - xS)) - yS :=
  Proofs.SM9MillerAssoc.step_value two h1 h2 hP hmT hxD hyD hlTQ hxS hyS hlDQ hxU hyU hmS hlUQ ny1 nTQ nDQ nST nyS nUQ

/-- THE DIGIT −1: W = U + Q, then l(U,Q)·l(W,−Q) = v(Q)·v(W)·v(U) and W + (−Q) = U -/
theorem minus_step {b xU yU xQ yQ xP yP a xW yW a' : F}
    (hU : yU ^ 2 = xU ^ 3 + b) (hQ : yQ ^ 2 = xQ ^ 3 + b) (hP : yP ^ 2 = xP ^ 3 + b)
    (ha : a = (yQ - yU) / (xQ - xU)) (hxW : xW = a * a - xU - xQ) (hyW : yW = a * (xU - xW) - yU)
    (ha' : a' = (-yQ - yW) / (xQ - xW)) (nUQ : xU ≠ xQ) (nWQ : xW ≠ xQ) :
    (a * (xP - xU) - (yP - yU)) * (a' * (xP - xW) - (yP - yW)) = (xP - xQ) * (xP - xW) * (xP - xU)
      ∧ a' * a' - xW - xQ = xU ∧ a' * (xW - (a' * a' - xW - xQ)) - yW = yU :=
  Proofs.SM9MillerAssoc.minus_step hU hQ hP ha hxW hyW ha' nUQ nWQ
/-- non-vacuity: U = (1, 2), Q = 2U = (−23/16, −11/64) on y² = x³ + 3, P = −U -/
example : True := by
  have _h := minus_step (F := ℚ) (b := 3) (xU := 1) (yU := 2) (xQ := -23 / 16) (yQ := -11 / 64) (xP := 1) (yP := -2)
    (by norm_num) (by norm_num) (by norm_num) rfl rfl rfl rfl (by norm_num) (by norm_num)
  trivial

end stage1

/-! ## Stage 2 — killed verticals; the identities for `Spec.SM9.lineAdd` -/

/-- KILLED VERTICAL: a non-zero difference of two elements of Fp12 fixed by x ↦ x^(p⁶) (the x-coordinate of P ∈ E(Fp) and
the x-coordinate x'·w⁻² of an untwisted point) is killed by the final exponentiation -/
theorem killed_vertical {xP xU : A} (hP : xP ^ p ^ 6 = xP) (hU : xU ^ p ^ 6 = xU) (hne : xP ≠ xU) : Killed (xP - xU) :=
  Proofs.SM9MillerAssocSpec.killed_vertical hP hU hne
example : Killed ((1 : A) - 0) := killed_vertical (one_pow _) (zero_pow (by decide)) one_ne_zero

/-- twist type is preserved by the chord, the tangent and the negation -/
theorem onTw_closed {x1 y1 x2 y2 : A} (h1 : OnTw x1 y1) (h2 : OnTw x2 y2) :
    OnTw x1 (-y1)
      ∧ OnTw ((y2 - y1) / (x2 - x1) * ((y2 - y1) / (x2 - x1)) - x1 - x2)
          ((y2 - y1) / (x2 - x1) * (x1 - ((y2 - y1) / (x2 - x1) * ((y2 - y1) / (x2 - x1)) - x1 - x2)) - y1)
      ∧ OnTw (3 * (x1 * x1) / (y1 + y1) * (3 * (x1 * x1) / (y1 + y1)) - x1 - x1)
          (3 * (x1 * x1) / (y1 + y1) * (x1 - (3 * (x1 * x1) / (y1 + y1) * (3 * (x1 * x1) / (y1 + y1)) - x1 - x1)) - y1) :=
  ⟨h1.neg, h1.chord h2, h1.tangent⟩
example : OnTw 0 0 := ⟨map_zero _, by rw [map_zero, neg_zero]⟩

/-- THE STEP IDENTITY for `lineAdd` -/
theorem lineAdd_step {T Q : Pt12} {P : SFp12 × SFp12} {x1 y1 x2 y2 : A} (hT : Aff T x1 y1) (hQ : Aff Q x2 y2)
    (c1 : OnE x1 y1) (c2 : OnE x2 y2) (cP : OnE (ev P.1) (ev P.2))
    (g1 : TangentOK T) (g2 : ChordOK T Q) (g3 : ChordOK (lineAdd T T P).2 Q) (g4 : ChordOK (lineAdd T Q P).2 T)
    (g5 : TangentOK (lineAdd T Q P).2) (g6 : ChordOK (lineAdd (lineAdd T T P).2 Q P).2 Q) :
    ∃ xD yD xS yS xU yU, Aff (lineAdd T T P).2 xD yD ∧ Aff (lineAdd T Q P).2 xS yS
      ∧ Aff (lineAdd (lineAdd T T P).2 Q P).2 xU yU ∧ OnE xD yD ∧ OnE xS yS ∧ OnE xU yU
      ∧ (OnTw x1 y1 → OnTw x2 y2 → OnTw xD yD ∧ OnTw xS yS ∧ OnTw xU yU)
      ∧ ev (lineAdd T Q P).1 ^ 2 * ev (lineAdd (lineAdd T Q P).2 (lineAdd T Q P).2 P).1 * (ev P.1 - xD) * (ev P.1 - xU)
          = ev (lineAdd T T P).1 * ev (lineAdd (lineAdd T T P).2 Q P).1
              * ev (lineAdd (lineAdd (lineAdd T T P).2 Q P).2 Q P).1 * (ev P.1 - xS) ^ 2
      ∧ (lineAdd (lineAdd (lineAdd T T P).2 Q P).2 Q P).2 = (lineAdd (lineAdd T Q P).2 (lineAdd T Q P).2 P).2 :=
  Proofs.SM9MillerAssocSpec.lineAdd_step hT hQ c1 c2 cP g1 g2 g3 g4 g5 g6

/-- THE DIGIT −1 for `lineAdd` -/
theorem lineAdd_minus {U Q : Pt12} {P : SFp12 × SFp12} {xU yU x2 y2 : A} (hU : Aff U xU yU) (hQ : Aff Q x2 y2)
    (cU : OnE xU yU) (c2 : OnE x2 y2) (cP : OnE (ev P.1) (ev P.2))
    (g1 : ChordOK U Q) (g2 : ChordOK (lineAdd U Q P).2 (neg12 Q)) :
    ∃ xW yW, Aff (lineAdd U Q P).2 xW yW ∧ OnE xW yW ∧ (OnTw xU yU → OnTw x2 y2 → OnTw xW yW)
      ∧ ev (lineAdd U Q P).1 * ev (lineAdd (lineAdd U Q P).2 (neg12 Q) P).1 = (ev P.1 - x2) * (ev P.1 - xW) * (ev P.1 - xU)
      ∧ (lineAdd (lineAdd U Q P).2 (neg12 Q) P).2 = U :=
  Proofs.SM9MillerAssocSpec.lineAdd_minus hU hQ cU c2 cP g1 g2

/-! ## Stage 3 — equality up to a killed factor and the cocycle relations -/

theorem approx_equivalence :
    (∀ x : A, Approx x x) ∧ (∀ x y : A, Approx x y → Approx y x) ∧ (∀ x y z : A, Approx x y → Approx y z → Approx x z)
      ∧ (∀ x y x' y' : A, Approx x y → Approx x' y' → Approx (x * x') (y * y'))
      ∧ (∀ (x y : A) (n : Nat), Approx x y → Approx (x ^ n) (y ^ n))
      ∧ (∀ x y : A, Approx x y → x ^ finalExp = y ^ finalExp) :=
  ⟨Proofs.SM9MillerAssocSpec.Approx.refl, fun _ _ h => h.symm, fun _ _ _ h1 h2 => h1.trans h2,
    fun _ _ _ _ h1 h2 => h1.mul h2, fun _ _ n h => h.pow n, fun _ _ h => h.pow_finalExp⟩
example : Approx ((1 : A) - 0) 1 := Proofs.SM9MillerAssocSpec.Approx.of_killed
  (killed_vertical (one_pow _) (zero_pow (by decide)) one_ne_zero)

/-- COCYCLE RELATION 1 (doubling with a pending carry):  g_{T,Q}²·g_{T+Q,T+Q} ≈ g_{T,T}·g_{2T,Q}·g_{2T+Q,Q},  (2T+Q)+Q = 2(T+Q) -/
theorem carry_double {T Q : Pt12} {P : SFp12 × SFp12} {x1 y1 x2 y2 : A} (hT : Aff T x1 y1) (hQ : Aff Q x2 y2)
    (c1 : OnE x1 y1) (c2 : OnE x2 y2) (cP : OnE (ev P.1) (ev P.2)) (t1 : OnTw x1 y1) (t2 : OnTw x2 y2)
    (bP : OnBase (ev P.1) (ev P.2))
    (g1 : TangentOK T) (g2 : ChordOK T Q) (g3 : ChordOK (lineAdd T T P).2 Q) (g4 : ChordOK (lineAdd T Q P).2 T)
    (g5 : TangentOK (lineAdd T Q P).2) (g6 : ChordOK (lineAdd (lineAdd T T P).2 Q P).2 Q)
    (v1 : ∀ x y, Aff (lineAdd T T P).2 x y → ev P.1 ≠ x) (v2 : ∀ x y, Aff (lineAdd T Q P).2 x y → ev P.1 ≠ x)
    (v3 : ∀ x y, Aff (lineAdd (lineAdd T T P).2 Q P).2 x y → ev P.1 ≠ x) :
    Approx (ev (lineAdd T Q P).1 ^ 2 * ev (lineAdd (lineAdd T Q P).2 (lineAdd T Q P).2 P).1)
        (ev (lineAdd T T P).1 * ev (lineAdd (lineAdd T T P).2 Q P).1
          * ev (lineAdd (lineAdd (lineAdd T T P).2 Q P).2 Q P).1)
      ∧ (lineAdd (lineAdd (lineAdd T T P).2 Q P).2 Q P).2 = (lineAdd (lineAdd T Q P).2 (lineAdd T Q P).2 P).2 :=
  Proofs.SM9MillerAssocSpec.carry_double hT hQ c1 c2 cP t1 t2 bP g1 g2 g3 g4 g5 g6 v1 v2 v3

/-- COCYCLE RELATION 2 (adding Q and then −Q):  g_{U,Q}·g_{U+Q,−Q} ≈ 1,  (U+Q)+(−Q) = U -/
theorem carry_minus {U Q : Pt12} {P : SFp12 × SFp12} {xU yU x2 y2 : A} (hU : Aff U xU yU) (hQ : Aff Q x2 y2)
    (cU : OnE xU yU) (c2 : OnE x2 y2) (cP : OnE (ev P.1) (ev P.2)) (tU : OnTw xU yU) (t2 : OnTw x2 y2)
    (bP : OnBase (ev P.1) (ev P.2))
    (g1 : ChordOK U Q) (g2 : ChordOK (lineAdd U Q P).2 (neg12 Q))
    (v1 : ev P.1 ≠ xU) (v2 : ev P.1 ≠ x2) (v3 : ∀ x y, Aff (lineAdd U Q P).2 x y → ev P.1 ≠ x) :
    Approx (ev (lineAdd U Q P).1 * ev (lineAdd (lineAdd U Q P).2 (neg12 Q) P).1) 1
      ∧ (lineAdd (lineAdd U Q P).2 (neg12 Q) P).2 = U :=
  Proofs.SM9MillerAssocSpec.carry_minus hU hQ cU c2 cP tU t2 bP g1 g2 v1 v2 v3

end GmVerif.Thm.C12f
