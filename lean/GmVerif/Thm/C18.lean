/-
C18: the model of gm-zuc's eea.rs / eia.rs (`Impl.EEA`) refines 128-EEA3 / 128-EIA3 (`Spec.EEA3`) for EVERY
LENGTH : u32.  Only the property theorems; all work is in `GmVerif.Proofs.EEA`.  The theorems that need the ZUC
keystream take ``, the interface to C08 (`Thm.C08.keystream_first`).
-/
import GmVerif.Proofs.EEA
import GmVerif.Thm.C08

namespace GmVerif.Thm.C18
open GmVerif

/-- the interface hypothesis of `Proofs.EEA` is discharged by C08's `keystream_first` -/
theorem H : Proofs.EEA.KeystreamFirst :=
  fun k iv hk hiv n => Thm.C08.keystream_first k iv hk hiv n

/-- `EEA::new` builds the standard's IV (`as u8` truncations are harmless for BEARER < 32, DIRECTION < 2) -/
theorem eea_iv (count bearer direction : UInt32) (hb : bearer.toNat < 32) (hd : direction.toNat < 2) :
    Impl.EEA.eeaIv count bearer direction = Spec.EEA3.ivEEA count bearer.toNat direction.toNat :=
  Proofs.EEA.eea_iv count bearer direction hb hd

example : ((0xf : UInt32).toNat < 32) ∧ ((1 : UInt32).toNat < 2) := by decide
example : Impl.EEA.eeaIv 0x66035492 0xf 0 = Spec.EEA3.ivEEA 0x66035492 15 0 :=
  eea_iv _ _ _ (by decide) (by decide)
example : Impl.EEA.eeaIv 0x66035492 0xf 0
    = [0x66, 0x03, 0x54, 0x92, 0x78, 0, 0, 0, 0x66, 0x03, 0x54, 0x92, 0x78, 0, 0, 0] := by decide

/-- `EIA::new` builds the standard's IV -/
theorem eia_iv (count bearer direction : UInt32) (hb : bearer.toNat < 32) (hd : direction.toNat < 2) :
    Impl.EEA.eiaIv count bearer direction = Spec.EEA3.ivEIA count bearer.toNat direction.toNat :=
  Proofs.EEA.eia_iv count bearer direction hb hd

example : Impl.EEA.eiaIv 0xa94059da 0xa 1 = Spec.EEA3.ivEIA 0xa94059da 10 1 :=
  eia_iv _ _ _ (by decide) (by decide)
example : Impl.EEA.eiaIv 0xa94059da 0xa 1
    = [0xa9, 0x40, 0x59, 0xda, 0x50, 0, 0, 0, 0x29, 0x40, 0x59, 0xda, 0x50, 0, 0x80, 0] := by decide

theorem iv_length (c b d : UInt32) :
    (Impl.EEA.eeaIv c b d).length = 16 ∧ (Impl.EEA.eiaIv c b d).length = 16 :=
  Proofs.EEA.iv_length c b d

example : (Impl.EEA.eeaIv 1 2 3).length = 16 ∧ (Impl.EEA.eiaIv 1 2 3).length = 16 := iv_length _ _ _

/-- `find_word keys i` = the 32 bits starting at bit `i` of the keystream, for every shift
    (`i + 32 ≤ 32·|keys|` when `i % 32 = 0`, `i/32 + 1 < |keys|` otherwise) -/
theorem find_word_bits (keys : List UInt32) (i : Nat)
    (h : i / 32 + 1 < keys.length ∨ (i % 32 = 0 ∧ i / 32 < keys.length)) :
    Impl.EEA.find_word keys i
      = .ok (Spec.EEA3.wordOfBits (((Spec.EEA3.bitsOfWords keys).drop i).take 32)) :=
  Proofs.EEA.find_word_bits keys i h

example : Impl.EEA.find_word [0x12345678, 0x9abcdef0] 4
    = .ok (Spec.EEA3.wordOfBits (((Spec.EEA3.bitsOfWords [0x12345678, 0x9abcdef0]).drop 4).take 32)) :=
  find_word_bits _ _ (Or.inl (by decide))
example : Impl.EEA.find_word [0x12345678, 0x9abcdef0] 32
    = .ok (Spec.EEA3.wordOfBits (((Spec.EEA3.bitsOfWords [0x12345678, 0x9abcdef0]).drop 32).take 32)) :=
  find_word_bits _ _ (Or.inr (by decide))
example : Impl.EEA.find_word [0x12345678, 0x9abcdef0] 4 = .ok 0x23456789 := by decide
example : Impl.EEA.find_word [0x12345678, 0x9abcdef0] 32 = .ok 0x9abcdef0 := by decide
/-- outside the side condition the Rust code indexes out of range -/
example : Impl.EEA.find_word [0x12345678, 0x9abcdef0] 36 = .panic := by decide

/-- THE PROPERTY (confidentiality), for EVERY LENGTH : UInt32 -/
theorem eea_refines (ck : List UInt8) (hck : ck.length = 16)
    (count bearer direction length : UInt32) (hb : bearer.toNat < 32) (hd : direction.toNat < 2)
    (msg : List UInt32) (hm : (length.toNat + 31) / 32 ≤ msg.length) :
    ((Impl.EEA.eeaNew ck count bearer direction).bind (fun z => Impl.EEA.eeaEncrypt z msg length) |>.map (·.1))
      = .ok (Spec.EEA3.eea3 ck count bearer.toNat direction.toNat length.toNat msg) :=
  Proofs.EEA.eea_refines H ck hck count bearer direction length hb hd msg hm

/-- LENGTH = 0xc1 (193 bits, 7 words, last word masked to 1 bit) -/
example :
    ((Impl.EEA.eeaNew (List.replicate 16 0x17) 0x66035492 0xf 0).bind
        (fun z => Impl.EEA.eeaEncrypt z (List.replicate 7 0xdeadbeef) 0xc1) |>.map (·.1))
      = .ok (Spec.EEA3.eea3 (List.replicate 16 0x17) 0x66035492 15 0 193 (List.replicate 7 0xdeadbeef)) :=
  eea_refines _ (by decide) _ _ _ _ (by decide) (by decide) _ (by decide)
/-- LENGTH a multiple of 32 (no mask) -/
example :
    ((Impl.EEA.eeaNew (List.replicate 16 0x17) 0x66035492 0xf 1).bind
        (fun z => Impl.EEA.eeaEncrypt z [1, 2, 3] 64) |>.map (·.1))
      = .ok (Spec.EEA3.eea3 (List.replicate 16 0x17) 0x66035492 15 1 64 [1, 2, 3]) :=
  eea_refines _ (by decide) _ _ _ _ (by decide) (by decide) _ (by decide)
/-- LENGTH = 0: empty output -/
example :
    ((Impl.EEA.eeaNew (List.replicate 16 0) 0 0 0).bind (fun z => Impl.EEA.eeaEncrypt z [] 0) |>.map (·.1))
      = .ok (Spec.EEA3.eea3 (List.replicate 16 0) 0 0 0 0 []) :=
  eea_refines _ (by decide) _ _ _ _ (by decide) (by decide) _ (by decide)
/-- LENGTH = 0xFFFFFFFF satisfies the arithmetic side conditions: 2^27 words, no `as u32` wrap-around -/
example : ((0xFFFFFFFF : UInt32).toNat + 31) / 32 = 2 ^ 27 ∧ ((0xFFFFFFFF : UInt32).toNat + 31) / 32 < 2 ^ 32 := by
  decide
example : ((0xFFFFFFFF : UInt32).toNat + 31) / 32 ≤ (List.replicate (2 ^ 27) (0 : UInt32)).length := by
  rw [List.length_replicate]; decide
example :
    ((Impl.EEA.eeaNew (List.replicate 16 0) 0 0 0).bind
        (fun z => Impl.EEA.eeaEncrypt z (List.replicate (2 ^ 27) 0) 0xFFFFFFFF) |>.map (·.1))
      = .ok (Spec.EEA3.eea3 (List.replicate 16 0) 0 0 0 (0xFFFFFFFF : UInt32).toNat (List.replicate (2 ^ 27) 0)) :=
  eea_refines _ (by decide) _ _ _ _ (by decide) (by decide) _ (by rw [List.length_replicate]; decide)

/-- the output has ⌈LENGTH/32⌉ words (no keystream hypothesis needed) -/
theorem eea_length (ck : List UInt8) (hck : ck.length = 16) (count bearer direction length : UInt32)
    (msg : List UInt32) (hm : (length.toNat + 31) / 32 ≤ msg.length) :
    ∃ r, (Impl.EEA.eeaNew ck count bearer direction).bind (fun z => Impl.EEA.eeaEncrypt z msg length) = .ok r
      ∧ r.1.length = (length.toNat + 31) / 32 :=
  Proofs.EEA.eea_length ck hck count bearer direction length msg hm

example : ∃ r, (Impl.EEA.eeaNew (List.replicate 16 0x17) 0x66035492 0xf 0).bind
      (fun z => Impl.EEA.eeaEncrypt z (List.replicate 9 0xdeadbeef) 0xc1) = .ok r
    ∧ r.1.length = 7 :=
  eea_length _ (by decide) _ _ _ _ _ (by decide)

/-- the specified output has ⌈LENGTH/32⌉ words -/
theorem eea_spec_length (ck : List UInt8) (count : UInt32) (bearer direction length : Nat) (msg : List UInt32) :
    (Spec.EEA3.eea3 ck count bearer direction length msg).length = (length + 31) / 32 :=
  Proofs.EEA.eea3_length ck count bearer direction length msg

example : (Spec.EEA3.eea3 [] 0 0 0 193 []).length = 7 := eea_spec_length _ _ _ _ _ _

/-- bits beyond LENGTH are cleared; applying EEA3 twice restores the first LENGTH bits -/
theorem eea_involution (ck : List UInt8) (count : UInt32) (bearer direction length : Nat) (msg : List UInt32)
    (hm : (length + 31) / 32 ≤ msg.length) :
    (Spec.EEA3.bitsOfWords
        (Spec.EEA3.eea3 ck count bearer direction length
          (Spec.EEA3.eea3 ck count bearer direction length msg))).take length
      = (Spec.EEA3.bitsOfWords msg).take length
    ∧ ∀ i, length ≤ i →
        (Spec.EEA3.bitsOfWords (Spec.EEA3.eea3 ck count bearer direction length msg)).getD i false = false :=
  ⟨Proofs.EEA.eea3_involution ck count bearer direction length msg hm,
   Proofs.EEA.eea3_tail_zero ck count bearer direction length msg hm⟩

example : (193 + 31) / 32 ≤ (List.replicate 7 (0xdeadbeef : UInt32)).length := by decide
/-- the first LENGTH bits of a 7-word message are a non-trivial list of 193 bits -/
example : ((Spec.EEA3.bitsOfWords (List.replicate 7 (0xdeadbeef : UInt32))).take 193).length = 193 := by
  rw [List.length_take, Proofs.EEA.bitsOfWords_length]; decide

/-- the same on the model: encrypting the model's own output restores the first LENGTH message bits -/
theorem eea_involution_impl (ck : List UInt8) (hck : ck.length = 16)
    (count bearer direction length : UInt32) (hb : bearer.toNat < 32) (hd : direction.toNat < 2)
    (msg : List UInt32) (hm : (length.toNat + 31) / 32 ≤ msg.length) :
    ∃ c p,
      ((Impl.EEA.eeaNew ck count bearer direction).bind (fun z => Impl.EEA.eeaEncrypt z msg length)
          |>.map (·.1)) = .ok c
      ∧ ((Impl.EEA.eeaNew ck count bearer direction).bind (fun z => Impl.EEA.eeaEncrypt z c length)
          |>.map (·.1)) = .ok p
      ∧ (Spec.EEA3.bitsOfWords p).take length.toNat = (Spec.EEA3.bitsOfWords msg).take length.toNat :=
  Proofs.EEA.eea_involution_impl H ck hck count bearer direction length hb hd msg hm

example : ∃ c p,
      ((Impl.EEA.eeaNew (List.replicate 16 0x17) 0x66035492 0xf 0).bind
          (fun z => Impl.EEA.eeaEncrypt z (List.replicate 7 0xdeadbeef) 0xc1) |>.map (·.1)) = .ok c
      ∧ ((Impl.EEA.eeaNew (List.replicate 16 0x17) 0x66035492 0xf 0).bind
          (fun z => Impl.EEA.eeaEncrypt z c 0xc1) |>.map (·.1)) = .ok p
      ∧ (Spec.EEA3.bitsOfWords p).take 193 = (Spec.EEA3.bitsOfWords (List.replicate 7 0xdeadbeef)).take 193 :=
  eea_involution_impl _ (by decide) _ _ _ _ (by decide) (by decide) _ (by decide)

/-- THE PROPERTY (integrity), for EVERY LENGTH : UInt32 -/
theorem eia_refines (ik : List UInt8) (hik : ik.length = 16)
    (count bearer direction length : UInt32) (hb : bearer.toNat < 32) (hd : direction.toNat < 2)
    (msg : List UInt32) (hm : (length.toNat + 31) / 32 ≤ msg.length) :
    ((Impl.EEA.eiaNew ik count bearer direction).bind (fun z => Impl.EEA.eiaGenMac z msg length) |>.map (·.1))
      = .ok (Spec.EEA3.eia3 ik count bearer.toNat direction.toNat length.toNat msg) :=
  Proofs.EEA.eia_refines H ik hik count bearer direction length hb hd msg hm

/-- LENGTH = 0xc1 -/
example :
    ((Impl.EEA.eiaNew (List.replicate 16 0x47) 0xa94059da 0xa 1).bind
        (fun z => Impl.EEA.eiaGenMac z (List.replicate 7 0x983b41d4) 0xc1) |>.map (·.1))
      = .ok (Spec.EEA3.eia3 (List.replicate 16 0x47) 0xa94059da 10 1 193 (List.replicate 7 0x983b41d4)) :=
  eia_refines _ (by decide) _ _ _ _ (by decide) (by decide) _ (by decide)
/-- LENGTH a multiple of 32 -/
example :
    ((Impl.EEA.eiaNew (List.replicate 16 0x47) 0xa94059da 0xa 0).bind
        (fun z => Impl.EEA.eiaGenMac z [1, 2, 3] 96) |>.map (·.1))
      = .ok (Spec.EEA3.eia3 (List.replicate 16 0x47) 0xa94059da 10 0 96 [1, 2, 3]) :=
  eia_refines _ (by decide) _ _ _ _ (by decide) (by decide) _ (by decide)
/-- LENGTH = 0xFFFFFFFF: `keylength + 2` does not overflow u32 -/
example : ((0xFFFFFFFF : UInt32).toNat + 31) / 32 + 2 < 2 ^ 32 := by decide
example :
    ((Impl.EEA.eiaNew (List.replicate 16 0) 0 0 0).bind
        (fun z => Impl.EEA.eiaGenMac z (List.replicate (2 ^ 27) 0) 0xFFFFFFFF) |>.map (·.1))
      = .ok (Spec.EEA3.eia3 (List.replicate 16 0) 0 0 0 (0xFFFFFFFF : UInt32).toNat (List.replicate (2 ^ 27) 0)) :=
  eia_refines _ (by decide) _ _ _ _ (by decide) (by decide) _ (by rw [List.length_replicate]; decide)

/-- the MAC depends on exactly the first LENGTH message bits -/
theorem eia_depends_only (ik : List UInt8) (count : UInt32) (bearer direction length : Nat) (m m' : List UInt32)
    (h : (Spec.EEA3.bitsOfWords m).take length = (Spec.EEA3.bitsOfWords m').take length) :
    Spec.EEA3.eia3 ik count bearer direction length m = Spec.EEA3.eia3 ik count bearer direction length m' :=
  Proofs.EEA.eia3_depends_only ik count bearer direction length m m' h

/-- two different messages that agree on their first 33 bits -/
example : ([0xffffffff, 0x80000000] : List UInt32) ≠ [0xffffffff, 0xffffffff, 7]
    ∧ (Spec.EEA3.bitsOfWords [0xffffffff, 0x80000000]).take 33
      = (Spec.EEA3.bitsOfWords [0xffffffff, 0xffffffff, 7]).take 33 := by decide
example (ik : List UInt8) : Spec.EEA3.eia3 ik 0 0 0 33 [0xffffffff, 0x80000000]
    = Spec.EEA3.eia3 ik 0 0 0 33 [0xffffffff, 0xffffffff, 7] :=
  eia_depends_only _ _ _ _ _ _ _ (by decide)

/-- the ciphertext depends on exactly the first LENGTH message bits -/
theorem eea_depends_only (ck : List UInt8) (count : UInt32) (bearer direction length : Nat) (m m' : List UInt32)
    (h : (Spec.EEA3.bitsOfWords m).take length = (Spec.EEA3.bitsOfWords m').take length) :
    Spec.EEA3.eea3 ck count bearer direction length m = Spec.EEA3.eea3 ck count bearer direction length m' :=
  Proofs.EEA.eea3_depends_only ck count bearer direction length m m' h

example (ck : List UInt8) : Spec.EEA3.eea3 ck 0 0 0 33 [0xffffffff, 0x80000000]
    = Spec.EEA3.eea3 ck 0 0 0 33 [0xffffffff, 0xffffffff, 7] :=
  eea_depends_only _ _ _ _ _ _ _ (by decide)

/-- no panic inside the domain (message long enough), for every LENGTH; no keystream hypothesis needed -/
theorem eea_no_panic (ck : List UInt8) (hck : ck.length = 16) (count bearer direction length : UInt32)
    (msg : List UInt32) (hm : (length.toNat + 31) / 32 ≤ msg.length) :
    ∃ r, (Impl.EEA.eeaNew ck count bearer direction).bind (fun z => Impl.EEA.eeaEncrypt z msg length) = .ok r :=
  Proofs.EEA.eea_no_panic ck hck count bearer direction length msg hm

example : ∃ r, (Impl.EEA.eeaNew (List.replicate 16 0) 0 0xffffffff 0xffffffff).bind
    (fun z => Impl.EEA.eeaEncrypt z (List.replicate 7 0) 0xc1) = .ok r :=
  eea_no_panic _ (by decide) _ _ _ _ _ (by decide)

/-- RECORDED: a message shorter than ⌈LENGTH/32⌉ words makes `EEA::encrypt` panic (`msg[i]` out of range) -/
theorem eea_short_panics (ck : List UInt8) (hck : ck.length = 16) (count bearer direction length : UInt32)
    (msg : List UInt32) (hm : msg.length < (length.toNat + 31) / 32) :
    (Impl.EEA.eeaNew ck count bearer direction).bind (fun z => Impl.EEA.eeaEncrypt z msg length) = .panic :=
  Proofs.EEA.eea_short_panics ck hck count bearer direction length msg hm

example : (Impl.EEA.eeaNew (List.replicate 16 0) 0 0 0).bind
    (fun z => Impl.EEA.eeaEncrypt z (List.replicate 6 0) 0xc1) = .panic :=
  eea_short_panics _ (by decide) _ _ _ _ _ (by decide)

theorem eia_no_panic (ik : List UInt8) (hik : ik.length = 16) (count bearer direction length : UInt32)
    (msg : List UInt32) (hm : (length.toNat + 31) / 32 ≤ msg.length) :
    ∃ r, (Impl.EEA.eiaNew ik count bearer direction).bind (fun z => Impl.EEA.eiaGenMac z msg length) = .ok r :=
  Proofs.EEA.eia_no_panic ik hik count bearer direction length msg hm

example : ∃ r, (Impl.EEA.eiaNew (List.replicate 16 0) 0 0xffffffff 0xffffffff).bind
    (fun z => Impl.EEA.eiaGenMac z (List.replicate 7 0) 0xc1) = .ok r :=
  eia_no_panic _ (by decide) _ _ _ _ _ (by decide)

/-- RECORDED: a message shorter than ⌈LENGTH/32⌉ words makes `EIA::gen_mac` panic (`m[i >> 5]` out of range) -/
theorem eia_short_panics (ik : List UInt8) (hik : ik.length = 16) (count bearer direction length : UInt32)
    (msg : List UInt32) (hm : msg.length < (length.toNat + 31) / 32) :
    (Impl.EEA.eiaNew ik count bearer direction).bind (fun z => Impl.EEA.eiaGenMac z msg length) = .panic :=
  Proofs.EEA.eia_short_panics ik hik count bearer direction length msg hm

example : (Impl.EEA.eiaNew (List.replicate 16 0) 0 0 0).bind
    (fun z => Impl.EEA.eiaGenMac z (List.replicate 6 0) 0xc1) = .panic :=
  eia_short_panics _ (by decide) _ _ _ _ _ (by decide)

/-- the interface hypothesis is about 16-byte keys and IVs only, which is what `eeaNew`/`eiaNew` supply -/
example : (List.replicate 16 (0 : UInt8)).length = 16 ∧ (Impl.EEA.eeaIv 0 0 0).length = 16 := by decide

end GmVerif.Thm.C18
