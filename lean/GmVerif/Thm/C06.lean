/-
C06: decision logic of SM2 decryption in the model of gm-sm2 (`Impl.SM2.decrypt`, `Point.from_byte`):
a plaintext is returned only if the layout is long enough, C1 decodes to a valid point, t ≠ 0 and the hash matches;
no input reaches a panic branch.
Only the property theorems; all work is in `GmVerif.Proofs.SM2Logic`.  Point operations stay opaque.
-/
import GmVerif.Proofs.SM2Logic

namespace GmVerif.Thm.C06
open GmVerif GmVerif.Impl.SM2
open GmVerif.Proofs.SM2Logic.Ex (pk5 pk5c ctEx ctExC ctEx_decrypts)

/-- every successful decode has a valid format byte, the exact length, coordinates < p, and (uncompressed) satisfies
    the curve equation -/
theorem from_byte_ok (b : List UInt8) (p : Point) (h : Point.from_byte b = .ok p) :
    (b.head? = some 0x04 ∧ b.length = 65 ∧ beNat ((b.drop 1).take 32) < Gen.SM2.P ∧ beNat (b.drop 33) < Gen.SM2.P ∧ p.is_valid_affine_point = true
        ∧ p = ⟨fp_to_mont (beNat ((b.drop 1).take 32)), fp_to_mont (beNat (b.drop 33)), Gen.SM2.MODP_MONT_ONE⟩)
    ∨ ((b.head? = some 0x02 ∨ b.head? = some 0x03) ∧ b.length = 33 ∧ beNat (b.drop 1) < Gen.SM2.P ∧ p.x = fp_to_mont (beNat (b.drop 1)) ∧ p.z = Gen.SM2.MODP_MONT_ONE) :=
  Proofs.SM2Logic.from_byte_ok b p h

/-- non-vacuity (`pk5`, `pk5c` = [5]G uncompressed / compressed): both branches of the disjunction are reached -/
example : (Point.from_byte pk5).isOk = true := by decide +kernel
example : (Point.from_byte pk5c).isOk = true := by decide +kernel
example : pk5 = (g_mul 5).to_byte_be false ∧ pk5c = (g_mul 5).to_byte_be true := by decide +kernel
/-- and the rejections: wrong prefix, wrong length, x ≥ p, not on the curve -/
example : Point.from_byte (5 :: pk5.drop 1) = .err "InvalidPublic" := by decide +kernel
example : Point.from_byte (pk5 ++ [0]) = .err "InvalidPublic" := by decide +kernel
example : Point.from_byte (4 :: (List.replicate 32 0xFF ++ pk5.drop 33)) = .err "InvalidPublic" := by decide +kernel
example : Point.from_byte (pk5.take 64 ++ [129]) = .err "NotOnCurve" := by decide +kernel

theorem from_byte_total (b : List UInt8) : Point.from_byte b ≠ .panic :=
  Proofs.SM2Logic.from_byte_total b

example : Point.from_byte [] ≠ .panic := from_byte_total _

/-- decision logic of decrypt stated outright -/
theorem decrypt_ok_iff (d : Nat) (ct : List UInt8) (compressed : Bool) (model : Model) (m : List UInt8) :
    decrypt d ct compressed model = .ok m ↔
      ∃ c1 : Point,
        let l1 := if compressed then 33 else 65
        ct.length ≥ l1 + 33 ∧ Point.from_byte (ct.take l1) = .ok c1 ∧
        c1.to_affine_point.is_valid_affine_point = true ∧ (c1.scalar_mul 1).is_zero = false ∧
        let c2 := (match model with | .c1c2c3 => (ct.drop l1).take (ct.length - 32 - l1) | .c1c3c2 => ct.drop (l1 + 32))
        let c3 := (match model with | .c1c2c3 => ct.drop (ct.length - 32) | .c1c3c2 => (ct.drop l1).take 32)
        let q := (c1.scalar_mul d).to_affine_point
        let x2 := bytes32 (fp_from_mont q.x); let y2 := bytes32 (fp_from_mont q.y)
        let t := kdf (x2 ++ y2) c2.length
        (t.all (· == 0)) = false ∧ m = List.zipWith (· ^^^ ·) c2 t ∧ sm3 (x2 ++ m ++ y2) = c3 :=
  Proofs.SM2Logic.decrypt_ok_iff d ct compressed model m

/-- non-vacuity: the accepting side is inhabited in both layouts (kernel evaluation of the model; `ctEx` is what
    `encrypt (g_mul 5) "abc" false .c1c3c2 [07…07]` returns, cf. `Thm.C19a`; `ctExC` the compressed C1‖C2‖C3 form) -/
example : decrypt 5 ctEx false .c1c3c2 = .ok [0x61, 0x62, 0x63] := ctEx_decrypts
example : decrypt 5 ctExC true .c1c2c3 = .ok [0x61, 0x62, 0x63] := by decide +kernel
/-- hence the right-hand side holds for it -/
example : ∃ c1 : Point, ctEx.length ≥ 65 + 33 ∧ Point.from_byte (ctEx.take 65) = .ok c1 :=
  let ⟨c1, h⟩ := (decrypt_ok_iff 5 ctEx false .c1c3c2 [0x61, 0x62, 0x63]).mp ctEx_decrypts
  ⟨c1, h.1, h.2.1⟩
/-- rejections: a flipped C2 byte fails the hash check, a flipped C1 byte is not on the curve -/
example : decrypt 5 (ctEx.take 99 ++ [95]) false .c1c3c2 = .err "HashNotEqual" := by decide +kernel
example : decrypt 5 (ctEx.take 64 ++ [201] ++ ctEx.drop 65) false .c1c3c2 = .err "NotOnCurve" := by decide +kernel
/-- a compressed C1 where an uncompressed one is expected (and vice versa) is rejected, not mis-sliced into a plaintext -/
example : (decrypt 5 ctExC false .c1c2c3).isErr = true := by decide +kernel
example : (decrypt 5 ctEx true .c1c3c2).isErr = true := by decide +kernel

theorem decrypt_total (d : Nat) (ct : List UInt8) (compressed : Bool) (model : Model) :
    decrypt d ct compressed model ≠ .panic :=
  Proofs.SM2Logic.decrypt_total d ct compressed model

example : decrypt 0 [] true .c1c2c3 ≠ .panic := decrypt_total _ _ _ _

theorem decrypt_truncated (d : Nat) (ct : List UInt8) (compressed : Bool) (model : Model)
    (h : ct.length < (if compressed then 33 else 65) + 33) :
    ∃ e, decrypt d ct compressed model = .err e :=
  Proofs.SM2Logic.decrypt_truncated d ct compressed model h

/-- C1‖C3 with an empty C2 (97 bytes), and the empty string -/
example : ∃ e, decrypt 5 (ctEx.take 97) false .c1c3c2 = .err e := decrypt_truncated _ _ _ _ (by decide)
example : ∃ e, decrypt 5 [] true .c1c2c3 = .err e := decrypt_truncated _ _ _ _ (by decide)

/-- a returned plaintext always has the length of C2 -/
theorem decrypt_length (d : Nat) (ct : List UInt8) (c : Bool) (model : Model) (m : List UInt8) :
    decrypt d ct c model = .ok m → m.length = ct.length - (if c then 33 else 65) - 32 :=
  Proofs.SM2Logic.decrypt_length d ct c model m

example : ([0x61, 0x62, 0x63] : List UInt8).length = ctEx.length - (if false then 33 else 65) - 32 :=
  decrypt_length 5 ctEx false .c1c3c2 _ ctEx_decrypts

end GmVerif.Thm.C06
