/-
Property C14, SM9 part (C14b): the sampler `sm9_random_u256(range)` is rejection sampling on the candidate stream
(32-byte RNG outputs): it returns the first candidate c with c < range and c mod 2^64 ≠ 0 — NOT "c ≥ 1": the code compares
`ret >= [1, 0, 0, 0]` in the derived array order starting at limb 0 (least significant), so every value whose low 64
bits are zero is rejected too — and consecutive calls read disjoint segments of the stream.
No length hypothesis on the candidates is needed (the model reads a candidate as `beNat c`; for the RNG's 32-byte
outputs this is the U256).  Only property theorems here; all lemmas live in `GmVerif.Proofs.SM9Field`.
-/
import GmVerif.Proofs.SM9Field
namespace GmVerif.Thm.C14b
open GmVerif

theorem sm9_random_spec (range : Nat) (cands : List (List UInt8)) :
    Impl.SM9.sm9_random_u256 range cands =
      (match cands.dropWhile (fun c => decide (¬ (beNat c < range ∧ beNat c % 2 ^ 64 ≠ 0))) with
       | [] => none
       | c :: rest => some (beNat c, rest)) := Proofs.SM9Field.sm9_random_spec range cands

/-- 0, a value ≥ range, and 2^64 (low limb zero) are rejected, 5 is accepted; an exhausted stream gives `none` -/
example : Impl.SM9.sm9_random_u256 (Spec.SM9.N - 1)
      [natBE 32 0, natBE 32 (Spec.SM9.N - 1), natBE 32 (2 ^ 64), natBE 32 5, natBE 32 7] = some (5, [natBE 32 7])
    ∧ Impl.SM9.sm9_random_u256 (Spec.SM9.N - 1) [natBE 32 (Spec.SM9.N - 2)] = some (Spec.SM9.N - 2, [])
    ∧ Impl.SM9.sm9_random_u256 (Spec.SM9.N - 1) [natBE 32 0, natBE 32 (2 ^ 128)] = none := by decide +kernel

theorem sm9_random_in_range (range : Nat) (cands : List (List UInt8)) (k : Nat) (rest : List (List UInt8))
    (h : Impl.SM9.sm9_random_u256 range cands = some (k, rest)) :
    1 ≤ k ∧ k < range ∧ ∃ c ∈ cands, beNat c = k := Proofs.SM9Field.sm9_random_in_range range cands k rest h
example : Impl.SM9.sm9_random_u256 (Spec.SM9.N - 1) [natBE 32 0, natBE 32 5] = some (5, []) := by decide +kernel

/-- consecutive operations read disjoint segments of the candidate stream -/
theorem sm9_random_consumes_prefix (range : Nat) (cands : List (List UInt8)) (k : Nat) (rest : List (List UInt8))
    (h : Impl.SM9.sm9_random_u256 range cands = some (k, rest)) :
    ∃ pre, cands = pre ++ rest ∧ pre ≠ [] := Proofs.SM9Field.sm9_random_consumes_prefix range cands k rest h
example : ∃ pre, [natBE 32 0, natBE 32 5, natBE 32 7] = pre ++ [natBE 32 7] ∧ pre ≠ [] :=
  sm9_random_consumes_prefix (Spec.SM9.N - 1) _ 5 _ (by decide +kernel)

end GmVerif.Thm.C14b
