/-
Property C13, arithmetic part (C13a): the SM9 constants dumped from the crate are what the mathematics says, the base-field
functions `Impl.SM9.fp_*` (Montgomery form, R = 2^256) compute the field operations of F_p, arithmetic modulo the group
order N (`mod_n_add/sub`, the Barrett `mod_n_mul`, `mod_n_pow`, `mod_n_inv`) is exact for canonical operands and never
trips its checked arithmetic, and the Booth recoding `sm9_u256_get_booth` (windows 5 and 7) is total, bounded,
reconstructs the scalar and has a positive leading digit.
Only property theorems here; all lemmas live in `GmVerif.Proofs.SM9Field` and `GmVerif.Proofs.SM9Booth`.
p := `Spec.SM9.p`, N := `Spec.SM9.N`.
-/
import GmVerif.Proofs.SM9Field
import GmVerif.Proofs.SM9Booth
namespace GmVerif.Thm.C13a
open GmVerif

/-! ## constants -/

/-- every dumped constant is what the mathematics says -/
theorem sm9_consts : Gen.SM9.P = Spec.SM9.p ∧ Gen.SM9.N = Spec.SM9.N
    ∧ (Gen.SM9.P * Gen.SM9.P_PRIME + 1) % 2 ^ 256 = 0 ∧ Gen.SM9.MODP_MONT_ONE = 2 ^ 256 - Gen.SM9.P
    ∧ Gen.SM9.MODP_MONT_ONE = 2 ^ 256 % Gen.SM9.P
    ∧ Gen.SM9.MODP_2E512 = 2 ^ 512 % Gen.SM9.P ∧ Gen.SM9.MODP_MONT_FIVE = (5 * 2 ^ 256) % Gen.SM9.P
    ∧ Gen.SM9.P_MINUS_ONE = Gen.SM9.P - 1 ∧ Gen.SM9.P_MINUS_TWO = Gen.SM9.P - 2
    ∧ Gen.SM9.N_NEG = 2 ^ 256 - Gen.SM9.N ∧ Gen.SM9.N_MINUS_ONE = Gen.SM9.N - 1 ∧ Gen.SM9.N_MINUS_TWO = Gen.SM9.N - 2
    ∧ Gen.SM9.N_BARRETT_MU = 2 ^ 512 / Gen.SM9.N
    ∧ 2 ^ 256 + Gen.SM9.N_MINUS_ONE_BARRETT_MU = 2 ^ 512 / (Gen.SM9.N - 1)
    -- the generators, in the Montgomery domain (Spec.SM9.P1 = some (x, y); Spec.SM9.P2 = some ((x0, x1), (y0, y1))
    -- with x = x0 + x1·u); Z = 1
    ∧ Spec.SM9.P1.map (fun q => (q.1 * 2 ^ 256 % Spec.SM9.p, q.2 * 2 ^ 256 % Spec.SM9.p))
        = some (Gen.SM9.P1_X, Gen.SM9.P1_Y)
    ∧ Gen.SM9.P1_Z = Gen.SM9.MODP_MONT_ONE
    ∧ Spec.SM9.P2.map (fun q => ((q.1.1 * 2 ^ 256 % Spec.SM9.p, q.1.2 * 2 ^ 256 % Spec.SM9.p),
        (q.2.1 * 2 ^ 256 % Spec.SM9.p, q.2.2 * 2 ^ 256 % Spec.SM9.p)))
        = some ((Gen.SM9.P2_X0, Gen.SM9.P2_X1), (Gen.SM9.P2_Y0, Gen.SM9.P2_Y1))
    ∧ Gen.SM9.P2_Z0 = Gen.SM9.MODP_MONT_ONE ∧ Gen.SM9.P2_Z1 = 0
    ∧ Gen.SM9.HID_SIGN = 1 ∧ Gen.SM9.HID_EXCH = 2 ∧ Gen.SM9.HID_ENC = 3
    ∧ Gen.SM9.HASH1_PREFIX = 1 ∧ Gen.SM9.HASH2_PREFIX = 2 :=
  open Proofs.SM9Field in
  ⟨P_eq, N_eq, P_prime, P_neg, mont_one, P_2e512, mont_five, P_m1, P_m2, N_neg, N_m1, N_m2, N_mu, N_m1_mu,
    P_eq ▸ P1_mont, P_Z.1, P_eq ▸ P2_mont, P_Z.2.1, P_Z.2.2, hids.1, hids.2.1, hids.2.2.1, hids.2.2.2.1, hids.2.2.2.2⟩

example : Spec.SM9.P1.isSome ∧ Spec.SM9.P2.isSome ∧ Gen.SM9.HID_SIGN = Spec.SM9.hidSign
    ∧ Gen.SM9.HID_EXCH = Spec.SM9.hidExch ∧ Gen.SM9.HID_ENC = Spec.SM9.hidEnc := by decide
/-- p and N are prime (`Thm.Primes`) and the generators lie on the curves of the specification -/
example : Nat.Prime Spec.SM9.p ∧ Nat.Prime Spec.SM9.N := ⟨Proofs.Primes.sm9_p_prime, Proofs.Primes.sm9_N_prime⟩
example : Spec.EC.onCurve Spec.SM9.curve Spec.SM9.P1 = true ∧ Spec.SM9.onTwist Spec.SM9.P2 = true := by
  decide +kernel

/-- Frobenius constants, in the Montgomery domain.  With β = −2 ≡ p − 2 (Fp2 = Fp[u]/(u² − β)) and 12 ∣ p − 1:
`MONT_ALPHA_k = β^(k·(p−1)/12) · R mod p` for k = 1..5, and `MONT_BETA = (β^((p−1)/4) · R mod p, 0)` (so BETA.c0 is the
same number as ALPHA3).  Proved by kernel evaluation of `Spec.EC.powMod` and `Thm.Primes.powMod_eq`. -/
theorem sm9_frobenius_consts :
    Gen.SM9.MONT_ALPHA1 = (Spec.SM9.p - 2) ^ (1 * ((Spec.SM9.p - 1) / 12)) % Spec.SM9.p * 2 ^ 256 % Spec.SM9.p ∧
    Gen.SM9.MONT_ALPHA2 = (Spec.SM9.p - 2) ^ (2 * ((Spec.SM9.p - 1) / 12)) % Spec.SM9.p * 2 ^ 256 % Spec.SM9.p ∧
    Gen.SM9.MONT_ALPHA3 = (Spec.SM9.p - 2) ^ (3 * ((Spec.SM9.p - 1) / 12)) % Spec.SM9.p * 2 ^ 256 % Spec.SM9.p ∧
    Gen.SM9.MONT_ALPHA4 = (Spec.SM9.p - 2) ^ (4 * ((Spec.SM9.p - 1) / 12)) % Spec.SM9.p * 2 ^ 256 % Spec.SM9.p ∧
    Gen.SM9.MONT_ALPHA5 = (Spec.SM9.p - 2) ^ (5 * ((Spec.SM9.p - 1) / 12)) % Spec.SM9.p * 2 ^ 256 % Spec.SM9.p ∧
    Gen.SM9.MONT_BETA_C0 = (Spec.SM9.p - 2) ^ ((Spec.SM9.p - 1) / 4) % Spec.SM9.p * 2 ^ 256 % Spec.SM9.p ∧
    Gen.SM9.MONT_BETA_C1 = 0 ∧ (Spec.SM9.p - 1) % 12 = 0 :=
  Proofs.SM9Field.P_eq ▸ Proofs.SM9Field.frob_pow

/-- the same through the executable `Spec.EC.powMod`, and the constants are pairwise distinct canonical residues -/
example : Gen.SM9.MONT_ALPHA1 = Spec.EC.powMod (Gen.SM9.P - 2) ((Gen.SM9.P - 1) / 12) Gen.SM9.P * 2 ^ 256 % Gen.SM9.P
    ∧ Gen.SM9.MONT_ALPHA1 ≠ Gen.SM9.MONT_ALPHA5 ∧ Gen.SM9.MONT_BETA_C0 = Gen.SM9.MONT_ALPHA3
    ∧ Gen.SM9.MONT_ALPHA5 < Gen.SM9.P := by decide +kernel

/-! ## Fp: Montgomery-domain field operations (value v is stored as v·R mod p) -/

theorem sm9_fp_mul_correct (a b : Nat) (ha : a < Spec.SM9.p) (hb : b < Spec.SM9.p) :
    Impl.SM9.fp_mul a b < Spec.SM9.p ∧ (Impl.SM9.fp_mul a b * 2 ^ 256) % Spec.SM9.p = (a * b) % Spec.SM9.p := by
  rw [← Proofs.SM9Field.P_eq] at *; exact Proofs.SM9Field.fp_mul_correct a b ha hb
/-- also for one non-canonical operand: any a, b with a·b < p·R -/
theorem sm9_fp_mul_correct' (a b : Nat) (hab : a * b < Spec.SM9.p * 2 ^ 256) :
    Impl.SM9.fp_mul a b < Spec.SM9.p ∧ (Impl.SM9.fp_mul a b * 2 ^ 256) % Spec.SM9.p = (a * b) % Spec.SM9.p := by
  rw [← Proofs.SM9Field.P_eq] at *; exact Proofs.SM9Field.fp_mul_correct' a b hab
/-- on Montgomery representatives: (A·R)·(B·R) ↦ A·B·R -/
theorem sm9_fp_mul_dom (A B : Nat) :
    Impl.SM9.fp_mul (A * 2 ^ 256 % Spec.SM9.p) (B * 2 ^ 256 % Spec.SM9.p) = A * B * 2 ^ 256 % Spec.SM9.p := by
  rw [← Proofs.SM9Field.P_eq]; exact Proofs.SM9Field.fp_mul_dom A B
example : Impl.SM9.fp_mul 0 (Spec.SM9.p - 1) = 0
    ∧ Impl.SM9.fp_mul (Spec.SM9.p - 1) Gen.SM9.MODP_MONT_ONE = Spec.SM9.p - 1
    ∧ Impl.SM9.fp_mul Gen.SM9.MODP_MONT_ONE Gen.SM9.MODP_MONT_ONE = Gen.SM9.MODP_MONT_ONE
    ∧ Impl.SM9.fp_mul (2 ^ 256 - 1) (Spec.SM9.p - 1) < Spec.SM9.p := by decide

theorem sm9_fp_add_correct (a b : Nat) (ha : a < Spec.SM9.p) (hb : b < Spec.SM9.p) :
    Impl.SM9.fp_add a b = (a + b) % Spec.SM9.p := by
  rw [← Proofs.SM9Field.P_eq] at *; exact Proofs.SM9Field.fp_add_correct a b ha hb
theorem sm9_fp_sub_correct (a b : Nat) (ha : a < Spec.SM9.p) (hb : b < Spec.SM9.p) :
    Impl.SM9.fp_sub a b = (a + Spec.SM9.p - b) % Spec.SM9.p := by
  rw [← Proofs.SM9Field.P_eq] at *; exact Proofs.SM9Field.fp_sub_correct a b ha hb
theorem sm9_fp_neg_correct (a : Nat) (ha : a < Spec.SM9.p) : Impl.SM9.fp_neg a = (Spec.SM9.p - a) % Spec.SM9.p := by
  rw [← Proofs.SM9Field.P_eq] at *; exact Proofs.SM9Field.fp_neg_correct a ha
theorem sm9_fp_div2_correct (a : Nat) (ha : a < Spec.SM9.p) :
    Impl.SM9.fp_div2 a < Spec.SM9.p ∧ (2 * Impl.SM9.fp_div2 a) % Spec.SM9.p = a := by
  rw [← Proofs.SM9Field.P_eq] at *; exact Proofs.SM9Field.fp_div2_correct a ha
example : Impl.SM9.fp_add (Spec.SM9.p - 1) (Spec.SM9.p - 1) = Spec.SM9.p - 2 ∧ Impl.SM9.fp_add (Spec.SM9.p - 1) 1 = 0
    ∧ Impl.SM9.fp_sub 0 1 = Spec.SM9.p - 1 ∧ Impl.SM9.fp_sub 0 (Spec.SM9.p - 1) = 1 ∧ Impl.SM9.fp_neg 0 = 0
    ∧ Impl.SM9.fp_neg (Spec.SM9.p - 1) = 1 ∧ Impl.SM9.fp_div2 1 = (Spec.SM9.p + 1) / 2
    ∧ Impl.SM9.fp_div2 (Spec.SM9.p - 1) = (Spec.SM9.p - 1) / 2 ∧ Impl.SM9.fp_div2 0 = 0 := by decide
theorem sm9_fp_double_triple_correct (a : Nat) (ha : a < Spec.SM9.p) :
    Impl.SM9.fp_double a = 2 * a % Spec.SM9.p ∧ Impl.SM9.fp_triple a = 3 * a % Spec.SM9.p := by
  rw [← Proofs.SM9Field.P_eq] at *
  exact ⟨Proofs.SM9Field.fp_double_correct a ha, Proofs.SM9Field.fp_triple_correct a ha⟩
example : Impl.SM9.fp_double (Spec.SM9.p - 1) = Spec.SM9.p - 2 ∧ Impl.SM9.fp_triple (Spec.SM9.p - 1) = Spec.SM9.p - 3
    ∧ Impl.SM9.fp_sqr (Spec.SM9.p - 1) = Proofs.SM9Field.RinvP := by decide
/-- non-canonical operands of `fp_add`, exactly -/
theorem sm9_fp_add_noncanonical (a b : Nat) (ha : a < 2 ^ 256) (hb : b < 2 ^ 256) :
    Impl.SM9.fp_add a b = (if a + b ≥ 2 ^ 256 then (a + b - Spec.SM9.p) % 2 ^ 256
      else if a + b ≥ Spec.SM9.p then a + b - Spec.SM9.p else a + b) := by
  rw [← Proofs.SM9Field.P_eq]; exact Proofs.SM9Field.fp_add_noncanonical a b ha hb
example : Impl.SM9.fp_add (2 ^ 256 - 1) 0 = 2 ^ 256 - 1 - Spec.SM9.p ∧ Impl.SM9.fp_add (2 ^ 256 - 1) 1 = 2 ^ 256 - Spec.SM9.p := by
  decide

/-- `fp_to_mont a = a·R mod p` for every a < 2^256, canonical or not -/
theorem sm9_fp_to_mont_correct (a : Nat) (ha : a < 2 ^ 256) : Impl.SM9.fp_to_mont a = a * 2 ^ 256 % Spec.SM9.p := by
  rw [← Proofs.SM9Field.P_eq]; exact Proofs.SM9Field.fp_to_mont_correct a ha
/-- `fp_from_mont` for every a < 2^256: canonical result r with r·R ≡ a; on a representative A·R mod p it returns
A mod p; and it inverts `fp_to_mont` up to reduction -/
theorem sm9_fp_from_mont_correct (a : Nat) (ha : a < 2 ^ 256) :
    Impl.SM9.fp_from_mont a < Spec.SM9.p ∧ (Impl.SM9.fp_from_mont a * 2 ^ 256) % Spec.SM9.p = a % Spec.SM9.p := by
  rw [← Proofs.SM9Field.P_eq]; exact Proofs.SM9Field.fp_from_mont_correct a ha
theorem sm9_fp_from_mont_dom (A : Nat) : Impl.SM9.fp_from_mont (A * 2 ^ 256 % Spec.SM9.p) = A % Spec.SM9.p := by
  rw [← Proofs.SM9Field.P_eq]; exact Proofs.SM9Field.fp_from_mont_dom A
theorem sm9_fp_from_to_mont (a : Nat) (ha : a < 2 ^ 256) :
    Impl.SM9.fp_from_mont (Impl.SM9.fp_to_mont a) = a % Spec.SM9.p := by
  rw [← Proofs.SM9Field.P_eq]; exact Proofs.SM9Field.fp_from_to_mont a ha
example : Impl.SM9.fp_to_mont 1 = Gen.SM9.MODP_MONT_ONE ∧ Impl.SM9.fp_to_mont 0 = 0
    ∧ Impl.SM9.fp_to_mont (2 ^ 256 - 1) = (2 ^ 256 - 1) * 2 ^ 256 % Spec.SM9.p
    ∧ Impl.SM9.fp_from_mont Gen.SM9.MODP_MONT_ONE = 1
    ∧ Impl.SM9.fp_from_mont (Impl.SM9.fp_to_mont (2 ^ 256 - 1)) = 2 ^ 256 - 1 - Spec.SM9.p
    ∧ Impl.SM9.fp_to_mont 5 = Gen.SM9.MODP_MONT_FIVE := by decide
/-- `fp_pow` in the Montgomery domain (exponent = low 256 bits of e) -/
theorem sm9_fp_pow_correct (A e : Nat) :
    Impl.SM9.fp_pow (A * 2 ^ 256 % Spec.SM9.p) e = A ^ (e % 2 ^ 256) * 2 ^ 256 % Spec.SM9.p := by
  rw [← Proofs.SM9Field.P_eq]; exact Proofs.SM9Field.fp_pow_correct A e
example : Impl.SM9.fp_pow (Impl.SM9.fp_to_mont 2) 10 = Impl.SM9.fp_to_mont 1024
    ∧ Impl.SM9.fp_pow (Impl.SM9.fp_to_mont 2) (2 ^ 256 + 1) = Impl.SM9.fp_to_mont 2 := by decide +kernel
/-- `fp_inv`: for A ≢ 0 (mod p) the result is the Montgomery representative of the inverse I of A (I = A^(p−2) mod p,
A·I ≡ 1; uses `sm9_p_prime`); and `fp_inv 0 = 0` (no panic, no error) -/
theorem sm9_fp_inv_correct (A : Nat) (hA : A % Spec.SM9.p ≠ 0) :
    ∃ I, I < Spec.SM9.p ∧ A * I % Spec.SM9.p = 1
      ∧ Impl.SM9.fp_inv (A * 2 ^ 256 % Spec.SM9.p) = I * 2 ^ 256 % Spec.SM9.p := by
  rw [← Proofs.SM9Field.P_eq] at *; exact Proofs.SM9Field.fp_inv_correct A hA
theorem sm9_fp_inv_zero : Impl.SM9.fp_inv 0 = 0 := Proofs.SM9Field.fp_inv_zero
example : (2 : Nat) % Spec.SM9.p ≠ 0 ∧ Impl.SM9.fp_inv (Impl.SM9.fp_to_mont 2) = Impl.SM9.fp_to_mont ((Spec.SM9.p + 1) / 2)
    ∧ Impl.SM9.fp_mul (Impl.SM9.fp_inv (Impl.SM9.fp_to_mont 7)) (Impl.SM9.fp_to_mont 7) = Gen.SM9.MODP_MONT_ONE := by
  decide +kernel

/-! ## arithmetic modulo N -/

/-- Barrett: for canonical operands the result is exact and the checked arithmetic never overflows -/
theorem mod_n_mul_correct (a b : Nat) (ha : a < Spec.SM9.N) (hb : b < Spec.SM9.N) :
    Impl.SM9.mod_n_mul a b = .ok (a * b % Spec.SM9.N) := by
  rw [← Proofs.SM9Field.N_eq] at *; exact Proofs.SM9Field.mod_n_mul_correct a b ha hb
example : Impl.SM9.mod_n_mul (Spec.SM9.N - 1) (Spec.SM9.N - 1) = .ok 1
    ∧ Impl.SM9.mod_n_mul (Spec.SM9.N - 1) 2 = .ok (Spec.SM9.N - 2) ∧ Impl.SM9.mod_n_mul 0 (Spec.SM9.N - 1) = .ok 0 := by
  decide +kernel
/-- the hypotheses are needed: for some non-canonical operands the checked `s[4] += SM9_N[0] * h[9]` panics (not for
all of them: (2^256 − 1)² is still reduced correctly) -/
example : Impl.SM9.mod_n_mul (2 ^ 256 - 1) (2 ^ 256 - 1 - 2 ^ 61) = .panic
    ∧ Impl.SM9.mod_n_mul (2 ^ 256 - 1) (2 ^ 256 - 1) = .ok ((2 ^ 256 - 1) * (2 ^ 256 - 1) % Spec.SM9.N) := by
  decide +kernel
/-- the quotient estimate behind it: q̂ ∈ {q − 1, q} for every z < N², hence ONE conditional subtraction suffices -/
theorem mod_n_mul_estimate (z : Nat) (hz : z < Spec.SM9.N * Spec.SM9.N) :
    (z / 2 ^ 192 * (2 ^ 512 / Spec.SM9.N)) / 2 ^ 320 * Spec.SM9.N ≤ z
    ∧ z < (z / 2 ^ 192 * (2 ^ 512 / Spec.SM9.N)) / 2 ^ 320 * Spec.SM9.N + 2 * Spec.SM9.N := by
  rw [← Proofs.SM9Field.N_eq, ← Proofs.SM9Field.N_mu] at *; exact Proofs.SM9Field.barrett_core z hz
example : (Spec.SM9.N - 1) * (Spec.SM9.N - 1) < Spec.SM9.N * Spec.SM9.N := by decide

theorem mod_n_add_correct (a b : Nat) (ha : a < Spec.SM9.N) (hb : b < Spec.SM9.N) :
    Impl.SM9.mod_n_add a b = (a + b) % Spec.SM9.N := by
  rw [← Proofs.SM9Field.N_eq] at *; exact Proofs.SM9Field.mod_n_add_correct a b ha hb
theorem mod_n_sub_correct (a b : Nat) (ha : a < Spec.SM9.N) (hb : b < Spec.SM9.N) :
    Impl.SM9.mod_n_sub a b = (a + Spec.SM9.N - b) % Spec.SM9.N := by
  rw [← Proofs.SM9Field.N_eq] at *; exact Proofs.SM9Field.mod_n_sub_correct a b ha hb
example : Impl.SM9.mod_n_add (Spec.SM9.N - 1) (Spec.SM9.N - 1) = Spec.SM9.N - 2 ∧ Impl.SM9.mod_n_add (Spec.SM9.N - 1) 1 = 0
    ∧ Impl.SM9.mod_n_sub 0 1 = Spec.SM9.N - 1 ∧ Impl.SM9.mod_n_sub 0 (Spec.SM9.N - 1) = 1 := by decide

/-- `mod_n_pow a e = a^e mod N` for canonical a (exponent = low 256 bits of e); none of the 512 Barrett products panics -/
theorem mod_n_pow_correct (a e : Nat) (ha : a < Spec.SM9.N) :
    Impl.SM9.mod_n_pow a e = .ok (a ^ (e % 2 ^ 256) % Spec.SM9.N) := by
  rw [← Proofs.SM9Field.N_eq] at *; exact Proofs.SM9Field.mod_n_pow_correct a e ha
example : Impl.SM9.mod_n_pow 2 10 = .ok 1024 ∧ Impl.SM9.mod_n_pow (Spec.SM9.N - 1) 2 = .ok 1
    ∧ Impl.SM9.mod_n_pow (Spec.SM9.N - 1) (2 ^ 256 + 3) = .ok (Spec.SM9.N - 1) := by decide +kernel
/-- `mod_n_inv`: Fermat inverse (uses `sm9_N_prime`) -/
theorem mod_n_inv_correct (a : Nat) (ha : 0 < a ∧ a < Spec.SM9.N) :
    ∃ r, Impl.SM9.mod_n_inv a = .ok r ∧ r < Spec.SM9.N ∧ a * r % Spec.SM9.N = 1 := by
  rw [← Proofs.SM9Field.N_eq] at *; exact Proofs.SM9Field.mod_n_inv_correct a ha
example : Impl.SM9.mod_n_inv (Spec.SM9.N - 1) = .ok (Spec.SM9.N - 1) ∧ Impl.SM9.mod_n_inv 2 = .ok ((Spec.SM9.N + 1) / 2)
    ∧ Impl.SM9.mod_n_inv 0 = .ok 0 := by decide +kernel

/-! ## Booth recoding (`sm9_u256_get_booth`, window w ∈ {5, 7}, n_w = ⌈256/w⌉ windows, k < 2^256) -/

/-- digit i of the model: the value returned by `sm9_u256_get_booth k w i` (0 if the model panicked, which by
`booth_digit_spec` it does not for i < n_w) -/
abbrev boothDigit (k w i : Nat) : Int := Proofs.SM9Booth.boothDigit k w i

/-- closed form: the call never panics (shift amounts, checked `*`/`-`, `a[n]`, checked i32 subtraction) and returns the
signed digit `(W mod 2^w) − ⌊W/2⌋` of the (w+1)-bit window `W = ⌊2k / 2^(w·i)⌋ mod 2^(w+1)` -/
theorem booth_digit_spec (k : Nat) (hk : k < 2 ^ 256) (w : Nat) (hw : w = 5 ∨ w = 7) (i : Nat) (hi : i < (256 + w - 1) / w) :
    Impl.SM9.sm9_u256_get_booth k w i = .ok (boothDigit k w i)
    ∧ boothDigit k w i = ((2 * k / 2 ^ (w * i) % 2 ^ (w + 1) % 2 ^ w : Nat) : Int)
        - ((2 * k / 2 ^ (w * i) % 2 ^ (w + 1) / 2 : Nat) : Int) := by
  have h := Proofs.SM9Booth.booth_closed k hk w hw i hi
  have e := Proofs.SM9Booth.boothDigit_eq k hk w hw i hi
  exact ⟨by rw [boothDigit, e]; exact h, e⟩

theorem booth_ok (k : Nat) (hk : k < 2 ^ 256) (w : Nat) (hw : w = 5 ∨ w = 7) (i : Nat) (hi : i < (256 + w - 1) / w) :
    ∃ d : Int, Impl.SM9.sm9_u256_get_booth k w i = .ok d ∧ -(2 ^ (w - 1) : Int) ≤ d ∧ d ≤ 2 ^ (w - 1) :=
  ⟨_, Proofs.SM9Booth.booth_closed k hk w hw i hi,
    Proofs.SM9Booth.digit_bounds w _ hw (Proofs.SM9Booth.win_lt k w i)⟩
example : Impl.SM9.sm9_u256_get_booth (2 ^ 256 - 1) 5 0 = .ok (-1) ∧ Impl.SM9.sm9_u256_get_booth (2 ^ 256 - 1) 5 51 = .ok 2
    ∧ Impl.SM9.sm9_u256_get_booth (2 ^ 256 - 1) 7 36 = .ok 16 ∧ Impl.SM9.sm9_u256_get_booth (2 ^ 256 - 1) 7 12 = .ok 0
    ∧ Impl.SM9.sm9_u256_get_booth (2 ^ 4) 5 0 = .ok (-16) ∧ Impl.SM9.sm9_u256_get_booth (2 ^ 4 - 1) 5 0 = .ok 15 := by
  decide +kernel
/-- outside the index range the model does panic (`a[n]` with n = 4) -/
example : Impl.SM9.sm9_u256_get_booth 1 5 52 = .panic := by decide +kernel

/-- the digits reconstruct the scalar: Σ_{i < n_w} d_i · 2^(w·i) = k -/
theorem booth_sum (k : Nat) (hk : k < 2 ^ 256) (w : Nat) (hw : w = 5 ∨ w = 7) :
    ((List.range ((256 + w - 1) / w)).map fun i => boothDigit k w i * 2 ^ (w * i)).sum = k :=
  Proofs.SM9Booth.booth_sum k hk w hw
example : (2 ^ 256 - 1 : Nat) < 2 ^ 256 ∧ (256 + 5 - 1) / 5 = 52 ∧ (256 + 7 - 1) / 7 = 37 := by decide

/-- the first non-zero digit from the top is positive (so `(booth − 1) as usize` never underflows while r is still
infinity) -/
theorem booth_first_pos (k : Nat) (hk : k < 2 ^ 256) (w : Nat) (hw : w = 5 ∨ w = 7) (i : Nat)
    (hi : i < (256 + w - 1) / w) (hz : ∀ j, i < j → j < (256 + w - 1) / w → boothDigit k w j = 0)
    (hne : boothDigit k w i ≠ 0) : 0 < boothDigit k w i :=
  Proofs.SM9Booth.booth_first_pos k hk w hw i hi hz hne
/-- k = 2^256 − 1, w = 5: the top digit (i = 51) is 2 ≠ 0 — hypotheses satisfiable; lower digits can be negative -/
example : boothDigit (2 ^ 256 - 1) 5 51 = 2 ∧ boothDigit (2 ^ 256 - 1) 5 0 = -1 := by decide +kernel

end GmVerif.Thm.C13a
