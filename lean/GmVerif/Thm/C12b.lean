/-
Property C12, second part (C12b): the components of the SM9 R-ate pairing of the gm-sm9 model on ALL of Fp12.

* Part 1 — Frobenius on every element.  For every canonical tower element the model's `fp12_frobenius`, `fp12_frobenius2`,
  `fp12_frobenius3`, `fp12_frobenius6` (conjugations of the Fp2 coefficients and multiplications by the dumped constants
  MONT_ALPHA1..5 / MONT_BETA) return a canonical element that denotes x^p, x^(p²), x^(p³), x^(p⁶) — in the abstract tower
  `F12` of C13b and in the specification's dense Fp12 = Fp[w]/(w¹² + 2) (`Spec.SM9.Fp12.pow`, `Spec.SM9.Fp12.frobenius`).
  This REPLACES `Thm.C12.frobenius_on_basis_partial` (twelve basis elements, kernel evaluation) by full statements: the
  missing Fp-linearity is the additivity of x ↦ x^(p^k) in characteristic p (`add_pow_char_pow`), Fp is fixed
  (`ZMod.pow_card_pow`), and w^p = α·w with α = (−2)^((p−1)/12), the number the constants are powers of
  (`Thm.C12.frobenius_constants`).
* Part 2 — final exponentiation.  `final_exponent` (total, no error path) raises EVERY canonical element, zero included,
  to exactly (p¹² − 1)/N = `Spec.SM9.finalExp`: `Thm.C12.final_exp_exponent` (the program run on exponents) and
  `Thm.C12.final_exp_group` (soundness in every commutative group with Frobenius = power) are instantiated on the unit
  group of the field Fp12, the operation table of the model being correct by C13d and part 1.
* Part 3 — reduction of the pairing hypothesis.  `sm9_u256_pairing q p` is, off its infinity guard, `final_exponent` of
  `millerPart q p` (definitional); `PairingRefines` — THE hypothesis of the refinement theorems of C09, C10, C17 —
  follows from `MillerRefines`, a statement about the value before the final exponentiation only, up to a factor killed
  by the final exponentiation — and conversely (`millerRefines_iff`: nothing is lost); every non-zero element of the
  subfield Fp6 is such a factor (`subfield_killed`), which is why Fp2-scalings of the projective line coefficients and
  vertical lines do not matter.  Along the way the specification's Fp12 is shown to be a field (`spec_fp12_field`).
  `MillerRefines` itself is NOT proved.
Only property theorems here; definitions and lemmas are in `Proofs.SM9FrobAlg`, `Proofs.SM9FrobAll`,
`Proofs.SM9FinalExp`, `Proofs.SM9PairingReduce`.
-/
import GmVerif.Proofs.SM9PairingReduce
import GmVerif.Proofs.SM9Frobenius.Defs
namespace GmVerif.Thm.C12b
open GmVerif GmVerif.Impl.SM9
open GmVerif.Proofs.SM9Tower (Canon12 dec12 dec F12 K α frobA)
open GmVerif.Spec.SM9 (p N finalExp)
open GmVerif.Proofs.SM9Frobenius (sample)

/-! ## vocabulary (definitions of `Proofs/*`, unchanged) -/

abbrev dense := Proofs.SM9Bridge.dense
abbrev InG2 := Proofs.SM9Bridge.InG2
abbrev PairingRefines := Proofs.SM9Bridge.PairingRefines
abbrev Valid := Proofs.SM9G1.Valid
abbrev toSpec := Proofs.SM9G1.toSpec
abbrev toSpec2 := Proofs.SM9G2Impl.toSpec2
abbrev millerPart := Proofs.SM9PairingReduce.millerPart
abbrev MillerRefines := Proofs.SM9PairingReduce.MillerRefines
abbrev conj12 := Proofs.SM9FrobAll.conj12

example (a : Fp12) : dense a = Spec.SM9.Fp12.ofTower (Proofs.SM9Tower.towerList a) := rfl
example : α = (-2 : K) ^ ((p - 1) / 12) := rfl
/-- `frobA e` multiplies the coefficient of wⁿ (tower coordinates wⁱvʲuˡ, n = i + 3j + 6l) by eⁿ -/
example (e : K) (x : F12) : (frobA e x).c1.c1.c1 = e ^ 10 * x.c1.c1.c1 ∧ (frobA e x).c0.c0.c0 = x.c0.c0.c0 := ⟨rfl, rfl⟩
/-- `conj12` negates the coefficients of the odd powers of w: the conjugation w ↦ −w of Fp12 over Fp6 = Fp[w²] -/
example : conj12 [1, 2, 3, 4, 5, 6, 7, 8, 9, 10, 11, 12]
    = [1, p - 2, 3, p - 4, 5, p - 6, 7, p - 8, 9, p - 10, 11, p - 12] := by decide +kernel

/-- a canonical element with twelve different non-zero coefficients (tower coefficients 2..13), and an Fp2 scalar -/
theorem sample_canon : Canon12 sample := by decide +kernel
def scalar2 : Fp12 := ⟨⟨⟨fp_to_mont 2, fp_to_mont 3⟩, Fp2.zero⟩, Fp4.zero, Fp4.zero⟩
theorem scalar2_canon : Canon12 scalar2 := by decide +kernel

/-! ## Part 1 — the Frobenius maps on every element -/

/-- the constants: MONT_ALPHAk decodes (out of Montgomery form) to α^k, MONT_BETA to α³ ∈ Fp ⊂ Fp2; α⁶ = −1, α¹² = 1 -/
theorem frobenius_constants_field :
    dec Gen.SM9.MONT_ALPHA1 = α ∧ dec Gen.SM9.MONT_ALPHA2 = α ^ 2 ∧ dec Gen.SM9.MONT_ALPHA3 = α ^ 3
      ∧ dec Gen.SM9.MONT_ALPHA4 = α ^ 4 ∧ dec Gen.SM9.MONT_ALPHA5 = α ^ 5
      ∧ Proofs.SM9Tower.dec2 MONT_BETA = Proofs.SM9Tower.Quad.of (α ^ 3)
      ∧ α ^ 6 = -1 ∧ α ^ 12 = 1 :=
  ⟨Proofs.SM9FrobAll.ok_alpha1.2, Proofs.SM9FrobAll.ok_alpha2.2, Proofs.SM9FrobAll.ok_alpha3.2,
    Proofs.SM9FrobAll.ok_alpha4.2, Proofs.SM9FrobAll.ok_alpha5.2, Proofs.SM9FrobAll.ok_beta.out.2,
    Proofs.SM9FrobAll.α_pow_6, Proofs.SM9Tower.α_pow_12⟩
example : α ≠ 1 ∧ α ^ 3 ≠ 1 := by
  have h := frobenius_constants_field.2.2.2.2.2.2.1
  constructor
  · intro e; rw [e, one_pow] at h
    exact Proofs.SM9Tower.two_ne_zero' (by linear_combination h)
  · intro e
    have : α ^ 6 = 1 := by rw [show α ^ 6 = (α ^ 3) ^ 2 by ring, e, one_pow]
    rw [this] at h
    exact Proofs.SM9Tower.two_ne_zero' (by linear_combination h)

/-- in the field Fp12 (abstract tower of C13b) the p^k-power map is coefficient-wise: x^(p^k) = `frobA (α^k) x`, for every
x and every k (additivity in characteristic p, Fermat on the coefficients, w^p = α·w) -/
theorem pow_p_pow_tower (k : Nat) (x : F12) : x ^ p ^ k = frobA (α ^ k) x := Proofs.SM9Tower.f12_pow k x
example (x : F12) : x ^ p ^ 12 = x := by
  rw [pow_p_pow_tower, Proofs.SM9Tower.α_pow_12, Proofs.SM9FrobAll.frobA_one]

/-- the four maps of the model in the abstract tower: canonical results, representing x^p, x^(p²), x^(p³), x^(p⁶) -/
theorem frobenius_tower (a : Fp12) (ha : Canon12 a) :
    (Canon12 a.fp12_frobenius ∧ dec12 a.fp12_frobenius = dec12 a ^ p)
      ∧ (Canon12 a.fp12_frobenius2 ∧ dec12 a.fp12_frobenius2 = dec12 a ^ p ^ 2)
      ∧ (Canon12 a.fp12_frobenius3 ∧ dec12 a.fp12_frobenius3 = dec12 a ^ p ^ 3)
      ∧ (Canon12 a.fp12_frobenius6 ∧ dec12 a.fp12_frobenius6 = dec12 a ^ p ^ 6) :=
  ⟨(Proofs.SM9FrobAll.frob_pow (Proofs.SM9Tower.ok12_dec ha)).out,
    (Proofs.SM9FrobAll.frob2_pow (Proofs.SM9Tower.ok12_dec ha)).out,
    (Proofs.SM9FrobAll.frob3_pow (Proofs.SM9Tower.ok12_dec ha)).out,
    (Proofs.SM9FrobAll.frob6_pow (Proofs.SM9Tower.ok12_dec ha)).out⟩
example : dec12 sample.fp12_frobenius = dec12 sample ^ p := (frobenius_tower sample sample_canon).1.2

/-- THE PROPERTY (π): for EVERY canonical tower element, `fp12_frobenius` returns a canonical element denoting the p-th
power in the specification's dense Fp12.  Replaces `Thm.C12.frobenius_on_basis_partial`. -/
theorem frobenius_correct (a : Fp12) (ha : Canon12 a) :
    Canon12 a.fp12_frobenius ∧ dense a.fp12_frobenius = Spec.SM9.Fp12.pow (dense a) p :=
  Proofs.SM9FrobAll.frobenius_correct a ha
example : Canon12 sample.fp12_frobenius ∧ dense sample.fp12_frobenius = Spec.SM9.Fp12.pow (dense sample) p :=
  frobenius_correct sample sample_canon
/-- the map is not the identity there (and the kernel cross-check of both sides on `sample` is `Thm.C12`'s last example) -/
example : sample.fp12_frobenius ≠ sample ∧ sample.fp12_frobenius.fp12_frobenius ≠ sample := by decide +kernel

/-- … which is the specification's own Frobenius `Spec.SM9.Fp12.frobenius` (literally x ↦ x^p) -/
theorem frobenius_spec (a : Fp12) (ha : Canon12 a) :
    dense a.fp12_frobenius = Spec.SM9.Fp12.frobenius (dense a) := (frobenius_correct a ha).2
example : dense sample.fp12_frobenius = Spec.SM9.Fp12.frobenius (dense sample) := frobenius_spec sample sample_canon

/-- THE PROPERTY (π²) -/
theorem frobenius2_correct (a : Fp12) (ha : Canon12 a) :
    Canon12 a.fp12_frobenius2 ∧ dense a.fp12_frobenius2 = Spec.SM9.Fp12.pow (dense a) (p ^ 2) :=
  Proofs.SM9FrobAll.frobenius2_correct a ha
example : dense sample.fp12_frobenius2 = Spec.SM9.Fp12.pow (dense sample) (p ^ 2) :=
  (frobenius2_correct sample sample_canon).2

/-- THE PROPERTY (π³) -/
theorem frobenius3_correct (a : Fp12) (ha : Canon12 a) :
    Canon12 a.fp12_frobenius3 ∧ dense a.fp12_frobenius3 = Spec.SM9.Fp12.pow (dense a) (p ^ 3) :=
  Proofs.SM9FrobAll.frobenius3_correct a ha
example : dense sample.fp12_frobenius3 = Spec.SM9.Fp12.pow (dense sample) (p ^ 3) :=
  (frobenius3_correct sample sample_canon).2

/-- THE PROPERTY (π⁶): the p⁶-th power, which is the conjugation w ↦ −w of Fp12 over Fp6 -/
theorem frobenius6_correct (a : Fp12) (ha : Canon12 a) :
    Canon12 a.fp12_frobenius6 ∧ dense a.fp12_frobenius6 = Spec.SM9.Fp12.pow (dense a) (p ^ 6)
      ∧ dense a.fp12_frobenius6 = conj12 (dense a) :=
  ⟨(Proofs.SM9FrobAll.frobenius6_correct a ha).1, (Proofs.SM9FrobAll.frobenius6_correct a ha).2,
    Proofs.SM9FrobAll.frobenius6_conj a ha⟩
example : Spec.SM9.Fp12.pow (dense sample) (p ^ 6) = conj12 (dense sample) := by
  obtain ⟨_, h1, h2⟩ := frobenius6_correct sample sample_canon
  rw [← h1, h2]
/-- consistency of the four maps on every canonical element (on the basis: `Thm.C12`): π² = π∘π, π³ = π∘π², π⁶ = π³∘π³,
π⁶∘π⁶ = id — consequences, not evaluations -/
theorem frobenius_iterates (a : Fp12) (ha : Canon12 a) :
    a.fp12_frobenius2 = a.fp12_frobenius.fp12_frobenius
      ∧ a.fp12_frobenius3 = a.fp12_frobenius2.fp12_frobenius
      ∧ a.fp12_frobenius6 = a.fp12_frobenius3.fp12_frobenius3
      ∧ a.fp12_frobenius6.fp12_frobenius6 = a := Proofs.SM9FrobAll.frobenius_iterates a ha
example : sample.fp12_frobenius6.fp12_frobenius6 = sample := (frobenius_iterates sample sample_canon).2.2.2

/-! ## Part 2 — the final exponentiation -/

/-- in the abstract tower: `final_exponent` represents x^((p¹²−1)/N), for EVERY canonical element -/
theorem final_exponent_tower (a : Fp12) (ha : Canon12 a) :
    Canon12 a.final_exponent ∧ dec12 a.final_exponent = dec12 a ^ finalExp :=
  (Proofs.SM9FinalExp.final_exponent_ok (Proofs.SM9Tower.ok12_dec ha)).out
example : dec12 sample.final_exponent = dec12 sample ^ ((p ^ 12 - 1) / N) :=
  (final_exponent_tower sample sample_canon).2

/-- THE PROPERTY: `final_exponent` is total (no `Outcome`: the three `pow` calls are inlined as `pow_loop`, their `assert!`
holds by `Thm.C12.chain_constants`) and for EVERY canonical tower element returns a canonical element denoting the
specification's `Fp12.pow · finalExp`, finalExp = (p¹² − 1)/N.  No condition `dense a ≠ 0` is needed: see
`final_exponent_zero`. -/
theorem final_exponent_correct (a : Fp12) (ha : Canon12 a) :
    Canon12 a.final_exponent ∧ dense a.final_exponent = Spec.SM9.Fp12.pow (dense a) finalExp :=
  Proofs.SM9FinalExp.final_exponent_correct a ha
example : dense sample.final_exponent = Spec.SM9.Fp12.pow (dense sample) finalExp :=
  (final_exponent_correct sample sample_canon).2
example : finalExp * N = p ^ 12 - 1 := Proofs.SM9Pairing.finalExp_facts.1

/-- what happens for a = 0: `fp_inv 0 = 0`, every product with it is 0, the function returns 0 = 0^finalExp (the
specification's `pow` gives 0 as well); and `dense a ≠ 0` is `dec12 a ≠ 0` is `a ≠ 0` on canonical elements -/
theorem final_exponent_zero :
    Fp12.zero.final_exponent = Fp12.zero ∧ dense Fp12.zero = Spec.SM9.Fp12.zero
      ∧ ∀ a, Canon12 a → (dense a ≠ Spec.SM9.Fp12.zero ↔ dec12 a ≠ 0) :=
  ⟨Proofs.SM9FinalExp.final_exponent_zero, Proofs.SM9FinalExp.dense_zero, Proofs.SM9FinalExp.dense_ne_zero_iff⟩
example : dense sample ≠ Spec.SM9.Fp12.zero := by decide +kernel

/-! ## Part 3 — the pairing hypothesis reduced to the Miller part -/

/-- the pairing routine = infinity guard, else `final_exponent` of the value `millerPart` computed before it (`millerPart`
is the body of `sm9_u256_pairing` without its guard and its last line; by unfolding) -/
theorem pairing_split (q : TwistPoint) (P : Point) :
    sm9_u256_pairing q P = if q.z.is_zero || P.is_zero then Fp12.one else (millerPart q P).final_exponent :=
  Proofs.SM9PairingReduce.pairing_eq q P
example : sm9_u256_pairing TWIST_POINT_MONT_P2 POINT_MONT_P1
    = (millerPart TWIST_POINT_MONT_P2 POINT_MONT_P1).final_exponent := by
  rw [pairing_split, if_neg (by decide +kernel)]

/-- THE REMAINING HYPOTHESIS, spelled out -/
example : MillerRefines ↔
    (∀ Q P, InG2 Q → Valid P → Q.z.is_zero = false → P.z ≠ 0 → Canon12 (millerPart Q P)) ∧
    (∀ Q P, InG2 Q → Valid P → Q.z.is_zero = false → P.z ≠ 0 →
      ∀ P' Q', Spec.SM9.embed1 (toSpec P) = some P' → Spec.SM9.untwist (toSpec2 Q) = some Q' →
        ∃ c, Spec.SM9.Fp12.pow c finalExp = Spec.SM9.Fp12.one ∧
          dense (millerPart Q P) = Spec.SM9.Fp12.mul c (Spec.SM9.miller P' (some Q'))) :=
  ⟨fun h => ⟨h.canon, h.value⟩, fun h => ⟨h.1, h.2⟩⟩

/-- THE REDUCTION: `PairingRefines` (hypothesis of `Thm.C09b.sign_refines` / `verify_refines`, C10, C17) follows from
`MillerRefines`.  The infinity cases are the model's guard against the specification's `pairing … = one` on `none`
(`Thm.C09b.pairing_at_infinity`); off the guard `final_exponent_correct` turns the Miller values into the pairing values
and kills the factor c. -/
theorem pairingRefines_of_miller (MR : MillerRefines) : PairingRefines :=
  Proofs.SM9PairingReduce.pairingRefines_of_miller MR

/-- NOTHING IS LOST: conversely `PairingRefines`, together with the canonicity of the intermediate value, gives
`MillerRefines` back (equal finalExp-th powers differ by a finalExp-th root of unity, the specification's Fp12 being a
field) — `MillerRefines` is exactly what is needed -/
theorem millerRefines_iff :
    MillerRefines ↔ PairingRefines ∧
      ∀ Q P, InG2 Q → Valid P → Q.z.is_zero = false → P.z ≠ 0 → Canon12 (millerPart Q P) :=
  Proofs.SM9PairingReduce.millerRefines_iff
example (MR : MillerRefines) : PairingRefines := (millerRefines_iff.1 MR).1

/-- the side conditions of `MillerRefines` are met by the generators (so the reduction is about something), and under them
both arguments of the specification's `miller` exist -/
example : InG2 TWIST_POINT_MONT_P2 ∧ Valid POINT_MONT_P1 ∧ TWIST_POINT_MONT_P2.z.is_zero = false ∧ POINT_MONT_P1.z ≠ 0 :=
  ⟨Proofs.SM9SignRefines.inG2_generator, Proofs.SM9SignRefines.P1_valid, by decide +kernel, by decide +kernel⟩
theorem miller_arguments_exist (Q : TwistPoint) (P : Point) (hQ : InG2 Q) (hq : Q.z.is_zero = false) (hp : P.z ≠ 0) :
    ∃ P' Q', Spec.SM9.embed1 (toSpec P) = some P' ∧ Spec.SM9.untwist (toSpec2 Q) = some Q' :=
  Proofs.SM9PairingReduce.miller_arguments_exist Q P hQ hq hp
example : ∃ P' Q', Spec.SM9.embed1 (toSpec POINT_MONT_P1) = some P'
    ∧ Spec.SM9.untwist (toSpec2 TWIST_POINT_MONT_P2) = some Q' :=
  miller_arguments_exist _ _ Proofs.SM9SignRefines.inG2_generator (by decide +kernel) (by decide +kernel)

/-- the specification's Fp12 = Fp[w]/(w¹² + 2) is a field: every non-zero class has an inverse (w¹² + 2 is irreducible
over Fp; not needed for C09b's bridge, needed here to cancel) -/
theorem spec_fp12_field : ∀ x : AdjoinRoot Proofs.SM9Fp12.f, x ≠ 0 → ∃ y, x * y = 1 :=
  Proofs.SM9PairingReduce.hasInv_adjoin
example : ∃ y, Proofs.SM9TowerDense.ω * y = 1 := spec_fp12_field _ Proofs.SM9PairingReduce.ω_ne_zero

/-- the factors that do not matter: every non-zero element of the subfield Fp6 = {x | x^(p⁶) = x} (in particular every
non-zero Fp2 scalar, and the values of vertical lines) has final power 1, since
(p¹² − 1)/N = (p⁶ − 1)·(p² + 1)·((p⁴ − p² + 1)/N) -/
theorem subfield_killed (c : Spec.SM9.Fp12) (hfix : Spec.SM9.Fp12.pow c (p ^ 6) = c) (hne : c ≠ Spec.SM9.Fp12.zero) :
    Spec.SM9.Fp12.pow c finalExp = Spec.SM9.Fp12.one :=
  Proofs.SM9PairingReduce.subfield_killed c hfix hne
example : finalExp = (p ^ 6 - 1) * ((p ^ 2 + 1) * ((p ^ 4 - p ^ 2 + 1) / N)) ∧ (p ^ 4 - p ^ 2 + 1) % N = 0 :=
  ⟨Proofs.SM9PairingReduce.finalExp_factor, Proofs.SM9Pairing.hard_exponent_exact.2⟩

/-- on the model's side: a canonical non-zero tower element fixed by `fp12_frobenius6` (odd coefficients zero) denotes such
a factor, and `final_exponent` maps it to `one` -/
theorem fp6_killed (a : Fp12) (ha : Canon12 a) (hfix : a.fp12_frobenius6 = a) (hne : a ≠ Fp12.zero) :
    Spec.SM9.Fp12.pow (dense a) (p ^ 6) = dense a
      ∧ Spec.SM9.Fp12.pow (dense a) finalExp = Spec.SM9.Fp12.one ∧ a.final_exponent = Fp12.one := by
  have h6 := (frobenius6_correct a ha).2.1
  rw [hfix] at h6
  exact ⟨h6.symm, Proofs.SM9PairingReduce.fp6_killed a ha hfix hne⟩
/-- the Fp2 scalar 2 + 3u: the hypotheses of `subfield_killed` hold for what it denotes -/
example : Spec.SM9.Fp12.pow (dense scalar2) finalExp = Spec.SM9.Fp12.one ∧ scalar2.final_exponent = Fp12.one
    ∧ dense scalar2 ≠ Spec.SM9.Fp12.one :=
  ⟨(fp6_killed scalar2 scalar2_canon (by decide +kernel) (by decide +kernel)).2.1,
    (fp6_killed scalar2 scalar2_canon (by decide +kernel) (by decide +kernel)).2.2, by decide +kernel⟩
/-- and the hypothesis is a real restriction: `sample` is not in Fp6 -/
example : sample.fp12_frobenius6 ≠ sample := by decide +kernel

end GmVerif.Thm.C12b
