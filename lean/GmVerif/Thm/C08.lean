/-
Property C08: the model of gm-zuc (`Impl.ZUC`) refines the ZUC-128 specification (`Spec.ZUC`,
LFSR as arithmetic modulo 2^31−1) for every request history, zero-length requests included.
Only the property theorems live here; all proofs are in `GmVerif.Proofs.ZUC`.
-/
import GmVerif.Proofs.ZUC
namespace GmVerif.Thm.C08
open GmVerif

/-! ### the dumped tables are the standard's tables -/

theorem gen_consts :
    Gen.ZUC.S0 = Spec.ZUC.S0 ∧ Gen.ZUC.S1 = Spec.ZUC.S1 ∧ Gen.ZUC.D.map UInt32.toNat = Spec.ZUC.D :=
  ⟨Proofs.ZUC.gen_S0, Proofs.ZUC.gen_S1, Proofs.ZUC.gen_D⟩

example : Gen.ZUC.S0.length = 256 ∧ Gen.ZUC.S1.length = 256 ∧ Gen.ZUC.D.length = 16 := by
  decide +kernel

theorem tables_length :
    Spec.ZUC.S0.length = 256 ∧ Spec.ZUC.S1.length = 256 ∧ Spec.ZUC.D.length = 16 :=
  Proofs.ZUC.tables_length

example : Spec.ZUC.S0.getD 0 0 = 0x3e ∧ Spec.ZUC.S1.getD 255 0 = 0xf2 := by decide +kernel

/-- so every loaded cell is non-zero -/
theorem d_nonzero : ∀ d ∈ Spec.ZUC.D, 0 < d ∧ d < 2 ^ 15 := Proofs.ZUC.d_nonzero

example : 0x44d7 ∈ Spec.ZUC.D := by decide

/-! ### residue lemmas for the 32-bit tricks (a, b are 31-bit cells) -/

theorem rot31_mul (a : UInt32) (k : Nat) (ha : a.toNat < 2 ^ 31) (hk : 0 < k ∧ k < 31) :
    (Impl.ZUC.rot31 a k).toNat < 2 ^ 31 ∧
    (Impl.ZUC.rot31 a k).toNat % (2 ^ 31 - 1) = (a.toNat * 2 ^ k) % (2 ^ 31 - 1) :=
  Proofs.ZUC.rot31_mul a k ha hk

/-- a cell with its top bit set really wraps round: 2^30 · 2^15 ≡ 2^14 -/
example : (Impl.ZUC.rot31 0x40000000 15).toNat = 2 ^ 14 ∧
    (2 ^ 30 * 2 ^ 15) % (2 ^ 31 - 1) = 2 ^ 14 := by decide

theorem rot31_pos (a : UInt32) (k : Nat) (ha : 0 < a.toNat ∧ a.toNat ≤ 2 ^ 31 - 1)
    (hk : 0 < k ∧ k < 31) :
    0 < (Impl.ZUC.rot31 a k).toNat ∧ (Impl.ZUC.rot31 a k).toNat ≤ 2 ^ 31 - 1 :=
  Proofs.ZUC.rot31_pos a k ha hk

/-- the boundary cell 2^31−1 (≡ 0) is kept as 2^31−1, not turned into 0 -/
example : (Impl.ZUC.rot31 0x7FFFFFFF 8).toNat = 2 ^ 31 - 1 := by decide

theorem add31_add (a b : UInt32) (ha : a.toNat ≤ 2 ^ 31 - 1) (hb : b.toNat ≤ 2 ^ 31 - 1) :
    (Impl.ZUC.add31 a b).toNat ≤ 2 ^ 31 - 1 ∧
    (Impl.ZUC.add31 a b).toNat % (2 ^ 31 - 1) = (a.toNat + b.toNat) % (2 ^ 31 - 1) ∧
    (0 < a.toNat ∨ 0 < b.toNat → 0 < (Impl.ZUC.add31 a b).toNat) :=
  Proofs.ZUC.add31_add a b ha hb

/-- the extreme case: (2^31−1) + (2^31−1) is stored as 2^31−1 -/
example : (Impl.ZUC.add31 0x7FFFFFFF 0x7FFFFFFF).toNat = 2 ^ 31 - 1 ∧
    (Impl.ZUC.add31 0x7FFFFFFF 1).toNat = 1 := by decide

/-! ### state relation and invariant -/

def Inv (s : List Nat) : Prop := s.length = 16 ∧ ∀ c ∈ s, 1 ≤ c ∧ c ≤ 2 ^ 31 - 1

def Rel (z : Impl.ZUC.ZUC) (st : Spec.ZUC.State) : Prop :=
  z.s.map UInt32.toNat = st.s ∧ z.r1 = st.r1 ∧ z.r2 = st.r2 ∧ Inv st.s

theorem inv_load (k iv : List UInt8) : Inv (Spec.ZUC.load k iv) := Proofs.ZUC.inv_load k iv

/-- the invariant holds of a concrete loaded state, and is not trivially true -/
example : Inv (Spec.ZUC.load (List.replicate 16 0) (List.replicate 16 0)) := by
  unfold Inv; decide
example : ¬ Inv (List.replicate 16 0) := by unfold Inv; decide

theorem inv_initRound (st : Spec.ZUC.State) (h : Inv st.s) : Inv (Spec.ZUC.initRound st).s :=
  Proofs.ZUC.inv_initRound st h

example : ∃ st : Spec.ZUC.State, Inv st.s :=
  ⟨⟨Spec.ZUC.load [] [], 0, 0⟩, inv_load [] []⟩

theorem inv_workStep (st : Spec.ZUC.State) (h : Inv st.s) : Inv (Spec.ZUC.workStep st).2.s :=
  Proofs.ZUC.inv_workStep st h

example : Inv (Spec.ZUC.workStep ⟨Spec.ZUC.load [] [], 0, 0⟩).2.s :=
  inv_workStep _ (inv_load [] [])

/-- canonical representative: under `Inv` the value the code stores (with its `if s16 == 0` patch)
is the spec's cell -/
theorem lfsr_work_refines (z : Impl.ZUC.ZUC) (st : Spec.ZUC.State) (h : Rel z st) :
    Rel (Impl.ZUC.lfsr_with_work_mode z) ⟨Spec.ZUC.lfsrShift st.s 0, st.r1, st.r2⟩ :=
  Proofs.ZUC.lfsr_work_refines z st h

theorem lfsr_init_refines (z : Impl.ZUC.ZUC) (st : Spec.ZUC.State) (h : Rel z st) (u : UInt32)
    (hu : u.toNat < 2 ^ 31) :
    Rel (Impl.ZUC.lfsr_with_initialization_mode z u)
      ⟨Spec.ZUC.lfsrShift st.s u.toNat, st.r1, st.r2⟩ :=
  Proofs.ZUC.lfsr_init_refines z st h u hu

theorem new_refines (k iv : List UInt8) (hk : k.length = 16) (hiv : iv.length = 16) :
    ∃ z, Impl.ZUC.new k iv = .ok z ∧ Rel z (Spec.ZUC.init k iv) :=
  Proofs.ZUC.new_refines k iv hk hiv

/-- `Rel` is inhabited (the hypothesis of the refinement lemmas is satisfiable), and both LFSR
modes can be applied to such a pair -/
example : ∃ z st, Rel z st :=
  let ⟨z, _, h⟩ := new_refines (List.replicate 16 0) (List.replicate 16 0) rfl rfl
  ⟨z, _, h⟩
example : ∃ z st, Rel (Impl.ZUC.lfsr_with_work_mode z) st :=
  let ⟨z, _, h⟩ := new_refines (List.replicate 16 0) (List.replicate 16 0) rfl rfl
  ⟨z, _, lfsr_work_refines z _ h⟩
example : ∃ z st, Rel (Impl.ZUC.lfsr_with_initialization_mode z 0x7FFFFFFF) st :=
  let ⟨z, _, h⟩ := new_refines (List.replicate 16 0) (List.replicate 16 0) rfl rfl
  ⟨z, _, lfsr_init_refines z _ h 0x7FFFFFFF (by decide)⟩

theorem generate_refines (z : Impl.ZUC.ZUC) (st : Spec.ZUC.State) (h : Rel z st) (n : Nat) :
    (Impl.ZUC.generate_keystream z n).1 = Spec.ZUC.streamFrom st n ∧
    ∃ st', Rel (Impl.ZUC.generate_keystream z n).2 st' ∧
      ∀ m, Spec.ZUC.streamFrom st (n + m) = Spec.ZUC.streamFrom st n ++ Spec.ZUC.streamFrom st' m :=
  Proofs.ZUC.generate_refines z st h n

example : ∃ z st, (Impl.ZUC.generate_keystream z 3).1 = Spec.ZUC.streamFrom st 3 ∧
    (Spec.ZUC.streamFrom st 3).length = 3 :=
  let ⟨z, _, h⟩ := new_refines (List.replicate 16 0) (List.replicate 16 0) rfl rfl
  ⟨z, _, (generate_refines z _ h 3).1, rfl⟩

/-- interface lemma used by C18 -/
theorem keystream_first (k iv : List UInt8) (hk : k.length = 16) (hiv : iv.length = 16) (n : Nat) :
    ∃ z, Impl.ZUC.new k iv = .ok z ∧ (Impl.ZUC.generate_keystream z n).1 = Spec.ZUC.stream k iv n :=
  Proofs.ZUC.keystream_first k iv hk hiv n

/-- the specification stream is the standard's: test vector 1 of the ZUC specification
(all-zero key and IV: z1 = 27bede74, z2 = 018082da) -/
example : Spec.ZUC.stream (List.replicate 16 0) (List.replicate 16 0) 2 = [0x27bede74, 0x018082da] := by
  decide +kernel

/-- THE PROPERTY: every request history, zero-length requests included -/
theorem split_independent (k iv : List UInt8) (hk : k.length = 16) (hiv : iv.length = 16)
    (ns : List Nat) :
    ∃ z, Impl.ZUC.new k iv = .ok z ∧
      (Impl.ZUC.requests z ns).flatten = Spec.ZUC.stream k iv ns.sum :=
  Proofs.ZUC.split_independent k iv hk hiv ns

/-- a history with zero-length requests: 0, 1, 0, 2 words give the first three keystream words -/
example : ∃ z, Impl.ZUC.new (List.replicate 16 0) (List.replicate 16 0) = .ok z ∧
    (Impl.ZUC.requests z [0, 1, 0, 2]).flatten
      = Spec.ZUC.stream (List.replicate 16 0) (List.replicate 16 0) 3 :=
  split_independent _ _ rfl rfl [0, 1, 0, 2]

theorem request_lengths (z : Impl.ZUC.ZUC) (ns : List Nat) :
    (Impl.ZUC.requests z ns).map List.length = ns :=
  Proofs.ZUC.request_lengths z ns

example (z : Impl.ZUC.ZUC) : (Impl.ZUC.requests z [0, 1, 0, 2]).map List.length = [0, 1, 0, 2] :=
  request_lengths z _

/-- short key/iv: the model panics exactly there (outside the property's statement; recorded) -/
theorem new_panic_iff (k iv : List UInt8) :
    Impl.ZUC.new k iv = .panic ↔ (k.length < 16 ∨ iv.length < 16) :=
  Proofs.ZUC.new_panic_iff k iv

example : Impl.ZUC.new (List.replicate 15 0) (List.replicate 16 0) = .panic :=
  (new_panic_iff _ _).2 (Or.inl (by decide))
example : Impl.ZUC.new (List.replicate 17 0) (List.replicate 16 0) ≠ .panic :=
  fun h => absurd ((new_panic_iff _ _).1 h) (by decide)

end GmVerif.Thm.C08
