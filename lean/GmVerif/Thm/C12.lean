/-
Property C12 (SM9 R-ate pairing), the provable components: the facts that tie the optimised pairing of the gm-sm9 model
(`Impl.SM9.sm9_u256_pairing`: signed-digit Miller loop, Frobenius maps with precomputed constants, addition chain for
the final exponentiation) to the parameters of the textbook definition (`Spec.SM9.miller`, `Spec.SM9.finalExp`).
Bilinearity / equality of the two pairings for all inputs is NOT proved here.
Only property theorems; definitions (`signedHorner`, `Ops`, `hardProg`, `finalProg`, `expOps`, `groupOps`, `decode`,
`implBasis`, …) and all lemmas live in `GmVerif.Proofs.SM9Pairing` and `GmVerif.Proofs.SM9Frobenius`.
-/
import GmVerif.Proofs.SM9Pairing
import GmVerif.Proofs.SM9Frobenius
namespace GmVerif.Thm.C12
open GmVerif GmVerif.Proofs.SM9Pairing GmVerif.Proofs.SM9Frobenius
open GmVerif.Impl.SM9 (abits)
open GmVerif.Spec.SM9 (t p N ateLoop finalExp bitsMSB)

/-! ## the Miller-loop string -/

/-- The loop of `sm9_u256_pairing` starts from `(r, t) = (1, Q)` and runs over ALL 65 characters of `abits`; every
character (the first included) first squares/doubles, then '1' adds Q, '2' adds −Q, anything else adds nothing.  So the
top digit is an IMPLICIT leading 1 (weight 2^65) that is not in the string, and with the digits '0' ↦ 0, '1' ↦ 1,
'2' ↦ −1 the identity is   2^65 + Σ_{i<65} dᵢ·2^(64−i) = 6t + 2 = `Spec.SM9.ateLoop`   (Horner form and sum form).
The specification's loop runs over the 65 bits of 6t+2 below its leading one, from the same start: same number of
doubling steps (15 additions there, 10 additions/subtractions here). -/
theorem abits_value :
    signedHorner abits.toList 1 = (ateLoop : Int)
      ∧ (2 : Int) ^ 65 + ((List.range 65).map fun i => digit (abits.toList.getD i '0') * 2 ^ (64 - i)).sum
          = ((6 * t + 2 : Nat) : Int)
      ∧ abits.toList.length = 65
      ∧ abits.toList.all (fun c => c = '0' ∨ c = '1' ∨ c = '2') = true
      ∧ bitHorner ((bitsMSB ateLoop).drop 1) 1 = ateLoop
      ∧ ((bitsMSB ateLoop).drop 1).length = 65 :=
  ⟨Proofs.SM9Pairing.abits_value, abits_sum, abits_length, abits_alphabet, spec_loop_value.1, spec_loop_value.2.1⟩
example : signedHorner "12".toList 1 = 5 ∧ signedHorner "x1".toList 1 = 5 ∧ digit '2' = -1 := by decide +kernel
/-- the implicit leading one matters: started from 0 the string alone does not evaluate to 6t+2 -/
example : signedHorner abits.toList 0 ≠ (ateLoop : Int) := by decide +kernel

/-- meaning of the value for a register driven like `t` in the loop: it ends at `[6t+2]Q` whenever `mulQ k = [k]Q`
satisfies the doubling / ±Q addition laws -/
theorem abits_scalar {α : Type} (dbl : α → α) (add : α → α → α) (mulQ : Int → α)
    (hdbl : ∀ k, dbl (mulQ k) = mulQ (2 * k)) (hadd : ∀ k, add (mulQ k) (mulQ 1) = mulQ (k + 1))
    (hsub : ∀ k, add (mulQ k) (mulQ (-1)) = mulQ (k - 1)) :
    abits.toList.foldl (fun T ch =>
        let T := dbl T
        if ch = '1' then add T (mulQ 1) else if ch = '2' then add T (mulQ (-1)) else T) (mulQ 1)
      = mulQ (ateLoop : Int) := by
  rw [loop_scalar dbl add mulQ hdbl hadd hsub, Proofs.SM9Pairing.abits_value]; rfl
example : abits.toList.foldl (fun (T : Int) ch =>
      let T := 2 * T
      if ch = '1' then T + 1 else if ch = '2' then T + (-1) else T) 1 = (ateLoop : Int) :=
  abits_scalar (fun k => 2 * k) (· + ·) id (fun _ => rfl) (fun _ => rfl) (fun _ => by simp only [id]; omega)

/-! ## the final exponentiation -/

/-- `final_exponent` IS the straight-line program `finalProg` (a line-by-line transliteration over an abstract
operation table) at the model's operations and constants; the same program run on exponents (g^e ↦ e: `fp_mul` ↦ +,
`fp_sqr` ↦ 2·, `pow k` ↦ ·k, `fp_inv` ↦ −, `frobenius^k` ↦ ·p^k) yields EXACTLY the integer (p¹²−1)/N — an equality in ℤ,
hence also the congruence mod p¹²−1 with the constant c = 1 (the model computes the pairing itself, not a fixed power). -/
theorem final_exp_exponent :
    (∀ x : Impl.SM9.Fp12, x.final_exponent
        = finalProg fp12Ops Impl.SM9.Fp12.hard_a3 Impl.SM9.Fp12.hard_nine Impl.SM9.Fp12.hard_a2 x)
      ∧ finalProg (expOps (p : Nat)) Impl.SM9.Fp12.hard_a3 Impl.SM9.Fp12.hard_nine Impl.SM9.Fp12.hard_a2 1
          = (finalExp : Int)
      ∧ finalProg (expOps (p : Nat)) Impl.SM9.Fp12.hard_a3 Impl.SM9.Fp12.hard_nine Impl.SM9.Fp12.hard_a2 1
            % ((p ^ 12 - 1 : Nat) : Int)
          = (1 * ((p ^ 12 - 1) / N : Nat) : Int) % ((p ^ 12 - 1 : Nat) : Int)
      ∧ Nat.Coprime 1 N
      ∧ finalExp * N = p ^ 12 - 1 := by
  refine ⟨final_exponent_is_prog, final_exponent_exact, ?_, Nat.coprime_one_left N, finalExp_facts.1⟩
  rw [final_exponent_exact, Int.one_mul]; rfl
/-- the program is not constant in its constants: with `nine` replaced by 8 the exponent is different -/
example : finalProg (expOps (p : Nat)) Impl.SM9.Fp12.hard_a3 8 Impl.SM9.Fp12.hard_a2 1 ≠ (finalExp : Int) := by
  decide +kernel

/-- soundness of the exponent interpretation, and the consequence: in every commutative group in which the p^k-power
Frobenius is x ↦ x^(p^k) (as in Fp12ˣ), the program of `final_exponent` is g ↦ g^((p¹²−1)/N) -/
theorem final_exp_group (G : Type) [CommGroup G] :
    (∀ (q a3 nine a2 : Nat) (g : G) (e : Int),
        finalProg (groupOps G q) a3 nine a2 (g ^ e) = g ^ finalProg (expOps q) a3 nine a2 e)
      ∧ ∀ g : G, finalProg (groupOps G p) Impl.SM9.Fp12.hard_a3 Impl.SM9.Fp12.hard_nine Impl.SM9.Fp12.hard_a2 g
          = g ^ finalExp :=
  ⟨finalProg_sound G, finalProg_group G⟩
example : finalProg (groupOps (Multiplicative Int) 2) 3 1 1 (Multiplicative.ofAdd 1)
    = Multiplicative.ofAdd (finalProg (expOps 2) 3 1 1 1) := by
  have h := (final_exp_group (Multiplicative Int)).1 2 3 1 1 (Multiplicative.ofAdd 1) 1
  rw [zpow_one] at h
  rw [h]; rfl

/-- the first part (first five lines of `final_exponent`) raises to (p⁶ − 1)(p² + 1) — for every Frobenius multiplier q
symbolically — and the rest is `final_exponent_hard_part` -/
theorem easy_part_exponent :
    (∀ x : Impl.SM9.Fp12, x.final_exponent = (easyProg fp12Ops x).final_exponent_hard_part)
      ∧ (∀ q e : Int, easyProg (expOps q) e = e * ((q ^ 6 - 1) * (q ^ 2 + 1)))
      ∧ easyProg (expOps (p : Nat)) 1 = (((p ^ 6 - 1) * (p ^ 2 + 1) : Nat) : Int)
      ∧ (p ^ 6 - 1) * (p ^ 2 + 1) * (p ^ 4 - p ^ 2 + 1) = p ^ 12 - 1 :=
  ⟨final_exponent_split, easy_exponent, easy_exponent_exact.1, easy_exponent_exact.2⟩
example : easyProg (expOps 2) 1 = 63 * 5 := by decide

/-- the hard part: `final_exponent_hard_part` is `hardProg` at the model's operations; on exponents it yields EXACTLY
(p⁴ − p² + 1)/N (c = 1), which is λ₃p³ + λ₂p² + λ₁p + λ₀ with the λ's below; and for EVERY BN parameter t the chain with
a3 = 6t+5, nine = 9, a2 = 6t²+1 computes (p(t)⁴ − p(t)² + 1)/N(t) -/
theorem hard_part_exponent :
    (∀ x : Impl.SM9.Fp12, x.final_exponent_hard_part
        = hardProg fp12Ops Impl.SM9.Fp12.hard_a3 Impl.SM9.Fp12.hard_nine Impl.SM9.Fp12.hard_a2 x)
      ∧ hardProg (expOps (p : Nat)) Impl.SM9.Fp12.hard_a3 Impl.SM9.Fp12.hard_nine Impl.SM9.Fp12.hard_a2 1
          = (((p ^ 4 - p ^ 2 + 1) / N : Nat) : Int)
      ∧ (p ^ 4 - p ^ 2 + 1) % N = 0
      ∧ (∀ (q e : Int) (a3 nine a2 : Nat), hardProg (expOps q) a3 nine a2 e
          = e * (q ^ 3 + (a2 : Int) * q ^ 2 + ((a2 : Int) * (2 - a3) - a3 + nine) * q
                  + (-(a2 : Int) * a3 - 2 * a3 + nine + 4)))
      ∧ (∀ (t : Nat) (e : Int),
          hardProg (expOps (bnP t)) (6 * t + 5) 9 (6 * t ^ 2 + 1) e * bnN t = e * (bnP t ^ 4 - bnP t ^ 2 + 1))
      ∧ bnP (t : Nat) = (p : Nat) ∧ bnN (t : Nat) = (N : Nat) :=
  ⟨hard_part_is_prog, hard_exponent_exact.1, hard_exponent_exact.2, hard_exponent_lambda,
    fun t e => (hard_exponent_bn t e).2, bn_instance.1, bn_instance.2⟩
example : hardProg (expOps (bnP 1)) (6 * 1 + 5) 9 (6 * 1 ^ 2 + 1) 1 * bnN 1 = bnP 1 ^ 4 - bnP 1 ^ 2 + 1
    ∧ bnP 1 = 103 ∧ bnN 1 = 97 := by decide

/-- the function-local constants of `final_exponent_hard_part`: a3 = 6t + 5, a2 = 6t² + 1, nine = 9, and all three pass
the `assert!` of `Fp12::pow` (so the model's use of `pow_loop` is the `pow` of the code) -/
theorem chain_constants :
    Impl.SM9.Fp12.hard_a3 = 6 * t + 5
      ∧ Impl.SM9.Fp12.hard_a2 = 6 * t ^ 2 + 1
      ∧ Impl.SM9.Fp12.hard_nine = 9
      ∧ Impl.SM9.Fp12.hard_a3 = 0x2400000000215d941
      ∧ Impl.SM9.Fp12.hard_a2 = 0xd8000000019062ed0000b98b0cb27659
      ∧ p = 36 * t ^ 4 + 36 * t ^ 3 + 24 * t ^ 2 + 6 * t + 1
      ∧ N = 36 * t ^ 4 + 36 * t ^ 3 + 18 * t ^ 2 + 6 * t + 1
      ∧ ∀ x : Impl.SM9.Fp12, x.pow Impl.SM9.Fp12.hard_a3 = .ok (x.pow_loop Impl.SM9.Fp12.hard_a3)
          ∧ x.pow Impl.SM9.Fp12.hard_nine = .ok (x.pow_loop Impl.SM9.Fp12.hard_nine)
          ∧ x.pow Impl.SM9.Fp12.hard_a2 = .ok (x.pow_loop Impl.SM9.Fp12.hard_a2) := by
  obtain ⟨h1, h2, h3, h4, h5, h6, h7⟩ := Proofs.SM9Pairing.chain_constants
  exact ⟨h1, h2, h3, h4, h5, h6, h7, pow_consts_ok⟩
example : Impl.SM9.Fp12.hard_a3 = ateLoop + 3 ∧ Impl.SM9.Fp12.hard_a3 ≠ 6 * t + 4 := by decide +kernel

/-! ## the Frobenius maps -/

/-- the Frobenius constants dumped from the crate: with α = (−2)^((p−1)/12) mod p (p ≡ 1 mod 12, −2 ≡ p−2),
MONT_ALPHAk = α^k·2²⁵⁶ mod p (Montgomery form) for k = 1..5, BETA = (ALPHA3, 0) ∈ Fp2, and α⁶ = (−2)^((p−1)/2) = −1:
−2 is a quadratic non-residue mod p (note p ≡ 1 mod 4; the non-residuosity of −2 is what makes u² = −2 a field
extension and conjugation the p-power map of Fp2) -/
theorem frobenius_constants :
    p % 12 = 1
      ∧ Gen.SM9.MONT_ALPHA1 = (p - 2) ^ (1 * ((p - 1) / 12)) % p * 2 ^ 256 % p
      ∧ Gen.SM9.MONT_ALPHA2 = (p - 2) ^ (2 * ((p - 1) / 12)) % p * 2 ^ 256 % p
      ∧ Gen.SM9.MONT_ALPHA3 = (p - 2) ^ (3 * ((p - 1) / 12)) % p * 2 ^ 256 % p
      ∧ Gen.SM9.MONT_ALPHA4 = (p - 2) ^ (4 * ((p - 1) / 12)) % p * 2 ^ 256 % p
      ∧ Gen.SM9.MONT_ALPHA5 = (p - 2) ^ (5 * ((p - 1) / 12)) % p * 2 ^ 256 % p
      ∧ Impl.SM9.MONT_BETA = ⟨Gen.SM9.MONT_ALPHA3, 0⟩
      ∧ (p - 2) ^ ((p - 1) / 2) % p = p - 1
      ∧ Gen.SM9.MODP_MONT_ONE = 2 ^ 256 % p :=
  Proofs.SM9Pairing.frobenius_constants
example : Gen.SM9.MONT_ALPHA1 ≠ Gen.SM9.MONT_ALPHA5 ∧ Gen.SM9.MONT_ALPHA2 ≠ Gen.SM9.MODP_MONT_ONE := by decide +kernel

/-- PARTIAL (basis elements only; Fp-linearity of both sides is not proved): for each of the twelve Fp-basis elements
wⁿ = wⁱvʲuˡ (n = i + 3j + 6l) of the tower, the model's `fp12_frobenius` of its Montgomery/tower representation
denotes (wⁿ)^p computed by the specification's literal x ↦ x^p in the dense Fp[w]/(w¹²+2); the value is αⁿ·wⁿ; in
particular u^p = −u; and on the basis the model's π², π³, π⁶ are the iterates of its π, with π⁶∘π⁶ = id. -/
theorem frobenius_on_basis_partial :
    (∀ n < 12, decode (implBasis n) = Spec.SM9.Fp12.pow Spec.SM9.Fp12.w n)
      ∧ (∀ n < 12, decode (implBasis n).fp12_frobenius
          = Spec.SM9.Fp12.frobenius (Spec.SM9.Fp12.pow Spec.SM9.Fp12.w n))
      ∧ (∀ n < 12, decode (implBasis n).fp12_frobenius
          = (List.range 12).map fun i => if i = n then Spec.EC.powMod (p - 2) (n * ((p - 1) / 12)) p else 0)
      ∧ Spec.SM9.Fp12.frobenius (Spec.SM9.Fp12.pow Spec.SM9.Fp12.w 6)
          = Spec.SM9.Fp12.neg (Spec.SM9.Fp12.pow Spec.SM9.Fp12.w 6)
      ∧ (∀ n < 12,
          (implBasis n).fp12_frobenius2 = (implBasis n).fp12_frobenius.fp12_frobenius
            ∧ (implBasis n).fp12_frobenius3 = (implBasis n).fp12_frobenius2.fp12_frobenius
            ∧ (implBasis n).fp12_frobenius6 = (implBasis n).fp12_frobenius3.fp12_frobenius3
            ∧ (implBasis n).fp12_frobenius6.fp12_frobenius6 = implBasis n) :=
  ⟨decode_basis, frob_basis, spec_frob_value, u_pow_p, frob_iterates⟩
/-- a dense element (tower coefficients 2, 3, …, 13): the model's Frobenius denotes the p-th power there too -/
example : decode sample = Spec.SM9.Fp12.ofTower ((List.range 12).map (· + 2))
    ∧ decode sample.fp12_frobenius = Spec.SM9.Fp12.frobenius (decode sample) := frob_sample
example : implBasis 0 = Impl.SM9.Fp12.one ∧ (implBasis 1).fp12_frobenius ≠ implBasis 1 := by decide +kernel

end GmVerif.Thm.C12
