/-
C09b (link Impl → Spec for the SM9 signature): the model of gm-sm9's `Sm9SignKey::sign` / `Sm9SignMasterKey::verify_sign`
computes what GM/T 0044.2 §6.2 / §7.2 say (`Spec.SM9.signWith`, `Spec.SM9.verify`), GIVEN ONE named hypothesis about the
pairing routine, `PairingRefines` (the model's R-ate pairing returns a canonical tower element denoting `Spec.SM9.pairing`,
on G1 × G2 — NOT proved, see `Proofs/SM9Bridge.lean`).  Everything else is proved:

* Part 1 (no hypothesis): the tower → dense bridge.  `tower_dense : TowerDense` — `dense` of the model's tower product is
  the product of the specification's dense Fp12 = Fp[w]/(w¹² + 2); corollaries `dense_pow`, `dense_bytes`, `dense_inj`.
* Part 2 (no hypothesis): `sign_no_panic'` — `Thm.C09.sign_no_panic` with its hypothesis `hpm` discharged by
  `Thm.C13c.point_mul_total`; the sampler's acceptance set (`sampler_step`, `accepts_range`) and where it differs from the
  standard's r ∈ [1, N−1]; `verify_total`; the model's pairing at infinity.
* Part 3 (PairingRefines): `sign_refines` — outcome by outcome against the standard's loop over the same candidates
  (`specSignLoop`), with `sign_first` / `sign_skip` / `sign_retry` for one candidate.
* Part 4 (PairingRefines): `verify_refines` — `verify_sign … = ok ↔ Spec.SM9.verify … = true` for Ppub-s ∈ G2 and every
  valid representation of S (the point at infinity included).  The model has NO curve test on S (cf. `Thm.C09.verify_ok_iff`):
  for an S off the curve the standard rejects in B2 and nothing can be said about the model (its pairing routine is run
  on a non-point); this is why `Valid s` is a hypothesis and not an error case.
* Part 5 (PairingRefines + `PairingFacts`, bilinearity of the specification's pairing): `sign_then_verify_impl`.
Only property theorems here; the work is in `Proofs.SM9TowerDense`, `Proofs.SM9SignRefinesG2`, `Proofs.SM9SignRefines`,
`Proofs.SM9SignRefinesVerify`.
-/
import GmVerif.Proofs.SM9SignRefinesVerify
import GmVerif.Thm.C09
import GmVerif.Thm.C13b
import GmVerif.Thm.C13c
import GmVerif.Thm.C13d
import GmVerif.Thm.SpecSM9

namespace GmVerif.Thm.C09b
open GmVerif GmVerif.Impl.SM9
open GmVerif.Proofs.SM9Tower (Canon12)
open GmVerif.Spec.SM9 (N)
open GmVerif.Thm.SpecSM9 (exKs exIdA exDsA exMsgS exRS)

/-! ## vocabulary (definitions of `Proofs/SM9Bridge.lean`, `Thm/C13c`, `Thm/C13d`, unchanged) -/

abbrev dense := Proofs.SM9Bridge.dense
abbrev TowerDense := Proofs.SM9Bridge.TowerDense
abbrev InG2 := Proofs.SM9Bridge.InG2
abbrev PairingRefines := Proofs.SM9Bridge.PairingRefines
abbrev PairingFacts := Proofs.SM9Algebra.PairingFacts
abbrev Valid := Thm.C13c.Valid
abbrev toSpec := Thm.C13c.toSpec
abbrev Valid2 := Proofs.SM9G2Impl.Valid2
abbrev toSpec2 := Proofs.SM9G2Impl.toSpec2

example (a : Fp12) : dense a = Spec.SM9.Fp12.ofTower (Proofs.SM9Tower.towerList a) := rfl
example (Q : TwistPoint) : InG2 Q ↔ Valid2 Q ∧ Spec.SM9.mul2 N (toSpec2 Q) = none := Iff.rfl
/-- THE hypothesis, spelled out -/
example : PairingRefines ↔
    (∀ Q P, InG2 Q → Valid P → Canon12 (sm9_u256_pairing Q P)) ∧
    (∀ Q P, InG2 Q → Valid P → dense (sm9_u256_pairing Q P) = Spec.SM9.pairing (toSpec P) (toSpec2 Q)) :=
  ⟨fun h => ⟨h.canon, h.value⟩, fun h => ⟨h.1, h.2⟩⟩

/-! ## Part 1 — the tower → dense bridge (no hypothesis) -/

/-- tower multiplication is dense multiplication: `dense 1 = 1` and, on canonical elements,
`dense (a·b) = dense a · dense b` in Fp[w]/(w¹² + 2) -/
theorem tower_dense : TowerDense := Proofs.SM9TowerDense.tower_dense

example : dense (C13b.A12.fp_mul C13b.B12) = Spec.SM9.Fp12.mul (dense C13b.A12) (dense C13b.B12) :=
  tower_dense.mul _ _ (by decide +kernel) (by decide +kernel)
/-- cross-check by kernel evaluation of both sides, and the product is not trivial -/
example : dense (C13b.A12.fp_mul C13b.B12) = Spec.SM9.Fp12.mul (dense C13b.A12) (dense C13b.B12)
    ∧ dense (C13b.A12.fp_mul C13b.B12) ≠ Spec.SM9.Fp12.one ∧ dense C13b.A12 ≠ dense C13b.B12 := by decide +kernel

/-- `Fp12::pow` (its `assert!` passes for e ≤ N − 1) is the specification's square-and-multiply on the dense value -/
theorem dense_pow (a : Fp12) (e : Nat) (ha : Canon12 a) (he : e ≤ N - 1) :
    ∃ r, a.pow e = .ok r ∧ Canon12 r ∧ dense r = Spec.SM9.Fp12.pow (dense a) e :=
  Proofs.SM9TowerDense.dense_pow a e ha he

example : ∃ r, C13b.A12.pow (N - 1) = .ok r ∧ dense r = Spec.SM9.Fp12.pow (dense C13b.A12) (N - 1) :=
  let ⟨r, h1, _, h3⟩ := dense_pow C13b.A12 (N - 1) (by decide +kernel) (Nat.le_refl _)
  ⟨r, h1, h3⟩
/-- the bound is needed: above it the `assert!` fires -/
example : C13b.A12.pow N = .panic := by decide +kernel

/-- `Fp12::to_bytes_be` is the specification's 384-byte encoding of the dense value -/
theorem dense_bytes (a : Fp12) (ha : Canon12 a) : a.to_bytes_be = Spec.SM9.Fp12.toBytes (dense a) :=
  Proofs.SM9TowerDense.dense_bytes a ha

example : C13b.A12.to_bytes_be = Spec.SM9.Fp12.toBytes (dense C13b.A12) ∧ C13b.A12.to_bytes_be.length = 384 :=
  ⟨dense_bytes _ (by decide +kernel), by decide +kernel⟩

/-- `dense` is injective on canonical tower elements -/
theorem dense_inj (a b : Fp12) (ha : Canon12 a) (hb : Canon12 b) (h : dense a = dense b) : a = b :=
  Proofs.SM9TowerDense.dense_inj a b ha hb h

example : dense C13b.A12 ≠ dense C13b.B12 := fun h =>
  absurd (dense_inj _ _ (by decide +kernel) (by decide +kernel) h) (by decide +kernel)

/-! ## Part 2 — hypothesis-free facts -/

/-- `Thm.C09.sign_no_panic` without its hypothesis `hpm` (`Point::point_mul` returns for every 256-bit scalar:
`Thm.C13c.point_mul_total`) -/
theorem sign_no_panic' (key : Sm9SignKey) (data : List UInt8) (cands : List (List UInt8)) :
    key.sign data cands ≠ .panic :=
  Thm.C09.sign_no_panic key data cands Thm.C13c.point_mul_total

example (key : Sm9SignKey) : key.sign [1, 2, 3] [natBE 32 5, natBE 32 7] ≠ .panic := sign_no_panic' _ _ _

/-- `verify_sign` never panics (no hypothesis; restated from `Thm.C09.verify_total`) -/
theorem verify_total (m : Sm9SignMasterKey) (id data : List UInt8) (h : Nat) (s : Point) :
    m.verify_sign id data h s ≠ .panic := Thm.C09.verify_total m id data h s

example (m : Sm9SignMasterKey) (s : Point) : m.verify_sign [1] [2] (2 ^ 256 - 1) s ≠ .panic := verify_total _ _ _ _ _

/-- the acceptance set of `sm9_random_u256(N − 1)`: r < N − 1 whose LOW 64 BITS are not all zero (the test
`ret >= [1, 0, 0, 0]` is the array order from limb 0) -/
abbrev Accepts := Proofs.SM9SignRefines.Accepts
example (r : Nat) : Accepts r ↔ r < N - 1 ∧ r % 2 ^ 64 ≠ 0 := Iff.rfl

/-- the sampler takes the first accepted candidate -/
theorem sampler_step (c : List UInt8) (cs : List (List UInt8)) :
    sm9_random_u256 Gen.SM9.N_MINUS_ONE (c :: cs) =
      if Accepts (beNat c) then some (beNat c, cs) else sm9_random_u256 Gen.SM9.N_MINUS_ONE cs :=
  Proofs.SM9SignRefines.random_cons c cs

/-- what it accepts is in the standard's range r ∈ [1, N−1] … -/
theorem accepts_range {r : Nat} (h : Accepts r) : 1 ≤ r ∧ r ≤ N - 1 :=
  let ⟨h1, h2⟩ := Proofs.SM9SignRefines.accepts_range h
  ⟨h1, by omega⟩

/-- … but not conversely: r = N − 1 and every r with zero low limb (2^64, 2^65, …) are legal for the standard and
never produced by the model; the Annex A nonce is accepted -/
example : ¬ Accepts (N - 1) ∧ ¬ Accepts (2 ^ 64) ∧ (1 ≤ 2 ^ 64 ∧ 2 ^ 64 ≤ N - 1) ∧ Accepts exRS ∧ Accepts 1
    ∧ Accepts (N - 2) := by decide +kernel
example : sm9_random_u256 Gen.SM9.N_MINUS_ONE [natBE 32 (N - 1), natBE 32 (2 ^ 64), natBE 32 0, natBE 32 exRS, [7]]
    = some (exRS, [[7]]) := by decide +kernel

/-- the model's pairing routine answers 1 as soon as P (resp. Q) is a representation of the point at infinity, as the
specification does: the hypothesis `PairingRefines` is consistent there -/
theorem pairing_at_infinity (Q : TwistPoint) (P : Point) (hz : P.z = 0) :
    sm9_u256_pairing Q P = Fp12.one ∧ dense (sm9_u256_pairing Q P) = Spec.SM9.pairing (toSpec P) (toSpec2 Q) := by
  have h := Proofs.SM9SignRefines.pairing_inf_left Q P hz
  refine ⟨h, ?_⟩
  have hP : toSpec P = none := by simp only [toSpec, Thm.C13c.toSpec, Proofs.SM9G1.toSpec, hz, if_true]
  rw [h, hP, Proofs.SM9Algebra.pairing_none_left]
  exact tower_dense.one

example : sm9_u256_pairing TWIST_POINT_MONT_P2 Point.zero = Fp12.one :=
  (pairing_at_infinity _ _ rfl).1

/-! ## Part 3 — signing (hypothesis: PairingRefines) -/

/-- THE SPECIFICATION'S SIGNING LOOP over a candidate list (GM/T 0044.2 §6.2 A2–A7 with the sampler's filter): rejected
candidates are skipped (not logged); for an accepted r, `Spec.SM9.signWith` either returns (h, S) — the result, with r
appended to the log and the unused candidates — or asks for a new r (r is logged, the loop goes on); `none` = exhausted -/
abbrev specSignLoop := Proofs.SM9SignRefines.specSignLoop

theorem specSignLoop_nil (Ppubs ds msg used) : specSignLoop Ppubs ds msg [] used = none := rfl
theorem specSignLoop_cons (Ppubs ds msg c cs used) :
    specSignLoop Ppubs ds msg (c :: cs) used =
      if Accepts (beNat c) then
        match Spec.SM9.signWith Ppubs ds msg (beNat c) with
        | some hs => some (hs, used ++ [beNat c], cs)
        | none => specSignLoop Ppubs ds msg cs (used ++ [beNat c])
      else specSignLoop Ppubs ds msg cs used := by
  rw [specSignLoop, Proofs.SM9SignRefines.specSignLoop]; rfl
example (Ppubs ds msg cs used) :
    specSignLoop Ppubs ds msg (natBE 32 (N - 1) :: cs) used = specSignLoop Ppubs ds msg cs used := by
  rw [specSignLoop_cons, if_neg (by decide +kernel)]

/-- a result of the specification's loop comes from `signWith` on an accepted candidate r (the last scalar logged) -/
theorem specSignLoop_some {Ppubs ds msg cands used hs used' rest}
    (h : specSignLoop Ppubs ds msg cands used = some (hs, used', rest)) :
    ∃ r skipped, Accepts r ∧ Spec.SM9.signWith Ppubs ds msg r = some hs ∧ used' = used ++ skipped ++ [r]
      ∧ rest.length < cands.length := Proofs.SM9SignRefines.specSignLoop_some h

/-- THE PROPERTY (signing): for a signing key whose `ds` is a valid representation and whose `ppubs` is in G2, every
message and every candidate list, `sign` fails exactly when the standard's loop over the same candidates is exhausted
(error "rng-exhausted", never a panic) and otherwise returns the standard's h, a valid representation of the standard's
S (encoded as the standard encodes it when S ≠ O), the scalars consumed and the candidates left -/
theorem sign_refines (PR : PairingRefines) (key : Sm9SignKey) (hds : Valid key.ds) (hpp : InG2 key.ppubs)
    (data : List UInt8) (cands : List (List UInt8)) :
    match specSignLoop (toSpec2 key.ppubs) (toSpec key.ds) data cands [] with
    | none => key.sign data cands = .err "rng-exhausted"
    | some ((h, S), used, rest) =>
      ∃ s, key.sign data cands = .ok ⟨(h, s), used, rest⟩ ∧ Valid s ∧ toSpec s = S
        ∧ (S ≠ none → s.to_bytes_be = Spec.SM9.encodePoint S) :=
  Proofs.SM9SignRefines.sign_refines PR key hds hpp data cands

/-- the first candidate is accepted and the standard signs with it (shape of `Thm.C03.sign_raw_refines`) -/
theorem sign_first (PR : PairingRefines) (key : Sm9SignKey) (hds : Valid key.ds) (hpp : InG2 key.ppubs)
    (data : List UInt8) (c : List UInt8) (rest : List (List UInt8)) (hc : Accepts (beNat c)) (h : Nat) (S : Spec.EC.Pt)
    (hs : Spec.SM9.signWith (toSpec2 key.ppubs) (toSpec key.ds) data (beNat c) = some (h, S)) :
    ∃ s, key.sign data (c :: rest) = .ok ⟨(h, s), [beNat c], rest⟩ ∧ Valid s ∧ toSpec s = S
      ∧ (S ≠ none → s.to_bytes_be = Spec.SM9.encodePoint S) :=
  Proofs.SM9SignRefines.sign_first PR key hds hpp data c rest hc h S hs

/-- a candidate outside the acceptance set is skipped -/
theorem sign_skip (PR : PairingRefines) (key : Sm9SignKey) (hpp : InG2 key.ppubs) (data : List UInt8)
    (c : List UInt8) (rest : List (List UInt8)) (hc : ¬ Accepts (beNat c)) :
    key.sign data (c :: rest) = key.sign data rest :=
  Proofs.SM9SignRefines.sign_skip PR key hpp data c rest hc

/-- "return to A2" (l = 0): the model logs r and takes the next candidate (shape of `Thm.C03.sign_raw_retry`) -/
theorem sign_retry (PR : PairingRefines) (key : Sm9SignKey) (hpp : InG2 key.ppubs) (data : List UInt8) (ds : Spec.EC.Pt)
    (c : List UInt8) (rest : List (List UInt8)) (used : List Nat) (fuel : Nat) (hf : rest.length < fuel)
    (hc : Accepts (beNat c)) (hs : Spec.SM9.signWith (toSpec2 key.ppubs) ds data (beNat c) = none) :
    signLoop (sm9_u256_pairing key.ppubs POINT_MONT_P1) data (fuel + 1) (c :: rest) used =
      signLoop (sm9_u256_pairing key.ppubs POINT_MONT_P1) data fuel rest (used ++ [beNat c]) :=
  Proofs.SM9SignRefines.sign_retry PR key hpp data ds c rest used fuel hf hc hs

/-! non-vacuity: the hypotheses on the key are met by the Annex A key as the model produces it (master key `exKs`,
identity "Alice"): Ppub-s = `TwistPoint.g_mul exKs` ∈ G2 decodes to the standard's [ks]P2 and ds decodes to the Annex's ds_A.
(`PairingRefines` itself is the unproved link; the pairing is not evaluated in the kernel.) -/

/-- [k]P2 as the model computes it is in G2 and decodes to the standard's master public key -/
theorem g_mul_inG2 (k : Nat) (hk : k < 2 ^ 256) :
    InG2 (TwistPoint.g_mul k) ∧ toSpec2 (TwistPoint.g_mul k) = Spec.SM9.signMasterPub k :=
  ⟨Proofs.SM9SignRefines.inG2_g_mul k hk, Thm.C13d.twist_g_mul_correct k hk⟩

example : InG2 (TwistPoint.g_mul exKs) ∧ InG2 TWIST_POINT_MONT_P2 ∧ InG2 TwistPoint.zero :=
  ⟨(g_mul_inG2 exKs (by decide)).1, Proofs.SM9SignRefines.inG2_generator, Proofs.SM9SignRefines.inG2_zero⟩

/-- the Annex A signing key, extracted by the model (`m` = the master key ⟨exKs, g_mul exKs⟩, kept opaque so that
nothing tries to evaluate the extraction by unfolding) -/
theorem ex_key (m : Sm9SignMasterKey) (hm : m.ks = exKs) (hp : m.ppubs = TwistPoint.g_mul exKs) : ∃ key : Sm9SignKey,
    m.extract_key exIdA = .ok (some key)
      ∧ Valid key.ds ∧ InG2 key.ppubs ∧ toSpec key.ds = exDsA ∧ toSpec2 key.ppubs = Spec.SM9.signMasterPub exKs := by
  have hlt : m.ks < N := by rw [hm]; decide +kernel
  have h := Thm.C13c.extract_sign_refines m hlt exIdA
  rw [hm, Thm.SpecSM9.ex_extractSign] at h
  obtain ⟨key, h1, h2, h3, h4, _⟩ := h
  rw [hp] at h2
  exact ⟨key, h1, h3, by rw [h2]; exact (g_mul_inG2 exKs (by decide)).1, h4,
    by rw [h2]; exact (g_mul_inG2 exKs (by decide)).2⟩

/-- `sign_refines` / `sign_first` on that key: with the Annex nonce r as the only candidate the model's `sign` returns
exactly what `Spec.SM9.signWith` returns for it (whatever it is: the pairing is not evaluated here) -/
example (PR : PairingRefines) (key : Sm9SignKey) (hds : Valid key.ds) (hpp : InG2 key.ppubs) (h : Nat) (S : Spec.EC.Pt)
    (hs : Spec.SM9.signWith (toSpec2 key.ppubs) (toSpec key.ds) exMsgS exRS = some (h, S)) :
    ∃ s, key.sign exMsgS [natBE 32 exRS] = .ok ⟨(h, s), [exRS], []⟩ ∧ toSpec s = S := by
  have e : beNat (natBE 32 exRS) = exRS := by decide +kernel
  obtain ⟨s, h1, _, h3, _⟩ := sign_first PR key hds hpp exMsgS (natBE 32 exRS) [] (by rw [e]; decide +kernel) h S
    (by rw [e]; exact hs)
  exact ⟨s, by rw [h1, e], h3⟩
/-- the failure branch is reachable: no candidate (or only rejected ones) -/
example (PR : PairingRefines) (key : Sm9SignKey) (hds : Valid key.ds) (hpp : InG2 key.ppubs) :
    key.sign exMsgS [natBE 32 (N - 1), natBE 32 0] = .err "rng-exhausted" := by
  have h := sign_refines PR key hds hpp exMsgS [natBE 32 (N - 1), natBE 32 0]
  rw [specSignLoop_cons, if_neg (by decide +kernel), specSignLoop_cons, if_neg (by decide +kernel)] at h
  exact h

/-! ## Part 4 — verification (hypothesis: PairingRefines) -/

/-- THE PROPERTY (verification): for a master public key in G2, every identity, message and h, and every VALID
representation s of a point S (on the curve or the point at infinity; canonical coordinates), the model accepts exactly
when the standard's verifier B1–B9 accepts.  An h outside [1, N−1] is an error on both sides.  The model performs no curve
test on S: `Valid s` cannot be dropped (see the header). -/
theorem verify_refines (PR : PairingRefines) (m : Sm9SignMasterKey) (hpp : InG2 m.ppubs) (id data : List UInt8)
    (h : Nat) (s : Point) (hs : Valid s) :
    m.verify_sign id data h s = .ok () ↔ Spec.SM9.verify (toSpec2 m.ppubs) id data h (toSpec s) = true :=
  Proofs.SM9SignRefines.verify_refines PR m hpp id data h s hs

/-- the two directions -/
theorem verify_sound (PR : PairingRefines) (m : Sm9SignMasterKey) (hpp : InG2 m.ppubs) (id data : List UInt8)
    (h : Nat) (s : Point) (hs : Valid s) (hv : m.verify_sign id data h s = .ok ()) :
    Spec.SM9.verify (toSpec2 m.ppubs) id data h (toSpec s) = true := (verify_refines PR m hpp id data h s hs).mp hv
theorem verify_complete (PR : PairingRefines) (m : Sm9SignMasterKey) (hpp : InG2 m.ppubs) (id data : List UInt8)
    (h : Nat) (s : Point) (hs : Valid s)
    (hv : Spec.SM9.verify (toSpec2 m.ppubs) id data h (toSpec s) = true) : m.verify_sign id data h s = .ok () :=
  (verify_refines PR m hpp id data h s hs).mpr hv

/-- when the standard rejects, the model reports an error (never a panic) -/
theorem verify_reject (PR : PairingRefines) (m : Sm9SignMasterKey) (hpp : InG2 m.ppubs) (id data : List UInt8)
    (h : Nat) (s : Point) (hs : Valid s)
    (hv : Spec.SM9.verify (toSpec2 m.ppubs) id data h (toSpec s) = false) : ∃ e, m.verify_sign id data h s = .err e := by
  have h1 := verify_total m id data h s
  have h2 := mt (verify_refines PR m hpp id data h s hs).mp (by rw [hv]; decide)
  cases hr : m.verify_sign id data h s with
  | ok u => exact absurd hr h2
  | err e => exact ⟨e, rfl⟩
  | panic => exact absurd hr h1

/-- S as it comes off the wire (`Point::from_bytes`, ≥ 65 bytes: canonical coordinates, Z = 1): the model's own
`is_on_curve` test is then exactly `Valid`, so a caller that runs it before `verify_sign` (which does not) is covered by
`verify_refines`.  Without that test nothing is claimed. -/
theorem verify_refines_from_bytes (PR : PairingRefines) (m : Sm9SignMasterKey) (hpp : InG2 m.ppubs)
    (id data : List UInt8) (h : Nat) (b : List UInt8) (hb : 65 ≤ b.length) :
    ∃ s, Point.from_bytes b = .ok s ∧ (s.is_on_curve = true ↔ Valid s) ∧
      (s.is_on_curve = true →
        (m.verify_sign id data h s = .ok () ↔ Spec.SM9.verify (toSpec2 m.ppubs) id data h (toSpec s) = true)) := by
  obtain ⟨s, h1, _, h3⟩ := Proofs.SM9SignRefines.from_bytes_valid_iff b hb
  exact ⟨s, h1, h3, fun hon => verify_refines PR m hpp id data h s (h3.mp hon)⟩

/-- both cases occur: the encoding of P1 decodes to a point that passes the test, 04 ‖ 0…0 to one that fails it -/
example : (Point.from_bytes Thm.C13c.G1.to_bytes_be).map (·.is_on_curve) = .ok true
    ∧ (Point.from_bytes (4 :: List.replicate 64 0)).map (·.is_on_curve) = .ok false := by decide +kernel

/-- the hypotheses are met (Ppub-s of the Annex, S = [2]P1 in a Z ≠ 1 representation), and both sides of the `↔` are
refutable there: h = 0 -/
example : InG2 (⟨exKs, TwistPoint.g_mul exKs⟩ : Sm9SignMasterKey).ppubs ∧ Valid Thm.C13c.D1 ∧ Valid Point.zero :=
  ⟨by dsimp only; exact (g_mul_inG2 exKs (by decide)).1, Thm.C13c.D1_valid, Thm.C13c.zero_valid⟩
example (PR : PairingRefines) (m : Sm9SignMasterKey) (hp : m.ppubs = TwistPoint.g_mul exKs) :
    Spec.SM9.verify (Spec.SM9.signMasterPub exKs) exIdA exMsgS 0 (toSpec Thm.C13c.D1) = false
      ∧ m.verify_sign exIdA exMsgS 0 Thm.C13c.D1 ≠ .ok () := by
  have hv : Spec.SM9.verify (Spec.SM9.signMasterPub exKs) exIdA exMsgS 0 (toSpec Thm.C13c.D1) = false :=
    Proofs.SM9SignRefines.spec_verify_range _ _ _ _ _ (Or.inl rfl)
  refine ⟨hv, fun hc => ?_⟩
  have := (verify_refines PR m (by rw [hp]; exact (g_mul_inG2 exKs (by decide)).1) exIdA exMsgS 0 Thm.C13c.D1
    Thm.C13c.D1_valid).mp hc
  rw [hp, (g_mul_inG2 exKs (by decide)).2, hv] at this
  cases this

/-! ## Part 5 — end to end (hypotheses: PairingRefines, and bilinearity `PairingFacts` of the specification's pairing) -/

/-- a signature produced by the model's `sign` with the key the model's `extract_key` extracted for `id` from a master key
ks ∈ [1, N−1] with Ppub-s = `TwistPoint.g_mul ks` is accepted by the model's `verify_sign` for `id` — and by the standard's
verifier; S is a valid representation, h ∈ [1, N−1] -/
theorem sign_then_verify_impl (PR : PairingRefines) (F : PairingFacts) (ks : Nat) (hks : 1 ≤ ks ∧ ks ≤ N - 1)
    (id data : List UInt8) (cands : List (List UInt8)) (key : Sm9SignKey)
    (hkey : (⟨ks, TwistPoint.g_mul ks⟩ : Sm9SignMasterKey).extract_key id = .ok (some key))
    (h : Nat) (S : Point) (used : List Nat) (rest : List (List UInt8))
    (hsig : key.sign data cands = .ok ⟨(h, S), used, rest⟩) :
    (⟨ks, TwistPoint.g_mul ks⟩ : Sm9SignMasterKey).verify_sign id data h S = .ok ()
      ∧ Spec.SM9.verify (Spec.SM9.signMasterPub ks) id data h (toSpec S) = true
      ∧ Valid S ∧ 1 ≤ h ∧ h ≤ N - 1 := by
  have hN : 0 < N := by decide
  have hks' : 1 ≤ ks ∧ ks < N := ⟨hks.1, by omega⟩
  obtain ⟨h1, h2, h3, h4, h5⟩ := Proofs.SM9SignRefines.sign_then_verify_impl PR F ⟨ks, TwistPoint.g_mul ks⟩
    (by dsimp only; exact hks') (by dsimp only) id data cands key hkey h S used rest hsig
  exact ⟨h1, h2, h3, h4, by omega⟩

/-- the premises are met up to the pairing: the Annex A master key is in range, the model extracts Alice's key (`ex_key`),
and by `sign_refines` its `sign` succeeds exactly when the standard's loop does -/
example (PR : PairingRefines) (F : PairingFacts) (cands : List (List UInt8)) (key : Sm9SignKey)
    (hkey : (⟨exKs, TwistPoint.g_mul exKs⟩ : Sm9SignMasterKey).extract_key exIdA = .ok (some key))
    (h : Nat) (S : Point) (used : List Nat) (rest : List (List UInt8))
    (hsig : key.sign exMsgS cands = .ok ⟨(h, S), used, rest⟩) :
    (⟨exKs, TwistPoint.g_mul exKs⟩ : Sm9SignMasterKey).verify_sign exIdA exMsgS h S = .ok () :=
  (sign_then_verify_impl PR F exKs (by decide +kernel) exIdA exMsgS cands key hkey h S used rest hsig).1
example : (1 ≤ exKs ∧ exKs ≤ N - 1) ∧
    ∃ key, (⟨exKs, TwistPoint.g_mul exKs⟩ : Sm9SignMasterKey).extract_key exIdA = .ok (some key) :=
  ⟨by decide +kernel, let ⟨key, h, _⟩ := ex_key ⟨exKs, TwistPoint.g_mul exKs⟩ (by dsimp only) (by dsimp only); ⟨key, h⟩⟩

end GmVerif.Thm.C09b
